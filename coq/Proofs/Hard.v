(* Lemmas and proofs about Model/Hard.v *)
From Kava Require Import Base.Prelude Base.Dec Model.Hard.
Local Open Scope Z_scope.

(** ** the outcome monad *)
Lemma bind_ok {A B} (r : res A) (f : A -> res B) b :
  bind r f = Ok b tt -> exists a, r = Ok a tt /\ f a = Ok b tt.
Proof. destruct r as [a []| |]; cbn; intros H; [eauto|discriminate|discriminate]. Qed.

Lemma err_unless_ok b x : err_unless b = Ok x tt -> b = true.
Proof. destruct b; cbn; [reflexivity|discriminate]. Qed.
Lemma panic_unless_ok b x : panic_unless b = Ok x tt -> b = true.
Proof. destruct b; cbn; [reflexivity|discriminate]. Qed.
Lemma opt_err_ok {A} (o : option A) a : opt_err o = Ok a tt -> o = Some a.
Proof. destruct o; cbn; intros H; [inversion H; reflexivity|discriminate]. Qed.
Lemma ret_ok {A} (a b : A) : ret a = Ok b tt -> a = b.
Proof. intros H; inversion H; reflexivity. Qed.

Tactic Notation "inv_bind" hyp(H) "as" ident(a) ident(E) :=
  apply bind_ok in H; destruct H as (a & E & H).
Ltac inv_bind0 H :=
  let a := fresh "x" in let E := fresh "E" in
  apply bind_ok in H; destruct H as (a & E & H).

(** ** coins: dependence on the modelled denom range only *)
Definition ceq (n : nat) (a b : coins) : Prop := forall d, (d < n)%nat -> a d = b d.

Lemma denoms_ext n a b : ceq n a b -> denoms n a = denoms n b.
Proof.
  intros H. unfold denoms. apply filter_ext_in. intros d Hd. apply in_seq in Hd.
  rewrite H by lia. reflexivity.
Qed.

Lemma denoms_lt n c d : In d (denoms n c) -> (d < n)%nat /\ c d <> 0.
Proof.
  unfold denoms. rewrite filter_In, in_seq. intros [H1 H2].
  split; [lia|]. destruct (Z.eqb_spec (c d) 0); [discriminate|assumption].
Qed.

Lemma denoms_in n c d : (d < n)%nat -> c d <> 0 -> In d (denoms n c).
Proof.
  intros H1 H2. unfold denoms. rewrite filter_In, in_seq. split; [lia|].
  destruct (Z.eqb_spec (c d) 0); [contradiction|reflexivity].
Qed.

Lemma cempty_spec n c : cempty n c = true <-> ceq n c czero.
Proof.
  unfold cempty, ceq, czero. rewrite forallb_forall. split.
  - intros H d Hd. specialize (H d). rewrite in_seq in H. apply Z.eqb_eq, H. lia.
  - intros H d Hd. apply in_seq in Hd. apply Z.eqb_eq, H. lia.
Qed.

Lemma map_ext_denoms {B} n c (f g : nat -> B) :
  (forall d, (d < n)%nat -> c d <> 0 -> f d = g d) -> map f (denoms n c) = map g (denoms n c).
Proof. intros H. apply map_ext_in. intros d Hd. apply denoms_lt in Hd. apply H; tauto. Qed.

Lemma forallb_ext' {A} (f g : A -> bool) l : (forall x, f x = g x) -> forallb f l = forallb g l.
Proof. intros H. induction l as [|x l IH]; cbn; [reflexivity|]. rewrite H, IH. reflexivity. Qed.

(** valuation depends on the state only through the prices, and on coins only inside the range *)
(* two states value coins alike when they agree on prices and on the money-market store *)
Definition same_val (s s' : state) : Prop := price s' = price s /\ mkts s' = mkts s.
Lemma same_val_refl s : same_val s s. Proof. split; reflexivity. Qed.
Lemma same_val_trans a b c : same_val a b -> same_val b c -> same_val a c.
Proof. intros [A1 A2] [B1 B2]. split; congruence. Qed.
Lemma mkt_price e s s' d : same_val s s' -> mkt e s' d = mkt e s d.
Proof. intros [H1 H2]. unfold mkt. rewrite H1, H2. reflexivity. Qed.

Lemma all_priced_ext e s s' c c' : same_val s s' -> ceq (nd e) c c' ->
  all_priced e s' c' = all_priced e s c.
Proof.
  intros Hp Hc. unfold all_priced. rewrite <- (denoms_ext _ _ _ Hc).
  apply forallb_ext'. intros d. rewrite (mkt_price _ _ _ _ Hp). reflexivity.
Qed.

Lemma value_of_ext e s s' c c' : same_val s s' -> ceq (nd e) c c' ->
  value_of e s' c' = value_of e s c.
Proof.
  intros Hp Hc. unfold value_of, sum_over. rewrite <- (denoms_ext _ _ _ Hc). f_equal.
  apply map_ext_denoms. intros d Hd _. unfold usd_d. rewrite (mkt_price _ _ _ _ Hp), (Hc d Hd). reflexivity.
Qed.

Lemma borrowable_of_ext e s s' c c' : same_val s s' -> ceq (nd e) c c' ->
  borrowable_of e s' c' = borrowable_of e s c.
Proof.
  intros Hp Hc. unfold borrowable_of, sum_over. rewrite <- (denoms_ext _ _ _ Hc). f_equal.
  apply map_ext_denoms. intros d Hd _. unfold usd_d, ltv_d. rewrite (mkt_price _ _ _ _ Hp), (Hc d Hd).
  destruct Hp as [_ ->]. reflexivity.
Qed.

Lemma within_ltv_ext e s s' dp dp' bw bw' :
  same_val s s' -> ceq (nd e) dp dp' -> ceq (nd e) bw bw' ->
  within_ltv e s' dp' bw' = within_ltv e s dp bw.
Proof.
  intros Hp Hd Hb. unfold within_ltv.
  rewrite (all_priced_ext _ _ _ _ _ Hp Hd), (all_priced_ext _ _ _ _ _ Hp Hb),
          (borrowable_of_ext _ _ _ _ _ Hp Hd), (value_of_ext _ _ _ _ _ Hp Hb). reflexivity.
Qed.

(* the coins of a stored record: an empty result deletes the record *)
Lemma amt_of_store n (a : coins) ix :
  ceq n (amt_of (if cempty n a then None else Some (mkU a ix))) a.
Proof.
  destruct (cempty n a) eqn:E; cbn [amt_of amt].
  - apply cempty_spec in E. intros d Hd. symmetry. apply E, Hd.
  - intros d _. reflexivity.
Qed.

(** ** frame properties of the interest sync *)
Lemma sync_supply_frame e s u s' : sync_supply e s u = Ok s' tt ->
  bal s' = bal s /\ same_val s s' /\ bor s' = bor s /\ sfac s' = sfac s /\ bfac s' = bfac s /\
  prev s' = prev s /\ tsup s' = tsup s /\ tbor s' = tbor s /\ tres s' = tres s /\
  (forall v, v <> u -> dep s' v = dep s v) /\
  (dep s u = None -> dep s' u = None) /\ (dep s u <> None -> dep s' u <> None).
Proof.
  unfold sync_supply. destruct (dep s u) as [r|] eqn:E.
  - intros H. inv_bind0 H. apply ret_ok in H. subst s'. cbn.
    repeat split; try reflexivity.
    + intros v Hv. unfold upd. destruct (Nat.eqb_spec v u); [contradiction|reflexivity].
    + discriminate.
    + intros _. unfold upd. rewrite Nat.eqb_refl. discriminate.
  - intros H. apply ret_ok in H. subst s'. repeat split; try reflexivity; try tauto.
Qed.

Lemma sync_borrow_frame e s u s' : sync_borrow e s u = Ok s' tt ->
  bal s' = bal s /\ same_val s s' /\ dep s' = dep s /\ sfac s' = sfac s /\ bfac s' = bfac s /\
  prev s' = prev s /\ tsup s' = tsup s /\ tbor s' = tbor s /\ tres s' = tres s /\
  (forall v, v <> u -> bor s' v = bor s v) /\
  (bor s u = None -> bor s' u = None) /\ (bor s u <> None -> bor s' u <> None).
Proof.
  unfold sync_borrow. destruct (bor s u) as [r|] eqn:E.
  - intros H. inv_bind0 H. apply ret_ok in H. subst s'. cbn.
    repeat split; try reflexivity.
    + intros v Hv. unfold upd. destruct (Nat.eqb_spec v u); [contradiction|reflexivity].
    + discriminate.
    + intros _. unfold upd. rewrite Nat.eqb_refl. discriminate.
  - intros H. apply ret_ok in H. subst s'. repeat split; try reflexivity; try tauto.
Qed.

Lemma bsend_ok n s f t c s' : bsend n s f t c = Ok s' tt -> can_pay n s f c = true /\ s' = move s f t c.
Proof. unfold bsend. destruct (can_pay n s f c); intros H; [apply ret_ok in H; auto|discriminate]. Qed.

Lemma dec_supplied_ok e s c s' : dec_supplied e s c = Ok s' tt -> s' = set_tsup s (dec_clamp (tsup s) c).
Proof. unfold dec_supplied. destruct (cempty _ _); intros H; [discriminate|apply ret_ok in H; auto]. Qed.
Lemma dec_borrowed_ok e s c s' : dec_borrowed e s c = Ok s' tt -> s' = set_tbor s (dec_clamp (tbor s) c).
Proof. unfold dec_borrowed. destruct (cempty _ _); intros H; [discriminate|apply ret_ok in H; auto]. Qed.

(** ** withdraw: LTV gate and cap *)
Definition sync_position (e : env) (s : state) (u : nat) : res state :=
  s1 <- sync_borrow e s u ;; sync_supply e s1 u.

Lemma withdraw_spec e s u c s' : withdraw e s u c = Ok s' tt ->
  exists s2 r,
    sync_position e s u = Ok s2 tt /\ dep s2 u = Some r /\
    let moved := capped e c (amt r) in
    within_ltv e s2 (csub (amt r) moved) (amt_of (bor s2 u)) = Some true /\
    same_val s2 s' /\ bor s' = bor s2 /\
    ceq (nd e) (amt_of (dep s' u)) (csub (amt r) moved) /\
    (forall v, v <> u -> dep s' v = dep s v) /\ (forall v, v <> u -> bor s' v = bor s v) /\
    can_pay (nd e) s2 (hacc e) moved = true /\
    bal s' = bal (move s2 (hacc e) u moved) /\ bal s2 = bal s.
Proof.
  unfold withdraw. intros H.
  inv_bind H as u1 G1. inv_bind H as u2 G2. inv_bind H as u3 G3. inv_bind H as s1 E2. inv_bind H as s2 E3.
  destruct (dep s2 u) as [r|] eqn:Er; [|discriminate].
  inv_bind H as u4 G4. inv_bind H as u5 G5. inv_bind H as w E6. inv_bind H as u6 E7. apply err_unless_ok in E7. subst w.
  inv_bind H as s3 E8. inv_bind H as ix E9.
  apply dec_supplied_ok in H. apply opt_err_ok in E6. apply bsend_ok in E8. destruct E8 as [Hpay ->].
  destruct (sync_borrow_frame _ _ _ _ E2) as (B1 & B2 & B3 & _ & _ & _ & _ & _ & _ & B10 & _).
  destruct (sync_supply_frame _ _ _ _ E3) as (S1 & S2 & S3 & _ & _ & _ & _ & _ & _ & S10 & _).
  exists s2, r. split; [unfold sync_position; rewrite E2; cbn; exact E3|].
  split; [exact Er|]. cbn zeta. subst s'. cbn.
  repeat split; try assumption; try reflexivity.
  - unfold upd. rewrite Nat.eqb_refl. apply amt_of_store.
  - intros v Hv. unfold upd. destruct (Nat.eqb_spec v u); [contradiction|]. rewrite S10, B3 by assumption. reflexivity.
  - intros v Hv. rewrite S3. apply B10, Hv.
  - rewrite S1, B1. reflexivity.
Qed.

Lemma withdraw_gate e s u c s' : withdraw e s u c = Ok s' tt ->
  within_ltv e s' (amt_of (dep s' u)) (amt_of (bor s' u)) = Some true.
Proof.
  intros H. apply withdraw_spec in H. destruct H as (s2 & r & _ & _ & H). cbn zeta in H.
  destruct H as (W & Hp & Hb & Hd & _).
  rewrite <- W. rewrite Hb. apply within_ltv_ext; [assumption| |intros d _; reflexivity].
  intros d Hd'. symmetry. apply Hd, Hd'.
Qed.

(** ** folds in the outcome monad *)
Lemma fold_not_ok {A B} (f : res A -> B -> res A) (g : A -> B -> res A) l acc :
  (forall acc b, f acc b = bind acc (fun a => g a b)) ->
  (forall a, acc <> Ok a tt) -> forall a, fold_left f l acc <> Ok a tt.
Proof.
  intros Hf. revert acc. induction l as [|b l IH]; intros acc Hacc a; cbn; [apply Hacc|].
  apply IH. intros a2. rewrite Hf. destruct acc as [a3 []| |]; cbn; try discriminate.
  exfalso. exact (Hacc a3 eq_refl).
Qed.

Lemma fold_bind_inv {A B} (P : A -> Prop) (f : res A -> B -> res A) (g : A -> B -> res A) l :
  (forall acc b, f acc b = bind acc (fun a => g a b)) ->
  (forall a b a2, P a -> g a b = Ok a2 tt -> P a2) ->
  forall a0 a', fold_left f l (ret a0) = Ok a' tt -> P a0 -> P a'.
Proof.
  intros Hf Hg. induction l as [|b l IH]; intros a0 a' H P0; cbn in H.
  - apply ret_ok in H. subst. exact P0.
  - rewrite Hf in H. cbn [bind ret] in H.
    destruct (g a0 b) as [a1 []| |] eqn:G.
    + apply (IH a1 a'); [exact H|]. eapply Hg; eauto.
    + exfalso. eapply (fold_not_ok f g l Err Hf); [discriminate|exact H].
    + exfalso. eapply (fold_not_ok f g l Panic Hf); [discriminate|exact H].
Qed.

Lemma fold_bind_inv_in {A B} (P : A -> Prop) (f : res A -> B -> res A) (g : A -> B -> res A) l :
  (forall acc b, f acc b = bind acc (fun a => g a b)) ->
  (forall a b a2, In b l -> P a -> g a b = Ok a2 tt -> P a2) ->
  forall a0 a', fold_left f l (ret a0) = Ok a' tt -> P a0 -> P a'.
Proof.
  intros Hf. induction l as [|b l IH]; intros Hg a0 a' H P0; cbn [fold_left] in H.
  - apply ret_ok in H. subst. exact P0.
  - rewrite Hf in H. cbn [bind ret] in H.
    destruct (g a0 b) as [a1 []| |] eqn:G.
    + apply (IH (fun a b0 a2 Hin => Hg a b0 a2 (or_intror Hin)) a1 a'); [exact H|].
      eapply Hg; eauto. left; reflexivity.
    + exfalso. eapply (fold_not_ok f g l Err Hf); [discriminate|exact H].
    + exfalso. eapply (fold_not_ok f g l Panic Hf); [discriminate|exact H].
Qed.

(** ** liquidation *)
(* what seizing may change: bank balances and the supplied/borrowed totals *)
Definition same_store (s s' : state) : Prop :=
  same_val s s' /\ dep s' = dep s /\ bor s' = bor s /\ sfac s' = sfac s /\ bfac s' = bfac s /\
  prev s' = prev s /\ tres s' = tres s /\ params s' = params s.

Lemma same_store_refl s : same_store s s.
Proof. repeat split. Qed.
Lemma same_store_trans s1 s2 s3 : same_store s1 s2 -> same_store s2 s3 -> same_store s1 s3.
Proof. unfold same_store. intros ([A1 A1']&A2&A3&A4&A5&A6&A7&A8) ([B1 B1']&B2&B3&B4&B5&B6&B7&B8). repeat split; congruence. Qed.

Lemma bsend_store n s f t c s' : bsend n s f t c = Ok s' tt -> same_store s s'.
Proof. intros H. apply bsend_ok in H. destruct H as [_ ->]. repeat split. Qed.
Lemma dec_supplied_store e s c s' : dec_supplied e s c = Ok s' tt -> same_store s s'.
Proof. intros H. apply dec_supplied_ok in H. subst. repeat split. Qed.
Lemma dec_borrowed_store e s c s' : dec_borrowed e s c = Ok s' tt -> same_store s s'.
Proof. intros H. apply dec_borrowed_ok in H. subst. repeat split. Qed.

Lemma start_auction_store e a macc bk dk lot bid s' b' d' :
  start_auction e a macc bk dk lot bid = Ok (s', b', d') tt -> same_store (a_s a) s'.
Proof.
  unfold start_auction. intros H.
  inv_bind H as u1 G1. inv_bind H as u2 G2. inv_bind H as u3 G3.
  inv_bind H as s1 E1. inv_bind H as s2 E2. inv_bind H as s3 E3. inv_bind H as u4 G4.
  apply ret_ok in H. inversion H; subst.
  eapply same_store_trans; [eapply bsend_store; eauto|].
  eapply same_store_trans; [eapply dec_supplied_store; eauto|]. eapply dec_borrowed_store; eauto.
Qed.

Lemma dquo_ok a b x : dquo a b = Ok x tt -> b <> 0 /\ x = dec_quo a b.
Proof. unfold dquo. destruct (Z.eqb_spec b 0); intros H; [discriminate|]. apply ret_ok in H. auto. Qed.

Definition auction_body e ltv macc bk (a : astate) (dk : nat) : res astate :=
  auction_step e ltv macc bk (ret a) dk.

Lemma auction_step_bind e ltv macc bk acc dk :
  auction_step e ltv macc bk acc dk = bind acc (fun a => auction_body e ltv macc bk a dk).
Proof. destruct acc as [a []| |]; reflexivity. Qed.

Lemma auction_body_store e ltv macc bk a dk a' :
  auction_body e ltv macc bk a dk = Ok a' tt -> same_store (a_s a) (a_s a').
Proof.
  unfold auction_body, auction_step. cbn [bind ret]. intros H.
  destruct (a_max a =? 0); [apply ret_ok in H; subst; apply same_store_refl|].
  destruct (a_max a <=? a_dv a dk).
  - inv_bind H as ls E1. destruct (dec_trunc_int ls =? 0); [apply ret_ok in H; subst; apply same_store_refl|].
    inv_bind H as x E2. destruct x as [[s1 b1] d1]. apply ret_ok in H. subst a'. cbn.
    eapply start_auction_store; eauto.
  - inv_bind H as bs E1.
    destruct ((dec_trunc_int bs =? 0) || (a_dep a dk =? 0)); [apply ret_ok in H; subst; apply same_store_refl|].
    inv_bind H as x E2. destruct x as [[s1 b1] d1]. inv_bind H as m E3. apply ret_ok in H. subst a'. cbn.
    eapply start_auction_store; eauto.
Qed.

Definition borrow_body e ltv macc dkeys (a : astate) (bk : nat) : res astate :=
  borrow_step e ltv macc dkeys (ret a) bk.
Lemma borrow_step_bind e ltv macc dkeys acc bk :
  borrow_step e ltv macc dkeys acc bk = bind acc (fun a => borrow_body e ltv macc dkeys a bk).
Proof. destruct acc as [a []| |]; reflexivity. Qed.

Lemma borrow_body_store e ltv macc dkeys a bk a' :
  borrow_body e ltv macc dkeys a bk = Ok a' tt -> same_store (a_s a) (a_s a').
Proof.
  unfold borrow_body, borrow_step. cbn [bind ret]. intros H. inv_bind H as m E1.
  refine (fold_bind_inv (fun x => same_store (a_s a) (a_s x)) _ _ dkeys
            (auction_step_bind e ltv macc bk) _ _ _ H _).
  - intros a1 b a2 P G. eapply same_store_trans; [exact P|]. eapply auction_body_store; eauto.
  - cbn. apply same_store_refl.
Qed.

Definition return_body e b deps (s : state) (dk : nat) : res state :=
  return_step e b deps (ret s) dk.
Lemma return_step_bind e b deps acc dk :
  return_step e b deps acc dk = bind acc (fun s => return_body e b deps s dk).
Proof. destruct acc as [a []| |]; reflexivity. Qed.
Lemma return_body_store e b deps s dk s' : return_body e b deps s dk = Ok s' tt -> same_store s s'.
Proof.
  unfold return_body, return_step. cbn [bind ret]. destruct (0 <? deps dk); intros H.
  - eapply bsend_store; eauto.
  - apply ret_ok in H. subst. apply same_store_refl.
Qed.

Lemma start_auctions_store e s b bw aucdep dvals bvals ltv s' :
  start_auctions e s b bw aucdep dvals bvals ltv = Ok s' tt -> same_store s s'.
Proof.
  unfold start_auctions. intros H. inv_bind H as a E1.
  assert (A : same_store s (a_s a)).
  { refine (fold_bind_inv (fun x => same_store s (a_s x)) _ _ _ (borrow_step_bind e ltv (bal s (hacc e)) _) _ _ _ E1 _).
    - intros a1 bk a2 P G. eapply same_store_trans; [exact P|]. eapply borrow_body_store; eauto.
    - cbn. apply same_store_refl. }
  refine (fold_bind_inv (fun x => same_store s x) _ _ _ (return_step_bind e b (a_dep a)) _ _ _ H A).
  intros s1 dk s2 P G. eapply same_store_trans; [exact P|]. eapply return_body_store; eauto.
Qed.

Lemma seize_store e s k b dp bw s' : seize e s k b dp bw = Ok s' tt -> same_store s s'.
Proof.
  unfold seize. intros H. inv_bind H as s1 E1. inv_bind H as u1 G1.
  assert (A : same_store s s1).
  { destruct (cempty (nd e) (keeper_reward s dp)); [apply ret_ok in E1; subst; apply same_store_refl|].
    inv_bind E1 as s0 E0. eapply same_store_trans; [eapply dec_supplied_store; eauto|eapply bsend_store; eauto]. }
  match type of H with (if ?c then _ else _) = _ => destruct c end.
  - apply ret_ok in H. subst. exact A.
  - eapply same_store_trans; [exact A|]. eapply start_auctions_store; eauto.
Qed.

Lemma liquidate_spec e s k b s' : liquidate e s k b = Ok s' tt ->
  exists s2 dp bw s3,
    sync_position e s b = Ok s2 tt /\ dep s2 b = Some dp /\ bor s2 b = Some bw /\
    within_ltv e s2 (amt dp) (amt bw) = Some false /\
    seize e s2 k b (amt dp) (amt bw) = Ok s3 tt /\
    dep s' b = None /\ bor s' b = None /\
    (forall v, v <> b -> dep s' v = dep s v /\ bor s' v = bor s v) /\
    bal s' = bal s3 /\ bal s2 = bal s /\ same_val s s'.
Proof.
  unfold liquidate. intros H.
  inv_bind H as u1 G1. inv_bind H as u2 G2. inv_bind H as u3 G3. inv_bind H as u4 G4.
  inv_bind H as s1 E1. inv_bind H as s2 E2.
  destruct (dep s2 b) as [dp|] eqn:Ed; [|discriminate].
  destruct (bor s2 b) as [bw|] eqn:Eb; [|discriminate].
  inv_bind H as w E3. inv_bind H as u5 G5. inv_bind H as s3 E4. apply ret_ok in H.
  apply opt_err_ok in E3. apply err_unless_ok in G5. destruct w; [discriminate|].
  destruct (sync_borrow_frame _ _ _ _ E1) as (B1 & B2 & B3 & _ & _ & _ & _ & _ & _ & B10 & _).
  destruct (sync_supply_frame _ _ _ _ E2) as (S1 & S2 & S3 & _ & _ & _ & _ & _ & _ & S10 & _).
  destruct (seize_store _ _ _ _ _ _ _ E4) as (P1 & P2 & P3 & _).
  exists s2, dp, bw, s3. split; [unfold sync_position; rewrite E1; cbn; exact E2|].
  repeat split; try assumption; subst s'; cbn.
  - unfold upd. rewrite Nat.eqb_refl. reflexivity.
  - unfold upd. rewrite Nat.eqb_refl. reflexivity.
  - unfold upd. destruct (Nat.eqb_spec v b); [contradiction|]. rewrite P2, S10, B3 by assumption. reflexivity.
  - unfold upd. destruct (Nat.eqb_spec v b); [contradiction|]. rewrite P3, S3. apply B10. assumption.
  - congruence.
  - unfold same_val in *. destruct B2, S2, P1. congruence.
  - unfold same_val in *. destruct B2, S2, P1. congruence.
  - unfold same_val in *. destruct B2, S2, P1. congruence.
Qed.

(** *** how much leaves the module during a liquidation *)
Lemma bal_move s f t c x d :
  bal (move s f t c) x d = bal s x d - (if Nat.eqb x f then c d else 0) + (if Nat.eqb x t then c d else 0).
Proof. reflexivity. Qed.

Lemma csingle_eq d x y : csingle d x y = if Nat.eqb y d then x else 0.
Proof. reflexivity. Qed.

(* running deposits are non-negative, the module never holds less than C + running deposits,
   accounts other than the module and the auction account are not touched *)
Definition auc_ok (e : env) (s0 : state) (C : nat -> Z) (s : state) (deps : coins) : Prop :=
  (forall d, (d < nd e)%nat -> 0 <= deps d /\ C d <= bal s (hacc e) d - deps d) /\
  (forall x d, x <> hacc e -> x <> aacc e -> bal s x d = bal s0 x d).
Definition auc_inv e s0 C (a : astate) : Prop := auc_ok e s0 C (a_s a) (a_dep a).

Lemma hacc_neq_aacc e : Nat.eqb (hacc e) (aacc e) = false.
Proof. apply Nat.eqb_neq. unfold hacc, aacc. lia. Qed.

Lemma start_auction_inv e s0 C a macc bk dk lot bid s' b' d' :
  auc_inv e s0 C a -> start_auction e a macc bk dk lot bid = Ok (s', b', d') tt ->
  auc_ok e s0 C s' d'.
Proof.
  intros [I1 I2]. unfold start_auction. intros G.
  inv_bind G as u1 G1. inv_bind G as u2 G2. inv_bind G as u3 G3.
  inv_bind G as s1 E1. inv_bind G as s2 E2. inv_bind G as s3 E3. inv_bind G as u4 G4.
  apply ret_ok in G. inversion G; subst; clear G.
  apply err_unless_ok in G3. apply bsend_ok in E1. destruct E1 as [_ ->].
  apply dec_supplied_ok in E2. apply dec_borrowed_ok in E3. subst s' s2.
  set (lot' := if macc dk <? lot then macc dk else lot) in *.
  assert (Hl : lot' <= a_dep a dk) by (destruct (Z.ltb_spec (a_dep a dk) lot'); [discriminate|lia]).
  split.
  - intros d Hd. destruct (I1 d Hd) as [J1 J2]. cbn [bal set_tbor set_tsup]. rewrite bal_move.
    rewrite Nat.eqb_refl, hacc_neq_aacc, csingle_eq.
    destruct (macc dk <? lot).
    + unfold upd. destruct (Nat.eqb_spec d dk); [subst; lia|lia].
    + unfold csub. rewrite csingle_eq. destruct (Nat.eqb_spec d dk); [subst; lia|lia].
  - intros x d Hx1 Hx2. rewrite <- (I2 x d Hx1 Hx2). cbn [bal set_tbor set_tsup]. rewrite bal_move.
    destruct (Nat.eqb_spec x (hacc e)); [contradiction|]. destruct (Nat.eqb_spec x (aacc e)); [contradiction|]. lia.
Qed.

Lemma auction_body_inv e s0 C ltv macc bk a dk a' :
  auc_inv e s0 C a -> auction_body e ltv macc bk a dk = Ok a' tt -> auc_inv e s0 C a'.
Proof.
  intros I. unfold auction_body, auction_step. cbn [bind ret]. intros H.
  destruct (a_max a =? 0); [apply ret_ok in H; subst; exact I|].
  destruct (a_max a <=? a_dv a dk).
  - inv_bind H as ls E1. destruct (dec_trunc_int ls =? 0); [apply ret_ok in H; subst; exact I|].
    inv_bind H as x E2. destruct x as [[s1 b1] d1]. apply ret_ok in H. subst a'.
    unfold auc_inv. cbn. eapply start_auction_inv; eauto.
  - inv_bind H as bs E1.
    destruct ((dec_trunc_int bs =? 0) || (a_dep a dk =? 0)); [apply ret_ok in H; subst; exact I|].
    inv_bind H as x E2. destruct x as [[s1 b1] d1]. inv_bind H as m E3. apply ret_ok in H. subst a'.
    unfold auc_inv. cbn. eapply start_auction_inv; eauto.
Qed.

Lemma borrow_body_inv e s0 C ltv macc dkeys a bk a' :
  auc_inv e s0 C a -> borrow_body e ltv macc dkeys a bk = Ok a' tt -> auc_inv e s0 C a'.
Proof.
  intros I. unfold borrow_body, borrow_step. cbn [bind ret]. intros H. inv_bind H as m E1.
  refine (fold_bind_inv (auc_inv e s0 C) _ _ dkeys (auction_step_bind e ltv macc bk) _ _ _ H _).
  - intros a1 b a2 P G. eapply auction_body_inv; eauto.
  - exact I.
Qed.

(* returning the remaining deposits: the module pays at most max 0 (deps d) per listed denom *)
Lemma return_fold e b deps l : NoDup l -> forall s s',
  fold_left (return_step e b deps) l (ret s) = Ok s' tt ->
  (forall d, bal s (hacc e) d - (if in_dec Nat.eq_dec d l then Z.max 0 (deps d) else 0) <= bal s' (hacc e) d) /\
  (forall x d, x <> hacc e -> x <> b -> bal s' x d = bal s x d).
Proof.
  induction 1 as [|dk l Hn Hnd IH]; intros s s' H; cbn [fold_left] in H.
  - apply ret_ok in H. subst. split; [intros d; cbn; lia|reflexivity].
  - rewrite return_step_bind in H. cbn [bind ret] in H.
    destruct (return_body e b deps s dk) as [s1 []| |] eqn:G.
    2,3: exfalso; eapply (fold_not_ok _ _ l _ (return_step_bind e b deps)); [|exact H]; discriminate.
    destruct (IH _ _ H) as [J1 J2].
    assert (K : (forall d, bal s (hacc e) d - (if Nat.eqb d dk then Z.max 0 (deps d) else 0) <= bal s1 (hacc e) d) /\
                (forall x d, x <> hacc e -> x <> b -> bal s1 x d = bal s x d)).
    { unfold return_body, return_step in G. cbn [bind ret] in G.
      destruct (Z.ltb_spec 0 (deps dk)).
      - apply bsend_ok in G. destruct G as [_ ->]. split.
        + intros d. rewrite bal_move, Nat.eqb_refl, csingle_eq.
          destruct (Nat.eqb_spec d dk); destruct (Nat.eqb (hacc e) b); subst; lia.
        + intros x d Hx1 Hx2. rewrite bal_move.
          destruct (Nat.eqb_spec x (hacc e)); [contradiction|]. destruct (Nat.eqb_spec x b); [contradiction|]. lia.
      - apply ret_ok in G. subst. split; [|reflexivity]. intros d. destruct (Nat.eqb d dk); lia. }
    destruct K as [K1 K2]. split.
    + intros d. specialize (J1 d). specialize (K1 d).
      destruct (in_dec Nat.eq_dec d (dk :: l)) as [Hin|Hnin].
      * destruct (Nat.eqb_spec d dk) as [->|Hne].
        -- destruct (in_dec Nat.eq_dec dk l); [contradiction|]. lia.
        -- destruct (in_dec Nat.eq_dec d l) as [|Hn2]; [lia|]. exfalso. destruct Hin; [congruence|contradiction].
      * destruct (Nat.eqb_spec d dk) as [->|Hne]; [exfalso; apply Hnin; left; reflexivity|].
        destruct (in_dec Nat.eq_dec d l); [exfalso; apply Hnin; right; assumption|]. lia.
    + intros x d Hx1 Hx2. rewrite J2, K2 by assumption. reflexivity.
Qed.

Lemma denoms_nodup n c : NoDup (denoms n c).
Proof. unfold denoms. apply NoDup_filter, seq_NoDup. Qed.

Lemma start_auctions_scope e s b bw aucdep dvals bvals ltv s' :
  start_auctions e s b bw aucdep dvals bvals ltv = Ok s' tt ->
  (forall d, (d < nd e)%nat -> 0 <= aucdep d) ->
  (forall d, (d < nd e)%nat -> bal s (hacc e) d - bal s' (hacc e) d <= aucdep d) /\
  (forall x d, x <> hacc e -> x <> aacc e -> x <> b -> bal s' x d = bal s x d).
Proof.
  unfold start_auctions. intros H Hpos. inv_bind H as a E1.
  set (C := fun d => bal s (hacc e) d - aucdep d).
  assert (I : auc_inv e s C a).
  { refine (fold_bind_inv (auc_inv e s C) _ _ _ (borrow_step_bind e ltv (bal s (hacc e)) _) _ _ _ E1 _).
    - intros a1 bk a2 P G. eapply borrow_body_inv; eauto.
    - split; cbn; [|reflexivity]. intros d Hd. split; [apply Hpos, Hd|unfold C; lia]. }
  destruct I as [I1 I2].
  destruct (return_fold e b (a_dep a) _ (denoms_nodup (nd e) aucdep) _ _ H) as [R1 R2].
  split.
  - intros d Hd. destruct (I1 d Hd) as [J1 J2]. specialize (R1 d). unfold C in J2.
    destruct (in_dec Nat.eq_dec d (denoms (nd e) aucdep)); lia.
  - intros x d Hx1 Hx2 Hx3. rewrite R2, I2 by assumption. reflexivity.
Qed.

Lemma keeper_reward_bounds s dp d : 0 <= keeper_reward s dp d.
Proof. unfold keeper_reward. destruct (0 <? _) eqn:E; [apply Z.ltb_lt in E; lia|lia]. Qed.

Lemma seize_scope e s k b dp bw s' : seize e s k b dp bw = Ok s' tt -> k <> hacc e ->
  (forall d, (d < nd e)%nat -> bal s (hacc e) d - bal s' (hacc e) d <= dp d) /\
  (forall x d, x <> hacc e -> x <> aacc e -> x <> b -> x <> k -> bal s' x d = bal s x d) /\
  (k <> aacc e -> k <> b -> forall d, (d < nd e)%nat -> bal s' k d = bal s k d + keeper_reward s dp d).
Proof.
  unfold seize. intros H Hk. inv_bind H as s1 E1. inv_bind H as u1 G1.
  apply panic_unless_ok in G1. apply negb_true_iff in G1.
  assert (Hpos : forall d, (d < nd e)%nat -> 0 <= csub dp (keeper_reward s dp) d).
  { intros d Hd. unfold cany_neg in G1. destruct (Z.ltb_spec (csub dp (keeper_reward s dp) d) 0) as [Hlt|]; [|lia].
    exfalso. assert (existsb (fun d0 => csub dp (keeper_reward s dp) d0 <? 0) (seq 0 (nd e)) = true).
    { apply existsb_exists. exists d. split; [apply in_seq; lia|apply Z.ltb_lt; lia]. } congruence. }
  assert (A : forall x d, (d < nd e)%nat ->
              bal s1 x d = bal s x d - (if Nat.eqb x (hacc e) then keeper_reward s dp d else 0)
                                     + (if Nat.eqb x k then keeper_reward s dp d else 0)).
  { intros x d Hd. destruct (cempty (nd e) (keeper_reward s dp)) eqn:Ec.
    - apply ret_ok in E1. subst s1. apply cempty_spec in Ec. rewrite (Ec d Hd). unfold czero.
      destruct (Nat.eqb x (hacc e)); destruct (Nat.eqb x k); lia.
    - inv_bind E1 as sx Ex. apply dec_supplied_ok in Ex. apply bsend_ok in E1. destruct E1 as [_ ->]. subst sx.
      rewrite bal_move. reflexivity. }
  assert (A' : forall x d, x <> hacc e -> x <> k -> bal s1 x d = bal s x d).
  { intros x d Hx1 Hx2. destruct (cempty (nd e) (keeper_reward s dp)) eqn:Ec.
    - apply ret_ok in E1. subst s1. reflexivity.
    - inv_bind E1 as sx Ex. apply dec_supplied_ok in Ex. apply bsend_ok in E1. destruct E1 as [_ ->]. subst sx.
      rewrite bal_move. destruct (Nat.eqb_spec x (hacc e)); [contradiction|]. destruct (Nat.eqb_spec x k); [contradiction|]. cbn. lia. }
  match type of H with (if ?c then _ else _) = _ => destruct c end.
  - apply ret_ok in H. subst s'. split; [|split].
    + intros d Hd. rewrite (A _ d Hd), Nat.eqb_refl. specialize (Hpos d Hd). unfold csub in Hpos.
      destruct (Nat.eqb_spec (hacc e) k); [congruence|]. lia.
    + intros x d Hx1 Hx2 Hx3 Hx4. apply A'; assumption.
    + intros Hk2 Hk3 d Hd. rewrite (A _ d Hd), Nat.eqb_refl. destruct (Nat.eqb_spec k (hacc e)); [contradiction|]. lia.
  - destruct (start_auctions_scope _ _ _ _ _ _ _ _ _ H Hpos) as [S1 S2]. split; [|split].
    + intros d Hd. specialize (S1 d Hd). rewrite (A _ d Hd), Nat.eqb_refl in S1. unfold csub in S1.
      destruct (Nat.eqb_spec (hacc e) k); [congruence|]. lia.
    + intros x d Hx1 Hx2 Hx3 Hx4. rewrite S2 by assumption. apply A'; assumption.
    + intros Hk2 Hk3 d Hd. rewrite S2 by assumption. rewrite (A _ d Hd), Nat.eqb_refl.
      destruct (Nat.eqb_spec k (hacc e)); [contradiction|]. lia.
Qed.

(** ** borrow: what ValidateBorrow guarantees (new and existing borrow valued separately) *)
Lemma validate_borrow_ok e s u c x : validate_borrow e s u c = Ok x tt ->
  exists dp, dep s u = Some dp /\
    all_priced e s c = true /\ all_priced e s (amt dp) = true /\ all_priced e s (amt_of (bor s u)) = true /\
    value_of e s c + value_of e s (amt_of (bor s u)) <= borrowable_of e s (amt dp) /\
    min_borrow e <= value_of e s c + value_of e s (amt_of (bor s u)) /\
    within_ltv e s (amt dp) (cadd (amt_of (bor s u)) c) = Some true.
Proof.
  unfold validate_borrow. intros H.
  inv_bind H as u1 G1. inv_bind H as u2 G2. inv_bind H as u3 G3. inv_bind H as u4 G4.
  destruct (dep s u) as [dp|]; [|discriminate].
  inv_bind H as u5 G5. inv_bind H as u6 G6. inv_bind H as u7 G7. inv_bind H as u8 G8. inv_bind H as w G9.
  apply err_unless_ok in H, G3, G5, G6, G7, G8. apply negb_true_iff in G8, G7.
  apply Z.ltb_ge in G8, G7. apply opt_err_ok in G9. subst w.
  exists dp. repeat split; try assumption; lia.
Qed.

Lemma borrow_spec e s u c s' : borrow e s u c = Ok s' tt ->
  exists s2 dp,
    dep s2 u = Some dp /\
    all_priced e s2 c = true /\ all_priced e s2 (amt dp) = true /\ all_priced e s2 (amt_of (bor s2 u)) = true /\
    value_of e s2 c + value_of e s2 (amt_of (bor s2 u)) <= borrowable_of e s2 (amt dp) /\
    within_ltv e s2 (amt dp) (cadd (amt_of (bor s2 u)) c) = Some true /\
    same_val s2 s' /\ dep s' = dep s2 /\
    ceq (nd e) (amt_of (bor s' u)) (cadd (amt_of (bor s2 u)) c) /\
    (forall v, v <> u -> dep s' v = dep s v /\ bor s' v = bor s v) /\
    bal s' = bal (move s2 (hacc e) u c) /\ bal s2 = bal s.
Proof.
  unfold borrow. intros H.
  inv_bind H as u1 G1. inv_bind H as u2 G2. inv_bind H as s1 E1. inv_bind H as s2 E2.
  inv_bind H as u3 G3. inv_bind H as s3 E3. apply ret_ok in H.
  apply validate_borrow_ok in G3. destruct G3 as (dp & Hd & P1 & P2 & P3 & V & _ & W).
  apply bsend_ok in E3. destruct E3 as [_ ->].
  destruct (sync_supply_frame _ _ _ _ E1) as (S1 & S2 & S3 & _ & _ & _ & _ & _ & _ & S10 & _).
  destruct (sync_borrow_frame _ _ _ _ E2) as (B1 & B2 & B3 & _ & _ & _ & _ & _ & _ & B10 & _).
  exists s2, dp. subst s'. cbn.
  repeat split; try assumption; try reflexivity.
  - unfold upd. rewrite Nat.eqb_refl. apply amt_of_store.
  - rewrite B3. apply S10. assumption.
  - unfold upd. destruct (Nat.eqb_spec v u); [contradiction|]. rewrite B10, S3 by assumption. reflexivity.
  - rewrite B1, S1. reflexivity.
Qed.

Lemma borrow_gate_partial e s u c s' : borrow e s u c = Ok s' tt ->
  exists old,
    ceq (nd e) (amt_of (bor s' u)) (cadd old c) /\
    all_priced e s' (amt_of (dep s' u)) = true /\ all_priced e s' old = true /\ all_priced e s' c = true /\
    value_of e s' old + value_of e s' c <= borrowable_of e s' (amt_of (dep s' u)).
Proof.
  intros H. apply borrow_spec in H.
  destruct H as (s2 & dp & Hd & P1 & P2 & P3 & V & _ & Hp & Hdep & Hb & _).
  exists (amt_of (bor s2 u)). rewrite Hdep, Hd. cbn [amt_of].
  assert (R : ceq (nd e) (amt dp) (amt dp)) by (intros d _; reflexivity).
  assert (R2 : forall c0 : coins, ceq (nd e) c0 c0) by (intros c0 d _; reflexivity).
  rewrite (all_priced_ext _ _ _ _ _ Hp R), !(all_priced_ext _ _ _ _ _ Hp (R2 _)),
          !(value_of_ext _ _ _ _ _ Hp (R2 _)), (borrowable_of_ext _ _ _ _ _ Hp R).
  repeat split; try assumption. lia.
Qed.

Lemma borrow_gate e s u c s' : borrow e s u c = Ok s' tt ->
  within_ltv e s' (amt_of (dep s' u)) (amt_of (bor s' u)) = Some true.
Proof.
  intros H. apply borrow_spec in H.
  destruct H as (s2 & dp & Hd & _ & _ & _ & _ & W & Hp & Hdep & Hb & _).
  rewrite <- W, Hdep, Hd. cbn [amt_of]. apply within_ltv_ext; [assumption|intros d _; reflexivity|].
  intros d Hd'. symmetry. apply Hb, Hd'.
Qed.

(** ** repay: the payment is capped by the synced debt *)
Lemma repay_spec e s a o c s' : repay e s a o c = Ok s' tt ->
  exists s2 r,
    sync_borrow e s o = Ok s2 tt /\ bor s2 o = Some r /\
    let pay := capped e c (amt r) in
    can_pay (nd e) s2 a pay = true /\
    bal s' = bal (move s2 a (hacc e) pay) /\ bal s2 = bal s /\
    ceq (nd e) (amt_of (bor s' o)) (csub (amt r) pay) /\
    dep s' = dep s /\ (forall v, v <> o -> bor s' v = bor s v).
Proof.
  unfold repay. intros H.
  inv_bind H as u1 G1. inv_bind H as u2 G2. inv_bind H as s2 E2.
  destruct (bor s2 o) as [r|] eqn:Er; [|discriminate].
  inv_bind H as u3 G3. inv_bind H as u4 G4. inv_bind H as u5 G5. inv_bind H as u6 G6.
  inv_bind H as s3 E3. inv_bind H as ix E4. inv_bind H as u7 G7.
  apply dec_borrowed_ok in H. apply bsend_ok in E3. destruct E3 as [Hpay ->].
  destruct (sync_borrow_frame _ _ _ _ E2) as (B1 & B2 & B3 & _ & _ & _ & _ & _ & _ & B10 & _).
  exists s2, r. split; [assumption|]. split; [assumption|]. cbn zeta. subst s'. cbn.
  repeat split; try assumption; try reflexivity.
  - unfold upd. rewrite Nat.eqb_refl. apply amt_of_store.
  - intros v Hv. unfold upd. destruct (Nat.eqb_spec v o); [contradiction|]. apply B10, Hv.
Qed.

Lemma capped_le e c a d : 0 <= a d -> 0 <= capped e c a d <= a d \/ (c d < 0).
Proof.
  intros Ha. unfold capped. destruct (Z.eqb_spec (c d) 0); [left; lia|].
  destruct (Z.ltb_spec (a d) (c d)); [left; lia|]. destruct (Z_lt_le_dec (c d) 0); [right; lia|left; lia].
Qed.

(** ** interest: the synced amount is monotone in the global factor *)
Lemma bor_interest_mono a uf f f' : 0 <= a -> 0 < uf -> 0 <= f <= f' ->
  bor_interest a f uf <= bor_interest a f' uf.
Proof.
  intros Ha Hu Hf. unfold bor_interest, dec_trunc_int.
  apply Z.quot_le_mono; [reflexivity|].
  assert (Q : 0 <= dec_quo (dec_of_int a) uf) by (apply dec_quo_nonneg; [unfold dec_of_int, PREC; lia|lia]).
  assert (dec_mul (dec_quo (dec_of_int a) uf) f <= dec_mul (dec_quo (dec_of_int a) uf) f').
  { unfold dec_mul. apply chop_round_mono_nonneg. nia. }
  lia.
Qed.

Definition fac_nonneg (gf : nat -> option Z) : Prop := forall d f, gf d = Some f -> 0 <= f.
Definition fac_mono (gf gf' : nat -> option Z) : Prop :=
  forall d f, gf d = Some f -> exists f', gf' d = Some f' /\ f <= f'.
(* index entries are positive and exist only for denoms that have a global factor *)
Definition idx_sound (gf : nat -> option Z) (r : urec) : Prop :=
  forall d uf, idx_get d (idx r) = Some uf -> 0 < uf /\ gf d <> None.

(* the supply-side formula (Mul, then Quo) is monotone in the global factor as well *)
Lemma sup_interest_mono a uf f f' : 0 <= a -> 0 < uf -> 0 <= f <= f' ->
  sup_interest a f uf <= sup_interest a f' uf.
Proof.
  intros Ha Hu Hf. unfold sup_interest, dec_trunc_int.
  apply Z.quot_le_mono; [reflexivity|].
  assert (A0 : 0 <= dec_of_int a) by (unfold dec_of_int, PREC; lia).
  assert (M0 : 0 <= dec_mul (dec_of_int a) f) by (apply dec_mul_nonneg; lia).
  assert (M : dec_mul (dec_of_int a) f <= dec_mul (dec_of_int a) f').
  { unfold dec_mul. apply chop_round_mono_nonneg. nia. }
  assert (dec_quo (dec_mul (dec_of_int a) f) uf <= dec_quo (dec_mul (dec_of_int a) f') uf).
  { unfold dec_quo. apply chop_round_mono_nonneg. pose proof PREC_pos. split.
    - apply Z.quot_pos; nia.
    - apply Z.quot_le_mono; [lia|]. nia. }
  lia.
Qed.

Definition intf_mono (intf : Z -> Z -> Z -> Z) : Prop :=
  forall a uf f f', 0 <= a -> 0 < uf -> 0 <= f <= f' -> intf a f uf <= intf a f' uf.

Lemma load_coin_f_bind intf gf r acc d :
  load_coin_f intf gf r acc d = bind acc (fun tot => load_coin_f intf gf r (ret tot) d).
Proof. destruct acc as [a []| |]; reflexivity. Qed.

Lemma load_fold_mono_f intf gf gf' r l : intf_mono intf ->
  (forall d, 0 <= amt r d) -> fac_nonneg gf -> fac_mono gf gf' -> idx_sound gf r ->
  forall (tot tot' c : coins), (forall d, tot d <= tot' d) ->
  fold_left (load_coin_f intf gf r) l (ret tot) = Ok c tt ->
  exists c', fold_left (load_coin_f intf gf' r) l (ret tot') = Ok c' tt /\ forall d, c d <= c' d.
Proof.
  intros Hi Ha Hn Hm Hs. induction l as [|d l IH]; intros tot tot' c Ht H; cbn [fold_left] in *.
  - apply ret_ok in H. subst. exists tot'. split; [reflexivity|assumption].
  - destruct (load_coin_f intf gf r (ret tot) d) as [t1 []| |] eqn:G.
    2,3: exfalso; eapply (fold_not_ok _ _ l _ (load_coin_f_bind intf gf r)); [|exact H]; discriminate.
    assert (K : exists t1', load_coin_f intf gf' r (ret tot') d = Ok t1' tt /\ forall x, t1 x <= t1' x).
    { unfold load_coin_f in *. cbn [bind ret] in *.
      destruct (gf d) as [f|] eqn:Egf.
      - destruct (Hm d f Egf) as (f' & Egf' & Hff). rewrite Egf'.
        destruct (idx_get d (idx r)) as [uf|] eqn:Ei.
        + destruct (Hs d uf Ei) as [Hu _].
          destruct (Z.eqb_spec uf 0); [lia|].
          destruct (Z.ltb_spec (intf (amt r d) f uf) 0); [discriminate|].
          apply ret_ok in G. subst t1.
          pose proof (Hi (amt r d) uf f f' (Ha d) Hu (conj (Hn d f Egf) Hff)) as M.
          destruct (Z.ltb_spec (intf (amt r d) f' uf) 0); [lia|].
          eexists. split; [reflexivity|]. intros x. unfold upd. destruct (Nat.eqb x d); [lia|apply Ht].
        + apply ret_ok in G. subst t1. exists tot'. split; [reflexivity|assumption].
      - apply ret_ok in G. subst t1.
        destruct (idx_get d (idx r)) as [uf|] eqn:Ei.
        + destruct (Hs d uf Ei) as [_ Hx]. congruence.
        + exists tot'. split; [destruct (gf' d); reflexivity|assumption]. }
    destruct K as (t1' & G' & Ht1). rewrite G'. eapply IH; eauto.
Qed.

Lemma load_synced_f_mono intf n gf gf' r c : intf_mono intf ->
  (forall d, 0 <= amt r d) -> fac_nonneg gf -> fac_mono gf gf' -> idx_sound gf r ->
  load_synced_f intf n gf r = Ok c tt ->
  exists c', load_synced_f intf n gf' r = Ok c' tt /\ forall d, c d <= c' d.
Proof.
  intros Hi Ha Hn Hm Hs. unfold load_synced_f. intros H. inv_bind H as tot E. apply ret_ok in H. subst c.
  destruct (load_fold_mono_f intf gf gf' r _ Hi Ha Hn Hm Hs czero czero tot (fun d => Z.le_refl _) E) as (t' & E' & Ht).
  exists (cadd (amt r) t'). rewrite E'. cbn [bind ret]. split; [reflexivity|]. intros d. unfold cadd. specialize (Ht d). lia.
Qed.

(* the borrow-side query is the instance of the generic one at [bor_interest] *)
Lemma load_coin_is_f : load_coin = load_coin_f bor_interest.
Proof. reflexivity. Qed.
Lemma load_synced_is_f : load_synced = load_synced_f bor_interest.
Proof. reflexivity. Qed.

Lemma load_coin_bind gf r acc d :
  load_coin gf r acc d = bind acc (fun tot => load_coin gf r (ret tot) d).
Proof. destruct acc as [a []| |]; reflexivity. Qed.
Lemma load_coin_sup_bind gf r acc d :
  load_coin_sup gf r acc d = bind acc (fun tot => load_coin_sup gf r (ret tot) d).
Proof. apply load_coin_f_bind. Qed.

Lemma load_synced_mono n gf gf' r c :
  (forall d, 0 <= amt r d) -> fac_nonneg gf -> fac_mono gf gf' -> idx_sound gf r ->
  load_synced n gf r = Ok c tt ->
  exists c', load_synced n gf' r = Ok c' tt /\ forall d, c d <= c' d.
Proof.
  rewrite load_synced_is_f. apply load_synced_f_mono. intros a uf f f'. apply bor_interest_mono.
Qed.

Lemma load_synced_sup_mono n gf gf' r c :
  (forall d, 0 <= amt r d) -> fac_nonneg gf -> fac_mono gf gf' -> idx_sound gf r ->
  load_synced_sup n gf r = Ok c tt ->
  exists c', load_synced_sup n gf' r = Ok c' tt /\ forall d, c d <= c' d.
Proof. apply load_synced_f_mono. intros a uf f f'. apply sup_interest_mono. Qed.

Lemma fac_mono_refl gf : fac_mono gf gf.
Proof. intros d f H. exists f. split; [assumption|lia]. Qed.
Lemma fac_mono_trans a b c : fac_mono a b -> fac_mono b c -> fac_mono a c.
Proof. intros H1 H2 d f E. destruct (H1 d f E) as (f1 & E1 & L1). destruct (H2 d f1 E1) as (f2 & E2 & L2). exists f2. split; [assumption|lia]. Qed.

Lemma dec_mul_ge_one x f : 0 <= x -> PREC <= f -> x <= dec_mul x f.
Proof.
  intros Hx Hf. unfold dec_mul. rewrite <- (chop_round_exact x Hx) at 1.
  apply chop_round_mono_nonneg. unfold PREC in *. nia.
Qed.

(* one market's accrual: records untouched, borrow factors only grow *)
Lemma accrue_borrow_side e s d t f s' : accrue e s d t f = Ok s' tt -> PREC <= f -> fac_nonneg (bfac s) ->
  dep s' = dep s /\ bor s' = bor s /\ fac_mono (bfac s) (bfac s') /\ fac_nonneg (bfac s').
Proof.
  unfold accrue. intros H Hf Hn.
  destruct (prev s d) as [p|]; [|apply ret_ok in H; subst; cbn; auto using fac_mono_refl].
  destruct (t - p =? 0); [apply ret_ok in H; subst; auto using fac_mono_refl|].
  destruct (tbor s d =? 0); [apply ret_ok in H; subst; cbn; auto using fac_mono_refl|].
  set (bf := match bfac s d with Some x => x | None => PREC end) in *.
  assert (Hbf : 0 <= bf) by (unfold bf; destruct (bfac s d) eqn:E; [eapply Hn; eauto|unfold PREC; lia]).
  assert (M1 : fac_mono (bfac s) (upd (bfac s) d (Some bf)) /\ fac_nonneg (upd (bfac s) d (Some bf))).
  { split.
    - intros d' x E. unfold upd. destruct (Nat.eqb_spec d' d) as [->|].
      + exists bf. split; [reflexivity|]. unfold bf. rewrite E. lia.
      + exists x. split; [assumption|lia].
    - intros d' x. unfold upd. destruct (Nat.eqb_spec d' d); [intros E; inversion E; subst; assumption|apply Hn]. }
  cbn [mkts set_sfac set_bfac] in H. destruct (mkts s d) as [m|]; [|discriminate].
  inv_bind H as apy E1. inv_bind H as u1 G1.
  match type of H with (if ?c then _ else _) = _ => destruct c end.
  - apply ret_ok in H. subst s'. cbn. tauto.
  - inv_bind H as u2 G2. inv_bind H as u3 G3. inv_bind H as u4 G4. apply ret_ok in H. subst s'. cbn.
    split; [reflexivity|]. split; [reflexivity|]. split.
    + intros d' x E. unfold upd. destruct (Nat.eqb_spec d' d) as [->|].
      * eexists. split; [reflexivity|]. pose proof (dec_mul_ge_one bf f Hbf Hf). unfold bf in *. rewrite E in *. lia.
      * exists x. split; [assumption|lia].
    + intros d' x. unfold upd. destruct (Nat.eqb_spec d' d).
      * intros E; inversion E; subst. apply dec_mul_nonneg; [assumption|unfold PREC in *; lia].
      * apply Hn.
Qed.

(* the begin blocker as two folds: an invariant of the accruals that does not depend on the
   money-market store is an invariant of the whole begin block *)
Lemma apply_param_market_bind e t fs acc d :
  apply_param_market e t fs acc d = bind acc (fun s => apply_param_market e t fs (ret s) d).
Proof. destruct acc as [a []| |]; reflexivity. Qed.
Lemma drop_removed_market_bind e t fs acc d :
  drop_removed_market e t fs acc d = bind acc (fun s => drop_removed_market e t fs (ret s) d).
Proof. destruct acc as [a []| |]; reflexivity. Qed.

Lemma begin_block_inv (P : state -> Prop) e s t fs s' :
  (forall s0 d s1, (d < nd e)%nat -> accrue e s0 d t (nthZ fs d) = Ok s1 tt -> P s0 -> P s1) ->
  (forall s0 m, P s0 -> P (set_mkts s0 m)) ->
  begin_block e s t fs = Ok s' tt -> P s -> P s'.
Proof.
  intros Hacc Hset H P0. unfold begin_block in H.
  destruct (fold_left (apply_param_market e t fs) (seq 0 (nd e)) (ret s)) as [s1 []| |] eqn:F1.
  2,3: exfalso; match type of H with match ?x with _ => _ end = _ => destruct x as [s2 []| |] eqn:F2 end; try discriminate;
       eapply (fold_not_ok _ _ _ _ (drop_removed_market_bind e t fs)); [|exact F2]; discriminate.
  match type of H with match ?x with _ => _ end = _ => destruct x as [s2 []| |] eqn:F2 end; try discriminate.
  apply ret_ok in H. subst s2.
  assert (P1 : P s1).
  { refine (fold_bind_inv_in P _ _ _ (apply_param_market_bind e t fs) _ _ _ F1 P0).
    intros a d a2 Hin Pa G. apply in_seq in Hin. unfold apply_param_market in G. cbn [bind ret] in G.
    destruct (params a d) as [pm|]; [|apply ret_ok in G; subst; exact Pa].
    inv_bind G as a1 E. apply ret_ok in G.
    assert (Pa1 : P a1).
    { eapply Hacc; [|exact E|]; [lia|]. destruct (mkts a d); [exact Pa|apply Hset, Pa]. }
    subst a2. destruct (market_eqb _ pm); [exact Pa1|apply Hset, Pa1]. }
  refine (fold_bind_inv_in P _ _ _ (drop_removed_market_bind e t fs) _ _ _ F2 P1).
  intros a d a2 Hin Pa G. apply in_seq in Hin. unfold drop_removed_market in G. cbn [bind ret] in G.
  destruct (mkts a d) as [m|]; [|apply ret_ok in G; subst; exact Pa].
  destruct (params a d); [apply ret_ok in G; subst; exact Pa|].
  inv_bind G as a1 E. apply ret_ok in G. subst a2. apply Hset. eapply Hacc; [|exact E|exact Pa]. lia.
Qed.

Lemma begin_block_borrow_side e s t fs s' : begin_block e s t fs = Ok s' tt ->
  (forall d, (d < nd e)%nat -> PREC <= nthZ fs d) -> fac_nonneg (bfac s) ->
  dep s' = dep s /\ bor s' = bor s /\ fac_mono (bfac s) (bfac s') /\ fac_nonneg (bfac s').
Proof.
  intros H Hf Hn.
  refine (begin_block_inv (fun x => dep x = dep s /\ bor x = bor s /\ fac_mono (bfac s) (bfac x) /\ fac_nonneg (bfac x))
            e s t fs s' _ _ H _).
  - intros a b a2 Hb G (P1 & P2 & P3 & P4).
    destruct (accrue_borrow_side _ _ _ _ _ _ G (Hf b Hb) P4) as (Q1 & Q2 & Q3 & Q4).
    split; [congruence|]. split; [congruence|]. split; [eapply fac_mono_trans; eauto|assumption].
  - intros s0 m Q. exact Q.
  - repeat split; auto using fac_mono_refl.
Qed.

Theorem interest_monotone_borrow e s t fs s' u r c :
  begin_block e s t fs = Ok s' tt -> (forall d, (d < nd e)%nat -> PREC <= nthZ fs d) ->
  fac_nonneg (bfac s) -> bor s u = Some r -> (forall d, 0 <= amt r d) -> idx_sound (bfac s) r ->
  synced_borrow e s u = Some (Ok c tt) ->
  exists c', synced_borrow e s' u = Some (Ok c' tt) /\ forall d, c d <= c' d.
Proof.
  intros H Hf Hn Hb Ha Hs Hc.
  destruct (begin_block_borrow_side _ _ _ _ _ H Hf Hn) as (_ & B & M & _).
  unfold synced_borrow in *. rewrite B, Hb in *. inversion Hc as [Hc']; clear Hc.
  destruct (load_synced_mono (nd e) _ _ r c Ha Hn M Hs Hc') as (c' & E & L).
  exists c'. rewrite E. split; [reflexivity|assumption].
Qed.

(** ** supply side: CalculateSupplyInterestFactor never returns less than one *)
Lemma supply_factor_ge_one sint cash b r : 0 <= sint ->
  PREC <= supply_factor (dec_of_int sint) (dec_of_int cash) (dec_of_int b) (dec_of_int r).
Proof.
  intros Hs. unfold supply_factor, dec_of_int.
  destruct (Z.leb_spec (cash * PREC + b * PREC - r * PREC) 0); [lia|].
  assert (0 <= dec_quo (sint * PREC) (cash * PREC + b * PREC - r * PREC)).
  { apply dec_quo_nonneg; unfold PREC in *; nia. }
  lia.
Qed.

Lemma accrue_supply_side e s d t f s' : accrue e s d t f = Ok s' tt ->
  fac_nonneg (sfac s) ->
  dep s' = dep s /\ bor s' = bor s /\ fac_mono (sfac s) (sfac s') /\ fac_nonneg (sfac s').
Proof.
  unfold accrue. intros H Hn.
  destruct (prev s d) as [p|]; [|apply ret_ok in H; subst; cbn; auto using fac_mono_refl].
  destruct (t - p =? 0); [apply ret_ok in H; subst; auto using fac_mono_refl|].
  destruct (tbor s d =? 0); [apply ret_ok in H; subst; cbn; auto using fac_mono_refl|].
  set (sf := match sfac s d with Some x => x | None => PREC end) in *.
  assert (Hsf : 0 <= sf) by (unfold sf; destruct (sfac s d) eqn:E; [eapply Hn; eauto|unfold PREC; lia]).
  assert (M1 : fac_mono (sfac s) (upd (sfac s) d (Some sf)) /\ fac_nonneg (upd (sfac s) d (Some sf))).
  { split.
    - intros d' x E. unfold upd. destruct (Nat.eqb_spec d' d) as [->|].
      + exists sf. split; [reflexivity|]. unfold sf. rewrite E. lia.
      + exists x. split; [assumption|lia].
    - intros d' x. unfold upd. destruct (Nat.eqb_spec d' d); [intros E; inversion E; subst; assumption|apply Hn]. }
  cbn [mkts set_sfac set_bfac] in H. destruct (mkts s d) as [m|] eqn:Em; [|discriminate].
  inv_bind H as apy E1. inv_bind H as u1 G1.
  match type of H with (if ?c then _ else _) = _ => destruct c end.
  - apply ret_ok in H. subst s'. cbn. tauto.
  - inv_bind H as u2 G2. inv_bind H as u3 G3. inv_bind H as u4 G4. apply ret_ok in H. subst s'. cbn.
    apply panic_unless_ok in G2, G3, G4. apply Z.leb_le in G2, G3, G4.
    set (interest := dec_trunc_int (dec_mul f (dec_of_int (tbor s d))) - tbor s d) in *.
    set (rnew := dec_trunc_int (dec_mul (dec_of_int interest) (m_reserve m))) in *.
    pose proof (supply_factor_ge_one (interest - rnew) (bal s (hacc e) d) (tbor s d) (tres s d) G3) as Hsfn.
    split; [reflexivity|]. split; [reflexivity|]. split.
    + intros d' x E. unfold upd. destruct (Nat.eqb_spec d' d) as [->|].
      * eexists. split; [reflexivity|]. pose proof (dec_mul_ge_one sf _ Hsf Hsfn). unfold sf in *. rewrite E in *. lia.
      * exists x. split; [assumption|lia].
    + intros d' x. unfold upd. destruct (Nat.eqb_spec d' d).
      * intros E; inversion E; subst. apply dec_mul_nonneg; [assumption|unfold PREC in *; lia].
      * apply Hn.
Qed.

Theorem interest_monotone_supply e s t fs s' u r c :
  begin_block e s t fs = Ok s' tt ->
  fac_nonneg (sfac s) ->
  dep s u = Some r -> (forall d, 0 <= amt r d) -> idx_sound (sfac s) r ->
  synced_deposit e s u = Some (Ok c tt) ->
  exists c', synced_deposit e s' u = Some (Ok c' tt) /\ forall d, c d <= c' d.
Proof.
  intros H Hn Hd Ha Hs Hc.
  assert (X : dep s' = dep s /\ fac_mono (sfac s) (sfac s')).
  { enough (Y : dep s' = dep s /\ bor s' = bor s /\ fac_mono (sfac s) (sfac s') /\ fac_nonneg (sfac s')) by tauto.
    refine (begin_block_inv (fun x => dep x = dep s /\ bor x = bor s /\ fac_mono (sfac s) (sfac x) /\ fac_nonneg (sfac x))
              e s t fs s' _ _ H _).
    - intros a b a2 Hb G (P1 & P2 & P3 & P4).
      destruct (accrue_supply_side _ _ _ _ _ _ G P4) as (Q1 & Q2 & Q3 & Q4).
      split; [congruence|]. split; [congruence|]. split; [eapply fac_mono_trans; eauto|tauto].
    - intros s0 m Q. exact Q.
    - repeat split; auto using fac_mono_refl. }
  destruct X as [D M].
  unfold synced_deposit in *. rewrite D, Hd in *. inversion Hc as [Hc']; clear Hc.
  destruct (load_synced_sup_mono (nd e) _ _ r c Ha Hn M Hs Hc') as (c' & E & L).
  exists c'. rewrite E. split; [reflexivity|assumption].
Qed.

(** ** assembled statements used by Properties/C08.v *)
Lemma sync_position_bal e s u s2 : sync_position e s u = Ok s2 tt -> bal s2 = bal s /\ same_val s s2.
Proof.
  unfold sync_position. intros H. inv_bind H as s1 E1.
  destruct (sync_borrow_frame _ _ _ _ E1) as (B1 & B2 & _). destruct (sync_supply_frame _ _ _ _ H) as (S1 & S2 & _).
  split; [congruence|eapply same_val_trans; eauto].
Qed.

Lemma liq_only_unsafe e s k b s' : liquidate e s k b = Ok s' tt ->
  exists s2 dp bw, sync_position e s b = Ok s2 tt /\ dep s2 b = Some dp /\ bor s2 b = Some bw /\
                   within_ltv e s2 (amt dp) (amt bw) = Some false.
Proof.
  intros H. apply liquidate_spec in H. destruct H as (s2 & dp & bw & s3 & H1 & H2 & H3 & H4 & _).
  exists s2, dp, bw. auto.
Qed.

Lemma safe_not_liquidatable e s b s2 dp bw :
  sync_position e s b = Ok s2 tt -> dep s2 b = Some dp -> bor s2 b = Some bw ->
  within_ltv e s2 (amt dp) (amt bw) = Some true ->
  forall k s', liquidate e s k b <> Ok s' tt.
Proof.
  intros H1 H2 H3 H4 k s' H. apply liq_only_unsafe in H.
  destruct H as (s2' & dp' & bw' & G1 & G2 & G3 & G4). rewrite H1 in G1. inversion G1; subst s2'.
  rewrite H2 in G2. rewrite H3 in G3. inversion G2; inversion G3; subst. congruence.
Qed.

Lemma keeper_reward_share s dp d :
  keeper_reward s dp d = Z.max 0 (dec_trunc_int (dec_mul_int (keeper_pct s d) (dp d))).
Proof. unfold keeper_reward. destruct (Z.ltb_spec 0 (dec_trunc_int (dec_mul_int (keeper_pct s d) (dp d)))); lia. Qed.

Lemma liq_scope e s k b s' : liquidate e s k b = Ok s' tt -> k <> hacc e ->
  exists s2 dp, sync_position e s b = Ok s2 tt /\ dep s2 b = Some dp /\
    (* the borrower's records are removed, nobody else's record changes *)
    dep s' b = None /\ bor s' b = None /\
    (forall v, v <> b -> dep s' v = dep s v /\ bor s' v = bor s v) /\
    (* at most the (synced) deposit leaves the module, per denom *)
    (forall d, (d < nd e)%nat -> bal s (hacc e) d - bal s' (hacc e) d <= amt dp d) /\
    (* the keeper receives exactly the configured share of the deposit, rounded down *)
    (k <> aacc e -> k <> b -> forall d, (d < nd e)%nat ->
       bal s' k d = bal s k d + Z.max 0 (dec_trunc_int (dec_mul_int (keeper_pct s2 d) (amt dp d)))) /\
    (* accounts other than the module, the auction account, the borrower and the keeper are untouched *)
    (forall x d, x <> hacc e -> x <> aacc e -> x <> b -> x <> k -> bal s' x d = bal s x d).
Proof.
  intros H Hk. apply liquidate_spec in H.
  destruct H as (s2 & dp & bw & s3 & H1 & H2 & H3 & H4 & H5 & H6 & H7 & H8 & H9 & H10 & H11).
  destruct (seize_scope _ _ _ _ _ _ _ H5 Hk) as (S1 & S2 & S3).
  exists s2, dp. rewrite H9, <- H10. repeat split; try assumption; try (apply H8; assumption).
  intros Hk2 Hk3 d Hd. rewrite <- keeper_reward_share. apply S3; assumption.
Qed.

Lemma withdraw_capped e s u c s' : withdraw e s u c = Ok s' tt -> u <> hacc e ->
  exists s2 r, sync_position e s u = Ok s2 tt /\ dep s2 u = Some r /\
    let moved := capped e c (amt r) in
    (forall d, bal s' u d = bal s u d + moved d /\ bal s' (hacc e) d = bal s (hacc e) d - moved d) /\
    (forall d, 0 <= amt r d -> 0 <= c d -> 0 <= moved d <= amt r d) /\
    ceq (nd e) (amt_of (dep s' u)) (csub (amt r) moved).
Proof.
  intros H Hu. apply withdraw_spec in H. destruct H as (s2 & r & H1 & H2 & H). cbn zeta in H.
  destruct H as (_ & _ & _ & Hd & _ & _ & _ & Hb & Hb2).
  exists s2, r. split; [assumption|]. split; [assumption|]. cbn zeta. split; [|split; [|assumption]].
  - intros d. rewrite Hb, !bal_move, Hb2, !Nat.eqb_refl.
    destruct (Nat.eqb_spec u (hacc e)); [contradiction|]. destruct (Nat.eqb_spec (hacc e) u); [congruence|]. lia.
  - intros d Ha Hc. destruct (capped_le e c (amt r) d Ha); lia.
Qed.

Lemma repay_capped e s a o c s' : repay e s a o c = Ok s' tt -> a <> hacc e ->
  exists s2 r, sync_borrow e s o = Ok s2 tt /\ bor s2 o = Some r /\
    let pay := capped e c (amt r) in
    (forall d, bal s' a d = bal s a d - pay d /\ bal s' (hacc e) d = bal s (hacc e) d + pay d) /\
    (forall d, 0 <= amt r d -> 0 <= c d -> 0 <= pay d <= amt r d) /\
    ceq (nd e) (amt_of (bor s' o)) (csub (amt r) pay).
Proof.
  intros H Ha. apply repay_spec in H. destruct H as (s2 & r & H1 & H2 & H). cbn zeta in H.
  destruct H as (_ & Hb & Hb2 & Hd & _).
  exists s2, r. split; [assumption|]. split; [assumption|]. cbn zeta. split; [|split; [|assumption]].
  - intros d. rewrite Hb, !bal_move, Hb2, !Nat.eqb_refl.
    destruct (Nat.eqb_spec a (hacc e)); [contradiction|]. destruct (Nat.eqb_spec (hacc e) a); [congruence|]. lia.
  - intros d Hr Hc. destruct (capped_le e c (amt r) d Hr); lia.
Qed.

Lemma of_list_nonneg l : clist_valid l = true -> forall d, 0 <= of_list l d.
Proof.
  unfold clist_valid. generalize (@None nat). induction l as [|[d0 x] l IH]; intros lo H d; cbn in *; [unfold czero; lia|].
  apply andb_prop in H. destruct H as [H1 H2]. apply andb_prop in H1. destruct H1 as [H1 _].
  apply Z.ltb_lt in H1. destruct (Nat.eqb d d0); [lia|]. eapply IH; eauto.
Qed.

Lemma res_ok_elim {A} (r : res A) (P : A -> Prop) :
  match r with Ok a _ => P a | _ => False end -> exists a, r = Ok a tt /\ P a.
Proof. destruct r as [a []| |]; [eauto|tauto|tauto]. Qed.

(** ** the begin blocker does not panic *)
Lemma util_ratio_total cash b r : exists u, util_ratio cash b r = Ok u tt.
Proof.
  unfold util_ratio. destruct (b =? 0); [eexists; reflexivity|].
  destruct (Z.leb_spec (cash + b - r) 0); [eexists; reflexivity|].
  unfold dquo. destruct (Z.eqb_spec (cash + b - r) 0); [lia|]. cbn. eexists; reflexivity.
Qed.

Lemma borrow_rate_total m cash b r : exists u, borrow_rate m cash b r = Ok u tt.
Proof.
  unfold borrow_rate. destruct (util_ratio_total cash b r) as [u ->]. cbn [bind].
  destruct (u <=? m_kink m); eexists; reflexivity.
Qed.

Definition mk_wf (f : nat -> option market) : Prop :=
  forall d m, f d = Some m -> 0 <= m_reserve m <= PREC.

Lemma reserve_share_le i rf : 0 <= i -> 0 <= rf <= PREC ->
  0 <= dec_trunc_int (dec_mul (dec_of_int i) rf) <= i.
Proof.
  intros Hi Hr. unfold dec_trunc_int, dec_mul, dec_of_int.
  assert (0 <= chop_round (i * PREC * rf)) by (apply chop_round_nonneg; unfold PREC in *; nia).
  assert (chop_round (i * PREC * rf) <= i * PREC).
  { rewrite <- (chop_round_exact (i * PREC)) at 2 by (unfold PREC; lia).
    apply chop_round_mono_nonneg. unfold PREC in *. nia. }
  split; [apply Z.quot_pos; [assumption|unfold PREC; lia]|].
  rewrite <- (Z.quot_mul i PREC) at 2 by (unfold PREC; lia).
  apply Z.quot_le_mono; [reflexivity|assumption].
Qed.

Lemma interest_nonneg f b : PREC <= f -> 0 <= b -> 0 <= dec_trunc_int (dec_mul f (dec_of_int b)) - b.
Proof.
  intros Hf Hb. unfold dec_trunc_int, dec_mul, dec_of_int.
  assert (b * PREC <= chop_round (f * (b * PREC))).
  { rewrite <- (chop_round_exact (b * PREC)) at 1 by (unfold PREC; lia).
    apply chop_round_mono_nonneg. unfold PREC in *. nia. }
  assert (b <= Z.quot (chop_round (f * (b * PREC))) PREC).
  { rewrite <- (Z.quot_mul b PREC) at 1 by (unfold PREC; lia). apply Z.quot_le_mono; [reflexivity|assumption]. }
  lia.
Qed.

Lemma accrue_no_panic e s d t f : mk_wf (mkts s) -> mkts s d <> None -> PREC <= f -> (forall x, 0 <= tbor s x) ->
  exists s', accrue e s d t f = Ok s' tt /\ (forall x, 0 <= tbor s' x) /\ mkts s' = mkts s /\ params s' = params s.
Proof.
  intros Hwf Hm Hf Hb. unfold accrue.
  destruct (prev s d) as [p|]; [|eexists; split; [reflexivity|auto]].
  destruct (t - p =? 0); [eexists; split; [reflexivity|auto]|].
  destruct (tbor s d =? 0); [eexists; split; [reflexivity|auto]|].
  cbn [mkts set_sfac set_bfac].
  destruct (mkts s d) as [m|] eqn:Em; [|congruence].
  destruct (borrow_rate_total m (dec_of_int (bal s (hacc e) d)) (dec_of_int (tbor s d)) (dec_of_int (tres s d))) as [apy Ea].
  cbn [bal set_sfac set_bfac tbor tres]. rewrite Ea.
  cbn [bind]. assert (Hf0 : (0 <=? f) = true) by (apply Z.leb_le; unfold PREC in *; lia). rewrite Hf0. cbn [err_unless bind ret].
  pose proof (interest_nonneg f (tbor s d) Hf (Hb d)) as Hi.
  set (interest := dec_trunc_int (dec_mul f (dec_of_int (tbor s d))) - tbor s d) in *.
  destruct ((interest =? 0) && (0 <? apy)); [eexists; split; [reflexivity|auto]|].
  pose proof (reserve_share_le interest (m_reserve m) Hi (Hwf d m Em)) as Hr.
  set (rnew := dec_trunc_int (dec_mul (dec_of_int interest) (m_reserve m))) in *.
  assert (E1 : (0 <=? interest) = true) by (apply Z.leb_le; lia).
  assert (E2 : (0 <=? interest - rnew) = true) by (apply Z.leb_le; lia).
  assert (E3 : (0 <=? rnew) = true) by (apply Z.leb_le; lia).
  rewrite E1, E2, E3. cbn [panic_unless bind ret].
  eexists. split; [reflexivity|]. split; [|split; reflexivity]. intros x. cbn. unfold cadd. rewrite csingle_eq. specialize (Hb x).
  destruct (Nat.eqb x d); lia.
Qed.

Definition bb_ok (s : state) : Prop :=
  mk_wf (mkts s) /\ mk_wf (params s) /\ forall x, 0 <= tbor s x.

Lemma mk_wf_upd f d m : mk_wf f -> 0 <= m_reserve m <= PREC -> mk_wf (upd f d (Some m)).
Proof. intros H Hm d' m'. unfold upd. destruct (Nat.eqb d' d); [intros E; inversion E; subst; assumption|apply H]. Qed.
Lemma mk_wf_del f d : mk_wf f -> mk_wf (upd f d None).
Proof. intros H d' m'. unfold upd. destruct (Nat.eqb d' d); [discriminate|apply H]. Qed.

Lemma apply_param_market_no_panic e t fs s d : bb_ok s -> PREC <= nthZ fs d ->
  exists s', apply_param_market e t fs (ret s) d = Ok s' tt /\ bb_ok s'.
Proof.
  intros (W1 & W2 & Hb) Hf. unfold apply_param_market. cbn [bind ret].
  destruct (params s d) as [pm|] eqn:Ep; [|eexists; split; [reflexivity|exact (conj W1 (conj W2 Hb))]].
  set (s0 := match mkts s d with Some _ => s | None => set_mkts s (upd (mkts s) d (Some pm)) end).
  assert (B0 : bb_ok s0 /\ mkts s0 d <> None /\ params s0 = params s).
  { unfold s0. destruct (mkts s d) eqn:Em.
    - split; [exact (conj W1 (conj W2 Hb))|]. split; [congruence|reflexivity].
    - split; [split; [cbn; apply mk_wf_upd; [assumption|eapply W2; eauto]|split; assumption]|].
      split; [cbn; unfold upd; rewrite Nat.eqb_refl; discriminate|reflexivity]. }
  destruct B0 as ((V1 & V2 & Vb) & Hm & Hp).
  destruct (accrue_no_panic e s0 d t (nthZ fs d) V1 Hm Hf Vb) as (s1 & E & Hb1 & M1 & Q1).
  rewrite E. cbn [bind ret]. eexists. split; [reflexivity|].
  destruct (market_eqb _ pm).
  - split; [rewrite M1; assumption|]. split; [rewrite Q1, Hp; assumption|assumption].
  - split; [cbn; apply mk_wf_upd; [rewrite M1; assumption|eapply W2; eauto]|]. split; [cbn; rewrite Q1, Hp; assumption|assumption].
Qed.

Lemma drop_removed_market_no_panic e t fs s d : bb_ok s -> PREC <= nthZ fs d ->
  exists s', drop_removed_market e t fs (ret s) d = Ok s' tt /\ bb_ok s'.
Proof.
  intros (W1 & W2 & Hb) Hf. unfold drop_removed_market. cbn [bind ret].
  destruct (mkts s d) as [m|] eqn:Em; [|eexists; split; [reflexivity|exact (conj W1 (conj W2 Hb))]].
  destruct (params s d); [eexists; split; [reflexivity|exact (conj W1 (conj W2 Hb))]|].
  destruct (accrue_no_panic e s d t (nthZ fs d) W1 ltac:(congruence) Hf Hb) as (s1 & E & Hb1 & M1 & Q1).
  rewrite E. cbn [bind ret]. eexists. split; [reflexivity|].
  split; [cbn; apply mk_wf_del; rewrite M1; assumption|]. split; [cbn; rewrite Q1; assumption|assumption].
Qed.

Lemma fold_no_panic {B} (f : res state -> B -> res state) (g : state -> B -> res state) (Q : B -> Prop) l :
  (forall acc b, f acc b = bind acc (fun a => g a b)) ->
  (forall s b, Q b -> bb_ok s -> exists s', g s b = Ok s' tt /\ bb_ok s') ->
  (forall b, In b l -> Q b) ->
  forall s, bb_ok s -> exists s', fold_left f l (ret s) = Ok s' tt /\ bb_ok s'.
Proof.
  intros Hf Hg. induction l as [|b l IH]; intros Hq s Hs; cbn [fold_left].
  - eexists; split; [reflexivity|assumption].
  - rewrite Hf. cbn [bind ret]. destruct (Hg s b (Hq b (or_introl eq_refl)) Hs) as (s1 & E & H1).
    rewrite E. apply IH; [intros b' Hb'; apply Hq; right; exact Hb'|exact H1].
Qed.

Theorem begin_block_no_panic e s t fs :
  mk_wf (mkts s) -> mk_wf (params s) ->
  (forall d, (d < nd e)%nat -> PREC <= nthZ fs d) -> (forall x, 0 <= tbor s x) ->
  exists s', begin_block e s t fs = Ok s' tt.
Proof.
  intros W1 W2 Hf Hb. unfold begin_block.
  assert (Hq : forall b, In b (seq 0 (nd e)) -> PREC <= nthZ fs b) by (intros b Hin; apply in_seq in Hin; apply Hf; lia).
  destruct (fold_no_panic _ _ (fun d => PREC <= nthZ fs d) (seq 0 (nd e)) (apply_param_market_bind e t fs)
              (fun s0 b Hb0 Hs0 => apply_param_market_no_panic e t fs s0 b Hs0 Hb0) Hq s (conj W1 (conj W2 Hb))) as (s1 & E1 & B1).
  rewrite E1.
  destruct (fold_no_panic _ _ (fun d => PREC <= nthZ fs d) (seq 0 (nd e)) (drop_removed_market_bind e t fs)
              (fun s0 b Hb0 Hs0 => drop_removed_market_no_panic e t fs s0 b Hs0 Hb0) Hq s1 B1) as (s2 & E2 & B2).
  unfold ret in E2. rewrite E2. eexists; reflexivity.
Qed.

(** ** the begin blocker copies the money markets of the params into the store *)
Lemma accrue_frame_mk e s d t f s' : accrue e s d t f = Ok s' tt -> mkts s' = mkts s /\ params s' = params s.
Proof.
  unfold accrue. intros H.
  destruct (prev s d) as [p|]; [|apply ret_ok in H; subst; auto].
  destruct (t - p =? 0); [apply ret_ok in H; subst; auto|].
  destruct (tbor s d =? 0); [apply ret_ok in H; subst; auto|].
  cbn [mkts set_sfac set_bfac] in H. destruct (mkts s d) as [m|]; [|discriminate].
  inv_bind H as apy E1. inv_bind H as u1 G1.
  match type of H with (if ?c then _ else _) = _ => destruct c end.
  - apply ret_ok in H. subst s'. auto.
  - inv_bind H as u2 G2. inv_bind H as u3 G3. inv_bind H as u4 G4. apply ret_ok in H. subst s'. auto.
Qed.

Lemma market_eqb_eq a b : market_eqb a b = true -> a = b.
Proof.
  unfold market_eqb. intros H. repeat (apply andb_prop in H; destruct H as [H ?]).
  destruct a, b; cbn in *.
  repeat match goal with E : (_ =? _) = true |- _ => apply Z.eqb_eq in E end.
  match goal with E : Bool.eqb _ _ = true |- _ => apply Bool.eqb_prop in E end.
  subst. reflexivity.
Qed.

Lemma fold_mkts_pointwise {f : res state -> nat -> res state} {g : state -> nat -> res state} (T : state -> nat -> Prop) l :
  (forall acc b, f acc b = bind acc (fun a => g a b)) ->
  NoDup l ->
  (forall a b a2, g a b = Ok a2 tt ->
     params a2 = params a /\ (forall d, d <> b -> mkts a2 d = mkts a d) /\ T a2 b) ->
  (forall a a2 d, params a2 = params a -> mkts a2 d = mkts a d -> T a d -> T a2 d) ->
  forall a0 a', fold_left f l (ret a0) = Ok a' tt ->
  params a' = params a0 /\ (forall d, ~ In d l -> mkts a' d = mkts a0 d) /\ forall d, In d l -> T a' d.
Proof.
  intros Hf Hnd Hg Hst. induction Hnd as [|b l Hnin Hnd IH]; intros a0 a' H; cbn [fold_left] in H.
  - apply ret_ok in H. subst. split; [reflexivity|]. split; [reflexivity|intros d []].
  - rewrite Hf in H. cbn [bind ret] in H.
    destruct (g a0 b) as [a1 []| |] eqn:G.
    2,3: exfalso; eapply (fold_not_ok f g l _ Hf); [|exact H]; discriminate.
    destruct (Hg _ _ _ G) as (P1 & M1 & T1). destruct (IH _ _ H) as (P2 & M2 & T2).
    split; [congruence|]. split.
    + intros d Hd. rewrite M2 by (intros Hx; apply Hd; right; exact Hx). apply M1. intros ->. apply Hd. left; reflexivity.
    + intros d [<-|Hd]; [|apply T2, Hd]. apply (Hst a1 a' b); [assumption|apply M2, Hnin|exact T1].
Qed.

Theorem begin_block_syncs_markets e s t fs s' : begin_block e s t fs = Ok s' tt ->
  params s' = params s /\ forall d, (d < nd e)%nat -> mkts s' d = params s d.
Proof.
  intros H. unfold begin_block in H.
  destruct (fold_left (apply_param_market e t fs) (seq 0 (nd e)) (ret s)) as [s1 []| |] eqn:F1.
  2,3: exfalso; match type of H with match ?x with _ => _ end = _ => destruct x as [s2 []| |] eqn:F2 end; try discriminate;
       eapply (fold_not_ok _ _ _ _ (drop_removed_market_bind e t fs)); [|exact F2]; discriminate.
  match type of H with match ?x with _ => _ end = _ => destruct x as [s2 []| |] eqn:F2 end; try discriminate.
  apply ret_ok in H. subst s2.
  (* first loop: every market of the params is in the store *)
  destruct (fold_mkts_pointwise (fun a d => forall pm, params a d = Some pm -> mkts a d = Some pm) (seq 0 (nd e))
              (apply_param_market_bind e t fs) (seq_NoDup (nd e) 0)) with (a0 := s) (a' := s1) as (A1 & A2 & A3); [| |exact F1|].
  { intros a b a2 G. unfold apply_param_market in G. cbn [bind ret] in G.
    destruct (params a b) as [pm|] eqn:Ep.
    - inv_bind G as a1 E. apply ret_ok in G. destruct (accrue_frame_mk _ _ _ _ _ _ E) as [M Q].
      assert (Q' : params a1 = params a) by (rewrite Q; destruct (mkts a b); reflexivity).
      assert (M' : forall d, d <> b -> mkts a1 d = mkts a d).
      { intros d Hd. rewrite M. destruct (mkts a b); [reflexivity|]. cbn. unfold upd. destruct (Nat.eqb_spec d b); [contradiction|reflexivity]. }
      destruct (market_eqb _ pm) eqn:Eq.
      + subst a2. split; [assumption|]. split; [assumption|]. intros pm' Hp. rewrite Q', Ep in Hp. inversion Hp; subst pm'.
        rewrite M. apply market_eqb_eq in Eq. destruct (mkts a b) as [m|] eqn:Em.
        * congruence.
        * cbn. unfold upd. rewrite Nat.eqb_refl. reflexivity.
      + subst a2. cbn. split; [assumption|]. split.
        * intros d Hd. unfold upd. destruct (Nat.eqb_spec d b); [contradiction|apply M', Hd].
        * intros pm' Hp. rewrite Q', Ep in Hp. inversion Hp; subst. unfold upd. rewrite Nat.eqb_refl. reflexivity.
    - apply ret_ok in G. subst a2. split; [reflexivity|]. split; [reflexivity|]. intros pm Hp. congruence. }
  { intros a a2 d Hp Hm T0 pm E. rewrite Hm. apply T0. rewrite <- Hp. exact E. }
  (* second loop keeps the markets of the params ... *)
  assert (I2 : params s' = params s1 /\ forall d, (d < nd e)%nat -> forall pm, params s' d = Some pm -> mkts s' d = Some pm).
  { refine (fold_bind_inv (fun a => params a = params s1 /\ forall d, (d < nd e)%nat -> forall pm, params a d = Some pm -> mkts a d = Some pm)
              _ _ _ (drop_removed_market_bind e t fs) _ _ _ F2 _).
    - intros a b a2 [Pa Ia] G. unfold drop_removed_market in G. cbn [bind ret] in G.
      destruct (mkts a b) as [m|] eqn:Em; [|apply ret_ok in G; subst; split; assumption].
      destruct (params a b) eqn:Ep; [apply ret_ok in G; subst; split; assumption|].
      inv_bind G as a1 E. apply ret_ok in G. destruct (accrue_frame_mk _ _ _ _ _ _ E) as [M Q]. subst a2. cbn.
      split; [congruence|]. intros d Hd pm Hp. rewrite Q in Hp. unfold upd.
      destruct (Nat.eqb_spec d b) as [->|]; [congruence|]. rewrite M. apply Ia; assumption.
    - split; [reflexivity|]. intros d Hd pm Hp. apply A3; [apply in_seq; lia|exact Hp]. }
  (* ... and drops the others *)
  destruct (fold_mkts_pointwise (fun a d => params a d = None -> mkts a d = None) (seq 0 (nd e))
              (drop_removed_market_bind e t fs) (seq_NoDup (nd e) 0)) with (a0 := s1) (a' := s') as (B1 & B2 & B3); [| |exact F2|].
  { intros a b a2 G. unfold drop_removed_market in G. cbn [bind ret] in G.
    destruct (mkts a b) as [m|] eqn:Em.
    - destruct (params a b) eqn:Ep.
      + apply ret_ok in G. subst a2. split; [reflexivity|]. split; [reflexivity|]. congruence.
      + inv_bind G as a1 E. apply ret_ok in G. destruct (accrue_frame_mk _ _ _ _ _ _ E) as [M Q]. subst a2. cbn.
        split; [assumption|]. split.
        * intros d Hd. unfold upd. destruct (Nat.eqb_spec d b); [contradiction|rewrite M; reflexivity].
        * intros _. unfold upd. rewrite Nat.eqb_refl. reflexivity.
    - apply ret_ok in G. subst a2. split; [reflexivity|]. split; [reflexivity|]. intros _. exact Em. }
  { intros a a2 d Hp Hm T0 E. rewrite Hm. apply T0. rewrite <- Hp. exact E. }
  destruct I2 as [I2a I2b]. split; [congruence|].
  intros d Hd. rewrite <- A1, <- I2a.
  destruct (params s' d) as [pm|] eqn:Ep; [apply I2b; assumption|apply B3; [apply in_seq; lia|exact Ep]].
Qed.

Definition pct_of (o : option market) : Z := match o with Some m => m_keeper m | None => 0 end.

(* once the begin blocker has run, a liquidation pays the keeper the share configured in the params *)
Lemma keeper_reward_from_params e s0 t fs s k b s' :
  begin_block e s0 t fs = Ok s tt -> liquidate e s k b = Ok s' tt ->
  k <> hacc e -> k <> aacc e -> k <> b ->
  exists s2 dp, sync_position e s b = Ok s2 tt /\ dep s2 b = Some dp /\
    forall d, (d < nd e)%nat ->
      bal s' k d = bal s k d + Z.max 0 (dec_trunc_int (dec_mul_int (pct_of (params s d)) (amt dp d))).
Proof.
  intros Hb Hl K1 K2 K3. destruct (begin_block_syncs_markets _ _ _ _ _ Hb) as [P M].
  destruct (liq_scope _ _ _ _ _ Hl K1) as (s2 & dp & H1 & H2 & _ & _ & _ & _ & H7 & _).
  exists s2, dp. split; [assumption|]. split; [assumption|]. intros d Hd.
  rewrite (H7 K2 K3 d Hd). destruct (sync_position_bal _ _ _ _ H1) as [_ [_ Hm]].
  unfold keeper_pct, pct_of. rewrite Hm, (M d Hd), P. reflexivity.
Qed.
