(* Lemmas and proofs about Model/Hard.v *)
From Kava Require Import Base.Prelude Base.Dec Model.Hard.
Local Open Scope Z_scope.
