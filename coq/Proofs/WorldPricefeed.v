(* C02 instance: x/pricefeed.  x/pricefeed's own BeginBlock is empty; its END blocker is
   SetCurrentPricesForAllMarkets (Model.Pricefeed.set_all = step EndBlock), proved never to panic
   (C18_end_block_never_panics: a market without live prices gets "no price" and the loop goes on).
   The begin-block step of this component is the model's [BeginBlock t]: the clock moves to t and the
   pricefeed-status part of the x/cdp begin blocker (UpdatePricefeedStatus per collateral) runs — that
   flag store lives in this model's state because the consumer guards of C18 read it; it is total.
   Operations: MsgPostPrice, a governance change of the markets, SetCurrentPrices(m) on a discarded
   branch, and the guard part of the cdp/hard entry points (result class recorded).
   x/pricefeed registers no invariant; the invariant is Proofs.Pricefeed.Inv: no negative raw or
   current price (what the median/no-panic proofs need).  No guards. *)
From Coq Require Import String.
From Kava Require Import Base.Prelude Model.World Model.WorldG Proofs.WorldG.
From Kava Require Import Base.Dec Model.Pricefeed Proofs.Pricefeed.
Local Open Scope string_scope.

(* block hooks are not transactions *)
Definition pricefeed_tx (e : env) (s : state) (o : op) : outcome state unit :=
  match o with BeginBlock _ | EndBlock => Err | _ => forget (step e s o) end.

Definition pricefeed_M (e : env) : module :=
  mkModule ["pricefeed"] state Z op
           (fun s t => forget (step e s (BeginBlock t)))
           (pricefeed_tx e)
           (fun s _ => forget (step e s EndBlock))
           Inv (fun _ _ => True) (fun _ _ => True).

Lemma pricefeed_M_ok e : module_ok (pricefeed_M e).
Proof.
  constructor; cbn [m_S m_B m_O m_bb m_tx m_eb m_Inv m_goodB m_goodT pricefeed_M].
  - intros s t HI _. destruct (step e s (BeginBlock t)) as [s1 out| |] eqn:E.
    + exists s1. split; [reflexivity|]. eapply step_inv; eauto.
    + cbn [step] in E. destruct (begin_block e s t); discriminate.
    + cbn [step] in E. destruct (begin_block e s t); discriminate.
  - intros s o s' u HI _ E. unfold pricefeed_tx in E.
    destruct o; try discriminate; apply forget_ok in E; destruct E as (out & E); eapply step_inv; eauto.
  - intros s _ HI. destruct (step e s EndBlock) as [s1 out| |] eqn:E.
    + exists s1. split; [reflexivity|]. eapply step_inv; eauto.
    + exfalso. cbn [step] in E. unfold set_all in E.
      destruct (set_all_loop e s (active_ids (markets s)) (cur s)); discriminate.
    + exfalso. exact (step_no_panic_end e s E).
Qed.

(** * non-vacuity: two markets, three oracles; posts, the end blocker takes the medians of the live posts *)
Definition pf_e0 : env := mkEnv 2 3 [(0%nat, 1%nat)].
Definition pf_s0 : state :=
  mk_state 100 [mkMarket 0 true [0; 1; 2]%nat; mkMarket 1 true [0; 1]%nat]
           [(0%nat, 0%nat, 5, 101); (0%nat, 1%nat, 2, 100); (0%nat, 2%nat, 5, 200); (1%nat, 0%nat, 2, 150); (1%nat, 1%nat, 3, 150)]
           [] [false; false].

Example pricefeed_nonvacuous :
  m_Inv (pricefeed_M pf_e0) pf_s0 /\
  match run_blocksG (pricefeed_M pf_e0) pf_s0 [(100, []); (101, [Post 1 0 9 5000000000])] with
  | Some s => get_current_price s 0%nat = Some 7 /\      (* after block 2: live posts of market 0 are {5 (o2), 9 (o1)}: mean 7 *)
              get_current_price s 1%nat = Some 2 /\      (* (2+3)/2 = 2.5e-18 -> even neighbour 2 *)
              status s 0%nat = true
  | None => False
  end.
Proof.
  split.
  - split.
    + intros m o p ex. cbn. unfold upd2.
      repeat (destruct (_ && _); [intros E; injection E as <- _; lia|]). discriminate.
    + intros m p. cbn. discriminate.
  - vm_compute. repeat split; reflexivity.
Qed.
Print Assumptions pricefeed_M_ok.
