(* Lemmas and proofs about Model/Erc20.v and Model/Evmutil.v *)
From Kava Require Import Base.Prelude Model.Erc20 Model.Evmutil.

Local Open Scope Z_scope.

(** ** arithmetic *)
Lemma U256_pos : 0 < U256.
Proof. reflexivity. Qed.

Lemma K10_pos : 0 < K10.
Proof. reflexivity. Qed.

Lemma u256_range x : 0 <= u256 x < U256.
Proof. unfold u256. apply Z.mod_pos_bound. exact U256_pos. Qed.

Lemma u256_small x : 0 <= x < U256 -> u256 x = x.
Proof. intros H. unfold u256. apply Z.mod_small. exact H. Qed.

(* the only fixed point property the balance-delta checks need:
   if the wrapped amount equals the amount, the amount was in range *)
Lemma u256_eq_range x : u256 x = x -> 0 <= x < U256.
Proof. intros H. rewrite <- H. apply u256_range. Qed.

Lemma kf_pos e d : 0 < kf e d.
Proof. unfold kf. destruct (is_bep3 e d); [exact K10_pos | lia]. Qed.

Definition dlt (b : bool) (x : Z) : Z := if b then x else 0.

Ltac eqb_cases :=
  repeat match goal with
  | |- context [Nat.eqb ?a ?b] => destruct (Nat.eqb_spec a b); subst
  | H : context [Nat.eqb ?a ?b] |- _ => destruct (Nat.eqb_spec a b); subst
  end.

(** ** the OpenZeppelin ledger: exact deltas *)
Lemma erc_transfer_nz z l f t x l' : erc_transfer z l f t x = Some l' -> f <> z /\ t <> z.
Proof.
  unfold erc_transfer. destruct (Nat.eqb_spec f z), (Nat.eqb_spec t z); cbn [orb]; try discriminate.
  intros _. split; assumption.
Qed.

Lemma erc_transfer_spec z l f t x l' : erc_transfer z l f t x = Some l' ->
  u256 x <= ebal l f /\ etot l' = etot l /\
  forall a, ebal l' a = ebal l a - dlt (Nat.eqb a f) (u256 x) + dlt (Nat.eqb a t) (u256 x).
Proof.
  unfold erc_transfer. destruct (Nat.eqb f z || Nat.eqb t z); [discriminate|].
  destruct (Z.leb_spec (u256 x) (ebal l f)) as [Hle|]; [|discriminate].
  intros H; inversion H; subst; clear H. cbn [ebal etot].
  split; [exact Hle|]. split; [reflexivity|].
  intros a. unfold upd, dlt. eqb_cases; try congruence; lia.
Qed.

Lemma erc_transfer_allow z l f t x l' : erc_transfer z l f t x = Some l' -> eallow l' = eallow l.
Proof.
  unfold erc_transfer. destruct (Nat.eqb f z || Nat.eqb t z); [discriminate|].
  destruct (u256 x <=? ebal l f); [|discriminate]. intros H; inversion H; reflexivity.
Qed.

Lemma erc_mint_nz z l t x l' : erc_mint z l t x = Some l' -> t <> z.
Proof. unfold erc_mint. destruct (Nat.eqb_spec t z); [discriminate|]. intros _. assumption. Qed.

Lemma erc_mint_spec z l t x l' : erc_mint z l t x = Some l' ->
  etot l + u256 x < U256 /\ etot l' = etot l + u256 x /\
  forall a, ebal l' a = ebal l a + dlt (Nat.eqb a t) (u256 x).
Proof.
  unfold erc_mint. destruct (Nat.eqb t z); [discriminate|].
  destruct (Z.ltb_spec (etot l + u256 x) U256) as [Hlt|]; [|discriminate].
  intros H; inversion H; subst; clear H. cbn [ebal etot].
  split; [exact Hlt|]. split; [reflexivity|].
  intros a. unfold upd, dlt. eqb_cases; lia.
Qed.

Lemma erc_mint_allow z l t x l' : erc_mint z l t x = Some l' -> eallow l' = eallow l.
Proof.
  unfold erc_mint. destruct (Nat.eqb t z); [discriminate|].
  destruct (etot l + u256 x <? U256); [|discriminate]. intros H; inversion H; reflexivity.
Qed.

Lemma erc_burn_nz z l f x l' : erc_burn z l f x = Some l' -> f <> z.
Proof. unfold erc_burn. destruct (Nat.eqb_spec f z); [discriminate|]. intros _. assumption. Qed.

Lemma erc_burn_spec z l f x l' : erc_burn z l f x = Some l' ->
  u256 x <= ebal l f /\ etot l' = etot l - u256 x /\
  forall a, ebal l' a = ebal l a - dlt (Nat.eqb a f) (u256 x).
Proof.
  unfold erc_burn. destruct (Nat.eqb f z); [discriminate|].
  destruct (Z.leb_spec (u256 x) (ebal l f)) as [Hle|]; [|discriminate].
  intros H; inversion H; subst; clear H. cbn [ebal etot].
  split; [exact Hle|]. split; [reflexivity|].
  intros a. unfold upd, dlt. eqb_cases; lia.
Qed.

Lemma erc_burn_allow z l f x l' : erc_burn z l f x = Some l' -> eallow l' = eallow l.
Proof.
  unfold erc_burn. destruct (Nat.eqb f z); [discriminate|].
  destruct (u256 x <=? ebal l f); [|discriminate]. intros H; inversion H; reflexivity.
Qed.

Lemma upd2_eq {A} (f : nat -> nat -> A) a d v x y :
  upd2 f a d v x y = if Nat.eqb x a && Nat.eqb y d then v else f x y.
Proof. reflexivity. Qed.

Lemma erc_approve_spec z l o sp x l' : erc_approve z l o sp x = Some l' ->
  o <> z /\ sp <> z /\ ebal l' = ebal l /\ etot l' = etot l /\
  eallow l' = upd2 (eallow l) o sp (u256 x).
Proof.
  unfold erc_approve. destruct (Nat.eqb_spec o z), (Nat.eqb_spec sp z); cbn [orb]; try discriminate.
  intros H; inversion H; subst; clear H. cbn [ebal etot eallow]. repeat split; assumption.
Qed.

(* transferFrom: the allowance of (from, spender) is the only one touched, it
   covers the amount (or is infinite), then an ordinary transfer *)
Lemma erc_transfer_from_spec z l sp f t x l' : erc_transfer_from z l sp f t x = Some l' ->
  (eallow l f sp = U256 - 1 \/ u256 x <= eallow l f sp) /\
  u256 x <= ebal l f /\ etot l' = etot l /\
  (forall a, ebal l' a = ebal l a - dlt (Nat.eqb a f) (u256 x) + dlt (Nat.eqb a t) (u256 x)) /\
  (forall o s', eallow l' o s' = eallow l o s' \/
                (o = f /\ s' = sp /\ eallow l' o s' = u256 (eallow l f sp - u256 x) /\ u256 x <= eallow l f sp)).
Proof.
  unfold erc_transfer_from.
  destruct (Z.eqb_spec (eallow l f sp) (U256 - 1)) as [Hmax|Hmax].
  - intros H. pose proof (erc_transfer_allow _ _ _ _ _ _ H) as Ha.
    apply erc_transfer_spec in H. destruct H as (Hle & Htot & Hb).
    split; [left; exact Hmax|]. split; [exact Hle|]. split; [exact Htot|]. split; [exact Hb|].
    intros o s'. left. rewrite Ha. reflexivity.
  - destruct (Z.leb_spec (u256 x) (eallow l f sp)) as [Hcov|]; [|discriminate].
    destruct (erc_approve z l f sp (eallow l f sp - u256 x)) as [l1|] eqn:Ea; [|discriminate].
    apply erc_approve_spec in Ea. destruct Ea as (_ & _ & Eb & Et & Eal).
    intros H. pose proof (erc_transfer_allow _ _ _ _ _ _ H) as Ha.
    apply erc_transfer_spec in H. destruct H as (Hle & Htot & Hb).
    rewrite Eb in Hle, Hb. rewrite Et in Htot.
    split; [right; exact Hcov|]. split; [exact Hle|]. split; [exact Htot|]. split; [exact Hb|].
    intros o s'. rewrite Ha, Eal, upd2_eq.
    destruct (Nat.eqb_spec o f) as [->|]; cbn [andb]; [|left; reflexivity].
    destruct (Nat.eqb_spec s' sp) as [->|]; [|left; reflexivity].
    right. split; [reflexivity|]. split; [reflexivity|]. split; [reflexivity|exact Hcov].
Qed.

(** ** the adversarial token *)
Lemma rf_transfer_spec l f t x l' : rf_transfer l f t x = Some l' ->
  u256 x <= ebal l f /\ etot l' = etot l /\ eallow l' t f = u256 x /\
  (forall a, a <> t -> ebal l' a = ebal l a - dlt (Nat.eqb a f) (u256 x)) /\
  ebal l' t = u256 (ebal l t - dlt (Nat.eqb t f) (u256 x) + u256 x).
Proof.
  unfold rf_transfer. destruct (Z.ltb_spec (ebal l f) (u256 x)) as [|Hle]; [discriminate|].
  intros H; inversion H; subst; clear H. cbn [ebal etot eallow].
  split; [exact Hle|]. split; [reflexivity|]. split.
  { rewrite upd2_eq, !Nat.eqb_refl. reflexivity. }
  split.
  - intros a Ha. unfold upd, dlt. destruct (Nat.eqb_spec a t); [congruence|].
    destruct (Nat.eqb_spec a f) as [->|]; lia.
  - unfold upd, dlt. rewrite Nat.eqb_refl. destruct (Nat.eqb_spec t f) as [->|]; f_equal; lia.
Qed.

(** ** x/bank primitives: exact deltas *)
Definition same_evm (s s' : state) : Prop :=
  erc s' = erc s /\ reg s' = reg s /\ next s' = next s /\
  pairs s' = pairs s /\ allowed s' = allowed s.

Lemma same_evm_refl s : same_evm s s.
Proof. repeat split. Qed.

Lemma same_evm_trans s1 s2 s3 : same_evm s1 s2 -> same_evm s2 s3 -> same_evm s1 s3.
Proof. unfold same_evm. intros (?&?&?&?&?) (?&?&?&?&?). repeat split; congruence. Qed.

Lemma bank_send_spec s f t d x s' : bank_send s f t d x = Some s' ->
  (x = 0 \/ x <= bal s f d) /\ same_evm s s' /\ sup s' = sup s /\
  forall a d', bal s' a d' = bal s a d' - dlt (Nat.eqb a f && Nat.eqb d' d) x
                                        + dlt (Nat.eqb a t && Nat.eqb d' d) x.
Proof.
  unfold bank_send. destruct (Z.eqb_spec x 0) as [->|Hx].
  - intros H; inversion H; subst. split; [left; reflexivity|]. split; [apply same_evm_refl|].
    split; [reflexivity|]. intros a d'. unfold dlt. destruct (_ && _), (_ && _); lia.
  - destruct (Z.leb_spec x (bal s f d)) as [Hle|]; [|discriminate].
    intros H; inversion H; subst; clear H. cbn [set_bal bal sup].
    split; [right; exact Hle|]. split; [repeat split|]. split; [reflexivity|].
    intros a d'. rewrite !upd2_eq. unfold dlt.
    eqb_cases; cbn [andb]; rewrite ?Nat.eqb_refl; cbn [andb]; try lia;
      eqb_cases; cbn [andb]; try congruence; try lia.
Qed.

Lemma bank_mint_spec e s d x :
  same_evm s (bank_mint e s d x) /\
  (forall d', sup (bank_mint e s d x) d' = sup s d' + dlt (Nat.eqb d' d) x) /\
  forall a d', bal (bank_mint e s d x) a d' = bal s a d' + dlt (Nat.eqb a (macc e) && Nat.eqb d' d) x.
Proof.
  unfold bank_mint. cbn [set_sup set_bal bal sup erc reg next pairs allowed].
  split; [repeat split|]. split.
  - intros d'. unfold upd, dlt. eqb_cases; lia.
  - intros a d'. rewrite upd2_eq. unfold dlt. eqb_cases; cbn [andb]; lia.
Qed.

Lemma bank_burn_spec e s d x s' : bank_burn e s d x = Some s' ->
  (x = 0 \/ x <= bal s (macc e) d) /\ same_evm s s' /\
  (forall d', sup s' d' = sup s d' - dlt (Nat.eqb d' d) x) /\
  forall a d', bal s' a d' = bal s a d' - dlt (Nat.eqb a (macc e) && Nat.eqb d' d) x.
Proof.
  unfold bank_burn. destruct (Z.eqb_spec x 0) as [->|Hx].
  - intros H; inversion H; subst. split; [left; reflexivity|]. split; [apply same_evm_refl|].
    split; intros; unfold dlt; [destruct (Nat.eqb _ _)|destruct (_ && _)]; lia.
  - destruct (Z.leb_spec x (bal s (macc e) d)) as [Hle|]; [|discriminate].
    intros H; inversion H; subst; clear H.
    cbn [set_sup set_bal bal sup erc reg next pairs allowed].
    split; [right; exact Hle|]. split; [repeat split|]. split.
    + intros d'. unfold upd, dlt. eqb_cases; lia.
    + intros a d'. rewrite upd2_eq. unfold dlt. eqb_cases; cbn [andb]; lia.
Qed.

Lemma send_mod_to_acc_spec e s t d x s' : send_mod_to_acc e s t d x = Some s' ->
  blocked e t = false /\ bank_send s (macc e) t d x = Some s'.
Proof. unfold send_mod_to_acc. destruct (blocked e t); [discriminate|]. auto. Qed.

(** ** lookups in the enabled-pair list *)

Definition pairs_nodup (l : list (nat * nat)) : Prop := NoDup (map fst l) /\ NoDup (map snd l).

Definition on_table (e : env) (p : nat * nat) : Prop :=
  (fst p < npair e)%nat /\ snd p = pair_denom e (fst p).

Lemma pair_of_denom_some s d c : pair_of_denom s d = Some c -> In (c, d) (pairs s).
Proof.
  unfold pair_of_denom. destruct (find _ (pairs s)) as [[c' d']|] eqn:Ef; [|discriminate].
  intros H; inversion H; subst; clear H. apply find_some in Ef. destruct Ef as [Hin Hb].
  cbn in Hb. apply Nat.eqb_eq in Hb. subst. exact Hin.
Qed.

Lemma pair_of_ctr_some s c d : pair_of_ctr s c = Some d -> In (c, d) (pairs s).
Proof.
  unfold pair_of_ctr. destruct (find _ (pairs s)) as [[c' d']|] eqn:Ef; [|discriminate].
  intros H; inversion H; subst; clear H. apply find_some in Ef. destruct Ef as [Hin Hb].
  cbn in Hb. apply Nat.eqb_eq in Hb. subst. exact Hin.
Qed.

Lemma nodupb_NoDup l : nodupb l = true <-> NoDup l.
Proof.
  induction l as [|x r IH]; cbn [nodupb].
  - split; [constructor|reflexivity].
  - rewrite andb_true_iff, negb_true_iff, IH. split.
    + intros [Hn Hr]. constructor; [|exact Hr]. intros Hin.
      assert (existsb (Nat.eqb x) r = true) by (apply existsb_exists; exists x; split; [exact Hin|apply Nat.eqb_refl]).
      congruence.
    + intros H. inversion H; subst. split; [|assumption].
      destruct (existsb (Nat.eqb x) r) eqn:E; [|reflexivity].
      apply existsb_exists in E. destruct E as (y & Hy & Hxy). apply Nat.eqb_eq in Hxy. subst. contradiction.
Qed.

Lemma pairs_nodupb_spec l : pairs_nodupb l = true <-> pairs_nodup l.
Proof. unfold pairs_nodupb, pairs_nodup. rewrite andb_true_iff, !nodupb_NoDup. reflexivity. Qed.

(* in a duplicate-free list the lookups by denom and by address are functions:
   they return THE pair with that denom / that address *)
Lemma find_by_snd l c d : NoDup (map snd l) -> In (c, d) l ->
  find (fun p : nat * nat => Nat.eqb (snd p) d) l = Some (c, d).
Proof.
  induction l as [|[c' d'] r IH]; intros Hnd Hin; [contradiction|].
  cbn [map snd] in Hnd. inversion Hnd as [|? ? Hnot Hr]; subst.
  cbn [find snd]. destruct (Nat.eqb_spec d' d) as [->|Hne].
  - destruct Hin as [Heq|Hin]; [inversion Heq; reflexivity|].
    exfalso. apply Hnot. apply (in_map snd) in Hin. exact Hin.
  - destruct Hin as [Heq|Hin]; [inversion Heq; congruence|]. apply IH; assumption.
Qed.

Lemma find_by_fst l c d : NoDup (map fst l) -> In (c, d) l ->
  find (fun p : nat * nat => Nat.eqb (fst p) c) l = Some (c, d).
Proof.
  induction l as [|[c' d'] r IH]; intros Hnd Hin; [contradiction|].
  cbn [map fst] in Hnd. inversion Hnd as [|? ? Hnot Hr]; subst.
  cbn [find fst]. destruct (Nat.eqb_spec c' c) as [->|Hne].
  - destruct Hin as [Heq|Hin]; [inversion Heq; reflexivity|].
    exfalso. apply Hnot. apply (in_map fst) in Hin. exact Hin.
  - destruct Hin as [Heq|Hin]; [inversion Heq; congruence|]. apply IH; assumption.
Qed.

Lemma lookup_functional s c d : pairs_nodup (pairs s) -> In (c, d) (pairs s) ->
  pair_of_denom s d = Some c /\ pair_of_ctr s c = Some d.
Proof.
  intros [Hf Hs] Hin. unfold pair_of_denom, pair_of_ctr.
  rewrite (find_by_snd _ c d Hs Hin), (find_by_fst _ c d Hf Hin). split; reflexivity.
Qed.

(** ** the four conversions: exact effect of a successful call *)

(* the ledger of the wrapper of cosmos denom d (empty while not deployed) *)
Definition wl (s : state) (d : nat) : ledger :=
  match reg s d with Some c => erc s c | None => empty_ledger end.

Definition same_params (s s' : state) : Prop :=
  pairs s' = pairs s /\ allowed s' = allowed s.

Lemma emits_approval_false e c : emits_approval e c = false -> kind e c = Oz.
Proof. unfold emits_approval. destruct (kind e c); [reflexivity|discriminate]. Qed.

(* ConvertERC20ToCoin *)
Lemma conv_erc20_to_coin_spec e s i r c x s' :
  conv_erc20_to_coin e s i r c x = Ok s' tt ->
  exists d, pair_of_ctr s c = Some d /\
  let mint := if is_bep3 e d then x / K10 else x in
  let lock := mint * kf e d in
  (c < next s)%nat /\ kind e c = Oz /\ i <> zacc e /\ macc e <> zacc e /\ blocked e r = false /\
  (is_bep3 e d = true -> mint <> 0) /\
  0 <= lock < U256 /\ lock <= ebal (erc s c) i /\
  (forall a, ebal (erc s' c) a = ebal (erc s c) a - dlt (Nat.eqb a i) lock + dlt (Nat.eqb a (macc e)) lock) /\
  etot (erc s' c) = etot (erc s c) /\ eallow (erc s' c) = eallow (erc s c) /\
  (forall c', c' <> c -> erc s' c' = erc s c') /\
  (forall a d', bal s' a d' = bal s a d' + dlt (Nat.eqb a r && Nat.eqb d' d) mint) /\
  (forall d', sup s' d' = sup s d' + dlt (Nat.eqb d' d) mint) /\
  reg s' = reg s /\ next s' = next s /\ same_params s s'.
Proof.
  intros H. unfold conv_erc20_to_coin in H.
  destruct (pair_of_ctr s c) as [d|] eqn:Ep; [|discriminate].
  exists d. split; [reflexivity|]. intros mint lock.
  assert (Hlock : (if is_bep3 e d then x / K10 * K10 else x) = lock).
  { unfold lock, mint, kf. destruct (is_bep3 e d); lia. }
  rewrite Hlock in H. fold mint in H.
  destruct (is_bep3 e d && (mint =? 0)) eqn:Hz; [discriminate|].
  destruct (Nat.leb_spec (next s) c) as [|Hcn]; [discriminate|].
  destruct (tok_transfer e c (erc s c) i (macc e) lock) as [l1|] eqn:Et; [|discriminate].
  destruct (Z.eqb_spec (ebal (erc s c) i - lock) (ebal l1 i)) as [Hd|]; [|discriminate].
  cbn [negb] in H.
  destruct (emits_approval e c) eqn:Hap; [discriminate|]. apply emits_approval_false in Hap.
  unfold tok_transfer in Et. rewrite Hap in Et.
  pose proof (erc_transfer_nz _ _ _ _ _ _ Et) as [Hiz Hmz].
  pose proof (erc_transfer_allow _ _ _ _ _ _ Et) as Hal.
  apply erc_transfer_spec in Et. destruct Et as (Hle & Htot & Hb).
  destruct (send_mod_to_acc e _ r d mint) as [s3|] eqn:Es; [|discriminate].
  inversion H; subst s3; clear H.
  apply send_mod_to_acc_spec in Es. destruct Es as (Hblk & Es).
  apply bank_send_spec in Es. destruct Es as (_ & Hev & Hsup & Hbal).
  destruct (bank_mint_spec e (set_erc s c l1) d mint) as (Hev2 & Hsup2 & Hbal2).
  destruct Hev as (He1 & He2 & He3 & He4 & He5). destruct Hev2 as (Hf1 & Hf2 & Hf3 & Hf4 & Hf5).
  cbn [set_erc erc reg next pairs allowed bal sup] in *.
  (* the balance-delta check forces the wrapped amount to be the amount *)
  assert (Hu : u256 lock = lock).
  { rewrite Hb in Hd. rewrite Nat.eqb_refl in Hd. unfold dlt in Hd.
    destruct (Nat.eqb_spec i (macc e)) as [->|].
    - assert (lock = 0) by lia. replace lock with 0 by lia. reflexivity.
    - lia. }
  rewrite Hu in *.
  split; [exact Hcn|]. split; [exact Hap|]. split; [exact Hiz|]. split; [exact Hmz|]. split; [exact Hblk|].
  split. { intros Hbep. rewrite Hbep in Hz. cbn [andb] in Hz. apply Z.eqb_neq. exact Hz. }
  split. { apply u256_eq_range. exact Hu. }
  split; [exact Hle|].
  split. { intros a. rewrite He1, Hf1. unfold upd. rewrite Nat.eqb_refl. apply Hb. }
  split. { rewrite He1, Hf1. unfold upd. rewrite Nat.eqb_refl. exact Htot. }
  split. { rewrite He1, Hf1. unfold upd. rewrite Nat.eqb_refl. exact Hal. }
  split. { intros c' Hne. rewrite He1, Hf1. unfold upd. destruct (Nat.eqb_spec c' c); [congruence|reflexivity]. }
  split. { intros a d'. rewrite Hbal, Hbal2. unfold dlt. destruct (Nat.eqb a (macc e) && Nat.eqb d' d); lia. }
  split. { intros d'. rewrite Hsup, Hsup2. reflexivity. }
  split; [congruence|]. split; [congruence|]. split; congruence.
Qed.

(* ConvertCoinToERC20 *)
Lemma conv_coin_to_erc20_spec e s i r d x s' :
  conv_coin_to_erc20 e s i r d x = Ok s' tt -> i <> macc e ->
  exists c, pair_of_denom s d = Some c /\
  let unlock := x * kf e d in
  (c < next s)%nat /\ kind e c = Oz /\ r <> zacc e /\ macc e <> zacc e /\
  (x = 0 \/ x <= bal s i d) /\
  0 <= unlock < U256 /\ unlock <= ebal (erc s c) (macc e) /\
  (forall a, ebal (erc s' c) a = ebal (erc s c) a - dlt (Nat.eqb a (macc e)) unlock + dlt (Nat.eqb a r) unlock) /\
  etot (erc s' c) = etot (erc s c) /\ eallow (erc s' c) = eallow (erc s c) /\
  (forall c', c' <> c -> erc s' c' = erc s c') /\
  (forall a d', bal s' a d' = bal s a d' - dlt (Nat.eqb a i && Nat.eqb d' d) x) /\
  (forall d', sup s' d' = sup s d' - dlt (Nat.eqb d' d) x) /\
  reg s' = reg s /\ next s' = next s /\ same_params s s'.
Proof.
  intros H Hi. unfold conv_coin_to_erc20 in H.
  destruct (pair_of_denom s d) as [c|] eqn:Ep; [|discriminate].
  exists c. split; [reflexivity|]. intros unlock.
  destruct (bank_send s i (macc e) d x) as [s1|] eqn:E1; [|discriminate].
  destruct (bank_burn e s1 d x) as [s2|] eqn:E2; [|discriminate].
  assert (Hun : (if is_bep3 e d then x * K10 else x) = unlock).
  { unfold unlock, kf. destruct (is_bep3 e d); lia. }
  rewrite Hun in H.
  destruct (Nat.leb_spec (next s2) c) as [|Hcn]; [discriminate|].
  destruct (tok_transfer e c (erc s2 c) (macc e) r unlock) as [l1|] eqn:Et; [|discriminate].
  destruct (Z.eqb_spec (ebal (erc s2 c) r + unlock) (ebal l1 r)) as [Hd|]; [|discriminate].
  cbn [negb] in H.
  destruct (emits_approval e c) eqn:Hap; [discriminate|]. apply emits_approval_false in Hap.
  inversion H; subst s'; clear H.
  unfold tok_transfer in Et. rewrite Hap in Et.
  apply bank_send_spec in E1. destruct E1 as (Hfunds & (He1 & He2 & He3 & He4 & He5) & Hsup1 & Hbal1).
  apply bank_burn_spec in E2. destruct E2 as (_ & (Hf1 & Hf2 & Hf3 & Hf4 & Hf5) & Hsup2 & Hbal2).
  pose proof (erc_transfer_nz _ _ _ _ _ _ Et) as [Hmz Hrz].
  pose proof (erc_transfer_allow _ _ _ _ _ _ Et) as Hal.
  apply erc_transfer_spec in Et. destruct Et as (Hle & Htot & Hb).
  assert (Herc : erc s2 c = erc s c) by (rewrite Hf1, He1; reflexivity).
  rewrite Herc in *.
  assert (Hu : u256 unlock = unlock).
  { rewrite Hb in Hd. rewrite Nat.eqb_refl in Hd. unfold dlt in Hd.
    destruct (Nat.eqb_spec r (macc e)) as [->|].
    - assert (unlock = 0) by lia. replace unlock with 0 by lia. reflexivity.
    - lia. }
  rewrite Hu in *.
  cbn [set_erc erc reg next pairs allowed bal sup].
  split; [rewrite <- He3, <- Hf3; exact Hcn|]. split; [exact Hap|]. split; [exact Hrz|]. split; [exact Hmz|].
  split; [exact Hfunds|].
  split. { apply u256_eq_range. exact Hu. }
  split; [exact Hle|].
  split. { intros a. unfold upd. rewrite Nat.eqb_refl. apply Hb. }
  split. { unfold upd. rewrite Nat.eqb_refl. exact Htot. }
  split. { unfold upd. rewrite Nat.eqb_refl. exact Hal. }
  split. { intros c' Hne. unfold upd. destruct (Nat.eqb_spec c' c); [congruence|]. rewrite Hf1, He1. reflexivity. }
  split. { intros a d'. rewrite Hbal2, Hbal1. unfold dlt.
           destruct (Nat.eqb_spec a i) as [->|]; cbn [andb].
           - destruct (Nat.eqb_spec i (macc e)); [congruence|]. cbn [andb]. lia.
           - destruct (Nat.eqb a (macc e) && Nat.eqb d' d); lia. }
  split. { intros d'. rewrite Hsup2, Hsup1. reflexivity. }
  split; [congruence|]. split; [congruence|].
  unfold same_params; cbn [set_erc pairs allowed]; split; congruence.
Qed.

(* ConvertCosmosCoinToERC20 *)
Lemma conv_cosmos_to_erc20_spec e s i r d x s' :
  conv_cosmos_to_erc20 e s i r d x = Ok s' tt -> 0 <= x < U256 ->
  allowed s d = true /\ r <> zacc e /\ (x = 0 \/ x <= bal s i d) /\
  exists c, reg s' d = Some c /\
    ((reg s d = Some c /\ reg s' = reg s /\ next s' = next s) \/
     (reg s d = None /\ c = next s /\ reg s' = upd (reg s) d (Some c) /\ next s' = S (next s))) /\
    etot (wl s d) + x < U256 /\
    (forall a, ebal (erc s' c) a = ebal (wl s d) a + dlt (Nat.eqb a r) x) /\
    etot (erc s' c) = etot (wl s d) + x /\
    (forall c', c' <> c -> erc s' c' = erc s c') /\
    (forall a d', bal s' a d' = bal s a d' - dlt (Nat.eqb a i && Nat.eqb d' d) x
                                          + dlt (Nat.eqb a (macc e) && Nat.eqb d' d) x) /\
    sup s' = sup s /\ same_params s s'.
Proof.
  intros H Hx. unfold conv_cosmos_to_erc20 in H.
  destruct (allowed s d) eqn:Hal; [|discriminate]. cbn [negb] in H.
  destruct (bank_send s i (macc e) d x) as [s1|] eqn:E1; [|discriminate].
  apply bank_send_spec in E1. destruct E1 as (Hfunds & (He1 & He2 & He3 & He4 & He5) & Hsup1 & Hbal1).
  split; [reflexivity|].
  rewrite He2 in H. unfold wl.
  destruct (reg s d) as [c|] eqn:Er.
  - (* already deployed *)
    destruct (erc_mint (zacc e) (erc s1 c) r x) as [l1|] eqn:Em; [|discriminate].
    inversion H; subst s'; clear H.
    pose proof (erc_mint_nz _ _ _ _ _ Em) as Hrz.
    apply erc_mint_spec in Em. rewrite (u256_small x Hx) in Em. destruct Em as (Hlt & Htot & Hb).
    rewrite He1 in *.
    split; [exact Hrz|]. split; [exact Hfunds|].
    exists c. cbn [set_erc erc reg next pairs allowed bal sup].
    split; [congruence|]. split; [left; repeat split; congruence|].
    split; [exact Hlt|].
    split. { intros a. unfold upd. rewrite Nat.eqb_refl. apply Hb. }
    split. { unfold upd. rewrite Nat.eqb_refl. exact Htot. }
    split. { intros c' Hne. unfold upd. destruct (Nat.eqb_spec c' c); [congruence|]. rewrite He1. reflexivity. }
    split; [exact Hbal1|]. split; [exact Hsup1|]. unfold same_params; cbn [set_erc pairs allowed]; split; congruence.
  - (* first use: deploy and register *)
    unfold deploy in H. cbn [erc next] in H.
    unfold upd at 1 in H. rewrite Nat.eqb_refl in H.
    destruct (erc_mint (zacc e) empty_ledger r x) as [l1|] eqn:Em; [|discriminate].
    inversion H; subst s'; clear H.
    pose proof (erc_mint_nz _ _ _ _ _ Em) as Hrz.
    apply erc_mint_spec in Em. rewrite (u256_small x Hx) in Em. destruct Em as (Hlt & Htot & Hb).
    split; [exact Hrz|]. split; [exact Hfunds|].
    exists (next s). cbn [set_erc erc reg next pairs allowed bal sup].
    rewrite He3 in *.
    split. { unfold upd. rewrite Nat.eqb_refl. reflexivity. }
    split. { right. repeat split; congruence. }
    split; [exact Hlt|].
    split. { intros a. unfold upd. rewrite Nat.eqb_refl. apply Hb. }
    split. { unfold upd. rewrite Nat.eqb_refl. exact Htot. }
    split. { intros c' Hne. unfold upd. destruct (Nat.eqb_spec c' (next s)); [congruence|]. rewrite He1. reflexivity. }
    split; [exact Hbal1|]. split; [exact Hsup1|]. unfold same_params; cbn [set_erc pairs allowed]; split; congruence.
Qed.

(* ConvertCosmosCoinFromERC20 *)
Lemma conv_cosmos_from_erc20_spec e s i r d x s' :
  conv_cosmos_from_erc20 e s i r d x = Ok s' tt -> 0 <= x < U256 ->
  exists c, reg s d = Some c /\ i <> zacc e /\ blocked e r = false /\ x <= ebal (erc s c) i /\
    (x = 0 \/ x <= bal s (macc e) d) /\
    (forall a, ebal (erc s' c) a = ebal (erc s c) a - dlt (Nat.eqb a i) x) /\
    etot (erc s' c) = etot (erc s c) - x /\
    (forall c', c' <> c -> erc s' c' = erc s c') /\
    (forall a d', bal s' a d' = bal s a d' - dlt (Nat.eqb a (macc e) && Nat.eqb d' d) x
                                          + dlt (Nat.eqb a r && Nat.eqb d' d) x) /\
    sup s' = sup s /\ reg s' = reg s /\ next s' = next s /\ same_params s s'.
Proof.
  intros H Hx. unfold conv_cosmos_from_erc20 in H.
  destruct (reg s d) as [c|] eqn:Er; [|discriminate].
  destruct (Z.ltb_spec (ebal (erc s c) i) x) as [|Hge]; [discriminate|].
  destruct (erc_burn (zacc e) (erc s c) i x) as [l1|] eqn:Eb; [|discriminate].
  destruct (send_mod_to_acc e (set_erc s c l1) r d x) as [s2|] eqn:Es; [|discriminate].
  inversion H; subst s2; clear H.
  pose proof (erc_burn_nz _ _ _ _ _ Eb) as Hiz.
  apply erc_burn_spec in Eb. rewrite (u256_small x Hx) in Eb. destruct Eb as (_ & Htot & Hb).
  apply send_mod_to_acc_spec in Es. destruct Es as (Hblk & Es).
  apply bank_send_spec in Es. destruct Es as (Hfunds & (He1 & He2 & He3 & He4 & He5) & Hsup & Hbal).
  cbn [set_erc erc reg next pairs allowed bal sup] in *.
  exists c. split; [reflexivity|]. split; [exact Hiz|]. split; [exact Hblk|]. split; [exact Hge|]. split; [exact Hfunds|].
  split. { intros a. rewrite He1. unfold upd. rewrite Nat.eqb_refl. apply Hb. }
  split. { rewrite He1. unfold upd. rewrite Nat.eqb_refl. exact Htot. }
  split. { intros c' Hne. rewrite He1. unfold upd. destruct (Nat.eqb_spec c' c); [congruence|reflexivity]. }
  split; [exact Hbal|]. split; [exact Hsup|]. split; [exact He2|]. split; [exact He3|]. unfold same_params; split; congruence.
Qed.

(** ** the module invariant *)

Definition env_wf (e : env) : Prop :=
  blocked e (macc e) = true /\
  (forall c c', (c < npair e)%nat -> (c' < npair e)%nat ->
                pair_denom e c = pair_denom e c' -> c = c') /\
  zacc e <> macc e.

Definition Inv (e : env) (s : state) : Prop :=
  (npair e <= next s)%nat /\
  (forall d c, reg s d = Some c -> (npair e <= c < next s)%nat) /\
  (forall d d' c, reg s d = Some c -> reg s d' = Some c -> d = d') /\
  (* cosmos-native coins: module account balance = total supply of the wrapper
     (0 for a denom without a wrapper) *)
  (forall d, bal s (macc e) d = etot (wl s d)) /\
  (* EVM-native pairs of the table (OpenZeppelin bytecode): coin supply, scaled, is
     covered by the tokens held by the module's EVM address ... *)
  (forall c, (c < npair e)%nat -> kind e c = Oz ->
     sup s (pair_denom e c) * kf e (pair_denom e c) <= ebal (erc s c) (macc e)) /\
  (* ... and nobody holds an allowance over them *)
  (forall c, (c < npair e)%nat -> kind e c = Oz -> forall a, eallow (erc s c) (macc e) a = 0) /\
  (* table contracts whose transfer emits Approval: no coin of their denom exists *)
  (forall c, (c < npair e)%nat -> kind e c = Refund -> sup s (pair_denom e c) = 0) /\
  (* the enabled pairs are pairs of the table *)
  Forall (on_table e) (pairs s).

(* the module account and the zero address sign nothing (they have no key);
   governance proposes pair lists which, when they pass validation, consist of
   pairs of the table *)
Definition op_wf (e : env) (o : op) : Prop :=
  signer o <> Some (macc e) /\ signer o <> Some (zacc e) /\
  match o with
  | SetParams ps _ => forall l, valid_pairs ps = Some l -> Forall (on_table e) l
  | _ => True
  end.

Lemma kind_refund_lt e c : kind e c = Refund -> (c < npair e)%nat.
Proof. unfold kind. destruct (Nat.ltb_spec c (npair e)); [auto|discriminate]. Qed.

Lemma kind_wrapper e c : (npair e <= c)%nat -> kind e c = Oz.
Proof. unfold kind. destruct (Nat.ltb_spec c (npair e)); [lia|reflexivity]. Qed.

(* the invariant only reads: next, reg, the ledgers, the module's bank balances, the supplies, the pairs *)
Lemma inv_ext e s s' : Inv e s ->
  next s' = next s -> reg s' = reg s -> erc s' = erc s ->
  (forall d, bal s' (macc e) d = bal s (macc e) d) -> (forall d, sup s' d = sup s d) ->
  Forall (on_table e) (pairs s') ->
  Inv e s'.
Proof.
  intros (I1 & I2 & I3 & I4 & I5 & I6 & I7 & I8) Hn Hr He Hb Hs Hp. unfold Inv, wl. rewrite Hn, Hr, He.
  split; [exact I1|]. split; [exact I2|]. split; [exact I3|].
  split. { intros d. rewrite Hb. apply I4. }
  split. { intros c Hc Hk. rewrite Hs. apply I5; assumption. }
  split; [exact I6|].
  split. { intros c Hc Hk. rewrite Hs. apply I7; assumption. }
  exact Hp.
Qed.

(* replacing the ledger of one OpenZeppelin contract: the total of a wrapper must not
   change, the module's holding of a pair token must not shrink and nobody may
   get an allowance over it *)
Lemma inv_set_erc e s c l : Inv e s -> kind e c = Oz ->
  ((npair e <= c)%nat -> etot l = etot (erc s c)) ->
  ((c < npair e)%nat -> ebal (erc s c) (macc e) <= ebal l (macc e)) ->
  ((c < npair e)%nat -> forall a, eallow l (macc e) a = 0) ->
  Inv e (set_erc s c l).
Proof.
  intros (I1 & I2 & I3 & I4 & I5 & I6 & I7 & I8) Hk Ht Hb Ha. unfold Inv, wl.
  cbn [set_erc next reg erc bal sup pairs].
  split; [exact I1|]. split; [exact I2|]. split; [exact I3|].
  split.
  { intros d. rewrite I4. unfold wl. destruct (reg s d) as [c0|] eqn:Er; [|reflexivity].
    unfold upd. destruct (Nat.eqb_spec c0 c) as [->|]; [|reflexivity].
    symmetry. apply Ht. apply (I2 d c Er). }
  split.
  { intros c0 Hc0 Hk0. unfold upd. destruct (Nat.eqb_spec c0 c) as [->|].
    - specialize (I5 c Hc0 Hk0). specialize (Hb Hc0). lia.
    - apply I5; assumption. }
  split.
  { intros c0 Hc0 Hk0 a. unfold upd. destruct (Nat.eqb_spec c0 c) as [->|].
    - apply Ha. exact Hc0.
    - apply I6; assumption. }
  split; [exact I7|exact I8].
Qed.

(* the ledger of a table contract with the adversarial bytecode is unconstrained *)
Lemma inv_set_erc_refund e s c l : Inv e s -> kind e c = Refund -> Inv e (set_erc s c l).
Proof.
  intros (I1 & I2 & I3 & I4 & I5 & I6 & I7 & I8) Hk. pose proof (kind_refund_lt e c Hk) as Hc.
  unfold Inv, wl. cbn [set_erc next reg erc bal sup pairs].
  split; [exact I1|]. split; [exact I2|]. split; [exact I3|].
  split.
  { intros d. rewrite I4. unfold wl. destruct (reg s d) as [c0|] eqn:Er; [|reflexivity].
    unfold upd. destruct (Nat.eqb_spec c0 c) as [->|]; [|reflexivity].
    specialize (I2 d c Er). lia. }
  split.
  { intros c0 Hc0 Hk0. unfold upd. destruct (Nat.eqb_spec c0 c) as [->|]; [congruence|]. apply I5; assumption. }
  split.
  { intros c0 Hc0 Hk0 a. unfold upd. destruct (Nat.eqb_spec c0 c) as [->|]; [congruence|]. apply I6; assumption. }
  split; [exact I7|exact I8].
Qed.

Lemma wl_frame e s s' d : Inv e s -> reg s' = reg s ->
  (forall c0, (npair e <= c0)%nat -> erc s' c0 = erc s c0) -> wl s' d = wl s d.
Proof.
  intros (I1 & I2 & _) Hr He. unfold wl. rewrite Hr.
  destruct (reg s d) as [c0|] eqn:Er; [|reflexivity]. apply He. apply (I2 d c0 Er).
Qed.

Lemma blocked_not_module e r : env_wf e -> blocked e r = false -> r <> macc e.
Proof. intros [Hm _] Hr ->. congruence. Qed.

Lemma on_table_in e s c d : Inv e s -> In (c, d) (pairs s) -> (c < npair e)%nat /\ d = pair_denom e c.
Proof.
  intros (_ & _ & _ & _ & _ & _ & _ & I8) Hin. rewrite Forall_forall in I8. exact (I8 (c, d) Hin).
Qed.

Lemma inv_conv_erc20_to_coin e s i r c x s' :
  env_wf e -> Inv e s -> i <> macc e ->
  conv_erc20_to_coin e s i r c x = Ok s' tt -> Inv e s'.
Proof.
  intros Hwf HI Hi H. pose proof HI as (I1 & I2 & I3 & I4 & I5 & I6 & I7 & I8).
  apply conv_erc20_to_coin_spec in H. destruct H as (d & Hp & H). cbv zeta in H.
  apply pair_of_ctr_some in Hp. destruct (on_table_in e s c d HI Hp) as [Hc ->].
  destruct H as (_ & Hk & _ & _ & Hblk & _ & Hlk & Hle & Hb & Htot & Hal & Hoth & Hbal & Hsup & Hr & Hn & (Hpp & _)).
  pose proof (blocked_not_module e r Hwf Hblk) as Hrm.
  assert (Hframe : forall c0, (npair e <= c0)%nat -> erc s' c0 = erc s c0).
  { intros c0 Hc0. apply Hoth. lia. }
  unfold Inv. rewrite Hn, Hr, Hpp.
  split; [exact I1|]. split; [exact I2|]. split; [exact I3|]. split.
  { intros d. rewrite (wl_frame e s s' d HI Hr Hframe), Hbal, <- I4. unfold dlt.
    destruct (Nat.eqb_spec (macc e) r); [congruence|]. cbn [andb]. lia. }
  split.
  { intros c0 Hc0 Hk0. rewrite Hsup. destruct (Nat.eqb_spec c0 c) as [->|Hne].
    - rewrite Nat.eqb_refl, Hb. unfold dlt at 1. rewrite Nat.eqb_refl.
      destruct (Nat.eqb_spec (macc e) i); [congruence|]. unfold dlt.
      specialize (I5 c Hc Hk). lia.
    - rewrite (Hoth c0 Hne). destruct (Nat.eqb_spec (pair_denom e c0) (pair_denom e c)) as [Heq|].
      + exfalso. apply Hne. destruct Hwf as (_ & Hinj & _). apply Hinj; assumption.
      + unfold dlt. rewrite Z.add_0_r. apply I5; assumption. }
  split.
  { intros c0 Hc0 Hk0 a. destruct (Nat.eqb_spec c0 c) as [->|Hne].
    - rewrite Hal. apply I6; assumption.
    - rewrite (Hoth c0 Hne). apply I6; assumption. }
  split; [|exact I8].
  intros c0 Hc0 Hk0. rewrite Hsup. destruct (Nat.eqb_spec (pair_denom e c0) (pair_denom e c)) as [Heq|].
  - exfalso. destruct Hwf as (_ & Hinj & _). assert (c0 = c) by (apply Hinj; assumption). congruence.
  - unfold dlt. rewrite Z.add_0_r. apply I7; assumption.
Qed.

Lemma inv_conv_coin_to_erc20 e s i r d x s' :
  env_wf e -> Inv e s -> i <> macc e -> 0 <= x ->
  conv_coin_to_erc20 e s i r d x = Ok s' tt -> Inv e s'.
Proof.
  intros Hwf HI Hi Hx H. pose proof HI as (I1 & I2 & I3 & I4 & I5 & I6 & I7 & I8).
  apply conv_coin_to_erc20_spec in H; [|exact Hi]. destruct H as (c & Hp & H). cbv zeta in H.
  apply pair_of_denom_some in Hp. destruct (on_table_in e s c d HI Hp) as [Hc ->].
  destruct H as (_ & Hk & _ & _ & _ & Hun & Hle & Hb & Htot & Hal & Hoth & Hbal & Hsup & Hr & Hn & (Hpp & _)).
  assert (Hframe : forall c0, (npair e <= c0)%nat -> erc s' c0 = erc s c0).
  { intros c0 Hc0. apply Hoth. lia. }
  unfold Inv. rewrite Hn, Hr, Hpp.
  split; [exact I1|]. split; [exact I2|]. split; [exact I3|]. split.
  { intros d. rewrite (wl_frame e s s' d HI Hr Hframe), Hbal, <- I4. unfold dlt.
    destruct (Nat.eqb_spec (macc e) i); [congruence|]. cbn [andb]. lia. }
  split.
  { intros c0 Hc0 Hk0. rewrite Hsup. destruct (Nat.eqb_spec c0 c) as [->|Hne].
    - rewrite Nat.eqb_refl, Hb. rewrite Nat.eqb_refl. unfold dlt at 1 2.
      specialize (I5 c Hc Hk). unfold dlt. destruct (Nat.eqb (macc e) r); lia.
    - rewrite (Hoth c0 Hne). destruct (Nat.eqb_spec (pair_denom e c0) (pair_denom e c)) as [Heq|].
      + exfalso. apply Hne. destruct Hwf as (_ & Hinj & _). apply Hinj; assumption.
      + unfold dlt. rewrite Z.sub_0_r. apply I5; assumption. }
  split.
  { intros c0 Hc0 Hk0 a. destruct (Nat.eqb_spec c0 c) as [->|Hne].
    - rewrite Hal. apply I6; assumption.
    - rewrite (Hoth c0 Hne). apply I6; assumption. }
  split; [|exact I8].
  intros c0 Hc0 Hk0. rewrite Hsup. destruct (Nat.eqb_spec (pair_denom e c0) (pair_denom e c)) as [Heq|].
  - exfalso. destruct Hwf as (_ & Hinj & _). assert (c0 = c) by (apply Hinj; assumption). congruence.
  - unfold dlt. rewrite Z.sub_0_r. apply I7; assumption.
Qed.

Lemma inv_conv_cosmos_to_erc20 e s i r d x s' :
  env_wf e -> Inv e s -> i <> macc e -> 0 <= x < U256 ->
  conv_cosmos_to_erc20 e s i r d x = Ok s' tt -> Inv e s'.
Proof.
  intros Hwf HI Hi Hx H. pose proof HI as (I1 & I2 & I3 & I4 & I5 & I6 & I7 & I8).
  apply conv_cosmos_to_erc20_spec in H; [|exact Hx].
  destruct H as (_ & _ & _ & c & Hrc & Hcase & _ & _ & Htot & Hoth & Hbal & Hsup & (Hpp & _)).
  assert (HbalM : forall d', bal s' (macc e) d' = bal s (macc e) d' + dlt (Nat.eqb d' d) x).
  { intros d'. rewrite Hbal. rewrite Nat.eqb_refl. unfold dlt.
    destruct (Nat.eqb_spec (macc e) i); [congruence|]. cbn [andb]. lia. }
  destruct Hcase as [(Er & Hr & Hn) | (Er & -> & Hr & Hn)].
  - (* existing wrapper *)
    pose proof (I2 d c Er) as Hcr.
    unfold Inv. rewrite Hn, Hr, Hpp, Hsup.
    split; [exact I1|]. split; [exact I2|]. split; [exact I3|]. split.
    { intros d'. rewrite HbalM. unfold wl at 1. rewrite Hr.
      destruct (Nat.eqb_spec d' d) as [->|Hne].
      - rewrite Er, Htot, I4. unfold dlt. lia.
      - rewrite I4. unfold wl, dlt. destruct (reg s d') as [c'|] eqn:Er'; [|lia].
        rewrite Hoth; [lia|]. intros ->. apply Hne. apply (I3 d' d c Er' Er). }
    split. { intros c0 Hc0 Hk0. rewrite Hoth; [apply I5; assumption|lia]. }
    split. { intros c0 Hc0 Hk0 a. rewrite Hoth; [apply I6; assumption|lia]. }
    split; [exact I7|exact I8].
  - (* first use: fresh contract next s *)
    unfold Inv. rewrite Hn, Hr, Hpp, Hsup.
    split; [lia|]. split; [|split; [|split]].
    + intros d' c'. unfold upd. destruct (Nat.eqb_spec d' d) as [->|].
      * intros E; inversion E; subst. lia.
      * intros E. specialize (I2 d' c' E). lia.
    + intros d1 d2 c'. unfold upd.
      destruct (Nat.eqb_spec d1 d) as [->|], (Nat.eqb_spec d2 d) as [->|]; intros E1 E2; try reflexivity.
      * inversion E1; subst. specialize (I2 d2 (next s) E2). lia.
      * inversion E2; subst. specialize (I2 d1 (next s) E1). lia.
      * apply (I3 d1 d2 c' E1 E2).
    + intros d'. rewrite HbalM. unfold wl at 1. rewrite Hr. unfold upd.
      destruct (Nat.eqb_spec d' d) as [->|Hne].
      * rewrite Htot, I4. unfold dlt. lia.
      * rewrite I4. unfold wl, dlt. destruct (reg s d') as [c'|] eqn:Er'; [|lia].
        rewrite Hoth; [lia|]. specialize (I2 d' c' Er'). lia.
    + split. { intros c0 Hc0 Hk0. rewrite Hoth; [apply I5; assumption|lia]. }
      split. { intros c0 Hc0 Hk0 a. rewrite Hoth; [apply I6; assumption|lia]. }
      split; [exact I7|exact I8].
Qed.

Lemma inv_conv_cosmos_from_erc20 e s i r d x s' :
  env_wf e -> Inv e s -> 0 <= x < U256 ->
  conv_cosmos_from_erc20 e s i r d x = Ok s' tt -> Inv e s'.
Proof.
  intros Hwf HI Hx H. pose proof HI as (I1 & I2 & I3 & I4 & I5 & I6 & I7 & I8).
  apply conv_cosmos_from_erc20_spec in H; [|exact Hx].
  destruct H as (c & Er & _ & Hblk & _ & _ & _ & Htot & Hoth & Hbal & Hsup & Hr & Hn & (Hpp & _)).
  pose proof (blocked_not_module e r Hwf Hblk) as Hrm.
  pose proof (I2 d c Er) as Hcr.
  unfold Inv. rewrite Hn, Hr, Hpp, Hsup.
  split; [exact I1|]. split; [exact I2|]. split; [exact I3|]. split.
  { intros d'. rewrite Hbal. rewrite Nat.eqb_refl. unfold wl at 1. rewrite Hr.
    destruct (Nat.eqb_spec (macc e) r); [congruence|]. cbn [andb]. unfold dlt at 2.
    destruct (Nat.eqb_spec d' d) as [->|Hne]; unfold dlt.
    - rewrite Er, Htot, I4. unfold wl. rewrite Er. lia.
    - rewrite I4. unfold wl. destruct (reg s d') as [c'|] eqn:Er'; [|lia].
      rewrite Hoth; [lia|]. intros ->. apply Hne. apply (I3 d' d c Er' Er). }
  split. { intros c0 Hc0 Hk0. rewrite Hoth; [apply I5; assumption|lia]. }
  split. { intros c0 Hc0 Hk0 a. rewrite Hoth; [apply I6; assumption|lia]. }
  split; [exact I7|exact I8].
Qed.

Lemma amount_ok_range dr x : amount_ok dr x = true -> 0 <= x < U256.
Proof.
  unfold amount_ok. intros H. apply andb_prop in H. destruct H as [H1 H2].
  apply Z.ltb_lt in H2. destruct dr; [apply Z.leb_le in H1|apply Z.ltb_lt in H1]; lia.
Qed.

Lemma step_inv e s o s' : env_wf e -> Inv e s -> op_wf e o ->
  step e s o = Ok s' tt -> Inv e s'.
Proof.
  intros Hwf HI (Hs & Hsz & Hgov) H. pose proof HI as (I1 & I2 & I3 & I4 & I5 & I6 & I7 & I8).
  destruct o as [dr i r d x|dr i r c x|dr i r d x|dr i r d x|c f t x|c t x|f t d x|ps ts|c o sp x|c sp f t x];
    cbn [step signer] in H, Hs, Hsz.
  - destruct (amount_ok dr x) eqn:Ea; [|discriminate]. apply amount_ok_range in Ea.
    apply (inv_conv_coin_to_erc20 e s i r d x s' Hwf HI); [congruence|lia|exact H].
  - destruct (amount_ok dr x) eqn:Ea; [|discriminate].
    apply (inv_conv_erc20_to_coin e s i r c x s' Hwf HI); [congruence|exact H].
  - destruct (amount_ok dr x) eqn:Ea; [|discriminate]. apply amount_ok_range in Ea.
    apply (inv_conv_cosmos_to_erc20 e s i r d x s' Hwf HI); [congruence|exact Ea|exact H].
  - destruct (amount_ok dr x) eqn:Ea; [|discriminate]. apply amount_ok_range in Ea.
    apply (inv_conv_cosmos_from_erc20 e s i r d x s' Hwf HI Ea H).
  - (* ERC20 transfer by a holder other than the module *)
    destruct (Nat.leb (next s) c); [inversion H; subst; exact HI|].
    destruct (tok_transfer e c (erc s c) f t x) as [l|] eqn:Et; [|discriminate].
    inversion H; subst s'; clear H. unfold tok_transfer in Et.
    destruct (kind e c) eqn:Hk; [|apply inv_set_erc_refund; assumption].
    pose proof (erc_transfer_allow _ _ _ _ _ _ Et) as Hal.
    apply erc_transfer_spec in Et. destruct Et as (_ & Htot & Hb).
    apply inv_set_erc; [exact HI|exact Hk|intros _; exact Htot| |].
    + intros _. rewrite Hb. unfold dlt. destruct (Nat.eqb_spec (macc e) f); [congruence|].
      pose proof (u256_range x). destruct (Nat.eqb (macc e) t); lia.
    + intros Hc a. rewrite Hal. apply I6; assumption.
  - (* minting of an EVM-native token by its owner *)
    destruct (Nat.leb (next s) c); [inversion H; subst; exact HI|].
    destruct (Nat.ltb_spec c (npair e)) as [Hc|]; [|discriminate]. cbn [negb] in H.
    destruct (kind e c) eqn:Hk.
    + destruct (erc_mint (zacc e) (erc s c) t x) as [l|] eqn:Em; [|discriminate].
      inversion H; subst s'; clear H.
      pose proof (erc_mint_allow _ _ _ _ _ Em) as Hal.
      apply erc_mint_spec in Em. destruct Em as (_ & _ & Hb).
      apply inv_set_erc; [exact HI|exact Hk|lia| |].
      * intros _. rewrite Hb. unfold dlt. pose proof (u256_range x). destruct (Nat.eqb (macc e) t); lia.
      * intros _ a. rewrite Hal. apply I6; assumption.
    + inversion H; subst s'; clear H. apply inv_set_erc_refund; assumption.
  - (* bank MsgSend: the module account is a blocked recipient and cannot sign *)
    destruct (x <=? 0); [discriminate|].
    destruct (blocked e t) eqn:Hblk; [discriminate|].
    destruct (bank_send s f t d x) as [s1|] eqn:Es; [|discriminate].
    inversion H; subst s1; clear H.
    apply bank_send_spec in Es. destruct Es as (_ & (He1 & He2 & He3 & He4 & _) & Hsup & Hbal).
    pose proof (blocked_not_module e t Hwf Hblk) as Htm.
    apply (inv_ext e s s' HI He3 He2 He1).
    + intros d'. rewrite Hbal. unfold dlt.
      destruct (Nat.eqb_spec (macc e) f); [congruence|].
      destruct (Nat.eqb_spec (macc e) t); [congruence|]. cbn [andb]. lia.
    + intros d'. rewrite Hsup. reflexivity.
    + rewrite He4. exact I8.
  - (* parameter change *)
    destruct (valid_pairs ps) as [l|] eqn:Ev; [|discriminate].
    destruct (valid_toks ts) as [al|]; [|discriminate].
    inversion H; subst s'; clear H.
    apply (inv_ext e s _ HI); try reflexivity. cbn [pairs]. apply Hgov. reflexivity.
  - (* approve by an owner other than the module *)
    destruct (Nat.leb (next s) c); [inversion H; subst; exact HI|].
    destruct (kind e c) eqn:Hk; [|discriminate].
    destruct (erc_approve (zacc e) (erc s c) o sp x) as [l|] eqn:Ea; [|discriminate].
    inversion H; subst s'; clear H.
    apply erc_approve_spec in Ea. destruct Ea as (_ & _ & Eb & Et & Eal).
    apply inv_set_erc; [exact HI|exact Hk|intros _; exact Et|intros _; rewrite Eb; lia|].
    intros Hc a. rewrite Eal, upd2_eq. destruct (Nat.eqb_spec (macc e) o); [congruence|].
    cbn [andb]. apply I6; assumption.
  - (* transferFrom by a spender other than the module *)
    destruct (Nat.leb (next s) c); [inversion H; subst; exact HI|].
    destruct (kind e c) eqn:Hk.
    + destruct (erc_transfer_from (zacc e) (erc s c) sp f t x) as [l|] eqn:Et; [|discriminate].
      inversion H; subst s'; clear H.
      apply erc_transfer_from_spec in Et. destruct Et as (Hcov & Hle & Htot & Hb & Hal).
      pose proof (u256_range x) as Hur.
      apply inv_set_erc; [exact HI|exact Hk|intros _; exact Htot| |].
      * intros Hc. rewrite Hb. unfold dlt. destruct (Nat.eqb_spec (macc e) f) as [<-|].
        -- (* pulling from the module: its allowance to anybody is zero, so the amount is zero *)
           rewrite (I6 c Hc Hk sp) in Hcov. destruct Hcov as [Hcov|Hcov]; [discriminate Hcov|].
           destruct (Nat.eqb (macc e) t); lia.
        -- destruct (Nat.eqb (macc e) t); lia.
      * intros Hc a. destruct (Hal (macc e) a) as [->|(Hof & Hsp & -> & Hcov')]; [apply I6; assumption|].
        subst f a. rewrite (I6 c Hc Hk sp) in *. replace (u256 x) with 0 by lia. reflexivity.
    + destruct (rf_transfer_from (erc s c) sp f t x) as [l|]; [|discriminate].
      inversion H; subst s'; clear H. apply inv_set_erc_refund; assumption.
Qed.

Lemma step'_inv e s o : env_wf e -> Inv e s -> op_wf e o -> Inv e (step' e s o).
Proof.
  intros Hwf HI Hs. unfold step'. destruct (step e s o) as [s' []| |] eqn:E; try exact HI.
  apply (step_inv e s o s' Hwf HI Hs E).
Qed.

Lemma run_inv e ops : forall s, env_wf e -> Inv e s -> Forall (op_wf e) ops -> Inv e (run e s ops).
Proof.
  induction ops as [|o r IH]; intros s Hwf HI Hall; cbn [run fold_left]; [exact HI|].
  inversion Hall; subst. apply IH; [exact Hwf| |assumption].
  apply step'_inv; assumption.
Qed.

(* transactions: all messages or none *)
Lemma tx_step_inv e tx : forall s s', env_wf e -> Inv e s -> Forall (op_wf e) tx ->
  tx_step e s tx = Ok s' tt -> Inv e s'.
Proof.
  induction tx as [|o r IH]; intros s s' Hwf HI Hall H; cbn [tx_step] in H.
  - inversion H; subst. exact HI.
  - inversion Hall; subst. destruct (step e s o) as [s1 []| |] eqn:E; try discriminate.
    apply (IH s1 s' Hwf); [|assumption|exact H]. apply (step_inv e s o s1 Hwf HI); assumption.
Qed.

Lemma run_txs_inv e txs : forall s, env_wf e -> Inv e s -> Forall (Forall (op_wf e)) txs ->
  Inv e (run_txs e s txs).
Proof.
  induction txs as [|tx r IH]; intros s Hwf HI Hall; cbn [run_txs fold_left]; [exact HI|].
  inversion Hall; subst. apply IH; [exact Hwf| |assumption].
  unfold tx_step'. destruct (tx_step e s tx) as [s' []| |] eqn:E; try exact HI.
  apply (tx_step_inv e tx s s' Hwf HI); assumption.
Qed.

(* a transaction that succeeds is the sequence of its messages; one that fails changes nothing *)
Lemma tx_step_ok_run e tx : forall s s', tx_step e s tx = Ok s' tt -> run e s tx = s'.
Proof.
  induction tx as [|o r IH]; intros s s' H; cbn [tx_step] in H; cbn [run fold_left].
  - inversion H; reflexivity.
  - destruct (step e s o) as [s1 []| |] eqn:E; try discriminate.
    unfold step' at 2. rewrite E. apply IH. exact H.
Qed.

Lemma tx_step'_failed e s tx : (forall s' u, tx_step e s tx <> Ok s' u) -> tx_step' e s tx = s.
Proof.
  intros H. unfold tx_step'. destruct (tx_step e s tx) as [s' u| |] eqn:E; auto.
  exfalso. exact (H s' u eq_refl).
Qed.

Lemma tx_step_app e tx1 tx2 : forall s,
  tx_step e s (tx1 ++ tx2) =
  match tx_step e s tx1 with Ok s1 _ => tx_step e s1 tx2 | Err => Err | Panic => Panic end.
Proof.
  induction tx1 as [|o r IH]; intros s; cbn [app tx_step]; [reflexivity|].
  destruct (step e s o) as [s1 []| |]; [apply IH|reflexivity|reflexivity].
Qed.

(* a message that fails after earlier messages of the same transaction succeeded
   undoes them too (e.g. a wrapper deployed by the first message) *)
Lemma tx_step_failing_msg e tx1 o tx2 s s1 :
  tx_step e s tx1 = Ok s1 tt -> (forall s' u, step e s1 o <> Ok s' u) ->
  tx_step' e s (tx1 ++ o :: tx2) = s.
Proof.
  intros H1 Hf. unfold tx_step'. rewrite tx_step_app, H1. cbn [tx_step].
  destruct (step e s1 o) as [s' u| |] eqn:E; [exfalso; exact (Hf s' u eq_refl)|reflexivity|reflexivity].
Qed.

(** ** the two backing statements, as consequences of the invariant *)
Lemma cosmos_native_backed e ops s d c :
  env_wf e -> Inv e s -> Forall (op_wf e) ops ->
  reg (run e s ops) d = Some c ->
  etot (erc (run e s ops) c) = bal (run e s ops) (macc e) d.
Proof.
  intros Hwf HI Hall Er. destruct (run_inv e ops s Hwf HI Hall) as (_ & _ & _ & I4 & _).
  rewrite I4. unfold wl. rewrite Er. reflexivity.
Qed.

(** ** when a conversion succeeds (converse of the specs; used for the round trips) *)

Lemma bank_send_ok s f t d x : x = 0 \/ x <= bal s f d -> exists s', bank_send s f t d x = Some s'.
Proof.
  intros H. unfold bank_send. destruct (Z.eqb_spec x 0); [eexists; reflexivity|].
  destruct (Z.leb_spec x (bal s f d)); [eexists; reflexivity|]. lia.
Qed.

Lemma bank_burn_ok e s d x : x = 0 \/ x <= bal s (macc e) d -> exists s', bank_burn e s d x = Some s'.
Proof.
  intros H. unfold bank_burn. destruct (Z.eqb_spec x 0); [eexists; reflexivity|].
  destruct (Z.leb_spec x (bal s (macc e) d)); [eexists; reflexivity|]. lia.
Qed.

Lemma erc_transfer_ok z l f t x : f <> z -> t <> z -> u256 x <= ebal l f ->
  exists l', erc_transfer z l f t x = Some l'.
Proof.
  intros Hf Ht H. unfold erc_transfer.
  destruct (Nat.eqb_spec f z); [congruence|]. destruct (Nat.eqb_spec t z); [congruence|]. cbn [orb].
  destruct (Z.leb_spec (u256 x) (ebal l f)); [eexists; reflexivity|lia].
Qed.

Lemma erc_burn_ok z l f x : f <> z -> u256 x <= ebal l f -> exists l', erc_burn z l f x = Some l'.
Proof.
  intros Hf H. unfold erc_burn. destruct (Nat.eqb_spec f z); [congruence|].
  destruct (Z.leb_spec (u256 x) (ebal l f)); [eexists; reflexivity|lia].
Qed.

Lemma erc_mint_ok z l t x : t <> z -> etot l + u256 x < U256 -> exists l', erc_mint z l t x = Some l'.
Proof.
  intros Ht H. unfold erc_mint. destruct (Nat.eqb_spec t z); [congruence|].
  destruct (Z.ltb_spec (etot l + u256 x) U256); [eexists; reflexivity|lia].
Qed.

Lemma conv_cosmos_from_erc20_ok e s i r d x c :
  reg s d = Some c -> i <> zacc e -> blocked e r = false -> 0 <= x < U256 ->
  x <= ebal (erc s c) i -> (x = 0 \/ x <= bal s (macc e) d) ->
  exists s', conv_cosmos_from_erc20 e s i r d x = Ok s' tt.
Proof.
  intros Er Hiz Hblk Hx Hle Hm. unfold conv_cosmos_from_erc20. rewrite Er.
  destruct (Z.ltb_spec (ebal (erc s c) i) x); [lia|].
  destruct (erc_burn_ok (zacc e) (erc s c) i x Hiz) as [l1 El]; [rewrite u256_small by exact Hx; exact Hle|].
  rewrite El. unfold send_mod_to_acc. rewrite Hblk.
  destruct (bank_send_ok (set_erc s c l1) (macc e) r d x) as [s2 Es]; [exact Hm|].
  rewrite Es. eexists; reflexivity.
Qed.

Lemma conv_coin_to_erc20_ok e s i r d x c :
  pair_of_denom s d = Some c -> (c < next s)%nat -> kind e c = Oz ->
  r <> zacc e -> macc e <> zacc e -> r <> macc e -> 0 <= x * kf e d < U256 ->
  (x = 0 \/ x <= bal s i d) ->
  (x = 0 \/ x <= bal s (macc e) d + (if Nat.eqb i (macc e) then 0 else x)) ->
  x * kf e d <= ebal (erc s c) (macc e) ->
  exists s', conv_coin_to_erc20 e s i r d x = Ok s' tt.
Proof.
  intros Hp Hcn Hk Hrz Hmz Hr Hu Hfunds Hm Hle. unfold conv_coin_to_erc20. rewrite Hp.
  destruct (bank_send_ok s i (macc e) d x Hfunds) as [s1 E1]. rewrite E1.
  apply bank_send_spec in E1. destruct E1 as (_ & (He1 & _ & He3 & _) & _ & Hbal1).
  destruct (bank_burn_ok e s1 d x) as [s2 E2].
  { destruct Hm as [->|Hm]; [left; reflexivity|right]. rewrite Hbal1, !Nat.eqb_refl. unfold dlt. cbn [andb].
    destruct (Nat.eqb_spec (macc e) i) as [<-|]; [rewrite Nat.eqb_refl in Hm|]; cbn [andb].
    - lia.
    - destruct (Nat.eqb_spec i (macc e)); [congruence|]. lia. }
  rewrite E2. apply bank_burn_spec in E2. destruct E2 as (_ & (Hf1 & _ & Hf3 & _) & _ & _).
  assert (Hun : (if is_bep3 e d then x * K10 else x) = x * kf e d).
  { unfold kf. destruct (is_bep3 e d); lia. }
  rewrite Hun. assert (Herc : erc s2 c = erc s c) by (rewrite Hf1, He1; reflexivity). rewrite Herc.
  destruct (Nat.leb_spec (next s2) c); [lia|].
  unfold tok_transfer, emits_approval. rewrite Hk.
  destruct (erc_transfer_ok (zacc e) (erc s c) (macc e) r (x * kf e d) Hmz Hrz) as [l1 Et].
  { rewrite u256_small by exact Hu. exact Hle. }
  rewrite Et. apply erc_transfer_spec in Et. destruct Et as (_ & _ & Hb).
  rewrite Hb, Nat.eqb_refl. rewrite u256_small by exact Hu. unfold dlt.
  destruct (Nat.eqb_spec r (macc e)); [congruence|].
  destruct (Z.eqb_spec (ebal (erc s c) r + x * kf e d) (ebal (erc s c) r - 0 + x * kf e d)); [|lia].
  eexists; reflexivity.
Qed.

(** ** round trips *)

(* bank balances are sdk.Coins (never negative), ERC20 balances and total
   supplies are uint256 *)
Definition nonneg (s : state) : Prop :=
  (forall a d, 0 <= bal s a d) /\ (forall c a, 0 <= ebal (erc s c) a) /\
  (forall c, etot (erc s c) < U256).

(* cosmos coin -> wrapper ERC20 -> cosmos coin *)
Lemma round_trip_cosmos e s i r d x s1 :
  env_wf e -> nonneg s -> 0 <= x < U256 -> blocked e i = false ->
  conv_cosmos_to_erc20 e s i r d x = Ok s1 tt ->
  exists s2, conv_cosmos_from_erc20 e s1 r i d x = Ok s2 tt /\
    (forall a d', bal s2 a d' = bal s a d') /\ sup s2 = sup s /\
    (forall a, ebal (wl s2 d) a = ebal (wl s d) a) /\ etot (wl s2 d) = etot (wl s d) /\
    (forall c', reg s2 d <> Some c' -> erc s2 c' = erc s c').
Proof.
  intros Hwf (Hnb & Hne & _) Hx Hblk H1.
  pose proof (blocked_not_module e i Hwf Hblk) as Him.
  apply conv_cosmos_to_erc20_spec in H1; [|exact Hx].
  destruct H1 as (_ & Hrz & _ & c & Hrc & Hcase & _ & Hb1 & Ht1 & Ho1 & Hbal1 & Hsup1 & _).
  assert (Hwl0 : forall a, 0 <= ebal (wl s d) a).
  { intros a. unfold wl. destruct (reg s d); [apply Hne|cbn; lia]. }
  destruct (conv_cosmos_from_erc20_ok e s1 r i d x c Hrc Hrz Hblk Hx) as [s2 H2].
  { rewrite Hb1, Nat.eqb_refl. unfold dlt. specialize (Hwl0 r). lia. }
  { right. rewrite Hbal1, !Nat.eqb_refl. unfold dlt.
    destruct (Nat.eqb_spec (macc e) i); [congruence|]. cbn [andb]. specialize (Hnb (macc e) d). lia. }
  exists s2. split; [exact H2|].
  apply conv_cosmos_from_erc20_spec in H2; [|exact Hx].
  destruct H2 as (c2 & Hrc2 & _ & _ & _ & _ & Hb2 & Ht2 & Ho2 & Hbal2 & Hsup2 & Hr2 & _).
  assert (c2 = c) by congruence. subst c2.
  assert (Hwl2 : wl s2 d = erc s2 c) by (unfold wl; rewrite Hr2, Hrc; reflexivity).
  split. { intros a d'. rewrite Hbal2, Hbal1. unfold dlt.
           destruct (Nat.eqb a (macc e) && Nat.eqb d' d), (Nat.eqb a i && Nat.eqb d' d); lia. }
  split; [congruence|].
  split. { intros a. rewrite Hwl2, Hb2, Hb1. unfold dlt. destruct (Nat.eqb a r); lia. }
  split. { rewrite Hwl2, Ht2, Ht1. lia. }
  intros c' Hne'. rewrite Hr2, Hrc in Hne'.
  assert (c' <> c) by congruence. rewrite Ho2, Ho1 by assumption. reflexivity.
Qed.

(* ERC20 -> coin -> ERC20 for an EVM-native pair: the dust never left, so
   converting back the minted coins restores everything *)
Lemma round_trip_evm e s i r c x s1 :
  env_wf e -> nonneg s -> pairs_nodup (pairs s) -> 0 <= x -> i <> macc e ->
  conv_erc20_to_coin e s i r c x = Ok s1 tt ->
  exists d, pair_of_ctr s c = Some d /\
  let mint := if is_bep3 e d then x / K10 else x in
  exists s2, conv_coin_to_erc20 e s1 r i d mint = Ok s2 tt /\
    (forall a d', bal s2 a d' = bal s a d') /\ (forall d', sup s2 d' = sup s d') /\
    (forall c' a, ebal (erc s2 c') a = ebal (erc s c') a) /\
    (forall c', etot (erc s2 c') = etot (erc s c')) /\
    reg s2 = reg s /\ next s2 = next s.
Proof.
  intros Hwf (Hnb & Hne & _) Hnd Hx Him H1.
  apply conv_erc20_to_coin_spec in H1. destruct H1 as (d & Hpc & H1). exists d. split; [exact Hpc|].
  intros mint. cbv zeta in H1. fold mint in H1.
  destruct H1 as (Hcn & Hk & Hiz & Hmz & Hblk & _ & Hlk & Hle & Hb1 & Ht1 & _ & Ho1 & Hbal1 & Hsup1 & Hr1 & Hn1 & (Hp1 & _)).
  pose proof (blocked_not_module e r Hwf Hblk) as Hrm.
  assert (Hmint : 0 <= mint).
  { unfold mint. destruct (is_bep3 e d); [apply Z.div_pos; [lia|exact K10_pos]|lia]. }
  assert (Hp : pair_of_denom s1 d = Some c).
  { apply pair_of_ctr_some in Hpc. apply (lookup_functional s1 c d); rewrite Hp1; assumption. }
  destruct (conv_coin_to_erc20_ok e s1 r i d mint c Hp) as [s2 H2]; try assumption.
  - rewrite Hn1. exact Hcn.
  - right. rewrite Hbal1, !Nat.eqb_refl. unfold dlt. cbn [andb]. specialize (Hnb r d). lia.
  - right. rewrite Hbal1, Nat.eqb_refl. unfold dlt.
    destruct (Nat.eqb_spec (macc e) r); [congruence|].
    destruct (Nat.eqb_spec r (macc e)); [congruence|]. cbn [andb]. specialize (Hnb (macc e) d). lia.
  - rewrite Hb1, Nat.eqb_refl. unfold dlt. destruct (Nat.eqb_spec (macc e) i); [congruence|].
    specialize (Hne c (macc e)). lia.
  - exists s2. split; [exact H2|].
    apply conv_coin_to_erc20_spec in H2; [|exact Hrm]. destruct H2 as (c2 & Hp2 & H2). cbv zeta in H2.
    assert (c2 = c) by congruence. subst c2.
    destruct H2 as (_ & _ & _ & _ & _ & _ & _ & Hb2 & Ht2 & _ & Ho2 & Hbal2 & Hsup2 & Hr2 & Hn2 & _).
    split. { intros a d'. rewrite Hbal2, Hbal1. unfold dlt. destruct (Nat.eqb a r && Nat.eqb d' d); lia. }
    split. { intros d'. rewrite Hsup2, Hsup1. unfold dlt. destruct (Nat.eqb d' d); lia. }
    split. { intros c' a. destruct (Nat.eqb_spec c' c) as [->|Hne'].
             - rewrite Hb2, Hb1. unfold dlt. destruct (Nat.eqb a (macc e)), (Nat.eqb a i); lia.
             - rewrite Ho2, Ho1 by exact Hne'. reflexivity. }
    split. { intros c'. destruct (Nat.eqb_spec c' c) as [->|Hne'].
             - rewrite Ht2, Ht1. reflexivity.
             - rewrite Ho2, Ho1 by exact Hne'. reflexivity. }
    split; congruence.
Qed.

(** ** dust *)
Lemma dust_kept e s i r c d x s' :
  pair_of_ctr s c = Some d -> is_bep3 e d = true -> i <> macc e ->
  conv_erc20_to_coin e s i r c x = Ok s' tt ->
  let locked := x / K10 * K10 in
  ebal (erc s c) i - ebal (erc s' c) i = locked /\
  ebal (erc s' c) (macc e) - ebal (erc s c) (macc e) = locked /\
  0 <= x - locked < K10 /\
  bal s' r d = bal s r d + x / K10.
Proof.
  intros Hp Hbep Hi H locked. apply conv_erc20_to_coin_spec in H. destruct H as (d' & Hp' & H).
  assert (d' = d) by congruence. subst d'. cbv zeta in H.
  rewrite Hbep in H. unfold kf in H. rewrite Hbep in H. fold locked in H.
  destruct H as (_ & _ & _ & _ & _ & _ & _ & _ & Hb & _ & _ & _ & Hbal & _).
  split. { rewrite Hb, Nat.eqb_refl. unfold dlt. destruct (Nat.eqb_spec i (macc e)); [congruence|]. lia. }
  split. { rewrite Hb, Nat.eqb_refl. unfold dlt. destruct (Nat.eqb_spec (macc e) i); [congruence|]. lia. }
  split. { unfold locked. pose proof K10_pos as HK. pose proof (Z.mod_pos_bound x K10 HK).
           pose proof (Z.div_mod x K10). lia. }
  rewrite Hbal, !Nat.eqb_refl. reflexivity.
Qed.

Lemma dust_only_refused e s i r c x :
  (forall d, pair_of_ctr s c = Some d -> is_bep3 e d = true) -> 0 <= x < K10 ->
  conv_erc20_to_coin e s i r c x = Err.
Proof.
  intros Hbep Hx. unfold conv_erc20_to_coin.
  destruct (pair_of_ctr s c) as [d|]; [|reflexivity]. rewrite (Hbep d eq_refl).
  rewrite (Z.div_small x K10 Hx). reflexivity.
Qed.

(** ** refused conversions *)
Lemma step'_failed e s o : (forall s' u, step e s o <> Ok s' u) -> step' e s o = s.
Proof.
  intros H. unfold step'. destruct (step e s o) as [s' u| |] eqn:E; auto.
  exfalso. exact (H s' u eq_refl).
Qed.

Lemma find_none_fst (l : list (nat * nat)) c :
  (forall d, ~ In (c, d) l) -> find (fun p : nat * nat => Nat.eqb (fst p) c) l = None.
Proof.
  intros H. destruct (find _ l) as [[c' d']|] eqn:Ef; [|reflexivity].
  apply find_some in Ef. destruct Ef as [Hin Hb]. cbn in Hb. apply Nat.eqb_eq in Hb. subst.
  exfalso. exact (H d' Hin).
Qed.

Lemma find_none_snd (l : list (nat * nat)) d :
  (forall c, ~ In (c, d) l) -> find (fun p : nat * nat => Nat.eqb (snd p) d) l = None.
Proof.
  intros H. destruct (find _ l) as [[c' d']|] eqn:Ef; [|reflexivity].
  apply find_some in Ef. destruct Ef as [Hin Hb]. cbn in Hb. apply Nat.eqb_eq in Hb. subst.
  exfalso. exact (H c' Hin).
Qed.

(* a contract that is not the address of an enabled pair *)
Lemma disabled_pair_refused_erc20_to_coin e s i r c x :
  (forall d, ~ In (c, d) (pairs s)) -> conv_erc20_to_coin e s i r c x = Err.
Proof.
  intros H. unfold conv_erc20_to_coin, pair_of_ctr. rewrite (find_none_fst _ c H). reflexivity.
Qed.

(* a denom that is not the denom of an enabled pair *)
Lemma disabled_pair_refused_coin_to_erc20 e s i r d x :
  (forall c, ~ In (c, d) (pairs s)) -> conv_coin_to_erc20 e s i r d x = Err.
Proof.
  intros H. unfold conv_coin_to_erc20, pair_of_denom. rewrite (find_none_snd _ d H). reflexivity.
Qed.

Lemma not_allowed_refused e s i r d x :
  allowed s d = false -> conv_cosmos_to_erc20 e s i r d x = Err.
Proof. intros H. unfold conv_cosmos_to_erc20. rewrite H. reflexivity. Qed.

Lemma unregistered_refused e s i r d x :
  reg s d = None -> conv_cosmos_from_erc20 e s i r d x = Err.
Proof. intros H. unfold conv_cosmos_from_erc20. rewrite H. reflexivity. Qed.

(* amounts above the initiator's balance *)
Lemma overdraw_refused_coin_to_erc20 e s i r d x s' :
  i <> macc e -> bal s i d < x -> 0 < x -> conv_coin_to_erc20 e s i r d x <> Ok s' tt.
Proof.
  intros Hi Hlt Hx H. apply conv_coin_to_erc20_spec in H; [|exact Hi].
  destruct H as (c & _ & H). cbv zeta in H. destruct H as (_ & _ & _ & _ & Hf & _). lia.
Qed.

Lemma overdraw_refused_erc20_to_coin e s i r c d x s' :
  pair_of_ctr s c = Some d ->
  let lock := (if is_bep3 e d then x / K10 else x) * kf e d in
  ebal (erc s c) i < lock -> conv_erc20_to_coin e s i r c x <> Ok s' tt.
Proof.
  intros Hp lock Hlt H. apply conv_erc20_to_coin_spec in H. destruct H as (d' & Hp' & H).
  assert (d' = d) by congruence. subst d'. cbv zeta in H.
  fold lock in H. destruct H as (_ & _ & _ & _ & _ & _ & _ & Hle & _). lia.
Qed.

Lemma overdraw_refused_cosmos_to_erc20 e s i r d x s' :
  0 < x < U256 -> bal s i d < x -> conv_cosmos_to_erc20 e s i r d x <> Ok s' tt.
Proof.
  intros Hx Hlt H. apply conv_cosmos_to_erc20_spec in H; [|lia]. destruct H as (_ & _ & Hf & _). lia.
Qed.

Lemma overdraw_refused_cosmos_from_erc20 e s i r d x c :
  reg s d = Some c -> ebal (erc s c) i < x -> conv_cosmos_from_erc20 e s i r d x = Err.
Proof.
  intros Er Hlt. unfold conv_cosmos_from_erc20. rewrite Er.
  destruct (Z.ltb_spec (ebal (erc s c) i) x); [reflexivity|lia].
Qed.

(* coins are never paid out to a blocked address (module accounts) *)
Lemma blocked_recipient_refused e s i r x :
  blocked e r = true ->
  (forall c s', conv_erc20_to_coin e s i r c x <> Ok s' tt) /\
  (forall d s', conv_cosmos_from_erc20 e s i r d x <> Ok s' tt).
Proof.
  intros Hb. split.
  - intros c s' H. apply conv_erc20_to_coin_spec in H. destruct H as (d & _ & H). cbv zeta in H.
    destruct H as (_ & _ & _ & _ & Hb' & _). congruence.
  - intros d s' H. unfold conv_cosmos_from_erc20 in H.
    destruct (reg s d) as [c|]; [|discriminate].
    destruct (ebal (erc s c) i <? x); [discriminate|].
    destruct (erc_burn (zacc e) (erc s c) i x) as [l1|]; [|discriminate].
    unfold send_mod_to_acc in H. rewrite Hb in H. discriminate.
Qed.

(* unlocking pair tokens to the module's own EVM address would burn the coins
   and credit nobody: the balance-delta check refuses it *)
Lemma unlock_to_module_refused e s i d x s' :
  i <> macc e -> 0 < x -> conv_coin_to_erc20 e s i (macc e) d x <> Ok s' tt.
Proof.
  intros Hi Hx H. unfold conv_coin_to_erc20 in H.
  destruct (pair_of_denom s d) as [c|]; [|discriminate].
  destruct (bank_send s i (macc e) d x) as [s1|]; [|discriminate].
  destruct (bank_burn e s1 d x) as [s2|]; [|discriminate].
  set (unlock := if is_bep3 e d then x * K10 else x) in H.
  assert (Hun : 0 < unlock) by (unfold unlock; pose proof K10_pos; destruct (is_bep3 e d); nia).
  destruct (Nat.leb (next s2) c); [discriminate|].
  destruct (tok_transfer e c (erc s2 c) (macc e) (macc e) unlock) as [l1|] eqn:Et; [|discriminate].
  destruct (emits_approval e c) eqn:Hap.
  { destruct (negb _); discriminate. }
  apply emits_approval_false in Hap. unfold tok_transfer in Et. rewrite Hap in Et.
  apply erc_transfer_spec in Et. destruct Et as (_ & _ & Hb).
  rewrite Hb, Nat.eqb_refl in H. unfold dlt in H.
  destruct (Z.eqb_spec (ebal (erc s2 c) (macc e) + unlock)
                       (ebal (erc s2 c) (macc e) - u256 unlock + u256 unlock)); [lia|discriminate].
Qed.

(* the zero address: minting a wrapper to it reverts — a first conversion that
   would deploy the wrapper is refused as a whole (nothing deployed, nothing locked) *)
Lemma zero_receiver_refused_cosmos_to_erc20 e s i d x :
  conv_cosmos_to_erc20 e s i (zacc e) d x = Err.
Proof.
  unfold conv_cosmos_to_erc20. destruct (negb (allowed s d)); [reflexivity|].
  destruct (bank_send s i (macc e) d x) as [s1|]; [|reflexivity].
  unfold erc_mint. rewrite Nat.eqb_refl. reflexivity.
Qed.

Lemma zero_receiver_refused_coin_to_erc20 e s i d x s' :
  conv_coin_to_erc20 e s i (zacc e) d x <> Ok s' tt.
Proof.
  intros H. unfold conv_coin_to_erc20 in H.
  destruct (pair_of_denom s d) as [c|]; [|discriminate].
  destruct (bank_send s i (macc e) d x) as [s1|]; [|discriminate].
  destruct (bank_burn e s1 d x) as [s2|]; [|discriminate].
  destruct (Nat.leb (next s2) c); [discriminate|].
  destruct (tok_transfer e c _ _ _ _) as [l1|] eqn:Et; [|discriminate].
  destruct (negb _); [discriminate|].
  destruct (emits_approval e c) eqn:Hap; [discriminate|].
  apply emits_approval_false in Hap. unfold tok_transfer in Et. rewrite Hap in Et.
  apply erc_transfer_nz in Et. destruct Et as [_ Hz]. congruence.
Qed.

(* after a successful ConvertCosmosCoinToERC20 the denom's registered contract
   is a deployed wrapper and the receiver's balance in it rose by the amount *)
Lemma cosmos_to_erc20_contract_exists e s i r d x s' :
  Inv e s -> 0 <= x < U256 -> conv_cosmos_to_erc20 e s i r d x = Ok s' tt ->
  exists c, reg s' d = Some c /\ (npair e <= c < next s')%nat /\
            ebal (erc s' c) r = ebal (wl s d) r + x /\ etot (erc s' c) = etot (wl s d) + x.
Proof.
  intros (I1 & I2 & _) Hx H. apply conv_cosmos_to_erc20_spec in H; [|exact Hx].
  destruct H as (_ & _ & _ & c & Hrc & Hcase & _ & Hb & Ht & _).
  exists c. split; [exact Hrc|]. split.
  - destruct Hcase as [(Er & _ & Hn)|(_ & -> & _ & Hn)]; rewrite Hn; [apply (I2 d c Er)|lia].
  - split; [|exact Ht]. rewrite Hb, Nat.eqb_refl. reflexivity.
Qed.

(** ** a pair whose token announces an allowance change inside transfer():
       every conversion through it is refused (and so changes nothing) *)
Lemma approval_pair_refused_erc20_to_coin e s i r c x :
  kind e c = Refund -> conv_erc20_to_coin e s i r c x = Err.
Proof.
  intros Hk. unfold conv_erc20_to_coin, emits_approval. rewrite Hk.
  destruct (pair_of_ctr s c) as [d|]; [|reflexivity].
  destruct (is_bep3 e d && _); [reflexivity|].
  destruct (Nat.leb (next s) c); [reflexivity|].
  destruct (tok_transfer e c _ _ _ _); [|reflexivity].
  destruct (negb _); reflexivity.
Qed.

Lemma approval_pair_refused_coin_to_erc20 e s i r d x c :
  pair_of_denom s d = Some c -> kind e c = Refund -> conv_coin_to_erc20 e s i r d x = Err.
Proof.
  intros Hp Hk. unfold conv_coin_to_erc20, emits_approval. rewrite Hp, Hk.
  destruct (bank_send s i (macc e) d x) as [s1|]; [|reflexivity].
  destruct (bank_burn e s1 d x) as [s2|]; [|reflexivity].
  destruct (Nat.leb (next s2) c); [reflexivity|].
  destruct (tok_transfer e c _ _ _ _); [|reflexivity].
  destruct (negb _); reflexivity.
Qed.

(* in steps: the state is the one before *)
Lemma approval_pair_changes_nothing e s dr i r c d x :
  kind e c = Refund ->
  step' e s (ConvERC20ToCoin dr i r c x) = s /\
  (pair_of_denom s d = Some c -> step' e s (ConvCoinToERC20 dr i r d x) = s).
Proof.
  intros Hk. split.
  - apply step'_failed. intros s' u. cbn [step]. destruct (amount_ok dr x); [|discriminate].
    rewrite (approval_pair_refused_erc20_to_coin e s i r c x Hk). discriminate.
  - intros Hp. apply step'_failed. intros s' u. cbn [step]. destruct (amount_ok dr x); [|discriminate].
    rewrite (approval_pair_refused_coin_to_erc20 e s i r d x c Hp Hk). discriminate.
Qed.

(* nobody but the module's own address ever holds an allowance over the tokens locked
   for an OpenZeppelin pair, so a transferFrom out of the module's address moves nothing *)
Lemma transfer_from_module_moves_nothing e s c sp t x s' :
  Inv e s -> (c < npair e)%nat -> kind e c = Oz ->
  step e s (ErcTransferFrom c sp (macc e) t x) = Ok s' tt ->
  forall a, ebal (erc s' c) a = ebal (erc s c) a.
Proof.
  intros (I1 & _ & _ & _ & _ & I6 & _) Hc Hk H a. cbn [step] in H.
  destruct (Nat.leb_spec (next s) c); [lia|]. rewrite Hk in H.
  destruct (erc_transfer_from (zacc e) (erc s c) sp (macc e) t x) as [l|] eqn:Et; [|discriminate].
  inversion H; subst s'; clear H. cbn [set_erc erc]. unfold upd. rewrite Nat.eqb_refl.
  apply erc_transfer_from_spec in Et. destruct Et as (Hcov & _ & _ & Hb & _).
  rewrite (I6 c Hc Hk sp) in Hcov. pose proof (u256_range x).
  destruct Hcov as [Hcov|Hcov]; [discriminate Hcov|].
  rewrite Hb. replace (u256 x) with 0 by lia. unfold dlt. destruct (Nat.eqb a (macc e)), (Nat.eqb a t); lia.
Qed.

(** ** the validators of the parameter-change path *)

Lemma valid_pairs_spec ps l : valid_pairs ps = Some l <-> decode_pairs ps = Some l /\ pairs_nodup l.
Proof.
  unfold valid_pairs. destruct (decode_pairs ps) as [l0|].
  - destruct (pairs_nodupb l0) eqn:E.
    + apply pairs_nodupb_spec in E. split.
      * intros H; inversion H; subst. split; [reflexivity|exact E].
      * intros [H _]. exact H.
    + split; [discriminate|]. intros [H Hn]. inversion H; subst.
      apply pairs_nodupb_spec in Hn. congruence.
  - split; [discriminate|]. intros [H _]. discriminate.
Qed.

Lemma decode_pairs_in ps : forall l, decode_pairs ps = Some l ->
  forall p, In p ps -> exists q, decode_pair p = Some q /\ In q l.
Proof.
  induction ps as [|p0 r IH]; intros l H p Hin; [contradiction|].
  cbn [decode_pairs] in H. destruct (decode_pair p0) as [q0|] eqn:E0; [|discriminate].
  destruct (decode_pairs r) as [l0|] eqn:Er; [|discriminate]. inversion H; subst; clear H.
  destruct Hin as [->|Hin].
  - exists q0. split; [exact E0|left; reflexivity].
  - destruct (IH l0 eq_refl p Hin) as (q & Hq & Hql). exists q. split; [exact Hq|right; exact Hql].
Qed.

(* a list with a zero address, an address of the wrong length or an invalid denom is refused *)
Lemma malformed_pair_refused ps p :
  In p ps -> (p_addr p = AZero \/ p_addr p = ABadLen \/ p_denom p = None) -> valid_pairs ps = None.
Proof.
  intros Hin Hbad. destruct (valid_pairs ps) as [l|] eqn:E; [|reflexivity].
  apply valid_pairs_spec in E. destruct E as [Hd _].
  destruct (decode_pairs_in ps l Hd p Hin) as (q & Hq & _). unfold decode_pair in Hq.
  destruct Hbad as [H|[H|H]]; rewrite H in Hq; try discriminate.
  destruct (p_addr p); discriminate.
Qed.

Lemma decode_pairs_map ps : forall l, decode_pairs ps = Some l ->
  map Some l = map decode_pair ps.
Proof.
  induction ps as [|p0 r IH]; intros l H; cbn [decode_pairs] in H.
  - inversion H; reflexivity.
  - destruct (decode_pair p0) as [q0|] eqn:E0; [|discriminate].
    destruct (decode_pairs r) as [l0|] eqn:Er; [|discriminate]. inversion H; subst; clear H.
    cbn [map]. rewrite E0, (IH l0 eq_refl). reflexivity.
Qed.

(* two entries with one address, or two entries with one denom, are refused *)
Lemma duplicate_pair_refused ps1 p ps2 p' ps3 :
  (p_addr p = p_addr p' \/ p_denom p = p_denom p') ->
  valid_pairs (ps1 ++ p :: ps2 ++ p' :: ps3) = None.
Proof.
  intros Hdup. destruct (valid_pairs _) as [l|] eqn:E; [|reflexivity]. exfalso.
  apply valid_pairs_spec in E. destruct E as [Hd [Hn1 Hn2]].
  pose proof (decode_pairs_map _ _ Hd) as Hm.
  destruct (decode_pairs_in _ l Hd p) as (q & Hq & _); [apply in_or_app; right; left; reflexivity|].
  destruct (decode_pairs_in _ l Hd p') as (q' & Hq' & _).
  { apply in_or_app; right; right. apply in_or_app; right; left; reflexivity. }
  rewrite !map_app in Hm. cbn [map] in Hm. rewrite !map_app in Hm. cbn [map] in Hm. rewrite Hq, Hq' in Hm.
  (* l splits the same way *)
  assert (Hsplit : exists l1 l2 l3, l = l1 ++ q :: l2 ++ q' :: l3).
  { clear -Hm. revert l Hm. generalize (map decode_pair ps1) as m1. intros m1. revert m1.
    assert (Hgen : forall (m1 m2 : list (option (nat*nat))) a l, map Some l = m1 ++ Some a :: m2 ->
              exists l1 l2, l = l1 ++ a :: l2 /\ map Some l1 = m1 /\ map Some l2 = m2).
    { induction m1 as [|x m1 IH]; intros m2 a l H; destruct l as [|y l]; cbn in H; try discriminate.
      - inversion H; subst. exists [], l. repeat split.
      - inversion H; subst. destruct (IH m2 a l H2) as (l1 & l2 & -> & H3 & H4).
        exists (y :: l1), l2. cbn. rewrite H3. repeat split; assumption. }
    intros m1 l Hm. destruct (Hgen _ _ _ _ Hm) as (l1 & l2 & -> & _ & H2).
    destruct (Hgen _ _ _ _ H2) as (l3 & l4 & -> & _ & _). exists l1, l3, l4. reflexivity. }
  destruct Hsplit as (l1 & l2 & l3 & ->).
  unfold decode_pair in Hq, Hq'.
  destruct (p_addr p) as [c| |] eqn:Ea, (p_denom p) as [d|] eqn:Ed; try discriminate.
  destruct (p_addr p') as [c'| |] eqn:Ea', (p_denom p') as [d'|] eqn:Ed'; try discriminate.
  inversion Hq; inversion Hq'; subst q q'; clear Hq Hq'.
  destruct Hdup as [H|H]; inversion H; subst.
  - rewrite !map_app in Hn1. cbn [map fst] in Hn1. rewrite !map_app in Hn1. cbn [map fst] in Hn1.
    apply NoDup_remove_2 in Hn1. apply Hn1. apply in_or_app. right. apply in_or_app. right. left. reflexivity.
  - rewrite !map_app in Hn2. cbn [map snd] in Hn2. rewrite !map_app in Hn2. cbn [map snd] in Hn2.
    apply NoDup_remove_2 in Hn2. apply Hn2. apply in_or_app. right. apply in_or_app. right. left. reflexivity.
Qed.

(* what a successful parameter change installs *)
Lemma set_params_spec e s ps ts s' : step e s (SetParams ps ts) = Ok s' tt ->
  valid_pairs ps = Some (pairs s') /\ pairs_nodup (pairs s') /\
  (exists al, valid_toks ts = Some al /\ allowed s' = memb al) /\
  bal s' = bal s /\ sup s' = sup s /\ erc s' = erc s /\ reg s' = reg s /\ next s' = next s.
Proof.
  cbn [step]. destruct (valid_pairs ps) as [l|] eqn:Ev; [|discriminate].
  destruct (valid_toks ts) as [al|] eqn:Et; [|discriminate].
  intros H; inversion H; subst; clear H. cbn [pairs allowed bal sup erc reg next].
  split; [reflexivity|]. split; [apply (valid_pairs_spec ps l); exact Ev|].
  split; [exists al; split; reflexivity|]. repeat split.
Qed.

Lemma set_params_refused e s ps ts :
  valid_pairs ps = None \/ valid_toks ts = None -> step e s (SetParams ps ts) = Err.
Proof.
  intros [H|H]; cbn [step]; rewrite H; [reflexivity|]. destruct (valid_pairs ps); reflexivity.
Qed.

(* no operation other than a validated parameter change touches the enabled pairs *)
Lemma bank_send_pairs s f t d x s' : bank_send s f t d x = Some s' -> pairs s' = pairs s.
Proof. intros H. apply bank_send_spec in H. destruct H as (_ & (_ & _ & _ & Hp & _) & _). exact Hp. Qed.

Lemma bank_burn_pairs e s d x s' : bank_burn e s d x = Some s' -> pairs s' = pairs s.
Proof. intros H. apply bank_burn_spec in H. destruct H as (_ & (_ & _ & _ & Hp & _) & _). exact Hp. Qed.

Lemma step_pairs e s o s' : step e s o = Ok s' tt ->
  pairs s' = pairs s \/ exists ps ts, o = SetParams ps ts /\ valid_pairs ps = Some (pairs s').
Proof.
  intros H.
  destruct o as [dr i r d x|dr i r c x|dr i r d x|dr i r d x|c f t x|c t x|f t d x|ps ts|c o sp x|c sp f t x];
    cbn [step] in H.
  - left. destruct (amount_ok dr x); [|discriminate]. unfold conv_coin_to_erc20 in H.
    destruct (pair_of_denom s d); [|discriminate].
    destruct (bank_send s i (macc e) d x) as [s1|] eqn:E1; [|discriminate].
    destruct (bank_burn e s1 d x) as [s2|] eqn:E2; [|discriminate].
    destruct (Nat.leb (next s2) n); [discriminate|].
    destruct (tok_transfer e n _ _ _ _); [|discriminate].
    destruct (negb _); [discriminate|]. destruct (emits_approval e n); [discriminate|].
    inversion H; subst. cbn [set_erc pairs].
    rewrite (bank_burn_pairs _ _ _ _ _ E2), (bank_send_pairs _ _ _ _ _ _ E1). reflexivity.
  - left. destruct (amount_ok dr x); [|discriminate]. unfold conv_erc20_to_coin in H.
    destruct (pair_of_ctr s c) as [d|]; [|discriminate].
    destruct (is_bep3 e d && _); [discriminate|]. destruct (Nat.leb (next s) c); [discriminate|].
    destruct (tok_transfer e c _ _ _ _) as [l1|]; [|discriminate].
    destruct (negb _); [discriminate|]. destruct (emits_approval e c); [discriminate|].
    destruct (send_mod_to_acc e _ r d _) as [s3|] eqn:Es; [|discriminate]. inversion H; subst.
    apply send_mod_to_acc_spec in Es. destruct Es as [_ Es]. rewrite (bank_send_pairs _ _ _ _ _ _ Es). reflexivity.
  - left. destruct (amount_ok dr x); [|discriminate]. unfold conv_cosmos_to_erc20 in H.
    destruct (negb (allowed s d)); [discriminate|].
    destruct (bank_send s i (macc e) d x) as [s1|] eqn:E1; [|discriminate].
    destruct (erc_mint _ _ r x); [|discriminate]. inversion H; subst. cbn [set_erc pairs].
    rewrite <- (bank_send_pairs _ _ _ _ _ _ E1). destruct (reg s1 d); reflexivity.
  - left. destruct (amount_ok dr x); [|discriminate]. unfold conv_cosmos_from_erc20 in H.
    destruct (reg s d) as [c|]; [|discriminate]. destruct (_ <? x); [discriminate|].
    destruct (erc_burn _ _ i x) as [l1|]; [|discriminate].
    destruct (send_mod_to_acc e _ r d x) as [s2|] eqn:Es; [|discriminate]. inversion H; subst.
    apply send_mod_to_acc_spec in Es. destruct Es as [_ Es]. rewrite (bank_send_pairs _ _ _ _ _ _ Es). reflexivity.
  - left. destruct (Nat.leb (next s) c); [inversion H; reflexivity|].
    destruct (tok_transfer e c _ f t x); [|discriminate]. inversion H; reflexivity.
  - left. destruct (Nat.leb (next s) c); [inversion H; reflexivity|].
    destruct (negb _); [discriminate|]. destruct (kind e c).
    + destruct (erc_mint _ _ t x); [|discriminate]. inversion H; reflexivity.
    + inversion H; reflexivity.
  - left. destruct (x <=? 0); [discriminate|]. destruct (blocked e t); [discriminate|].
    destruct (bank_send s f t d x) as [s1|] eqn:E1; [|discriminate]. inversion H; subst.
    apply (bank_send_pairs _ _ _ _ _ _ E1).
  - right. exists ps, ts. split; [reflexivity|]. apply (set_params_spec e s) in H. exact (proj1 H).
  - left. destruct (Nat.leb (next s) c); [inversion H; reflexivity|].
    destruct (kind e c); [|discriminate].
    destruct (erc_approve _ _ o sp x); [|discriminate]. inversion H; reflexivity.
  - left. destruct (Nat.leb (next s) c); [inversion H; reflexivity|].
    destruct (match kind e c with Oz => _ | Refund => _ end); [|discriminate]. inversion H; reflexivity.
Qed.

(* hence the enabled pairs are duplicate-free after every history, whoever signs what *)
Lemma step'_pairs_nodup e s o : pairs_nodup (pairs s) -> pairs_nodup (pairs (step' e s o)).
Proof.
  intros Hn. unfold step'. destruct (step e s o) as [s' []| |] eqn:E; try exact Hn.
  destruct (step_pairs e s o s' E) as [->|(ps & ts & _ & Hv)]; [exact Hn|].
  apply valid_pairs_spec in Hv. apply Hv.
Qed.

Lemma run_pairs_nodup e ops : forall s, pairs_nodup (pairs s) -> pairs_nodup (pairs (run e s ops)).
Proof.
  induction ops as [|o r IH]; intros s Hn; cbn [run fold_left]; [exact Hn|].
  apply IH. apply step'_pairs_nodup. exact Hn.
Qed.

(* ... and the lookups the keeper makes are functions of the denom / the address *)
Lemma run_lookup_functional e ops s c d :
  pairs_nodup (pairs s) -> In (c, d) (pairs (run e s ops)) ->
  pair_of_denom (run e s ops) d = Some c /\ pair_of_ctr (run e s ops) c = Some d.
Proof. intros Hn Hin. apply lookup_functional; [apply run_pairs_nodup; exact Hn|exact Hin]. Qed.

(* the model never panics *)
Lemma step_no_panic e s o : step e s o <> Panic.
Proof.
  destruct o; cbn [step];
    unfold conv_coin_to_erc20, conv_erc20_to_coin, conv_cosmos_to_erc20, conv_cosmos_from_erc20;
    repeat match goal with
    | |- context [match ?x with _ => _ end] => destruct x
    | |- context [if ?x then _ else _] => destruct x
    end; discriminate.
Qed.

Lemma tx_step_no_panic e tx : forall s, tx_step e s tx <> Panic.
Proof.
  induction tx as [|o r IH]; intros s; cbn [tx_step]; [discriminate|].
  destruct (step e s o) as [s1 u| |] eqn:E; [apply IH|discriminate|]. exfalso. exact (step_no_panic e s o E).
Qed.

(** ** the other direction of the round trips *)

Lemma conv_cosmos_to_erc20_ok e s i r d x :
  allowed s d = true -> r <> zacc e -> 0 <= x < U256 -> (x = 0 \/ x <= bal s i d) ->
  etot (wl s d) + x < U256 ->
  exists s', conv_cosmos_to_erc20 e s i r d x = Ok s' tt.
Proof.
  intros Hal Hrz Hx Hf Ht. unfold conv_cosmos_to_erc20. rewrite Hal. cbn [negb].
  destruct (bank_send_ok s i (macc e) d x Hf) as [s1 E1]. rewrite E1.
  apply bank_send_spec in E1. destruct E1 as (_ & (He1 & He2 & He3 & _) & _ & _).
  rewrite He2. unfold wl in Ht. destruct (reg s d) as [c|] eqn:Er.
  - destruct (erc_mint_ok (zacc e) (erc s1 c) r x Hrz) as [l1 El]; [rewrite He1, u256_small by exact Hx; exact Ht|].
    rewrite El. eexists; reflexivity.
  - unfold deploy. cbn [erc next]. unfold upd at 1. rewrite Nat.eqb_refl.
    destruct (erc_mint_ok (zacc e) empty_ledger r x Hrz) as [l1 El]; [rewrite u256_small by exact Hx; exact Ht|].
    rewrite El. eexists; reflexivity.
Qed.

(* wrapper ERC20 -> cosmos coin -> wrapper ERC20 (while the denom is still allowed) *)
Lemma round_trip_cosmos_back e s i r d x s1 :
  env_wf e -> nonneg s -> 0 <= x < U256 -> allowed s d = true ->
  conv_cosmos_from_erc20 e s i r d x = Ok s1 tt ->
  exists s2, conv_cosmos_to_erc20 e s1 r i d x = Ok s2 tt /\
    (forall a d', bal s2 a d' = bal s a d') /\ sup s2 = sup s /\
    (forall c a, ebal (erc s2 c) a = ebal (erc s c) a) /\
    (forall c, etot (erc s2 c) = etot (erc s c)) /\
    reg s2 = reg s /\ next s2 = next s.
Proof.
  intros Hwf (Hnb & Hne & Hnt) Hx Hal H1.
  apply conv_cosmos_from_erc20_spec in H1; [|exact Hx].
  destruct H1 as (c & Er & Hiz & Hblk & _ & _ & Hb1 & Ht1 & Ho1 & Hbal1 & Hsup1 & Hr1 & Hn1 & (_ & Hal1)).
  pose proof (blocked_not_module e r Hwf Hblk) as Hrm.
  assert (Hwl1 : wl s1 d = erc s1 c) by (unfold wl; rewrite Hr1, Er; reflexivity).
  destruct (conv_cosmos_to_erc20_ok e s1 r i d x) as [s2 H2].
  - rewrite Hal1. exact Hal.
  - exact Hiz.
  - exact Hx.
  - right. rewrite Hbal1, !Nat.eqb_refl. unfold dlt.
    destruct (Nat.eqb_spec r (macc e)); [congruence|]. cbn [andb]. specialize (Hnb r d). lia.
  - rewrite Hwl1, Ht1. specialize (Hnt c). lia.
  - exists s2. split; [exact H2|].
    apply conv_cosmos_to_erc20_spec in H2; [|exact Hx].
    destruct H2 as (_ & _ & _ & c2 & Hrc2 & Hcase & _ & Hb2 & Ht2 & Ho2 & Hbal2 & Hsup2 & _).
    destruct Hcase as [(Er2 & Hr2 & Hn2) | (Er2 & _)]; [|congruence].
    assert (c2 = c) by congruence. subst c2. rewrite Hwl1 in Hb2, Ht2.
    split. { intros a d'. rewrite Hbal2, Hbal1. unfold dlt.
             destruct (Nat.eqb a (macc e) && Nat.eqb d' d), (Nat.eqb a r && Nat.eqb d' d); lia. }
    split; [congruence|].
    split. { intros c' a. destruct (Nat.eqb_spec c' c) as [->|Hne'].
             - rewrite Hb2, Hb1. unfold dlt. destruct (Nat.eqb a i); lia.
             - rewrite Ho2, Ho1 by exact Hne'. reflexivity. }
    split. { intros c'. destruct (Nat.eqb_spec c' c) as [->|Hne'].
             - rewrite Ht2, Ht1. lia.
             - rewrite Ho2, Ho1 by exact Hne'. reflexivity. }
    split; congruence.
Qed.

Lemma conv_erc20_to_coin_ok e s i r c d x :
  pair_of_ctr s c = Some d ->
  let mint := if is_bep3 e d then x / K10 else x in
  let lock := mint * kf e d in
  (c < next s)%nat -> kind e c = Oz -> i <> zacc e -> macc e <> zacc e ->
  blocked e r = false -> i <> macc e ->
  (is_bep3 e d = true -> mint <> 0) -> 0 <= lock < U256 -> lock <= ebal (erc s c) i ->
  0 <= mint -> 0 <= bal s (macc e) d ->
  exists s', conv_erc20_to_coin e s i r c x = Ok s' tt.
Proof.
  intros Hp mint lock Hcn Hk Hiz Hmz Hblk Hi Hnz Hlk Hle Hmint Hm. unfold conv_erc20_to_coin. rewrite Hp.
  assert (Hlock : (if is_bep3 e d then x / K10 * K10 else x) = lock).
  { unfold lock, mint, kf. destruct (is_bep3 e d); lia. }
  rewrite Hlock. fold mint.
  assert (Hz : is_bep3 e d && (mint =? 0) = false).
  { destruct (is_bep3 e d) eqn:Hb; [|reflexivity]. cbn [andb]. apply Z.eqb_neq. apply Hnz. reflexivity. }
  rewrite Hz. destruct (Nat.leb_spec (next s) c); [lia|].
  unfold tok_transfer, emits_approval. rewrite Hk.
  destruct (erc_transfer_ok (zacc e) (erc s c) i (macc e) lock Hiz Hmz) as [l1 Et]; [rewrite u256_small by exact Hlk; exact Hle|].
  rewrite Et. apply erc_transfer_spec in Et. destruct Et as (_ & _ & Hb).
  rewrite Hb, Nat.eqb_refl, u256_small by exact Hlk. unfold dlt.
  destruct (Nat.eqb_spec i (macc e)); [congruence|].
  destruct (Z.eqb_spec (ebal (erc s c) i - lock) (ebal (erc s c) i - lock + 0)); [|lia]. cbn [negb].
  unfold send_mod_to_acc. rewrite Hblk.
  destruct (bank_send_ok (bank_mint e (set_erc s c l1) d mint) (macc e) r d mint) as [s3 Es].
  { right. destruct (bank_mint_spec e (set_erc s c l1) d mint) as (_ & _ & Hbm).
    rewrite Hbm, !Nat.eqb_refl. unfold dlt. cbn [andb set_erc bal]. lia. }
  rewrite Es. eexists; reflexivity.
Qed.

(* coin -> ERC20 -> coin for an EVM-native pair *)
Lemma round_trip_evm_back e s i r d x s1 :
  env_wf e -> nonneg s -> pairs_nodup (pairs s) -> 0 <= x -> (is_bep3 e d = true -> 0 < x) ->
  i <> macc e -> r <> macc e -> blocked e i = false ->
  conv_coin_to_erc20 e s i r d x = Ok s1 tt ->
  exists c s2, pair_of_denom s d = Some c /\
    conv_erc20_to_coin e s1 r i c (x * kf e d) = Ok s2 tt /\
    (forall a d', bal s2 a d' = bal s a d') /\ (forall d', sup s2 d' = sup s d') /\
    (forall c' a, ebal (erc s2 c') a = ebal (erc s c') a) /\
    (forall c', etot (erc s2 c') = etot (erc s c')) /\
    reg s2 = reg s /\ next s2 = next s.
Proof.
  intros Hwf (Hnb & Hne & _) Hnd Hx Hpos Him Hrm Hblk H1.
  apply conv_coin_to_erc20_spec in H1; [|exact Him]. destruct H1 as (c & Hp & H1). cbv zeta in H1.
  destruct H1 as (Hcn & Hk & Hrz & Hmz & Hf & Hun & Hle & Hb1 & Ht1 & _ & Ho1 & Hbal1 & Hsup1 & Hr1 & Hn1 & (Hp1 & _)).
  exists c.
  assert (Hpc : pair_of_ctr s1 c = Some d).
  { apply pair_of_denom_some in Hp. apply (lookup_functional s1 c d); rewrite Hp1; assumption. }
  assert (Hmint : (if is_bep3 e d then x * kf e d / K10 else x * kf e d) = x).
  { unfold kf. destruct (is_bep3 e d); [apply Z.div_mul; pose proof K10_pos; lia|lia]. }
  destruct (conv_erc20_to_coin_ok e s1 r i c d (x * kf e d) Hpc) as [s2 H2]; cbv zeta; rewrite ?Hmint; try assumption.
  - rewrite Hn1. exact Hcn.
  - intros Hbep. specialize (Hpos Hbep). lia.
  - rewrite Hb1, Nat.eqb_refl. unfold dlt. destruct (Nat.eqb_spec r (macc e)); [congruence|].
    specialize (Hne c r). lia.
  - rewrite Hbal1. unfold dlt. destruct (Nat.eqb_spec (macc e) i); [congruence|]. cbn [andb].
    specialize (Hnb (macc e) d). lia.
  - exists s2. split; [exact Hp|]. split; [exact H2|].
    apply conv_erc20_to_coin_spec in H2. destruct H2 as (d2 & Hpc2 & H2).
    assert (d2 = d) by congruence. subst d2. cbv zeta in H2. rewrite Hmint in H2.
    destruct H2 as (_ & _ & _ & _ & _ & _ & _ & _ & Hb2 & Ht2 & _ & Ho2 & Hbal2 & Hsup2 & Hr2 & Hn2 & _).
    split. { intros a d'. rewrite Hbal2, Hbal1. unfold dlt. destruct (Nat.eqb a i && Nat.eqb d' d); lia. }
    split. { intros d'. rewrite Hsup2, Hsup1. unfold dlt. destruct (Nat.eqb d' d); lia. }
    split. { intros c' a. destruct (Nat.eqb_spec c' c) as [->|Hne'].
             - rewrite Hb2, Hb1. unfold dlt. destruct (Nat.eqb a (macc e)), (Nat.eqb a r); lia.
             - rewrite Ho2, Ho1 by exact Hne'. reflexivity. }
    split. { intros c'. destruct (Nat.eqb_spec c' c) as [->|Hne'].
             - rewrite Ht2, Ht1. reflexivity.
             - rewrite Ho2, Ho1 by exact Hne'. reflexivity. }
    split; congruence.
Qed.

(** ** the range hypothesis of the round trips is an invariant of histories *)
Lemma wl_nonneg s d : nonneg s -> (forall a, 0 <= ebal (wl s d) a) /\ etot (wl s d) < U256.
Proof.
  intros (_ & Hne & Hnt). unfold wl. destruct (reg s d); [split; [apply Hne|apply Hnt]|].
  cbn. split; [lia|exact U256_pos].
Qed.

(* replacing one ledger by one with non-negative balances and a total in range *)
Lemma nonneg_set_erc s c l : nonneg s -> (forall a, 0 <= ebal l a) -> etot l < U256 -> nonneg (set_erc s c l).
Proof.
  intros (Hnb & Hne & Hnt) Hb Ht. split; [exact Hnb|]. cbn [set_erc erc]. split.
  - intros c' a. unfold upd. destruct (Nat.eqb c' c); [apply Hb|apply Hne].
  - intros c'. unfold upd. destruct (Nat.eqb c' c); [exact Ht|apply Hnt].
Qed.

Lemma step_nonneg e s o s' : nonneg s -> op_wf e o -> step e s o = Ok s' tt -> nonneg s'.
Proof.
  intros Hnn (Hs & _ & _) H. pose proof Hnn as (Hnb & Hne & Hnt).
  destruct o as [dr i r d x|dr i r c x|dr i r d x|dr i r d x|c f t x|c t x|f t d x|ps ts|c o sp x|c sp f t x];
    cbn [step signer] in H, Hs.
  - destruct (amount_ok dr x) eqn:Ea; [|discriminate]. apply amount_ok_range in Ea.
    apply conv_coin_to_erc20_spec in H; [|congruence]. destruct H as (c & _ & H). cbv zeta in H.
    destruct H as (_ & _ & _ & _ & Hf & Hun & Hle & Hb & Ht & _ & Ho & Hbal & _).
    split; [|split].
    + intros a d'. rewrite Hbal. unfold dlt. specialize (Hnb a d').
      destruct (Nat.eqb_spec a i) as [->|]; cbn [andb]; [|lia].
      destruct (Nat.eqb_spec d' d) as [->|]; lia.
    + intros c' a. destruct (Nat.eqb_spec c' c) as [->|Hne'].
      * rewrite Hb. unfold dlt. specialize (Hne c a).
        destruct (Nat.eqb a r), (Nat.eqb_spec a (macc e)) as [->|]; lia.
      * rewrite Ho by exact Hne'. apply Hne.
    + intros c'. destruct (Nat.eqb_spec c' c) as [->|Hne'].
      * rewrite Ht. apply Hnt.
      * rewrite Ho by exact Hne'. apply Hnt.
  - destruct (amount_ok dr x) eqn:Ea; [|discriminate]. apply amount_ok_range in Ea.
    apply conv_erc20_to_coin_spec in H. destruct H as (d & _ & H). cbv zeta in H.
    destruct H as (_ & _ & _ & _ & _ & _ & Hlk & Hle & Hb & Ht & _ & Ho & Hbal & _).
    assert (Hmint : 0 <= (if is_bep3 e d then x / K10 else x)).
    { destruct (is_bep3 e d); [apply Z.div_pos; [lia|exact K10_pos]|lia]. }
    split; [|split].
    + intros a d'. rewrite Hbal. unfold dlt. specialize (Hnb a d').
      destruct (Nat.eqb a r && Nat.eqb d' d); lia.
    + intros c' a. destruct (Nat.eqb_spec c' c) as [->|Hne'].
      * rewrite Hb. unfold dlt. specialize (Hne c a).
        destruct (Nat.eqb a (macc e)), (Nat.eqb_spec a i) as [->|]; lia.
      * rewrite Ho by exact Hne'. apply Hne.
    + intros c'. destruct (Nat.eqb_spec c' c) as [->|Hne'].
      * rewrite Ht. apply Hnt.
      * rewrite Ho by exact Hne'. apply Hnt.
  - destruct (amount_ok dr x) eqn:Ea; [|discriminate]. apply amount_ok_range in Ea.
    apply conv_cosmos_to_erc20_spec in H; [|exact Ea].
    destruct H as (_ & _ & Hf & c & _ & _ & Hlt & Hb & Ht & Ho & Hbal & _).
    destruct (wl_nonneg s d Hnn) as [Hw _].
    split; [|split].
    + intros a d'. rewrite Hbal. unfold dlt. specialize (Hnb a d').
      destruct (Nat.eqb_spec a i) as [->|]; cbn [andb].
      * destruct (Nat.eqb_spec d' d) as [->|]; destruct (Nat.eqb i (macc e)); cbn [andb]; lia.
      * destruct (Nat.eqb a (macc e) && Nat.eqb d' d); lia.
    + intros c' a. destruct (Nat.eqb_spec c' c) as [->|Hne'].
      * rewrite Hb. unfold dlt. specialize (Hw a). destruct (Nat.eqb a r); lia.
      * rewrite Ho by exact Hne'. apply Hne.
    + intros c'. destruct (Nat.eqb_spec c' c) as [->|Hne'].
      * rewrite Ht. exact Hlt.
      * rewrite Ho by exact Hne'. apply Hnt.
  - destruct (amount_ok dr x) eqn:Ea; [|discriminate]. apply amount_ok_range in Ea.
    apply conv_cosmos_from_erc20_spec in H; [|exact Ea].
    destruct H as (c & _ & _ & _ & Hle & Hf & Hb & Ht & Ho & Hbal & _).
    split; [|split].
    + intros a d'. rewrite Hbal. unfold dlt. specialize (Hnb a d').
      destruct (Nat.eqb_spec a (macc e)) as [->|]; cbn [andb].
      * destruct (Nat.eqb_spec d' d) as [->|]; destruct (Nat.eqb (macc e) r); cbn [andb]; lia.
      * destruct (Nat.eqb a r && Nat.eqb d' d); lia.
    + intros c' a. destruct (Nat.eqb_spec c' c) as [->|Hne'].
      * rewrite Hb. unfold dlt. specialize (Hne c a). destruct (Nat.eqb_spec a i) as [->|]; lia.
      * rewrite Ho by exact Hne'. apply Hne.
    + intros c'. destruct (Nat.eqb_spec c' c) as [->|Hne'].
      * rewrite Ht. specialize (Hnt c). lia.
      * rewrite Ho by exact Hne'. apply Hnt.
  - destruct (Nat.leb (next s) c); [inversion H; subst; exact Hnn|].
    destruct (tok_transfer e c (erc s c) f t x) as [l|] eqn:Et; [|discriminate].
    inversion H; subst s'; clear H. unfold tok_transfer in Et. pose proof (u256_range x).
    destruct (kind e c).
    + apply erc_transfer_spec in Et. destruct Et as (Hle & Htot & Hb).
      apply nonneg_set_erc; [exact Hnn| |rewrite Htot; apply Hnt].
      intros a. rewrite Hb. unfold dlt. specialize (Hne c a).
      destruct (Nat.eqb a t), (Nat.eqb_spec a f) as [->|]; lia.
    + apply rf_transfer_spec in Et. destruct Et as (Hle & Htot & _ & Hb & Hbt).
      apply nonneg_set_erc; [exact Hnn| |rewrite Htot; apply Hnt].
      intros a. destruct (Nat.eqb_spec a t) as [->|Hat].
      * rewrite Hbt. apply u256_range.
      * rewrite (Hb a Hat). unfold dlt. specialize (Hne c a). destruct (Nat.eqb_spec a f) as [->|]; lia.
  - destruct (Nat.leb (next s) c); [inversion H; subst; exact Hnn|].
    destruct (Nat.ltb c (npair e)); [|discriminate]. cbn [negb] in H. pose proof (u256_range x).
    destruct (kind e c).
    + destruct (erc_mint (zacc e) (erc s c) t x) as [l|] eqn:Em; [|discriminate].
      inversion H; subst s'; clear H. apply erc_mint_spec in Em. destruct Em as (Hlt & Htot & Hb).
      apply nonneg_set_erc; [exact Hnn| |rewrite Htot; exact Hlt].
      intros a. rewrite Hb. unfold dlt. specialize (Hne c a). destruct (Nat.eqb a t); lia.
    + inversion H; subst s'; clear H.
      apply nonneg_set_erc; [exact Hnn| |cbn [rf_mint etot]; apply Hnt].
      intros a. cbn [rf_mint ebal]. unfold upd. destruct (Nat.eqb a t); [apply u256_range|apply Hne].
  - destruct (Z.leb_spec x 0); [discriminate|].
    destruct (blocked e t); [discriminate|].
    destruct (bank_send s f t d x) as [s1|] eqn:Es; [|discriminate].
    inversion H; subst s1; clear H.
    apply bank_send_spec in Es. destruct Es as (Hf & (He1 & _) & _ & Hbal).
    split; [|rewrite He1; split; assumption].
    intros a d'. rewrite Hbal. unfold dlt. specialize (Hnb a d').
    destruct (Nat.eqb_spec a f) as [->|]; cbn [andb].
    + destruct (Nat.eqb_spec d' d) as [->|]; destruct (Nat.eqb f t); cbn [andb]; lia.
    + destruct (Nat.eqb a t && Nat.eqb d' d); lia.
  - destruct (valid_pairs ps); [|discriminate]. destruct (valid_toks ts); [|discriminate].
    inversion H; subst s'; clear H. exact Hnn.
  - destruct (Nat.leb (next s) c); [inversion H; subst; exact Hnn|].
    destruct (kind e c); [|discriminate].
    destruct (erc_approve (zacc e) (erc s c) o sp x) as [l|] eqn:Ea; [|discriminate].
    inversion H; subst s'; clear H. apply erc_approve_spec in Ea. destruct Ea as (_ & _ & Eb & Et & _).
    apply nonneg_set_erc; [exact Hnn|rewrite Eb; apply Hne|rewrite Et; apply Hnt].
  - destruct (Nat.leb (next s) c); [inversion H; subst; exact Hnn|]. pose proof (u256_range x).
    destruct (kind e c).
    + destruct (erc_transfer_from (zacc e) (erc s c) sp f t x) as [l|] eqn:Et; [|discriminate].
      inversion H; subst s'; clear H.
      apply erc_transfer_from_spec in Et. destruct Et as (_ & Hle & Htot & Hb & _).
      apply nonneg_set_erc; [exact Hnn| |rewrite Htot; apply Hnt].
      intros a. rewrite Hb. unfold dlt. specialize (Hne c a).
      destruct (Nat.eqb a t), (Nat.eqb_spec a f) as [->|]; lia.
    + destruct (rf_transfer_from (erc s c) sp f t x) as [l|] eqn:Et; [|discriminate].
      inversion H; subst s'; clear H. unfold rf_transfer_from in Et.
      destruct (eallow (erc s c) f sp <? u256 x); [discriminate|].
      destruct (Z.ltb_spec (ebal (erc s c) f) (u256 x)); [discriminate|].
      inversion Et; subst l; clear Et.
      apply nonneg_set_erc; [exact Hnn| |cbn [etot]; apply Hnt].
      intros a. cbn [ebal]. unfold upd. destruct (Nat.eqb a t); [apply u256_range|].
      specialize (Hne c a). destruct (Nat.eqb_spec a f) as [->|]; lia.
Qed.

Lemma run_nonneg e ops : forall s, nonneg s -> Forall (op_wf e) ops -> nonneg (run e s ops).
Proof.
  induction ops as [|o r IH]; intros s Hnn Hall; cbn [run fold_left]; [exact Hnn|].
  inversion Hall; subst. apply IH; [|assumption].
  unfold step'. destruct (step e s o) as [s' []| |] eqn:E; try exact Hnn.
  apply (step_nonneg e s o s' Hnn H1 E).
Qed.

(* for every enabled pair the coin supply, scaled, is covered by the tokens the
   module's EVM address holds (for a pair whose token emits Approval no coin exists) *)
Lemma evm_native_backed e ops s c d :
  env_wf e -> Inv e s -> nonneg s -> Forall (op_wf e) ops ->
  In (c, d) (pairs (run e s ops)) ->
  sup (run e s ops) d * (if is_bep3 e d then 10 ^ 10 else 1)
    <= ebal (erc (run e s ops) c) (macc e).
Proof.
  intros Hwf HI Hnn Hall Hin. pose proof (run_inv e ops s Hwf HI Hall) as HI'.
  destruct (on_table_in e _ c d HI' Hin) as [Hc ->].
  destruct HI' as (_ & _ & _ & _ & I5 & _ & I7 & _).
  destruct (kind e c) eqn:Hk.
  - exact (I5 c Hc Hk).
  - rewrite (I7 c Hc Hk). destruct (run_nonneg e ops s Hnn Hall) as (_ & Hne & _).
    specialize (Hne c (macc e)). lia.
Qed.

(* nobody holds an allowance over the tokens locked for an (OpenZeppelin) pair *)
Lemma no_allowance_over_locked_tokens e ops s c d a :
  env_wf e -> Inv e s -> Forall (op_wf e) ops ->
  In (c, d) (pairs (run e s ops)) -> kind e c = Oz ->
  eallow (erc (run e s ops) c) (macc e) a = 0.
Proof.
  intros Hwf HI Hall Hin Hk. pose proof (run_inv e ops s Hwf HI Hall) as HI'.
  destruct (on_table_in e _ c d HI' Hin) as [Hc _].
  destruct HI' as (_ & _ & _ & _ & _ & I6 & _). apply I6; assumption.
Qed.
