(* Lemmas and proofs about Model/Erc20.v and Model/Evmutil.v *)
From Kava Require Import Base.Prelude Model.Erc20 Model.Evmutil.

Local Open Scope Z_scope.

(** ** arithmetic *)
Lemma U256_pos : 0 < U256.
Proof. reflexivity. Qed.

Lemma K10_pos : 0 < K10.
Proof. reflexivity. Qed.

Lemma u256_range x : 0 <= u256 x < U256.
Proof. unfold u256. apply Z.mod_pos_bound. exact U256_pos. Qed.

Lemma u256_small x : 0 <= x < U256 -> u256 x = x.
Proof. intros H. unfold u256. apply Z.mod_small. exact H. Qed.

(* the only fixed point property the balance-delta checks need:
   if the wrapped amount equals the amount, the amount was in range *)
Lemma u256_eq_range x : u256 x = x -> 0 <= x < U256.
Proof. intros H. rewrite <- H. apply u256_range. Qed.

Lemma kf_pos e d : 0 < kf e d.
Proof. unfold kf. destruct (is_bep3 e d); [exact K10_pos | lia]. Qed.

Definition dlt (b : bool) (x : Z) : Z := if b then x else 0.

Ltac eqb_cases :=
  repeat match goal with
  | |- context [Nat.eqb ?a ?b] => destruct (Nat.eqb_spec a b); subst
  | H : context [Nat.eqb ?a ?b] |- _ => destruct (Nat.eqb_spec a b); subst
  end.

(** ** the ERC20 ledger: exact deltas *)
Lemma erc_transfer_spec l f t x l' : erc_transfer l f t x = Some l' ->
  u256 x <= ebal l f /\ etot l' = etot l /\
  forall a, ebal l' a = ebal l a - dlt (Nat.eqb a f) (u256 x) + dlt (Nat.eqb a t) (u256 x).
Proof.
  unfold erc_transfer. destruct (Z.leb_spec (u256 x) (ebal l f)) as [Hle|]; [|discriminate].
  intros H; inversion H; subst; clear H. cbn [ebal etot].
  split; [exact Hle|]. split; [reflexivity|].
  intros a. unfold upd, dlt. eqb_cases; try congruence; lia.
Qed.

Lemma erc_mint_spec l t x l' : erc_mint l t x = Some l' ->
  etot l + u256 x < U256 /\ etot l' = etot l + u256 x /\
  forall a, ebal l' a = ebal l a + dlt (Nat.eqb a t) (u256 x).
Proof.
  unfold erc_mint. destruct (Z.ltb_spec (etot l + u256 x) U256) as [Hlt|]; [|discriminate].
  intros H; inversion H; subst; clear H. cbn [ebal etot].
  split; [exact Hlt|]. split; [reflexivity|].
  intros a. unfold upd, dlt. eqb_cases; lia.
Qed.

Lemma erc_burn_spec l f x l' : erc_burn l f x = Some l' ->
  u256 x <= ebal l f /\ etot l' = etot l - u256 x /\
  forall a, ebal l' a = ebal l a - dlt (Nat.eqb a f) (u256 x).
Proof.
  unfold erc_burn. destruct (Z.leb_spec (u256 x) (ebal l f)) as [Hle|]; [|discriminate].
  intros H; inversion H; subst; clear H. cbn [ebal etot].
  split; [exact Hle|]. split; [reflexivity|].
  intros a. unfold upd, dlt. eqb_cases; lia.
Qed.

(** ** x/bank primitives: exact deltas *)
Definition same_evm (s s' : state) : Prop :=
  erc s' = erc s /\ reg s' = reg s /\ next s' = next s /\
  enabled s' = enabled s /\ allowed s' = allowed s.

Lemma same_evm_refl s : same_evm s s.
Proof. repeat split. Qed.

Lemma same_evm_trans s1 s2 s3 : same_evm s1 s2 -> same_evm s2 s3 -> same_evm s1 s3.
Proof. unfold same_evm. intros (?&?&?&?&?) (?&?&?&?&?). repeat split; congruence. Qed.

Lemma upd2_eq {A} (f : nat -> nat -> A) a d v x y :
  upd2 f a d v x y = if Nat.eqb x a && Nat.eqb y d then v else f x y.
Proof. reflexivity. Qed.

Lemma bank_send_spec s f t d x s' : bank_send s f t d x = Some s' ->
  (x = 0 \/ x <= bal s f d) /\ same_evm s s' /\ sup s' = sup s /\
  forall a d', bal s' a d' = bal s a d' - dlt (Nat.eqb a f && Nat.eqb d' d) x
                                        + dlt (Nat.eqb a t && Nat.eqb d' d) x.
Proof.
  unfold bank_send. destruct (Z.eqb_spec x 0) as [->|Hx].
  - intros H; inversion H; subst. split; [left; reflexivity|]. split; [apply same_evm_refl|].
    split; [reflexivity|]. intros a d'. unfold dlt. destruct (_ && _), (_ && _); lia.
  - destruct (Z.leb_spec x (bal s f d)) as [Hle|]; [|discriminate].
    intros H; inversion H; subst; clear H. cbn [set_bal bal sup].
    split; [right; exact Hle|]. split; [repeat split|]. split; [reflexivity|].
    intros a d'. rewrite !upd2_eq. unfold dlt.
    eqb_cases; cbn [andb]; rewrite ?Nat.eqb_refl; cbn [andb]; try lia;
      eqb_cases; cbn [andb]; try congruence; try lia.
Qed.

Lemma bank_mint_spec e s d x :
  same_evm s (bank_mint e s d x) /\
  (forall d', sup (bank_mint e s d x) d' = sup s d' + dlt (Nat.eqb d' d) x) /\
  forall a d', bal (bank_mint e s d x) a d' = bal s a d' + dlt (Nat.eqb a (macc e) && Nat.eqb d' d) x.
Proof.
  unfold bank_mint. cbn [set_sup set_bal bal sup erc reg next enabled allowed].
  split; [repeat split|]. split.
  - intros d'. unfold upd, dlt. eqb_cases; lia.
  - intros a d'. rewrite upd2_eq. unfold dlt. eqb_cases; cbn [andb]; lia.
Qed.

Lemma bank_burn_spec e s d x s' : bank_burn e s d x = Some s' ->
  (x = 0 \/ x <= bal s (macc e) d) /\ same_evm s s' /\
  (forall d', sup s' d' = sup s d' - dlt (Nat.eqb d' d) x) /\
  forall a d', bal s' a d' = bal s a d' - dlt (Nat.eqb a (macc e) && Nat.eqb d' d) x.
Proof.
  unfold bank_burn. destruct (Z.eqb_spec x 0) as [->|Hx].
  - intros H; inversion H; subst. split; [left; reflexivity|]. split; [apply same_evm_refl|].
    split; intros; unfold dlt; [destruct (Nat.eqb _ _)|destruct (_ && _)]; lia.
  - destruct (Z.leb_spec x (bal s (macc e) d)) as [Hle|]; [|discriminate].
    intros H; inversion H; subst; clear H.
    cbn [set_sup set_bal bal sup erc reg next enabled allowed].
    split; [right; exact Hle|]. split; [repeat split|]. split.
    + intros d'. unfold upd, dlt. eqb_cases; lia.
    + intros a d'. rewrite upd2_eq. unfold dlt. eqb_cases; cbn [andb]; lia.
Qed.

Lemma send_mod_to_acc_spec e s t d x s' : send_mod_to_acc e s t d x = Some s' ->
  blocked e t = false /\ bank_send s (macc e) t d x = Some s'.
Proof. unfold send_mod_to_acc. destruct (blocked e t); [discriminate|]. auto. Qed.

(** ** the four conversions: exact effect of a successful call *)

(* the ledger of the wrapper of cosmos denom d (empty while not deployed) *)
Definition wl (s : state) (d : nat) : ledger :=
  match reg s d with Some c => erc s c | None => empty_ledger end.

Definition same_params (s s' : state) : Prop :=
  enabled s' = enabled s /\ allowed s' = allowed s.

Lemma pair_of_denom_some e s d c : pair_of_denom e s d = Some c ->
  (c < npair e)%nat /\ enabled s c = true /\ pair_denom e c = d.
Proof.
  unfold pair_of_denom. intros H. apply find_some in H. destruct H as [Hin Hb].
  apply in_seq in Hin. apply andb_prop in Hb. destruct Hb as [He Hd].
  apply Nat.eqb_eq in Hd. repeat split; [lia|exact He|exact Hd].
Qed.

(* ConvertERC20ToCoin *)
Lemma conv_erc20_to_coin_spec e s i r c x s' :
  conv_erc20_to_coin e s i r c x = Ok s' tt ->
  let d := pair_denom e c in
  let mint := if is_bep3 e d then x / K10 else x in
  let lock := mint * kf e d in
  (c < npair e)%nat /\ enabled s c = true /\ blocked e r = false /\
  (is_bep3 e d = true -> mint <> 0) /\
  0 <= lock < U256 /\ lock <= ebal (erc s c) i /\
  (forall a, ebal (erc s' c) a = ebal (erc s c) a - dlt (Nat.eqb a i) lock + dlt (Nat.eqb a (macc e)) lock) /\
  etot (erc s' c) = etot (erc s c) /\
  (forall c', c' <> c -> erc s' c' = erc s c') /\
  (forall a d', bal s' a d' = bal s a d' + dlt (Nat.eqb a r && Nat.eqb d' d) mint) /\
  (forall d', sup s' d' = sup s d' + dlt (Nat.eqb d' d) mint) /\
  reg s' = reg s /\ next s' = next s /\ same_params s s'.
Proof.
  intros H d mint lock. unfold conv_erc20_to_coin, pair_enabled in H.
  destruct (Nat.ltb_spec c (npair e)) as [Hc|]; [|discriminate].
  destruct (enabled s c) eqn:Hen; [|discriminate]. cbn [andb negb] in H.
  fold d in H.
  assert (Hlock : (if is_bep3 e d then x / K10 * K10 else x) = lock).
  { unfold lock, mint, kf. destruct (is_bep3 e d); lia. }
  rewrite Hlock in H. fold mint in H.
  destruct (is_bep3 e d && (mint =? 0)) eqn:Hz; [discriminate|].
  destruct (erc_transfer (erc s c) i (macc e) lock) as [l1|] eqn:Et; [|discriminate].
  apply erc_transfer_spec in Et. destruct Et as (Hle & Htot & Hb).
  destruct (Z.eqb_spec (ebal (erc s c) i - lock) (ebal l1 i)) as [Hd|]; [|discriminate].
  cbn [negb] in H.
  destruct (send_mod_to_acc e _ r d mint) as [s3|] eqn:Es; [|discriminate].
  inversion H; subst s3; clear H.
  apply send_mod_to_acc_spec in Es. destruct Es as (Hblk & Es).
  apply bank_send_spec in Es. destruct Es as (_ & Hev & Hsup & Hbal).
  destruct (bank_mint_spec e (set_erc s c l1) d mint) as (Hev2 & Hsup2 & Hbal2).
  destruct Hev as (He1 & He2 & He3 & He4 & He5). destruct Hev2 as (Hf1 & Hf2 & Hf3 & Hf4 & Hf5).
  cbn [set_erc erc reg next enabled allowed bal sup] in *.
  (* the balance-delta check forces the wrapped amount to be the amount *)
  assert (Hu : u256 lock = lock).
  { rewrite Hb in Hd. rewrite Nat.eqb_refl in Hd. unfold dlt in Hd.
    destruct (Nat.eqb_spec i (macc e)) as [->|].
    - assert (lock = 0) by lia. replace lock with 0 by lia. reflexivity.
    - lia. }
  rewrite Hu in *.
  split; [exact Hc|]. split; [reflexivity|]. split; [exact Hblk|].
  split. { intros Hbep. rewrite Hbep in Hz. cbn [andb] in Hz. apply Z.eqb_neq. exact Hz. }
  split. { apply u256_eq_range. exact Hu. }
  split; [exact Hle|].
  split. { intros a. rewrite He1, Hf1. unfold upd. rewrite Nat.eqb_refl. apply Hb. }
  split. { rewrite He1, Hf1. unfold upd. rewrite Nat.eqb_refl. exact Htot. }
  split. { intros c' Hne. rewrite He1, Hf1. unfold upd. destruct (Nat.eqb_spec c' c); [congruence|reflexivity]. }
  split. { intros a d'. rewrite Hbal, Hbal2. unfold dlt. destruct (Nat.eqb a (macc e) && Nat.eqb d' d); lia. }
  split. { intros d'. rewrite Hsup, Hsup2. reflexivity. }
  split; [congruence|]. split; [congruence|]. split; congruence.
Qed.

(* ConvertCoinToERC20 *)
Lemma conv_coin_to_erc20_spec e s i r d x s' :
  conv_coin_to_erc20 e s i r d x = Ok s' tt -> i <> macc e ->
  exists c, pair_of_denom e s d = Some c /\
  let unlock := x * kf e d in
  (x = 0 \/ x <= bal s i d) /\
  0 <= unlock < U256 /\ unlock <= ebal (erc s c) (macc e) /\
  (forall a, ebal (erc s' c) a = ebal (erc s c) a - dlt (Nat.eqb a (macc e)) unlock + dlt (Nat.eqb a r) unlock) /\
  etot (erc s' c) = etot (erc s c) /\
  (forall c', c' <> c -> erc s' c' = erc s c') /\
  (forall a d', bal s' a d' = bal s a d' - dlt (Nat.eqb a i && Nat.eqb d' d) x) /\
  (forall d', sup s' d' = sup s d' - dlt (Nat.eqb d' d) x) /\
  reg s' = reg s /\ next s' = next s /\ same_params s s'.
Proof.
  intros H Hi. unfold conv_coin_to_erc20 in H.
  destruct (pair_of_denom e s d) as [c|] eqn:Ep; [|discriminate].
  exists c. split; [reflexivity|]. intros unlock.
  destruct (bank_send s i (macc e) d x) as [s1|] eqn:E1; [|discriminate].
  destruct (bank_burn e s1 d x) as [s2|] eqn:E2; [|discriminate].
  assert (Hun : (if is_bep3 e d then x * K10 else x) = unlock).
  { unfold unlock, kf. destruct (is_bep3 e d); lia. }
  rewrite Hun in H.
  destruct (erc_transfer (erc s2 c) (macc e) r unlock) as [l1|] eqn:Et; [|discriminate].
  destruct (Z.eqb_spec (ebal (erc s2 c) r + unlock) (ebal l1 r)) as [Hd|]; [|discriminate].
  inversion H; subst s'; clear H.
  apply bank_send_spec in E1. destruct E1 as (Hfunds & (He1 & He2 & He3 & He4 & He5) & Hsup1 & Hbal1).
  apply bank_burn_spec in E2. destruct E2 as (_ & (Hf1 & Hf2 & Hf3 & Hf4 & Hf5) & Hsup2 & Hbal2).
  apply erc_transfer_spec in Et. destruct Et as (Hle & Htot & Hb).
  assert (Herc : erc s2 c = erc s c) by (rewrite Hf1, He1; reflexivity).
  rewrite Herc in *.
  assert (Hu : u256 unlock = unlock).
  { rewrite Hb in Hd. rewrite Nat.eqb_refl in Hd. unfold dlt in Hd.
    destruct (Nat.eqb_spec r (macc e)) as [->|].
    - assert (unlock = 0) by lia. replace unlock with 0 by lia. reflexivity.
    - lia. }
  rewrite Hu in *.
  cbn [set_erc erc reg next enabled allowed bal sup].
  split; [exact Hfunds|].
  split. { apply u256_eq_range. exact Hu. }
  split; [exact Hle|].
  split. { intros a. unfold upd. rewrite Nat.eqb_refl. apply Hb. }
  split. { unfold upd. rewrite Nat.eqb_refl. exact Htot. }
  split. { intros c' Hne. unfold upd. destruct (Nat.eqb_spec c' c); [congruence|]. rewrite Hf1, He1. reflexivity. }
  split. { intros a d'. rewrite Hbal2, Hbal1. unfold dlt.
           destruct (Nat.eqb_spec a i) as [->|]; cbn [andb].
           - destruct (Nat.eqb_spec i (macc e)); [congruence|]. cbn [andb]. lia.
           - destruct (Nat.eqb a (macc e) && Nat.eqb d' d); lia. }
  split. { intros d'. rewrite Hsup2, Hsup1. reflexivity. }
  split; [congruence|]. split; [congruence|].
  unfold same_params; cbn [set_erc enabled allowed]; split; congruence.
Qed.

(* ConvertCosmosCoinToERC20 *)
Lemma conv_cosmos_to_erc20_spec e s i r d x s' :
  conv_cosmos_to_erc20 e s i r d x = Ok s' tt -> 0 <= x < U256 ->
  allowed s d = true /\ (x = 0 \/ x <= bal s i d) /\
  exists c, reg s' d = Some c /\
    ((reg s d = Some c /\ reg s' = reg s /\ next s' = next s) \/
     (reg s d = None /\ c = next s /\ reg s' = upd (reg s) d (Some c) /\ next s' = S (next s))) /\
    etot (wl s d) + x < U256 /\
    (forall a, ebal (erc s' c) a = ebal (wl s d) a + dlt (Nat.eqb a r) x) /\
    etot (erc s' c) = etot (wl s d) + x /\
    (forall c', c' <> c -> erc s' c' = erc s c') /\
    (forall a d', bal s' a d' = bal s a d' - dlt (Nat.eqb a i && Nat.eqb d' d) x
                                          + dlt (Nat.eqb a (macc e) && Nat.eqb d' d) x) /\
    sup s' = sup s /\ same_params s s'.
Proof.
  intros H Hx. unfold conv_cosmos_to_erc20 in H.
  destruct (allowed s d) eqn:Hal; [|discriminate]. cbn [negb] in H.
  destruct (bank_send s i (macc e) d x) as [s1|] eqn:E1; [|discriminate].
  apply bank_send_spec in E1. destruct E1 as (Hfunds & (He1 & He2 & He3 & He4 & He5) & Hsup1 & Hbal1).
  split; [reflexivity|]. split; [exact Hfunds|].
  rewrite He2 in H. unfold wl.
  destruct (reg s d) as [c|] eqn:Er.
  - (* already deployed *)
    destruct (erc_mint (erc s1 c) r x) as [l1|] eqn:Em; [|discriminate].
    inversion H; subst s'; clear H.
    apply erc_mint_spec in Em. rewrite (u256_small x Hx) in Em. destruct Em as (Hlt & Htot & Hb).
    rewrite He1 in *.
    exists c. cbn [set_erc erc reg next enabled allowed bal sup].
    split; [congruence|]. split; [left; repeat split; congruence|].
    split; [exact Hlt|].
    split. { intros a. unfold upd. rewrite Nat.eqb_refl. apply Hb. }
    split. { unfold upd. rewrite Nat.eqb_refl. exact Htot. }
    split. { intros c' Hne. unfold upd. destruct (Nat.eqb_spec c' c); [congruence|]. rewrite He1. reflexivity. }
    split; [exact Hbal1|]. split; [exact Hsup1|]. unfold same_params; cbn [set_erc enabled allowed]; split; congruence.
  - (* first use: deploy and register *)
    unfold deploy in H. cbn [erc next] in H.
    unfold upd at 1 in H. rewrite Nat.eqb_refl in H.
    destruct (erc_mint empty_ledger r x) as [l1|] eqn:Em; [|discriminate].
    inversion H; subst s'; clear H.
    apply erc_mint_spec in Em. rewrite (u256_small x Hx) in Em. destruct Em as (Hlt & Htot & Hb).
    exists (next s). cbn [set_erc erc reg next enabled allowed bal sup].
    rewrite He3 in *.
    split. { unfold upd. rewrite Nat.eqb_refl. reflexivity. }
    split. { right. repeat split; congruence. }
    split; [exact Hlt|].
    split. { intros a. unfold upd. rewrite Nat.eqb_refl. apply Hb. }
    split. { unfold upd. rewrite Nat.eqb_refl. exact Htot. }
    split. { intros c' Hne. unfold upd. destruct (Nat.eqb_spec c' (next s)); [congruence|]. rewrite He1. reflexivity. }
    split; [exact Hbal1|]. split; [exact Hsup1|]. unfold same_params; cbn [set_erc enabled allowed]; split; congruence.
Qed.

(* ConvertCosmosCoinFromERC20 *)
Lemma conv_cosmos_from_erc20_spec e s i r d x s' :
  conv_cosmos_from_erc20 e s i r d x = Ok s' tt -> 0 <= x < U256 ->
  exists c, reg s d = Some c /\ blocked e r = false /\ x <= ebal (erc s c) i /\
    (x = 0 \/ x <= bal s (macc e) d) /\
    (forall a, ebal (erc s' c) a = ebal (erc s c) a - dlt (Nat.eqb a i) x) /\
    etot (erc s' c) = etot (erc s c) - x /\
    (forall c', c' <> c -> erc s' c' = erc s c') /\
    (forall a d', bal s' a d' = bal s a d' - dlt (Nat.eqb a (macc e) && Nat.eqb d' d) x
                                          + dlt (Nat.eqb a r && Nat.eqb d' d) x) /\
    sup s' = sup s /\ reg s' = reg s /\ next s' = next s /\ same_params s s'.
Proof.
  intros H Hx. unfold conv_cosmos_from_erc20 in H.
  destruct (reg s d) as [c|] eqn:Er; [|discriminate].
  destruct (Z.ltb_spec (ebal (erc s c) i) x) as [|Hge]; [discriminate|].
  destruct (erc_burn (erc s c) i x) as [l1|] eqn:Eb; [|discriminate].
  destruct (send_mod_to_acc e (set_erc s c l1) r d x) as [s2|] eqn:Es; [|discriminate].
  inversion H; subst s2; clear H.
  apply erc_burn_spec in Eb. rewrite (u256_small x Hx) in Eb. destruct Eb as (_ & Htot & Hb).
  apply send_mod_to_acc_spec in Es. destruct Es as (Hblk & Es).
  apply bank_send_spec in Es. destruct Es as (Hfunds & (He1 & He2 & He3 & He4 & He5) & Hsup & Hbal).
  cbn [set_erc erc reg next enabled allowed bal sup] in *.
  exists c. split; [reflexivity|]. split; [exact Hblk|]. split; [exact Hge|]. split; [exact Hfunds|].
  split. { intros a. rewrite He1. unfold upd. rewrite Nat.eqb_refl. apply Hb. }
  split. { rewrite He1. unfold upd. rewrite Nat.eqb_refl. exact Htot. }
  split. { intros c' Hne. rewrite He1. unfold upd. destruct (Nat.eqb_spec c' c); [congruence|reflexivity]. }
  split; [exact Hbal|]. split; [exact Hsup|]. split; [exact He2|]. split; [exact He3|]. unfold same_params; split; congruence.
Qed.

(** ** the module invariant *)

Definition env_wf (e : env) : Prop :=
  blocked e (macc e) = true /\
  forall c c', (c < npair e)%nat -> (c' < npair e)%nat ->
               pair_denom e c = pair_denom e c' -> c = c'.

Definition Inv (e : env) (s : state) : Prop :=
  (npair e <= next s)%nat /\
  (forall d c, reg s d = Some c -> (npair e <= c < next s)%nat) /\
  (forall d d' c, reg s d = Some c -> reg s d' = Some c -> d = d') /\
  (* cosmos-native coins: module account balance = total supply of the wrapper
     (0 for a denom without a wrapper) *)
  (forall d, bal s (macc e) d = etot (wl s d)) /\
  (* EVM-native pairs of the universe: coin supply, scaled, is covered by the
     tokens held by the module's EVM address *)
  (forall c, (c < npair e)%nat ->
     sup s (pair_denom e c) * kf e (pair_denom e c) <= ebal (erc s c) (macc e)).

Definition op_wf (e : env) (o : op) : Prop := signer o <> Some (macc e).

(* the invariant only reads: next, reg, the ledgers, the module's bank balances, the supplies *)
Lemma inv_ext e s s' : Inv e s ->
  next s' = next s -> reg s' = reg s -> erc s' = erc s ->
  (forall d, bal s' (macc e) d = bal s (macc e) d) -> (forall d, sup s' d = sup s d) ->
  Inv e s'.
Proof.
  intros (I1 & I2 & I3 & I4 & I5) Hn Hr He Hb Hs. unfold Inv, wl. rewrite Hn, Hr, He.
  repeat split; try assumption.
  - apply (I2 d c H).
  - apply (I2 d c H).
  - intros d. rewrite Hb. apply I4.
  - intros c Hc. rewrite Hs. apply I5. exact Hc.
Qed.

(* replacing the ledger of one contract: the total of a wrapper must not change,
   the module's holding of a pair token must not shrink *)
Lemma inv_set_erc e s c l : Inv e s ->
  ((npair e <= c)%nat -> etot l = etot (erc s c)) ->
  ((c < npair e)%nat -> ebal (erc s c) (macc e) <= ebal l (macc e)) ->
  Inv e (set_erc s c l).
Proof.
  intros (I1 & I2 & I3 & I4 & I5) Ht Hb. unfold Inv, wl. cbn [set_erc next reg erc bal sup].
  repeat split; try assumption.
  - apply (I2 d c0 H).
  - apply (I2 d c0 H).
  - intros d. rewrite I4. unfold wl. destruct (reg s d) as [c0|] eqn:Er; [|reflexivity].
    unfold upd. destruct (Nat.eqb_spec c0 c) as [->|]; [|reflexivity].
    symmetry. apply Ht. apply (I2 d c Er).
  - intros c0 Hc0. unfold upd. destruct (Nat.eqb_spec c0 c) as [->|].
    + specialize (I5 c Hc0). specialize (Hb Hc0). lia.
    + apply I5. exact Hc0.
Qed.

Lemma wl_frame e s s' d : Inv e s -> reg s' = reg s ->
  (forall c0, (npair e <= c0)%nat -> erc s' c0 = erc s c0) -> wl s' d = wl s d.
Proof.
  intros (I1 & I2 & _) Hr He. unfold wl. rewrite Hr.
  destruct (reg s d) as [c0|] eqn:Er; [|reflexivity]. apply He. apply (I2 d c0 Er).
Qed.

Lemma blocked_not_module e r : env_wf e -> blocked e r = false -> r <> macc e.
Proof. intros [Hm _] Hr ->. congruence. Qed.

Lemma inv_conv_erc20_to_coin e s i r c x s' :
  env_wf e -> Inv e s -> i <> macc e ->
  conv_erc20_to_coin e s i r c x = Ok s' tt -> Inv e s'.
Proof.
  intros Hwf HI Hi H. pose proof HI as (I1 & I2 & I3 & I4 & I5).
  apply conv_erc20_to_coin_spec in H. cbv zeta in H.
  destruct H as (Hc & Hen & Hblk & _ & Hlk & Hle & Hb & Htot & Hoth & Hbal & Hsup & Hr & Hn & _).
  pose proof (blocked_not_module e r Hwf Hblk) as Hrm.
  assert (Hframe : forall c0, (npair e <= c0)%nat -> erc s' c0 = erc s c0).
  { intros c0 Hc0. apply Hoth. lia. }
  unfold Inv. rewrite Hn, Hr.
  split; [exact I1|]. split; [exact I2|]. split; [exact I3|]. split.
  - intros d. rewrite (wl_frame e s s' d HI Hr Hframe), Hbal, <- I4. unfold dlt.
    destruct (Nat.eqb_spec (macc e) r); [congruence|]. cbn [andb]. lia.
  - intros c0 Hc0. rewrite Hsup. destruct (Nat.eqb_spec c0 c) as [->|Hne].
    + rewrite Nat.eqb_refl, Hb. unfold dlt at 1. rewrite Nat.eqb_refl.
      destruct (Nat.eqb_spec (macc e) i); [congruence|]. unfold dlt.
      specialize (I5 c Hc). lia.
    + rewrite (Hoth c0 Hne). destruct (Nat.eqb_spec (pair_denom e c0) (pair_denom e c)) as [Heq|].
      * exfalso. apply Hne. destruct Hwf as [_ Hinj]. apply Hinj; assumption.
      * unfold dlt. rewrite Z.add_0_r. apply I5. exact Hc0.
Qed.

Lemma inv_conv_coin_to_erc20 e s i r d x s' :
  env_wf e -> Inv e s -> i <> macc e -> 0 <= x ->
  conv_coin_to_erc20 e s i r d x = Ok s' tt -> Inv e s'.
Proof.
  intros Hwf HI Hi Hx H. pose proof HI as (I1 & I2 & I3 & I4 & I5).
  apply conv_coin_to_erc20_spec in H; [|exact Hi]. destruct H as (c & Hp & H). cbv zeta in H.
  apply pair_of_denom_some in Hp. destruct Hp as (Hc & Hen & Hd). subst d.
  destruct H as (_ & Hun & Hle & Hb & Htot & Hoth & Hbal & Hsup & Hr & Hn & _).
  assert (Hframe : forall c0, (npair e <= c0)%nat -> erc s' c0 = erc s c0).
  { intros c0 Hc0. apply Hoth. lia. }
  unfold Inv. rewrite Hn, Hr.
  split; [exact I1|]. split; [exact I2|]. split; [exact I3|]. split.
  - intros d. rewrite (wl_frame e s s' d HI Hr Hframe), Hbal, <- I4. unfold dlt.
    destruct (Nat.eqb_spec (macc e) i); [congruence|]. cbn [andb]. lia.
  - intros c0 Hc0. rewrite Hsup. destruct (Nat.eqb_spec c0 c) as [->|Hne].
    + rewrite Nat.eqb_refl, Hb. rewrite Nat.eqb_refl. unfold dlt at 1 2.
      specialize (I5 c Hc). unfold dlt. destruct (Nat.eqb (macc e) r); lia.
    + rewrite (Hoth c0 Hne). destruct (Nat.eqb_spec (pair_denom e c0) (pair_denom e c)) as [Heq|].
      * exfalso. apply Hne. destruct Hwf as [_ Hinj]. apply Hinj; assumption.
      * unfold dlt. rewrite Z.sub_0_r. apply I5. exact Hc0.
Qed.

Lemma inv_conv_cosmos_to_erc20 e s i r d x s' :
  env_wf e -> Inv e s -> i <> macc e -> 0 <= x < U256 ->
  conv_cosmos_to_erc20 e s i r d x = Ok s' tt -> Inv e s'.
Proof.
  intros Hwf HI Hi Hx H. pose proof HI as (I1 & I2 & I3 & I4 & I5).
  apply conv_cosmos_to_erc20_spec in H; [|exact Hx].
  destruct H as (_ & _ & c & Hrc & Hcase & _ & _ & Htot & Hoth & Hbal & Hsup & _).
  assert (HbalM : forall d', bal s' (macc e) d' = bal s (macc e) d' + dlt (Nat.eqb d' d) x).
  { intros d'. rewrite Hbal. rewrite Nat.eqb_refl. unfold dlt.
    destruct (Nat.eqb_spec (macc e) i); [congruence|]. cbn [andb]. lia. }
  destruct Hcase as [(Er & Hr & Hn) | (Er & -> & Hr & Hn)].
  - (* existing wrapper *)
    pose proof (I2 d c Er) as Hcr.
    unfold Inv. rewrite Hn, Hr.
    split; [exact I1|]. split; [exact I2|]. split; [exact I3|]. split.
    + intros d'. rewrite HbalM. unfold wl at 1. rewrite Hr.
      destruct (Nat.eqb_spec d' d) as [->|Hne].
      * rewrite Er, Htot, I4. unfold dlt. lia.
      * rewrite I4. unfold wl, dlt. destruct (reg s d') as [c'|] eqn:Er'; [|lia].
        rewrite Hoth; [lia|]. intros ->. apply Hne. apply (I3 d' d c Er' Er).
    + intros c0 Hc0. rewrite Hsup, Hoth; [apply I5; exact Hc0|lia].
  - (* first use: fresh contract next s *)
    unfold Inv. rewrite Hn, Hr.
    split; [lia|]. split; [|split; [|split]].
    + intros d' c'. unfold upd. destruct (Nat.eqb_spec d' d) as [->|].
      * intros E; inversion E; subst. lia.
      * intros E. specialize (I2 d' c' E). lia.
    + intros d1 d2 c'. unfold upd.
      destruct (Nat.eqb_spec d1 d) as [->|], (Nat.eqb_spec d2 d) as [->|]; intros E1 E2; try reflexivity.
      * inversion E1; subst. specialize (I2 d2 (next s) E2). lia.
      * inversion E2; subst. specialize (I2 d1 (next s) E1). lia.
      * apply (I3 d1 d2 c' E1 E2).
    + intros d'. rewrite HbalM. unfold wl at 1. rewrite Hr. unfold upd.
      destruct (Nat.eqb_spec d' d) as [->|Hne].
      * rewrite Htot, I4. unfold dlt. lia.
      * rewrite I4. unfold wl, dlt. destruct (reg s d') as [c'|] eqn:Er'; [|lia].
        rewrite Hoth; [lia|]. specialize (I2 d' c' Er'). lia.
    + intros c0 Hc0. rewrite Hsup, Hoth; [apply I5; exact Hc0|lia].
Qed.

Lemma inv_conv_cosmos_from_erc20 e s i r d x s' :
  env_wf e -> Inv e s -> 0 <= x < U256 ->
  conv_cosmos_from_erc20 e s i r d x = Ok s' tt -> Inv e s'.
Proof.
  intros Hwf HI Hx H. pose proof HI as (I1 & I2 & I3 & I4 & I5).
  apply conv_cosmos_from_erc20_spec in H; [|exact Hx].
  destruct H as (c & Er & Hblk & _ & _ & _ & Htot & Hoth & Hbal & Hsup & Hr & Hn & _).
  pose proof (blocked_not_module e r Hwf Hblk) as Hrm.
  pose proof (I2 d c Er) as Hcr.
  unfold Inv. rewrite Hn, Hr.
  split; [exact I1|]. split; [exact I2|]. split; [exact I3|]. split.
  - intros d'. rewrite Hbal. rewrite Nat.eqb_refl. unfold wl at 1. rewrite Hr.
    destruct (Nat.eqb_spec (macc e) r); [congruence|]. cbn [andb]. unfold dlt at 2.
    destruct (Nat.eqb_spec d' d) as [->|Hne]; unfold dlt.
    + rewrite Er, Htot, I4. unfold wl. rewrite Er. lia.
    + rewrite I4. unfold wl. destruct (reg s d') as [c'|] eqn:Er'; [|lia].
      rewrite Hoth; [lia|]. intros ->. apply Hne. apply (I3 d' d c Er' Er).
  - intros c0 Hc0. rewrite Hsup, Hoth; [apply I5; exact Hc0|lia].
Qed.

Lemma amount_ok_range dr x : amount_ok dr x = true -> 0 <= x < U256.
Proof.
  unfold amount_ok. intros H. apply andb_prop in H. destruct H as [H1 H2].
  apply Z.ltb_lt in H2. destruct dr; [apply Z.leb_le in H1|apply Z.ltb_lt in H1]; lia.
Qed.

Lemma step_inv e s o s' : env_wf e -> Inv e s -> op_wf e o ->
  step e s o = Ok s' tt -> Inv e s'.
Proof.
  intros Hwf HI Hs H. unfold op_wf in Hs.
  destruct o as [dr i r d x|dr i r c x|dr i r d x|dr i r d x|c f t x|c t x|f t d x|en al];
    cbn [step signer] in H, Hs.
  - destruct (amount_ok dr x) eqn:Ea; [|discriminate]. apply amount_ok_range in Ea.
    apply (inv_conv_coin_to_erc20 e s i r d x s' Hwf HI); [congruence|lia|exact H].
  - destruct (amount_ok dr x) eqn:Ea; [|discriminate].
    apply (inv_conv_erc20_to_coin e s i r c x s' Hwf HI); [congruence|exact H].
  - destruct (amount_ok dr x) eqn:Ea; [|discriminate]. apply amount_ok_range in Ea.
    apply (inv_conv_cosmos_to_erc20 e s i r d x s' Hwf HI); [congruence|exact Ea|exact H].
  - destruct (amount_ok dr x) eqn:Ea; [|discriminate]. apply amount_ok_range in Ea.
    apply (inv_conv_cosmos_from_erc20 e s i r d x s' Hwf HI Ea H).
  - (* ERC20 transfer by a holder other than the module *)
    destruct (Nat.leb (next s) c); [inversion H; subst; exact HI|].
    destruct (erc_transfer (erc s c) f t x) as [l|] eqn:Et; [|discriminate].
    inversion H; subst s'; clear H.
    apply erc_transfer_spec in Et. destruct Et as (_ & Htot & Hb).
    apply inv_set_erc; [exact HI|intros _; exact Htot|].
    intros _. rewrite Hb. unfold dlt. destruct (Nat.eqb_spec (macc e) f); [congruence|].
    pose proof (u256_range x). destruct (Nat.eqb (macc e) t); lia.
  - (* minting of an EVM-native token by its owner *)
    destruct (Nat.leb (next s) c); [inversion H; subst; exact HI|].
    destruct (Nat.ltb_spec c (npair e)) as [Hc|]; [|discriminate]. cbn [negb] in H.
    destruct (erc_mint (erc s c) t x) as [l|] eqn:Em; [|discriminate].
    inversion H; subst s'; clear H.
    apply erc_mint_spec in Em. destruct Em as (_ & _ & Hb).
    apply inv_set_erc; [exact HI|lia|].
    intros _. rewrite Hb. unfold dlt. pose proof (u256_range x). destruct (Nat.eqb (macc e) t); lia.
  - (* bank MsgSend: the module account is a blocked recipient and cannot sign *)
    destruct (x <=? 0); [discriminate|].
    destruct (blocked e t) eqn:Hblk; [discriminate|].
    destruct (bank_send s f t d x) as [s1|] eqn:Es; [|discriminate].
    inversion H; subst s1; clear H.
    apply bank_send_spec in Es. destruct Es as (_ & (He1 & He2 & He3 & _) & Hsup & Hbal).
    pose proof (blocked_not_module e t Hwf Hblk) as Htm.
    apply (inv_ext e s s' HI He3 He2 He1).
    + intros d'. rewrite Hbal. unfold dlt.
      destruct (Nat.eqb_spec (macc e) f); [congruence|].
      destruct (Nat.eqb_spec (macc e) t); [congruence|]. cbn [andb]. lia.
    + intros d'. rewrite Hsup. reflexivity.
  - (* parameter change *)
    inversion H; subst s'; clear H.
    apply (inv_ext e s _ HI); reflexivity.
Qed.

Lemma step'_inv e s o : env_wf e -> Inv e s -> op_wf e o -> Inv e (step' e s o).
Proof.
  intros Hwf HI Hs. unfold step'. destruct (step e s o) as [s' []| |] eqn:E; try exact HI.
  apply (step_inv e s o s' Hwf HI Hs E).
Qed.

Lemma run_inv e ops : forall s, env_wf e -> Inv e s -> Forall (op_wf e) ops -> Inv e (run e s ops).
Proof.
  induction ops as [|o r IH]; intros s Hwf HI Hall; cbn [run fold_left]; [exact HI|].
  inversion Hall; subst. apply IH; [exact Hwf| |assumption].
  apply step'_inv; assumption.
Qed.

(** ** the two backing statements, as consequences of the invariant *)
Lemma cosmos_native_backed e ops s d c :
  env_wf e -> Inv e s -> Forall (op_wf e) ops ->
  reg (run e s ops) d = Some c ->
  etot (erc (run e s ops) c) = bal (run e s ops) (macc e) d.
Proof.
  intros Hwf HI Hall Er. destruct (run_inv e ops s Hwf HI Hall) as (_ & _ & _ & I4 & _).
  rewrite I4. unfold wl. rewrite Er. reflexivity.
Qed.

Lemma evm_native_backed e ops s c :
  env_wf e -> Inv e s -> Forall (op_wf e) ops ->
  pair_enabled e (run e s ops) c = true ->
  sup (run e s ops) (pair_denom e c) * (if is_bep3 e (pair_denom e c) then 10 ^ 10 else 1)
    <= ebal (erc (run e s ops) c) (macc e).
Proof.
  intros Hwf HI Hall Hen. destruct (run_inv e ops s Hwf HI Hall) as (_ & _ & _ & _ & I5).
  unfold pair_enabled in Hen. apply andb_prop in Hen. destruct Hen as [Hc _].
  apply Nat.ltb_lt in Hc. exact (I5 c Hc).
Qed.

(** ** when a conversion succeeds (converse of the specs; used for the round trips) *)

Lemma bank_send_ok s f t d x : x = 0 \/ x <= bal s f d -> exists s', bank_send s f t d x = Some s'.
Proof.
  intros H. unfold bank_send. destruct (Z.eqb_spec x 0); [eexists; reflexivity|].
  destruct (Z.leb_spec x (bal s f d)); [eexists; reflexivity|]. lia.
Qed.

Lemma bank_burn_ok e s d x : x = 0 \/ x <= bal s (macc e) d -> exists s', bank_burn e s d x = Some s'.
Proof.
  intros H. unfold bank_burn. destruct (Z.eqb_spec x 0); [eexists; reflexivity|].
  destruct (Z.leb_spec x (bal s (macc e) d)); [eexists; reflexivity|]. lia.
Qed.

Lemma erc_transfer_ok l f t x : u256 x <= ebal l f -> exists l', erc_transfer l f t x = Some l'.
Proof.
  intros H. unfold erc_transfer. destruct (Z.leb_spec (u256 x) (ebal l f)); [eexists; reflexivity|lia].
Qed.

Lemma erc_burn_ok l f x : u256 x <= ebal l f -> exists l', erc_burn l f x = Some l'.
Proof.
  intros H. unfold erc_burn. destruct (Z.leb_spec (u256 x) (ebal l f)); [eexists; reflexivity|lia].
Qed.

Lemma erc_mint_ok l t x : etot l + u256 x < U256 -> exists l', erc_mint l t x = Some l'.
Proof.
  intros H. unfold erc_mint. destruct (Z.ltb_spec (etot l + u256 x) U256); [eexists; reflexivity|lia].
Qed.

Lemma conv_cosmos_from_erc20_ok e s i r d x c :
  reg s d = Some c -> blocked e r = false -> 0 <= x < U256 ->
  x <= ebal (erc s c) i -> (x = 0 \/ x <= bal s (macc e) d) ->
  exists s', conv_cosmos_from_erc20 e s i r d x = Ok s' tt.
Proof.
  intros Er Hblk Hx Hle Hm. unfold conv_cosmos_from_erc20. rewrite Er.
  destruct (Z.ltb_spec (ebal (erc s c) i) x); [lia|].
  destruct (erc_burn_ok (erc s c) i x) as [l1 El]; [rewrite u256_small by exact Hx; exact Hle|].
  rewrite El. unfold send_mod_to_acc. rewrite Hblk.
  destruct (bank_send_ok (set_erc s c l1) (macc e) r d x) as [s2 Es]; [exact Hm|].
  rewrite Es. eexists; reflexivity.
Qed.

Lemma pair_of_denom_complete e s c : env_wf e -> (c < npair e)%nat -> enabled s c = true ->
  pair_of_denom e s (pair_denom e c) = Some c.
Proof.
  intros [_ Hinj] Hc Hen. unfold pair_of_denom.
  destruct (find _ (seq 0 (npair e))) as [c'|] eqn:Ef.
  - apply find_some in Ef. destruct Ef as [Hin Hb]. apply in_seq in Hin.
    apply andb_prop in Hb. destruct Hb as [_ Hd]. apply Nat.eqb_eq in Hd.
    f_equal. apply Hinj; [lia|exact Hc|exact Hd].
  - exfalso. pose proof (find_none _ _ Ef c) as Hn.
    assert (Hin : In c (seq 0 (npair e))) by (apply in_seq; lia).
    specialize (Hn Hin). cbn beta in Hn. rewrite Hen, Nat.eqb_refl in Hn. discriminate.
Qed.

Lemma conv_coin_to_erc20_ok e s i r d x c :
  pair_of_denom e s d = Some c -> r <> macc e -> 0 <= x * kf e d < U256 ->
  (x = 0 \/ x <= bal s i d) ->
  (x = 0 \/ x <= bal s (macc e) d + (if Nat.eqb i (macc e) then 0 else x)) ->
  x * kf e d <= ebal (erc s c) (macc e) ->
  exists s', conv_coin_to_erc20 e s i r d x = Ok s' tt.
Proof.
  intros Hp Hr Hu Hfunds Hm Hle. unfold conv_coin_to_erc20. rewrite Hp.
  destruct (bank_send_ok s i (macc e) d x Hfunds) as [s1 E1]. rewrite E1.
  apply bank_send_spec in E1. destruct E1 as (_ & (He1 & _) & _ & Hbal1).
  destruct (bank_burn_ok e s1 d x) as [s2 E2].
  { destruct Hm as [->|Hm]; [left; reflexivity|right]. rewrite Hbal1, !Nat.eqb_refl. unfold dlt. cbn [andb].
    destruct (Nat.eqb_spec (macc e) i) as [<-|]; [rewrite Nat.eqb_refl in Hm|]; cbn [andb].
    - lia.
    - destruct (Nat.eqb_spec i (macc e)); [congruence|]. lia. }
  rewrite E2. apply bank_burn_spec in E2. destruct E2 as (_ & (Hf1 & _) & _ & _).
  assert (Hun : (if is_bep3 e d then x * K10 else x) = x * kf e d).
  { unfold kf. destruct (is_bep3 e d); lia. }
  rewrite Hun. assert (Herc : erc s2 c = erc s c) by (rewrite Hf1, He1; reflexivity). rewrite Herc.
  destruct (erc_transfer_ok (erc s c) (macc e) r (x * kf e d)) as [l1 Et].
  { rewrite u256_small by exact Hu. exact Hle. }
  rewrite Et. apply erc_transfer_spec in Et. destruct Et as (_ & _ & Hb).
  rewrite Hb, Nat.eqb_refl. rewrite u256_small by exact Hu. unfold dlt.
  destruct (Nat.eqb_spec r (macc e)); [congruence|].
  destruct (Z.eqb_spec (ebal (erc s c) r + x * kf e d) (ebal (erc s c) r - 0 + x * kf e d)); [|lia].
  eexists; reflexivity.
Qed.

(** ** round trips *)

(* bank balances are sdk.Coins (never negative), ERC20 balances and total
   supplies are uint256 *)
Definition nonneg (s : state) : Prop :=
  (forall a d, 0 <= bal s a d) /\ (forall c a, 0 <= ebal (erc s c) a) /\
  (forall c, etot (erc s c) < U256).

(* cosmos coin -> wrapper ERC20 -> cosmos coin *)
Lemma round_trip_cosmos e s i r d x s1 :
  env_wf e -> nonneg s -> 0 <= x < U256 -> blocked e i = false ->
  conv_cosmos_to_erc20 e s i r d x = Ok s1 tt ->
  exists s2, conv_cosmos_from_erc20 e s1 r i d x = Ok s2 tt /\
    (forall a d', bal s2 a d' = bal s a d') /\ sup s2 = sup s /\
    (forall a, ebal (wl s2 d) a = ebal (wl s d) a) /\ etot (wl s2 d) = etot (wl s d) /\
    (forall c', reg s2 d <> Some c' -> erc s2 c' = erc s c').
Proof.
  intros Hwf (Hnb & Hne & _) Hx Hblk H1.
  pose proof (blocked_not_module e i Hwf Hblk) as Him.
  apply conv_cosmos_to_erc20_spec in H1; [|exact Hx].
  destruct H1 as (_ & _ & c & Hrc & Hcase & _ & Hb1 & Ht1 & Ho1 & Hbal1 & Hsup1 & _).
  assert (Hwl0 : forall a, 0 <= ebal (wl s d) a).
  { intros a. unfold wl. destruct (reg s d); [apply Hne|cbn; lia]. }
  destruct (conv_cosmos_from_erc20_ok e s1 r i d x c Hrc Hblk Hx) as [s2 H2].
  { rewrite Hb1, Nat.eqb_refl. unfold dlt. specialize (Hwl0 r). lia. }
  { right. rewrite Hbal1, !Nat.eqb_refl. unfold dlt.
    destruct (Nat.eqb_spec (macc e) i); [congruence|]. cbn [andb]. specialize (Hnb (macc e) d). lia. }
  exists s2. split; [exact H2|].
  apply conv_cosmos_from_erc20_spec in H2; [|exact Hx].
  destruct H2 as (c2 & Hrc2 & _ & _ & _ & Hb2 & Ht2 & Ho2 & Hbal2 & Hsup2 & Hr2 & _).
  assert (c2 = c) by congruence. subst c2.
  assert (Hwl2 : wl s2 d = erc s2 c) by (unfold wl; rewrite Hr2, Hrc; reflexivity).
  split. { intros a d'. rewrite Hbal2, Hbal1. unfold dlt.
           destruct (Nat.eqb a (macc e) && Nat.eqb d' d), (Nat.eqb a i && Nat.eqb d' d); lia. }
  split; [congruence|].
  split. { intros a. rewrite Hwl2, Hb2, Hb1. unfold dlt. destruct (Nat.eqb a r); lia. }
  split. { rewrite Hwl2, Ht2, Ht1. lia. }
  intros c' Hne'. rewrite Hr2, Hrc in Hne'.
  assert (c' <> c) by congruence. rewrite Ho2, Ho1 by assumption. reflexivity.
Qed.

(* ERC20 -> coin -> ERC20 for an EVM-native pair: the dust never left, so
   converting back the minted coins restores everything *)
Lemma round_trip_evm e s i r c x s1 :
  env_wf e -> nonneg s -> 0 <= x -> i <> macc e ->
  conv_erc20_to_coin e s i r c x = Ok s1 tt ->
  let d := pair_denom e c in
  let mint := if is_bep3 e d then x / K10 else x in
  exists s2, conv_coin_to_erc20 e s1 r i d mint = Ok s2 tt /\
    (forall a d', bal s2 a d' = bal s a d') /\ (forall d', sup s2 d' = sup s d') /\
    (forall c' a, ebal (erc s2 c') a = ebal (erc s c') a) /\
    (forall c', etot (erc s2 c') = etot (erc s c')) /\
    reg s2 = reg s /\ next s2 = next s.
Proof.
  intros Hwf (Hnb & Hne & _) Hx Him H1 d mint.
  apply conv_erc20_to_coin_spec in H1. cbv zeta in H1. fold d in H1. fold mint in H1.
  destruct H1 as (Hc & Hen & Hblk & _ & Hlk & Hle & Hb1 & Ht1 & Ho1 & Hbal1 & Hsup1 & Hr1 & Hn1 & (Hp1 & _)).
  pose proof (blocked_not_module e r Hwf Hblk) as Hrm.
  assert (Hmint : 0 <= mint).
  { unfold mint. destruct (is_bep3 e d); [apply Z.div_pos; [lia|exact K10_pos]|lia]. }
  assert (Hp : pair_of_denom e s1 d = Some c).
  { apply pair_of_denom_complete; [exact Hwf|exact Hc|]. rewrite Hp1. exact Hen. }
  destruct (conv_coin_to_erc20_ok e s1 r i d mint c Hp Him) as [s2 H2].
  - exact Hlk.
  - right. rewrite Hbal1, !Nat.eqb_refl. unfold dlt. cbn [andb]. specialize (Hnb r d). lia.
  - right. rewrite Hbal1, Nat.eqb_refl. unfold dlt.
    destruct (Nat.eqb_spec (macc e) r); [congruence|].
    destruct (Nat.eqb_spec r (macc e)); [congruence|]. cbn [andb]. specialize (Hnb (macc e) d). lia.
  - rewrite Hb1, Nat.eqb_refl. unfold dlt. destruct (Nat.eqb_spec (macc e) i); [congruence|].
    specialize (Hne c (macc e)). lia.
  - exists s2. split; [exact H2|].
    apply conv_coin_to_erc20_spec in H2; [|exact Hrm]. destruct H2 as (c2 & Hp2 & H2). cbv zeta in H2.
    assert (c2 = c) by congruence. subst c2.
    destruct H2 as (_ & _ & _ & Hb2 & Ht2 & Ho2 & Hbal2 & Hsup2 & Hr2 & Hn2 & _).
    split. { intros a d'. rewrite Hbal2, Hbal1. unfold dlt. destruct (Nat.eqb a r && Nat.eqb d' d); lia. }
    split. { intros d'. rewrite Hsup2, Hsup1. unfold dlt. destruct (Nat.eqb d' d); lia. }
    split. { intros c' a. destruct (Nat.eqb_spec c' c) as [->|Hne'].
             - rewrite Hb2, Hb1. unfold dlt. destruct (Nat.eqb a (macc e)), (Nat.eqb a i); lia.
             - rewrite Ho2, Ho1 by exact Hne'. reflexivity. }
    split. { intros c'. destruct (Nat.eqb_spec c' c) as [->|Hne'].
             - rewrite Ht2, Ht1. reflexivity.
             - rewrite Ho2, Ho1 by exact Hne'. reflexivity. }
    split; congruence.
Qed.

(** ** dust *)
Lemma dust_kept e s i r c x s' :
  is_bep3 e (pair_denom e c) = true -> i <> macc e ->
  conv_erc20_to_coin e s i r c x = Ok s' tt ->
  let locked := x / K10 * K10 in
  ebal (erc s c) i - ebal (erc s' c) i = locked /\
  ebal (erc s' c) (macc e) - ebal (erc s c) (macc e) = locked /\
  0 <= x - locked < K10 /\
  bal s' r (pair_denom e c) = bal s r (pair_denom e c) + x / K10.
Proof.
  intros Hbep Hi H locked. apply conv_erc20_to_coin_spec in H. cbv zeta in H.
  rewrite Hbep in H. unfold kf in H. rewrite Hbep in H. fold locked in H.
  destruct H as (_ & _ & _ & _ & _ & _ & Hb & _ & _ & Hbal & _).
  split. { rewrite Hb, Nat.eqb_refl. unfold dlt. destruct (Nat.eqb_spec i (macc e)); [congruence|]. lia. }
  split. { rewrite Hb, Nat.eqb_refl. unfold dlt. destruct (Nat.eqb_spec (macc e) i); [congruence|]. lia. }
  split. { unfold locked. pose proof K10_pos. pose proof (Z.mod_pos_bound x K10 H).
           pose proof (Z.div_mod x K10). lia. }
  rewrite Hbal, !Nat.eqb_refl. reflexivity.
Qed.

Lemma dust_only_refused e s i r c x :
  is_bep3 e (pair_denom e c) = true -> 0 <= x < K10 ->
  conv_erc20_to_coin e s i r c x = Err.
Proof.
  intros Hbep Hx. unfold conv_erc20_to_coin.
  destruct (pair_enabled e s c); [|reflexivity]. cbn [negb]. rewrite Hbep.
  rewrite (Z.div_small x K10 Hx). reflexivity.
Qed.

(** ** refused conversions *)
Lemma step'_failed e s o : (forall s' u, step e s o <> Ok s' u) -> step' e s o = s.
Proof.
  intros H. unfold step'. destruct (step e s o) as [s' u| |] eqn:E; auto.
  exfalso. exact (H s' u eq_refl).
Qed.

Lemma disabled_pair_refused_erc20_to_coin e s i r c x :
  pair_enabled e s c = false -> conv_erc20_to_coin e s i r c x = Err.
Proof. intros H. unfold conv_erc20_to_coin. rewrite H. reflexivity. Qed.

Lemma disabled_pair_refused_coin_to_erc20 e s i r d x :
  (forall c, (c < npair e)%nat -> pair_denom e c = d -> enabled s c = false) ->
  conv_coin_to_erc20 e s i r d x = Err.
Proof.
  intros H. unfold conv_coin_to_erc20.
  destruct (pair_of_denom e s d) as [c|] eqn:Ep; [|reflexivity].
  apply pair_of_denom_some in Ep. destruct Ep as (Hc & Hen & Hd).
  rewrite (H c Hc Hd) in Hen. discriminate.
Qed.

Lemma not_allowed_refused e s i r d x :
  allowed s d = false -> conv_cosmos_to_erc20 e s i r d x = Err.
Proof. intros H. unfold conv_cosmos_to_erc20. rewrite H. reflexivity. Qed.

Lemma unregistered_refused e s i r d x :
  reg s d = None -> conv_cosmos_from_erc20 e s i r d x = Err.
Proof. intros H. unfold conv_cosmos_from_erc20. rewrite H. reflexivity. Qed.

(* amounts above the initiator's balance *)
Lemma overdraw_refused_coin_to_erc20 e s i r d x s' :
  i <> macc e -> bal s i d < x -> 0 < x -> conv_coin_to_erc20 e s i r d x <> Ok s' tt.
Proof.
  intros Hi Hlt Hx H. apply conv_coin_to_erc20_spec in H; [|exact Hi].
  destruct H as (c & _ & H). cbv zeta in H. destruct H as (Hf & _). lia.
Qed.

Lemma overdraw_refused_erc20_to_coin e s i r c x s' :
  let d := pair_denom e c in
  let lock := (if is_bep3 e d then x / K10 else x) * kf e d in
  ebal (erc s c) i < lock -> conv_erc20_to_coin e s i r c x <> Ok s' tt.
Proof.
  intros d lock Hlt H. apply conv_erc20_to_coin_spec in H. cbv zeta in H.
  fold d in H. fold lock in H. destruct H as (_ & _ & _ & _ & _ & Hle & _). lia.
Qed.

Lemma overdraw_refused_cosmos_to_erc20 e s i r d x s' :
  0 < x < U256 -> bal s i d < x -> conv_cosmos_to_erc20 e s i r d x <> Ok s' tt.
Proof.
  intros Hx Hlt H. apply conv_cosmos_to_erc20_spec in H; [|lia]. destruct H as (_ & Hf & _). lia.
Qed.

Lemma overdraw_refused_cosmos_from_erc20 e s i r d x c :
  reg s d = Some c -> ebal (erc s c) i < x -> conv_cosmos_from_erc20 e s i r d x = Err.
Proof.
  intros Er Hlt. unfold conv_cosmos_from_erc20. rewrite Er.
  destruct (Z.ltb_spec (ebal (erc s c) i) x); [reflexivity|lia].
Qed.

(* coins are never paid out to a blocked address (module accounts) *)
Lemma blocked_recipient_refused e s i r x :
  blocked e r = true ->
  (forall c s', conv_erc20_to_coin e s i r c x <> Ok s' tt) /\
  (forall d s', conv_cosmos_from_erc20 e s i r d x <> Ok s' tt).
Proof.
  intros Hb. split.
  - intros c s' H. apply conv_erc20_to_coin_spec in H. cbv zeta in H.
    destruct H as (_ & _ & Hb' & _). congruence.
  - intros d s' H. unfold conv_cosmos_from_erc20 in H.
    destruct (reg s d) as [c|]; [|discriminate].
    destruct (ebal (erc s c) i <? x); [discriminate|].
    destruct (erc_burn (erc s c) i x) as [l1|]; [|discriminate].
    unfold send_mod_to_acc in H. rewrite Hb in H. discriminate.
Qed.

(* unlocking pair tokens to the module's own EVM address would burn the coins
   and credit nobody: the balance-delta check refuses it *)
Lemma unlock_to_module_refused e s i d x s' :
  i <> macc e -> 0 < x -> conv_coin_to_erc20 e s i (macc e) d x <> Ok s' tt.
Proof.
  intros Hi Hx H. unfold conv_coin_to_erc20 in H.
  destruct (pair_of_denom e s d) as [c|]; [|discriminate].
  destruct (bank_send s i (macc e) d x) as [s1|]; [|discriminate].
  destruct (bank_burn e s1 d x) as [s2|]; [|discriminate].
  set (unlock := if is_bep3 e d then x * K10 else x) in H.
  assert (Hun : 0 < unlock) by (unfold unlock; pose proof K10_pos; destruct (is_bep3 e d); nia).
  destruct (erc_transfer (erc s2 c) (macc e) (macc e) unlock) as [l1|] eqn:Et; [|discriminate].
  apply erc_transfer_spec in Et. destruct Et as (_ & _ & Hb).
  rewrite Hb, Nat.eqb_refl in H. unfold dlt in H.
  destruct (Z.eqb_spec (ebal (erc s2 c) (macc e) + unlock)
                       (ebal (erc s2 c) (macc e) - u256 unlock + u256 unlock)); [lia|discriminate].
Qed.

(* the model never panics *)
Lemma step_no_panic e s o : step e s o <> Panic.
Proof.
  destruct o; cbn [step];
    unfold conv_coin_to_erc20, conv_erc20_to_coin, conv_cosmos_to_erc20, conv_cosmos_from_erc20;
    repeat match goal with
    | |- context [match ?x with _ => _ end] => destruct x
    | |- context [if ?x then _ else _] => destruct x
    end; discriminate.
Qed.

(** ** the other direction of the round trips *)

Lemma conv_cosmos_to_erc20_ok e s i r d x :
  allowed s d = true -> 0 <= x < U256 -> (x = 0 \/ x <= bal s i d) ->
  etot (wl s d) + x < U256 ->
  exists s', conv_cosmos_to_erc20 e s i r d x = Ok s' tt.
Proof.
  intros Hal Hx Hf Ht. unfold conv_cosmos_to_erc20. rewrite Hal. cbn [negb].
  destruct (bank_send_ok s i (macc e) d x Hf) as [s1 E1]. rewrite E1.
  apply bank_send_spec in E1. destruct E1 as (_ & (He1 & He2 & He3 & _) & _ & _).
  rewrite He2. unfold wl in Ht. destruct (reg s d) as [c|] eqn:Er.
  - destruct (erc_mint_ok (erc s1 c) r x) as [l1 El]; [rewrite He1, u256_small by exact Hx; exact Ht|].
    rewrite El. eexists; reflexivity.
  - unfold deploy. cbn [erc next]. unfold upd at 1. rewrite Nat.eqb_refl.
    destruct (erc_mint_ok empty_ledger r x) as [l1 El]; [rewrite u256_small by exact Hx; exact Ht|].
    rewrite El. eexists; reflexivity.
Qed.

(* wrapper ERC20 -> cosmos coin -> wrapper ERC20 (while the denom is still allowed) *)
Lemma round_trip_cosmos_back e s i r d x s1 :
  env_wf e -> nonneg s -> 0 <= x < U256 -> allowed s d = true ->
  conv_cosmos_from_erc20 e s i r d x = Ok s1 tt ->
  exists s2, conv_cosmos_to_erc20 e s1 r i d x = Ok s2 tt /\
    (forall a d', bal s2 a d' = bal s a d') /\ sup s2 = sup s /\
    (forall c a, ebal (erc s2 c) a = ebal (erc s c) a) /\
    (forall c, etot (erc s2 c) = etot (erc s c)) /\
    reg s2 = reg s /\ next s2 = next s.
Proof.
  intros Hwf (Hnb & Hne & Hnt) Hx Hal H1.
  apply conv_cosmos_from_erc20_spec in H1; [|exact Hx].
  destruct H1 as (c & Er & Hblk & _ & _ & Hb1 & Ht1 & Ho1 & Hbal1 & Hsup1 & Hr1 & Hn1 & (_ & Hal1)).
  pose proof (blocked_not_module e r Hwf Hblk) as Hrm.
  assert (Hwl1 : wl s1 d = erc s1 c) by (unfold wl; rewrite Hr1, Er; reflexivity).
  destruct (conv_cosmos_to_erc20_ok e s1 r i d x) as [s2 H2].
  - rewrite Hal1. exact Hal.
  - exact Hx.
  - right. rewrite Hbal1, !Nat.eqb_refl. unfold dlt.
    destruct (Nat.eqb_spec r (macc e)); [congruence|]. cbn [andb]. specialize (Hnb r d). lia.
  - rewrite Hwl1, Ht1. specialize (Hnt c). lia.
  - exists s2. split; [exact H2|].
    apply conv_cosmos_to_erc20_spec in H2; [|exact Hx].
    destruct H2 as (_ & _ & c2 & Hrc2 & Hcase & _ & Hb2 & Ht2 & Ho2 & Hbal2 & Hsup2 & _).
    destruct Hcase as [(Er2 & Hr2 & Hn2) | (Er2 & _)]; [|congruence].
    assert (c2 = c) by congruence. subst c2. rewrite Hwl1 in Hb2, Ht2.
    split. { intros a d'. rewrite Hbal2, Hbal1. unfold dlt.
             destruct (Nat.eqb a (macc e) && Nat.eqb d' d), (Nat.eqb a r && Nat.eqb d' d); lia. }
    split; [congruence|].
    split. { intros c' a. destruct (Nat.eqb_spec c' c) as [->|Hne'].
             - rewrite Hb2, Hb1. unfold dlt. destruct (Nat.eqb a i); lia.
             - rewrite Ho2, Ho1 by exact Hne'. reflexivity. }
    split. { intros c'. destruct (Nat.eqb_spec c' c) as [->|Hne'].
             - rewrite Ht2, Ht1. lia.
             - rewrite Ho2, Ho1 by exact Hne'. reflexivity. }
    split; congruence.
Qed.

Lemma conv_erc20_to_coin_ok e s i r c x :
  let d := pair_denom e c in
  let mint := if is_bep3 e d then x / K10 else x in
  let lock := mint * kf e d in
  pair_enabled e s c = true -> blocked e r = false -> i <> macc e ->
  (is_bep3 e d = true -> mint <> 0) -> 0 <= lock < U256 -> lock <= ebal (erc s c) i ->
  0 <= mint -> 0 <= bal s (macc e) d ->
  exists s', conv_erc20_to_coin e s i r c x = Ok s' tt.
Proof.
  intros d mint lock Hen Hblk Hi Hnz Hlk Hle Hmint Hm. unfold conv_erc20_to_coin. rewrite Hen. cbn [negb].
  fold d.
  assert (Hlock : (if is_bep3 e d then x / K10 * K10 else x) = lock).
  { unfold lock, mint, kf. destruct (is_bep3 e d); lia. }
  rewrite Hlock. fold mint.
  assert (Hz : is_bep3 e d && (mint =? 0) = false).
  { destruct (is_bep3 e d) eqn:Hb; [|reflexivity]. cbn [andb]. apply Z.eqb_neq. apply Hnz. reflexivity. }
  rewrite Hz.
  destruct (erc_transfer_ok (erc s c) i (macc e) lock) as [l1 Et]; [rewrite u256_small by exact Hlk; exact Hle|].
  rewrite Et. apply erc_transfer_spec in Et. destruct Et as (_ & _ & Hb).
  rewrite Hb, Nat.eqb_refl, u256_small by exact Hlk. unfold dlt.
  destruct (Nat.eqb_spec i (macc e)); [congruence|].
  destruct (Z.eqb_spec (ebal (erc s c) i - lock) (ebal (erc s c) i - lock + 0)); [|lia]. cbn [negb].
  unfold send_mod_to_acc. rewrite Hblk.
  destruct (bank_send_ok (bank_mint e (set_erc s c l1) d mint) (macc e) r d mint) as [s3 Es].
  { right. destruct (bank_mint_spec e (set_erc s c l1) d mint) as (_ & _ & Hbm).
    rewrite Hbm, !Nat.eqb_refl. unfold dlt. cbn [andb set_erc bal]. lia. }
  rewrite Es. eexists; reflexivity.
Qed.

(* coin -> ERC20 -> coin for an EVM-native pair *)
Lemma round_trip_evm_back e s i r d x s1 :
  env_wf e -> nonneg s -> 0 <= x -> (is_bep3 e d = true -> 0 < x) ->
  i <> macc e -> r <> macc e -> blocked e i = false ->
  conv_coin_to_erc20 e s i r d x = Ok s1 tt ->
  exists c s2, pair_of_denom e s d = Some c /\
    conv_erc20_to_coin e s1 r i c (x * kf e d) = Ok s2 tt /\
    (forall a d', bal s2 a d' = bal s a d') /\ (forall d', sup s2 d' = sup s d') /\
    (forall c' a, ebal (erc s2 c') a = ebal (erc s c') a) /\
    (forall c', etot (erc s2 c') = etot (erc s c')) /\
    reg s2 = reg s /\ next s2 = next s.
Proof.
  intros Hwf (Hnb & Hne & _) Hx Hpos Him Hrm Hblk H1.
  apply conv_coin_to_erc20_spec in H1; [|exact Him]. destruct H1 as (c & Hp & H1). cbv zeta in H1.
  destruct H1 as (Hf & Hun & Hle & Hb1 & Ht1 & Ho1 & Hbal1 & Hsup1 & Hr1 & Hn1 & (Hp1 & _)).
  pose proof (pair_of_denom_some e s d c Hp) as (Hc & Hen & Hd).
  exists c.
  assert (Hmint : (if is_bep3 e (pair_denom e c) then x * kf e d / K10 else x * kf e d) = x).
  { rewrite Hd. unfold kf. destruct (is_bep3 e d); [apply Z.div_mul; pose proof K10_pos; lia|lia]. }
  destruct (conv_erc20_to_coin_ok e s1 r i c (x * kf e d)) as [s2 H2]; cbv zeta; rewrite ?Hmint, ?Hd.
  - unfold pair_enabled. rewrite Hp1, Hen. destruct (Nat.ltb_spec c (npair e)); [reflexivity|lia].
  - exact Hblk.
  - exact Hrm.
  - intros Hbep. specialize (Hpos Hbep). lia.
  - exact Hun.
  - rewrite Hb1, Nat.eqb_refl. unfold dlt. destruct (Nat.eqb_spec r (macc e)); [congruence|].
    specialize (Hne c r). lia.
  - exact Hx.
  - rewrite Hbal1. unfold dlt. destruct (Nat.eqb_spec (macc e) i); [congruence|]. cbn [andb].
    specialize (Hnb (macc e) d). lia.
  - exists s2. split; [exact Hp|]. split; [exact H2|].
    apply conv_erc20_to_coin_spec in H2. cbv zeta in H2. rewrite Hmint, Hd in H2.
    destruct H2 as (_ & _ & _ & _ & _ & _ & Hb2 & Ht2 & Ho2 & Hbal2 & Hsup2 & Hr2 & Hn2 & _).
    split. { intros a d'. rewrite Hbal2, Hbal1. unfold dlt. destruct (Nat.eqb a i && Nat.eqb d' d); lia. }
    split. { intros d'. rewrite Hsup2, Hsup1. unfold dlt. destruct (Nat.eqb d' d); lia. }
    split. { intros c' a. destruct (Nat.eqb_spec c' c) as [->|Hne'].
             - rewrite Hb2, Hb1. unfold dlt. destruct (Nat.eqb a (macc e)), (Nat.eqb a r); lia.
             - rewrite Ho2, Ho1 by exact Hne'. reflexivity. }
    split. { intros c'. destruct (Nat.eqb_spec c' c) as [->|Hne'].
             - rewrite Ht2, Ht1. reflexivity.
             - rewrite Ho2, Ho1 by exact Hne'. reflexivity. }
    split; congruence.
Qed.

(** ** the range hypothesis of the round trips is an invariant of histories *)
Lemma wl_nonneg s d : nonneg s -> (forall a, 0 <= ebal (wl s d) a) /\ etot (wl s d) < U256.
Proof.
  intros (_ & Hne & Hnt). unfold wl. destruct (reg s d); [split; [apply Hne|apply Hnt]|].
  cbn. split; [lia|exact U256_pos].
Qed.

Lemma step_nonneg e s o s' : nonneg s -> op_wf e o -> step e s o = Ok s' tt -> nonneg s'.
Proof.
  intros Hnn Hs H. pose proof Hnn as (Hnb & Hne & Hnt). unfold op_wf in Hs.
  destruct o as [dr i r d x|dr i r c x|dr i r d x|dr i r d x|c f t x|c t x|f t d x|en al];
    cbn [step signer] in H, Hs.
  - destruct (amount_ok dr x) eqn:Ea; [|discriminate]. apply amount_ok_range in Ea.
    apply conv_coin_to_erc20_spec in H; [|congruence]. destruct H as (c & _ & H). cbv zeta in H.
    destruct H as (Hf & Hun & Hle & Hb & Ht & Ho & Hbal & _).
    split; [|split].
    + intros a d'. rewrite Hbal. unfold dlt. specialize (Hnb a d').
      destruct (Nat.eqb_spec a i) as [->|]; cbn [andb]; [|lia].
      destruct (Nat.eqb_spec d' d) as [->|]; lia.
    + intros c' a. destruct (Nat.eqb_spec c' c) as [->|Hne'].
      * rewrite Hb. unfold dlt. specialize (Hne c a).
        destruct (Nat.eqb a r), (Nat.eqb_spec a (macc e)) as [->|]; lia.
      * rewrite Ho by exact Hne'. apply Hne.
    + intros c'. destruct (Nat.eqb_spec c' c) as [->|Hne'].
      * rewrite Ht. apply Hnt.
      * rewrite Ho by exact Hne'. apply Hnt.
  - destruct (amount_ok dr x) eqn:Ea; [|discriminate]. apply amount_ok_range in Ea.
    apply conv_erc20_to_coin_spec in H. cbv zeta in H.
    destruct H as (_ & _ & _ & _ & Hlk & Hle & Hb & Ht & Ho & Hbal & _).
    set (d := pair_denom e c) in *.
    assert (Hmint : 0 <= (if is_bep3 e d then x / K10 else x)).
    { destruct (is_bep3 e d); [apply Z.div_pos; [lia|exact K10_pos]|lia]. }
    split; [|split].
    + intros a d'. rewrite Hbal. unfold dlt. specialize (Hnb a d').
      destruct (Nat.eqb a r && Nat.eqb d' d); lia.
    + intros c' a. destruct (Nat.eqb_spec c' c) as [->|Hne'].
      * rewrite Hb. unfold dlt. specialize (Hne c a).
        destruct (Nat.eqb a (macc e)), (Nat.eqb_spec a i) as [->|]; lia.
      * rewrite Ho by exact Hne'. apply Hne.
    + intros c'. destruct (Nat.eqb_spec c' c) as [->|Hne'].
      * rewrite Ht. apply Hnt.
      * rewrite Ho by exact Hne'. apply Hnt.
  - destruct (amount_ok dr x) eqn:Ea; [|discriminate]. apply amount_ok_range in Ea.
    apply conv_cosmos_to_erc20_spec in H; [|exact Ea].
    destruct H as (_ & Hf & c & _ & _ & Hlt & Hb & Ht & Ho & Hbal & _).
    destruct (wl_nonneg s d Hnn) as [Hw _].
    split; [|split].
    + intros a d'. rewrite Hbal. unfold dlt. specialize (Hnb a d').
      destruct (Nat.eqb_spec a i) as [->|]; cbn [andb].
      * destruct (Nat.eqb_spec d' d) as [->|]; destruct (Nat.eqb i (macc e)); cbn [andb]; lia.
      * destruct (Nat.eqb a (macc e) && Nat.eqb d' d); lia.
    + intros c' a. destruct (Nat.eqb_spec c' c) as [->|Hne'].
      * rewrite Hb. unfold dlt. specialize (Hw a). destruct (Nat.eqb a r); lia.
      * rewrite Ho by exact Hne'. apply Hne.
    + intros c'. destruct (Nat.eqb_spec c' c) as [->|Hne'].
      * rewrite Ht. exact Hlt.
      * rewrite Ho by exact Hne'. apply Hnt.
  - destruct (amount_ok dr x) eqn:Ea; [|discriminate]. apply amount_ok_range in Ea.
    apply conv_cosmos_from_erc20_spec in H; [|exact Ea].
    destruct H as (c & _ & _ & Hle & Hf & Hb & Ht & Ho & Hbal & _).
    split; [|split].
    + intros a d'. rewrite Hbal. unfold dlt. specialize (Hnb a d').
      destruct (Nat.eqb_spec a (macc e)) as [->|]; cbn [andb].
      * destruct (Nat.eqb_spec d' d) as [->|]; destruct (Nat.eqb (macc e) r); cbn [andb]; lia.
      * destruct (Nat.eqb a r && Nat.eqb d' d); lia.
    + intros c' a. destruct (Nat.eqb_spec c' c) as [->|Hne'].
      * rewrite Hb. unfold dlt. specialize (Hne c a). destruct (Nat.eqb_spec a i) as [->|]; lia.
      * rewrite Ho by exact Hne'. apply Hne.
    + intros c'. destruct (Nat.eqb_spec c' c) as [->|Hne'].
      * rewrite Ht. specialize (Hnt c). lia.
      * rewrite Ho by exact Hne'. apply Hnt.
  - destruct (Nat.leb (next s) c); [inversion H; subst; exact Hnn|].
    destruct (erc_transfer (erc s c) f t x) as [l|] eqn:Et; [|discriminate].
    inversion H; subst s'; clear H. apply erc_transfer_spec in Et. destruct Et as (Hle & Htot & Hb).
    pose proof (u256_range x).
    split; [exact Hnb|]. cbn [set_erc erc]. split.
    + intros c' a. unfold upd. destruct (Nat.eqb_spec c' c) as [->|]; [|apply Hne].
      rewrite Hb. unfold dlt. specialize (Hne c a).
      destruct (Nat.eqb a t), (Nat.eqb_spec a f) as [->|]; lia.
    + intros c'. unfold upd. destruct (Nat.eqb_spec c' c) as [->|]; [|apply Hnt]. rewrite Htot. apply Hnt.
  - destruct (Nat.leb (next s) c); [inversion H; subst; exact Hnn|].
    destruct (Nat.ltb c (npair e)); [|discriminate]. cbn [negb] in H.
    destruct (erc_mint (erc s c) t x) as [l|] eqn:Em; [|discriminate].
    inversion H; subst s'; clear H. apply erc_mint_spec in Em. destruct Em as (Hlt & Htot & Hb).
    pose proof (u256_range x).
    split; [exact Hnb|]. cbn [set_erc erc]. split.
    + intros c' a. unfold upd. destruct (Nat.eqb_spec c' c) as [->|]; [|apply Hne].
      rewrite Hb. unfold dlt. specialize (Hne c a). destruct (Nat.eqb a t); lia.
    + intros c'. unfold upd. destruct (Nat.eqb_spec c' c) as [->|]; [|apply Hnt]. rewrite Htot. exact Hlt.
  - destruct (Z.leb_spec x 0); [discriminate|].
    destruct (blocked e t); [discriminate|].
    destruct (bank_send s f t d x) as [s1|] eqn:Es; [|discriminate].
    inversion H; subst s1; clear H.
    apply bank_send_spec in Es. destruct Es as (Hf & (He1 & _) & _ & Hbal).
    split; [|rewrite He1; split; assumption].
    intros a d'. rewrite Hbal. unfold dlt. specialize (Hnb a d').
    destruct (Nat.eqb_spec a f) as [->|]; cbn [andb].
    + destruct (Nat.eqb_spec d' d) as [->|]; destruct (Nat.eqb f t); cbn [andb]; lia.
    + destruct (Nat.eqb a t && Nat.eqb d' d); lia.
  - inversion H; subst s'; clear H. exact Hnn.
Qed.

Lemma run_nonneg e ops : forall s, nonneg s -> Forall (op_wf e) ops -> nonneg (run e s ops).
Proof.
  induction ops as [|o r IH]; intros s Hnn Hall; cbn [run fold_left]; [exact Hnn|].
  inversion Hall; subst. apply IH; [|assumption].
  unfold step'. destruct (step e s o) as [s' []| |] eqn:E; try exact Hnn.
  apply (step_nonneg e s o s' Hnn H1 E).
Qed.
