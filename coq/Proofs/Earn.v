(* Lemmas and proofs about Model/Earn.v *)
From Kava Require Import Base.Prelude Base.Dec Model.Savings Model.Earn Proofs.Savings.
Local Open Scope Z_scope.

(** ** arithmetic of the share conversions *)

Lemma PP_pos : 0 < PREC * PREC. Proof. reflexivity. Qed.

(* ConvertToShares: floor(x * T / V) on mantissas *)
Lemma cts_eq x T V : 0 <= x -> 0 <= T -> 0 < V ->
  dec_quo_trunc (dec_mul (dec_of_int x) T) (dec_of_int V) = x * T / V.
Proof.
  intros Hx HT HV. pose proof PREC_pos as HP. pose proof PP_pos as HPP.
  assert (HxT : 0 <= x * T) by (apply Z.mul_nonneg_nonneg; assumption).
  unfold dec_mul, dec_of_int, dec_quo_trunc.
  replace (x * PREC * T) with (x * T * PREC) by ring.
  rewrite chop_round_exact by assumption.
  unfold chop_trunc.
  assert (H1 : 0 <= x * T * PREC * PREC).
  { replace (x * T * PREC * PREC) with (x * T * (PREC * PREC)) by ring. apply Z.mul_nonneg_nonneg; lia. }
  assert (H2 : 0 < V * PREC) by (apply Z.mul_pos_pos; assumption).
  rewrite (Z.quot_div_nonneg (x * T * PREC * PREC)) by assumption.
  rewrite Z.quot_div_nonneg; [|apply Z.div_pos; assumption|assumption].
  rewrite Z.div_div by lia.
  replace (x * T * PREC * PREC) with (x * T * (PREC * PREC)) by ring.
  replace (V * PREC * PREC) with (V * (PREC * PREC)) by ring.
  apply Z.div_mul_cancel_r; lia.
Qed.

(* ConvertToAssets: floor(V * sh / T) *)
Lemma cta_eq V sh T : 0 <= V -> 0 <= sh -> 0 < T ->
  dec_trunc_int (dec_quo_trunc (dec_mul (dec_of_int V) sh) T) = V * sh / T.
Proof.
  intros HV Hs HT. pose proof PREC_pos as HP. pose proof PP_pos as HPP.
  assert (HVs : 0 <= V * sh) by (apply Z.mul_nonneg_nonneg; assumption).
  unfold dec_mul, dec_of_int, dec_quo_trunc, dec_trunc_int.
  replace (V * PREC * sh) with (V * sh * PREC) by ring.
  rewrite chop_round_exact by assumption.
  unfold chop_trunc.
  assert (H1 : 0 <= V * sh * PREC * PREC).
  { replace (V * sh * PREC * PREC) with (V * sh * (PREC * PREC)) by ring. apply Z.mul_nonneg_nonneg; lia. }
  rewrite (Z.quot_div_nonneg (V * sh * PREC * PREC)) by assumption.
  assert (H2 : 0 <= V * sh * PREC * PREC / T) by (apply Z.div_pos; assumption).
  rewrite (Z.quot_div_nonneg (V * sh * PREC * PREC / T)) by assumption.
  rewrite Z.quot_div_nonneg; [|apply Z.div_pos; assumption|assumption].
  rewrite (Z.div_div (V * sh * PREC * PREC / T)) by lia.
  rewrite Z.div_div by lia.
  replace (V * sh * PREC * PREC) with (V * sh * (PREC * PREC)) by ring.
  apply Z.div_mul_cancel_r; lia.
Qed.

Lemma div_le_cross a b c d : 0 < b -> 0 < d -> a * d <= c * b -> a / b <= c / d.
Proof.
  intros Hb Hd H. apply Z.div_le_lower_bound; [assumption|].
  pose proof (Z.mul_div_le a b Hb). nia.
Qed.

(* sum of floors <= floor of the sum *)
Lemma sum_floor_le n f V T : (forall u, 0 <= f u) -> 0 < T -> 0 <= V ->
  sumN n (fun u => V * f u / T) * T <= V * sumN n f.
Proof.
  intros Hf HT HV. induction n as [|n IH]; cbn [sumN]; [lia|].
  pose proof (Z.mul_div_le (V * f n) T HT). nia.
Qed.

(** ** well-formed environments, invariant *)

Definition env_wf (e : env) : Prop :=
  (sav_acc (se e) < nacc (se e))%nat /\ (earn_acc e < nacc (se e))%nat /\ (hard_acc e < nacc (se e))%nat /\
  earn_acc e <> sav_acc (se e) /\ hard_acc e <> sav_acc (se e) /\ earn_acc e <> hard_acc e.

Definition tot (s : state) (d : nat) : Z := match vrec s d with Some t => t | None => 0 end.

Definition Inv (e : env) (s : state) : Prop :=
  SInv (se e) (sv s) /\
  (forall d, 0 <= hval s d) /\
  (forall d t, vrec s d = Some t -> 0 < t) /\
  (forall u d, 0 <= shr s u d) /\
  (forall d, tot s d = sumN (nacc (se e)) (fun u => shr s u d)).

Lemma is_user_spec e u : is_user e u = true ->
  (u < nacc (se e))%nat /\ u <> earn_acc e /\ u <> sav_acc (se e) /\ u <> hard_acc e.
Proof.
  unfold is_user. intros H. repeat (apply andb_prop in H; destruct H as [H ?]).
  apply Nat.ltb_lt in H.
  repeat match goal with X : negb (Nat.eqb _ _) = true |- _ => apply negb_true_iff in X; apply Nat.eqb_neq in X end.
  auto.
Qed.

Lemma tot_nonneg e s d : Inv e s -> 0 <= tot s d.
Proof. intros (_ & _ & Hv & _). unfold tot. destruct (vrec s d) eqn:E; [specialize (Hv _ _ E)|]; lia. Qed.

Lemma tv_nonneg e s d V : Inv e s -> total_value e s d = Some V -> 0 <= V.
Proof.
  intros ((_ & Hd & _) & Hh & _). unfold total_value.
  destruct (vault_strat e d) as [|[|[|k]]]; intros H; inversion H; subst; auto.
Qed.

Lemma shr_le_tot e s u d : Inv e s -> (u < nacc (se e))%nat -> shr s u d <= tot s d.
Proof.
  intros (_ & _ & _ & Hs & Hsum) Hu. rewrite Hsum.
  apply (sumN_ge1 _ (fun a => shr s a d) u); auto.
Qed.

(** ** frames: what the conversions depend on *)
Definition same_vaults (s s' : state) : Prop :=
  vrec s' = vrec s /\ hval s' = hval s /\ sdep (sv s') = sdep (sv s).

Lemma tv_frame e s s' d : same_vaults s s' -> total_value e s' d = total_value e s d.
Proof. intros (_ & Hh & Hd). unfold total_value. rewrite Hh, Hd. reflexivity. Qed.

Lemma tv_frame2 e s s' d : hval s' = hval s -> sdep (sv s') = sdep (sv s) -> total_value e s' d = total_value e s d.
Proof. intros Hh Hd. unfold total_value. rewrite Hh, Hd. reflexivity. Qed.

Lemma cts_frame e s s' d x : same_vaults s s' -> convert_to_shares e s' d x = convert_to_shares e s d x.
Proof. intros H. unfold convert_to_shares. rewrite (tv_frame e s s' d H). destruct H as (Hv & _). rewrite Hv. reflexivity. Qed.

Lemma cta_frame e s s' d x : same_vaults s s' -> convert_to_assets e s' d x = convert_to_assets e s d x.
Proof. intros H. unfold convert_to_assets. rewrite (tv_frame e s s' d H). destruct H as (Hv & _). rewrite Hv. reflexivity. Qed.

(** ** values of the conversions *)
Lemma cts_val e s d x sh : Inv e s -> 0 < x -> convert_to_shares e s d x = Val sh ->
  0 < sh /\
  match vrec s d with
  | None => sh = x * PREC
  | Some T => exists V, total_value e s d = Some V /\ 0 < V /\ sh = x * T / V
  end.
Proof.
  intros HI Hx. unfold convert_to_shares.
  destruct (vrec s d) as [T|] eqn:EV.
  - destruct (total_value e s d) as [V|] eqn:ET; [|discriminate].
    pose proof (tv_nonneg _ _ _ _ HI ET) as HV.
    destruct (Z.eqb_spec V 0) as [|HV0]; [discriminate|].
    destruct HI as (_ & _ & Hv & _). specialize (Hv _ _ EV).
    rewrite cts_eq by lia.
    destruct (Z.eqb_spec (x * T / V) 0); [discriminate|].
    destruct (Z.ltb_spec (x * T / V) 0); [discriminate|].
    intros HH; inversion HH; subst. split; [lia|]. exists V. repeat split; lia.
  - intros HH; inversion HH; subst. unfold dec_of_int. pose proof PREC_pos. split; [nia|reflexivity].
Qed.

Lemma cta_val e s d sh w : Inv e s -> 0 <= sh -> convert_to_assets e s d sh = Val w ->
  exists T V, vrec s d = Some T /\ total_value e s d = Some V /\ 0 < T /\ 0 <= V /\ w = V * sh / T /\ 0 <= w.
Proof.
  intros HI Hs. unfold convert_to_assets.
  destruct (vrec s d) as [T|] eqn:EV; [|discriminate].
  destruct (total_value e s d) as [V|] eqn:ET; [|discriminate].
  pose proof (tv_nonneg _ _ _ _ HI ET) as HV.
  destruct HI as (_ & _ & Hv & _). specialize (Hv _ _ EV).
  destruct (Z.eqb_spec T 0); [lia|].
  rewrite cta_eq by lia.
  destruct (Z.ltb_spec (V * sh / T) 0); [discriminate|].
  intros HH; inversion HH; subst. exists T, V. repeat split; auto.
Qed.

(* the redeemable value of an account (0 where ConvertToAssets fails: no vault record) *)
Definition value_of (e : env) (s : state) (u d : nat) : Z :=
  match convert_to_assets e s d (shr s u d) with Val z => z | _ => 0 end.

Lemma value_of_eq e s u d T V : Inv e s -> vrec s d = Some T -> total_value e s d = Some V ->
  convert_to_assets e s d (shr s u d) = Val (V * shr s u d / T) /\ value_of e s u d = V * shr s u d / T.
Proof.
  intros HI EV ET. pose proof (tv_nonneg _ _ _ _ HI ET) as HV.
  destruct HI as (_ & _ & Hv & Hs & _). specialize (Hv _ _ EV). specialize (Hs u d).
  assert (E : convert_to_assets e s d (shr s u d) = Val (V * shr s u d / T)).
  { unfold convert_to_assets. rewrite EV, ET. destruct (Z.eqb_spec T 0); [lia|].
    rewrite cta_eq by lia.
    assert (0 <= V * shr s u d / T) by (apply Z.div_pos; [apply Z.mul_nonneg_nonneg|]; lia).
    destruct (Z.ltb_spec (V * shr s u d / T) 0); [lia|reflexivity]. }
  split; [exact E|]. unfold value_of. rewrite E. reflexivity.
Qed.

Lemma value_of_none e s u d : vrec s d = None -> value_of e s u d = 0.
Proof. intros E. unfold value_of, convert_to_assets. rewrite E. reflexivity. Qed.

Lemma value_of_nonneg e s u d : Inv e s -> 0 <= value_of e s u d.
Proof.
  intros HI. destruct (vrec s d) as [T|] eqn:EV; [|rewrite value_of_none by assumption; lia].
  unfold value_of. destruct (convert_to_assets e s d (shr s u d)) as [z| |] eqn:E; try lia.
  destruct HI as (H1 & H2 & H3 & Hs & H5).
  destruct (cta_val e s d _ z (conj H1 (conj H2 (conj H3 (conj Hs H5)))) (Hs u d) E) as (? & ? & ? & ? & ? & ? & ? & ?). lia.
Qed.

(* account_value (GetVaultAccountValue) agrees with value_of when it succeeds *)
Lemma account_value_val e s u d av : account_value e s u d = Val av -> value_of e s u d = av.
Proof. unfold account_value, value_of. destruct (share_found e s u); [|discriminate]. intros ->. reflexivity. Qed.

(** ** earn_solvent: the sum of redeemable values never exceeds the strategy position *)
Lemma solvent e s d V : Inv e s -> total_value e s d = Some V ->
  sumN (nacc (se e)) (fun u => value_of e s u d) <= V.
Proof.
  intros HI ET. pose proof (tv_nonneg _ _ _ _ HI ET) as HV.
  destruct (vrec s d) as [T|] eqn:EV.
  - rewrite (sumN_ext _ _ (fun u => V * shr s u d / T)).
    2:{ intros u _. apply (value_of_eq e s u d T V HI EV ET). }
    destruct HI as (_ & _ & Hv & Hs & Hsum). specialize (Hv _ _ EV).
    pose proof (sum_floor_le (nacc (se e)) (fun u => shr s u d) V T (fun u => Hs u d) Hv HV) as H.
    cbn beta in H. specialize (Hsum d). unfold tot in Hsum. rewrite EV in Hsum. rewrite <- Hsum in H. nia.
  - rewrite (sumN_ext _ _ (fun _ => 0)) by (intros; apply value_of_none; assumption).
    assert (Z0 : forall n, sumN n (fun _ : nat => 0) = 0) by (induction n; cbn [sumN]; lia).
    rewrite Z0. assumption.
Qed.

(** ** bank transfers between accounts other than the savings module account *)
Lemma SInv_bsend1 e s f t d x b : SInv e s -> bsend1 (bal s) f t d x = Some b -> 0 <= x ->
  f <> sav_acc e -> t <> sav_acc e -> SInv e (mkS b (sdep s)).
Proof.
  intros (Hb & Hd & Hs) E Hx Hf Ht. split; [|split]; cbn [bal sdep].
  - eapply bsend1_nonneg; eauto.
  - exact Hd.
  - intros dd. destruct (bsend1_spec _ _ _ _ _ _ E) as [_ Eb]. rewrite Eb. unfold at2.
    destruct (Nat.eqb_spec (sav_acc e) f), (Nat.eqb_spec (sav_acc e) t); try congruence. cbn [andb]. rewrite Hs. lia.
Qed.

(** ** strategies *)
Lemma new_coins_valid d x : 0 <= x -> coins_valid (new_coins d x) = true.
Proof.
  intros Hx. unfold new_coins. destruct (Z.eqb_spec x 0); [reflexivity|].
  cbn. destruct (Z.ltb_spec 0 x); [reflexivity|lia].
Qed.

Lemma new_coins_total d x dd : total_of dd (new_coins d x) = if Nat.eqb d dd then x else 0.
Proof.
  unfold new_coins. destruct (Z.eqb_spec x 0) as [->|]; cbn [total_of].
  - destruct (Nat.eqb d dd); reflexivity.
  - destruct (Nat.eqb d dd); lia.
Qed.

(* frame of a strategy deposit: only the earn module account's position, savings deposit and coins move *)
Lemma strat_deposit_frame e s d x s' : strat_deposit e s d x = Some s' ->
  vrec s' = vrec s /\ shr s' = shr s /\
  (forall a dd, a <> earn_acc e -> sdep (sv s') a dd = sdep (sv s) a dd) /\
  (forall a dd, a <> earn_acc e -> a <> sav_acc (se e) -> a <> hard_acc e -> bal (sv s') a dd = bal (sv s) a dd) /\
  (forall dd, dd <> d -> hval s' dd = hval s dd /\ sdep (sv s') (earn_acc e) dd = sdep (sv s) (earn_acc e) dd) /\
  (forall V, total_value e s d = Some V -> total_value e s' d = Some (V + x)).
Proof.
  unfold strat_deposit. destruct (vault_strat e d) as [|[|[|k]]] eqn:ES; try discriminate.
  - (* hard *)
    unfold hard_deposit. destruct (negb (hard_mm e d)); [discriminate|].
    destruct (bsend1 _ _ _ _ _) as [b|] eqn:E; [|discriminate].
    intros HH; inversion HH; subst; clear HH. cbn [vrec shr sv sdep bal hval].
    destruct (bsend1_spec _ _ _ _ _ _ E) as [_ Eb].
    repeat split; auto.
    + intros a dd H1 H2 H3. rewrite Eb. unfold at2.
      destruct (Nat.eqb_spec a (earn_acc e)), (Nat.eqb_spec a (hard_acc e)); try congruence. cbn [andb]. lia.
    + unfold upd. destruct (Nat.eqb_spec dd d); congruence.
    + intros V. unfold total_value. rewrite ES. cbn [hval]. unfold upd. rewrite Nat.eqb_refl.
      intros HV; inversion HV; subst. reflexivity.
  - (* savings *)
    destruct (sav_deposit _ _ _ _) as [x' []| |] eqn:E; try discriminate.
    intros HH; inversion HH; subst; clear HH. unfold with_sv. cbn [vrec shr sv hval].
    destruct (sav_deposit_spec _ _ _ _ _ E) as [Eb Ed].
    repeat split; auto.
    + intros a dd Ha. rewrite Ed. destruct (Nat.eqb_spec a (earn_acc e)); [congruence|lia].
    + intros a dd H1 H2 H3. rewrite Eb.
      destruct (Nat.eqb_spec a (earn_acc e)), (Nat.eqb_spec a (sav_acc (se e))); try congruence. lia.
    + rewrite Ed, Nat.eqb_refl, new_coins_total. destruct (Nat.eqb_spec d dd); [congruence|lia].
    + intros V. unfold total_value. rewrite ES. cbn [sv]. intros HV; inversion HV; subst.
      rewrite Ed, Nat.eqb_refl, new_coins_total, Nat.eqb_refl. reflexivity.
Qed.

Lemma strat_deposit_inv e s d x s' : env_wf e -> SInv (se e) (sv s) -> (forall dd, 0 <= hval s dd) -> 0 <= x ->
  strat_deposit e s d x = Some s' -> SInv (se e) (sv s') /\ (forall dd, 0 <= hval s' dd).
Proof.
  intros (W1 & W2 & W3 & W4 & W5 & W6) HS Hh Hx.
  unfold strat_deposit. destruct (vault_strat e d) as [|[|[|k]]] eqn:ES; try discriminate.
  - unfold hard_deposit. destruct (negb (hard_mm e d)); [discriminate|].
    destruct (bsend1 _ _ _ _ _) as [b|] eqn:E; [|discriminate].
    intros HH; inversion HH; subst; clear HH. cbn [sv hval]. split.
    + eapply SInv_bsend1; eauto.
    + intros dd. unfold upd. specialize (Hh dd). destruct (Nat.eqb_spec dd d); subst; lia.
  - destruct (sav_deposit _ _ _ _) as [x' []| |] eqn:E; try discriminate.
    intros HH; inversion HH; subst; clear HH. unfold with_sv. cbn [sv hval]. split; [|exact Hh].
    apply (sav_deposit_inv (se e) (sv s) (earn_acc e) (new_coins d x) x' W1 HS); auto.
    apply valid_nonneg, new_coins_valid; assumption.
Qed.

Lemma sav_withdraw_frame e s a c s' out : sav_withdraw e s a c = Ok s' out ->
  exists amt, (forall x d, sdep s' x d = sdep s x d - (if Nat.eqb x a then total_of d amt else 0)) /\
  (forall x d, bal s' x d = bal s x d - (if Nat.eqb x (sav_acc e) then total_of d amt else 0)
                                   + (if Nat.eqb x a then total_of d amt else 0)).
Proof.
  unfold sav_withdraw. destruct (negb _); [discriminate|].
  destruct (calc_withdraw s a c) as [amt|]; [|discriminate].
  destruct (bsend _ _ _ _) as [b|] eqn:E; [|discriminate].
  intros HH; inversion HH; subst; clear HH. exists out. cbn [bal sdep]. split.
  - intros x d. apply dep_sub_spec.
  - intros x d. apply (bsend_spec _ _ _ _ _ E).
Qed.

Lemma strat_withdraw_frame e s d w s' : strat_withdraw e s d w = Some s' ->
  vrec s' = vrec s /\ shr s' = shr s /\
  (forall a dd, a <> earn_acc e -> sdep (sv s') a dd = sdep (sv s) a dd) /\
  (forall a dd, a <> earn_acc e -> a <> sav_acc (se e) -> a <> hard_acc e -> bal (sv s') a dd = bal (sv s) a dd).
Proof.
  unfold strat_withdraw. destruct (vault_strat e d) as [|[|[|k]]] eqn:ES; try discriminate.
  - unfold hard_withdraw. destruct (negb (hard_found e s)); [discriminate|].
    destruct (w =? 0); [intros HH; inversion HH; subst; auto|].
    destruct (hval s d <=? 0); [discriminate|].
    destruct (bsend1 _ _ _ _ _) as [b|] eqn:E; [|discriminate].
    intros HH; inversion HH; subst; clear HH. cbn [vrec shr sv sdep bal].
    destruct (bsend1_spec _ _ _ _ _ _ E) as [_ Eb].
    repeat split; auto.
    intros a dd H1 H2 H3. rewrite Eb. unfold at2.
    destruct (Nat.eqb_spec a (earn_acc e)), (Nat.eqb_spec a (hard_acc e)); try congruence. cbn [andb]. lia.
  - destruct (sav_withdraw _ _ _ _) as [x' o| |] eqn:E; try discriminate.
    intros HH; inversion HH; subst; clear HH. unfold with_sv. cbn [vrec shr sv].
    destruct (sav_withdraw_frame _ _ _ _ _ _ E) as (amt & Ed & Eb).
    repeat split; auto.
    + intros a dd Ha. rewrite Ed. destruct (Nat.eqb_spec a (earn_acc e)); [congruence|lia].
    + intros a dd H1 H2 H3. rewrite Eb.
      destruct (Nat.eqb_spec a (earn_acc e)), (Nat.eqb_spec a (sav_acc (se e))); try congruence. lia.
Qed.

Lemma strat_withdraw_inv e s d w s' : env_wf e -> SInv (se e) (sv s) -> (forall dd, 0 <= hval s dd) -> 0 <= w ->
  strat_withdraw e s d w = Some s' ->
  SInv (se e) (sv s') /\ (forall dd, 0 <= hval s' dd) /\
  (forall V, total_value e s d = Some V -> total_value e s' d = Some (V - Z.min w V)) /\
  (forall dd, dd <> d -> total_value e s' dd = total_value e s dd).
Proof.
  intros (W1 & W2 & W3 & W4 & W5 & W6) HS Hh Hw.
  unfold strat_withdraw. destruct (vault_strat e d) as [|[|[|k]]] eqn:ES; try discriminate.
  - unfold hard_withdraw. destruct (negb (hard_found e s)); [discriminate|].
    destruct (Z.eqb_spec w 0) as [->|Hw0].
    { intros HH; inversion HH; subst. split; [exact HS|]. split; [exact Hh|]. split; [|auto].
      intros V HV. pose proof HV as HV'. unfold total_value in HV'. rewrite ES in HV'. inversion HV'; subst.
      rewrite HV. f_equal. specialize (Hh d). lia. }
    destruct (Z.leb_spec (hval s d) 0) as [|Hpos]; [discriminate|].
    destruct (bsend1 _ _ _ _ _) as [b|] eqn:E; [|discriminate].
    intros HH; inversion HH; subst; clear HH. cbn [sv hval]. split; [|split; [|split]].
    + eapply SInv_bsend1; eauto. lia.
    + intros dd. unfold upd. specialize (Hh dd). destruct (Nat.eqb_spec dd d); subst; lia.
    + intros V. unfold total_value. rewrite ES. cbn [hval]. unfold upd. rewrite Nat.eqb_refl.
      intros HV; inversion HV; subst. reflexivity.
    + intros dd Hdd. unfold total_value. cbn [hval sv]. unfold upd.
      destruct (Nat.eqb_spec dd d); [congruence|reflexivity].
  - destruct (sav_withdraw _ _ _ _) as [x' o| |] eqn:E; try discriminate.
    intros HH; inversion HH; subst; clear HH. unfold with_sv. cbn [sv hval].
    pose proof (new_coins_valid d w Hw) as Vc.
    pose proof HS as (Hb & Hd & Hs).
    destruct (sav_withdraw_spec _ _ _ _ _ _ Vc (Hd (earn_acc e)) E) as (T & Eb & Ed).
    split; [|split; [|split]].
    + apply (sav_withdraw_inv (se e) (sv s) (earn_acc e) (new_coins d w) x' o W1); auto.
    + exact Hh.
    + intros V. unfold total_value. rewrite ES. cbn [sv]. intros HV; inversion HV; subst.
      rewrite Ed, Nat.eqb_refl. unfold paid. rewrite new_coins_total, Nat.eqb_refl. reflexivity.
    + intros dd Hdd. unfold total_value. cbn [sv hval]. rewrite Ed, Nat.eqb_refl. unfold paid.
      rewrite new_coins_total. destruct (Nat.eqb_spec d dd); [congruence|].
      specialize (Hd (earn_acc e) dd). replace (Z.min 0 (sdep (sv s) (earn_acc e) dd)) with 0 by lia.
      rewrite Z.sub_0_r. reflexivity.
Qed.

(** ** updating the records of one account in one vault *)
Lemma Inv_update e s s' u d delta :
  Inv e s -> SInv (se e) (sv s') -> (forall dd, 0 <= hval s' dd) -> (u < nacc (se e))%nat ->
  0 <= shr s u d + delta -> 0 <= tot s d + delta ->
  vrec s' = upd (vrec s) d (if tot s d + delta =? 0 then None else Some (tot s d + delta)) ->
  shr s' = upd2 (shr s) u d (shr s u d + delta) ->
  Inv e s'.
Proof.
  intros (_ & _ & Hv & Hs & Hsum) HS Hh Hu H1 H2 EV ES.
  split; [exact HS|]. split; [exact Hh|]. split; [|split].
  - intros dd t. rewrite EV. unfold upd. destruct (Nat.eqb_spec dd d) as [->|].
    + destruct (Z.eqb_spec (tot s d + delta) 0); [discriminate|]. intros HH; inversion HH; subst. lia.
    + apply Hv.
  - intros a dd. rewrite ES, upd2_eq. specialize (Hs a dd).
    destruct (Nat.eqb_spec a u), (Nat.eqb_spec dd d); subst; cbn [andb]; lia.
  - intros dd. unfold tot. rewrite EV, ES. unfold upd.
    destruct (Nat.eqb_spec dd d) as [->|Hne].
    + rewrite (sumN_ext _ _ (fun a => shr s a d + (if Nat.eqb a u then delta else 0))).
      2:{ intros a _. rewrite upd2_eq, Nat.eqb_refl. destruct (Nat.eqb_spec a u); subst; cbn [andb]; lia. }
      rewrite sumN_add_at by assumption. rewrite <- Hsum.
      destruct (Z.eqb_spec (tot s d + delta) 0); lia.
    + rewrite (sumN_ext _ _ (fun a => shr s a dd)).
      2:{ intros a _. rewrite upd2_eq. destruct (Nat.eqb_spec dd d); [congruence|]. rewrite andb_false_r. reflexivity. }
      apply Hsum.
Qed.

(** ** deposit.go *)
Lemma earn_deposit_ok e s u d x st s' out : earn_deposit e s u d x st = Ok s' out ->
  exists b sh s3,
    0 < x /\ vault_strat e d <> 0%nat /\ vault_allowed e d u = true /\
    bsend1 (bal (sv s)) u (earn_acc e) d x = Some b /\
    convert_to_shares e s d x = Val sh /\
    strat_deposit e (mkE (mkS b (sdep (sv s))) (hval s) (upd (vrec s) d (Some (tot s d + sh))) (upd2 (shr s) u d (shr s u d + sh))) d x = Some s3 /\
    s' = s3 /\ out = 0.
Proof.
  unfold earn_deposit.
  destruct (Z.ltb_spec x 0); [discriminate|].
  destruct (Nat.eqb_spec (vault_strat e d) 0); [discriminate|].
  destruct (Z.eqb_spec x 0); [discriminate|].
  destruct (negb (Nat.eqb st (vault_strat e d))); [discriminate|].
  destruct (vault_allowed e d u); [|discriminate]. cbn [negb].
  destruct (bsend1 _ _ _ _ _) as [b|] eqn:E; [|discriminate].
  rewrite (cts_frame e s (with_sv s (mkS b (sdep (sv s)))) d x) by (unfold same_vaults, with_sv; cbn; auto).
  destruct (convert_to_shares e s d x) as [sh| |] eqn:EC; try discriminate.
  unfold with_sv. cbn [sv hval vrec shr].
  destruct (strat_deposit _ _ _ _) as [s3|] eqn:ESD; [|discriminate].
  intros HH; inversion HH; subst. exists b, sh, s'. unfold tot. repeat split; auto; lia.
Qed.

Lemma earn_deposit_inv e s u d x st s' out : env_wf e -> Inv e s -> is_user e u = true ->
  earn_deposit e s u d x st = Ok s' out -> Inv e s'.
Proof.
  intros Hwf HI Hu H. destruct (is_user_spec _ _ Hu) as (U1 & U2 & U3 & U4).
  destruct (earn_deposit_ok _ _ _ _ _ _ _ _ H) as (b & sh & s3 & Hx & _ & _ & E1 & EC & ESD & -> & _).
  destruct (cts_val _ _ _ _ _ HI Hx EC) as [Hsh _].
  pose proof HI as (HS & Hh & _).
  destruct Hwf as (W1 & W2 & W3 & W4 & W5 & W6).
  assert (HS1 : SInv (se e) (mkS b (sdep (sv s)))) by (eapply SInv_bsend1; eauto; lia).
  assert (R : SInv (se e) (sv s3) /\ (forall dd, 0 <= hval s3 dd)).
  { eapply (fun a b c dd => strat_deposit_inv e _ d x s3 a b c dd ESD); cbn [sv hval]; auto; [repeat split; auto|lia]. }
  destruct R as [HS3 Hh3].
  destruct (strat_deposit_frame _ _ _ _ _ ESD) as (EV & ESH & _). cbn [vrec shr] in EV, ESH.
  pose proof (tot_nonneg e s d HI). pose proof HI as (_ & _ & _ & Hs & _). specialize (Hs u d).
  eapply (Inv_update e s s3 u d sh); eauto; try lia.
  rewrite EV. destruct (Z.eqb_spec (tot s d + sh) 0); [lia|reflexivity].
Qed.

(** ** withdraw.go *)
Lemma earn_withdraw_ok e s u d x st s' w : earn_withdraw e s u d x st = Ok s' w ->
  exists T ws0 av s1 b rest,
    0 < x /\ vrec s d = Some T /\
    convert_to_shares e s d x = Val ws0 /\ ws0 <= shr s u d /\
    convert_to_assets e s d ws0 = Val w /\
    account_value e s u d = Val av /\ w <= av /\
    strat_withdraw e s d w = Some s1 /\
    bsend1 (bal (sv s1)) (earn_acc e) u d w = Some b /\
    convert_to_assets e (with_sv s1 (mkS b (sdep (sv s1)))) d (shr s u d - ws0) = Val rest /\
    0 <= T - (if rest =? 0 then shr s u d else ws0) /\
    s' = mkE (mkS b (sdep (sv s1))) (hval s1)
             (upd (vrec s1) d (if T - (if rest =? 0 then shr s u d else ws0) =? 0 then None
                               else Some (T - (if rest =? 0 then shr s u d else ws0))))
             (upd2 (shr s1) u d (shr s u d - (if rest =? 0 then shr s u d else ws0))).
Proof.
  unfold earn_withdraw.
  destruct (Z.ltb_spec x 0); [discriminate|].
  destruct (Nat.eqb_spec (vault_strat e d) 0); [discriminate|].
  destruct (Z.eqb_spec x 0); [discriminate|].
  destruct (negb (Nat.eqb st (vault_strat e d))); [discriminate|].
  destruct (vrec s d) as [T|] eqn:EV; [|discriminate].
  destruct (negb (share_found e s u)); [discriminate|].
  destruct (convert_to_shares e s d x) as [ws0| |] eqn:EC; try discriminate.
  destruct (Z.ltb_spec (shr s u d) ws0); [discriminate|].
  destruct (convert_to_assets e s d ws0) as [w0| |] eqn:EA; try discriminate.
  destruct (account_value e s u d) as [av| |] eqn:EAV; try discriminate.
  destruct (Z.ltb_spec av w0); [discriminate|].
  destruct (strat_withdraw e s d w0) as [s1|] eqn:ESW; [|discriminate].
  destruct (bsend1 _ _ _ _ _) as [b|] eqn:EB; [|discriminate].
  destruct (convert_to_assets e (with_sv s1 (mkS b (sdep (sv s1)))) d (shr s u d - ws0)) as [rest| |] eqn:ER; try discriminate.
  cbv zeta.
  destruct (Z.ltb_spec (T - (if rest =? 0 then shr s u d else ws0)) 0); [discriminate|].
  intros HH; inversion HH; subst.
  exists T, ws0, av, s1, b, rest. unfold with_sv. cbn [sv hval vrec shr].
  repeat split; auto; lia.
Qed.

Lemma earn_withdraw_inv e s u d x st s' w : env_wf e -> Inv e s -> is_user e u = true ->
  earn_withdraw e s u d x st = Ok s' w -> Inv e s'.
Proof.
  intros Hwf HI Hu H. destruct (is_user_spec _ _ Hu) as (U1 & U2 & U3 & U4).
  destruct (earn_withdraw_ok _ _ _ _ _ _ _ _ H) as (T & ws0 & av & s1 & b & rest & Hx & EV & EC & Hle & EA & _ & _ & ESW & EB & _ & Hge & ->).
  destruct (cts_val _ _ _ _ _ HI Hx EC) as [Hws0 _].
  assert (Hws0' : 0 <= ws0) by lia.
  destruct (cta_val _ _ _ _ _ HI Hws0' EA) as (_ & _ & _ & _ & _ & _ & _ & Hw).
  pose proof HI as (HS & Hh & _ & Hs & _).
  destruct (strat_withdraw_inv e s d w s1 Hwf HS Hh Hw ESW) as (HS1 & Hh1 & _).
  destruct (strat_withdraw_frame _ _ _ _ _ ESW) as (EV1 & ESH1 & _).
  destruct Hwf as (W1 & W2 & W3 & W4 & W5 & W6).
  assert (HS2 : SInv (se e) (mkS b (sdep (sv s1)))) by (eapply SInv_bsend1; eauto).
  set (ws := if rest =? 0 then shr s u d else ws0) in *.
  assert (Hws : 0 <= ws <= shr s u d) by (specialize (Hs u d); unfold ws; destruct (rest =? 0); lia).
  assert (Ht : tot s d = T) by (unfold tot; rewrite EV; reflexivity).
  eapply (Inv_update e s _ u d (- ws)); eauto; cbn [sv hval vrec shr]; try lia.
  - rewrite EV1, Ht. replace (T + - ws) with (T - ws) by lia. reflexivity.
  - rewrite ESH1. replace (shr s u d + - ws) with (shr s u d - ws) by lia. reflexivity.
Qed.

(** ** all operations preserve the invariant *)
Lemma step_inv e s o s' out : env_wf e -> Inv e s -> step e s o = Ok s' out -> Inv e s'.
Proof.
  intros Hwf HI. pose proof Hwf as (W1 & W2 & W3 & W4 & W5 & W6).
  pose proof HI as (HS & Hh & Hv & Hs & Hsum).
  destruct o as [u c|u c|u d x st|u d x st|d v|d delta|u d x]; cbn [step].
  - destruct (is_user e u) eqn:Hu; [|discriminate]. destruct (is_user_spec _ _ Hu) as (U1 & U2 & U3 & U4).
    destruct (sav_msg_deposit _ _ _ _) as [x' []| |] eqn:E; cbn [lift]; try discriminate.
    intros HH; inversion HH; subst. unfold with_sv. split; [|auto]. cbn [sv].
    eapply sav_msg_deposit_inv; eauto.
  - destruct (is_user e u) eqn:Hu; [|discriminate]. destruct (is_user_spec _ _ Hu) as (U1 & U2 & U3 & U4).
    destruct (sav_msg_withdraw _ _ _ _) as [x' o| |] eqn:E; cbn [lift]; try discriminate.
    intros HH; inversion HH; subst. unfold with_sv. split; [|auto]. cbn [sv].
    eapply sav_msg_withdraw_inv; eauto.
  - destruct (is_user e u) eqn:Hu; [|discriminate]. apply earn_deposit_inv; auto.
  - destruct (is_user e u) eqn:Hu; [|discriminate]. apply earn_withdraw_inv; auto.
  - destruct (Nat.eqb (vault_strat e d) 1 && (hval s d <=? v) && (negb (hval s d =? 0) || (v =? 0))) eqn:C; [|discriminate].
    apply andb_prop in C. destruct C as [C _]. apply andb_prop in C. destruct C as [_ C]. apply Z.leb_le in C.
    intros HH; inversion HH; subst. split; [exact HS|]. split; [|auto].
    intros dd. cbn [hval]. unfold upd. pose proof (Hh d) as Hd0. specialize (Hh dd). destruct (Nat.eqb_spec dd d); subst; lia.
  - destruct (Z.leb_spec 0 (bal (sv s) (hard_acc e) d + delta)); [|discriminate].
    intros HH; inversion HH; subst. unfold with_sv. split; [|auto]. cbn [sv].
    destruct HS as (Hb & Hd & Hsm). split; [|split]; cbn [bal sdep]; auto.
    + intros a dd. rewrite upd2_eq. specialize (Hb a dd).
      destruct (Nat.eqb_spec a (hard_acc e)), (Nat.eqb_spec dd d); subst; cbn [andb]; lia.
    + intros dd. rewrite upd2_eq. destruct (Nat.eqb_spec (sav_acc (se e)) (hard_acc e)); [congruence|]. cbn [andb]. apply Hsm.
  - destruct (is_user e u) eqn:Hu; cbn [negb orb]; [|discriminate]. destruct (is_user_spec _ _ Hu) as (U1 & U2 & U3 & U4).
    destruct (Z.leb_spec x 0); [discriminate|].
    destruct (bsend1 _ _ _ _ _) as [b|] eqn:E; [|discriminate].
    intros HH; inversion HH; subst. unfold with_sv. split; [|auto]. cbn [sv].
    eapply SInv_bsend1; eauto. lia.
Qed.

Lemma step'_inv e s o : env_wf e -> Inv e s -> Inv e (step' e s o).
Proof.
  intros Hwf HI. unfold step'. destruct (step e s o) as [s' out| |] eqn:E; auto.
  eapply step_inv; eauto.
Qed.

Lemma run_inv e ops : forall s, env_wf e -> Inv e s -> Inv e (run e s ops).
Proof.
  induction ops as [|o r IH]; intros s Hwf HI; cbn [run fold_left]; [assumption|].
  apply IH; [assumption|]. apply step'_inv; assumption.
Qed.

(** ** earn_withdraw_capped *)
Lemma withdraw_capped e s u d x st s' w : env_wf e -> Inv e s -> is_user e u = true ->
  earn_withdraw e s u d x st = Ok s' w ->
  0 <= w /\ w <= x /\ w <= value_of e s u d /\
  account_value e s u d = Val (value_of e s u d) /\
  bal (sv s') u d = bal (sv s) u d + w /\
  (forall V, total_value e s d = Some V -> w <= V /\ total_value e s' d = Some (V - w)).
Proof.
  intros Hwf HI Hu H. destruct (is_user_spec _ _ Hu) as (U1 & U2 & U3 & U4).
  destruct (earn_withdraw_ok _ _ _ _ _ _ _ _ H) as (T & ws0 & av & s1 & b & rest & Hx & EV & EC & Hle & EA & EAV & Hav & ESW & EB & _ & _ & ->).
  destruct (cts_val _ _ _ _ _ HI Hx EC) as [Hws0 HC]. rewrite EV in HC. destruct HC as (V & ET & HV & ->).
  assert (Hws0' : 0 <= x * T / V) by lia.
  destruct (cta_val _ _ _ _ _ HI Hws0' EA) as (T' & V' & EV' & ET' & HT & _ & -> & Hw).
  rewrite EV in EV'. inversion EV'; subst T'. rewrite ET in ET'. inversion ET'; subst V'.
  pose proof (account_value_val _ _ _ _ _ EAV) as Eval. subst av.
  pose proof HI as (HS & Hh & _ & Hs & _).
  assert (WX : V * (x * T / V) / T <= x).
  { apply Z.div_le_upper_bound; [lia|]. pose proof (Z.mul_div_le (x * T) V HV). nia. }
  assert (WV : V * (x * T / V) / T <= V).
  { apply Z.div_le_upper_bound; [lia|]. pose proof (shr_le_tot e s u d HI U1) as Hst. unfold tot in Hst. rewrite EV in Hst. nia. }
  destruct (strat_withdraw_frame _ _ _ _ _ ESW) as (_ & _ & _ & Hbal).
  destruct (strat_withdraw_inv e s d _ s1 Hwf HS Hh Hw ESW) as (_ & _ & Htv & _).
  destruct (bsend1_spec _ _ _ _ _ _ EB) as [_ Eb].
  split; [exact Hw|]. split; [exact WX|]. split; [exact Hav|]. split; [exact EAV|]. split.
  - cbn [sv bal]. rewrite Eb, Hbal by auto. unfold at2. rewrite !Nat.eqb_refl.
    destruct (Nat.eqb_spec u (earn_acc e)); [congruence|]. cbn [andb]. lia.
  - intros V0 E0. rewrite ET in E0. inversion E0; subst V0. split; [exact WV|].
    specialize (Htv _ ET). rewrite Z.min_l in Htv by exact WV.
    rewrite <- Htv. unfold total_value. cbn [hval sv sdep]. reflexivity.
Qed.

(** ** earn_roundtrip_no_profit (partial): the value of the depositor grows by at most the deposit *)
Lemma deposit_value_bound e s u d x st s' out : env_wf e -> Inv e s -> is_user e u = true ->
  earn_deposit e s u d x st = Ok s' out ->
  (vrec s d <> None \/ total_value e s d = Some 0) ->
  value_of e s' u d <= value_of e s u d + x.
Proof.
  intros Hwf HI Hu H Hguard. destruct (is_user_spec _ _ Hu) as (U1 & U2 & U3 & U4).
  pose proof (earn_deposit_inv _ _ _ _ _ _ _ _ Hwf HI Hu H) as HI'.
  destruct (earn_deposit_ok _ _ _ _ _ _ _ _ H) as (b & sh & s3 & Hx & Hvs & _ & E1 & EC & ESD & -> & _).
  destruct (cts_val _ _ _ _ _ HI Hx EC) as [Hsh HC].
  destruct (strat_deposit_frame _ _ _ _ _ ESD) as (EV3 & ESH3 & _ & _ & _ & Htv). cbn [vrec shr] in EV3, ESH3.
  assert (ES' : shr s3 u d = shr s u d + sh).
  { rewrite ESH3, upd2_eq, !Nat.eqb_refl. reflexivity. }
  assert (EV' : vrec s3 d = Some (tot s d + sh)).
  { rewrite EV3. unfold upd. rewrite Nat.eqb_refl. reflexivity. }
  pose proof HI as (_ & _ & _ & Hs & _). specialize (Hs u d).
  destruct (vrec s d) as [T|] eqn:EV.
  - destruct HC as (V & ET & HV & ->).
    assert (ET3 : total_value e s3 d = Some (V + x)).
    { apply Htv. rewrite <- ET. apply tv_frame2; reflexivity. }
    destruct (value_of_eq e s u d T V HI EV ET) as [_ ->].
    destruct (value_of_eq e s3 u d _ _ HI' EV' ET3) as [_ ->].
    rewrite ES'. unfold tot. rewrite EV.
    pose proof (shr_le_tot e s u d HI U1) as Hst. unfold tot in Hst. rewrite EV in Hst.
    pose proof HI as (_ & _ & Hv & _). specialize (Hv _ _ EV).
    set (k := x * T / V) in *. set (a := shr s u d) in *.
    assert (Hk : k * V <= x * T) by (unfold k; pose proof (Z.mul_div_le (x * T) V HV); lia).
    replace (V * a / T + x) with ((V * a + x * T) / T) by (rewrite Z.div_add by lia; reflexivity).
    apply div_le_cross; try lia.
    (* (V+x)(a+k) T <= (V a + x T)(T+k)  <=>  0 <= (T-a)(x T - k V) *)
    assert (0 <= (T - a) * (x * T - k * V)) by (apply Z.mul_nonneg_nonneg; lia).
    nia.
  - (* no vault record: the guard says the vault holds no value *)
    destruct Hguard as [Hg|Hg]; [congruence|].
    subst sh.
    assert (ET3 : total_value e s3 d = Some (0 + x)).
    { apply Htv. rewrite <- Hg. apply tv_frame2; reflexivity. }
    rewrite (value_of_none e s u d EV).
    destruct (value_of_eq e s3 u d _ _ HI' EV' ET3) as [_ ->].
    rewrite ES'. unfold tot. rewrite EV.
    (* no record: every account's shares are zero *)
    pose proof HI as (_ & _ & _ & Hss & Hsum). specialize (Hsum d). unfold tot in Hsum. rewrite EV in Hsum.
    pose proof (sumN_zero _ (fun a => shr s a d) u (fun a => Hss a d) (eq_sym Hsum) U1) as Hz. cbn beta in Hz.
    rewrite Hz. rewrite !Z.add_0_l. pose proof PREC_pos.
    rewrite Z.div_mul by nia. lia.
Qed.

(* deposit then withdraw: no more than the deposit plus what the account could redeem before *)
Lemma roundtrip_partial e s u d x st s1 o1 y st' s2 w : env_wf e -> Inv e s -> is_user e u = true ->
  earn_deposit e s u d x st = Ok s1 o1 ->
  (vrec s d <> None \/ total_value e s d = Some 0) ->
  earn_withdraw e s1 u d y st' = Ok s2 w ->
  w <= value_of e s u d + x.
Proof.
  intros Hwf HI Hu H1 Hg H2.
  pose proof (earn_deposit_inv _ _ _ _ _ _ _ _ Hwf HI Hu H1) as HI1.
  pose proof (deposit_value_bound _ _ _ _ _ _ _ _ Hwf HI Hu H1 Hg).
  destruct (withdraw_capped _ _ _ _ _ _ _ _ Hwf HI1 Hu H2) as (_ & _ & Hc & _). lia.
Qed.

(** ** others_untouched *)
Definition actor (o : op) : option nat :=
  match o with
  | SDeposit u _ | SWithdraw u _ | EDeposit u _ _ _ | EWithdraw u _ _ _ | Donate u _ _ => Some u
  | Accrue _ _ | HardFlow _ _ => None
  end.

Lemma others_untouched e s o s' out : step e s o = Ok s' out ->
  forall w, actor o <> Some w ->
  (forall d, shr s' w d = shr s w d) /\
  (w <> earn_acc e -> forall d, sdep (sv s') w d = sdep (sv s) w d).
Proof.
  destruct o as [u c|u c|u d x st|u d x st|d v|d delta|u d x]; cbn [step actor]; intros H w Hw.
  - destruct (is_user e u); [|discriminate].
    unfold sav_msg_deposit in H. destruct (msg_coins_ok c); [|discriminate].
    destruct (sav_deposit _ _ _ _) as [x' []| |] eqn:E; cbn [lift] in H; try discriminate.
    inversion H; subst. unfold with_sv. cbn [shr sv]. split; [reflexivity|]. intros _ d.
    destruct (sav_deposit_spec _ _ _ _ _ E) as [_ Ed]. rewrite Ed.
    destruct (Nat.eqb_spec w u); [congruence|lia].
  - destruct (is_user e u); [|discriminate].
    unfold sav_msg_withdraw in H. destruct (msg_coins_ok c); [|discriminate].
    destruct (sav_withdraw _ _ _ _) as [x' o| |] eqn:E; cbn [lift] in H; try discriminate.
    inversion H; subst. unfold with_sv. cbn [shr sv]. split; [reflexivity|]. intros _ d.
    destruct (sav_withdraw_frame _ _ _ _ _ _ E) as (amt & Ed & _). rewrite Ed.
    destruct (Nat.eqb_spec w u); [congruence|lia].
  - destruct (is_user e u); [|discriminate].
    destruct (earn_deposit_ok _ _ _ _ _ _ _ _ H) as (b & sh & s3 & _ & _ & _ & _ & _ & ESD & -> & _).
    destruct (strat_deposit_frame _ _ _ _ _ ESD) as (_ & ESH & Hsd & _). cbn [shr sv sdep] in ESH, Hsd.
    split.
    + intros dd. rewrite ESH, upd2_eq. destruct (Nat.eqb_spec w u); [congruence|reflexivity].
    + intros Hne dd. apply Hsd; assumption.
  - destruct (is_user e u); [|discriminate].
    destruct (earn_withdraw_ok _ _ _ _ _ _ _ _ H) as (T & ws0 & av & s1 & b & rest & _ & _ & _ & _ & _ & _ & _ & ESW & _ & _ & _ & ->).
    destruct (strat_withdraw_frame _ _ _ _ _ ESW) as (_ & ESH & Hsd & _).
    cbn [shr sv sdep]. split.
    + intros dd. rewrite upd2_eq, ESH. destruct (Nat.eqb_spec w u); [congruence|reflexivity].
    + intros Hne dd. apply Hsd; assumption.
  - destruct (_ && _ && _); [|discriminate]. inversion H; subst. cbn. auto.
  - destruct (0 <=? _); [|discriminate]. inversion H; subst. unfold with_sv. cbn. auto.
  - destruct (negb (is_user e u) || (x <=? 0)); [discriminate|].
    destruct (bsend1 _ _ _ _ _); [|discriminate]. inversion H; subst. unfold with_sv. cbn. auto.
Qed.

(** ** savings operations at the level of [step]: exact deltas *)
Lemma step_swithdraw_exact e s u c s' out : Inv e s -> step e s (SWithdraw u c) = Ok s' out ->
  let pay d := Z.min (total_of d c) (sdep (sv s) u d) in
  coins_valid c = true /\
  (forall d, bal (sv s') u d = bal (sv s) u d + pay d) /\
  (forall d, sdep (sv s') u d = sdep (sv s) u d - pay d) /\
  (forall d, bal (sv s') (sav_acc (se e)) d = bal (sv s) (sav_acc (se e)) d - pay d) /\
  (forall d, 0 <= pay d <= sdep (sv s) u d) /\
  (forall x d, x <> u -> x <> sav_acc (se e) -> bal (sv s') x d = bal (sv s) x d) /\
  (forall x d, x <> u -> sdep (sv s') x d = sdep (sv s) x d) /\
  hval s' = hval s /\ vrec s' = vrec s /\ shr s' = shr s.
Proof.
  intros HI. cbn [step]. destruct (is_user e u) eqn:Hu; [|discriminate].
  destruct (is_user_spec _ _ Hu) as (U1 & U2 & U3 & U4).
  destruct (sav_msg_withdraw _ _ _ _) as [x' o| |] eqn:E; cbn [lift]; try discriminate.
  intros HH; inversion HH; subst; clear HH. unfold with_sv. cbn [sv hval vrec shr].
  pose proof HI as (HS & _).
  destruct (sav_msg_withdraw_exact _ _ _ _ _ _ HS U3 E) as (_ & A & B & C & D & F).
  assert (Vc : coins_valid c = true).
  { unfold sav_msg_withdraw, msg_coins_ok in E. destruct (coins_valid c); [reflexivity|discriminate]. }
  repeat split; auto.
  - pose proof (total_of_nonneg d c (valid_nonneg c Vc)). destruct HS as (_ & Hd & _). specialize (Hd u d). lia.
  - lia.
Qed.

Lemma step_sdeposit_exact e s u c s' out : step e s (SDeposit u c) = Ok s' out ->
  (forall d, bal (sv s') u d = bal (sv s) u d - total_of d c) /\
  (forall d, sdep (sv s') u d = sdep (sv s) u d + total_of d c) /\
  (forall d, bal (sv s') (sav_acc (se e)) d = bal (sv s) (sav_acc (se e)) d + total_of d c) /\
  (forall x d, x <> u -> x <> sav_acc (se e) -> bal (sv s') x d = bal (sv s) x d) /\
  (forall x d, x <> u -> sdep (sv s') x d = sdep (sv s) x d) /\
  hval s' = hval s /\ vrec s' = vrec s /\ shr s' = shr s.
Proof.
  cbn [step]. destruct (is_user e u) eqn:Hu; [|discriminate].
  destruct (is_user_spec _ _ Hu) as (U1 & U2 & U3 & U4).
  destruct (sav_msg_deposit _ _ _ _) as [x' []| |] eqn:E; cbn [lift]; try discriminate.
  intros HH; inversion HH; subst; clear HH. unfold with_sv. cbn [sv hval vrec shr].
  destruct (sav_msg_deposit_exact _ _ _ _ _ U3 E) as (A & B & C & D & F).
  repeat split; auto.
Qed.

(* the savings position of the earn module account is covered by the savings module account's coins *)
Lemma savings_position_backed e s d : env_wf e -> Inv e s ->
  sdep (sv s) (earn_acc e) d <= bal (sv s) (sav_acc (se e)) d.
Proof.
  intros (_ & W2 & _) ((_ & Hd & Hs) & _). rewrite Hs.
  apply (sumN_ge1 _ (fun a => sdep (sv s) a d) (earn_acc e)); auto.
Qed.

(* a deposit pays exactly the amount out of the depositor's coins and raises the strategy position by it *)
Lemma deposit_exact e s u d x st s' out : env_wf e -> is_user e u = true ->
  earn_deposit e s u d x st = Ok s' out ->
  0 < x /\ bal (sv s') u d = bal (sv s) u d - x /\
  (forall V, total_value e s d = Some V -> total_value e s' d = Some (V + x)) /\
  shr s u d < shr s' u d.
Proof.
  intros Hwf Hu H. destruct (is_user_spec _ _ Hu) as (U1 & U2 & U3 & U4).
  destruct (earn_deposit_ok _ _ _ _ _ _ _ _ H) as (b & sh & s3 & Hx & _ & _ & E1 & EC & ESD & -> & _).
  destruct (strat_deposit_frame _ _ _ _ _ ESD) as (_ & ESH & _ & Hbal & _ & Htv). cbn [shr sv bal] in ESH, Hbal.
  destruct (bsend1_spec _ _ _ _ _ _ E1) as [_ Eb].
  split; [exact Hx|]. split; [|split].
  - rewrite Hbal by auto. rewrite Eb. unfold at2. rewrite !Nat.eqb_refl.
    destruct (Nat.eqb_spec u (earn_acc e)); [congruence|]. cbn [andb]. lia.
  - intros V ET. apply Htv. rewrite <- ET. apply tv_frame2; reflexivity.
  - rewrite ESH, upd2_eq, !Nat.eqb_refl. cbn [andb].
    assert (0 < sh); [|lia].
    unfold convert_to_shares in EC. destruct (vrec s d).
    + destruct (total_value e s d); [|discriminate]. destruct (_ =? 0); [discriminate|].
      destruct (Z.eqb_spec (dec_quo_trunc (dec_mul (dec_of_int x) z) (dec_of_int z0)) 0); [discriminate|].
      destruct (Z.ltb_spec (dec_quo_trunc (dec_mul (dec_of_int x) z) (dec_of_int z0)) 0); [discriminate|].
      inversion EC; subst. lia.
    + inversion EC; subst. unfold dec_of_int. pose proof PREC_pos. nia.
Qed.

(** ** nobody's redeemable value is reduced by another account's operation *)
Lemma value_of_frame e s s' w d : vrec s' d = vrec s d -> total_value e s' d = total_value e s d ->
  shr s' w d = shr s w d -> value_of e s' w d = value_of e s w d.
Proof. intros A B C. unfold value_of, convert_to_assets. rewrite A, B, C. reflexivity. Qed.

Lemma deposit_others_value e s u d0 x st s' out : env_wf e -> Inv e s -> is_user e u = true ->
  earn_deposit e s u d0 x st = Ok s' out ->
  forall w d, w <> u -> (w < nacc (se e))%nat -> value_of e s w d <= value_of e s' w d.
Proof.
  intros Hwf HI Hu H w d Hwu Hwn. destruct (is_user_spec _ _ Hu) as (U1 & U2 & U3 & U4).
  pose proof (earn_deposit_inv _ _ _ _ _ _ _ _ Hwf HI Hu H) as HI'.
  destruct (earn_deposit_ok _ _ _ _ _ _ _ _ H) as (b & sh & s3 & Hx & _ & _ & E1 & EC & ESD & -> & _).
  destruct (cts_val _ _ _ _ _ HI Hx EC) as [Hsh HC].
  destruct (strat_deposit_frame _ _ _ _ _ ESD) as (EV3 & ESH3 & _ & _ & Hoth & Htv). cbn [vrec shr hval sv sdep] in EV3, ESH3, Hoth.
  assert (ESw : shr s3 w d = shr s w d).
  { rewrite ESH3, upd2_eq. destruct (Nat.eqb_spec w u); [congruence|reflexivity]. }
  destruct (Nat.eq_dec d d0) as [->|Hd].
  - assert (EV' : vrec s3 d0 = Some (tot s d0 + sh)) by (rewrite EV3; unfold upd; rewrite Nat.eqb_refl; reflexivity).
    pose proof HI as (_ & _ & Hv & Hs & Hsum).
    destruct (vrec s d0) as [T|] eqn:EV.
    + destruct HC as (V & ET & HV & ->).
      assert (ET3 : total_value e s3 d0 = Some (V + x)) by (apply Htv; rewrite <- ET; apply tv_frame2; reflexivity).
      destruct (value_of_eq e s w d0 T V HI EV ET) as [_ ->].
      destruct (value_of_eq e s3 w d0 _ _ HI' EV' ET3) as [_ ->].
      rewrite ESw. unfold tot. rewrite EV. specialize (Hv _ _ EV). specialize (Hs w d0).
      set (k := x * T / V) in *. set (a := shr s w d0) in *.
      assert (Hk : k * V <= x * T) by (unfold k; pose proof (Z.mul_div_le (x * T) V HV); lia).
      apply div_le_cross; try lia.
      assert (0 <= a * (x * T - k * V)) by (apply Z.mul_nonneg_nonneg; lia). nia.
    + rewrite (value_of_none e s w d0 EV). apply value_of_nonneg. assumption.
  - rewrite (value_of_frame e s s3 w d); [lia| | |assumption].
    + rewrite EV3. unfold upd. destruct (Nat.eqb_spec d d0); [congruence|reflexivity].
    + destruct (Hoth d Hd) as [A B]. unfold total_value. rewrite A, B. reflexivity.
Qed.

Lemma withdraw_others_value e s u d0 x st s' out : env_wf e -> Inv e s -> is_user e u = true ->
  earn_withdraw e s u d0 x st = Ok s' out ->
  forall w d, w <> u -> (w < nacc (se e))%nat -> value_of e s w d <= value_of e s' w d.
Proof.
  intros Hwf HI Hu H w d Hwu Hwn. destruct (is_user_spec _ _ Hu) as (U1 & U2 & U3 & U4).
  pose proof (earn_withdraw_inv _ _ _ _ _ _ _ _ Hwf HI Hu H) as HI'.
  destruct (withdraw_capped _ _ _ _ _ _ _ _ Hwf HI Hu H) as (Hout & _ & _ & _ & _ & Hcap).
  destruct (earn_withdraw_ok _ _ _ _ _ _ _ _ H) as (T & ws0 & av & s1 & b & rest & Hx & EV & EC & Hle & EA & _ & _ & ESW & EB & _ & Hge & ES').
  destruct (cts_val _ _ _ _ _ HI Hx EC) as [Hws0 HC]. rewrite EV in HC. destruct HC as (V & ET & HV & Ews0).
  assert (Hws0' : 0 <= ws0) by lia.
  destruct (cta_val _ _ _ _ _ HI Hws0' EA) as (T' & V' & EV' & ET' & HT & _ & Eout & _).
  rewrite EV in EV'. inversion EV'; subst T'. rewrite ET in ET'. inversion ET'; subst V'.
  destruct (strat_withdraw_frame _ _ _ _ _ ESW) as (EV1 & ESH1 & _).
  destruct (strat_withdraw_inv e s d0 out s1 Hwf (proj1 HI) (proj1 (proj2 HI)) Hout ESW) as (_ & _ & _ & Hoth).
  set (ws := if rest =? 0 then shr s u d0 else ws0) in *.
  pose proof HI as (_ & _ & Hv & Hs & Hsum).
  assert (Hws : ws0 <= ws <= shr s u d0) by (unfold ws; destruct (rest =? 0); lia).
  assert (ESw : shr s' w d = shr s w d).
  { rewrite ES'. cbn [shr]. rewrite upd2_eq, ESH1. destruct (Nat.eqb_spec w u); [congruence|reflexivity]. }
  destruct (Nat.eq_dec d d0) as [->|Hd].
  - destruct (Hcap V ET) as [HoutV ET'2].
    destruct (value_of_eq e s w d0 T V HI EV ET) as [_ ->].
    assert (Hpair : shr s u d0 + shr s w d0 <= T).
    { pose proof (sumN_ge2 (nacc (se e)) (fun a => shr s a d0) u w (fun a => Hs a d0) U1 Hwn ltac:(congruence)) as G.
      cbn beta in G. specialize (Hsum d0). unfold tot in Hsum. rewrite EV in Hsum. lia. }
    pose proof (Hs w d0) as Ha. set (a := shr s w d0) in *.
    destruct (Z.eq_dec (T - ws) 0) as [Hz|Hnz].
    + (* the vault record is deleted: nobody else held shares *)
      assert (a = 0) by lia. replace a with 0 by lia. rewrite Z.mul_0_r, Z.div_0_l by lia.
      apply value_of_nonneg. assumption.
    + assert (EV'' : vrec s' d0 = Some (T - ws)).
      { rewrite ES'. cbn [vrec]. unfold upd. rewrite Nat.eqb_refl. destruct (Z.eqb_spec (T - ws) 0); [lia|reflexivity]. }
      destruct (value_of_eq e s' w d0 _ _ HI' EV'' ET'2) as [_ ->]. rewrite ESw. fold a.
      assert (Hp : out * T <= V * ws0) by (rewrite Eout; pose proof (Z.mul_div_le (V * ws0) T HT); lia).
      apply div_le_cross; try lia.
      assert (0 <= a * (V * ws - out * T)) by (apply Z.mul_nonneg_nonneg; nia). nia.
  - rewrite (value_of_frame e s s' w d); [lia| | |assumption].
    + rewrite ES'. cbn [vrec]. unfold upd. rewrite EV1. destruct (Nat.eqb_spec d d0); [congruence|reflexivity].
    + rewrite <- (Hoth d Hd). rewrite ES'. unfold total_value. cbn [hval sv sdep]. reflexivity.
Qed.

Lemma others_value_monotone e s o s' out : env_wf e -> Inv e s -> step e s o = Ok s' out ->
  forall w d, actor o <> Some w -> (w < nacc (se e))%nat -> value_of e s w d <= value_of e s' w d.
Proof.
  intros Hwf HI. destruct o as [u c|u c|u d0 x st|u d0 x st|d0 v|d0 delta|u d0 x]; cbn [actor]; intros H w d Hw Hwn.
  - destruct (step_sdeposit_exact _ _ _ _ _ _ H) as (_ & _ & _ & _ & Hsd & Hh & Hv & Hs).
    cbn [step] in H. destruct (is_user e u) eqn:Hu; [|discriminate]. destruct (is_user_spec _ _ Hu) as (U1 & U2 & U3 & U4).
    rewrite (value_of_frame e s s' w d); [lia|rewrite Hv; reflexivity| |rewrite Hs; reflexivity].
    unfold total_value. rewrite Hh, (Hsd (earn_acc e) d) by congruence. reflexivity.
  - destruct (step_swithdraw_exact _ _ _ _ _ _ HI H) as (_ & _ & _ & _ & _ & _ & Hsd & Hh & Hv & Hs).
    cbn [step] in H. destruct (is_user e u) eqn:Hu; [|discriminate]. destruct (is_user_spec _ _ Hu) as (U1 & U2 & U3 & U4).
    rewrite (value_of_frame e s s' w d); [lia|rewrite Hv; reflexivity| |rewrite Hs; reflexivity].
    unfold total_value. rewrite Hh, (Hsd (earn_acc e) d) by congruence. reflexivity.
  - cbn [step] in H. destruct (is_user e u) eqn:Hu; [|discriminate].
    eapply deposit_others_value; eauto; congruence.
  - cbn [step] in H. destruct (is_user e u) eqn:Hu; [|discriminate].
    eapply withdraw_others_value; eauto; congruence.
  - pose proof H as Hstep.
    cbn [step] in H. destruct (Nat.eqb (vault_strat e d0) 1 && (hval s d0 <=? v) && (negb (hval s d0 =? 0) || (v =? 0))) eqn:C; [|discriminate].
    apply andb_prop in C. destruct C as [C _]. apply andb_prop in C.
    destruct C as [C1 C2]. apply Nat.eqb_eq in C1. apply Z.leb_le in C2.
    inversion H; subst; clear H.
    set (s' := mkE (sv s) (upd (hval s) d0 v) (vrec s) (shr s)) in *.
    assert (HI' : Inv e s') by (eapply (step_inv e s (Accrue d0 v)); eauto).
    destruct (Nat.eq_dec d d0) as [->|Hd].
    + destruct (vrec s d0) as [T|] eqn:EV.
      * assert (ET : total_value e s d0 = Some (hval s d0)) by (unfold total_value; rewrite C1; reflexivity).
        assert (ET' : total_value e s' d0 = Some v).
        { unfold total_value. rewrite C1. cbn [hval s']. unfold upd. rewrite Nat.eqb_refl. reflexivity. }
        destruct (value_of_eq e s w d0 T _ HI EV ET) as [_ ->].
        destruct (value_of_eq e s' w d0 T _ HI' EV ET') as [_ ->]. cbn [shr s'].
        pose proof HI as (_ & Hh & Hv & Hs & _). specialize (Hv _ _ EV). specialize (Hs w d0). specialize (Hh d0).
        apply Z.div_le_mono; [lia|]. apply Z.mul_le_mono_nonneg_r; lia.
      * rewrite (value_of_none e s w d0 EV). apply value_of_nonneg. assumption.
    + rewrite (value_of_frame e s s' w d); [lia|reflexivity| |reflexivity].
      unfold total_value. cbn [hval sv s']. unfold upd. destruct (Nat.eqb_spec d d0); [congruence|reflexivity].
  - cbn [step] in H. destruct (0 <=? _); [|discriminate]. inversion H; subst.
    match goal with |- _ <= value_of e ?s2 w d => rewrite (value_of_frame e s s2 w d) end; [lia|reflexivity|reflexivity|reflexivity].
  - cbn [step] in H. destruct (negb (is_user e u) || (x <=? 0)); [discriminate|].
    destruct (bsend1 _ _ _ _ _); [|discriminate]. inversion H; subst.
    match goal with |- _ <= value_of e ?s2 w d => rewrite (value_of_frame e s s2 w d) end; [lia|reflexivity|reflexivity|reflexivity].
Qed.

(** ** what a withdrawal takes beyond what it pays: at most one coin of rounding
    when the remaining shares are kept (not swept as dust) *)
Lemma withdraw_no_sweep_loss e s u d x st s' w : env_wf e -> Inv e s -> is_user e u = true ->
  earn_withdraw e s u d x st = Ok s' w -> shr s' u d <> 0 ->
  value_of e s u d - w - 1 <= value_of e s' u d.
Proof.
  intros Hwf HI Hu H Hrem. destruct (is_user_spec _ _ Hu) as (U1 & U2 & U3 & U4).
  pose proof (earn_withdraw_inv _ _ _ _ _ _ _ _ Hwf HI Hu H) as HI'.
  destruct (withdraw_capped _ _ _ _ _ _ _ _ Hwf HI Hu H) as (Hout & _ & _ & _ & _ & Hcap).
  destruct (earn_withdraw_ok _ _ _ _ _ _ _ _ H) as (T & ws0 & av & s1 & b & rest & Hx & EV & EC & Hle & EA & _ & _ & ESW & EB & _ & Hge & ES').
  destruct (cts_val _ _ _ _ _ HI Hx EC) as [Hws0 HC]. rewrite EV in HC. destruct HC as (V & ET & HV & Ews0).
  assert (Hws0' : 0 <= ws0) by lia.
  destruct (cta_val _ _ _ _ _ HI Hws0' EA) as (T' & V' & EV' & ET' & HT & _ & Eout & _).
  rewrite EV in EV'. inversion EV'; subst T'. rewrite ET in ET'. inversion ET'; subst V'.
  destruct (strat_withdraw_frame _ _ _ _ _ ESW) as (EV1 & ESH1 & _).
  assert (ESu : shr s' u d = shr s u d - (if rest =? 0 then shr s u d else ws0)).
  { rewrite ES'. cbn [shr]. rewrite upd2_eq, !Nat.eqb_refl. reflexivity. }
  destruct (Z.eqb_spec rest 0) as [|Hr]; [rewrite ESu in Hrem; lia|].
  pose proof (shr_le_tot e s u d HI U1) as Hst. unfold tot in Hst. rewrite EV in Hst.
  set (a := shr s u d) in *.
  assert (Hpos : 0 < T - ws0) by lia.
  assert (EV'' : vrec s' d = Some (T - ws0)).
  { rewrite ES'. cbn [vrec]. unfold upd. rewrite Nat.eqb_refl. destruct (Z.eqb_spec (T - ws0) 0); [lia|reflexivity]. }
  destruct (Hcap V ET) as [HoutV ET2].
  destruct (value_of_eq e s u d T V HI EV ET) as [_ ->].
  destruct (value_of_eq e s' u d _ _ HI' EV'' ET2) as [_ ->]. rewrite ESu. fold a.
  (* floor(V a/T) - floor(V ws0/T) - 1 <= floor(V (a-ws0)/T) <= floor((V-w)(a-ws0)/(T-ws0)) *)
  assert (L1 : V * a / T - w - 1 <= V * (a - ws0) / T).
  { apply Z.div_le_lower_bound; [lia|].
    pose proof (Z.mul_div_le (V * a) T HT).
    pose proof (Z.mul_succ_div_gt (V * ws0) T HT). rewrite <- Eout in *. nia. }
  assert (L2 : V * (a - ws0) / T <= (V - w) * (a - ws0) / (T - ws0)).
  { apply div_le_cross; try lia.
    assert (Hp : w * T <= V * ws0) by (rewrite Eout; pose proof (Z.mul_div_le (V * ws0) T HT); lia).
    assert (0 <= (a - ws0) * (V * ws0 - w * T)) by (apply Z.mul_nonneg_nonneg; lia). nia. }
  lia.
Qed.

(** ** how much the dust sweep can take: when a withdrawal removes all shares of
    the account, what it forfeits beyond one coin of rounding is below sqrt(V) *)
Lemma sweep_forfeit_bound e s u d x st s' w V : env_wf e -> Inv e s -> is_user e u = true ->
  earn_withdraw e s u d x st = Ok s' w -> shr s' u d = 0 -> total_value e s d = Some V ->
  let l := value_of e s u d - w - 1 in 0 <= l -> l * l < V.
Proof.
  intros Hwf HI Hu H Hz ETV l Hl. destruct (is_user_spec _ _ Hu) as (U1 & U2 & U3 & U4).
  destruct (withdraw_capped _ _ _ _ _ _ _ _ Hwf HI Hu H) as (Hout & _ & _ & _ & _ & Hcap).
  destruct (earn_withdraw_ok _ _ _ _ _ _ _ _ H) as (T & ws0 & av & s1 & b & rest & Hx & EV & EC & Hle & EA & _ & _ & ESW & EB & ER & Hge & ES').
  destruct (cts_val _ _ _ _ _ HI Hx EC) as [Hws0 HC]. rewrite EV in HC. destruct HC as (V0 & ET & HV & Ews0).
  rewrite ETV in ET. inversion ET; subst V0. clear ET.
  assert (Hws0' : 0 <= ws0) by lia.
  destruct (cta_val _ _ _ _ _ HI Hws0' EA) as (T' & V' & EV' & ET' & HT & _ & Eout & _).
  rewrite EV in EV'. inversion EV'; subst T'. rewrite ETV in ET'. inversion ET'; subst V'.
  destruct (Hcap V ETV) as [HwV ET2].
  (* the dust estimate is computed in the state after the strategy withdrawal and the payout *)
  assert (Erest : rest = (V - w) * (shr s u d - ws0) / T).
  { unfold convert_to_assets in ER.
    destruct (strat_withdraw_frame _ _ _ _ _ ESW) as (EV1 & _).
    unfold with_sv in ER.
    assert (ETs2 : total_value e (mkE (mkS b (sdep (sv s1))) (hval s1) (vrec s1) (shr s1)) d = Some (V - w)).
    { rewrite <- ET2. rewrite ES'. unfold total_value. cbn [hval sv sdep]. reflexivity. }
    rewrite ETs2 in ER. cbn [vrec] in ER. rewrite EV1, EV in ER. destruct (Z.eqb_spec T 0); [lia|].
    rewrite cta_eq in ER by lia.
    destruct (Z.ltb_spec ((V - w) * (shr s u d - ws0) / T) 0); [discriminate|]. inversion ER. reflexivity. }
  assert (ESu : shr s' u d = shr s u d - (if rest =? 0 then shr s u d else ws0)).
  { rewrite ES'. cbn [shr]. rewrite upd2_eq, !Nat.eqb_refl. reflexivity. }
  pose proof (shr_le_tot e s u d HI U1) as Hst. unfold tot in Hst. rewrite EV in Hst.
  destruct (value_of_eq e s u d T V HI EV ETV) as [_ Eval]. unfold l in *. rewrite Eval in *. clear l.
  set (a := shr s u d) in *. set (r := a - ws0) in *.
  assert (Hr : 0 <= r) by (unfold r; lia).
  assert (Hsmall : (V - w) * r < T).
  { destruct (Z.eqb_spec rest 0) as [Hr0|Hr0].
    - rewrite Erest in Hr0. apply Z.div_small_iff in Hr0; [|lia]. destruct Hr0 as [?|?]; lia.
    - assert (r = 0) by (unfold r; lia). nia. }
  (* f = floor(V r / T);  V a/T - w - 1 <= f;  f <= V - w;  f T <= V r *)
  set (f := V * r / T).
  assert (Hf0 : 0 <= f) by (apply Z.div_pos; nia).
  assert (HfT : f * T <= V * r) by (unfold f; pose proof (Z.mul_div_le (V * r) T HT); lia).
  assert (L1 : V * a / T - w - 1 <= f).
  { unfold f. apply Z.div_le_lower_bound; [lia|].
    pose proof (Z.mul_div_le (V * a) T HT).
    pose proof (Z.mul_succ_div_gt (V * ws0) T HT). rewrite <- Eout in *. unfold r. nia. }
  assert (L2 : f <= V - w).
  { assert (w * T <= V * ws0) by (rewrite Eout; pose proof (Z.mul_div_le (V * ws0) T HT); lia).
    (* f T <= V r <= V (T - ws0) <= (V - w) T *)
    assert (f * T <= (V - w) * T) by (unfold r in *; nia). nia. }
  assert (f * f < V).
  { assert (f * (f * T) <= (V - w) * (V * r)) by (apply Z.mul_le_mono_nonneg; lia).
    assert ((V - w) * (V * r) < V * T) by nia. nia. }
  nia.
Qed.
