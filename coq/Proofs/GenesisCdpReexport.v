(* C14 (component C14a), x/cdp: exporting the imported state again yields the identical genesis and writes
   nothing (every cdp was synchronised by the first export). *)
From Coq Require Import Sorted.
From Kava Require Import Base.Prelude Base.Dec Model.Cdp Proofs.CdpRatio Proofs.Cdp Proofs.CdpInv Proofs.CdpInv2
  Proofs.CdpInv3 Proofs.CdpCust Proofs.CdpOwn Model.GenesisCdp Proofs.GenesisCommon Proofs.GenesisCdp.
From Coq Require Import ZifyBool ZifyNat.
Local Open Scope Z_scope.

Lemma dec_quo_self x : 0 < x -> dec_quo x x = PREC.
Proof.
  intros Hx. unfold dec_quo. replace (x * PREC * PREC) with ((PREC * PREC) * x) by ring.
  rewrite Z.quot_mul by lia. apply chop_round_exact. unfold PREC. lia.
Qed.

(* a cdp on which SynchronizeInterest does nothing: no interest since its last synchronisation and its fee time
   is the type's previous accrual time *)
Definition settled (s : state) (c : cdp) : Prop :=
  exists gf prev, ifac s (c_type c) = Some gf /\ ptime s (c_type c) = Some prev /\
    new_interest gf (c_ifac c) (cdp_debt c) = 0 /\ c_upd c = prev.

Lemma settled_sync e s cp c : settled s c -> sync_interest e s cp c = Ok s c.
Proof.
  intros (gf & prev & Ei & Ep & Ea & Eu). unfold sync_interest. rewrite Ei, Ep, Ea, Eu, !Z.eqb_refl. reflexivity.
Qed.

Lemma settled_frame s s' c :
  ifac s' (c_type c) = ifac s (c_type c) -> ptime s' (c_type c) = ptime s (c_type c) -> settled s c -> settled s' c.
Proof. intros Ei Ep (gf & prev & A & B & C & D). exists gf, prev. rewrite Ei, Ep. auto. Qed.

Lemma new_interest_self gf debt : 0 < gf -> new_interest gf gf debt = 0.
Proof. intros H. unfold new_interest. rewrite (dec_quo_self gf H), Z.eqb_refl. reflexivity. Qed.

(* the record a synchronisation returns is settled in the state it returns *)
Lemma sync_settles e s cp c s1 c1 :
  vals_ok s -> ptime s (c_type c) <> None -> get_cp e (c_type c) = Some cp -> cdps s (c_type c) (c_id c) = Some c ->
  sync_interest e s cp c = Ok s1 c1 -> settled s1 c1.
Proof.
  intros V Hpt Hcp Hst H.
  destruct (sync_interest_char e s cp c Hcp Hst) as (s1' & c1' & H' & _ & _ & _ & Hif & _ & _ & Hcase).
  rewrite H in H'. inversion H'; subst s1' c1'. clear H'.
  pose proof (sync_interest_spec _ _ _ _ _ _ H) as (Henv & _ & Hty & _).
  destruct Henv as (_&_&_&_&_&_&_&_&Hp&_).
  destruct V as (_ & Vc & Vf & _). destruct (Vc _ _ _ Hst) as (_ & _ & _ & _ & gf & Eg & _).
  rewrite Eg in Hcase. destruct (ptime s (c_type c)) as [prev|] eqn:Ep; [|congruence].
  exists gf, prev. rewrite Hty, Hif, Nat.eqb_refl, Eg, Hp, Ep. split; [reflexivity|]. split; [reflexivity|].
  destruct Hcase as [(-> & A & B)|(_ & F2 & F3)]; [auto|].
  rewrite F3, F2. split; [|reflexivity]. apply new_interest_self. pose proof (Vf _ _ Eg). unfold PREC in *. lia.
Qed.

(* exporting settled cdps writes nothing and lists them as they are *)
Lemma export_settled e : forall l s,
  (forall c, In c l -> settled s c /\ get_cp e (c_type c) <> None) ->
  export_cdps e s l = Ok s (l, flat_map (deps_of e s) l).
Proof.
  induction l as [|c r IH]; intros s H; cbn [export_cdps flat_map]; [reflexivity|].
  destruct (H c (or_introl eq_refl)) as [Hs Hcp]. destruct (get_cp e (c_type c)) as [cp|]; [|congruence].
  rewrite (settled_sync e s cp c Hs), (IH s (fun c' H' => H c' (or_intror H'))). reflexivity.
Qed.

(* the export never changes an interest factor that is stored *)
Lemma export_cdps_ifac_some e t f : forall l s s1 r, ifac s t = Some f -> export_cdps e s l = Ok s1 r -> ifac s1 t = Some f.
Proof.
  induction l as [|c r IH]; intros s s1 res Hf E; cbn [export_cdps] in E.
  - inversion E; subst. exact Hf.
  - destruct (get_cp e (c_type c)) as [cp|]; try discriminate.
    destruct (sync_interest e s cp c) as [s2 c2| |] eqn:Es; try discriminate.
    destruct (export_cdps e s2 r) as [s3 [cs3 dd3]| |] eqn:E3; try discriminate. inversion E; subst.
    eapply IH; [|exact E3].
    unfold sync_interest in Es. destruct (ifac s (c_type c)) eqn:Ei.
    + destruct (ptime s (c_type c)); [|inversion Es; subst; exact Hf].
      destruct (_ && _); [inversion Es; subst; exact Hf|].
      destruct (update_cdp _ _ _ _ _) as [s4 []| |] eqn:Eu; try discriminate. inversion Es; subst.
      apply update_cdp_env in Eu. destruct Eu as [_ Eu]. rewrite Eu. destruct (_ =? 0); exact Hf.
    + inversion Es; subst. cbn. unfold upd. destruct (Nat.eqb_spec t (c_type c)) as [->|]; [congruence|exact Hf].
Qed.

Lemma export_cdps_settled e : forall l s s1 cs dd,
  GI e s -> ptimes_set e s -> NoDup l -> (forall c, In c l -> stored e s c) ->
  export_cdps e s l = Ok s1 (cs, dd) -> Forall (settled s1) cs.
Proof.
  induction l as [|c r IH]; intros s s1 cs dd HG Hpt Hnd Hst E; cbn [export_cdps] in E.
  - inversion E; subst. constructor.
  - inversion Hnd as [|? ? Hnotin Hnd']; subst.
    pose proof (Hst c (or_introl eq_refl)) as Hc. destruct (stored_cp _ _ _ Hc) as [cp Hcp]. destruct Hc as [Hct Hcs].
    rewrite Hcp in E. destruct (sync_interest e s cp c) as [s' c1| |] eqn:Hsy; try discriminate.
    destruct (export_cdps e s' r) as [s2 [cs2 dd2]| |] eqn:E2; try discriminate. inversion E; subst. clear E.
    pose proof (sync_interest_GI _ _ _ _ _ _ HG Hcp Hcs Hsy) as HG'.
    pose proof (sync_interest_spec _ _ _ _ _ _ Hsy) as (Henv & Hid & Hty & _).
    destruct (sync_interest_char e s cp c Hcp Hcs) as (s'' & c1' & Hsy' & Hcd & _).
    rewrite Hsy in Hsy'. inversion Hsy'; subst s'' c1'. clear Hsy'.
    assert (Hst' : forall c', In c' r -> stored e s' c').
    { intros c' Hin. destruct (Hst c' (or_intror Hin)) as [A B]. split; [exact A|]. rewrite Hcd.
      destruct (Nat.eqb_spec (c_type c') (c_type c)) as [Et|]; [destruct (Nat.eqb_spec (c_id c') (c_id c)) as [Ei|]|]; cbn [andb]; try exact B.
      exfalso. rewrite Et, Ei in B. rewrite Hcs in B. inversion B; subst. contradiction. }
    pose proof (env_same_ptimes e s s' Henv Hpt) as Hpt'.
    constructor; [|eapply IH; eassumption].
    pose proof HG as (_ & _ & V).
    assert (S1 : settled s' c1) by (eapply sync_settles; [exact V|apply Hpt, Hct|exact Hcp|exact Hcs|exact Hsy]).
    destruct S1 as (gf & prev & A & B & C & D). exists gf, prev.
    split; [eapply export_cdps_ifac_some; eassumption|]. split; [|auto].
    destruct (export_cdps_spec e r s' HG' Hnd' Hst') as (s2' & cs' & Hex & _ & Henv2 & _).
    rewrite E2 in Hex. inversion Hex; subst. destruct Henv2 as (_&_&_&_&_&_&_&_&Hp2&_). rewrite Hp2. exact B.
Qed.

(** * The store listing *)

Lemma map_flat_map {A B C} (f : B -> C) (g : A -> list B) l : map f (flat_map g l) = flat_map (fun x => map f (g x)) l.
Proof. induction l as [|a r IH]; cbn; [reflexivity|]. rewrite map_app, IH. reflexivity. Qed.

Lemma Forall2_map {A B} (R : A -> B -> Prop) (F : A -> B) l cs :
  Forall2 R l cs -> (forall a b, In a l -> R a b -> b = F a) -> cs = map F l.
Proof.
  induction 1 as [|a b r rs Hab _ IH]; intros HF; cbn; [reflexivity|].
  rewrite (HF a b (or_introl eq_refl) Hab), IH; [reflexivity|]. intros x y Hx. apply HF. right; exact Hx.
Qed.

(* the record of s1 under the key of c *)
Definition rec_at (s1 : state) (c : cdp) : cdp := match cdps s1 (c_type c) (c_id c) with Some x => x | None => c end.

Lemma all_cdps_rec_at e s s1 :
  key_ok s -> nextid s1 = nextid s ->
  (forall t id, (cdps s1 t id = None <-> cdps s t id = None)) ->
  all_cdps e s1 = map (rec_at s1) (all_cdps e s).
Proof.
  intros Hk Hn Hh. unfold all_cdps. rewrite map_flat_map. apply flat_map_ext. intros t.
  unfold cdps_of_type. rewrite map_flat_map, Hn. apply flat_map_ext. intros id.
  destruct (cdps s t id) as [c|] eqn:Ec.
  - destruct (Hk _ _ _ Ec) as [Et Ei]. cbn [map]. unfold rec_at. rewrite Et, Ei.
    destruct (cdps s1 t id) as [c1|] eqn:E1; [reflexivity|]. apply Hh in E1. congruence.
  - rewrite (proj2 (Hh t id) Ec). reflexivity.
Qed.

Lemma all_cdps_pointwise e s s' :
  (forall t id, cdps s' t id = cdps s t id) -> nextid s' = nextid s -> all_cdps e s' = all_cdps e s.
Proof.
  intros Hc Hn. unfold all_cdps. apply flat_map_ext. intros t. unfold cdps_of_type. rewrite Hn.
  apply flat_map_ext. intros id. rewrite Hc. reflexivity.
Qed.

Lemma dep_list_pointwise e s s' id : (forall u, deps s' id u = deps s id u) -> dep_list e s' id = dep_list e s id.
Proof. intros H. unfold dep_list. apply flat_map_ext. intros u. rewrite H. reflexivity. Qed.

Lemma flat_map_map {A B C} (f : B -> list C) (g : A -> B) l : flat_map f (map g l) = flat_map (fun x => f (g x)) l.
Proof. induction l as [|a r IH]; cbn; [reflexivity|]. rewrite IH. reflexivity. Qed.

Lemma flat_map_ext_in {A B} (f g : A -> list B) l : (forall a, In a l -> f a = g a) -> flat_map f l = flat_map g l.
Proof.
  induction l as [|a r IH]; intros H; cbn; [reflexivity|].
  rewrite (H a (or_introl eq_refl)), IH; [reflexivity|]. intros x Hx. apply H. right; exact Hx.
Qed.

(** * Re-export *)

Theorem cdp_reexport e s :
  GI e s -> ptimes_set e s -> markets_ok e ->
  exists s1 g s', export_genesis e s = Ok s1 g /\ init_genesis e (wipe s1) g = Ok s' tt /\
                  export_genesis e s' = Ok s' g.
Proof.
  intros HG Hpt Hmk. pose proof HG as (((Hk & Hr & Hi) & HC & HO) & _ & _).
  assert (Hnd := nodup_all_cdps e s Hk).
  assert (Hsto : forall c, In c (all_cdps e s) -> stored e s c) by (intros c Hc; apply (in_all_cdps e s c Hk Hi), Hc).
  destruct (export_cdps_spec e (all_cdps e s) s HG Hnd Hsto) as (s1 & cs & Hex & HG1 & Henv & Hoth & Hall).
  pose proof (export_cdps_settled e _ _ _ _ _ HG Hpt Hnd Hsto Hex) as Hset.
  pose proof (env_same_ptimes e s s1 Henv Hpt) as Hpt1.
  pose proof HG1 as (((Hk1 & _ & Hi1) & HC1 & _) & _ & V1).
  set (g := mkGen cs (flat_map (deps_of e s) (all_cdps e s)) (nextid s1)
                  (map (fun t => (t, opt0 (ptime s1 t), dflt (ifac s1 t))) (seq 0 (ntypes e)))
                  (map (fun t => (t, tprin s1 t)) (seq 0 (ntypes e)))).
  assert (Hexp : export_genesis e s = Ok s1 g).
  { unfold export_genesis. rewrite Hex.
    rewrite (export_types_spec s1 (seq 0 (ntypes e))) by (intros t Ht; apply in_seq in Ht; apply Hpt1; lia). reflexivity. }
  destruct (export_genesis_spec e s HG Hpt) as (s1' & g' & Hexp' & _ & _ & _ & Hgen).
  rewrite Hexp in Hexp'. inversion Hexp'; subst s1' g'. clear Hexp'.
  destruct (init_genesis_spec e s1 g HG1 Hpt1 Hmk Hgen) as (s' & Hin & Himp).
  destruct (imported_GI e s1 s' HG1 Hpt1 Himp) as [HG' Hpt'].
  destruct Himp as (I1 & I2 & I3 & I4 & I5 & I6 & I7 & I8 & _).
  exists s1, g, s'. split; [exact Hexp|]. split; [exact Hin|].
  (* the stored cdps: same keys before and after the first export *)
  assert (Hhas : forall t id, cdps s1 t id = None <-> cdps s t id = None).
  { intros t id. split; intros E.
    - destruct (cdps s t id) as [c|] eqn:Ec; [|reflexivity]. exfalso.
      destruct (Hk _ _ _ Ec) as [Et Ei].
      assert (Hin' : In c (all_cdps e s)).
      { apply (proj2 (in_all_cdps e s c Hk Hi)). split; [rewrite Et; exact (stored_lt e s t id c HC Ec)|rewrite Et, Ei; exact Ec]. }
      destruct (Forall2_in_l _ _ _ _ Hall Hin') as (c1 & _ & (K1 & K2) & (_ & Hs1)). rewrite K1, K2, Et, Ei in Hs1. congruence.
    - rewrite Hoth; [exact E|]. intros c Hc [E1 E2]. destruct (Hsto c Hc) as [_ Hs]. rewrite E1, E2 in Hs. congruence. }
  destruct Henv as (_&_&_&_&Hd&_&_&Hn&_).
  assert (Hcs : cs = map (rec_at s1) (all_cdps e s)).
  { apply (Forall2_map _ (rec_at s1) _ _ Hall). intros a b _ ((K1 & K2) & (_ & Hs)). unfold rec_at. rewrite <- K1, <- K2, Hs. reflexivity. }
  assert (HL1 : all_cdps e s' = cs).
  { rewrite (all_cdps_pointwise e s1 s' I1 I8), (all_cdps_rec_at e s s1 Hk Hn Hhas). symmetry. exact Hcs. }
  (* every stored cdp of the imported state is settled *)
  assert (Hsettled : forall c, In c (all_cdps e s') -> settled s' c /\ get_cp e (c_type c) <> None).
  { intros c Hc. rewrite HL1 in Hc. rewrite Forall_forall in Hset. pose proof (Hset c Hc) as S1.
    destruct Hgen as (_ & Gc & _). destruct (proj1 (Gc c) Hc) as [Ht _].
    split; [|unfold get_cp, ntypes in *; apply nth_error_Some; exact Ht].
    destruct S1 as (gf & prev & A & B & C & D).
    apply (settled_frame s1); [| |exists gf, prev; auto].
    - rewrite I6. apply Nat.ltb_lt in Ht. rewrite Ht, A. reflexivity.
    - rewrite I7. apply Nat.ltb_lt in Ht. rewrite Ht. reflexivity. }
  unfold export_genesis. rewrite (export_settled e _ s' Hsettled).
  rewrite (export_types_spec s' (seq 0 (ntypes e))) by (intros t Ht; apply in_seq in Ht; apply Hpt'; lia).
  f_equal. unfold g. f_equal.
  - exact HL1.
  - rewrite HL1, Hcs, flat_map_map. apply flat_map_ext_in. intros c Hc. unfold deps_of.
    assert (Eid : c_id (rec_at s1 c) = c_id c).
    { unfold rec_at. destruct (cdps s1 (c_type c) (c_id c)) as [x|] eqn:Ex; [|reflexivity]. apply (Hk1 _ _ _ Ex). }
    rewrite Eid. rewrite (dep_list_pointwise e s1 s' (c_id c)) by (intros u; apply I2).
    rewrite (dep_list_deps e s s1 _ Hd). reflexivity.
  - exact I8.
  - apply map_ext_in. intros t Ht. apply in_seq in Ht. rewrite I6, I7.
    replace (t <? ntypes e)%nat with true by (symmetry; apply Nat.ltb_lt; lia). cbn [dflt]. reflexivity.
  - apply map_ext_in. intros t Ht. apply in_seq in Ht. rewrite I5.
    replace (t <? ntypes e)%nat with true by (symmetry; apply Nat.ltb_lt; lia). reflexivity.
Qed.
