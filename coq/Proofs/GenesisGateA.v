(* InitGenesis is the gate of a chain start: what GenesisState.Validate refuses is never
   imported (x/cdp, x/auction, x/bep3 call gs.Validate() first and panic on an error), and
   x/auction additionally imports only over a module account holding exactly the coins its
   genesis auctions account for.  Qualified names: every Genesis model has its own
   [genesis] / [validate_genesis] / [init_genesis]. *)
From Kava Require Import Base.Prelude Base.Dec.
From Kava Require Model.Cdp Model.Auction Model.Bep3 Model.GenesisCdp Model.GenesisAuction Model.GenesisBep3.
Local Open Scope Z_scope.

Lemma cdp_import_implies_valid :
  forall e s0 g s' o, GenesisCdp.init_genesis e s0 g = Ok s' o -> GenesisCdp.validate_genesis g = true.
Proof.
  intros e s0 g s' o H. unfold GenesisCdp.init_genesis in H.
  destruct (GenesisCdp.validate_genesis g); [reflexivity | cbn in H; discriminate].
Qed.

Lemma bep3_import_implies_valid :
  forall e s0 g s' o, GenesisBep3.init_genesis e s0 g = Ok s' o -> GenesisBep3.validate_genesis g = true.
Proof.
  intros e s0 g s' o H. unfold GenesisBep3.init_genesis in H.
  destruct (GenesisBep3.validate_genesis g); [reflexivity | cbn in H; discriminate].
Qed.

Lemma auction_import_implies_valid_and_custody :
  forall e denoms b g s' o, GenesisAuction.init_genesis e denoms b g = Ok s' o ->
  GenesisAuction.validate_genesis e g = true /\
  forall d, In d denoms -> b (Auction.amod e) d = Auction.held d (GenesisAuction.g_aucs g).
Proof.
  intros e denoms b g s' o H. unfold GenesisAuction.init_genesis in H.
  destruct (GenesisAuction.validate_genesis e g); [| cbn in H; discriminate].
  cbn in H. split; [reflexivity|].
  destruct (forallb _ denoms) eqn:F in H; [| discriminate].
  intros d Hd. rewrite forallb_forall in F. specialize (F d Hd). apply Z.eqb_eq in F. exact F.
Qed.

(* one unit more (or less, or of another denom) than the auctions account for: refused *)
Lemma auction_import_refuses_unaccounted_balance :
  forall e denoms b g d k, In d denoms -> k <> 0 ->
  b (Auction.amod e) d = Auction.held d (GenesisAuction.g_aucs g) + k ->
  GenesisAuction.init_genesis e denoms b g = Panic.
Proof.
  intros e denoms b g d k Hd Hk Hb.
  destruct (GenesisAuction.init_genesis e denoms b g) as [s' o | |] eqn:E; [| | reflexivity].
  - destruct (auction_import_implies_valid_and_custody _ _ _ _ _ _ E) as [_ C].
    specialize (C d Hd). lia.
  - unfold GenesisAuction.init_genesis in E.
    destruct (negb _) in E; [discriminate|]. destruct (forallb _ _) in E; discriminate.
Qed.
