(* Support for Proofs/Retab*.v: agreement of functions on an initial segment of nat,
   extensionality of the list combinators over [seq 0 n], outcomes related by a relation.
   No axioms. *)
From Kava Require Import Base.Prelude.
Local Open Scope Z_scope.

(** * generic list / sum lemmas *)

Lemma sumN_ext_in n f g : (forall k, (k < n)%nat -> f k = g k) -> sumN n f = sumN n g.
Proof.
  induction n as [|n IH]; intros H; cbn [sumN]; [reflexivity|].
  rewrite IH by (intros; apply H; lia). rewrite H by lia. reflexivity.
Qed.

Lemma forallb_ext_in {A} (f g : A -> bool) l :
  (forall x, In x l -> f x = g x) -> forallb f l = forallb g l.
Proof.
  induction l as [|a l IH]; intros H; cbn [forallb]; [reflexivity|].
  rewrite H by (left; reflexivity). rewrite IH by (intros; apply H; right; assumption). reflexivity.
Qed.

Lemma existsb_ext_in {A} (f g : A -> bool) l :
  (forall x, In x l -> f x = g x) -> existsb f l = existsb g l.
Proof.
  induction l as [|a l IH]; intros H; cbn [existsb]; [reflexivity|].
  rewrite H by (left; reflexivity). rewrite IH by (intros; apply H; right; assumption). reflexivity.
Qed.

Lemma flat_map_ext_in {A B} (f g : A -> list B) l :
  (forall x, In x l -> f x = g x) -> flat_map f l = flat_map g l.
Proof.
  induction l as [|a l IH]; intros H; cbn [flat_map]; [reflexivity|].
  rewrite H by (left; reflexivity). rewrite IH by (intros; apply H; right; assumption). reflexivity.
Qed.

Lemma in_seq0 n x : In x (seq 0 n) -> (x < n)%nat.
Proof. intros H. apply in_seq in H. lia. Qed.

Lemma forallb_seq_ext n f g : (forall k, (k < n)%nat -> f k = g k) -> forallb f (seq 0 n) = forallb g (seq 0 n).
Proof. intros H. apply forallb_ext_in. intros x Hx. apply H, in_seq0, Hx. Qed.
Lemma existsb_seq_ext n f g : (forall k, (k < n)%nat -> f k = g k) -> existsb f (seq 0 n) = existsb g (seq 0 n).
Proof. intros H. apply existsb_ext_in. intros x Hx. apply H, in_seq0, Hx. Qed.
Lemma map_seq_ext {A} n (f g : nat -> A) : (forall k, (k < n)%nat -> f k = g k) -> map f (seq 0 n) = map g (seq 0 n).
Proof. intros H. apply map_ext_in. intros x Hx. apply H, in_seq0, Hx. Qed.
Lemma flat_map_seq_ext {A} n (f g : nat -> list A) :
  (forall k, (k < n)%nat -> f k = g k) -> flat_map f (seq 0 n) = flat_map g (seq 0 n).
Proof. intros H. apply flat_map_ext_in. intros x Hx. apply H, in_seq0, Hx. Qed.

Lemma nth_map_seq {A} (dflt : A) n (f : nat -> A) i :
  (i < n)%nat -> nth i (map f (seq 0 n)) dflt = f i.
Proof.
  intros H. rewrite (nth_indep _ dflt (f 0%nat)) by (rewrite map_length, seq_length; exact H).
  rewrite map_nth, seq_nth by exact H. reflexivity.
Qed.

(** * agreement on the in-range indexes *)

Definition ext1 {A} (n : nat) (f g : nat -> A) : Prop :=
  forall i, (i < n)%nat -> f i = g i.
Definition ext2 {A} (n m : nat) (f g : nat -> nat -> A) : Prop :=
  forall i j, (i < n)%nat -> (j < m)%nat -> f i j = g i j.
Definition ext3 {A} (n m k : nat) (f g : nat -> nat -> nat -> A) : Prop :=
  forall i j x, (i < n)%nat -> (j < m)%nat -> (x < k)%nat -> f i j x = g i j x.

(** * outcomes related by a relation on states *)

Definition orel {S} (R : S -> S -> Prop) (r r' : outcome S unit) : Prop :=
  match r, r' with
  | Ok a _, Ok a' _ => R a a'
  | Err, Err => True
  | Panic, Panic => True
  | _, _ => False
  end.


Lemma orel_impl {S} (R R' : S -> S -> Prop) r r' :
  (forall a a', R a a' -> R' a a') -> orel R r r' -> orel R' r r'.
Proof. intros H. destruct r, r'; cbn; auto. Qed.

(** * folds over related accumulators *)

Lemma fold_left_rel {A A' B} (R : A -> A' -> Prop) (f : A -> B -> A) (f' : A' -> B -> A') l :
  (forall x a a', In x l -> R a a' -> R (f a x) (f' a' x)) ->
  forall a a', R a a' -> R (fold_left f l a) (fold_left f' l a').
Proof.
  induction l as [|x l IH]; intros H a a' Ha; cbn [fold_left]; [exact Ha|].
  apply IH; [intros; apply H; [right|]; assumption|]. apply H; [left; reflexivity|exact Ha].
Qed.

Lemma ext1_refl {A} n (f : nat -> A) : ext1 n f f.
Proof. intros i _. reflexivity. Qed.

Lemma upd_ext {A} n (f f' : nat -> A) d v : ext1 n f f' -> ext1 n (upd f d v) (upd f' d v).
Proof. intros H i Hi. unfold upd. destruct (Nat.eqb i d); [reflexivity|apply H, Hi]. Qed.
