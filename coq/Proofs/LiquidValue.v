(* C12, "minting / burning does not change the staked value owned by the user by more than two
   base units": the value arithmetic of TransferDelegation for ANY exchange rate.

   value owned by a user = TokensFromShares(delegation shares + derivative units held * 10^18),
   truncated (Proofs/Liquid.v [staked_value]; the same valuation the Go monitor uses).

   Part 1 (this section): pure integer arithmetic.
     [val_ge_iff]    K <= floor(TokensFromShares(o))  <->  (2 K P - 1) S <= 2 P o T
                     (truncate-then-banker's-round of the SDK, characterised exactly)
     [transfer_value_upper]   a conversion never raises the value by more than one unit
     [mint_value_lower3]      a mint lowers it by at most THREE units (share worth <= 1 token)
     [mint_value_lower2]      ... by at most two under an explicit guard
     [burn_value_lower2]      a burn lowers it by at most two units
   Part 2: the same on the model state (mint / burn of Model/Liquid.v). *)
From Kava Require Import Base.Prelude Base.Dec Model.Staking Model.Tally Model.Liquid Proofs.Liquid.
From Coq Require Import ZifyBool.
Local Open Scope Z_scope.

(** * 1. the valuation, characterised *)

Lemma PREC_even : PREC = 2 * HALF. Proof. reflexivity. Qed.

(* banker's rounding of q / 10^18 reaches K * 10^18 exactly when q >= K * 10^36 - 5 * 10^17
   (the tie (K P - 1) P + HALF rounds up because K P - 1 is odd) *)
Lemma chop_round_pos_ge q K : 0 <= q ->
  (K * PREC <= chop_round_pos q <-> K * PREC * PREC - HALF <= q).
Proof.
  intros Hq. unfold chop_round_pos.
  pose proof (Z.div_mod q PREC ltac:(unfold PREC; lia)) as E.
  pose proof (Z.mod_pos_bound q PREC PREC_pos) as B.
  set (Q := q / PREC) in *. set (r := q mod PREC) in *.
  rewrite PREC_even in *.
  destruct (Z.eqb_spec r 0); [nia|].
  destruct (Z.ltb_spec r HALF); [nia|].
  destruct (Z.ltb_spec HALF r); [nia|].
  assert (Hr : r = HALF) by lia.
  destruct (Z.even Q) eqn:Ev.
  - apply Z.even_spec in Ev. destruct Ev as [m Hm]. unfold HALF in *. nia.
  - assert (Ho : Z.odd Q = true) by (rewrite <- Z.negb_even, Ev; reflexivity).
    apply Z.odd_spec in Ho. destruct Ho as [m Hm]. unfold HALF in *. nia.
Qed.

(* the value of [o] shares (mantissa) at [T] tokens for [S] shares *)
Definition sval (T S o : Z) : Z := dec_trunc_int (dec_quo (o * T) S).

Lemma sval_tfs v o : dec_trunc_int (tokens_from_shares v o) = sval (v_tokens v) (v_shares v) o.
Proof. reflexivity. Qed.

Lemma sval_ge_iff T S o K : 0 <= o -> 0 <= T -> 0 < S ->
  (K <= sval T S o <-> (2 * K * PREC - 1) * S <= 2 * PREC * (o * T)).
Proof.
  intros Ho HT HS. unfold sval, dec_trunc_int, dec_quo.
  assert (Hx : 0 <= o * T) by nia. set (x := o * T) in *.
  assert (Hn : 0 <= x * PREC * PREC) by (unfold PREC; nia).
  rewrite (Z.quot_div_nonneg (x * PREC * PREC) S) by lia.
  set (q := x * PREC * PREC / S).
  assert (Hq : 0 <= q) by (subst q; apply Z.div_pos; lia).
  assert (Hqs : q * S <= x * PREC * PREC < q * S + S).
  { subst q. pose proof (Z.div_mod (x * PREC * PREC) S ltac:(lia)). pose proof (Z.mod_pos_bound (x * PREC * PREC) S HS). nia. }
  unfold chop_round. destruct (Z.ltb_spec q 0); [lia|].
  pose proof (chop_round_pos_nonneg q Hq) as Hc0.
  pose proof (chop_round_pos_ge q K Hq) as Hc.
  set (c := chop_round_pos q) in *.
  rewrite Z.quot_div_nonneg by (unfold PREC; lia).
  pose proof (Z.div_mod c PREC ltac:(unfold PREC; lia)) as Ec.
  pose proof (Z.mod_pos_bound c PREC PREC_pos) as Bc.
  set (V := c / PREC) in *.
  assert (H1 : K <= V <-> K * PREC <= c) by (unfold PREC in *; nia).
  rewrite H1, Hc. rewrite PREC_even. unfold HALF, PREC in *.
  split; intros H'; nia.
Qed.

Lemma sval_nonneg T S o : 0 <= o -> 0 <= T -> 0 < S -> 0 <= sval T S o.
Proof. intros. apply sval_ge_iff; auto. unfold PREC. nia. Qed.

(** * 2. the arithmetic of one conversion

    [T] tokens, [S] shares of the validator before; [sh] shares are unbonded, [I] whole tokens
    are issued ([I] = the truncated value of [sh]), [T' = T - I] tokens stay for the [S' = S - sh]
    remaining shares, the receiver is given [R = floor (S' * I / T')] new shares. *)

Lemma issued_char T S sh I : 0 <= sh -> 0 <= T -> 0 < S -> I = sval T S sh ->
  (2 * I * PREC - 1) * S <= 2 * PREC * (sh * T) < (2 * I * PREC + 2 * PREC - 1) * S.
Proof.
  intros Hsh HT HS ->. split.
  - apply sval_ge_iff; auto. lia.
  - destruct (Z.lt_ge_cases (2 * PREC * (sh * T)) ((2 * sval T S sh * PREC + 2 * PREC - 1) * S)) as [|Hge]; [assumption|].
    exfalso. assert (sval T S sh + 1 <= sval T S sh); [|lia].
    apply sval_ge_iff; auto. lia.
Qed.

Lemma recv_char S' I T' R : 0 <= S' -> 0 <= I -> 0 < T' -> R = Z.quot (S' * I) T' ->
  R * T' <= S' * I <= R * T' + T' - 1 /\ 0 <= R.
Proof.
  intros HS HI HT ->. rewrite Z.quot_div_nonneg by nia.
  pose proof (Z.div_mod (S' * I) T' ltac:(lia)). pose proof (Z.mod_pos_bound (S' * I) T' HT).
  split; [nia|]. apply Z.div_pos; nia.
Qed.

Lemma trunc_char z : 0 <= z -> dec_trunc_int z * PREC <= z <= dec_trunc_int z * PREC + PREC - 1.
Proof.
  intros Hz. unfold dec_trunc_int. rewrite Z.quot_div_nonneg by (unfold PREC; lia).
  pose proof (Z.div_mod z PREC ltac:(unfold PREC; lia)). pose proof (Z.mod_pos_bound z PREC PREC_pos). lia.
Qed.

(* multiply an inequality by a non-negative (positive) factor; [lia] then works on the products
   as atoms *)
Ltac mul_le Hyp__ fac__ New__ :=
  match type of Hyp__ with
  | ?a <= ?b => assert (New__ : fac__ * a <= fac__ * b) by (apply Z.mul_le_mono_nonneg_l; [lia | exact Hyp__])
  | ?a < ?b => assert (New__ : fac__ * a < fac__ * b) by (apply Z.mul_lt_mono_pos_l; [lia | exact Hyp__])
  end.

(* the value after a conversion never exceeds the value before by more than one unit:
   [rem] are the owner's shares that are not converted (they sit among the [S'] remaining
   shares), [g <= R] the shares (or units) the owner ends up with out of the [R] received *)
Lemma transfer_value_upper T S sh rem I R g :
  0 < T -> 0 < S -> 0 < sh -> sh < S -> 0 <= rem -> rem + sh <= S ->
  I = sval T S sh -> 0 <= I -> 0 < T - I ->
  R = Z.quot ((S - sh) * I) (T - I) -> 0 <= g <= R ->
  sval T (S - sh + R) (rem + g) <= sval T S (rem + sh) + 1.
Proof.
  intros HT HS Hsh HshS Hrem HO HI HI0 HT' HR Hg.
  destruct (issued_char T S sh I ltac:(lia) ltac:(lia) HS HI) as (D1 & D2).
  destruct (recv_char (S - sh) I (T - I) R ltac:(lia) HI0 HT' HR) as ((E1 & E2) & HR0).
  pose proof (sval_nonneg T S (rem + sh) ltac:(lia) ltac:(lia) HS) as HV0.
  set (V := sval T S (rem + sh)) in *.
  destruct (Z.le_gt_cases (sval T (S - sh + R) (rem + g)) (V + 1)) as [|Hgt]; [assumption|]. exfalso.
  assert (H2 : V + 2 <= sval T (S - sh + R) (rem + g)) by lia.
  apply sval_ge_iff in H2; try lia.
  assert (H1 : ~ (V + 1 <= sval T S (rem + sh))) by (subst V; lia).
  rewrite sval_ge_iff in H1 by lia.
  assert (H1' : 2 * PREC * ((rem + sh) * T) < (2 * (V + 1) * PREC - 1) * S) by lia. clear H1.
  clear HI HR Hgt. pose proof PREC_pos as HP.
  set (S' := S - sh) in *. set (T' := T - I) in *.
  assert (ET : T = T' + I) by (subst T'; lia).
  assert (ES : S = S' + sh) by (subst S'; lia).
  assert (HS' : 0 < S') by (subst S'; lia).
  assert (Hrem' : rem <= S') by (subst S'; lia).
  clearbody S' T' V.
  set (W := 2 * (V + 2) * PREC - 1) in *.
  assert (HW : 0 < W) by (subst W; nia).
  (* (1) (rem + g) T S' <= (rem T' + S' I)(S' + R) *)
  assert (A0 : 0 <= (S' - rem) * (S' * I - R * T')) by (apply Z.mul_nonneg_nonneg; lia).
  assert (A00 : 0 <= (R - g) * (T * S')) by (apply Z.mul_nonneg_nonneg; nia).
  assert (A1 : (rem + g) * T * S' <= (rem * T' + S' * I) * (S' + R)).
  { rewrite ET in *. ring_simplify in A0. ring_simplify in A00. ring_simplify. lia. }
  (* (2) W S' <= 2 P (rem T' + S' I) *)
  mul_le H2 S' M2.
  mul_le A1 (2 * PREC) M1.
  assert (B1 : (S' + R) * (W * S') <= (S' + R) * (2 * PREC * (rem * T' + S' * I))).
  { ring_simplify in M2. ring_simplify in M1. ring_simplify. lia. }
  assert (B2 : W * S' <= 2 * PREC * (rem * T' + S' * I)).
  { apply (Z.mul_le_mono_pos_l _ _ (S' + R)); [lia|exact B1]. }
  (* (3),(4) multiply by S resp. S' *)
  mul_le B2 S M3.
  mul_le H1' S' M4.
  set (Fn := sh * T - I * S).
  assert (F1 : - S <= 2 * PREC * Fn) by (subst Fn; lia).
  assert (EF : sh * T = Fn + I * S) by (subst Fn; ring).
  assert (ETS : T' * S = T * S' + Fn) by (subst Fn; rewrite ET, ES; ring).
  (* (5) S S' < (- Fn) (S' - rem) *)
  assert (B5 : 2 * PREC * (S * S') < 2 * PREC * ((- Fn) * (S' - rem))).
  { assert (X1 : rem * T' * S = rem * (T * S') + rem * Fn) by (rewrite <- Z.mul_assoc, ETS; ring).
    assert (X2 : (rem + sh) * T * S' = rem * (T * S') + Fn * S' + I * S * S') by (rewrite Z.mul_add_distr_r, EF; ring).
    subst W. clearbody Fn. clear - M3 M4 X1 X2.
    replace (S * (2 * PREC * (rem * T' + S' * I))) with (2 * PREC * (rem * T' * S) + 2 * PREC * (I * S * S')) in M3 by ring.
    replace (S' * (2 * PREC * ((rem + sh) * T))) with (2 * PREC * ((rem + sh) * T * S')) in M4 by ring.
    rewrite X1 in M3. rewrite X2 in M4. ring_simplify in M3. ring_simplify in M4. ring_simplify. lia. }
  assert (PSS : 0 < 2 * PREC * (S * S')) by (apply Z.mul_pos_pos; [lia|apply Z.mul_pos_pos; lia]).
  destruct (Z.le_gt_cases 0 Fn) as [Hf|Hf].
  - assert (0 <= 2 * PREC * (Fn * (S' - rem))) by (apply Z.mul_nonneg_nonneg; [lia|apply Z.mul_nonneg_nonneg; lia]).
    lia.
  - assert (X : (- Fn) * (S' - rem) <= (- Fn) * S') by (apply Z.mul_le_mono_nonneg_l; lia).
    assert (Y : (2 * PREC * (- Fn)) * S' <= S * S') by (apply Z.mul_le_mono_nonneg_r; lia).
    mul_le X (2 * PREC) X2.
    assert (P2 : 2 <= 2 * PREC) by lia.
    assert (Z1 : 2 * (S * S') <= 2 * PREC * (S * S')) by (apply Z.mul_le_mono_nonneg_r; [apply Z.mul_nonneg_nonneg; lia|lia]).
    lia.
Qed.

(* The value after a mint: [m = min (floor sh) (floor R)] whole units are issued for the [R]
   shares the module received.  Generic form: when, between Unbond and the re-delegation, a
   remaining share is worth at most [c] tokens (P T' <= c S'), the owner loses at most [c + 1]
   units: < 1 token truncated by Unbond, < 1 share (worth <= c tokens) floored by the mint. *)
Lemma mint_value_lower_gen c T S sh rem I R m :
  1 <= c ->
  0 < T -> 0 < S -> T <= PREC ->
  0 < sh -> sh < S -> 0 <= rem -> rem + sh <= S ->
  sh * T <= (T - 1) * S ->
  I = sval T S sh -> 0 < T - I ->
  R = Z.quot ((S - sh) * I) (T - I) ->
  m = Z.min (dec_trunc_int sh) (dec_trunc_int R) -> 0 < m ->
  PREC * (T - I) <= c * (S - sh) ->
  sval T S (rem + sh) - (c + 1) <= sval T (S - sh + R) (rem + m * PREC).
Proof.
  intros Hc HT HS HTP Hsh HshS Hrem HO Hk HI HT' HR Hm Hm0 HPq.
  pose proof (sval_nonneg T S sh ltac:(lia) ltac:(lia) HS) as HI0. rewrite <- HI in HI0.
  destruct (issued_char T S sh I ltac:(lia) ltac:(lia) HS HI) as (D1 & D2).
  destruct (recv_char (S - sh) I (T - I) R ltac:(lia) HI0 HT' HR) as ((E1 & E2) & HR0).
  pose proof (sval_nonneg T S (rem + sh) ltac:(lia) ltac:(lia) HS) as HV0.
  pose proof (sval_ge_iff T S (rem + sh) (sval T S (rem + sh)) ltac:(lia) ltac:(lia) HS) as (Hh & _).
  specialize (Hh (Z.le_refl _)).
  pose proof (trunc_char sh ltac:(lia)) as Ta. pose proof (trunc_char R HR0) as Tb.
  set (V := sval T S (rem + sh)) in *.
  pose proof PREC_pos as HP.
  assert (HmP : 0 <= m * PREC) by (apply Z.mul_nonneg_nonneg; lia).
  apply sval_ge_iff; [lia|lia|lia|].
  clear HI HR.
  set (S' := S - sh) in *. set (T' := T - I) in *.
  assert (ET : T = T' + I) by (subst T'; lia).
  assert (ES : S = S' + sh) by (subst S'; lia).
  assert (HS' : 0 < S') by (subst S'; lia).
  assert (Hrem' : rem <= S') by (subst S'; lia).
  set (Fn := sh * T - I * S) in *.
  assert (EF : sh * T = Fn + I * S) by (subst Fn; ring).
  assert (ETS : T' * S = T * S' + Fn) by (subst Fn; rewrite ET, ES; ring).
  assert (F1 : - S <= 2 * PREC * Fn) by (subst Fn; lia).
  assert (F2 : 2 * PREC * Fn < (2 * PREC - 1) * S) by (subst Fn; lia).
  assert (F3 : Fn < S).
  { destruct (Z.lt_ge_cases Fn S) as [|Hge]; [assumption|]. exfalso.
    assert (PREC * S <= PREC * Fn) by (apply Z.mul_le_mono_nonneg_l; lia). lia. }
  (* at least one token's worth of shares stays: T S' >= S *)
  assert (K1 : S <= T * S').
  { replace (T * S') with (T * S - sh * T) by (rewrite ES; ring). lia. }
  clearbody S' T' V Fn.
  (* the price hypothesis, multiplied by S *)
  assert (HPS : PREC * (T * S') + PREC * Fn <= c * (S * S')).
  { mul_le HPq S Nq. replace (S * (PREC * T')) with (PREC * (T' * S)) in Nq by ring. rewrite ETS in Nq.
    ring_simplify in Nq. ring_simplify. lia. }
  set (A := 2 * (V - (c + 1)) * PREC - 1).
  destruct (Z.le_gt_cases A 0) as [HA|HA].
  { assert (A * (S' + R) <= 0) by (apply Z.mul_nonpos_nonneg; lia).
    assert (0 <= 2 * PREC * ((rem + m * PREC) * T)) by (apply Z.mul_nonneg_nonneg; [lia|apply Z.mul_nonneg_nonneg; lia]).
    lia. }
  (* (S' + R) T' <= S' T *)
  assert (St1 : (S' + R) * T' <= S' * T) by (rewrite ET; lia).
  mul_le St1 A St2.
  assert (Hfin : forall X, A * S' <= 2 * PREC * X -> X <= (rem + m * PREC) * T' ->
                 A * (S' + R) <= 2 * PREC * ((rem + m * PREC) * T)).
  { intros X HX1 HX2.
    apply (Z.mul_le_mono_pos_l _ _ T' HT').
    mul_le HX1 T N1. mul_le HX2 (2 * PREC * T) N2.
    replace (T' * (A * (S' + R))) with (A * ((S' + R) * T')) by ring.
    replace (T' * (2 * PREC * ((rem + m * PREC) * T))) with (2 * PREC * T * ((rem + m * PREC) * T')) by ring.
    replace (A * (S' * T)) with (T * (A * S')) in St2 by ring.
    replace (T * (2 * PREC * X)) with (2 * PREC * T * X) in N1 by ring.
    lia. }
  (* h * S' *)
  mul_le Hh S' Mh.
  assert (SS0 : 0 < S * S') by (apply Z.mul_pos_pos; lia).
  assert (SSc : S * S' <= c * (S * S')).
  { assert (1 * (S * S') <= c * (S * S')) by (apply Z.mul_le_mono_nonneg_r; lia). lia. }
  assert (X3 : S * (A * S') = S' * ((2 * V * PREC - 1) * S) - 2 * PREC * ((c + 1) * (S * S'))) by (subst A; ring).
  destruct (Z.le_gt_cases (dec_trunc_int R) (dec_trunc_int sh)) as [Hba|Hab].
  - (* m = floor R *)
    rewrite Z.min_r in Hm by exact Hba. subst m.
    apply (Hfin (rem * T' + S' * I - PREC * T' + 1)).
    + (* key inequality, multiplied by S *)
      apply (Z.mul_le_mono_pos_l _ _ S HS).
      assert (X1 : S * (2 * PREC * (rem * T' + S' * I - PREC * T' + 1))
                   = 2 * PREC * (rem * (T * S') + rem * Fn + S' * I * S - PREC * (T * S') - PREC * Fn + S)).
      { replace (S * (2 * PREC * (rem * T' + S' * I - PREC * T' + 1)))
          with (2 * PREC * (rem * (T' * S) + S' * I * S - PREC * (T' * S) + S)) by ring.
        rewrite ETS. ring. }
      rewrite X1.
      assert (X2 : S' * (2 * PREC * ((rem + sh) * T)) = 2 * PREC * (rem * (T * S') + Fn * S' + S' * I * S)).
      { replace (S' * (2 * PREC * ((rem + sh) * T))) with (2 * PREC * (rem * (T * S') + (sh * T) * S')) by ring.
        rewrite EF. ring. }
      rewrite X2 in Mh. rewrite X3.
      (* remains: Fn (S' - rem) + P T S' + P Fn <= (c + 1) S S' + S *)
      assert (Core : Fn * (S' - rem) + PREC * (T * S') + PREC * Fn <= (c + 1) * (S * S') + S).
      { destruct (Z.le_gt_cases 0 Fn) as [Hf|Hf].
        - assert (Fn * (S' - rem) <= S * S').
          { assert (Fn * (S' - rem) <= Fn * S') by (apply Z.mul_le_mono_nonneg_l; lia).
            assert (Fn * S' <= S * S') by (apply Z.mul_le_mono_nonneg_r; lia). lia. }
          lia.
        - assert (Fn * (S' - rem) <= 0) by (apply Z.mul_nonpos_nonneg; lia). lia. }
      mul_le Core (2 * PREC) MC.
      ring_simplify in MC. ring_simplify in Mh. ring_simplify. lia.
    + (* (rem + floor R * P) T' >= rem T' + S' I - P T' + 1 *)
      assert (Y1 : (R - PREC + 1) * T' <= (dec_trunc_int R * PREC) * T') by (apply Z.mul_le_mono_nonneg_r; lia).
      ring_simplify in Y1. ring_simplify. lia.
  - (* m = floor sh < floor R *)
    rewrite Z.min_l in Hm by lia. subst m.
    assert (HOP : PREC <= rem + sh).
    { assert (1 * PREC <= dec_trunc_int sh * PREC) by (apply Z.mul_le_mono_nonneg_r; lia). lia. }
    apply (Hfin ((rem + sh - PREC + 1) * T')).
    + apply (Z.mul_le_mono_pos_l _ _ S HS).
      assert (X1 : S * (2 * PREC * ((rem + sh - PREC + 1) * T'))
                   = 2 * PREC * ((rem + sh) * (T * S') + (rem + sh) * Fn - (PREC - 1) * (T * S') - (PREC - 1) * Fn)).
      { replace (S * (2 * PREC * ((rem + sh - PREC + 1) * T'))) with (2 * PREC * ((rem + sh - PREC + 1) * (T' * S))) by ring.
        rewrite ETS. ring. }
      rewrite X1. rewrite X3.
      replace (S' * (2 * PREC * ((rem + sh) * T))) with (2 * PREC * ((rem + sh) * (T * S'))) in Mh by ring.
      assert (Core : (PREC - 1) * (T * S') + (PREC - 1 - (rem + sh)) * Fn <= (c + 1) * (S * S')).
      { destruct (Z.le_gt_cases 0 Fn) as [Hf|Hf].
        - assert ((PREC - 1 - (rem + sh)) * Fn <= 0) by (apply Z.mul_nonpos_nonneg; lia).
          assert (0 <= PREC * Fn) by (apply Z.mul_nonneg_nonneg; lia).
          assert (0 <= T * S') by (apply Z.mul_nonneg_nonneg; lia).
          lia.
        - (* (P - 1) T S' <= c S S' + P (-Fn) - T S' <= c S S' *)
          assert (C0 : (PREC - 1) * (T * S') <= c * (S * S')) by lia.
          (* (O - P + 1)(-Fn) <= O S / (2P) <= S S' *)
          assert (C2 : (rem + sh - PREC + 1) * (- Fn) <= (rem + sh) * (- Fn)) by (apply Z.mul_le_mono_nonneg_r; lia).
          assert (C3 : (rem + sh) * (2 * PREC * (- Fn)) <= (rem + sh) * S) by (apply Z.mul_le_mono_nonneg_l; lia).
          assert (C4 : (rem + sh) * S <= S * S) by (apply Z.mul_le_mono_nonneg_r; lia).
          assert (C5 : S * S <= S * (PREC * S')).
          { apply Z.mul_le_mono_nonneg_l; [lia|]. assert (T * S' <= PREC * S') by (apply Z.mul_le_mono_nonneg_r; lia). lia. }
          assert (C6 : 2 * PREC * ((rem + sh) * (- Fn)) <= 2 * PREC * (S * S')).
          { replace (2 * PREC * ((rem + sh) * (- Fn))) with ((rem + sh) * (2 * PREC * (- Fn))) by ring.
            replace (S * (PREC * S')) with (PREC * (S * S')) in C5 by ring.
            assert (PREC * (S * S') <= 2 * PREC * (S * S')) by (apply Z.mul_le_mono_nonneg_r; lia). lia. }
          assert (C7 : (rem + sh) * (- Fn) <= S * S') by (apply (Z.mul_le_mono_pos_l _ _ (2 * PREC)); lia).
          replace ((PREC - 1 - (rem + sh)) * Fn) with ((rem + sh - PREC + 1) * (- Fn)) by ring. lia. }
      mul_le Core (2 * PREC) MC.
      ring_simplify in MC. ring_simplify in Mh. ring_simplify. lia.
    + assert (Y1 : (sh - PREC + 1) * T' <= (dec_trunc_int sh * PREC) * T') by (apply Z.mul_le_mono_nonneg_r; lia).
      ring_simplify in Y1. ring_simplify. lia.
Qed.

(* share price <= 1 before  ==>  a remaining share is worth at most two tokens in between *)
Lemma price_between_le2 T S sh I :
  0 < T -> 0 < S -> PREC * T <= S -> 0 < sh -> sh < S -> sh * T <= (T - 1) * S ->
  I = sval T S sh -> PREC * (T - I) <= 2 * (S - sh).
Proof.
  intros HT HS Hp Hsh HshS Hk HI.
  destruct (issued_char T S sh I ltac:(lia) ltac:(lia) HS HI) as (D1 & D2).
  pose proof PREC_pos as HP.
  set (Fn := sh * T - I * S).
  assert (F2 : 2 * PREC * Fn < (2 * PREC - 1) * S) by (subst Fn; lia).
  assert (F3 : Fn < S).
  { destruct (Z.lt_ge_cases Fn S) as [|Hge]; [assumption|]. exfalso.
    assert (PREC * S <= PREC * Fn) by (apply Z.mul_le_mono_nonneg_l; lia). lia. }
  assert (K1 : S <= T * (S - sh)) by (replace (T * (S - sh)) with (T * S - sh * T) by ring; lia).
  assert (ETS : (T - I) * S = T * (S - sh) + Fn) by (subst Fn; ring).
  apply (Z.mul_le_mono_pos_l _ _ S HS).
  replace (S * (PREC * (T - I))) with (PREC * ((T - I) * S)) by ring. rewrite ETS.
  assert (X : PREC * (T * (S - sh) + Fn) <= PREC * (2 * (T * (S - sh)))) by (apply Z.mul_le_mono_nonneg_l; lia).
  assert (Y : (PREC * T) * (2 * (S - sh)) <= S * (2 * (S - sh))) by (apply Z.mul_le_mono_nonneg_r; lia).
  replace (PREC * (2 * (T * (S - sh)))) with ((PREC * T) * (2 * (S - sh))) in X by ring. lia.
Qed.

(* a share worth at most [c] tokens AFTER the conversion was worth at most [c] in between *)
Lemma price_between_of_after c T S' I R :
  0 < T -> 0 <= S' -> 0 <= I -> 0 < T - I -> 0 <= c ->
  R * (T - I) <= S' * I -> PREC * T <= c * (S' + R) -> PREC * (T - I) <= c * S'.
Proof.
  intros HT HS' HI HT' Hc E1 Hp.
  apply (Z.mul_le_mono_pos_l _ _ T HT).
  mul_le Hp (T - I) M1. mul_le E1 c M2.
  replace (T * (PREC * (T - I))) with ((T - I) * (PREC * T)) by ring.
  replace (T * (c * S')) with (c * (S' * (T - I)) + c * (S' * I)) by ring.
  replace ((T - I) * (c * (S' + R))) with (c * (S' * (T - I)) + c * (R * (T - I))) in M1 by ring. lia.
Qed.

(* a burn: all the [R] received shares stay with the owner *)
Lemma burn_value_lower T S sh rem I R :
  0 < T -> 0 < S -> 2 * T <= S ->
  0 < sh -> sh < S -> 0 <= rem -> rem + sh <= S ->
  I = sval T S sh -> 0 < T - I ->
  R = Z.quot ((S - sh) * I) (T - I) ->
  sval T S (rem + sh) - 2 <= sval T (S - sh + R) (rem + R).
Proof.
  intros HT HS Hprice Hsh HshS Hrem HO HI HT' HR.
  pose proof (sval_nonneg T S sh ltac:(lia) ltac:(lia) HS) as HI0. rewrite <- HI in HI0.
  destruct (issued_char T S sh I ltac:(lia) ltac:(lia) HS HI) as (D1 & D2).
  destruct (recv_char (S - sh) I (T - I) R ltac:(lia) HI0 HT' HR) as ((E1 & E2) & HR0).
  pose proof (sval_nonneg T S (rem + sh) ltac:(lia) ltac:(lia) HS) as HV0.
  pose proof (sval_ge_iff T S (rem + sh) (sval T S (rem + sh)) ltac:(lia) ltac:(lia) HS) as (Hh & _).
  specialize (Hh (Z.le_refl _)).
  set (V := sval T S (rem + sh)) in *.
  pose proof PREC_pos as HP.
  apply sval_ge_iff; [lia|lia|lia|].
  clear HI HR.
  set (S' := S - sh) in *. set (T' := T - I) in *.
  assert (ET : T = T' + I) by (subst T'; lia).
  assert (ES : S = S' + sh) by (subst S'; lia).
  assert (HS' : 0 < S') by (subst S'; lia).
  assert (Hrem' : rem <= S') by (subst S'; lia).
  set (Fn := sh * T - I * S) in *.
  assert (EF : sh * T = Fn + I * S) by (subst Fn; ring).
  assert (ETS : T' * S = T * S' + Fn) by (subst Fn; rewrite ET, ES; ring).
  assert (F2 : 2 * PREC * Fn < (2 * PREC - 1) * S) by (subst Fn; lia).
  assert (F3 : Fn < S).
  { destruct (Z.lt_ge_cases Fn S) as [|Hge]; [assumption|]. exfalso.
    assert (PREC * S <= PREC * Fn) by (apply Z.mul_le_mono_nonneg_l; lia). lia. }
  clearbody S' T' V Fn.
  (* T' <= S' : the remaining shares are worth at most 10^18 tokens each *)
  assert (HTS : T' * S <= S' * S).
  { rewrite ETS. destruct (Z.le_gt_cases S (T * S')) as [Hk|Hk].
    - assert ((2 * T) * S' <= S * S') by (apply Z.mul_le_mono_nonneg_r; lia). lia.
    - (* less than one token's worth stays: T' = 1 *)
      assert (T' * S < 2 * S) by lia.
      assert (T' < 2) by (apply (Z.mul_lt_mono_pos_r S); lia).
      assert (T' = 1) by lia. subst T'. assert (1 * S <= S' * S) by (apply Z.mul_le_mono_nonneg_r; lia). lia. }
  set (A := 2 * (V - 2) * PREC - 1).
  destruct (Z.le_gt_cases A 0) as [HA|HA].
  { assert (A * (S' + R) <= 0) by (apply Z.mul_nonpos_nonneg; lia).
    assert (0 <= 2 * PREC * ((rem + R) * T)) by (apply Z.mul_nonneg_nonneg; [lia|apply Z.mul_nonneg_nonneg; lia]).
    lia. }
  assert (St1 : (S' + R) * T' <= S' * T) by (rewrite ET; lia).
  mul_le St1 A St2.
  mul_le Hh S' Mh.
  assert (SS0 : 0 < S * S') by (apply Z.mul_pos_pos; lia).
  (* A S' <= 2 P X,  X = rem T' + S' I - T' + 1 <= (rem + R) T' *)
  assert (HX1 : A * S' <= 2 * PREC * (rem * T' + S' * I - T' + 1)).
  { apply (Z.mul_le_mono_pos_l _ _ S HS).
    assert (X1 : S * (2 * PREC * (rem * T' + S' * I - T' + 1))
                 = 2 * PREC * (rem * (T * S') + rem * Fn + S' * I * S - T' * S + S)).
    { replace (S * (2 * PREC * (rem * T' + S' * I - T' + 1)))
        with (2 * PREC * (rem * (T' * S) + S' * I * S - T' * S + S)) by ring.
      rewrite ETS. ring. }
    rewrite X1.
    assert (X2 : S' * (2 * PREC * ((rem + sh) * T)) = 2 * PREC * (rem * (T * S') + Fn * S' + S' * I * S)).
    { replace (S' * (2 * PREC * ((rem + sh) * T))) with (2 * PREC * (rem * (T * S') + (sh * T) * S')) by ring.
      rewrite EF. ring. }
    rewrite X2 in Mh.
    assert (X3 : S * (A * S') = S' * ((2 * V * PREC - 1) * S) - 2 * PREC * (2 * (S * S'))) by (subst A; ring).
    rewrite X3.
    assert (Core : Fn * (S' - rem) + T' * S <= 2 * (S * S') + S).
    { destruct (Z.le_gt_cases 0 Fn) as [Hf|Hf].
      - assert (Fn * (S' - rem) <= Fn * S') by (apply Z.mul_le_mono_nonneg_l; lia).
        assert (Fn * S' <= S * S') by (apply Z.mul_le_mono_nonneg_r; lia). lia.
      - assert (Fn * (S' - rem) <= 0) by (apply Z.mul_nonpos_nonneg; lia). lia. }
    mul_le Core (2 * PREC) MC.
    ring_simplify in MC. ring_simplify in Mh. ring_simplify. lia. }
  assert (HX2 : rem * T' + S' * I - T' + 1 <= (rem + R) * T') by (ring_simplify; lia).
  apply (Z.mul_le_mono_pos_l _ _ T' HT').
  mul_le HX1 T N1. mul_le HX2 (2 * PREC * T) N2.
  replace (T' * (A * (S' + R))) with (A * ((S' + R) * T')) by ring.
  replace (T' * (2 * PREC * ((rem + R) * T))) with (2 * PREC * T * ((rem + R) * T')) by ring.
  replace (A * (S' * T)) with (T * (A * S')) in St2 by ring.
  replace (T * (2 * PREC * (rem * T' + S' * I - T' + 1))) with (2 * PREC * T * (rem * T' + S' * I - T' + 1)) in N1 by ring.
  lia.
Qed.

(* shares worth less than one token are unbonded for nothing (issued = 0): the owner's
   remaining shares are worth at least what they were, at most one unit is lost *)
Lemma zero_issue_value T S sh rem :
  0 < T -> 0 < S -> 0 < sh -> sh < S -> 0 <= rem -> rem + sh <= S ->
  sval T S sh = 0 ->
  sval T S (rem + sh) - 1 <= sval T (S - sh) rem <= sval T S (rem + sh).
Proof.
  intros HT HS Hsh HshS Hrem HO HI. symmetry in HI.
  destruct (issued_char T S sh 0 ltac:(lia) ltac:(lia) HS HI) as (_ & D2).
  pose proof PREC_pos as HP.
  pose proof (sval_ge_iff T S (rem + sh) (sval T S (rem + sh)) ltac:(lia) ltac:(lia) HS) as (Hh & _).
  specialize (Hh (Z.le_refl _)).
  pose proof (sval_nonneg T S (rem + sh) ltac:(lia) ltac:(lia) HS) as HV0.
  set (V := sval T S (rem + sh)) in *.
  split.
  - apply sval_ge_iff; [lia|lia|lia|].
    destruct (Z.le_gt_cases V 1) as [|HV1].
    { assert ((2 * (V - 1) * PREC - 1) * (S - sh) <= 0).
      { apply Z.mul_nonpos_nonneg; [|lia]. assert (2 * (V - 1) * PREC <= 0) by (apply Z.mul_nonpos_nonneg; lia). lia. }
      assert (0 <= 2 * PREC * (rem * T)) by (apply Z.mul_nonneg_nonneg; [lia|apply Z.mul_nonneg_nonneg; lia]). lia. }
    assert (X : (2 * (V - 1) * PREC) * (S - sh) <= (2 * (V - 1) * PREC) * S).
    { apply Z.mul_le_mono_nonneg_l; [|lia]. apply Z.mul_nonneg_nonneg; lia. }
    ring_simplify in X. ring_simplify in Hh. ring_simplify in D2. ring_simplify. lia.
  - destruct (Z.le_gt_cases (sval T (S - sh) rem) V) as [|Hgt]; [assumption|]. exfalso.
    assert (H2 : V + 1 <= sval T (S - sh) rem) by lia.
    apply sval_ge_iff in H2; try lia.
    assert (H1 : ~ (V + 1 <= sval T S (rem + sh))) by (subst V; lia).
    rewrite sval_ge_iff in H1 by lia.
    assert (H1' : 2 * PREC * ((rem + sh) * T) < (2 * (V + 1) * PREC - 1) * S) by lia. clear H1.
    set (W := 2 * (V + 1) * PREC - 1) in *.
    assert (HW : 0 < W) by (subst W; assert (0 <= 2 * V * PREC) by (apply Z.mul_nonneg_nonneg; lia); lia).
    (* W S' S <= 2P rem T S  and  2P (rem+sh) T S' < W S S'  ==>  (rem + sh) S' < rem S *)
    mul_le H2 S M2. mul_le H1' (S - sh) M1.
    assert (Y : 2 * PREC * T * ((rem + sh) * (S - sh)) < 2 * PREC * T * (rem * S)).
    { ring_simplify in M2. ring_simplify in M1. ring_simplify. lia. }
    assert (Y2 : (rem + sh) * (S - sh) < rem * S).
    { apply (Z.mul_lt_mono_pos_l (2 * PREC * T)); [|exact Y]. apply Z.mul_pos_pos; lia. }
    assert (0 <= sh * (S - sh - rem)) by (apply Z.mul_nonneg_nonneg; lia).
    ring_simplify in Y2. ring_simplify in H. lia.
Qed.

Lemma sval_all T S : 0 <= T -> 0 < S -> sval T S S = T.
Proof.
  intros HT HS. pose proof PREC_pos as HP.
  assert (A : T <= sval T S S).
  { apply sval_ge_iff; lia. }
  destruct (Z.le_gt_cases (sval T S S) T) as [|Hgt]; [lia|]. exfalso.
  assert (H2 : T + 1 <= sval T S S) by lia.
  apply sval_ge_iff in H2; try lia.
  replace (2 * PREC * (S * T)) with ((2 * T * PREC) * S) in H2 by ring.
  assert ((2 * (T + 1) * PREC - 1) <= 2 * T * PREC) by (apply (Z.mul_le_mono_pos_r _ _ S); lia). lia.
Qed.

Lemma sval_rate1 T k : 0 < T -> 0 <= k -> sval T (T * PREC) (k * PREC) = k.
Proof.
  intros HT Hk. pose proof PREC_pos as HP.
  assert (HS : 0 < T * PREC) by (apply Z.mul_pos_pos; lia).
  assert (Hk' : 0 <= k * PREC) by (apply Z.mul_nonneg_nonneg; lia).
  assert (A : k <= sval T (T * PREC) (k * PREC)).
  { apply sval_ge_iff; lia. }
  destruct (Z.le_gt_cases (sval T (T * PREC) (k * PREC)) k) as [|Hgt]; [lia|]. exfalso.
  assert (H2 : k + 1 <= sval T (T * PREC) (k * PREC)) by lia.
  apply sval_ge_iff in H2; try lia.
  replace (2 * PREC * (k * PREC * T)) with ((2 * k * PREC) * (T * PREC)) in H2 by ring.
  assert ((2 * (k + 1) * PREC - 1) <= 2 * k * PREC) by (apply (Z.mul_le_mono_pos_r _ _ (T * PREC)); lia). lia.
Qed.

(** * 3. on the model state *)

(* the arithmetic content of a successful TransferDelegation *)
Lemma transfer_arith e s i from to sh s' recv :
  (from < nacc e)%nat -> Inv e s ->
  transfer_delegation e s i from to sh = Ok s' recv ->
  let T := v_tokens (vals s i) in let S := v_shares (vals s i) in
  0 < sh <= dshares s from i /\ dshares s from i <= S /\ 0 <= T /\ v_exists (vals s i) = true /\
  ((sh = S /\ ((T = 0 /\ recv = 0) \/ (0 < T /\ recv = T * PREC)))
   \/ (sh < S /\ sval T S sh = 0 /\ recv = 0 /\ v_tokens (vals s' i) = T /\ v_shares (vals s' i) = S - sh)
   \/ (sh < S /\ 0 < sval T S sh /\ 0 < T - sval T S sh /\
       recv = Z.quot ((S - sh) * sval T S sh) (T - sval T S sh) /\
       v_tokens (vals s' i) = T /\ v_shares (vals s' i) = S - sh + recv)).
Proof.
  intros Hf HI Ht T S. pose proof HI as (I1 & I2 & I3 & _).
  apply transfer_form in Ht. destruct Ht as (Hshp & _ & s1 & issued & Hu & Hc).
  apply unbond_spec in Hu.
  destruct Hu as (d & v1 & Ed & Hle & Hex & Hv1 & (v2 & Hrem & Hvals) & _ & _).
  assert (Hd : dshares s from i = d) by (unfold dshares; now rewrite Ed).
  assert (Ht1 : v_tokens v1 = T /\ v_shares v1 = S).
  { destruct Hv1 as [->|(_ & -> & _)]; split; reflexivity. }
  destruct Ht1 as (Ht1 & Hs1).
  assert (HdS : d <= S).
  { subst S. rewrite (I2 i Hex), <- Hd. apply (sumN_ge1 (nacc e) (fun x => dshares s x i)); [intros; apply I3|exact Hf]. }
  pose proof (I1 i) as (HT0 & HS0). fold T in HT0. fold S in HS0.
  split; [lia|]. split; [lia|]. split; [exact HT0|]. split; [exact Hex|].
  assert (Hvs1 : v_tokens (vals s1 i) = v_tokens v2 /\ v_shares (vals s1 i) = v_shares v2).
  { rewrite Hvals. destruct (_ && _); split; reflexivity. }
  destruct Hvs1 as (Ht2 & Hs2).
  unfold remove_del_shares in Hrem. rewrite Hs1, Ht1 in Hrem.
  destruct (Z.eqb_spec (S - sh) 0) as [E0|E0].
  - (* every share of the validator *)
    injection Hrem as <- <-. left. split; [lia|].
    destruct Hc as [(-> & _ & ->)|(Hinz & Hd')]; [left; split; [reflexivity|reflexivity]|].
    right. split; [lia|].
    apply delegate_spec_gen in Hd'. destruct Hd' as ((v' & Hadd & _) & _).
    unfold add_tokens_from_del in Hadd. rewrite Hs2 in Hadd. cbn [set_ts v_shares] in Hadd.
    rewrite E0 in Hadd. cbn in Hadd. injection Hadd as _ <-. reflexivity.
  - destruct (Z.eqb_spec S 0); [discriminate|].
    assert (Hiss : dec_trunc_int (tokens_from_shares v1 sh) = sval T S sh).
    { rewrite sval_tfs, Ht1, Hs1. reflexivity. }
    rewrite Hiss in Hrem.
    destruct (Z.ltb_spec (T - sval T S sh) 0) as [|HT'ge]; [discriminate|].
    injection Hrem as <- <-. cbn [set_ts v_tokens v_shares] in Ht2, Hs2.
    right.
    destruct Hc as [(Hz & -> & ->)|(Hinz & Hd')].
    + left. repeat split; auto; lia.
    + right.
      apply delegate_spec_gen in Hd'. destruct Hd' as ((v' & Hadd & Hv') & _).
      unfold add_tokens_from_del in Hadd. rewrite Hs2, Ht2 in Hadd.
      destruct (Z.eqb_spec (S - sh) 0); [contradiction|].
      destruct (Z.eqb_spec (T - sval T S sh) 0); [discriminate|].
      injection Hadd as <- <-. rewrite Hv'. cbn [set_ts v_tokens v_shares].
      unfold shares_from_tokens, dec_quo_int. rewrite Hs2, Ht2.
      pose proof (sval_nonneg T S sh ltac:(lia) HT0 ltac:(lia)).
      repeat split; try lia.
Qed.

Lemma sumN_ge2 n f a b : (forall x, 0 <= f x) -> (a < n)%nat -> (b < n)%nat -> a <> b -> f a + f b <= sumN n f.
Proof.
  intros H Ha Hb Hab.
  set (g := fun x => if Nat.eqb x a then 0 else f x).
  assert (E : sumN n g = sumN n f - f a + g a).
  { apply (sumN_change n f g a Ha). intros x Hx. subst g. cbv beta. destruct (Nat.eqb_spec x a); congruence. }
  assert (Hg : forall x, 0 <= g x) by (intros x; subst g; cbv beta; destruct (Nat.eqb x a); [lia|apply H]).
  pose proof (sumN_ge1 n g b Hg Hb) as G.
  assert (g a = 0) by (subst g; cbv beta; now rewrite Nat.eqb_refl).
  assert (g b = f b) by (subst g; cbv beta; destruct (Nat.eqb_spec b a); congruence).
  lia.
Qed.

(* backing + the staking invariant: what a user owns (delegation + derivative units) never
   exceeds the validator's shares *)
Lemma owned_le_shares e s a i :
  env_wf e -> Inv e s -> backed_all e s -> (a < nacc e)%nat -> a <> liq e ->
  v_exists (vals s i) = true -> 0 <= held s a i /\ owned s a i <= v_shares (vals s i).
Proof.
  intros Hwf (I1 & I2 & I3 & I4 & I5 & _) HB Ha Hne Hex.
  assert (Hh0 : forall x, 0 <= held s x i) by (intros x; unfold held; pose proof (I5 x i); lia).
  split; [apply Hh0|].
  unfold owned. rewrite (I2 i Hex).
  pose proof (sumN_ge2 (nacc e) (fun x => dshares s x i) a (liq e) (fun x => I3 x i) Ha Hwf Hne) as G. cbv beta in G.
  pose proof (sumN_ge1 (nacc e) (fun x => held s x i) a Hh0 Ha) as G2. cbv beta in G2.
  rewrite <- I4 in G2. pose proof (HB i).
  assert (held s a i * PREC <= dsup s i * PREC) by (apply Z.mul_le_mono_nonneg_r; [unfold PREC|]; lia). lia.
Qed.

(* ValidateUnbondAmount: the shares are worth at most the tokens asked; unless they are all
   the validator's shares at least one token stays *)
Lemma validate_arith e s a i amt sh :
  Inv e s -> 0 < amt -> validate_unbond_amount s a i amt = Some sh ->
  let T := v_tokens (vals s i) in let S := v_shares (vals s i) in
  0 < T /\ 0 <= sh <= dshares s a i /\ sh * T <= S * amt /\ (sh < S -> sh * T <= (T - 1) * S).
Proof.
  intros HI Hamt Hv T S. pose proof HI as (I1 & _ & I3 & _).
  pose proof (validate_nonneg _ _ _ _ _ _ HI Hamt Hv) as Hsh0.
  unfold validate_unbond_amount in Hv.
  destruct (negb (v_exists (vals s i))); [discriminate|].
  destruct (del s a i) as [d|] eqn:Ed; [|discriminate].
  destruct (Z.eqb_spec (v_tokens (vals s i)) 0) as [|HT0]; [discriminate|].
  pose proof (I1 i) as (HT & HS). fold T in HT, HT0. fold S in HS.
  assert (Hd : dshares s a i = d) by (unfold dshares; now rewrite Ed). rewrite Hd.
  unfold shares_from_tokens, shares_from_tokens_trunc, dec_quo_int, dec_quo_trunc, chop_trunc, dec_of_int in Hv.
  fold T S in Hv.
  set (sft := Z.quot (S * amt) T) in *.
  set (sftt := Z.quot (Z.quot (S * amt * PREC * PREC) (T * PREC)) PREC) in *.
  assert (Hsft : sft * T <= S * amt < sft * T + T).
  { subst sft. rewrite Z.quot_div_nonneg by nia.
    pose proof (Z.div_mod (S * amt) T ltac:(lia)). pose proof (Z.mod_pos_bound (S * amt) T ltac:(lia)). nia. }
  destruct (Z.ltb_spec d sftt) as [|Hge]; [discriminate|].
  assert (Hsh : sh <= sft /\ sh <= d /\ (sh = sft \/ sh = d)).
  { destruct (Z.ltb_spec d sft); injection Hv as <-; lia. }
  destruct Hsh as (Hs1 & Hs2 & Hs3).
  split; [lia|]. split; [lia|]. split.
  - assert (sh * T <= sft * T) by (apply Z.mul_le_mono_nonneg_r; lia). lia.
  - intros HshS.
    assert (Hamt' : amt <= T - 1).
    { destruct (Z.le_gt_cases amt (T - 1)) as [|Hbig]; [assumption|]. exfalso.
      (* amt >= T: both share computations give at least S *)
      assert (S * T <= S * amt) by (apply Z.mul_le_mono_nonneg_l; lia).
      assert (S <= sft).
      { destruct (Z.le_gt_cases S sft); [assumption|]. assert (sft + 1 <= S) by lia.
        assert ((sft + 1) * T <= S * T) by (apply Z.mul_le_mono_nonneg_r; lia). lia. }
      assert (S <= sftt).
      { subst sftt. pose proof PREC_pos as HP.
        assert (0 < T * PREC) by (apply Z.mul_pos_pos; lia).
        assert (0 <= S * amt * PREC * PREC) by (repeat apply Z.mul_nonneg_nonneg; lia).
        rewrite (Z.quot_div_nonneg (S * amt * PREC * PREC)) by lia.
        assert (S * PREC <= S * amt * PREC * PREC / (T * PREC)).
        { apply Z.div_le_lower_bound; [lia|].
          replace (T * PREC * (S * PREC)) with ((S * T) * (PREC * PREC)) by ring.
          replace (S * amt * PREC * PREC) with ((S * amt) * (PREC * PREC)) by ring.
          apply Z.mul_le_mono_nonneg_r; [apply Z.mul_nonneg_nonneg; lia|lia]. }
        rewrite Z.quot_div_nonneg by lia.
        apply Z.div_le_lower_bound; lia. }
      destruct Hs3; lia. }
    assert (S * amt <= S * (T - 1)) by (apply Z.mul_le_mono_nonneg_l; lia).
    assert (sh * T <= sft * T) by (apply Z.mul_le_mono_nonneg_r; lia). lia.
Qed.

Lemma mint_decomp e s a i amt s' minted :
  env_wf e -> Inv e s -> backed_all e s -> (a < nacc e)%nat -> a <> liq e ->
  mint e s a i amt = Ok s' minted ->
  let T := v_tokens (vals s i) in let S := v_shares (vals s i) in
  exists sh recv rem,
    0 < T /\ 0 < S /\ 0 < sh /\ 0 <= rem /\ rem + sh <= S /\ (sh < S -> sh * T <= (T - 1) * S) /\
    minted = Z.min (dec_trunc_int sh) (dec_trunc_int recv) /\ 0 < minted /\
    sh = dshares s a i - dshares s' a i /\
    staked_value s a i = sval T S (rem + sh) /\
    v_tokens (vals s' i) = T /\ v_shares (vals s' i) = S - sh + recv /\
    staked_value s' a i = sval T (S - sh + recv) (rem + minted * PREC) /\
    ((sh = S /\ rem = 0 /\ recv = T * PREC) \/
     (sh < S /\ 0 < sval T S sh /\ 0 < T - sval T S sh /\
      recv = Z.quot ((S - sh) * sval T S sh) (T - sval T S sh))).
Proof.
  intros Hwf HI HB Ha Hne Hm T S.
  unfold mint in Hm. destruct (Z.leb_spec amt 0) as [|Hamt]; [discriminate|].
  destruct (validate_unbond_amount s a i amt) as [sh|] eqn:Ev; [|discriminate].
  destruct (transfer_delegation e s i a (liq e) sh) as [s1 recv| |] eqn:Et; try discriminate.
  destruct (Z.leb_spec (Z.min (dec_trunc_int sh) (dec_trunc_int recv)) 0) as [|Hmin]; [discriminate|].
  injection Hm as <- <-.
  destruct (validate_arith e s a i amt sh HI Hamt Ev) as (HT & (Hsh0 & Hshd) & _ & Hk). fold T in HT, Hk. fold S in Hk.
  destruct (transfer_arith e s i a (liq e) sh s1 recv Ha HI Et) as (Hshp & HdS & _ & Hex & Hcases). fold T S in HdS, Hcases.
  pose proof (transfer_spec _ _ _ _ _ _ _ _ Hne Et) as (d & Ed & _ & Hfrom & _ & _ & Htok & Hshr & _ & _ & _ & _ & _ & _ & _ & Hdb & Hsv & Her & _ & _).
  fold T in Htok. fold S in Hshr.
  destruct (owned_le_shares e s a i Hwf HI HB Ha Hne Hex) as (Hh0 & Hown). fold S in Hown.
  assert (Hd : dshares s a i = d) by (unfold dshares; now rewrite Ed).
  set (mt := Z.min (dec_trunc_int sh) (dec_trunc_int recv)) in *.
  set (s' := set_dsup (set_dbal s1 a i (dbal s1 a i + mt)) i (dsup s1 i + mt)).
  assert (Hd' : dshares s' a i = d - sh).
  { unfold dshares. subst s'. cbn [set_dsup set_dbal del]. rewrite Hfrom. destruct (Z.eqb_spec (d - sh) 0); lia. }
  assert (Hheld : held s' a i = held s a i + mt).
  { unfold held. subst s'. cbn [set_dsup set_dbal dbal sav ern]. rewrite upd2_same, Hdb, Hsv, Her. lia. }
  exists sh, recv, (d - sh + held s a i * PREC).
  assert (Hrem0 : 0 <= d - sh + held s a i * PREC).
  { assert (0 <= held s a i * PREC) by (apply Z.mul_nonneg_nonneg; [lia|unfold PREC; lia]). lia. }
  assert (HS : 0 < S) by lia.
  unfold owned in Hown. rewrite Hd in Hown.
  split; [exact HT|]. split; [exact HS|]. split; [lia|]. split; [exact Hrem0|]. split; [lia|]. split; [exact Hk|].
  split; [reflexivity|]. split; [lia|]. split; [lia|].
  split.
  { unfold staked_value. rewrite sval_tfs. fold T S. f_equal. unfold owned. lia. }
  split; [exact Htok|]. split; [exact Hshr|].
  split.
  { assert (Hvals : vals s' = vals s1) by reflexivity.
    unfold staked_value. rewrite sval_tfs. rewrite Hvals, Htok, Hshr.
    f_equal. unfold owned. rewrite Hd', Hheld. lia. }
  destruct Hcases as [(Hall & Hc)|[(_ & _ & Hz & _)|(Hlt & Hi0 & HT' & Hr & _)]].
  - left. split; [exact Hall|]. split.
    + assert (0 <= held s a i * PREC) by (apply Z.mul_nonneg_nonneg; [lia|unfold PREC; lia]). lia.
    + destruct Hc as [(Hz & _)|(_ & Hr)]; [lia|exact Hr].
  - exfalso. subst recv. subst mt. unfold dec_trunc_int in Hmin. cbn in Hmin. lia.
  - right. repeat split; assumption.
Qed.

(** ** a mint never raises the value owned by more than one unit (any exchange rate) *)
Theorem mint_value_upper e s a i amt s' minted :
  env_wf e -> Inv e s -> backed_all e s -> (a < nacc e)%nat -> a <> liq e ->
  mint e s a i amt = Ok s' minted ->
  staked_value s' a i <= staked_value s a i + 1.
Proof.
  intros Hwf HI HB Ha Hne Hm.
  destruct (mint_decomp e s a i amt s' minted Hwf HI HB Ha Hne Hm)
    as (sh & recv & rem & HT & HS & Hsh & Hrem & HO & Hk & Hmin & Hm0 & _ & HV & _ & _ & HV' & Hc).
  rewrite HV, HV'. set (T := v_tokens (vals s i)) in *. set (S := v_shares (vals s i)) in *.
  destruct Hc as [(-> & -> & ->)|(Hlt & Hi0 & HT' & Hr)].
  - replace (S - S + T * PREC) with (T * PREC) by lia. cbn [Z.add].
    rewrite sval_all by lia. rewrite sval_rate1 by lia.
    pose proof (trunc_char (T * PREC) ltac:(unfold PREC; lia)) as Tt.
    assert (dec_trunc_int (T * PREC) = T) by (unfold dec_trunc_int; apply Z.quot_mul; unfold PREC; lia). lia.
  - assert (HR0 : 0 <= recv).
    { rewrite Hr. apply Z.quot_pos; [apply Z.mul_nonneg_nonneg; lia|lia]. }
    pose proof (trunc_char recv HR0) as Tb.
    apply (transfer_value_upper T S sh rem (sval T S sh) recv (minted * PREC)); auto; try lia.
    split; [apply Z.mul_nonneg_nonneg; [lia|unfold PREC; lia]|].
    assert (minted * PREC <= dec_trunc_int recv * PREC) by (apply Z.mul_le_mono_nonneg_r; [unfold PREC|]; lia). lia.
Qed.

(** ** the loss of a mint: at most c + 1 units when a share is worth at most c tokens after
    the mint (the mint does not convert every share of the validator) *)
Theorem mint_value_lower_price e s a i amt s' minted c :
  env_wf e -> Inv e s -> backed_all e s -> (a < nacc e)%nat -> a <> liq e ->
  mint e s a i amt = Ok s' minted ->
  1 <= c -> v_tokens (vals s i) <= PREC ->
  dshares s a i - dshares s' a i <> v_shares (vals s i) ->
  PREC * v_tokens (vals s' i) <= c * v_shares (vals s' i) ->
  staked_value s a i - (c + 1) <= staked_value s' a i.
Proof.
  intros Hwf HI HB Ha Hne Hm Hc HTP Hnall Hprice.
  destruct (mint_decomp e s a i amt s' minted Hwf HI HB Ha Hne Hm)
    as (sh & recv & rem & HT & HS & Hsh & Hrem & HO & Hk & Hmin & Hm0 & Hshe & HV & Htok & Hshr & HV' & Hcs).
  rewrite HV, HV'. rewrite Htok, Hshr in Hprice. rewrite <- Hshe in Hnall.
  set (T := v_tokens (vals s i)) in *. set (S := v_shares (vals s i)) in *.
  destruct Hcs as [(Hall & _)|(Hlt & Hi0 & HT' & Hr)]; [contradiction|].
  destruct (recv_char (S - sh) (sval T S sh) (T - sval T S sh) recv ltac:(lia) ltac:(lia) HT' Hr) as ((E1 & _) & HR0).
  apply (mint_value_lower_gen c T S sh rem (sval T S sh) recv minted); auto; try lia.
  apply (price_between_of_after c T (S - sh) (sval T S sh) recv); auto; lia.
Qed.

(** ** share price at most one token before the mint: the loss is at most THREE units *)
Theorem mint_value_lower3 e s a i amt s' minted :
  env_wf e -> Inv e s -> backed_all e s -> (a < nacc e)%nat -> a <> liq e ->
  mint e s a i amt = Ok s' minted ->
  PREC * v_tokens (vals s i) <= v_shares (vals s i) -> v_tokens (vals s i) <= PREC ->
  staked_value s a i - 3 <= staked_value s' a i.
Proof.
  intros Hwf HI HB Ha Hne Hm Hp HTP.
  destruct (mint_decomp e s a i amt s' minted Hwf HI HB Ha Hne Hm)
    as (sh & recv & rem & HT & HS & Hsh & Hrem & HO & Hk & Hmin & Hm0 & Hshe & HV & Htok & Hshr & HV' & Hcs).
  rewrite HV, HV'.
  set (T := v_tokens (vals s i)) in *. set (S := v_shares (vals s i)) in *.
  destruct Hcs as [(-> & -> & ->)|(Hlt & Hi0 & HT' & Hr)].
  - (* every share of the validator: the rate is reset to one, nothing is lost *)
    replace (S - S + T * PREC) with (T * PREC) by lia. cbn [Z.add].
    rewrite sval_all by lia. rewrite sval_rate1 by lia.
    assert (E1 : dec_trunc_int (T * PREC) = T) by (unfold dec_trunc_int; apply Z.quot_mul; unfold PREC; lia).
    pose proof (trunc_char S ltac:(lia)) as Ts.
    assert (T <= dec_trunc_int S).
    { destruct (Z.le_gt_cases T (dec_trunc_int S)); [assumption|]. exfalso.
      assert ((dec_trunc_int S + 1) * PREC <= T * PREC) by (apply Z.mul_le_mono_nonneg_r; [unfold PREC|]; lia). lia. }
    lia.
  - apply (mint_value_lower_gen 2 T S sh rem (sval T S sh) recv minted); auto; try lia.
    apply price_between_le2; auto.
Qed.

(** ** ... and at most TWO when a share is still worth at most one token after the mint *)
Theorem mint_value_lower2 e s a i amt s' minted :
  env_wf e -> Inv e s -> backed_all e s -> (a < nacc e)%nat -> a <> liq e ->
  mint e s a i amt = Ok s' minted ->
  PREC * v_tokens (vals s i) <= v_shares (vals s i) -> v_tokens (vals s i) <= PREC ->
  PREC * v_tokens (vals s' i) <= v_shares (vals s' i) ->
  staked_value s a i - 2 <= staked_value s' a i.
Proof.
  intros Hwf HI HB Ha Hne Hm Hp HTP Hp'.
  destruct (Z.eq_dec (dshares s a i - dshares s' a i) (v_shares (vals s i))) as [Hall|Hnall].
  - (* every share: nothing is lost (proved with the three-unit theorem's first case) *)
    destruct (mint_decomp e s a i amt s' minted Hwf HI HB Ha Hne Hm)
      as (sh & recv & rem & HT & HS & Hsh & Hrem & HO & Hk & Hmin & Hm0 & Hshe & HV & Htok & Hshr & HV' & Hcs).
    rewrite HV, HV'. rewrite <- Hshe in Hall.
    set (T := v_tokens (vals s i)) in *. set (S := v_shares (vals s i)) in *.
    destruct Hcs as [(_ & -> & ->)|(Hlt & _)]; [|lia]. subst sh.
    replace (S - S + T * PREC) with (T * PREC) by lia. cbn [Z.add].
    rewrite sval_all by lia. rewrite sval_rate1 by lia.
    assert (E1 : dec_trunc_int (T * PREC) = T) by (unfold dec_trunc_int; apply Z.quot_mul; unfold PREC; lia).
    pose proof (trunc_char S ltac:(lia)) as Ts.
    assert (T <= dec_trunc_int S).
    { destruct (Z.le_gt_cases T (dec_trunc_int S)); [assumption|]. exfalso.
      assert ((dec_trunc_int S + 1) * PREC <= T * PREC) by (apply Z.mul_le_mono_nonneg_r; [unfold PREC|]; lia). lia. }
    lia.
  - apply (mint_value_lower_price e s a i amt s' minted 1); auto; lia.
Qed.

(* a guard on the state BEFORE the mint that gives the two-unit bound: with p = T P / S the
   share price and k = T - amt the tokens the mint leaves in the validator,  p (1 + 1/k) <= 1
   (for a validator slashed by a fraction f: at least 1/f - 1 tokens stay) *)
Theorem mint_value_lower2_guard e s a i amt s' minted :
  env_wf e -> Inv e s -> backed_all e s -> (a < nacc e)%nat -> a <> liq e ->
  mint e s a i amt = Ok s' minted ->
  let T := v_tokens (vals s i) in let S := v_shares (vals s i) in
  T <= PREC -> amt < T -> PREC * T * (T - amt + 1) <= S * (T - amt) ->
  staked_value s a i - 2 <= staked_value s' a i.
Proof.
  intros Hwf HI HB Ha Hne Hm T S HTP Hamt HG.
  pose proof Hm as Hm2. unfold mint in Hm2. destruct (Z.leb_spec amt 0) as [|Hamt0]; [discriminate|].
  destruct (validate_unbond_amount s a i amt) as [sh0|] eqn:Ev; [|discriminate].
  destruct (validate_arith e s a i amt sh0 HI Hamt0 Ev) as (_ & _ & Hval & _). fold T S in Hval.
  destruct (transfer_delegation e s i a (liq e) sh0) as [s1 recv0| |] eqn:Et; try discriminate.
  destruct (Z.leb_spec (Z.min (dec_trunc_int sh0) (dec_trunc_int recv0)) 0); [discriminate|]. clear Hm2.
  destruct (mint_decomp e s a i amt s' minted Hwf HI HB Ha Hne Hm)
    as (sh & recv & rem & HT & HS & Hsh & Hrem & HO & Hk & Hmin & Hm0 & Hshe & HV & Htok & Hshr & HV' & Hcs).
  fold T S in HT, HS, HO, Hk, Htok, Hshr, Hcs, HV, HV'.
  (* the shares moved are the ones ValidateUnbondAmount computed *)
  assert (Esh : sh = sh0).
  { pose proof (transfer_spec _ _ _ _ _ _ _ _ Hne Et) as (d & Ed & _ & Hfrom & _).
    assert (dshares s a i = d) by (unfold dshares; now rewrite Ed).
    assert (dshares s' a i = d - sh0).
    { unfold mint in Hm. destruct (amt <=? 0); [discriminate|]. rewrite Ev, Et in Hm.
      destruct (_ <=? 0); [discriminate|]. injection Hm as <- _. unfold dshares. cbn [set_dsup set_dbal del].
      rewrite Hfrom. destruct (Z.eqb_spec (d - sh0) 0); lia. }
    lia. }
  subst sh0. rewrite HV, HV'. pose proof PREC_pos as HP.
  assert (Hk0 : 1 <= T - amt) by lia.
  (* (S - P T) k >= P T, in particular P T <= S *)
  assert (G2 : PREC * T <= (S - PREC * T) * (T - amt)).
  { replace ((S - PREC * T) * (T - amt)) with (S * (T - amt) - PREC * T * (T - amt)) by ring. lia. }
  assert (G3 : 0 <= S - PREC * T).
  { destruct (Z.le_gt_cases 0 (S - PREC * T)); [assumption|]. exfalso.
    assert ((S - PREC * T) * (T - amt) <= 0) by (apply Z.mul_nonpos_nonneg; lia).
    assert (0 < PREC * T) by (apply Z.mul_pos_pos; lia). lia. }
  destruct Hcs as [(-> & -> & ->)|(Hlt & Hi0 & HT' & Hr)].
  - (* every share: cannot happen with amt < T, but the value is kept anyway *)
    replace (S - S + T * PREC) with (T * PREC) by lia. cbn [Z.add].
    rewrite sval_all by lia. rewrite sval_rate1 by lia.
    assert (E1 : dec_trunc_int (T * PREC) = T) by (unfold dec_trunc_int; apply Z.quot_mul; unfold PREC; lia).
    pose proof (trunc_char S ltac:(lia)) as Ts.
    assert (T <= dec_trunc_int S).
    { destruct (Z.le_gt_cases T (dec_trunc_int S)); [assumption|]. exfalso.
      assert ((dec_trunc_int S + 1) * PREC <= T * PREC) by (apply Z.mul_le_mono_nonneg_r; [unfold PREC|]; lia). lia. }
    lia.
  - apply (mint_value_lower_gen 1 T S sh rem (sval T S sh) recv minted); auto; try lia.
    set (I := sval T S sh) in *.
    destruct (issued_char T S sh I ltac:(lia) ltac:(lia) HS eq_refl) as (D1 & D2).
    set (Fn := sh * T - I * S).
    assert (F2 : 2 * PREC * Fn < (2 * PREC - 1) * S) by (subst Fn; lia).
    assert (F3 : Fn < S).
    { destruct (Z.lt_ge_cases Fn S) as [|Hge]; [assumption|]. exfalso.
      assert (PREC * S <= PREC * Fn) by (apply Z.mul_le_mono_nonneg_l; lia). lia. }
    set (S' := S - sh) in *. set (T' := T - I) in *. set (k := T - amt) in *.
    assert (ETS : T' * S = T * S' + Fn) by (subst Fn T' S'; ring).
    (* S k <= T S' *)
    assert (G1 : S * k <= T * S') by (subst S' k; replace (T * (S - sh)) with (T * S - sh * T) by ring; lia).
    (* P S <= S' (S - P T) *)
    assert (G4 : PREC * S <= S' * (S - PREC * T)).
    { apply (Z.mul_le_mono_pos_l _ _ T HT).
      assert (X1 : (S * k) * (S - PREC * T) <= (T * S') * (S - PREC * T)) by (apply Z.mul_le_mono_nonneg_r; lia).
      assert (X2 : S * (PREC * T) <= S * ((S - PREC * T) * k)) by (apply Z.mul_le_mono_nonneg_l; lia).
      replace (T * (PREC * S)) with (S * (PREC * T)) by ring.
      replace (T * (S' * (S - PREC * T))) with ((T * S') * (S - PREC * T)) by ring.
      replace (S * ((S - PREC * T) * k)) with ((S * k) * (S - PREC * T)) in X2 by ring. lia. }
    apply (Z.mul_le_mono_pos_l _ _ S HS).
    replace (S * (PREC * T')) with (PREC * (T' * S)) by ring. rewrite ETS.
    assert (X : PREC * (T * S' + Fn) <= PREC * (T * S' + S)) by (apply Z.mul_le_mono_nonneg_l; lia).
    replace (S' * (S - PREC * T)) with (S * S' - PREC * (T * S')) in G4 by ring.
    replace (PREC * (T * S' + S)) with (PREC * (T * S') + PREC * S) in X by ring. lia.
Qed.

Lemma sval_zero_tokens S o : 0 < S -> 0 <= o -> sval 0 S o = 0.
Proof.
  intros HS Ho. pose proof (sval_nonneg 0 S o Ho ltac:(lia) HS).
  destruct (Z.le_gt_cases (sval 0 S o) 0); [lia|]. exfalso.
  assert (H1 : 1 <= sval 0 S o) by lia. apply sval_ge_iff in H1; try lia.
  pose proof PREC_pos. replace (2 * PREC * (o * 0)) with 0 in H1 by ring.
  assert (0 < (2 * 1 * PREC - 1) * S) by (apply Z.mul_pos_pos; lia). lia.
Qed.

(** ** a burn changes the value owned by at most two units down and one up (a share worth at
    most 5 * 10^17 tokens, the range guard of the no-empty-delegation theorem) *)
Theorem burn_value_bounds e s a i amt s' recv :
  env_wf e -> Inv e s -> backed_all e s -> (a < nacc e)%nat -> a <> liq e ->
  burn e s a i amt = Ok s' recv ->
  2 * v_tokens (vals s i) <= v_shares (vals s i) ->
  staked_value s a i - 2 <= staked_value s' a i <= staked_value s a i + 1.
Proof.
  intros Hwf HI HB Ha Hne Hb Hprice.
  unfold burn in Hb. destruct (Z.leb_spec amt 0) as [|Hamt]; [discriminate|].
  destruct (Z.ltb_spec (dbal s a i) amt) as [|Hbal]; [discriminate|].
  set (s0 := set_dsup (set_dbal s a i (dbal s a i - amt)) i (dsup s i - amt)) in *.
  assert (HI0 : Inv e s0).
  { subst s0. replace (dbal s a i - amt) with (dbal s a i + - amt) by lia.
    replace (dsup s i - amt) with (dsup s i + - amt) by lia. apply inv_dbal_change; auto. lia. }
  assert (Hne' : liq e <> a) by congruence.
  destruct (transfer_arith e s0 i (liq e) a (dec_of_int amt) s' recv Hwf HI0 Hb) as (Hshp & HdS & HT0 & Hex & Hcases).
  pose proof (transfer_spec _ _ _ _ _ _ _ _ Hne' Hb) as (d & Ed & _ & _ & _ & _ & Htok & Hshr & _ & _ & _ & _ & _ & _ & _ & Hdb & Hsv & Her & _ & Hto).
  change (vals s0) with (vals s) in *. 
  set (T := v_tokens (vals s i)) in *. set (S := v_shares (vals s i)) in *.
  destruct (owned_le_shares e s a i Hwf HI HB Ha Hne Hex) as (Hh0 & Hown). fold S in Hown.
  pose proof HI as (_ & _ & I3 & _ & I5 & _).
  assert (Hda : dshares s0 a i = dshares s a i) by reflexivity.
  assert (Hd' : dshares s' a i = dshares s a i + recv).
  { destruct Hto as [(-> & Hd)|(Hd & _)]; unfold dshares at 1; rewrite Hd; [fold (dshares s0 a i)|]; lia. }
  assert (Hheld : held s' a i = held s a i - amt).
  { unfold held. rewrite Hdb, Hsv, Her. subst s0. cbn [set_dsup set_dbal dbal sav ern]. rewrite upd2_same. lia. }
  assert (Hheld0 : 0 <= held s a i - amt) by (unfold held; pose proof (I5 a i); lia).
  set (sh := dec_of_int amt) in *.
  set (rem := dshares s a i + (held s a i - amt) * PREC).
  assert (Hrem : 0 <= rem).
  { subst rem. pose proof (I3 a i). assert (0 <= (held s a i - amt) * PREC) by (apply Z.mul_nonneg_nonneg; [lia|unfold PREC; lia]). lia. }
  assert (HO : rem + sh = owned s a i) by (subst rem sh; unfold owned, dec_of_int; ring).
  assert (HV : staked_value s a i = sval T S (rem + sh)) by (unfold staked_value; rewrite sval_tfs, HO; reflexivity).
  assert (HV' : staked_value s' a i = sval T (S - sh + recv) (rem + recv)).
  { unfold staked_value. rewrite sval_tfs, Htok, Hshr. f_equal. unfold owned. rewrite Hd', Hheld. subst rem. ring. }
  rewrite HV, HV'.
  destruct Hcases as [(Hall & Hc)|[(Hlt & Hz & -> & _)|(Hlt & Hi0 & HT' & Hr & _)]].
  - (* the module held every share of the validator *)
    assert (rem = 0) by lia. subst rem. rewrite H. rewrite Hall. cbn [Z.add].
    destruct Hc as [(HTz & ->)|(HTp & ->)].
    + replace (S - S + 0) with 0 by lia. fold T in HTz. rewrite HTz.
      assert (E : sval 0 0 0 = 0) by reflexivity. rewrite E.
      destruct (Z.eq_dec S 0) as [->|]; [cbn; lia|]. rewrite sval_zero_tokens by lia. lia.
    + replace (S - S + T * PREC) with (T * PREC) by lia.
      rewrite sval_all by lia. rewrite sval_all by (unfold PREC; lia). lia.
  - (* worth less than one token: unbonded for nothing *)
    replace (S - sh + 0) with (S - sh) by lia. replace (rem + 0) with rem by lia.
    destruct (Z.eq_dec T 0) as [HTz|HTnz].
    + rewrite HTz. rewrite !sval_zero_tokens by lia. lia.
    + pose proof (zero_issue_value T S sh rem ltac:(lia) ltac:(lia) ltac:(lia) Hlt Hrem ltac:(lia) Hz). lia.
  - assert (HTp : 0 < T).
    { pose proof (sval_nonneg T S sh ltac:(lia) HT0 ltac:(lia)). lia. }
    split.
    + apply (burn_value_lower T S sh rem (sval T S sh) recv); auto; lia.
    + apply (transfer_value_upper T S sh rem (sval T S sh) recv recv); auto; try lia.
      rewrite Hr. split; [|lia]. apply Z.quot_pos; [apply Z.mul_nonneg_nonneg; lia|lia].
Qed.
