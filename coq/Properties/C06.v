(* C06 — x/auction: custody is exact, outbid bidders are made whole, payouts are
   exact, the returned collateral is split exactly and pro rata.
   Property theorems only; proofs are in Proofs/Auction.v and Proofs/Split.v.

   Guards.  [op_okb] (Model/Auction.v) is what the callers of the keeper guarantee:
   Start*Auction is called by another keeper with its own module account (not the
   auction module account) as initiator, non-negative bid / lot / max-bid amounts
   and return addresses other than the auction module account; a bidder is a
   message signer, never the auction module account; and the parts a reverse
   collateral bid pays out are what splitIntIntoWeightedBuckets returned, of which
   only [split_ok] is assumed (any tie-breaking of the unstable sort).  [guarded]
   asks this of the successful operations of a history only. *)
From Coq Require Import Permutation.
From Kava Require Import Base.Prelude Base.Dec Model.Split Model.Auction Proofs.Split Proofs.Auction.
(* the check re-validates Base/Dec.v against cosmossdk.io/math on every run of this
   property (min_inc uses dec_mul / dec_round_int); its case files need Model/DecCheck
   in the same build, so it is made a dependency here *)
From Kava Require Model.DecCheck.

(** * custody, index, end <= max end: for all histories *)

(* The module invariant holds after every history of Start / PlaceBid / Close /
   BeginBlock operations, of any length, with arbitrary block times. *)
Theorem C06_invariant_all_histories :
  forall e ops s, env_wf e -> Inv e s -> guarded e s ops -> Inv e (run e s ops).
Proof. intros e ops s. exact (run_inv e ops s). Qed.
Print Assumptions C06_invariant_all_histories.

(* ... in particular from the empty store *)
Theorem C06_invariant_reachable :
  forall e b nx ops, env_wf e -> (forall d, b (amod e) d = 0) ->
  guarded e (mkState b [] [] nx) ops -> Inv e (run e (mkState b [] [] nx) ops).
Proof. exact reachable_inv. Qed.
Print Assumptions C06_invariant_reachable.

(* What the invariant says: the auction module account holds, in every denom,
   exactly the coins its open auctions account for (lot of a surplus auction,
   remaining debt of a debt auction, lot + remaining debt of a collateral auction);
   the by-time index is a permutation of the (end time, id) keys of the stored
   auctions and ids are pairwise distinct — every stored auction appears in the
   index exactly once and nothing else does; every end time is at most its max end
   time; ids are below the next id. *)
Theorem C06_invariant_means :
  forall e s, Inv e s ->
  (forall d, bal s (amod e) d = held d (aucs s)) /\
  Permutation (idx s) (map akey (aucs s)) /\
  NoDup (map a_id (aucs s)) /\
  (forall a, In a (aucs s) -> a_end a <= a_maxend a /\ a_id a < next_id s).
Proof. exact Inv_means. Qed.
Print Assumptions C06_invariant_means.

Theorem C06_step_preserves_invariant :
  forall e s o s', env_wf e -> Inv e s -> op_okb e s o = true -> step e s o = Ok s' tt -> Inv e s'.
Proof. exact step_inv. Qed.
Print Assumptions C06_step_preserves_invariant.

(** * bids *)

(* An accepted bid: the block time is not after the end time; forward bids are at
   least standing bid + max(1, round(standing bid * increment)) — or, on a
   collateral auction, exactly the max bid — and never above the max bid; reverse
   bids lower the lot by at least max(1, round(lot * increment)) and not below 0.
   The end time becomes min(t + duration, max end time) and the max end time is
   fixed by the first bid (t + MaxAuctionDuration) and never changes afterwards. *)
Theorem C06_bid_rules_and_end_time_capped :
  forall e s t id bidder d x parts s' a,
  afind id (aucs s) = Some a ->
  step e s (PlaceBid t id bidder d x parts) = Ok s' tt ->
  t <= a_end a /\
  exists a', afind id (aucs s') = Some a' /\
  a_bidder a' = bidder /\ a_kind a' = a_kind a /\ a_init a' = a_init a /\
  a_has a' = true /\
  a_maxend a' = (if a_has a then a_maxend a else t + max_dur e) /\
  a_end a' = Z.min (t + bid_dur e a x) (a_maxend a') /\
  match a_kind a with
  | KSurplus => a_bid a' = x /\ a_lot a' = a_lot a /\ a_bid a + min_inc (inc_s e) (a_bid a) <= x
  | KDebt => a_lot a' = x /\ a_bid a' = a_bid a /\ 0 <= x <= a_lot a - min_inc (inc_d e) (a_lot a)
  | KColl =>
      if is_reverse a
      then a_lot a' = x /\ a_bid a' = a_bid a /\ 0 <= x <= a_lot a - min_inc (inc_c e) (a_lot a)
      else a_bid a' = x /\ a_lot a' = a_lot a /\ x <= a_maxbid a /\
           (a_bid a + min_inc (inc_c e) (a_bid a) <= x \/ x = a_maxbid a)
  end.
Proof. exact bid_rules. Qed.
Print Assumptions C06_bid_rules_and_end_time_capped.

(* the minimum increment is max(1, NewDecFromInt(v).Mul(inc).RoundInt()) *)
Theorem C06_min_increment :
  forall inc v, min_inc inc v = Z.max 1 (dec_round_int (dec_mul (dec_of_int v) inc)) /\ 1 <= min_inc inc v.
Proof. intros inc v. split; [reflexivity|apply min_inc_pos]. Qed.
Print Assumptions C06_min_increment.

Theorem C06_bid_strictly_improves :
  forall e s t id bidder d x parts s' a,
  Inv e s -> afind id (aucs s) = Some a ->
  step e s (PlaceBid t id bidder d x parts) = Ok s' tt ->
  match a_kind a with
  | KSurplus => a_bid a < x
  | KDebt => x < a_lot a
  | KColl => if is_reverse a then x < a_lot a else a_bid a < x
  end.
Proof. exact bid_strictly_improves. Qed.
Print Assumptions C06_bid_strictly_improves.

Theorem C06_bid_after_end_refused :
  forall e s t id bidder d x parts a,
  afind id (aucs s) = Some a -> a_end a < t -> step e s (PlaceBid t id bidder d x parts) = Err.
Proof. exact bid_after_end_refused. Qed.
Print Assumptions C06_bid_after_end_refused.

(* The outbid bidder is repaid the full standing bid in the same step (on the first
   bid of a debt auction the "previous bidder" is the initiator module, which also
   gets the returned debt coins when they are of the bid denom). *)
Theorem C06_outbid_refunded :
  forall e s t id bidder d x parts s' a,
  afind id (aucs s) = Some a ->
  step e s (PlaceBid t id bidder d x parts) = Ok s' tt ->
  let ob := a_bidder a in
  ob <> bidder -> ob <> amod e ->
  (match a_kind a with
   | KSurplus => a_bid a <> 0
   | KColl => is_reverse a = true \/ a_bid a <> 0
   | KDebt => True end) ->
  (ob = a_init a -> a_kind a = KDebt) ->
  (a_kind a = KColl -> is_reverse a = true -> ~ In ob (a_raddrs a) \/ a_lot_d a <> a_bid_d a) ->
  bal s' ob (a_bid_d a) = bal s ob (a_bid_d a) + a_bid a + first_debt_extra a.
Proof. exact outbid_refunded. Qed.
Print Assumptions C06_outbid_refunded.

Theorem C06_new_bidder_pays_exactly :
  forall e s t id bidder d x parts s' a,
  afind id (aucs s) = Some a ->
  step e s (PlaceBid t id bidder d x parts) = Ok s' tt ->
  bidder <> amod e -> bidder <> a_init a ->
  (a_kind a = KColl -> is_reverse a = true -> ~ In bidder (a_raddrs a) \/ a_lot_d a <> a_bid_d a) ->
  bal s' bidder (a_bid_d a) = bal s bidder (a_bid_d a) -
    (match a_kind a with
     | KSurplus => if Nat.eqb bidder (a_bidder a) then x - a_bid a else x
     | KDebt => if Nat.eqb bidder (a_bidder a) then 0 else a_bid a
     | KColl => if is_reverse a then (if Nat.eqb bidder (a_bidder a) then 0 else a_bid a)
                else (if Nat.eqb bidder (a_bidder a) then x - a_bid a else x)
     end).
Proof. exact new_bidder_pays. Qed.
Print Assumptions C06_new_bidder_pays_exactly.

(** * payout *)

(* Close succeeds only at or after the end time, pays the winner exactly the lot,
   deletes the auction (others untouched), and every later close is refused. *)
Theorem C06_payout_once_after_end_exact :
  forall e s t id s' a,
  Inv e s -> afind id (aucs s) = Some a -> step e s (Close t id) = Ok s' tt ->
  a_end a <= t /\
  afind id (aucs s') = None /\
  (forall t2, step e s' (Close t2 id) = Err) /\
  (forall id', id' <> id -> afind id' (aucs s') = afind id' (aucs s)) /\
  (a_bidder a <> a_init a ->
   bal s' (a_bidder a) (a_lot_d a) = bal s (a_bidder a) (a_lot_d a) + a_lot a).
Proof. exact close_spec. Qed.
Print Assumptions C06_payout_once_after_end_exact.

Theorem C06_close_before_end_refused :
  forall e s t id a, afind id (aucs s) = Some a -> t < a_end a -> step e s (Close t id) = Err.
Proof. exact close_before_end_refused. Qed.
Print Assumptions C06_close_before_end_refused.

Theorem C06_close_unknown_refused :
  forall e s t id, afind id (aucs s) = None -> step e s (Close t id) = Err.
Proof. exact close_unknown_refused. Qed.
Print Assumptions C06_close_unknown_refused.

(* After a successful begin blocker no stored auction has reached its end time. *)
Theorem C06_begin_block_closes_all_expired :
  forall e s t s', Inv e s -> step e s (BeginBlock t) = Ok s' tt ->
  Inv e s' /\ forall a, In a (aucs s') -> In a (aucs s) /\ t < a_end a.
Proof. exact begin_block_spec. Qed.
Print Assumptions C06_begin_block_closes_all_expired.

(* Exact custody means the module can always pay: closing an auction at or after
   its end time never fails for lack of funds (it can only fail when the winner
   cannot receive: a blocked or empty address, or a debt-auction initiator that
   cannot mint). *)
Theorem C06_close_never_short_of_funds :
  forall e s t id a,
  Inv e s -> afind id (aucs s) = Some a -> a_end a <= t ->
  blocked e (a_bidder a) = false -> a_bidder a <> nobody e -> a_init a <> nobody e ->
  (a_kind a = KDebt -> minter e (a_init a) = true /\ 0 <= bal s (a_init a) (a_lot_d a)) ->
  exists s', step e s (Close t id) = Ok s' tt.
Proof. exact close_pays. Qed.
Print Assumptions C06_close_never_short_of_funds.

(* The index stays in key order (end time, then id) through every history, and on
   an index in key order the begin blocker's range iteration visits exactly the
   entries with end time <= block time, a prefix of the index. *)
Theorem C06_index_in_key_order :
  forall e ops s, idx_sorted (idx s) -> idx_sorted (idx (run e s ops)).
Proof. intros e ops s. exact (run_sorted e ops s). Qed.
Print Assumptions C06_index_in_key_order.

Theorem C06_expired_is_a_prefix :
  forall t l, idx_sorted l ->
  exists l1 l2, l = l1 ++ l2 /\ expired t l = map snd l1 /\
    Forall (fun k => fst k <= t) l1 /\ Forall (fun k => t < fst k) l2.
Proof. exact expired_prefix. Qed.
Print Assumptions C06_expired_is_a_prefix.

Theorem C06_failed_changes_nothing :
  forall e s o, (forall s' u, step e s o <> Ok s' u) -> step' e s o = s.
Proof.
  intros e s o H. unfold step'. destruct (step e s o) as [s' u| |] eqn:E; auto.
  exfalso. exact (H s' u eq_refl).
Qed.
Print Assumptions C06_failed_changes_nothing.

(** * the split of the returned collateral (Split.v, pure) *)

(* The boolean checker evaluated on the implementation's output is equivalent to:
   as many parts as weights; the parts sum to the amount; each part is its
   whole-number share floor(amount * w / W) or one more; whoever got the extra unit
   has a remainder at least as large as whoever did not. *)
Theorem C06_split_ok_iff_spec :
  forall a ws ps, split_ok a ws ps = true <-> split_spec a ws ps.
Proof. exact split_ok_spec. Qed.
Print Assumptions C06_split_ok_iff_spec.

(* The largest-remainder algorithm (with the stable order) satisfies it on every
   input the Go function does not panic on. *)
Theorem C06_split_correct :
  forall a ws, split_valid a ws = true -> split_spec a ws (split a ws).
Proof. exact split_correct. Qed.
Print Assumptions C06_split_correct.

Theorem C06_split_sum :
  forall a ws ps, split_spec a ws ps -> zsum ps = a.
Proof. exact split_spec_sum. Qed.
Print Assumptions C06_split_sum.

(* every allocation satisfying the specification — whatever the tie-breaking — is
   strictly within one unit of the exact pro-rata share amount * w / W *)
Theorem C06_split_near_exact :
  forall a ws ps, split_valid a ws = true -> split_spec a ws ps ->
  forall w p, In (w, p) (combine ws ps) ->
  sq a (zsum ws) w <= p <= sq a (zsum ws) w + 1 /\
  - zsum ws < zsum ws * p - a * w < zsum ws.
Proof.
  intros a ws ps Hv Hs w p Hin. split.
  - destruct Hs as (_ & _ & Hr & _). exact (Hr w p Hin).
  - exact (split_spec_within_one a ws ps Hv Hs w p Hin).
Qed.
Print Assumptions C06_split_near_exact.

Theorem C06_split_largest_remainders_first :
  forall a ws ps, split_spec a ws ps ->
  forall w p w' p', In (w, p) (combine ws ps) -> In (w', p') (combine ws ps) ->
  p = sq a (zsum ws) w + 1 -> p' = sq a (zsum ws) w' -> sr a (zsum ws) w' <= sr a (zsum ws) w.
Proof. intros a ws ps (_ & _ & _ & Ho). exact Ho. Qed.
Print Assumptions C06_split_largest_remainders_first.

Theorem C06_split_leftover_bounds :
  forall a ws, split_valid a ws = true -> 0 <= leftover a ws < Z.of_nat (length ws).
Proof. exact leftover_bounds. Qed.
Print Assumptions C06_split_leftover_bounds.

(** * the message level: MsgPlaceBid.ValidateBasic and the msg server *)

(* A bid delivered as a message ([msg_place_bid]: ValidateBasic -- auction id not
   zero, amount a valid coin -- then the keeper call the msg server makes) is
   exactly the keeper's PlaceBid: what ValidateBasic refuses the keeper refuses
   too, so every theorem above about [place_bid] / [step] is a theorem about
   MsgPlaceBid sent by a non-empty address.  (No stored auction has id 0: NextAuctionID starts at 1.) *)
Theorem C06_msg_place_bid_is_keeper_place_bid :
  forall e s t id bidder d x parts,
  Inv e s -> afind 0 (aucs s) = None -> bidder <> nobody e ->
  msg_place_bid e s t id bidder d x parts = place_bid e s t id bidder d x parts.
Proof. exact msg_place_bid_is_place_bid. Qed.
Print Assumptions C06_msg_place_bid_is_keeper_place_bid.

(* the one thing ValidateBasic refuses that the keeper call alone would not: an
   empty bidder address (no transaction can be signed by it) *)
Theorem C06_msg_place_bid_empty_bidder_refused :
  forall e s t id d x parts, msg_place_bid e s t id (nobody e) d x parts = Err.
Proof. exact msg_place_bid_empty_bidder_refused. Qed.
Print Assumptions C06_msg_place_bid_empty_bidder_refused.

(** * non-vacuity *)

(* accounts: 0,1,2 users; 3 liquidator (minter, burner); 4 auction module; 5 the
   empty address.  denoms: 0 debt, 1 ukava, 2 usdx, 3 xrp.  increments 5 %. *)
Definition ex_env : env :=
  mk_env 4 5 [false;false;false;true;true;false] [false;false;false;true;false;false]
         [false;false;false;true;false;false] [false;false;false;true;true;false]
         [1000; 300; 100] [50000000000000000; 50000000000000000; 50000000000000000].
Definition ex_init : state :=
  mk_state [[0;1000;1000;1000]; [0;1000;1000;1000]; [0;1000;1000;1000]; [500;5000;5000;5000]; [0;0;0;0]; [0;0;0;0]] [] [] 1.
(* a collateral auction (lot 100 xrp, max bid 60 usdx, debt 50, returns 1:1:1 to users
   0,1,2... here 0 and 1 with weights 1 and 2), a forward bid by user 0, user 1 outbids
   at the max bid, user 2 lowers the lot to 90 (10 returned: parts 3 and 7), begin
   block at the end time pays user 2; a surplus auction and a debt auction with bids. *)
Definition ex_ops : list op :=
  [StartColl 3 3 100 2 60 [0%nat;1%nat] [1;2] 0 50;
   PlaceBid 10 1 0 2 20 [];
   PlaceBid 20 1 1 2 60 [];
   PlaceBid 30 1 2 3 90 [3;7];
   StartSurplus 3 2 40 1;
   PlaceBid 35 2 0 1 10 [];
   PlaceBid 36 2 1 1 11 [];
   StartDebt 3 2 30 1 80 0 30;
   PlaceBid 40 3 2 1 70 [];
   BeginBlock 130;
   Close 336 2;
   Close 340 3].

Example C06_nonvacuous :
  guardedb ex_env ex_init ex_ops = true /\
  inv_b ex_env [0;1;2;3]%nat ex_init = true /\
  let s := run ex_env ex_init ex_ops in
  inv_b ex_env [0;1;2;3]%nat s = true /\ aucs s = [] /\ idx s = [] /\
  (* user 2 won the collateral lot (90 xrp) for 60 usdx and the 80->70 ukava of the debt auction for 30 usdx *)
  bal s 2%nat 3%nat = 1090 /\ bal s 2%nat 2%nat = 1000 - 60 - 30 /\ bal s 2%nat 1%nat = 1070 /\
  (* user 0 was outbid twice and made whole; got 3 xrp back as depositor *)
  bal s 0%nat 2%nat = 1000 /\ bal s 0%nat 1%nat = 1000 /\ bal s 0%nat 3%nat = 1003 /\
  (* user 1 was outbid on the collateral auction (made whole), won the surplus lot (40 usdx) for 11 ukava, got 7 xrp back *)
  bal s 1%nat 2%nat = 1040 /\ bal s 1%nat 1%nat = 989 /\ bal s 1%nat 3%nat = 1007.
Proof. vm_compute. repeat split; reflexivity. Qed.

(* the guard on initiators is needed: a Start with the auction module account itself
   as seller succeeds and leaves the module holding less than its auctions account for *)
Example C06_guard_needed :
  let s1 := run ex_env ex_init [StartSurplus 3 2 40 1] in
  exists s2, step ex_env s1 (StartSurplus 4 2 40 1) = Ok s2 tt /\
  op_okb ex_env s1 (StartSurplus 4 2 40 1) = false /\
  bal s2 4%nat 2%nat = 40 /\ held 2%nat (aucs s2) = 80.
Proof. vm_compute. eexists. repeat split; reflexivity. Qed.

Example C06_split_nonvacuous :
  split_valid 10 [1;1;1] = true /\ split 10 [1;1;1] = [4;3;3] /\
  split_ok 10 [1;1;1] [3;4;3] = true /\ split_ok 10 [1;1;1] [3;3;4] = true /\
  split_ok 10 [1;1;1] [5;3;2] = false /\ split_ok 7 [2;0;5;3] [1;0;4;2] = true /\
  split_ok 7 [2;0;5;3] [2;0;3;2] = false.
Proof. vm_compute. repeat split; reflexivity. Qed.
