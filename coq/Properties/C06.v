(* C06 — x/auction: custody is exact, outbid bidders are made whole, payouts are
   exact, the returned collateral is split exactly and pro rata.
   Property theorems only; proofs are in Proofs/Auction.v and Proofs/Split.v. *)
From Coq Require Import Permutation.
From Kava Require Import Base.Prelude Base.Dec Model.Split Model.Auction Proofs.Split Proofs.Auction.

(* The module invariant — the auction module account holds, in every denom, exactly
   the coins its open auctions account for; the by-time index is the list of
   (end time, id) keys of the stored auctions, each exactly once; every end time is
   at most its max end time; ids are unique and below the next id — holds after
   every history of Start / PlaceBid / Close / BeginBlock operations, of any length,
   with arbitrary block times. *)
Theorem C06_invariant_all_histories :
  forall e ops s, env_wf e -> Inv e s -> guarded e s ops -> Inv e (run e s ops).
Proof. intros e ops s. exact (run_inv e ops s). Qed.
Print Assumptions C06_invariant_all_histories.

Theorem C06_invariant_means :
  forall e s, Inv e s ->
  (forall d, bal s (amod e) d = held d (aucs s)) /\
  Permutation (idx s) (map akey (aucs s)) /\
  NoDup (map a_id (aucs s)) /\
  (forall a, In a (aucs s) -> a_end a <= a_maxend a /\ a_id a < next_id s).
Proof. exact Inv_means. Qed.
Print Assumptions C06_invariant_means.
