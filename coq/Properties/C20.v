(* C20 — time-locked reward payouts unlock exactly on schedule; schedules stay valid.
   Property theorems only; proofs are in Proofs/Vesting.v.

   Reading guide.  [add_coins now len c a] is addCoinsToVestingSchedule applied to
   the periodic vesting account [a] at block time [now] with lock-up length [len]
   and coins [c]; [new_pva now len c] is the account SendTimeLockedCoinsToBaseAccount
   creates; [get_vesting a t d] is the SDK's GetVestingCoins at time t (denom d),
   [pva_locked] its LockedCoins; [pva_wf a] says that [a] passes
   PeriodicVestingAccount.Validate (period amounts sum to OriginalVesting, period
   lengths sum to EndTime - StartTime, at least one period) and that every period
   length is positive.  Coins are denom-indexed; every statement holds for each denom [d]. *)
From Kava Require Import Base.Prelude Model.Vesting Proofs.Vesting.

(** ** Clause 1 and 2: the claimed coins unlock exactly at the lock-up end and not
       before; the unlock times of previously locked coins are unchanged. *)

(* For every period layout, every phase (not started, partly elapsed, ended) and every
   lock-up length: what is vesting at any time t afterwards is what was vesting at t
   before, plus the new coins while t is before now + len. *)
Theorem C20_unlock_exact :
  forall a now len c t d, pva_wf a -> 0 < len ->
  get_vesting (add_coins now len c a) t d =
  get_vesting a t d + (if t <? now + len then c d else 0).
Proof. exact unlock_exact. Qed.
Print Assumptions C20_unlock_exact.

(* base account: the new periodic vesting account locks exactly the reward until now + len *)
Theorem C20_unlock_exact_base_account :
  forall now len c t d, 0 < len ->
  pva_wf (new_pva now len c) /\
  get_vesting (new_pva now len c) t d = (if t <? now + len then c d else 0).
Proof. intros. split; [apply new_pva_wf|apply new_pva_vesting]; assumption. Qed.
Print Assumptions C20_unlock_exact_base_account.

(* repeated claims: after any sequence of lock-ups (block time, length, coins) the
   schedule is the original one plus every lock-up that has not ended at t *)
Theorem C20_repeated_claims :
  forall ls a t d, pva_wf a -> Forall (fun l => 0 < snd (fst l)) ls ->
  pva_wf (apply_lockups a ls) /\
  get_vesting (apply_lockups a ls) t d = get_vesting a t d + still_locked ls t d.
Proof. exact repeated_claims. Qed.
Print Assumptions C20_repeated_claims.

(* the bank's LockedCoins (vesting coins that are not delegated).  Full statement
   (for every account) is false: the SDK keeps DelegatedVesting after the
   delegated coins have vested, and LockedCoinsFromVesting subtracts it from
   whatever is vesting now, the new reward included. *)
Theorem C20_locked_exact_refuted :
  exists a now len c t d, pva_wf a /\ 0 < len /\ 0 <= c d /\
  pva_locked (add_coins now len c a) t d <>
  pva_locked a t d + (if t <? now + len then c d else 0).
Proof.
  exists (mkPva 0 10 (fun _ => 100) (fun _ => 100) [(10, fun _ => 100)]), 20, 5, (fun _ => 50), 21, 0%nat.
  split; [constructor; cbn; [congruence|constructor; [cbn; lia|constructor]|reflexivity|reflexivity]|].
  split; [lia|]. split; [lia|]. vm_compute. congruence.
Qed.
Print Assumptions C20_locked_exact_refuted.

(* strongest true statement: exact whenever the delegated-vesting amount does not
   exceed what is still vesting at t (in particular for accounts that never delegated) *)
Theorem C20_locked_exact_partial :
  forall a now len c t d, pva_wf a -> 0 < len -> 0 <= c d ->
  p_dv a d <= get_vesting a t d ->
  pva_locked (add_coins now len c a) t d =
  pva_locked a t d + (if t <? now + len then c d else 0).
Proof. exact locked_exact. Qed.
Print Assumptions C20_locked_exact_partial.

(* and in general the lock on the new coins is reduced by exactly the stale excess *)
Theorem C20_locked_general :
  forall a now len c t d, pva_wf a -> 0 < len -> 0 <= c d ->
  pva_locked (add_coins now len c a) t d =
  pva_locked a t d + Z.max 0 ((if t <? now + len then c d else 0) - Z.max 0 (p_dv a d - get_vesting a t d)).
Proof. exact locked_general. Qed.
Print Assumptions C20_locked_general.

(** ** Clause 3: the schedule stays well formed. *)

Theorem C20_schedule_well_formed :
  forall a now len c, pva_wf a -> 0 < len ->
  let a' := add_coins now len c a in
  pva_wf a' /\
  (forall d, sum_amt (p_periods a') d = p_ov a' d) /\
  total_len (p_periods a') = p_end a' - p_start a' /\
  Forall (fun p => 0 < fst p) (p_periods a') /\
  (forall d, p_ov a' d = p_ov a d + c d) /\
  p_dv a' = p_dv a.
Proof.
  intros a now len c Hwf Hl. cbv zeta.
  pose proof (add_coins_wf a now len c Hwf Hl) as W.
  split; [exact W|]. split; [exact (wf_amt _ W)|]. split; [exact (wf_len _ W)|].
  split; [exact (wf_pos _ W)|]. split; [intros d; apply add_coins_ov|apply add_coins_dv].
Qed.
Print Assumptions C20_schedule_well_formed.

(* the Sub in GetVestingCoins never goes negative (no panic) on such accounts *)
Theorem C20_vesting_within_bounds :
  forall a t d, pva_wf a -> amts_nonneg (p_periods a) d -> 0 <= get_vesting a t d <= p_ov a d.
Proof. exact vesting_nonneg. Qed.
Print Assumptions C20_vesting_within_bounds.

(* every history of payouts, claims and spends with non-negative lock-up lengths
   keeps every periodic vesting account well formed *)
Theorem C20_all_histories_well_formed :
  forall e ops s, Inv e s -> forallb op_ok ops = true -> Inv e (run e s ops).
Proof. exact run_inv. Qed.
Print Assumptions C20_all_histories_well_formed.

(** ** The payout as a whole (SendTimeLockedCoinsToAccount over the bank). *)

(* exactly the coins move from the payout account to the recipient, nobody else is
   touched, the recipient is (now) a well-formed periodic vesting account whose
   schedule is the old one plus the reward until now + len *)
Theorem C20_payout_exact :
  forall e s now r c len s',
  send_time_locked e s now r c len = Ok s' tt -> 0 < len -> kind_ok (kind s r) ->
  (kind s r = KBase \/ exists p, kind s r = KPeriodic p) /\
  blocked e r = false /\ coins_valid c = true /\
  (forall d x, In (d, x) c -> 0 < x <= bal s (macc e) d) /\
  (forall a d, bal s' a d = bal s a d - (if Nat.eqb a (macc e) then amount_of d c else 0)
                                     + (if Nat.eqb a r then amount_of d c else 0)) /\
  (forall a, a <> r -> kind s' a = kind s a) /\
  kind_ok (kind s' r) /\
  (exists p', kind s' r = KPeriodic p' /\
     p_dv p' = match kind s r with KPeriodic p => p_dv p | _ => azero end) /\
  (forall t d, vesting_of (kind s' r) t d =
               vesting_of (kind s r) t d + (if t <? now + len then amount_of d c else 0)).
Proof. exact send_locked_spec. Qed.
Print Assumptions C20_payout_exact.

(** ** Clause 2': coins the recipient already held are untouched. *)

(* the bank's view at any time t: LockedCoins grows by the reward while t < now + len;
   SpendableCoins is what it was, plus the reward from now + len on *)
Theorem C20_held_coins_untouched :
  forall e s now r c len s' t,
  send_time_locked e s now r c len = Ok s' tt -> 0 < len -> kind_ok (kind s r) ->
  (forall d, match kind s r with KPeriodic p => p_dv p d <= get_vesting p t d | _ => True end) ->
  (forall d, locked s' r t d = locked s r t d + (if t <? now + len then amount_of d c else 0)) /\
  (solvent e s r t = true -> r <> macc e ->
   forall d, spendable e s' r t d = spendable e s r t d + (if now + len <=? t then amount_of d c else 0)).
Proof. exact send_locked_bank_view. Qed.
Print Assumptions C20_held_coins_untouched.

(* "and not before": the (modelled) bank lets an account transfer at block time [now] at most
   its balance minus LockedCoins at [now], which by the theorems above contains the whole
   reward until now + len *)
Theorem C20_locked_coins_cannot_be_spent :
  forall e s now a c s',
  step e s (Spend now a c) = Ok s' tt ->
  forall d, 0 < amount_of d c -> amount_of d c <= bal s a d - locked s a now d.
Proof. exact spend_within_unlocked. Qed.
Print Assumptions C20_locked_coins_cannot_be_spent.

(** ** Clause 4: refusals. *)

Theorem C20_refused_account_kinds :
  forall e s now r c len, len <> 0 ->
  (kind s r = KModule \/ kind s r = KContinuous \/ kind s r = KOther \/ kind s r = KNone) ->
  send_time_locked e s now r c len = Err.
Proof. exact refused_kinds. Qed.
Print Assumptions C20_refused_account_kinds.

Theorem C20_refused_insufficient_balance :
  forall e s now r c len d x,
  In (d, x) c -> bal s (macc e) d < x -> send_time_locked e s now r c len = Err.
Proof. exact refused_insufficient. Qed.
Print Assumptions C20_refused_insufficient_balance.

Theorem C20_refused_invalid_coins :
  forall e s now r c len, coins_valid c = false -> send_time_locked e s now r c len = Err.
Proof. exact refused_invalid_coins. Qed.
Print Assumptions C20_refused_invalid_coins.

(* a refused operation moves nothing and changes nothing *)
Theorem C20_refused_changes_nothing :
  forall e s o, (forall s' u, step e s o <> Ok s' u) -> step' e s o = s.
Proof. exact failed_changes_nothing. Qed.
Print Assumptions C20_refused_changes_nothing.

(** ** The payday rule (GetPeriodLength), for every block time (proleptic Gregorian calendar, UTC). *)

(* a lock-up of one or more months is strictly positive (more than 28 days per month beyond the first) *)
Theorem C20_period_length_positive :
  forall now months len, 1 <= months ->
  get_period_length now months = Some len -> 28 * 86400 * (months - 1) < len.
Proof. exact period_length_pos. Qed.
Print Assumptions C20_period_length_positive.

(* it ends at 14:00:00 UTC on the 15th of the month [months] ahead when the claim is made
   before the 15th 14:00, otherwise on the 1st of the month after that *)
Theorem C20_period_end_payday :
  forall now months len y m d, months <> 0 ->
  get_period_length now months = Some len ->
  civil_from_days (now / 86400) = (y, m, d) ->
  let early := (d <? 15) || ((d =? 15) && ((now mod 86400) / 3600 <? 14)) in
  let mi := 12 * y + (m - 1) + months + (if early then 0 else 1) in
  (now + len) mod 86400 = 14 * 3600 /\
  civil_from_days ((now + len) / 86400) = (mi / 12, mi mod 12 + 1, if early then 15 else 1).
Proof. exact period_end_payday. Qed.
Print Assumptions C20_period_end_payday.

(* the model's calendar: civil_from_days inverts days_from_civil on every day number *)
Theorem C20_calendar_roundtrip :
  forall z y m d, civil_from_days z = (y, m, d) ->
  days_from_civil y m d = z /\ 1 <= m <= 12 /\ 1 <= d <= 31.
Proof. exact civil_roundtrip. Qed.
Print Assumptions C20_calendar_roundtrip.

(* zero months: no lock-up; claims always use a non-negative length, so the guard of
   C20_all_histories_well_formed holds for every claim *)
Theorem C20_claim_length_nonneg :
  (forall now, get_period_length now 0 = Some 0) /\
  (forall now r c months, op_ok (Claim now r c months) = true).
Proof. split; [exact period_length_zero|exact claim_op_ok]. Qed.
Print Assumptions C20_claim_length_nonneg.

Example C20_payday_examples :
  (* 2024-01-15 13:59:59, one month -> 2024-02-15 14:00:00 *)
  get_period_length 1705327199 1 = Some (1708005600 - 1705327199) /\
  (* 2024-01-15 14:00:00, one month -> 2024-03-01 14:00:00 *)
  get_period_length 1705327200 1 = Some (1709301600 - 1705327200) /\
  (* 2023-12-31 23:59:59, twelve months -> 2025-01-01 14:00:00 *)
  get_period_length 1704067199 12 = Some (1735740000 - 1704067199).
Proof. vm_compute. repeat split; reflexivity. Qed.

(** ** Non-vacuity and necessity of the guards. *)

Definition ex_amt (x : Z) : amt := fun d => match d with O => x | _ => 0 end.
(* start 100, periods of lengths 5,5,5,5 (the example in the code's comments), 10 coins each *)
Definition ex_acc : pva :=
  mkPva 100 120 (ex_amt 40) azero [(5, ex_amt 10); (5, ex_amt 10); (5, ex_amt 10); (5, ex_amt 10)].

Example C20_hypotheses_satisfiable : pva_wf ex_acc.
Proof. constructor; cbn; [congruence|repeat constructor|reflexivity|intros [|d]; reflexivity]. Qed.

(* the five branches on that account: inside a period (split), on a boundary,
   longer than the remaining schedule, schedule ended, not started *)
Example C20_branches_exercised :
  map fst (p_periods (add_coins 101 2 (ex_amt 7) ex_acc)) = [3; 2; 5; 5; 5] /\
  map fst (p_periods (add_coins 101 4 (ex_amt 7) ex_acc)) = [5; 5; 5; 5] /\
  map (fun p => snd p 0%nat) (p_periods (add_coins 101 4 (ex_amt 7) ex_acc)) = [17; 10; 10; 10] /\
  map fst (p_periods (add_coins 101 30 (ex_amt 7) ex_acc)) = [5; 5; 5; 5; 11] /\
  map fst (p_periods (add_coins 130 6 (ex_amt 7) ex_acc)) = [5; 5; 5; 5; 16] /\
  map fst (p_periods (add_coins 90 12 (ex_amt 7) ex_acc)) = [12; 3; 5; 5; 5] /\
  p_start (add_coins 90 12 (ex_amt 7) ex_acc) = 90.
Proof. vm_compute. repeat split; reflexivity. Qed.

(* the guard "every period length is positive" is needed: an account that has
   not started and whose first period has length 0 (accepted by
   PeriodicVestingAccount.Validate, rejected by MsgCreatePeriodicVestingAccount)
   has that period's unlock moved from start + 1 s to start *)
Example C20_zero_length_first_period_shifts :
  let a := mkPva 100 105 (ex_amt 20) azero [(0, ex_amt 10); (5, ex_amt 10)] in
  get_vesting a 100 0%nat = 20 /\
  get_vesting (add_coins 98 50 (ex_amt 7) a) 100 0%nat = 17.
Proof. vm_compute. split; reflexivity. Qed.
