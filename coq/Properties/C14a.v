(* C14 (component C14a) — genesis export/import round trip, module by module, for
   x/cdp, x/auction and x/bep3: ExportGenesis, GenesisState.Validate and InitGenesis
   modelled after the Go code over the state types of Model/Cdp.v, Model/Auction.v,
   Model/Bep3.v (Model/GenesisCdp.v, Model/GenesisAuction.v, Model/GenesisBep3.v).
   The harness (harness/drivers/c14a) performs the same re-import in place on the
   real keepers inside ordinary operation histories and compares with the models. *)
From Coq Require Import Sorted.
From Kava Require Import Base.Prelude Base.Dec Model.Cdp Proofs.Cdp Proofs.CdpInv Proofs.CdpInv2 Proofs.CdpCust Proofs.CdpOwn
  Model.GenesisCdp Proofs.GenesisCdp Proofs.GenesisCdpHist Proofs.GenesisCdpReexport.
Local Open Scope Z_scope.

(** * x/cdp *)

(* [GI e s] = C04's invariant [Inv3] (ratio index exact, custody, owner index) together with
   [idx_sorted] (both indexes in strict key order) and [vals_ok] (ids from 1, principal and fees not
   negative, times after the first second of the epoch, interest factors >= 1.0 with every cdp's factor
   a past value of its type's factor, total principal not negative).
   [ptimes_set]: every collateral type has a previous accrual time (ExportGenesis panics otherwise: the
   state before the first begin blocker of a new type, as the Go comment says).
   [markets_ok]: every collateral's markets are price-feed markets (InitGenesis panics otherwise). *)

(* ExportGenesis does not panic; what it writes is the interest synchronisation of every cdp
   ([env_same]: bank, prices, deposits, owner index, total principal, accrual times, next id untouched);
   the exported genesis passes validation *)
Theorem C14_cdp_export_validates :
  forall e s, GI e s -> ptimes_set e s ->
  exists s1 g, export_genesis e s = Ok s1 g /\ env_same s s1 /\ GI e s1 /\ validate_genesis g = true.
Proof. exact cdp_export_validates. Qed.
Print Assumptions C14_cdp_export_validates.

(* round trip: InitGenesis on the exported genesis, started from an empty cdp store, does not panic and
   yields exactly the exporting context's final state s1 (all cdps synchronised) — every cdp record,
   deposit, the RAW owner index and collateral-ratio index, total principal, accrual times, next id, bank —
   up to the two things a genesis file does not carry ([norm]): an interest factor that was not stored reads
   1.0 afterwards, and the market status flags are re-derived from the current prices.  The imported state
   satisfies the invariants again. *)
Theorem C14_cdp_roundtrip :
  forall e s, GI e s -> ptimes_set e s -> markets_ok e ->
  exists s1 g,
    export_genesis e s = Ok s1 g /\ env_same s s1 /\ GI e s1 /\ validate_genesis g = true /\
    exists s', init_genesis e (wipe s1) g = Ok s' tt /\ imported e s1 s' /\ st_equiv e (norm e s1) s' /\
               GI e s' /\ ptimes_set e s'.
Proof. exact cdp_roundtrip. Qed.
Print Assumptions C14_cdp_roundtrip.

(* the property's own criterion: exporting the imported state again yields the IDENTICAL genesis (same cdps in the
   same order, deposits, starting id, accumulation times, total principals) and writes nothing — every cdp was
   synchronised by the first export *)
Theorem C14_cdp_reexport_identical :
  forall e s, GI e s -> ptimes_set e s -> markets_ok e ->
  exists s1 g s', export_genesis e s = Ok s1 g /\ init_genesis e (wipe s1) g = Ok s' tt /\
                  export_genesis e s' = Ok s' g.
Proof. exact cdp_reexport. Qed.
Print Assumptions C14_cdp_reexport_identical.

(* with an interest factor stored for every type and status flags that agree with the current prices
   (the state right after a begin blocker that saw valid spot prices) the round trip is the identity on s1 *)
Theorem C14_cdp_roundtrip_exact :
  forall e s, GI e s -> ptimes_set e s -> markets_ok e ->
  (forall t, (t < ntypes e)%nat -> ifac s t <> None) ->
  (forall m, is_market e m = true -> mstat s m = negb (price s m =? 0)) ->
  exists s1 g s', export_genesis e s = Ok s1 g /\ init_genesis e (wipe s1) g = Ok s' tt /\ st_equiv e s1 s'.
Proof. exact cdp_roundtrip_exact. Qed.
Print Assumptions C14_cdp_roundtrip_exact.

(* the wrapper operation of the correspondence check never fails on a good state and keeps the invariants:
   re-imports can be interleaved with the ordinary operations anywhere in a history *)
Theorem C14_cdp_reimport_keeps_invariants :
  forall e s, GI e s -> ptimes_set e s -> markets_ok e ->
  exists s', reimport e s = Ok s' tt /\ GI e s' /\ ptimes_set e s'.
Proof. exact cdp_reimport_ok. Qed.
Print Assumptions C14_cdp_reimport_keeps_invariants.

(* the hypotheses hold along every history: [GIH e s] = [GI e s] /\ 1 <= next id.  Every operation of Model/Cdp.v
   (messages and the whole begin blocker) keeps it, given C04's environment hypotheses, stability fees >= 1.0
   ([fees_ok], types.validateCollateralParams) and blocks that do not go back in time ([dts_ok]); a previous
   accrual time, once set, stays set *)
Theorem C14_cdp_hypotheses_step :
  forall e s o s' u, env_wf e -> params_ok e -> fees_ok e -> GIH e s -> op_dt_ok o -> step e s o = Ok s' u -> GIH e s'.
Proof. exact step_GIH. Qed.
Print Assumptions C14_cdp_hypotheses_step.

Theorem C14_cdp_hypotheses_all_histories :
  forall e ops, env_wf e -> params_ok e -> fees_ok e -> dts_ok ops ->
  forall s, GIH e s -> ptimes_set e s -> GIH e (run e s ops) /\ ptimes_set e (run e s ops).
Proof. exact run_GIH_pt. Qed.
Print Assumptions C14_cdp_hypotheses_all_histories.

(* the state an InitGenesis of the module produces from a genesis without cdps satisfies them *)
Theorem C14_cdp_hypotheses_at_genesis :
  forall e bals sups prices status ifacs ptimes startid t h,
  (forall t0 cp, get_cp e t0 = Some cp -> nthZ (nth (CDPM e) bals []) (cp_denom cp) = 0) ->
  (forall t0 f, nthO ifacs t0 = Some f -> PREC <= f) -> (forall t0 p, nthO ptimes t0 = Some p -> NS <= p) -> NS <= t ->
  (1 <= startid)%nat ->
  GIH e (mk_state bals sups prices status ifacs ptimes startid t h).
Proof. exact GI_genesis. Qed.
Print Assumptions C14_cdp_hypotheses_at_genesis.

(* hence: every state reached by any history exports a valid genesis and re-imports to the exporting context's
   final state (up to [norm]) with the invariants holding again *)
Theorem C14_cdp_roundtrip_reachable :
  forall e ops s, env_wf e -> params_ok e -> fees_ok e -> markets_ok e -> dts_ok ops -> GIH e s -> ptimes_set e s ->
  let sr := run e s ops in
  exists s1 g,
    export_genesis e sr = Ok s1 g /\ env_same sr s1 /\ GI e s1 /\ validate_genesis g = true /\
    exists s', init_genesis e (wipe s1) g = Ok s' tt /\ imported e s1 s' /\ st_equiv e (norm e s1) s' /\
               GI e s' /\ ptimes_set e s'.
Proof. exact cdp_roundtrip_reachable. Qed.
Print Assumptions C14_cdp_roundtrip_reachable.

(* non-vacuity: two cdps, one with a third-party deposit, a day of interest not yet synchronised into them
   (the second block is off the liquidation interval); the export
   synchronises it (fees appear), validation passes, the import succeeds and the observable projection of the
   imported state equals that of the exporting context's final state *)
Definition x_env : env :=
  mkEnv 4 5 4 [mkCP 0 1500000000000000000 100000000000000 1000000001547125958 10000000 50000000000000000 0 1 10000000000000000 10 8;
               mkCP 0 2000000000000000000 100000000000000 1000000051034942716 10000000 50000000000000000 0 1 10000000000000000 10 8;
               mkCP 4 1500000000000000000 100000000000000 1000000001547125958 10000000 50000000000000000 2 3 10000000000000000 10 6]
        3 1 2 6 1 400000000000000 500000000000 10000000000 100000000000 10000000000 2.
Definition x_s0 : state :=
  mk_state [[100000000000000; 0; 1000000000; 2000000000000; 100000000000000]; [100000000000000; 0; 1000000000; 2000000000000; 100000000000000];
            [100000000000000; 0; 1000000000; 2000000000000; 100000000000000]; [100000000000000; 0; 1000000000; 2000000000000; 100000000000000];
            [0; 0; 0; 0; 0]; [0; 0; 0; 0; 0]; [0; 0; 0; 0; 0]]
           [400000000000000; 0; 100004001000000; 8000000000000; 400000000000000]
           [17250000000000000000; 17250000000000000000; 500000000000000000; 500000000000000000] [true; true; true; true]
           [1000000000000000000; 1000000000000000000; 1000000000000000000]
           [1704067200000000000; 1704067200000000000; 1704067200000000000] 1 1704067200000000000 1.

Example C14_cdp_nonvacuous :
  let s := run x_env x_s0 [Create 0 2 4 60000000 3 10000000; Deposit 0 1 2 4 7000000; Create 1 0 0 900000000 3 20000000;
                           Block 86400000000000 []; Block 86400000000000 []] in
  match export_genesis x_env s with
  | Ok s1 g =>
      validate_genesis g = true /\ length (g_cdps g) = 2%nat /\ length (g_deps g) = 3%nat /\
      (match cdps s 0 2, cdps s1 0 2 with Some c, Some c1 => (0 <? c_fees c) && (c_fees c <? c_fees c1) | _, _ => false end) = true /\
      match init_genesis x_env (wipe s1) g with
      | Ok s' _ => snap_eqb (project x_env s') (project x_env s1) = true /\ inv_b x_env 8000000000000 s' = true
      | _ => False
      end
  | _ => False
  end.
Proof. vm_compute. repeat split; reflexivity. Qed.

(** * x/auction *)
From Coq Require Import Permutation.
From Kava Require Import Model.Split Model.Auction Proofs.Auction Model.GenesisAuction Proofs.GenesisAuction.

(* [Inv e s] is C06's invariant (module balance = coins of the stored auctions in every denom, by-time index
   a permutation of the (end, id) keys, ids increasing and below the next id, amounts not negative, end <= max
   end); [idx_sorted]: the index is in key order (C06_index_in_key_order); [XInv]: end times are positive and
   a collateral auction carries the return addresses and weights that StartCollateralAuction validated.
   ExportGenesis writes nothing.  The exported genesis passes validation, InitGenesis on the same bank does not
   panic (its comparison of the module account with the auctions' coins holds in every denom of [denoms]) and
   the imported state IS the exported one: same auctions, same RAW by-time index, same next id. *)
Theorem C14_auction_roundtrip :
  forall e denoms s, env_wf e -> Inv e s -> idx_sorted (idx s) -> XInv e s ->
  validate_genesis e (export_genesis s) = true /\
  init_genesis e denoms (bal s) (export_genesis s) = Ok s tt.
Proof. exact auction_roundtrip. Qed.
Print Assumptions C14_auction_roundtrip.

(* the three hypotheses hold along every history whose successful operations satisfy C06's guard and whose
   bids carry block times after the epoch's first second, with durations that are not negative *)
Theorem C14_auction_hypotheses_all_histories :
  forall e ops s, env_wf e -> durs_ok e -> Inv e s -> idx_sorted (idx s) -> XInv e s -> tguarded e s ops ->
  Inv e (run e s ops) /\ idx_sorted (idx (run e s ops)) /\ XInv e (run e s ops).
Proof. intros e ops s. exact (run_all e ops s). Qed.
Print Assumptions C14_auction_hypotheses_all_histories.

(* hence every state reached from the empty store exports a valid genesis and re-imports to itself *)
Theorem C14_auction_roundtrip_reachable :
  forall e denoms b nx ops,
  env_wf e -> durs_ok e -> (forall d, b (amod e) d = 0) -> tguarded e (mkState b [] [] nx) ops ->
  let s := run e (mkState b [] [] nx) ops in
  validate_genesis e (export_genesis s) = true /\ init_genesis e denoms (bal s) (export_genesis s) = Ok s tt.
Proof. exact auction_roundtrip_reachable. Qed.
Print Assumptions C14_auction_roundtrip_reachable.

(* non-vacuity: a collateral auction in the reverse phase with a standing bid, a surplus auction with bids and
   a debt auction with a bid are exported, validated and re-imported; a changed balance of the module account
   makes InitGenesis panic *)
Definition ax_env : Auction.env :=
  mk_env 4 5 [false;false;false;true;true;false] [false;false;false;true;false;false]
         [false;false;false;true;false;false] [false;false;false;true;true;false]
         [1000; 300; 100] [50000000000000000; 50000000000000000; 50000000000000000].
Definition ax_init : Auction.state :=
  Auction.mk_state [[0;1000;1000;1000]; [0;1000;1000;1000]; [0;1000;1000;1000]; [500;5000;5000;5000]; [0;0;0;0]; [0;0;0;0]] [] [] 1.
Definition ax_ops : list Auction.op :=
  [StartColl 3 3 100 2 60 [0%nat;1%nat] [1;2] 0 50;
   PlaceBid 10 1 0 2 20 [];
   PlaceBid 20 1 1 2 60 [];
   PlaceBid 30 1 2 3 90 [3;7];
   StartSurplus 3 2 40 1;
   PlaceBid 35 2 0 1 10 [];
   StartDebt 3 2 30 1 80 0 30;
   PlaceBid 40 3 2 1 70 []].

Example C14_auction_nonvacuous :
  let s := run ax_env ax_init ax_ops in
  length (aucs s) = 3%nat /\ length (idx s) = 3%nat /\
  inv_b ax_env [0;1;2;3]%nat s = true /\ forallb (gen_okb ax_env) (aucs s) = true /\
  validate_genesis ax_env (export_genesis s) = true /\
  (match init_genesis ax_env [0;1;2;3]%nat (bal s) (export_genesis s) with
   | Ok s' _ => proj_eqb (mkCfg 6 [0;1;2;3]%nat) s' s
   | _ => false end) = true /\
  class_of (init_genesis ax_env [0;1;2;3]%nat (upd2 (bal s) 4 3 (bal s 4%nat 3%nat + 1)) (export_genesis s)) = RPanic.
Proof. vm_compute. repeat split; reflexivity. Qed.

(** * x/bep3 *)
From Kava Require Import Model.Bep3 Proofs.Bep3 Model.GenesisBep3 Proofs.GenesisBep3.

(* [Inv e s] is C13's invariant (swap records under their own ids, by-block index = open swaps by expiry,
   long-term index = completed swaps by closed block + 86400, supply counters = sums over live swaps, limits);
   [XInv]: expiry height and timestamp are not 0, a completed swap has a closed block, the swap's asset is
   active; [assets_nodup]: Params.Validate's "no duplicate denom".  Swap ids are hashes, abstract in the model:
   [order] is the order in which the export lists the swaps (swap-store order), any list naming every stored id
   exactly once ([order_ok]).  ExportGenesis writes nothing.  The exported genesis passes validation;
   InitGenesis started from an empty bep3 store does not panic (every swap's asset is supported and active, the
   supplies' incoming / outgoing counters equal the sums over the genesis swaps, nothing exceeds the supply
   limit) and reproduces the swap table (as a finite map), the by-block and long-term indexes (as duplicate-free
   sets), the asset supplies incl. time-limited supply and elapsed time, and the previous block time. *)
Theorem C14_bep3_roundtrip :
  forall e order s, assets_nodup e -> Inv e s -> XInv e s -> order_ok order s = true ->
  validate_genesis (export_genesis e order s) = true /\
  exists s', init_genesis e (wipe s) (export_genesis e order s) = Ok s' tt /\ st_equiv e s s'.
Proof. exact bep3_roundtrip. Qed.
Print Assumptions C14_bep3_roundtrip.

(* ... and the imported state satisfies the invariants again; with supply records only for the asset denoms
   ([sup_support]: they are created by genesis) every asset supply of every denom is reproduced *)
Theorem C14_bep3_roundtrip_keeps_invariants :
  forall e order s, assets_nodup e -> Inv e s -> XInv e s -> sup_support e s -> order_ok order s = true ->
  exists s', init_genesis e (wipe s) (export_genesis e order s) = Ok s' tt /\ st_equiv e s s' /\
             (forall d, s_sup s' d = s_sup s d) /\ Inv e s' /\ XInv e s' /\ sup_support e s'.
Proof. exact bep3_roundtrip_inv. Qed.
Print Assumptions C14_bep3_roundtrip_keeps_invariants.

(* the hypotheses hold along every history in which the module account never signs and block heights are
   positive, block times after 1970-01-01T00:15:01 and height spans not negative ([ghist_ok]): a created
   swap's expiry height is height + span >= 1 (no wrap since fix f4c03ba1e), its timestamp is at most 15
   minutes older than the block time, its asset is active; a closed swap's closed block is the height *)
Theorem C14_bep3_hypotheses_all_histories :
  forall e ops s, env_wf e -> assets_nodup e -> ghist_ok e ops -> Inv e s -> XInvH e s -> sup_support e s ->
  Inv e (run e s ops) /\ XInvH e (run e s ops) /\ sup_support e (run e s ops).
Proof. intros e ops s. exact (run_all e ops s). Qed.
Print Assumptions C14_bep3_hypotheses_all_histories.

Theorem C14_bep3_roundtrip_reachable :
  forall e ops s order, env_wf e -> assets_nodup e -> ghist_ok e ops -> Inv e s -> XInvH e s ->
  let s1 := run e s ops in
  order_ok order s1 = true ->
  validate_genesis (export_genesis e order s1) = true /\
  exists s', init_genesis e (wipe s1) (export_genesis e order s1) = Ok s' tt /\ st_equiv e s1 s'.
Proof. exact bep3_roundtrip_reachable. Qed.
Print Assumptions C14_bep3_roundtrip_reachable.

(* regression (finding repaired by f4c03ba1e): before the fix the deputy's create with height span 2^64 - height
   stored an open swap with expiry height 0, whose exported genesis GenesisState.Validate rejects; now any
   span that wraps the expiry height is refused *)
Theorem C14_bep3_wrapping_span_refused :
  forall e s h ts span sender recip soc coins cross,
  U64 - 1 < s_height s + span -> create e s h ts span sender recip soc coins cross = Err.
Proof. exact create_wrapping_span_refused. Qed.
Print Assumptions C14_bep3_wrapping_span_refused.

(* non-vacuity: an open incoming swap, an expired unrefunded outgoing swap and a completed (claimed) swap inside
   the long-term horizon, non-zero supplies; exported in two different orders and re-imported; an inactive asset
   makes InitGenesis panic *)
Definition bx_env : Bep3.env :=
  mk_env 4 2 3 [false; false; false; true] [false; false; false; true]
         [mkAsset 0 1000 true 3600000000000 600 true 2 0 1 500 2 5] [(1%nat, 1000, 7%nat)] [300; 0] [5000; 0].
Definition bx_init : Bep3.state :=
  Bep3.mk_state 10 1000000000000 1000000000000 [mkSup 0 0 300 0 0] [[1000;0];[1000;0];[1000;0];[0;0]] [5000; 0].
Definition bx_ops : list Bep3.op :=
  [Create 7 1000 3 2 0 1 [(0%nat, 200)] true;
   Claim 1 (7%nat, 2%nat, 1%nat) 1;
   Create 9 1001 3 0 2 1 [(0%nat, 150)] true;
   BeginBlock 13 1006000000000;
   Create 8 1002 4 2 1 1 [(0%nat, 100)] true].

Example C14_bep3_nonvacuous :
  let s := Bep3.run bx_env bx_init bx_ops in
  let o1 := [(7%nat, 2%nat, 1%nat); (9%nat, 0%nat, 1%nat); (8%nat, 2%nat, 1%nat)] in
  let o2 := [(8%nat, 2%nat, 1%nat); (7%nat, 2%nat, 1%nat); (9%nat, 0%nat, 1%nat)] in
  map (fun p => sw_status (snd p)) (s_swaps s) = [Completed; Expired; Open] /\
  length (s_byblock s) = 1%nat /\ length (s_longterm s) = 1%nat /\
  inv_b bx_env s = true /\ forallb (fun p => gen_okb bx_env (snd p)) (s_swaps s) = true /\
  order_ok o1 s = true /\ order_ok o2 s = true /\
  validate_genesis (export_genesis bx_env o1 s) = true /\
  (match reimport bx_env o1 s, reimport bx_env o2 s with
   | Ok s1 _, Ok s2 _ => state_eqb bx_env s1 s && state_eqb bx_env s2 s && inv_b bx_env s1 && inv_b bx_env s2
   | _, _ => false end) = true /\
  class_of (reimport (mk_env 4 2 3 [false; false; false; true] [false; false; false; true]
                        [mkAsset 0 1000 true 3600000000000 600 false 2 0 1 500 2 5] [(1%nat, 1000, 7%nat)] [300; 0] [5000; 0]) o1 s) = RPanic /\
  (* the old witness: the deputy's create at height 10 with span 2^64 - 10 *)
  class_of (Bep3.step bx_env bx_init (Create 7 1000 18446744073709551606 2 0 1 [(0%nat, 200)] true)) = RErr /\
  class_of (Bep3.step bx_env bx_init (Create 7 1000 18446744073709551605 2 0 1 [(0%nat, 200)] true)) = ROk.
Proof. vm_compute. repeat split; reflexivity. Qed.

(** * InitGenesis as the gate of a chain start (all three modules) *)
From Kava Require Proofs.GenesisGateA.

(* what GenesisState.Validate refuses is never imported: an InitGenesis that does not panic
   was given a genesis state that passes validation (for EVERY genesis state, not only exports) *)
Theorem C14_cdp_import_implies_valid :
  forall e s0 g s' o, GenesisCdp.init_genesis e s0 g = Ok s' o -> GenesisCdp.validate_genesis g = true.
Proof. exact GenesisGateA.cdp_import_implies_valid. Qed.
Print Assumptions C14_cdp_import_implies_valid.

Theorem C14_bep3_import_implies_valid :
  forall e s0 g s' o, GenesisBep3.init_genesis e s0 g = Ok s' o -> GenesisBep3.validate_genesis g = true.
Proof. exact GenesisGateA.bep3_import_implies_valid. Qed.
Print Assumptions C14_bep3_import_implies_valid.

(* x/auction: moreover the bank the import runs on holds, in the auction module account, exactly
   the coins the genesis auctions account for, in every denom in circulation *)
Theorem C14_auction_import_implies_valid_and_custody :
  forall e denoms b g s' o, GenesisAuction.init_genesis e denoms b g = Ok s' o ->
  GenesisAuction.validate_genesis e g = true /\
  forall d, In d denoms -> b (Auction.amod e) d = Auction.held d (GenesisAuction.g_aucs g).
Proof. exact GenesisGateA.auction_import_implies_valid_and_custody. Qed.
Print Assumptions C14_auction_import_implies_valid_and_custody.

(* any surplus or shortfall in one denom makes InitGenesis panic *)
Theorem C14_auction_import_refuses_unaccounted_balance :
  forall e denoms b g d k, In d denoms -> k <> 0 ->
  b (Auction.amod e) d = Auction.held d (GenesisAuction.g_aucs g) + k ->
  GenesisAuction.init_genesis e denoms b g = Panic.
Proof. exact GenesisGateA.auction_import_refuses_unaccounted_balance. Qed.
Print Assumptions C14_auction_import_refuses_unaccounted_balance.

(* non-vacuity: the empty genesis over a module account holding one unit of denom 0 is refused,
   over an empty module account it is imported; one open surplus auction (lot 5 of denom 1) is
   imported over exactly 5 and refused over 6 and over 5 plus a unit of another denom *)
Example C14_auction_custody_gate_nonvacuous :
  let e := Auction.mkEnv 9 10 (fun _ => false) (fun _ => false) (fun _ => false) (fun _ => false) 100 10 10 0 0 0 in
  let a := Auction.mkAuc 1 Auction.KSurplus 0%nat 1%nat 5 10%nat 2%nat 0 false 50 100 0%nat 0 0 [] [] in
  let bk (x : Z) (y : Z) : Auction.bank := fun ad d => if Nat.eqb ad 9 then (if Nat.eqb d 1 then x else if Nat.eqb d 0 then y else 0) else 0 in
  class_of (GenesisAuction.init_genesis e [0%nat; 1%nat] (bk 0 0) (GenesisAuction.mkGen 1 [])) = ROk /\
  class_of (GenesisAuction.init_genesis e [0%nat; 1%nat] (bk 0 1) (GenesisAuction.mkGen 1 [])) = RPanic /\
  class_of (GenesisAuction.init_genesis e [0%nat; 1%nat] (bk 5 0) (GenesisAuction.mkGen 2 [a])) = ROk /\
  class_of (GenesisAuction.init_genesis e [0%nat; 1%nat] (bk 6 0) (GenesisAuction.mkGen 2 [a])) = RPanic /\
  class_of (GenesisAuction.init_genesis e [0%nat; 1%nat] (bk 4 0) (GenesisAuction.mkGen 2 [a])) = RPanic /\
  class_of (GenesisAuction.init_genesis e [0%nat; 1%nat] (bk 5 1) (GenesisAuction.mkGen 2 [a])) = RPanic /\
  class_of (GenesisAuction.init_genesis e [0%nat; 1%nat]
              (GenesisAuction.adj_bank (bk 5 0) 9 [(1%nat, 1)]) (GenesisAuction.mkGen 2 [a])) = RPanic.
Proof. vm_compute. repeat split; reflexivity. Qed.
