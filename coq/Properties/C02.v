(* C02 — blocks always process and registered invariants hold at every height
   (partial: see DESIGN.md 7.2).
   Generic part: a chain whose begin blocker completes from every state satisfying
   the module invariants, and whose accepted transactions preserve them, never
   halts and satisfies the invariants after every block — for every list of blocks;
   and this composes module by module.  Instances: the module models whose
   invariant theorems exist (listed below; the list grows with the models). *)
From Kava Require Import Base.Prelude Model.World Proofs.World.
From Kava Require Import Model.Precisebank Proofs.Precisebank.

Theorem C02_chain_never_halts :
  forall (S B O : Type) (begin_block : S -> B -> outcome S unit) (tx : S -> O -> outcome S unit) (Inv : S -> Prop),
  (forall s b, Inv s -> exists s', begin_block s b = Ok s' tt /\ Inv s') ->
  (forall s o s' u, Inv s -> tx s o = Ok s' u -> Inv s') ->
  forall blks s, Inv s -> exists s', run_blocks begin_block tx s blks = Some s' /\ Inv s'.
Proof. intros S B O bb tx Inv H1 H2 blks. exact (blocks_no_halt bb tx Inv H1 H2 blks). Qed.
Print Assumptions C02_chain_never_halts.

Theorem C02_modules_compose :
  forall (S1 S2 B O1 O2 : Type) bb1 bb2 tx1 tx2 (Inv1 : S1 -> Prop) (Inv2 : S2 -> Prop),
  (forall s (b : B), Inv1 s -> exists s', bb1 s b = Ok s' tt /\ Inv1 s') ->
  (forall s (b : B), Inv2 s -> exists s', bb2 s b = Ok s' tt /\ Inv2 s') ->
  (forall s (o : O1) s' u, Inv1 s -> tx1 s o = Ok s' u -> Inv1 s') ->
  (forall s (o : O2) s' u, Inv2 s -> tx2 s o = Ok s' u -> Inv2 s') ->
  forall blks s, InvP Inv1 Inv2 s ->
  exists s', run_blocks (bb_prod bb1 bb2) (tx_prod tx1 tx2) s blks = Some s' /\ InvP Inv1 Inv2 s'.
Proof. intros. eapply product_no_halt; eauto. Qed.
Print Assumptions C02_modules_compose.

(* Instance: precisebank has no begin blocker; its five registered invariants
   (reserve-backs-fractions, balance-remainder-total, valid-fractional-balances,
   valid-remainder-amount, fractional-denom-not-in-bank) are the conjuncts of
   Precisebank.Inv and hold after every block of any chain of precisebank calls. *)
Definition pb_begin (e : env) (s : state) (_ : unit) : outcome state unit := Ok s tt.

Theorem C02_precisebank_invariants_every_height :
  forall e, env_wf e -> forall blks s, Inv e s ->
  exists s', run_blocks (pb_begin e) (step e) s blks = Some s' /\ Inv e s'.
Proof.
  intros e Hwf. apply blocks_no_halt.
  - intros s b H. exists s. split; [reflexivity|exact H].
  - intros s o s' u H E. destruct u. eapply step_inv; eauto.
Qed.
Print Assumptions C02_precisebank_invariants_every_height.
