(* C02 — blocks always process and registered invariants hold at every height
   (partial: see DESIGN.md 7.2 and the end of this header).

   1. Generic part (Model/World.v, Model/WorldG.v).  A chain component is a state machine with a begin
      blocker, operations and an end blocker; a failing operation leaves the state unchanged, a failing
      blocker halts the chain.  If from every state satisfying the invariant the blockers complete on every
      good block input and accepted good operations preserve the invariant, then NO LIST OF BLOCKS halts the
      chain and the invariant holds after every block ([C02_component_never_halts], by induction over the block
      list); components compose side by side, n-ary ([C02_components_compose]).
   2. One instance per Kava module model (Proofs/World<Module>.v; each file says, conjunct by conjunct, which
      registered crisis invariant the invariant models, what every guard is and what discharges it):
        with a begin / end blocker: committee, community+kavadist (with x/mint as oracle), auction, cdp, bep3,
          hard, incentive (begin), pricefeed (end);
        without: swap, evmutil, savings, liquid, earn, precisebank.
      Where a blocker CAN halt from an invariant-satisfying state the witness is a [_refuted] theorem and the
      guard that excludes it is spelled out in the instance: auction (block time at types.DistantFuture),
      cdp (DebtAuctionLot > DebtAuctionThreshold, accepted by Params.Validate), hard (an interest-rate model
      accepted by Params.Validate whose APY makes APYToSPY fail); kavadist's partner-reward shortfall is
      C19_infra_shortfall_panics.
   3. [C02_kava_modules_never_halt]: the product of all components in the order of SetOrderBeginBlockers.
      The modules are modelled SIDE BY SIDE, each over its own abstract bank: coupling through the shared
      x/bank and through hooks is NOT proved compositionally; it is observed by the C02 driver (full
      BeginBlock / DeliverTx / EndBlock / Commit on the real app with every crisis invariant route asserted
      after every block).  The bank, staking, distribution and gov invariants are SDK code: observed only.
   4. [C02_product_order_is_kava_subsequence]: the product order is the Kava sub-sequence of the begin-blocker
      table of Model/WorldOrder.v, which ./check compares with app/app.go on every run (tools/blockorder). *)
From Coq Require Import String.
From Kava Require Import Base.Prelude Model.World Proofs.World.
From Kava Require Import Model.WorldG Model.WorldOrder Proofs.WorldG.
From Kava Require Model.Precisebank Proofs.Precisebank.
From Kava Require Model.Committee Model.Emissions Model.Auction Model.Cdp Model.Bep3 Model.Hard Model.Incentive
  Model.Swap Model.Pricefeed Model.Evmutil Model.Savings Model.Staking Model.Liquid Model.Earn.
From Kava Require Base.Dec Proofs.CdpCust Proofs.Auction Proofs.Bep3 Proofs.Incentive Proofs.Evmutil Proofs.Savings Proofs.Liquid Proofs.Earn
  Proofs.Swap Proofs.Pricefeed.
From Kava Require Proofs.WorldCommittee Proofs.WorldEmissions Proofs.WorldAuction Proofs.WorldCdpLive Proofs.WorldCdp
  Proofs.WorldBep3 Proofs.WorldHard Proofs.WorldIncentive Proofs.WorldSwap Proofs.WorldPricefeed Proofs.WorldEvmutil
  Proofs.WorldSavings Proofs.WorldLiquid Proofs.WorldEarn Proofs.WorldPrecisebank Proofs.WorldKava.
Local Open Scope string_scope.

(** * 1. the generic theorems *)

(* first form (no guards, no end blocker) *)
Theorem C02_chain_never_halts :
  forall (S B O : Type) (begin_block : S -> B -> outcome S unit) (tx : S -> O -> outcome S unit) (Inv : S -> Prop),
  (forall s b, Inv s -> exists s', begin_block s b = Ok s' tt /\ Inv s') ->
  (forall s o s' u, Inv s -> tx s o = Ok s' u -> Inv s') ->
  forall blks s, Inv s -> exists s', run_blocks begin_block tx s blks = Some s' /\ Inv s'.
Proof. intros S B O bb tx Inv H1 H2 blks. exact (blocks_no_halt bb tx Inv H1 H2 blks). Qed.
Print Assumptions C02_chain_never_halts.

Theorem C02_modules_compose :
  forall (S1 S2 B O1 O2 : Type) bb1 bb2 tx1 tx2 (Inv1 : S1 -> Prop) (Inv2 : S2 -> Prop),
  (forall s (b : B), Inv1 s -> exists s', bb1 s b = Ok s' tt /\ Inv1 s') ->
  (forall s (b : B), Inv2 s -> exists s', bb2 s b = Ok s' tt /\ Inv2 s') ->
  (forall s (o : O1) s' u, Inv1 s -> tx1 s o = Ok s' u -> Inv1 s') ->
  (forall s (o : O2) s' u, Inv2 s -> tx2 s o = Ok s' u -> Inv2 s') ->
  forall blks s, InvP Inv1 Inv2 s ->
  exists s', run_blocks (bb_prod bb1 bb2) (tx_prod tx1 tx2) s blks = Some s' /\ InvP Inv1 Inv2 s'.
Proof. intros. eapply product_no_halt; eauto. Qed.
Print Assumptions C02_modules_compose.

(* general form: begin blocker, operations, end blocker, with a guard on block inputs and on accepted
   operations ([good_blocks], Model/WorldG.v).  [module_ok M] is the pair of obligations "the blockers complete
   from every invariant state on good inputs and re-establish the invariant" / "accepted good operations
   preserve the invariant". *)
Theorem C02_component_never_halts :
  forall M, module_ok M ->
  forall blks s, m_Inv M s -> good_blocks M s blks ->
  exists s', run_blocksG M s blks = Some s' /\ m_Inv M s'.
Proof. exact module_never_halts. Qed.
Print Assumptions C02_component_never_halts.

(* n components side by side, blockers in list order *)
Theorem C02_components_compose :
  forall l, all_ok l -> module_ok (mcompose l) /\ m_names (mcompose l) = flat_map m_names l.
Proof. intros l H. split; [apply mcompose_ok; exact H|apply mcompose_names]. Qed.
Print Assumptions C02_components_compose.

(* what "side by side" means, exactly: the product chain reaches (s1', s2') if and only if component 1 reaches
   s1' on its projection of the history (its block inputs, the operations addressed to it) and component 2
   reaches s2' on its projection — the components of a product do not influence one another.  (This is the
   precise sense in which cross-module coupling is outside the composed theorem.) *)
Theorem C02_components_are_independent :
  forall M1 M2 blks s1 s2,
  run_blocksG (mprod M1 M2) (s1, s2) blks
  = both (run_blocksG M1 s1 (blks1 M1 M2 blks)) (run_blocksG M2 s2 (blks2 M1 M2 blks)).
Proof. exact run_blocks_prod. Qed.
Print Assumptions C02_components_are_independent.

(* a component without guards: every list of blocks is good *)
Theorem C02_no_guard_all_blocks_good :
  forall M, (forall s b, m_goodB M s b) -> (forall s o, m_goodT M s o) -> forall blks s, good_blocks M s blks.
Proof. exact good_blocks_True. Qed.
Print Assumptions C02_no_guard_all_blocks_good.

(** * 2a. modules with a begin or end blocker *)

(* x/committee: BeginBlocker = ProcessProposals (enactment panics on a handler error).  Invariant: stored
   parameter documents are objects/arrays of objects; every stored proposal passed the handler dry run at
   submission.  Guard: block time monotone.  No assumption on what governance installs as permissions. *)
Theorem C02_committee_never_halts :
  forall sls blks s, WorldCommittee.committee_Inv s -> good_blocks (WorldCommittee.committee_M sls) s blks ->
  exists s', run_blocksG (WorldCommittee.committee_M sls) s blks = Some s' /\ WorldCommittee.committee_Inv s'.
Proof. intros sls. exact (module_never_halts _ (WorldCommittee.committee_M_ok sls)). Qed.
Print Assumptions C02_committee_never_halts.

(* x/community ; (x/mint) ; x/kavadist.  Guard: time monotone and positive, oracle values >= 0, and the partner
   rewards of the block covered by the infrastructure coins minted in it ([covered]; without it the chain
   halts: C19_infra_shortfall_panics). *)
Theorem C02_community_kavadist_never_halt :
  forall blks s, WorldEmissions.EInv s -> good_blocks WorldEmissions.emissions_M s blks ->
  exists s', run_blocksG WorldEmissions.emissions_M s blks = Some s' /\ WorldEmissions.EInv s'.
Proof. exact (module_never_halts _ WorldEmissions.emissions_M_ok). Qed.
Print Assumptions C02_community_kavadist_never_halt.

Theorem C02_kavadist_guard_vacuous_without_partners :
  forall t m c s, Model.Emissions.kd_partners s = [] -> WorldEmissions.covered t m c s.
Proof. exact WorldEmissions.covered_no_partners. Qed.
Print Assumptions C02_kavadist_guard_vacuous_without_partners.

(* x/auction: BeginBlocker = CloseExpiredAuctions (any payout error panics).  Invariant: custody
   ("module-account"), index ("valid-index"), valid auctions ("valid-auctions") — defined in
   keeper/invariants.go but NOT registered by the AppModule — plus non-negative balances and payable winners.
   Guards: block time before DistantFuture; callers' guarantees and "the bidder is a message signer". *)
Theorem C02_auction_never_halts :
  forall e, WorldAuction.env_ok e ->
  forall blks s, WorldAuction.InvW e s -> good_blocks (WorldAuction.auction_M e) s blks ->
  exists s', run_blocksG (WorldAuction.auction_M e) s blks = Some s' /\ WorldAuction.InvW e s'.
Proof. intros e H. exact (module_never_halts _ (WorldAuction.auction_M_ok e H)). Qed.
Print Assumptions C02_auction_never_halts.

(* the block guard of x/auction is needed *)
Theorem C02_auction_begin_block_refuted_distant_future :
  exists e s t, WorldAuction.env_ok e /\ WorldAuction.InvW e s /\ ~ (t < Model.Auction.DISTANT_FUTURE)%Z /\
                Model.Auction.begin_block e s t = Panic.
Proof. exact WorldAuction.auction_begin_block_refuted_distant_future. Qed.
Print Assumptions C02_auction_begin_block_refuted_distant_future.

(* x/cdp: BeginBlocker (status, interest accumulation, risky-cdp synchronisation, liquidation with seizure and
   collateral auctions, surplus and debt auctions; every error panics).  Invariant Inv5 = C04's indexes and
   custody + non-negative balances + positive deposits + interest-factor sanity + accrual times <= clock.
   Guard: dt >= 0.  Environment: [env_ok] includes DebtAuctionLot <= DebtAuctionThreshold. *)
Theorem C02_cdp_never_halts :
  forall e, WorldCdpLive.env_ok e -> WorldCdp.env_dom e ->
  forall blks s, WorldCdp.Inv5 e s -> good_blocks (WorldCdp.cdp_M e) s blks ->
  exists s', run_blocksG (WorldCdp.cdp_M e) s blks = Some s' /\ WorldCdp.Inv5 e s'.
Proof. intros e H1 H2. exact (module_never_halts _ (WorldCdp.cdp_M_ok e H1 H2)). Qed.
Print Assumptions C02_cdp_never_halts.

(* with DebtAuctionLot > DebtAuctionThreshold (both accepted by Params.Validate) and a liquidator debt balance
   between the two, the cdp begin blocker panics (reproduced on the real keepers) *)
Theorem C02_cdp_begin_block_refuted_params :
  exists e s b,
    (* every environment hypothesis of the instance except DebtAuctionLot <= DebtAuctionThreshold ... *)
    Proofs.CdpCust.env_wf e /\ Proofs.CdpCust.params_ok e /\
    (forall t cp, Model.Cdp.get_cp e t = Some cp -> 0 < Model.Cdp.cp_asize cp /\ Base.Dec.PREC <= Model.Cdp.cp_fee cp)%Z /\
    (0 < Model.Cdp.debt_thr e)%Z /\ (0 < Model.Cdp.debt_lot e)%Z /\ (0 < Model.Cdp.sur_thr e)%Z /\ (0 < Model.Cdp.sur_lot e)%Z /\
    WorldCdp.env_dom e /\
    (* ... the invariant, a good block, and the begin blocker panics *)
    WorldCdp.Inv5 e s /\ m_goodB (WorldCdp.cdp_M e) s b /\ m_bb (WorldCdp.cdp_M e) s b = Panic.
Proof. exact WorldCdp.cdp_begin_block_refuted_params. Qed.
Print Assumptions C02_cdp_begin_block_refuted_params.

(* x/bep3: BeginBlocker (time-based limits, expiry, deletion) is total.  Invariant = C13's.  Guard: the module
   account is not the sender of a create. *)
Theorem C02_bep3_never_halts :
  forall e, Proofs.Bep3.env_wf e ->
  forall blks s, Proofs.Bep3.Inv e s -> good_blocks (WorldBep3.bep3_M e) s blks ->
  exists s', run_blocksG (WorldBep3.bep3_M e) s blks = Some s' /\ Proofs.Bep3.Inv e s'.
Proof. intros e H. exact (module_never_halts _ (WorldBep3.bep3_M_ok e H)). Qed.
Print Assumptions C02_bep3_never_halts.

(* x/hard: BeginBlocker = ApplyInterestRateUpdates (an error panics).  Invariant: reserve factors in [0,1] in
   store and params, totals non-negative.  Guards: oracle borrow-interest factors >= 1; SetParams installs valid
   markets. *)
Theorem C02_hard_never_halts :
  forall e blks s, WorldHard.hard_Inv s -> good_blocks (WorldHard.hard_M e) s blks ->
  exists s', run_blocksG (WorldHard.hard_M e) s blks = Some s' /\ WorldHard.hard_Inv s'.
Proof. intros e. exact (module_never_halts _ (WorldHard.hard_M_ok e)). Qed.
Print Assumptions C02_hard_never_halts.

(* the block guard of x/hard is needed: an oracle factor that encodes an APYToSPY error halts the chain; such
   an error is reachable with an interest-rate model that Params.Validate accepts (see Proofs/WorldHard.v) *)
Theorem C02_hard_begin_block_refuted :
  exists e s b, WorldHard.hard_Inv s /\ m_bb (WorldHard.hard_M e) s b = Panic.
Proof. exact WorldHard.hard_begin_block_refuted. Qed.
Print Assumptions C02_hard_begin_block_refuted.

(* x/incentive: BeginBlocker = accumulation of the global reward indexes.  Invariant = C09's.  Guard: time monotone. *)
Theorem C02_incentive_never_halts :
  forall e, Proofs.Incentive.env_wf e ->
  forall blks s, Proofs.Incentive.Inv e s -> good_blocks (WorldIncentive.incentive_M e) s blks ->
  exists s', run_blocksG (WorldIncentive.incentive_M e) s blks = Some s' /\ Proofs.Incentive.Inv e s'.
Proof. intros e H. exact (module_never_halts _ (WorldIncentive.incentive_M_ok e H)). Qed.
Print Assumptions C02_incentive_never_halts.

(* x/pricefeed: EndBlocker = SetCurrentPricesForAllMarkets.  No guard at all. *)
Theorem C02_pricefeed_never_halts :
  forall e blks s, Proofs.Pricefeed.Inv s ->
  exists s', run_blocksG (WorldPricefeed.pricefeed_M e) s blks = Some s' /\ Proofs.Pricefeed.Inv s'.
Proof.
  intros e blks s H. apply (module_never_halts _ (WorldPricefeed.pricefeed_M_ok e)); [exact H|].
  apply good_blocks_True; intros; exact I.
Qed.
Print Assumptions C02_pricefeed_never_halts.

(** * 2b. modules without blockers: the registered invariants hold at every height *)

(* x/swap: "pool-records", "share-records", "pool-reserves", "pool-shares" *)
Theorem C02_swap_invariants_every_height :
  forall e blks s, Proofs.Swap.Inv e s ->
  exists s', run_blocksG (WorldSwap.swap_M e) s blks = Some s' /\ Proofs.Swap.Inv e s'.
Proof.
  intros e blks s H. apply (module_never_halts _ (WorldSwap.swap_M_ok e)); [exact H|].
  apply good_blocks_True; intros; exact I.
Qed.
Print Assumptions C02_swap_invariants_every_height.

(* x/evmutil: "cosmos-coins-fully-backed" (and the unregistered backed-coins invariant, scaled).  Guard: the
   module account signs nothing. *)
Theorem C02_evmutil_invariants_every_height :
  forall e, Proofs.Evmutil.env_wf e ->
  forall blks s, Proofs.Evmutil.Inv e s -> good_blocks (WorldEvmutil.evmutil_M e) s blks ->
  exists s', run_blocksG (WorldEvmutil.evmutil_M e) s blks = Some s' /\ Proofs.Evmutil.Inv e s'.
Proof. intros e H. exact (module_never_halts _ (WorldEvmutil.evmutil_M_ok e H)). Qed.
Print Assumptions C02_evmutil_invariants_every_height.

(* x/savings: "deposits", "solvency".  Guard: the signer is an account other than the module account. *)
Theorem C02_savings_invariants_every_height :
  forall e, Proofs.Savings.senv_wf e ->
  forall blks s, Proofs.Savings.SInv e s -> good_blocks (WorldSavings.savings_M e) s blks ->
  exists s', run_blocksG (WorldSavings.savings_M e) s blks = Some s' /\ Proofs.Savings.SInv e s'.
Proof. intros e H. exact (module_never_halts _ (WorldSavings.savings_M_ok e H)). Qed.
Print Assumptions C02_savings_invariants_every_height.

(* x/liquid over the x/staking model: "delegator-shares", "positive-delegation" in model form *)
Theorem C02_liquid_invariants_every_height :
  forall e, Proofs.Liquid.env_wf e ->
  forall blks s, Proofs.Liquid.Inv e s ->
  exists s', run_blocksG (WorldLiquid.liquid_M e) s blks = Some s' /\ Proofs.Liquid.Inv e s'.
Proof.
  intros e Hw blks s H. apply (module_never_halts _ (WorldLiquid.liquid_M_ok e Hw)); [exact H|].
  apply good_blocks_True; intros; exact I.
Qed.
Print Assumptions C02_liquid_invariants_every_height.

(* x/earn: "vault-records", "share-records", "vault-shares" (the savings state rides along) *)
Theorem C02_earn_invariants_every_height :
  forall e, Proofs.Earn.env_wf e ->
  forall blks s, Proofs.Earn.Inv e s ->
  exists s', run_blocksG (WorldEarn.earn_M e) s blks = Some s' /\ Proofs.Earn.Inv e s'.
Proof.
  intros e Hw blks s H. apply (module_never_halts _ (WorldEarn.earn_M_ok e Hw)); [exact H|].
  apply good_blocks_True; intros; exact I.
Qed.
Print Assumptions C02_earn_invariants_every_height.

(* x/precisebank (first form of the machine): "reserve-backs-fractions", "balance-remainder-total",
   "valid-fractional-balances", "valid-remainder-amount", "fractional-denom-not-in-bank" *)
Definition pb_begin (e : Model.Precisebank.env) (s : Model.Precisebank.state) (_ : unit)
  : outcome Model.Precisebank.state unit := Ok s tt.

Theorem C02_precisebank_invariants_every_height :
  forall e, Proofs.Precisebank.env_wf e -> forall blks s, Proofs.Precisebank.Inv e s ->
  exists s', run_blocks (pb_begin e) (Model.Precisebank.step e) s blks = Some s' /\ Proofs.Precisebank.Inv e s'.
Proof.
  intros e Hwf. apply blocks_no_halt.
  - intros s b H. exists s. split; [reflexivity|exact H].
  - intros s o s' u H E. destruct u. eapply Proofs.Precisebank.step_inv; eauto.
Qed.
Print Assumptions C02_precisebank_invariants_every_height.

(** * 3. all components, in begin-blocker order *)

(* [kava_env_ok E]: the environment hypotheses of the components (Proofs/WorldKava.v).  The state of the
   product is the tuple of the component states, each over ITS OWN abstract bank (see the header). *)
Theorem C02_kava_modules_never_halt :
  forall E, WorldKava.kava_env_ok E ->
  forall blks s, m_Inv (WorldKava.kava_chain E) s -> good_blocks (WorldKava.kava_chain E) s blks ->
  exists s', run_blocksG (WorldKava.kava_chain E) s blks = Some s' /\ m_Inv (WorldKava.kava_chain E) s'.
Proof. exact WorldKava.kava_modules_never_halt. Qed.
Print Assumptions C02_kava_modules_never_halt.

(** * 4. the order *)

(* the module names of the product, in the order its begin blockers run, are exactly Kava's own modules of
   app.mm.SetOrderBeginBlockers in source order *)
Theorem C02_product_order_is_kava_subsequence :
  forall E, m_names (WorldKava.kava_chain E) = kava_begin_order.
Proof. exact WorldKava.product_order_is_kava_subsequence. Qed.
Print Assumptions C02_product_order_is_kava_subsequence.

(* the rows ./check compares with app/app.go are the rendering of the two order tables *)
Theorem C02_blocker_rows_are_the_tables :
  map fst blocker_rows = (keys_from "begin" 0 begin_blockers ++ keys_from "end" 0 end_blockers)%list.
Proof. exact blocker_rows_are_the_tables. Qed.
Print Assumptions C02_blocker_rows_are_the_tables.

(* community runs before mint, mint before kavadist (the order the community+kavadist component models) *)
Theorem C02_emissions_order_in_app :
  match pos_of "community" begin_blocker_order 0, pos_of "mint" begin_blocker_order 0, pos_of "kavadist" begin_blocker_order 0 with
  | Some a, Some b, Some c => Nat.ltb a b && Nat.ltb b c = true
  | _, _, _ => False
  end.
Proof. exact WorldKava.emissions_order_in_app. Qed.
Print Assumptions C02_emissions_order_in_app.

(* the end-blocker list names the same Kava modules *)
Theorem C02_end_order_same_kava_modules :
  forall name, In name kava_begin_order <-> In name kava_end_order.
Proof. exact WorldKava.end_order_same_kava_modules. Qed.
Print Assumptions C02_end_order_same_kava_modules.

(** * 5. non-vacuity: concrete environments and states satisfying every invariant and guard; blocks run *)

(* every component: env hypotheses, the invariant on a concrete state, a concrete good block list, and the
   observable result of running it (the statements are in the component files) *)
Example C02_component_witnesses :
  (WorldCommittee.committee_Inv WorldKava.committee_s0) /\
  (m_Inv WorldEmissions.emissions_M WorldEmissions.em_cs0 /\ good_blocks WorldEmissions.emissions_M WorldEmissions.em_cs0 WorldEmissions.em_blks) /\
  (WorldAuction.env_ok WorldAuction.rf_env /\ WorldAuction.InvW WorldAuction.rf_env WorldAuction.rf_init) /\
  (WorldCdpLive.env_ok WorldCdp.n_env /\ WorldCdp.env_dom WorldCdp.n_env /\ WorldCdp.Inv5 WorldCdp.n_env WorldCdp.n_s0) /\
  (Proofs.Bep3.env_wf WorldBep3.bep3_e0 /\ Proofs.Bep3.Inv WorldBep3.bep3_e0 WorldBep3.bep3_s0 /\
     good_blocks (WorldBep3.bep3_M WorldBep3.bep3_e0) WorldBep3.bep3_s0 WorldBep3.bep3_blks) /\
  (WorldHard.hard_Inv WorldHard.hw_init /\ good_blocks (WorldHard.hard_M WorldHard.hw_env) WorldHard.hw_init WorldHard.hw_blocks) /\
  (Proofs.Incentive.env_wf WorldIncentive.inc_e0 /\ Proofs.Incentive.Inv WorldIncentive.inc_e0 WorldIncentive.inc_s0 /\
     good_blocks (WorldIncentive.incentive_M WorldIncentive.inc_e0) WorldIncentive.inc_s0 WorldIncentive.inc_blks) /\
  (Proofs.Swap.Inv WorldSwap.swap_e0 WorldSwap.swap_s0) /\
  (Proofs.Pricefeed.Inv WorldPricefeed.pf_s0) /\
  (Proofs.Evmutil.env_wf WorldEvmutil.evm_e0 /\ Proofs.Evmutil.Inv WorldEvmutil.evm_e0 WorldEvmutil.evm_s0 /\
     good_blocks (WorldEvmutil.evmutil_M WorldEvmutil.evm_e0) WorldEvmutil.evm_s0 WorldEvmutil.evm_blk) /\
  (Proofs.Savings.senv_wf WorldSavings.sav_e0 /\ Proofs.Savings.SInv WorldSavings.sav_e0 WorldSavings.sav_s0 /\
     good_blocks (WorldSavings.savings_M WorldSavings.sav_e0) WorldSavings.sav_s0 WorldSavings.sav_blk) /\
  (Proofs.Liquid.env_wf WorldLiquid.liq_e0 /\ Proofs.Liquid.Inv WorldLiquid.liq_e0 WorldLiquid.liq_s0) /\
  (Proofs.Earn.env_wf WorldEarn.earn_e0 /\ Proofs.Earn.Inv WorldEarn.earn_e0 WorldEarn.earn_s0) /\
  (Proofs.Precisebank.env_wf WorldPrecisebank.pb_e0 /\ Proofs.Precisebank.Inv WorldPrecisebank.pb_e0 WorldPrecisebank.pb_s0).
Proof.
  destruct WorldEmissions.emissions_nonvacuous as (Em1 & Em2 & _).
  destruct WorldBep3.bep3_nonvacuous as (Be1 & Be2 & Be3 & _).
  destruct WorldHard.hard_nonvacuous as (Ha1 & Ha2 & _).
  destruct WorldIncentive.incentive_nonvacuous as (In1 & In2 & In3 & _).
  destruct WorldSwap.swap_nonvacuous as (Sw1 & _).
  destruct WorldPricefeed.pricefeed_nonvacuous as (Pf1 & _).
  destruct WorldEvmutil.evmutil_nonvacuous as (Ev1 & Ev2 & Ev3 & _).
  destruct WorldSavings.savings_nonvacuous as (Sa1 & Sa2 & Sa3 & _).
  destruct WorldLiquid.liquid_nonvacuous as (Li1 & Li2 & _).
  destruct WorldEarn.earn_nonvacuous as (Ea1 & Ea2 & _).
  destruct WorldPrecisebank.precisebank_nonvacuous as (Pb1 & Pb2 & _).
  pose proof WorldCdp.cdp_env_hypotheses_satisfiable as Cd.
  pose proof WorldAuction.env_ok_rf as Au1. pose proof WorldAuction.rf_init_W as Au2.
  split; [split; [repeat constructor|constructor]|].
  exact (conj (conj Em1 Em2) (conj (conj Au1 Au2) (conj Cd (conj (conj Be1 (conj Be2 Be3)) (conj (conj Ha1 Ha2)
        (conj (conj In1 (conj In2 In3)) (conj Sw1 (conj Pf1 (conj (conj Ev1 (conj Ev2 Ev3)) (conj (conj Sa1 (conj Sa2 Sa3))
        (conj (conj Li1 Li2) (conj (conj Ea1 Ea2) (conj Pb1 Pb2))))))))))))).
Qed.

(* the composed statement: a concrete parameterisation satisfying [kava_env_ok] and a concrete product state
   satisfying the product invariant *)
Example C02_kava_chain_nonvacuous :
  WorldKava.kava_env_ok WorldKava.kava_e0 /\ m_Inv (WorldKava.kava_chain WorldKava.kava_e0) WorldKava.kava_s0.
Proof. exact WorldKava.kava_chain_nonvacuous. Qed.

(* blocks execute in the components (observables after the run; the statements with the values are the
   [*_nonvacuous] examples of the component files): e.g. the cdp witness seizes and auctions a cdp in its
   third block, the auction witness closes an auction with bids, the hard witness accrues and liquidates *)
Example C02_blocks_run :
  (match run_blocksG (WorldAuction.auction_M WorldAuction.rf_env) (Model.Auction.run WorldAuction.rf_env WorldAuction.rf_init WorldAuction.nv_ops) [(130%Z, [])] with
   | Some s => Model.Auction.aucs s = [] | None => False end) /\
  (match run_blocksG (WorldSwap.swap_M WorldSwap.swap_e0) WorldSwap.swap_s0
           [(tt, [Model.Swap.Deposit 0 2 400000 0 100000 0])] with
   | Some s => exists p, Model.Swap.k_pool s 0%nat 2%nat = Some p | None => False end).
Proof. split; vm_compute; [reflexivity|eexists; reflexivity]. Qed.
