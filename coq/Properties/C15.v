(* C15 — ante gating: blocked message types cannot execute through any authz
   wrapping; Ethereum messages only on the Ethereum path; authenticated mempool.
   Property theorems only; proofs are in Proofs/Ante.v.

   [ante cfg md t o] is the composed handler of app/ante/ante.go on the
   transaction [t] (rose tree of messages, extension-option URLs, signers) in
   mode [md] under the mempool configuration [cfg]; [o] is the oracle (two
   bits) for everything the SDK / ethermint / ibc decorators decide before and
   after Kava's gates — every theorem holds for all its values. *)
From Coq Require Import String.
From Kava Require Import Base.Prelude Model.Ante Proofs.Ante.

(* Clause 1a.  An accepted transaction contains, inside any authz Exec at any
   nesting depth, no message whose type is in the disabled list, and no Grant
   (top level or nested) targets a disabled type.  [sub m top] is the
   inductive "occurs inside an Exec of top at some depth" relation: the
   statement has no bound on depth or width. *)
Theorem C15_no_blocked_inside : forall cfg md t o p,
  ante cfg md t o = Accept p ->
  forall top, In top (t_msgs t) ->
    (forall m, sub m top -> ~ In (msg_url m) disabled_types) /\
    (forall m tg, (m = top \/ sub m top) -> m = Grant tg -> ~ In tg disabled_types).
Proof. exact no_blocked_inside. Qed.
Print Assumptions C15_no_blocked_inside.

(* the same with the four concrete types spelled out *)
Theorem C15_no_eth_or_vesting_inside : forall cfg md t o p,
  ante cfg md t o = Accept p ->
  forall top m, In top (t_msgs t) -> sub m top ->
    msg_url m <> url_eth /\ msg_url m <> url_vest_create /\
    msg_url m <> url_vest_perm /\ msg_url m <> url_vest_periodic /\
    (forall tg, m = Grant tg ->
       tg <> url_eth /\ tg <> url_vest_create /\ tg <> url_vest_perm /\ tg <> url_vest_periodic).
Proof. exact no_eth_or_vesting_inside. Qed.
Print Assumptions C15_no_eth_or_vesting_inside.

(* the recursive scan itself, for every disabled list and both values of the
   searchOnlyInAuthzMsgs flag: exact characterisation (sound and complete) *)
Theorem C15_check_disabled_exact : forall dis only msgs,
  check_disabled dis only msgs = true <->
  forall top, In top msgs ->
    (only = false -> ~ In (msg_url top) dis) /\
    (forall d, In d (descendants top) -> ~ In (msg_url d) dis) /\
    (forall d tg, In d (top :: descendants top) -> d = Grant tg -> ~ In tg dis).
Proof. exact check_disabled_spec. Qed.
Print Assumptions C15_check_disabled_exact.

Theorem C15_descendants_is_any_depth : forall m' m, sub m' m <-> In m' (descendants m).
Proof. exact sub_descendants. Qed.
Print Assumptions C15_descendants_is_any_depth.

(* a disabled type under n+1 nested Execs, after and before arbitrary siblings,
   is refused in every mode, configuration and option list: for every n *)
Theorem C15_deep_blocked_rejected : forall cfg md n u before after others signers opts o,
  In u disabled_types ->
  exists r, ante cfg md (mkTx (before ++ wrap (S n) (Plain u) :: after ++ others) opts signers) o = Reject r.
Proof. exact deep_blocked_rejected. Qed.
Print Assumptions C15_deep_blocked_rejected.

(* Clause 1b.  Vesting-account-creation messages are rejected at top level. *)
Theorem C15_vesting_top_level : forall cfg md t o p,
  ante cfg md t o = Accept p ->
  forall top, In top (t_msgs t) -> ~ In (msg_url top) vesting_types.
Proof. exact vesting_top_level. Qed.
Print Assumptions C15_vesting_top_level.

(* Clause 2.  A transaction containing a MsgEthereumTx anywhere (top level or
   inside Execs) is accepted only through the Ethereum path, selected by
   exactly the one option ExtensionOptionsEthereumTx; that path accepts nothing
   but MsgEthereumTx messages. *)
Theorem C15_eth_only_on_eth_path : forall cfg md t o p,
  ante cfg md t o = Accept p -> contains_eth t ->
  p = PEth /\ t_opts t = [opt_eth].
Proof. exact eth_only_on_eth_path. Qed.
Print Assumptions C15_eth_only_on_eth_path.

Theorem C15_eth_path_only_eth_msgs : forall cfg md t o,
  ante cfg md t o = Accept PEth ->
  t_opts t = [opt_eth] /\ forall top, In top (t_msgs t) -> top = Plain url_eth.
Proof. exact eth_path_only_eth_msgs. Qed.
Print Assumptions C15_eth_path_only_eth_msgs.

Theorem C15_no_options_rejects_eth : forall cfg md t o,
  t_opts t = [] -> contains_eth t -> exists r, ante cfg md t o = Reject r.
Proof. exact no_options_rejects_eth. Qed.
Print Assumptions C15_no_options_rejects_eth.

Theorem C15_several_options_rejected : forall cfg md t o,
  (2 <= length (t_opts t))%nat -> ante cfg md t o = Reject RExtMany.
Proof. exact several_options_rejected. Qed.
Print Assumptions C15_several_options_rejected.

Theorem C15_unknown_option_rejected : forall cfg md t o u,
  t_opts t = [u] -> u <> opt_eth -> u <> opt_web3 -> ante cfg md t o = Reject RExtUnknown.
Proof. exact unknown_option_rejected. Qed.
Print Assumptions C15_unknown_option_rejected.

(* Clause 3.  With fetchers configured, CheckTx and ReCheckTx accept only
   transactions with an authorised signer — on every path (the Ethereum chain
   has carried the AuthenticatedMempoolDecorator since the fix commit
   6d7d5e553; before it this statement was refuted by an Ethereum tx). *)
Theorem C15_mempool_gate : forall cfg md t o p,
  c_fetchers cfg = true -> (md = CheckTx \/ md = ReCheckTx) ->
  ante cfg md t o = Accept p ->
  exists s, In s (t_signers t) /\ In s (c_authorised cfg).
Proof. exact mempool_gate. Qed.
Print Assumptions C15_mempool_gate.

Theorem C15_mempool_gate_rejects_unauthorised : forall cfg md t o,
  c_fetchers cfg = true -> (md = CheckTx \/ md = ReCheckTx) ->
  (forall s, In s (t_signers t) -> ~ In s (c_authorised cfg)) ->
  exists r, ante cfg md t o = Reject r.
Proof. exact gate_rejects_unauthorised. Qed.
Print Assumptions C15_mempool_gate_rejects_unauthorised.

(* block execution (and simulation) is unaffected by the mempool configuration *)
Theorem C15_deliver_unaffected : forall cfg cfg' md t o,
  (md = DeliverTx \/ md = Simulate) -> ante cfg md t o = ante cfg' md t o.
Proof. exact gate_inactive_unaffected. Qed.
Print Assumptions C15_deliver_unaffected.

(* the gate rejects nothing else: with an authorised signer (or no fetchers)
   the verdict is the one of the unauthenticated configuration *)
Theorem C15_gate_transparent : forall cfg md t o,
  (c_fetchers cfg = false \/ exists s, In s (t_signers t) /\ In s (c_authorised cfg)) ->
  ante cfg md t o = ante (mkCfg false []) md t o.
Proof. exact gate_transparent. Qed.
Print Assumptions C15_gate_transparent.

(* Acceptance on the plain cosmos path characterised exactly: the gates are
   the only reasons to refuse (so the theorems above are not vacuous). *)
Theorem C15_cosmos_acceptance_characterised : forall cfg md msgs signers o,
  ante cfg md (mkTx msgs [] signers) o = Accept PCosmos <->
  (o_pre o = true /\ o_post o = true /\
   (forall top, In top msgs -> top <> Plain url_eth) /\
   (c_fetchers cfg = true -> (md = CheckTx \/ md = ReCheckTx) ->
      exists s, In s signers /\ In s (c_authorised cfg)) /\
   (forall top, In top msgs -> ~ In (msg_url top) vesting_types) /\
   (forall top, In top msgs ->
      (forall m, sub m top -> ~ In (msg_url m) disabled_types) /\
      (forall m tg, (m = top \/ sub m top) -> m = Grant tg -> ~ In tg disabled_types))).
Proof. exact cosmos_acceptance_characterised. Qed.
Print Assumptions C15_cosmos_acceptance_characterised.

Theorem C15_eth_acceptance_characterised : forall cfg md msgs signers o,
  ante cfg md (mkTx msgs [opt_eth] signers) o = Accept PEth <->
  (o_pre o = true /\ o_post o = true /\
   (forall top, In top msgs -> top = Plain url_eth) /\
   (c_fetchers cfg = true -> (md = CheckTx \/ md = ReCheckTx) ->
      exists s, In s signers /\ In s (c_authorised cfg))).
Proof. exact eth_acceptance_characterised. Qed.
Print Assumptions C15_eth_acceptance_characterised.

(* the boolean invariant evaluated on every step of the correspondence run *)
Theorem C15_inv_b_holds : forall cfg md t o, inv_b cfg md t o = true.
Proof. exact inv_b_holds. Qed.
Print Assumptions C15_inv_b_holds.

(** Non-vacuity witnesses (closed terms, vm_compute). *)

Definition send : msg := Plain "/cosmos.bank.v1beta1.MsgSend"%string.
Definition ok : oracle := mkOracle true true.

(* accepted: nested execs around allowed messages and an allowed grant *)
Example C15_ex_accept_nested :
  ante (mkCfg true [2%nat]) CheckTx
       (mkTx [Exec [send; Exec [Grant "/cosmos.bank.v1beta1.MsgSend"%string; Exec [send]]]; send] [] [1%nat; 2%nat]) ok
  = Accept PCosmos.
Proof. vm_compute. reflexivity. Qed.

(* rejected: blocked type after allowed siblings, three levels down *)
Example C15_ex_reject_deep :
  ante (mkCfg false []) DeliverTx
       (mkTx [send; Exec [send; Exec [send; Exec [send; Plain url_vest_periodic]]]] [] [0%nat]) ok
  = Reject RAuthz.
Proof. vm_compute. reflexivity. Qed.

(* rejected: grant of a blocked type nested in an exec *)
Example C15_ex_reject_grant_in_exec :
  ante (mkCfg false []) DeliverTx (mkTx [Exec [send; Grant url_eth]] [] [0%nat]) ok = Reject RAuthz.
Proof. vm_compute. reflexivity. Qed.

(* a blocked type at top level is not the authz decorator's business: the
   Ethereum message falls to RejectMessagesDecorator, vesting to its own *)
Example C15_ex_top_level :
  ante (mkCfg false []) DeliverTx (mkTx [Plain url_eth] [] [0%nat]) ok = Reject REthMsg /\
  ante (mkCfg false []) DeliverTx (mkTx [send; Plain url_vest_perm] [] [0%nat]) ok = Reject RVesting.
Proof. split; vm_compute; reflexivity. Qed.

(* the Ethereum path *)
Example C15_ex_eth_path :
  ante (mkCfg false []) DeliverTx (mkTx [Plain url_eth] [opt_eth] [6%nat]) ok = Accept PEth /\
  ante (mkCfg false []) DeliverTx (mkTx [Plain url_eth; send] [opt_eth] [6%nat]) ok = Reject REthPath /\
  ante (mkCfg false []) DeliverTx (mkTx [Plain url_eth] [opt_eth; opt_eth] [6%nat]) ok = Reject RExtMany /\
  ante (mkCfg false []) DeliverTx (mkTx [send] ["/ethermint.types.v1.ExtensionOptionDynamicFeeTx"%string] [0%nat]) ok = Reject RExtUnknown /\
  ante (mkCfg false []) DeliverTx (mkTx [Exec [Plain url_eth]] [opt_web3] [0%nat]) ok = Reject RAuthz.
Proof. repeat split; vm_compute; reflexivity. Qed.

(* the gate: same tx, authorised / unauthorised signer, CheckTx / ReCheckTx / DeliverTx / Simulate *)
Example C15_ex_gate :
  ante (mkCfg true [3%nat]) CheckTx (mkTx [send] [] [0%nat]) ok = Reject RMempool /\
  ante (mkCfg true [3%nat]) ReCheckTx (mkTx [send] [] [0%nat]) ok = Reject RMempool /\
  ante (mkCfg true [3%nat]) DeliverTx (mkTx [send] [] [0%nat]) ok = Accept PCosmos /\
  ante (mkCfg true [3%nat]) Simulate (mkTx [send] [] [0%nat]) ok = Accept PCosmos /\
  ante (mkCfg true [3%nat]) CheckTx (mkTx [send] [] [0%nat; 3%nat]) ok = Accept PCosmos /\
  ante (mkCfg true [3%nat]) CheckTx (mkTx [Plain url_eth] [opt_eth] [6%nat]) ok = Reject RMempool /\
  ante (mkCfg true [6%nat]) CheckTx (mkTx [Plain url_eth] [opt_eth] [6%nat]) ok = Accept PEth /\
  ante (mkCfg true [3%nat]) DeliverTx (mkTx [Plain url_eth] [opt_eth] [6%nat]) ok = Accept PEth.
Proof. repeat split; vm_compute; reflexivity. Qed.

(* the tables the model was proved against *)
Example C15_ex_tables :
  length chain_names = 18%nat /\ length eth_chain_names = 10%nat /\
  eth_chain false = [DEthSetUpContext; DEthMempoolFee; DEthValidateBasic; DEthSigVerification; DEthAccountVerification;
                     DCanTransfer; DEthGasConsume; DEthIncrementSenderSequence; DEthEmitEvent] /\
  nth 4 eth_chain_names ""%string = "[len(options.AddressFetchers) > 0]NewAuthenticatedMempoolDecorator"%string /\
  cosmos_chain false true =
    [DRejectMessages; DSetUpContext; DExtensionOptions; DAuthenticatedMempool; DEvmMinGasFilter;
     DVestingAccount; DAuthzLimiter; DValidateBasic; DTxTimeoutHeight; DValidateMemo;
     DConsumeGasForTxSize; DDeductFee; DSetPubKey; DValidateSigCount; DSigGasConsume;
     DSigVerification; DIncrementSequence; DRedundantRelay].
Proof. repeat split; vm_compute; reflexivity. Qed.
