(* C04 — CDP: collateral custody, stablecoin/debt accounting and indexes stay coherent.
   Property theorems only; proofs are in Proofs/CdpInv.v and Proofs/Cdp.v.

   [key_ok s]: every stored cdp record sits under its own (type, id).
   [ridx_ok e s]: for every collateral type the ratio index has no duplicate and contains
   (r, id) exactly when a cdp id of that type is stored and r is the (clipped)
   collateral:debt ratio recomputed from the STORED record — "indexed exactly once under
   its current collateral-to-debt ratio". *)
From Kava Require Import Base.Prelude Base.Dec Model.Cdp Proofs.CdpRatio Proofs.Cdp Proofs.CdpInv Proofs.CdpInv2 Proofs.CdpInv3 Proofs.CdpCust Proofs.CdpDebt Proofs.CdpOwn Proofs.CdpPrin Proofs.CdpClose Proofs.CdpTotalA Proofs.CdpTotalI Proofs.CdpTotalB Proofs.CdpTotal.

(** ** The ratio index along the code paths that rewrite it *)

(* UpdateCdpAndCollateralRatioIndex (used by deposit, withdraw, draw, partial repay, interest
   synchronisation and the keeper reward): removing the key recomputed from the stored record
   and inserting the key of the new record keeps the index exact. *)
Theorem C04_ratio_index_update :
  forall e s cp c s' u, key_ok s -> ridx_ok e s -> get_cp e (c_type c) = Some cp ->
  update_cdp e s cp c (cdp_ratio e cp c) = Ok s' u -> key_ok s' /\ ridx_ok e s'.
Proof. exact update_cdp_idx. Qed.
Print Assumptions C04_ratio_index_update.

(* SynchronizeInterest (all four branches, including the ones that only rewrite FeesUpdated). *)
Theorem C04_ratio_index_sync :
  forall e s cp c s1 c1, key_ok s -> ridx_ok e s -> get_cp e (c_type c) = Some cp ->
  cdps s (c_type c) (c_id c) = Some c -> sync_interest e s cp c = Ok s1 c1 ->
  key_ok s1 /\ ridx_ok e s1 /\ cdps s1 (c_type c1) (c_id c1) = Some c1.
Proof. exact sync_interest_idx. Qed.
Print Assumptions C04_ratio_index_sync.

(* SynchronizeInterestForRiskyCDPs — the bulk path of the begin blocker that deletes and sets the
   index keys by hand instead of going through the keeper helpers — for any number of cdps. *)
Theorem C04_ratio_index_bulk_sync :
  forall e s t cp s' u, key_ok s -> ridx_ok e s -> get_cp e t = Some cp ->
  sync_risky e s t cp = Ok s' u -> key_ok s' /\ ridx_ok e s'.
Proof. exact sync_risky_idx. Qed.
Print Assumptions C04_ratio_index_bulk_sync.

(* Creation inserts, close and seizure remove exactly the cdp's entry. *)
Theorem C04_ratio_index_insert :
  forall e s cp c, key_ok s -> ridx_ok e s -> get_cp e (c_type c) = Some cp ->
  (forall t, cdps s t (c_id c) = None) ->
  let s' := ridx_ins (put_cdp s c) (c_type c) (cdp_ratio e cp c) (c_id c) in key_ok s' /\ ridx_ok e s'.
Proof. exact insert_new_ok. Qed.
Print Assumptions C04_ratio_index_insert.

Theorem C04_ratio_index_remove :
  forall e s cp c, key_ok s -> ridx_ok e s -> get_cp e (c_type c) = Some cp ->
  cdps s (c_type c) (c_id c) = Some c ->
  let s' := del_cdp (ridx_del s (c_type c) (cdp_ratio e cp c) (c_id c)) c in key_ok s' /\ ridx_ok e s'.
Proof. exact remove_ok. Qed.
Print Assumptions C04_ratio_index_remove.

(* Whole operations and whole histories.  [IdxInv e s] = key_ok s /\ ridx_ok e s /\ no cdp is stored at or
   above the next id.  Every operation keeps it: create, deposit (owner or third party), withdraw, draw,
   repay (partial, exact, over-payment, including the close of a fully repaid cdp), keeper liquidation
   (interest synchronisation, keeper reward, seizure) and the begin blocker (market status, interest
   accumulation, the hand-written bulk synchronisation, the liquidation pass over several cdps, surplus
   and debt auctions).  Hence, by induction over the operation list, every history of any length from a
   state satisfying it (e.g. genesis) ends in a state satisfying it. *)
Theorem C04_ratio_index_step :
  forall e s o s' u, IdxInv e s -> step e s o = Ok s' u -> IdxInv e s'.
Proof. exact step_IdxInv. Qed.
Print Assumptions C04_ratio_index_step.

Theorem C04_ratio_index_all_histories :
  forall e ops s, IdxInv e s -> IdxInv e (run e s ops).
Proof. exact run_IdxInv. Qed.
Print Assumptions C04_ratio_index_all_histories.

Theorem C04_genesis_IdxInv :
  forall e bals sups prices status ifacs ptimes startid t h,
  IdxInv e (mk_state bals sups prices status ifacs ptimes startid t h).
Proof.
  intros. destruct (init_idx_ok e bals sups prices status ifacs ptimes startid t h) as [A B].
  split; [exact A|split; [exact B|]]. intros t0 id c H. cbn in H. discriminate.
Qed.
Print Assumptions C04_genesis_IdxInv.

(** ** Custody: module balance = recorded collateral, cdp collateral = sum of its deposits, no orphan deposit *)
(* [CustInv e s] (Proofs/CdpCust.v):
   - every stored cdp's collateral equals the sum of its deposits, its type is a configured collateral
     type and its id is below the next id;
   - a cdp id is used by one collateral type only;
   - every deposit record is non-negative, belongs to one of the users and to a stored cdp;
   - for every collateral denom the cdp module account holds exactly custody' = the sum of the
     collateral of all stored cdps of the types with that denom (hence, with the first two items,
     exactly the sum of all recorded deposits of that collateral).
   [env_wf]: the stable and the debt denom are not collateral denoms; [params_ok]: keeper reward
   percentages are not negative (both enforced by the parameter validation of the module).
   Every operation — create, deposit, withdraw, draw, repay incl. close, keeper liquidation, begin
   blocker with interest accumulation, bulk synchronisation, liquidation pass and auctions — keeps
   IdxInv /\ CustInv; hence every history of any length does. *)
Theorem C04_custody_step :
  forall e s o s' u, env_wf e -> params_ok e -> Inv2 e s -> step e s o = Ok s' u -> Inv2 e s'.
Proof. exact step_Inv2. Qed.
Print Assumptions C04_custody_step.

Theorem C04_custody_all_histories :
  forall e ops, env_wf e -> params_ok e -> forall s, Inv2 e s -> Inv2 e (run e s ops).
Proof. exact run_Inv2. Qed.
Print Assumptions C04_custody_all_histories.

(* genesis (no cdps, the module account holds no collateral) satisfies the custody invariant *)
Theorem C04_genesis_custody :
  forall e bals sups prices status ifacs ptimes startid t h,
  (forall t0 cp, get_cp e t0 = Some cp -> nthZ (nth (CDPM e) bals []) (cp_denom cp) = 0) ->
  CustInv e (mk_state bals sups prices status ifacs ptimes startid t h).
Proof. exact init_CustInv. Qed.
Print Assumptions C04_genesis_custody.

(** ** Owner index: every cdp is listed exactly once, under its owner *)
(* [OwnInv s] (Proofs/CdpOwn.v): for every owner the id list has no duplicate and contains id exactly
   when a cdp with that id and that owner is stored (under some collateral type).
   [Inv3 e s] = IdxInv e s /\ CustInv e s /\ OwnInv s: both indexes and custody together; every
   operation keeps it, hence every history does. *)
Theorem C04_invariant_step :
  forall e s o s' u, env_wf e -> params_ok e -> Inv3 e s -> step e s o = Ok s' u -> Inv3 e s'.
Proof. exact step_Inv3. Qed.
Print Assumptions C04_invariant_step.

Theorem C04_invariant_all_histories :
  forall e ops, env_wf e -> params_ok e -> forall s, Inv3 e s -> Inv3 e (run e s ops).
Proof. exact run_Inv3. Qed.
Print Assumptions C04_invariant_all_histories.

Theorem C04_genesis_owner_index :
  forall bals sups prices status ifacs ptimes startid t h,
  OwnInv (mk_state bals sups prices status ifacs ptimes startid t h).
Proof. exact init_OwnInv. Qed.
Print Assumptions C04_genesis_owner_index.

(** ** Stable / debt accounting *)
(* [debt_held e s] = debt coins in the cdp, liquidator and auction module accounts.
   Every operation keeps (debt supply - debt_held) unchanged and does not increase
   (stable supply - debt supply): stable and debt coins are minted together (create, draw, interest
   accumulation) and burned together (repay — where the debt burn is capped by the module's debt
   balance, so the debt side can only lag —, netting of surplus against debt).  Hence along every
   history: the debt coin exists only in the three module accounts, and the stable coin issued by the
   module (supply minus the genesis supply usdx0) never exceeds it. *)
Theorem C04_debt_step :
  forall e s o s' u, denoms_ok e -> env_wf e -> step e s o = Ok s' u ->
  sup s' (d_debt e) - debt_held e s' = sup s (d_debt e) - debt_held e s /\
  sup s' (d_usdx e) - sup s' (d_debt e) <= sup s (d_usdx e) - sup s (d_debt e).
Proof. exact dm_step. Qed.
Print Assumptions C04_debt_step.

Theorem C04_debt_all_histories :
  forall e usdx0 ops s, denoms_ok e -> env_wf e ->
  sup s (d_debt e) = debt_held e s /\ sup s (d_usdx e) - usdx0 <= debt_held e s ->
  let s' := run e s ops in
  sup s' (d_debt e) = debt_held e s' /\ sup s' (d_usdx e) - usdx0 <= debt_held e s'.
Proof. intros e usdx0 ops s Hd Hw H. exact (DebtInv_run e usdx0 ops s Hd Hw H). Qed.
Print Assumptions C04_debt_all_histories.

(** ** Total principal moves with the debt of the cdps (exact, per operation) *)
(* The per-operation bookkeeping (create, draw, seizure, repay, interest accumulation) is exact; the clause
   "total principal = sum of cdp debt up to interest rounding" over whole histories is proved further below
   ([C04_total_principal_all_histories]). *)
Theorem C04_total_principal_create :
  forall e s o t cd coll pd prin s' u, create e s o t cd coll pd prin = Ok s' u ->
  tprin s' t = tprin s t + prin /\ (forall t', t' <> t -> tprin s' t' = tprin s t').
Proof. exact create_tprin. Qed.
Print Assumptions C04_total_principal_create.

Theorem C04_total_principal_draw :
  forall e s o t pd x s' u, draw e s o t pd x = Ok s' u ->
  tprin s' t = tprin s t + x /\ (forall t', t' <> t -> tprin s' t' = tprin s t') /\
  exists cp c0 s1 c, find_cdp e s o t = Some c0 /\ sync_interest e s cp c0 = Ok s1 c /\
    cdps s' (c_type c) (c_id c) = Some (with_prin c (c_prin c + x)).
Proof. exact draw_tprin. Qed.
Print Assumptions C04_total_principal_draw.

Theorem C04_total_principal_seize :
  forall e s cp c s' u, seize e s cp c = Ok s' u ->
  tprin s' (c_type c) = Z.max (tprin s (c_type c) - cdp_debt c) 0 /\
  (forall t', t' <> c_type c -> tprin s' t' = tprin s t').
Proof. exact seize_tprin. Qed.
Print Assumptions C04_total_principal_seize.

Theorem C04_total_principal_repay :
  forall e s o t pd x s' u, repay e s o t pd x = Ok s' u ->
  exists cp c0 s1 c, find_cdp e s o t = Some c0 /\ get_cp e t = Some cp /\ sync_interest e s cp c0 = Ok s1 c /\
    let paid := fst (calc_payment (cdp_debt c) (c_fees c) x) + snd (calc_payment (cdp_debt c) (c_fees c) x) in
    tprin s' t = Z.max (tprin s t - paid) 0 /\ (forall t', t' <> t -> tprin s' t' = tprin s t') /\
    (cdps s' (c_type c) (c_id c) = None \/
     exists c', cdps s' (c_type c) (c_id c) = Some c' /\ cdp_debt c' = cdp_debt c - paid).
Proof. exact repay_tprin. Qed.
Print Assumptions C04_total_principal_repay.

(* AccumulateInterest: the total principal and the debt coin of the cdp module grow by the same amount *)
Theorem C04_total_principal_accumulate :
  forall e s t cp,
  let s' := accumulate_interest e s t cp in
  let acc := tprin s' t - tprin s t in
  0 <= acc -> bal s' (CDPM e) (d_debt e) = bal s (CDPM e) (d_debt e) + acc \/ acc = 0.
Proof. exact accumulate_tprin. Qed.
Print Assumptions C04_total_principal_accumulate.

(** ** Total principal = sum of cdp debt up to interest rounding, over all histories *)
(* [ssum s t] (Proofs/CdpTotalI.v): the sum over the stored cdps of type t of [debt_at (gfac s t) c] =
   RoundInt((principal + fees) * (globalFactor / cdpFactor)), the debt SynchronizeInterest would store
   (CalculateNewInterest, with the Dec quotient and product rounded as the library rounds them);
   [gfac s t] the global interest factor of the type (one while unset).
   [PInv s] = every stored cdp has non-negative principal and fees, its interest factor lies between one and
   the global factor, and it is either AT the global factor or was last touched before the type's accrual
   time (so the next SynchronizeInterest does not skip it); global factors >= 1 and accrual times not in
   the future; the ratio index lists are sorted.
   [hist_ok e s ops]: every block advances the clock (dt > 0), and no cdp's debt, brought up to the factor
   an operation leaves behind, reaches 10^18 stable coins in base units (types.MaxSortableDec; above it the
   index key no longer falls with the debt and LiquidateCdps could seize a cdp the bulk synchronisation did not reach).
   [fees_ok e]: stability fees >= 1 (enforced by the parameter validation).
   [ghostN e s ops t N]: the count of roundings, a history variable: it grows only at an operation (a block)
   that changes the type's interest factor — i.e. in which AccumulateInterest accrued — and then by
   (stored cdps of the type) + 1 + (4 * stored debt + N) / 10^18 (the last term is 0 below 10^17 units).
   Theorem: |total principal - synchronised debt| * 10^18 <= (global factor) * N along every history.
   Only AccumulateInterest moves the difference (it rounds the interest on the total once, each cdp rounds
   its own later, and the factor product and the factor quotient are rounded to 18 decimals); create, draw,
   repay, deposit, withdraw, keeper liquidation, SynchronizeInterest, the bulk synchronisation and the
   liquidation pass keep it exactly (or shrink it where the total is clipped at zero).  The cdps seized by
   LiquidateCdps are proved to be among those the bulk synchronisation of the same block brought up to date. *)
Theorem C04_total_principal_all_histories :
  forall e, env_wf e -> params_ok e -> fees_ok e ->
  forall ops s, Inv3 e s -> PInv s -> hist_ok e s ops ->
  forall t N, 0 <= N -> Z.abs (tprin s t - ssum s t) * PREC <= gfac s t * N ->
  let s' := run e s ops in
  Z.abs (tprin s' t - ssum s' t) * PREC <= gfac s' t * ghostN e s ops t N.
Proof. exact total_principal_bound_abs. Qed.
Print Assumptions C04_total_principal_all_histories.

(* the state invariant behind it holds along every such history *)
Theorem C04_total_principal_invariant :
  forall e, env_wf e -> params_ok e -> fees_ok e ->
  forall ops s, Inv3 e s -> PInv s -> hist_ok e s ops -> PInv (run e s ops).
Proof. exact total_principal_PInv. Qed.
Print Assumptions C04_total_principal_invariant.

(* one operation: message-level operations keep the interest factors and do not increase the difference *)
Theorem C04_total_principal_message_ops :
  forall e s o s' u, IdxInv e s -> PInv s -> step e s o = Ok s' u ->
  (forall dt prices, o <> Block dt prices) ->
  (forall t, gfac s' t = gfac s t) /\
  forall t, Z.abs (tprin s' t - ssum s' t) <= Z.abs (tprin s t - ssum s t).
Proof. exact message_ops_keep_drift. Qed.
Print Assumptions C04_total_principal_message_ops.

(* genesis satisfies the hypotheses with a count of zero *)
Theorem C04_genesis_total_principal :
  forall bals sups prices status ifacs ptimes startid t h,
  (forall i, match nthO ifacs i with Some g => PREC <= g | None => True end) ->
  (forall i p, nthO ptimes i = Some p -> p <= t) ->
  let s := mk_state bals sups prices status ifacs ptimes startid t h in
  PInv s /\ forall t0, Z.abs (tprin s t0 - ssum s t0) * PREC <= gfac s t0 * 0.
Proof. exact init_total_principal. Qed.
Print Assumptions C04_genesis_total_principal.

(** ** Closing returns to every depositor exactly what they deposited *)
(* ReturnCollateral: each depositor's balance of the collateral denom grows by exactly the recorded
   deposit, nothing else moves, the module account pays exactly the sum of the deposits, the
   deposit records of the cdp are deleted and no other deposit is touched. *)
Theorem C04_close_returns_deposits :
  forall e s cp c s' u, return_collateral e s cp c = Ok s' u ->
  (forall w a, deps s (c_id c) w = Some a -> 0 <= a) ->
  cdps s' = cdps s /\ oidx s' = oidx s /\ ridx s' = ridx s /\ sup s' = sup s /\
  (forall w, (w < nusers e)%nat ->
     bal s' w (cp_denom cp) = bal s w (cp_denom cp) + oz0 (deps s (c_id c) w) /\ deps s' (c_id c) w = None) /\
  (forall w d, (w < nusers e)%nat -> d <> cp_denom cp -> bal s' w d = bal s w d) /\
  bal s' (CDPM e) (cp_denom cp) = bal s (CDPM e) (cp_denom cp) - dep_total e s (c_id c) /\
  (forall i w, i <> c_id c -> deps s' i w = deps s i w).
Proof. exact return_collateral_spec. Qed.
Print Assumptions C04_close_returns_deposits.

(* ... and at message level: a repayment after which the cdp is gone (exact payment or over-payment)
   has paid every depositor exactly the recorded deposit and deleted the deposit records. *)
Theorem C04_repay_close_returns_deposits :
  forall e s o t pd x s' u c0 cp, env_wf e -> IdxInv e s -> CustInv e s ->
  repay e s o t pd x = Ok s' u -> find_cdp e s o t = Some c0 -> get_cp e t = Some cp ->
  cdps s' (c_type c0) (c_id c0) = None ->
  forall w, (w < nusers e)%nat ->
    bal s' w (cp_denom cp) = bal s w (cp_denom cp) + oz0 (deps s (c_id c0) w) /\ deps s' (c_id c0) w = None.
Proof. exact repay_close. Qed.
Print Assumptions C04_repay_close_returns_deposits.

(** ** Seizure hands over exactly the deposits and removes the position (custody side of C05_seizure_whole) *)
Theorem C04_seizure_removes_position :
  forall e s cp c s' u, seize e s cp c = Ok s' u ->
  (forall w a, deps s (c_id c) w = Some a -> 0 <= a) -> 0 < cp_asize cp ->
  0 <= cdp_debt c -> 0 <= bal s (CDPM e) (d_debt e) ->
  cdps s' = upd2 (cdps s) (c_type c) (c_id c) None /\
  (forall w, (w < nusers e)%nat -> deps s' (c_id c) w = None) /\
  (forall i w, i <> c_id c -> deps s' i w = deps s i w) /\
  oidx s' = upd (oidx s) (c_owner c) (filter (fun x => negb (Nat.eqb x (c_id c))) (oidx s (c_owner c))) /\
  ridx s' = upd (ridx s) (c_type c) (ent_del (rkey (cdp_ratio e cp c), c_id c) (ridx s (c_type c))).
Proof.
  intros e s cp c s' u H H1 H2 H3 H4.
  destruct (seize_spec _ _ _ _ _ _ H H1 H2 H3 H4) as (A & B & C & D & E & _). auto.
Qed.
Print Assumptions C04_seizure_removes_position.

(** ** Failed operations change nothing *)
Theorem C04_failed_changes_nothing :
  forall e s o, (forall s' u, step e s o <> Ok s' u) -> step' e s o = s.
Proof.
  intros e s o H. unfold step'. destruct (step e s o) as [s' u| |] eqn:E; auto.
  exfalso. exact (H s' u eq_refl).
Qed.
Print Assumptions C04_failed_changes_nothing.

(** ** Non-vacuity *)
(* the genesis state satisfies the index invariants *)
Theorem C04_genesis_indexes_ok :
  forall e bals sups prices status ifacs ptimes startid t h,
  let s := mk_state bals sups prices status ifacs ptimes startid t h in key_ok s /\ ridx_ok e s.
Proof. exact init_idx_ok. Qed.
Print Assumptions C04_genesis_indexes_ok.

(* a history with creation, third-party deposit, partial repay, interest over a day, draw, withdrawal and a close that
   returns two deposits: the boolean invariant (custody, cdp collateral = deposits, both indexes, debt
   accounting) holds at the end, the cdp is gone and the third party got its deposit back *)
Definition x_env : env :=
  mkEnv 4 5 4 [mkCP 0 1500000000000000000 100000000000000 1000000001547125958 10000000 50000000000000000 0 1 10000000000000000 10 8;
               mkCP 0 2000000000000000000 100000000000000 1000000051034942716 10000000 50000000000000000 0 1 10000000000000000 10 8;
               mkCP 4 1500000000000000000 100000000000000 1000000001547125958 10000000 50000000000000000 2 3 10000000000000000 10 6]
        3 1 2 6 1 400000000000000 500000000000 10000000000 100000000000 10000000000 1.
Definition x_s0 : state :=
  mk_state [[100000000000000; 0; 1000000000; 2000000000000; 100000000000000]; [100000000000000; 0; 1000000000; 2000000000000; 100000000000000];
            [100000000000000; 0; 1000000000; 2000000000000; 100000000000000]; [100000000000000; 0; 1000000000; 2000000000000; 100000000000000];
            [0; 0; 0; 0; 0]; [0; 0; 0; 0; 0]; [0; 0; 0; 0; 0]]
           [400000000000000; 0; 100004001000000; 8000000000000; 400000000000000]
           [17250000000000000000; 17250000000000000000; 500000000000000000; 500000000000000000] [true; true; true; true]
           [1000000000000000000; 1000000000000000000; 1000000000000000000]
           [1704067200000000000; 1704067200000000000; 1704067200000000000] 1 1704067200000000000 1.
Example C04_env_hypotheses_satisfiable : env_wf x_env /\ params_ok x_env /\ denoms_ok x_env /\ Inv3 x_env x_s0.
Proof.
  assert (G : forall t cp, get_cp x_env t = Some cp -> (cp_denom cp = 0%nat \/ cp_denom cp = 4%nat) /\ 0 <= cp_reward cp).
  { intros t cp H. destruct t as [|[|[|t]]]; cbn in H; try (inversion H; subst; cbn; split; [auto|lia]). destruct t; discriminate. }
  split; [|split; [|split; [|split; [|split]]]].
  - intros t cp H. destruct (G t cp H) as [[D|D] _]; rewrite D; cbn; split; discriminate.
  - intros t cp H. apply (G t cp H).
  - cbn. discriminate.
  - apply C04_genesis_IdxInv.
  - apply C04_genesis_custody. intros t cp H. destruct (G t cp H) as [[D|D] _]; rewrite D; reflexivity.
  - apply C04_genesis_owner_index.
Qed.

Example C04_nonvacuous :
  let s1 := run x_env x_s0 [Create 0 2 4 60000000 3 10000000; Deposit 0 1 2 4 7000000; Repay 0 2 3 4000000;
                            Block 86400000000000 []; Draw 0 2 3 1000; Withdraw 0 0 2 4 1000000] in
  let s2 := step' x_env s1 (Repay 0 2 3 900000000) in
  inv_b x_env 8000000000000 s1 = true /\ inv_b x_env 8000000000000 s2 = true /\
  (match cdps s1 2 1 with Some c => 0 <? c_fees c | None => false end) = true /\
  cdps s2 2 1 = None /\ bal s2 1 4 = bal x_s0 1 4 /\ bal s2 0 4 = bal x_s0 0 4.
Proof. vm_compute. repeat split; reflexivity. Qed.

(** ** Non-vacuity of the total-principal bound *)
(* same parameters with a liquidation interval of 1000 blocks, so that the begin blocker accrues interest on
   the total every block while the cdp itself is not synchronised *)
Definition x_env2 : env :=
  mkEnv 4 5 4 [mkCP 0 1500000000000000000 100000000000000 1000000001547125958 10000000 50000000000000000 0 1 10000000000000000 10 8;
               mkCP 0 2000000000000000000 100000000000000 1000000051034942716 10000000 50000000000000000 0 1 10000000000000000 10 8;
               mkCP 4 1500000000000000000 100000000000000 1000000001547125958 10000000 50000000000000000 2 3 10000000000000000 10 6]
        3 1 2 6 1 400000000000000 500000000000 10000000000 100000000000 10000000000 1000.
(* one cdp with the smallest permitted debt (10 stable coins), then forty blocks 33 s apart *)
Definition x_hist : list op := Create 0 2 4 60000000 3 10000000 :: repeat (Block 33000000000 []) 40.

Lemma x_env2_ok : env_wf x_env2 /\ params_ok x_env2 /\ fees_ok x_env2 /\ Inv3 x_env2 x_s0 /\ PInv x_s0.
Proof.
  assert (G : forall t cp, get_cp x_env2 t = Some cp -> (cp_denom cp = 0%nat \/ cp_denom cp = 4%nat) /\ 0 <= cp_reward cp /\ PREC <= cp_fee cp).
  { intros t cp H. destruct t as [|[|[|t]]]; cbn in H; try (inversion H; subst; cbn; split; [auto|split; [lia|unfold PREC; lia]]). destruct t; discriminate. }
  split; [|split; [|split; [|split; [split; [|split]|]]]].
  - intros t cp H. destruct (G t cp H) as [[D|D] _]; rewrite D; cbn; split; discriminate.
  - intros t cp H. apply (G t cp H).
  - intros t cp H. apply (G t cp H).
  - apply C04_genesis_IdxInv.
  - apply C04_genesis_custody. intros t cp H. destruct (G t cp H) as [[D|D] _]; rewrite D; reflexivity.
  - apply C04_genesis_owner_index.
  - apply init_PInv.
    + intros i. destruct i as [|[|[|i]]]; cbn; try (unfold PREC; lia). destruct i; exact I.
    + intros i p. destruct i as [|[|[|i]]]; cbn; try (intros E; inversion E; lia). destruct i; discriminate.
Qed.

(* the hypotheses of the theorem are satisfiable on a history with interest *)
Example C04_total_principal_hypotheses_satisfiable : hist_ok x_env2 x_s0 x_hist.
Proof.
  destruct x_env2_ok as (A & B & _ & D & _). apply (hist_ok_b_sound x_env2 A B x_hist x_s0 D). vm_compute. reflexivity.
Qed.

(* ... on which the difference is NOT zero: every block rounds the interest on the total (one half of a micro
   coin of true interest becomes a whole one), the cdp's own debt is rounded once; after 40 blocks the total
   principal is 10000040, the synchronised debt 10000020, the count 80 (two per accumulation) *)
Example C04_total_principal_drift_nonzero :
  let s := run x_env2 x_s0 x_hist in
  tprin s 2 = 10000040 /\ ssum s 2 = 10000020 /\ ghostN x_env2 x_s0 x_hist 2 0 = 80 /\
  Z.abs (tprin s 2 - ssum s 2) * PREC <= gfac s 2 * ghostN x_env2 x_s0 x_hist 2 0.
Proof. vm_compute. repeat split; try reflexivity. discriminate. Qed.

(* the difference grows with the number of accumulations (here about one half per block), so a bound that
   does not count them cannot hold: after 200 blocks it is 98 *)
Example C04_total_principal_drift_grows :
  let s := run x_env2 x_s0 (Create 0 2 4 60000000 3 10000000 :: repeat (Block 33000000000 []) 200) in
  tprin s 2 - ssum s 2 = 98.
Proof. vm_compute. reflexivity. Qed.

(* The guard "blocks advance the clock" is needed, in the model as in the code: SynchronizeInterest skips a cdp
   whose interest rounds to zero and whose FeesUpdated EQUALS the previous accrual time.  If two blocks carry
   the same time (second block below: dt = 0) and the first did not accrue (interest on the small total
   rounded to zero, so the accrual time stayed behind), a cdp created in between gets FeesUpdated = the accrual
   time the second block sets, keeps its old interest factor through the draw (the skip), and the principal
   drawn is later charged interest from before it was drawn: total principal and synchronised debt differ by
   30942 while the count is 3.  CometBFT block times are strictly increasing, so this history cannot occur on a
   chain; with dt > 0 everywhere the theorem above applies. *)
Definition x_same_time : list op :=
  [Create 0 2 4 60000000 3 10000000; Block 20000000000 []; Create 1 2 4 60000000000000 3 10000000;
   Block 0 []; Draw 1 2 3 1000000000000].
Example C04_total_principal_same_time_blocks_refuted :
  exists ops, (forall dt pr, In (Block dt pr) ops -> 0 <= dt) /\
    let s := run x_env2 x_s0 ops in
    tprin s 2 - ssum s 2 = -30942 /\
    gfac s 2 * ghostN x_env2 x_s0 ops 2 0 < Z.abs (tprin s 2 - ssum s 2) * PREC.
Proof.
  exists x_same_time. split.
  - intros dt pr H. cbn in H. repeat destruct H as [H|H]; try discriminate; try contradiction; inversion H; lia.
  - vm_compute. split; reflexivity.
Qed.
