(* C04 — CDP: collateral custody, stablecoin/debt accounting and indexes stay coherent.
   Property theorems only; proofs are in Proofs/CdpInv.v and Proofs/Cdp.v.

   [key_ok s]: every stored cdp record sits under its own (type, id).
   [ridx_ok e s]: for every collateral type the ratio index has no duplicate and contains
   (r, id) exactly when a cdp id of that type is stored and r is the (clipped)
   collateral:debt ratio recomputed from the STORED record — "indexed exactly once under
   its current collateral-to-debt ratio". *)
From Kava Require Import Base.Prelude Base.Dec Model.Cdp Proofs.CdpRatio Proofs.Cdp Proofs.CdpInv Proofs.CdpInv2 Proofs.CdpInv3 Proofs.CdpCust Proofs.CdpDebt Proofs.CdpOwn Proofs.CdpPrin Proofs.CdpClose.

(** ** The ratio index along the code paths that rewrite it *)

(* UpdateCdpAndCollateralRatioIndex (used by deposit, withdraw, draw, partial repay, interest
   synchronisation and the keeper reward): removing the key recomputed from the stored record
   and inserting the key of the new record keeps the index exact. *)
Theorem C04_ratio_index_update :
  forall e s cp c s' u, key_ok s -> ridx_ok e s -> get_cp e (c_type c) = Some cp ->
  update_cdp e s cp c (cdp_ratio e cp c) = Ok s' u -> key_ok s' /\ ridx_ok e s'.
Proof. exact update_cdp_idx. Qed.
Print Assumptions C04_ratio_index_update.

(* SynchronizeInterest (all four branches, including the ones that only rewrite FeesUpdated). *)
Theorem C04_ratio_index_sync :
  forall e s cp c s1 c1, key_ok s -> ridx_ok e s -> get_cp e (c_type c) = Some cp ->
  cdps s (c_type c) (c_id c) = Some c -> sync_interest e s cp c = Ok s1 c1 ->
  key_ok s1 /\ ridx_ok e s1 /\ cdps s1 (c_type c1) (c_id c1) = Some c1.
Proof. exact sync_interest_idx. Qed.
Print Assumptions C04_ratio_index_sync.

(* SynchronizeInterestForRiskyCDPs — the bulk path of the begin blocker that deletes and sets the
   index keys by hand instead of going through the keeper helpers — for any number of cdps. *)
Theorem C04_ratio_index_bulk_sync :
  forall e s t cp s' u, key_ok s -> ridx_ok e s -> get_cp e t = Some cp ->
  sync_risky e s t cp = Ok s' u -> key_ok s' /\ ridx_ok e s'.
Proof. exact sync_risky_idx. Qed.
Print Assumptions C04_ratio_index_bulk_sync.

(* Creation inserts, close and seizure remove exactly the cdp's entry. *)
Theorem C04_ratio_index_insert :
  forall e s cp c, key_ok s -> ridx_ok e s -> get_cp e (c_type c) = Some cp ->
  (forall t, cdps s t (c_id c) = None) ->
  let s' := ridx_ins (put_cdp s c) (c_type c) (cdp_ratio e cp c) (c_id c) in key_ok s' /\ ridx_ok e s'.
Proof. exact insert_new_ok. Qed.
Print Assumptions C04_ratio_index_insert.

Theorem C04_ratio_index_remove :
  forall e s cp c, key_ok s -> ridx_ok e s -> get_cp e (c_type c) = Some cp ->
  cdps s (c_type c) (c_id c) = Some c ->
  let s' := del_cdp (ridx_del s (c_type c) (cdp_ratio e cp c) (c_id c)) c in key_ok s' /\ ridx_ok e s'.
Proof. exact remove_ok. Qed.
Print Assumptions C04_ratio_index_remove.

(* Whole operations and whole histories.  [IdxInv e s] = key_ok s /\ ridx_ok e s /\ no cdp is stored at or
   above the next id.  Every operation keeps it: create, deposit (owner or third party), withdraw, draw,
   repay (partial, exact, over-payment, including the close of a fully repaid cdp), keeper liquidation
   (interest synchronisation, keeper reward, seizure) and the begin blocker (market status, interest
   accumulation, the hand-written bulk synchronisation, the liquidation pass over several cdps, surplus
   and debt auctions).  Hence, by induction over the operation list, every history of any length from a
   state satisfying it (e.g. genesis) ends in a state satisfying it. *)
Theorem C04_ratio_index_step :
  forall e s o s' u, IdxInv e s -> step e s o = Ok s' u -> IdxInv e s'.
Proof. exact step_IdxInv. Qed.
Print Assumptions C04_ratio_index_step.

Theorem C04_ratio_index_all_histories :
  forall e ops s, IdxInv e s -> IdxInv e (run e s ops).
Proof. exact run_IdxInv. Qed.
Print Assumptions C04_ratio_index_all_histories.

Theorem C04_genesis_IdxInv :
  forall e bals sups prices status ifacs ptimes startid t h,
  IdxInv e (mk_state bals sups prices status ifacs ptimes startid t h).
Proof.
  intros. destruct (init_idx_ok e bals sups prices status ifacs ptimes startid t h) as [A B].
  split; [exact A|split; [exact B|]]. intros t0 id c H. cbn in H. discriminate.
Qed.
Print Assumptions C04_genesis_IdxInv.

(** ** Custody: module balance = recorded collateral, cdp collateral = sum of its deposits, no orphan deposit *)
(* [CustInv e s] (Proofs/CdpCust.v):
   - every stored cdp's collateral equals the sum of its deposits, its type is a configured collateral
     type and its id is below the next id;
   - a cdp id is used by one collateral type only;
   - every deposit record is non-negative, belongs to one of the users and to a stored cdp;
   - for every collateral denom the cdp module account holds exactly custody' = the sum of the
     collateral of all stored cdps of the types with that denom (hence, with the first two items,
     exactly the sum of all recorded deposits of that collateral).
   [env_wf]: the stable and the debt denom are not collateral denoms; [params_ok]: keeper reward
   percentages are not negative (both enforced by the parameter validation of the module).
   Every operation — create, deposit, withdraw, draw, repay incl. close, keeper liquidation, begin
   blocker with interest accumulation, bulk synchronisation, liquidation pass and auctions — keeps
   IdxInv /\ CustInv; hence every history of any length does. *)
Theorem C04_custody_step :
  forall e s o s' u, env_wf e -> params_ok e -> Inv2 e s -> step e s o = Ok s' u -> Inv2 e s'.
Proof. exact step_Inv2. Qed.
Print Assumptions C04_custody_step.

Theorem C04_custody_all_histories :
  forall e ops, env_wf e -> params_ok e -> forall s, Inv2 e s -> Inv2 e (run e s ops).
Proof. exact run_Inv2. Qed.
Print Assumptions C04_custody_all_histories.

(* genesis (no cdps, the module account holds no collateral) satisfies the custody invariant *)
Theorem C04_genesis_custody :
  forall e bals sups prices status ifacs ptimes startid t h,
  (forall t0 cp, get_cp e t0 = Some cp -> nthZ (nth (CDPM e) bals []) (cp_denom cp) = 0) ->
  CustInv e (mk_state bals sups prices status ifacs ptimes startid t h).
Proof. exact init_CustInv. Qed.
Print Assumptions C04_genesis_custody.

(** ** Owner index: every cdp is listed exactly once, under its owner *)
(* [OwnInv s] (Proofs/CdpOwn.v): for every owner the id list has no duplicate and contains id exactly
   when a cdp with that id and that owner is stored (under some collateral type).
   [Inv3 e s] = IdxInv e s /\ CustInv e s /\ OwnInv s: both indexes and custody together; every
   operation keeps it, hence every history does. *)
Theorem C04_invariant_step :
  forall e s o s' u, env_wf e -> params_ok e -> Inv3 e s -> step e s o = Ok s' u -> Inv3 e s'.
Proof. exact step_Inv3. Qed.
Print Assumptions C04_invariant_step.

Theorem C04_invariant_all_histories :
  forall e ops, env_wf e -> params_ok e -> forall s, Inv3 e s -> Inv3 e (run e s ops).
Proof. exact run_Inv3. Qed.
Print Assumptions C04_invariant_all_histories.

Theorem C04_genesis_owner_index :
  forall bals sups prices status ifacs ptimes startid t h,
  OwnInv (mk_state bals sups prices status ifacs ptimes startid t h).
Proof. exact init_OwnInv. Qed.
Print Assumptions C04_genesis_owner_index.

(** ** Stable / debt accounting *)
(* [debt_held e s] = debt coins in the cdp, liquidator and auction module accounts.
   Every operation keeps (debt supply - debt_held) unchanged and does not increase
   (stable supply - debt supply): stable and debt coins are minted together (create, draw, interest
   accumulation) and burned together (repay — where the debt burn is capped by the module's debt
   balance, so the debt side can only lag —, netting of surplus against debt).  Hence along every
   history: the debt coin exists only in the three module accounts, and the stable coin issued by the
   module (supply minus the genesis supply usdx0) never exceeds it. *)
Theorem C04_debt_step :
  forall e s o s' u, denoms_ok e -> env_wf e -> step e s o = Ok s' u ->
  sup s' (d_debt e) - debt_held e s' = sup s (d_debt e) - debt_held e s /\
  sup s' (d_usdx e) - sup s' (d_debt e) <= sup s (d_usdx e) - sup s (d_debt e).
Proof. exact dm_step. Qed.
Print Assumptions C04_debt_step.

Theorem C04_debt_all_histories :
  forall e usdx0 ops s, denoms_ok e -> env_wf e ->
  sup s (d_debt e) = debt_held e s /\ sup s (d_usdx e) - usdx0 <= debt_held e s ->
  let s' := run e s ops in
  sup s' (d_debt e) = debt_held e s' /\ sup s' (d_usdx e) - usdx0 <= debt_held e s'.
Proof. intros e usdx0 ops s Hd Hw H. exact (DebtInv_run e usdx0 ops s Hd Hw H). Qed.
Print Assumptions C04_debt_all_histories.

(** ** Total principal moves with the debt of the cdps (exact, per operation) *)
(* The clause "total principal = sum of cdp debt up to interest rounding" is a statement about products of
   rounded interest factors; the model proves the exact per-operation bookkeeping (below: create, draw,
   seizure, repay, interest accumulation) and the Go monitor [total-principal-drift] checks the
   bound on every step of every history against the implementation.  A closed-form bound over all
   histories is not proved. *)
Theorem C04_total_principal_create :
  forall e s o t cd coll pd prin s' u, create e s o t cd coll pd prin = Ok s' u ->
  tprin s' t = tprin s t + prin /\ (forall t', t' <> t -> tprin s' t' = tprin s t').
Proof. exact create_tprin. Qed.
Print Assumptions C04_total_principal_create.

Theorem C04_total_principal_draw :
  forall e s o t pd x s' u, draw e s o t pd x = Ok s' u ->
  tprin s' t = tprin s t + x /\ (forall t', t' <> t -> tprin s' t' = tprin s t') /\
  exists cp c0 s1 c, find_cdp e s o t = Some c0 /\ sync_interest e s cp c0 = Ok s1 c /\
    cdps s' (c_type c) (c_id c) = Some (with_prin c (c_prin c + x)).
Proof. exact draw_tprin. Qed.
Print Assumptions C04_total_principal_draw.

Theorem C04_total_principal_seize :
  forall e s cp c s' u, seize e s cp c = Ok s' u ->
  tprin s' (c_type c) = Z.max (tprin s (c_type c) - cdp_debt c) 0 /\
  (forall t', t' <> c_type c -> tprin s' t' = tprin s t').
Proof. exact seize_tprin. Qed.
Print Assumptions C04_total_principal_seize.

Theorem C04_total_principal_repay :
  forall e s o t pd x s' u, repay e s o t pd x = Ok s' u ->
  exists cp c0 s1 c, find_cdp e s o t = Some c0 /\ get_cp e t = Some cp /\ sync_interest e s cp c0 = Ok s1 c /\
    let paid := fst (calc_payment (cdp_debt c) (c_fees c) x) + snd (calc_payment (cdp_debt c) (c_fees c) x) in
    tprin s' t = Z.max (tprin s t - paid) 0 /\ (forall t', t' <> t -> tprin s' t' = tprin s t') /\
    (cdps s' (c_type c) (c_id c) = None \/
     exists c', cdps s' (c_type c) (c_id c) = Some c' /\ cdp_debt c' = cdp_debt c - paid).
Proof. exact repay_tprin. Qed.
Print Assumptions C04_total_principal_repay.

(* AccumulateInterest: the total principal and the debt coin of the cdp module grow by the same amount *)
Theorem C04_total_principal_accumulate :
  forall e s t cp,
  let s' := accumulate_interest e s t cp in
  let acc := tprin s' t - tprin s t in
  0 <= acc -> bal s' (CDPM e) (d_debt e) = bal s (CDPM e) (d_debt e) + acc \/ acc = 0.
Proof. exact accumulate_tprin. Qed.
Print Assumptions C04_total_principal_accumulate.

(** ** Closing returns to every depositor exactly what they deposited *)
(* ReturnCollateral: each depositor's balance of the collateral denom grows by exactly the recorded
   deposit, nothing else moves, the module account pays exactly the sum of the deposits, the
   deposit records of the cdp are deleted and no other deposit is touched. *)
Theorem C04_close_returns_deposits :
  forall e s cp c s' u, return_collateral e s cp c = Ok s' u ->
  (forall w a, deps s (c_id c) w = Some a -> 0 <= a) ->
  cdps s' = cdps s /\ oidx s' = oidx s /\ ridx s' = ridx s /\ sup s' = sup s /\
  (forall w, (w < nusers e)%nat ->
     bal s' w (cp_denom cp) = bal s w (cp_denom cp) + oz0 (deps s (c_id c) w) /\ deps s' (c_id c) w = None) /\
  (forall w d, (w < nusers e)%nat -> d <> cp_denom cp -> bal s' w d = bal s w d) /\
  bal s' (CDPM e) (cp_denom cp) = bal s (CDPM e) (cp_denom cp) - dep_total e s (c_id c) /\
  (forall i w, i <> c_id c -> deps s' i w = deps s i w).
Proof. exact return_collateral_spec. Qed.
Print Assumptions C04_close_returns_deposits.

(* ... and at message level: a repayment after which the cdp is gone (exact payment or over-payment)
   has paid every depositor exactly the recorded deposit and deleted the deposit records. *)
Theorem C04_repay_close_returns_deposits :
  forall e s o t pd x s' u c0 cp, env_wf e -> IdxInv e s -> CustInv e s ->
  repay e s o t pd x = Ok s' u -> find_cdp e s o t = Some c0 -> get_cp e t = Some cp ->
  cdps s' (c_type c0) (c_id c0) = None ->
  forall w, (w < nusers e)%nat ->
    bal s' w (cp_denom cp) = bal s w (cp_denom cp) + oz0 (deps s (c_id c0) w) /\ deps s' (c_id c0) w = None.
Proof. exact repay_close. Qed.
Print Assumptions C04_repay_close_returns_deposits.

(** ** Seizure hands over exactly the deposits and removes the position (custody side of C05_seizure_whole) *)
Theorem C04_seizure_removes_position :
  forall e s cp c s' u, seize e s cp c = Ok s' u ->
  (forall w a, deps s (c_id c) w = Some a -> 0 <= a) -> 0 < cp_asize cp ->
  0 <= cdp_debt c -> 0 <= bal s (CDPM e) (d_debt e) ->
  cdps s' = upd2 (cdps s) (c_type c) (c_id c) None /\
  (forall w, (w < nusers e)%nat -> deps s' (c_id c) w = None) /\
  (forall i w, i <> c_id c -> deps s' i w = deps s i w) /\
  oidx s' = upd (oidx s) (c_owner c) (filter (fun x => negb (Nat.eqb x (c_id c))) (oidx s (c_owner c))) /\
  ridx s' = upd (ridx s) (c_type c) (ent_del (rkey (cdp_ratio e cp c), c_id c) (ridx s (c_type c))).
Proof.
  intros e s cp c s' u H H1 H2 H3 H4.
  destruct (seize_spec _ _ _ _ _ _ H H1 H2 H3 H4) as (A & B & C & D & E & _). auto.
Qed.
Print Assumptions C04_seizure_removes_position.

(** ** Failed operations change nothing *)
Theorem C04_failed_changes_nothing :
  forall e s o, (forall s' u, step e s o <> Ok s' u) -> step' e s o = s.
Proof.
  intros e s o H. unfold step'. destruct (step e s o) as [s' u| |] eqn:E; auto.
  exfalso. exact (H s' u eq_refl).
Qed.
Print Assumptions C04_failed_changes_nothing.

(** ** Non-vacuity *)
(* the genesis state satisfies the index invariants *)
Theorem C04_genesis_indexes_ok :
  forall e bals sups prices status ifacs ptimes startid t h,
  let s := mk_state bals sups prices status ifacs ptimes startid t h in key_ok s /\ ridx_ok e s.
Proof. exact init_idx_ok. Qed.
Print Assumptions C04_genesis_indexes_ok.

(* a history with creation, third-party deposit, partial repay, interest over a day, draw, withdrawal and a close that
   returns two deposits: the boolean invariant (custody, cdp collateral = deposits, both indexes, debt
   accounting) holds at the end, the cdp is gone and the third party got its deposit back *)
Definition x_env : env :=
  mkEnv 4 5 4 [mkCP 0 1500000000000000000 100000000000000 1000000001547125958 10000000 50000000000000000 0 1 10000000000000000 10 8;
               mkCP 0 2000000000000000000 100000000000000 1000000051034942716 10000000 50000000000000000 0 1 10000000000000000 10 8;
               mkCP 4 1500000000000000000 100000000000000 1000000001547125958 10000000 50000000000000000 2 3 10000000000000000 10 6]
        3 1 2 6 1 400000000000000 500000000000 10000000000 100000000000 10000000000 1.
Definition x_s0 : state :=
  mk_state [[100000000000000; 0; 1000000000; 2000000000000; 100000000000000]; [100000000000000; 0; 1000000000; 2000000000000; 100000000000000];
            [100000000000000; 0; 1000000000; 2000000000000; 100000000000000]; [100000000000000; 0; 1000000000; 2000000000000; 100000000000000];
            [0; 0; 0; 0; 0]; [0; 0; 0; 0; 0]; [0; 0; 0; 0; 0]]
           [400000000000000; 0; 100004001000000; 8000000000000; 400000000000000]
           [17250000000000000000; 17250000000000000000; 500000000000000000; 500000000000000000] [true; true; true; true]
           [1000000000000000000; 1000000000000000000; 1000000000000000000]
           [1704067200000000000; 1704067200000000000; 1704067200000000000] 1 1704067200000000000 1.
Example C04_env_hypotheses_satisfiable : env_wf x_env /\ params_ok x_env /\ denoms_ok x_env /\ Inv3 x_env x_s0.
Proof.
  assert (G : forall t cp, get_cp x_env t = Some cp -> (cp_denom cp = 0%nat \/ cp_denom cp = 4%nat) /\ 0 <= cp_reward cp).
  { intros t cp H. destruct t as [|[|[|t]]]; cbn in H; try (inversion H; subst; cbn; split; [auto|lia]). destruct t; discriminate. }
  split; [|split; [|split; [|split; [|split]]]].
  - intros t cp H. destruct (G t cp H) as [[D|D] _]; rewrite D; cbn; split; discriminate.
  - intros t cp H. apply (G t cp H).
  - cbn. discriminate.
  - apply C04_genesis_IdxInv.
  - apply C04_genesis_custody. intros t cp H. destruct (G t cp H) as [[D|D] _]; rewrite D; reflexivity.
  - apply C04_genesis_owner_index.
Qed.

Example C04_nonvacuous :
  let s1 := run x_env x_s0 [Create 0 2 4 60000000 3 10000000; Deposit 0 1 2 4 7000000; Repay 0 2 3 4000000;
                            Block 86400000000000 []; Draw 0 2 3 1000; Withdraw 0 0 2 4 1000000] in
  let s2 := step' x_env s1 (Repay 0 2 3 900000000) in
  inv_b x_env 8000000000000 s1 = true /\ inv_b x_env 8000000000000 s2 = true /\
  (match cdps s1 2 1 with Some c => 0 <? c_fees c | None => false end) = true /\
  cdps s2 2 1 = None /\ bal s2 1 4 = bal x_s0 1 4 /\ bal s2 0 4 = bal x_s0 0 4.
Proof. vm_compute. repeat split; reflexivity. Qed.
