(* C13 — BEP3 atomic swaps: funds move exactly once and supply limits always hold.
   Property theorems only; proofs are in Proofs/Bep3.v.

   Reading guide.  [Inv e s] is the module invariant (tables, ghost payout log,
   counters, custody, limits); [env_wf e]: valid asset parameters (minimum swap
   amount >= 1) and the bep3 module account is in keeper.Maccs; [op_ok e o]: the
   sender of a create message is not the bep3 module account (it has no key).
   [live_out_sum s d] / [live_in_sum s d]: sums of the amounts of the outgoing /
   incoming swaps of denom d whose status is not Completed.  [lsum k d log]: sum
   of the amounts of the payout-log entries of kind k and denom d. *)
From Kava Require Import Base.Prelude Model.Bep3 Proofs.Bep3.

(* The invariant holds after every history of creates, claims, refunds and block
   advancements, of any length, in any order. *)
Theorem C13_invariant_all_histories :
  forall e ops s, env_wf e -> Forall (op_ok e) ops -> Inv e s -> Inv e (run e s ops).
Proof. intros e ops s. exact (run_inv e ops s). Qed.
Print Assumptions C13_invariant_all_histories.

Theorem C13_invariant_step :
  forall e s o s', env_wf e -> op_ok e o -> Inv e s -> step e s o = Ok s' tt -> Inv e s'.
Proof. exact step_inv. Qed.
Print Assumptions C13_invariant_step.

(* custody: the module account holds exactly the amounts of outgoing swaps not yet closed *)
Theorem C13_custody :
  forall e s d, Inv e s -> s_bal s (e_mod e) d = live_out_sum s d.
Proof. exact inv_custody. Qed.
Print Assumptions C13_custody.

(* counters: incoming / outgoing supply = sums over live swaps; current supply = value at the
   start + claimed incoming - claimed outgoing; the bank supply of the pegged coin moves with it *)
Theorem C13_counters :
  forall e s d, Inv e s ->
  sp_inc (s_sup s d) = live_in_sum s d /\
  sp_out (s_sup s d) = live_out_sum s d /\
  sp_cur (s_sup s d) = e_cur0 e d + lsum ClaimIn d (g_log s) - lsum ClaimOut d (g_log s) /\
  s_bsup s d - sp_cur (s_sup s d) = e_bsup0 e d - e_cur0 e d.
Proof. exact inv_counters. Qed.
Print Assumptions C13_counters.

(* limits: in every reachable state (in particular after every successful create or claim)
   current + incoming <= limit and, for a time-limited asset, the time-limited current supply
   + incoming <= the allowance of the period *)
Theorem C13_limits :
  forall e s d a, Inv e s -> find_asset d (e_assets e) = Some a ->
  sp_cur (s_sup s d) + sp_inc (s_sup s d) <= a_limit a /\
  (a_tlimited a = true -> sp_tl (s_sup s d) + sp_inc (s_sup s d) <= a_tlimit a) /\
  0 <= sp_out (s_sup s d) <= sp_cur (s_sup s d) /\ 0 <= sp_inc (s_sup s d) /\ 0 <= sp_tl (s_sup s d).
Proof. exact inv_limits. Qed.
Print Assumptions C13_limits.

(* indexes: by-block index = open swaps keyed by expiry height; long-term index = completed
   swaps keyed by closed block + 86400; no duplicates *)
Theorem C13_indexes :
  forall e s, Inv e s ->
  (forall h i, In (h, i) (s_byblock s) <->
     exists w, lookup i (s_swaps s) = Some w /\ sw_status w = Open /\ sw_expire w = h) /\
  (forall h i, In (h, i) (s_longterm s) <->
     exists w, lookup i (s_swaps s) = Some w /\ sw_status w = Completed /\ sw_closed w + LONGTERM = h) /\
  NoDup (s_byblock s) /\ NoDup (s_longterm s) /\ NoDup (map fst (s_swaps s)).
Proof. exact inv_indexes. Qed.
Print Assumptions C13_indexes.

(* funds move once: the payout log has at most one entry per swap instance; a stored swap is
   Completed exactly when its instance has been paid out; instances are distinct *)
Theorem C13_funds_move_once :
  forall e s, Inv e s ->
  NoDup (map p_serial (g_log s)) /\
  (forall i w, lookup i (s_swaps s) = Some w ->
     (sw_status w = Completed <-> In (sw_serial w) (map p_serial (g_log s)))) /\
  (forall i j w1 w2, lookup i (s_swaps s) = Some w1 -> lookup j (s_swaps s) = Some w2 ->
     sw_serial w1 = sw_serial w2 -> i = j) /\
  (forall i w, lookup i (s_swaps s) = Some w -> (sw_serial w < g_next s)%nat) /\
  (forall q, In q (g_log s) -> (p_serial q < g_next s)%nat).
Proof. exact inv_paid_once. Qed.
Print Assumptions C13_funds_move_once.

(* a claim succeeds only on an open swap and only with a preimage of its hash; it completes the swap *)
Theorem C13_claim_needs_preimage_and_open :
  forall e s from i secret s', claim e s from i secret = Ok s' tt ->
  exists w, lookup i (s_swaps s) = Some w /\ sw_status w = Open /\ e_hash e secret (sw_ts w) = sw_hash w /\
    lookup i (s_swaps s') = Some (with_status w Completed (s_height s)).
Proof. exact claim_gate. Qed.
Print Assumptions C13_claim_needs_preimage_and_open.

(* a refund succeeds only on an expired swap; it completes the swap *)
Theorem C13_refund_needs_expired :
  forall e s from i s', refund e s from i = Ok s' tt ->
  exists w, lookup i (s_swaps s) = Some w /\ sw_status w = Expired /\
    lookup i (s_swaps s') = Some (with_status w Completed (s_height s)).
Proof. exact refund_gate. Qed.
Print Assumptions C13_refund_needs_expired.

(* only the asset's deputy creates incoming swaps; anybody else creates outgoing swaps to the deputy *)
Theorem C13_incoming_only_deputy :
  forall e s h ts span sender recip soc coins cross s',
  create e s h ts span sender recip soc coins cross = Ok s' tt ->
  exists d x a w, coins = [(d, x)] /\ find_asset d (e_assets e) = Some a /\
    lookup (h, sender, soc) (s_swaps s) = None /\
    lookup (h, sender, soc) (s_swaps s') = Some w /\
    sw_status w = Open /\ sw_amt w = x /\ sw_denom w = d /\ sw_sender w = sender /\ sw_recip w = recip /\
    sw_hash w = h /\ sw_ts w = ts /\ sw_expire w = (s_height s + span) mod U64 /\ sw_serial w = g_next s /\
    (sw_dir w = Incoming <-> sender = a_deputy a) /\
    (sw_dir w = Outgoing -> recip = a_deputy a) /\
    g_log s' = g_log s.
Proof. exact create_roles. Qed.
Print Assumptions C13_incoming_only_deputy.

(* the expiry height of a created swap never wraps around uint64 (a height span that would
   overflow is refused — keeper/swap.go after the fix; before it an incoming swap could be
   stored with expiry height 0, which genesis validation rejects) *)
Theorem C13_create_expiry_never_wraps :
  forall e s h ts span sender recip soc coins cross s',
  create e s h ts span sender recip soc coins cross = Ok s' tt ->
  s_height s + span <= U64 - 1.
Proof. exact create_expiry_no_wrap. Qed.
Print Assumptions C13_create_expiry_never_wraps.

Theorem C13_create_wrapping_span_refused :
  forall e s h ts span sender recip soc coins cross,
  U64 - 1 < s_height s + span ->
  create e s h ts span sender recip soc coins cross = Err.
Proof. exact create_wrapping_span_refused. Qed.
Print Assumptions C13_create_wrapping_span_refused.

Theorem C13_stored_swap_roles :
  forall e s i w, Inv e s -> lookup i (s_swaps s) = Some w ->
  i = sw_id w /\ 0 < sw_amt w /\
  exists a, find_asset (sw_denom w) (e_assets e) = Some a /\
    (sw_dir w = Incoming -> sw_sender w = a_deputy a) /\
    (sw_dir w = Outgoing -> sw_sender w <> a_deputy a /\ sw_recip w = a_deputy a).
Proof. exact inv_roles. Qed.
Print Assumptions C13_stored_swap_roles.

(* exact movement of funds, per operation *)
Theorem C13_create_moves_funds :
  forall e s h ts span sender recip soc coins cross s',
  sender <> e_mod e ->
  create e s h ts span sender recip soc coins cross = Ok s' tt ->
  exists d x a, coins = [(d, x)] /\ find_asset d (e_assets e) = Some a /\ s_bsup s' = s_bsup s /\
    forall b d', s_bal s' b d' = s_bal s b d'
       - (if Nat.eqb sender (a_deputy a) then 0 else if Nat.eqb b sender && Nat.eqb d' d then x else 0)
       + (if Nat.eqb sender (a_deputy a) then 0 else if Nat.eqb b (e_mod e) && Nat.eqb d' d then x else 0).
Proof. exact create_funds. Qed.
Print Assumptions C13_create_moves_funds.

Theorem C13_claim_moves_funds :
  forall e s from i secret s',
  Inv e s -> claim e s from i secret = Ok s' tt ->
  exists w, lookup i (s_swaps s) = Some w /\
    let d := sw_denom w in let x := sw_amt w in
    match sw_dir w with
    | Incoming =>
        (forall b d', s_bal s' b d' = s_bal s b d' + (if Nat.eqb b (sw_recip w) && Nat.eqb d' d then x else 0)) /\
        (forall d', s_bsup s' d' = s_bsup s d' + (if Nat.eqb d' d then x else 0))
    | Outgoing =>
        (forall b d', s_bal s' b d' = s_bal s b d' - (if Nat.eqb b (e_mod e) && Nat.eqb d' d then x else 0)) /\
        (forall d', s_bsup s' d' = s_bsup s d' - (if Nat.eqb d' d then x else 0))
    end /\
    g_log s' = mkPay (sw_serial w) (match sw_dir w with Incoming => ClaimIn | Outgoing => ClaimOut end) d x
                     (match sw_dir w with Incoming => sw_recip w | Outgoing => e_mod e end) :: g_log s.
Proof. exact claim_funds. Qed.
Print Assumptions C13_claim_moves_funds.

Theorem C13_refund_moves_funds :
  forall e s from i s',
  Inv e s -> refund e s from i = Ok s' tt ->
  exists w, lookup i (s_swaps s) = Some w /\
    let d := sw_denom w in let x := sw_amt w in
    s_bsup s' = s_bsup s /\
    match sw_dir w with
    | Incoming => s_bal s' = s_bal s
    | Outgoing =>
        forall b d', s_bal s' b d' = s_bal s b d' - (if Nat.eqb b (e_mod e) && Nat.eqb d' d then x else 0)
                                      + (if Nat.eqb b (sw_sender w) && Nat.eqb d' d then x else 0)
    end /\
    g_log s' = mkPay (sw_serial w) (match sw_dir w with Incoming => RefundIn | Outgoing => RefundOut end) d x
                     (match sw_dir w with Incoming => e_mod e | Outgoing => sw_sender w end) :: g_log s.
Proof. exact refund_funds. Qed.
Print Assumptions C13_refund_moves_funds.

Theorem C13_begin_block_moves_nothing :
  forall e s h t, Inv e s ->
  let s' := begin_block e s h t in
  s_bal s' = s_bal s /\ s_bsup s' = s_bsup s /\ g_log s' = g_log s /\ g_next s' = g_next s /\
  forall d, tick_rel (s_sup s d) (s_sup s' d).
Proof. exact begin_block_funds. Qed.
Print Assumptions C13_begin_block_moves_nothing.

(* no operation panics; a failed operation leaves no change (transaction discarded) *)
Theorem C13_no_panic : forall e s o, step e s o <> Panic.
Proof. exact step_no_panic. Qed.
Print Assumptions C13_no_panic.

Theorem C13_failed_changes_nothing :
  forall e s o, (forall s' u, step e s o <> Ok s' u) -> step' e s o = s.
Proof. exact step_err_same. Qed.
Print Assumptions C13_failed_changes_nothing.

(* life cycle: the record stored under an id changes only by: creation (absent -> Open),
   claim (Open -> Completed, with a preimage), refund (Expired -> Completed), expiry at a block
   whose height has reached the expiry height (Open -> Expired), deletion of a Completed swap
   once closed block + 86400 has been reached; all other fields never change *)
Theorem C13_lifecycle :
  forall e s o s', Inv e s -> step e s o = Ok s' tt ->
  forall i, sw_change e s o i (lookup i (s_swaps s)) (lookup i (s_swaps s')).
Proof. exact lifecycle. Qed.
Print Assumptions C13_lifecycle.

(* the exact effect of a block begin at height h on every stored swap: every open swap whose
   expiry height has been reached expires, every closed swap past the horizon is deleted
   (by C13_indexes together with its index entry), nothing else changes *)
Theorem C13_begin_block_effect :
  forall e s h t j, Inv e s ->
  lookup j (s_swaps (begin_block e s h t)) =
  match lookup j (s_swaps s) with
  | None => None
  | Some u =>
      if status_eqb (sw_status u) Open && (sw_expire u <=? h) then Some (expired_of u)
      else if status_eqb (sw_status u) Completed && (sw_closed u + LONGTERM <=? h) then None
      else Some u
  end.
Proof. exact begin_block_lookup. Qed.
Print Assumptions C13_begin_block_effect.

(* with block heights that do not decrease: expired swaps are past their expiry height, in
   every reachable state; hence a refund succeeds only at a height >= the expiry height *)
Theorem C13_expired_means_height_reached :
  forall e ops s, env_wf e -> hist_ok e s ops -> Inv e s -> InvH s ->
  Inv e (run e s ops) /\ InvH (run e s ops).
Proof. intros e ops s. exact (run_inv_height e ops s). Qed.
Print Assumptions C13_expired_means_height_reached.

Theorem C13_refund_only_after_expiry_height :
  forall e s from i s', InvH s -> refund e s from i = Ok s' tt ->
  exists w, lookup i (s_swaps s) = Some w /\ sw_status w = Expired /\ sw_expire w <= s_height s.
Proof. exact refund_after_expiry. Qed.
Print Assumptions C13_refund_only_after_expiry_height.

(* never both: after a successful claim or refund of swap i, neither a claim nor a refund of i
   succeeds (until the record is deleted and the id is used by a new swap) *)
Theorem C13_never_both :
  forall e s i w, lookup i (s_swaps s) = Some w -> sw_status w = Completed ->
  (forall from secret, claim e s from i secret = Err) /\ (forall from, refund e s from i = Err).
Proof.
  intros e s i w Hl Hc. split; intros; [unfold claim|unfold refund]; rewrite Hl, Hc; reflexivity.
Qed.
Print Assumptions C13_never_both.

(* same-block race: in one state at most one of claim and refund can succeed on a swap *)
Theorem C13_claim_refund_exclusive :
  forall e s i from1 secret from2 s1 s2,
  claim e s from1 i secret = Ok s1 tt -> refund e s from2 i = Ok s2 tt -> False.
Proof.
  intros e s i from1 secret from2 s1 s2 H1 H2.
  apply claim_gate in H1. apply refund_gate in H2.
  destruct H1 as (w1 & L1 & O1 & _). destruct H2 as (w2 & L2 & E2 & _). congruence.
Qed.
Print Assumptions C13_claim_refund_exclusive.

(* the gates do not get stuck *)
Theorem C13_open_swap_claimable_with_preimage :
  forall e s from i secret w,
  Inv e s -> lookup i (s_swaps s) = Some w -> sw_status w = Open ->
  e_hash e secret (sw_ts w) = sw_hash w ->
  (sw_dir w = Incoming -> e_blocked e (sw_recip w) = false) ->
  exists s', claim e s from i secret = Ok s' tt.
Proof. exact claim_succeeds. Qed.
Print Assumptions C13_open_swap_claimable_with_preimage.

Theorem C13_expired_swap_refundable :
  forall e s from i w,
  Inv e s -> lookup i (s_swaps s) = Some w -> sw_status w = Expired ->
  (sw_dir w = Outgoing -> e_blocked e (sw_sender w) = false) ->
  exists s', refund e s from i = Ok s' tt.
Proof. exact refund_succeeds. Qed.
Print Assumptions C13_expired_swap_refundable.

(* a create that would take current + incoming above the limit in force is refused, and one
   within the limits is not refused for that reason: the check is exact *)
Theorem C13_incoming_limit_exact :
  forall a sp x, (exists sp', inc_incoming a sp x = Some sp') <->
  (sp_cur sp + sp_inc sp + x <= a_limit a /\
   (a_tlimited a = true -> sp_tl sp + sp_inc sp + x <= a_tlimit a)).
Proof.
  intros a sp x. split.
  - intros [sp' H]. apply inc_incoming_some in H. tauto.
  - intros [L1 L2]. unfold inc_incoming.
    destruct (Z.ltb_spec (a_limit a) (sp_cur sp + sp_inc sp + x)); [lia|].
    destruct (a_tlimited a); cbn [andb].
    + specialize (L2 eq_refl). destruct (Z.ltb_spec (a_tlimit a) (sp_tl sp + sp_inc sp + x)); [lia|]. eexists; reflexivity.
    + eexists; reflexivity.
Qed.
Print Assumptions C13_incoming_limit_exact.

(* Non-vacuity: a concrete environment and initial state satisfy the hypotheses; a full
   life cycle (create incoming, claim with the preimage, wrong secret refused, create
   outgoing, expire, refund, deletion after the horizon) runs in the model. *)
Definition ex_env : env :=
  mk_env 4 2 3 [false; false; false; true] [false; false; false; true]
    [mkAsset 0 1000 true 3600000000000 600 true 2 10 1 500 2 5]
    [(1%nat, 1000, 7%nat); (1%nat, 1001, 9%nat); (2%nat, 1000, 8%nat)] [300; 0] [5000; 0].
Definition ex_init : state :=
  mk_state 10 1000000000000 1000000000000 [mkSup 0 0 300 0 0] [[1000;0];[1000;0];[1000;0];[0;0]] [5000; 0].

Example C13_hypotheses_satisfiable : env_wf ex_env /\ Inv ex_env ex_init /\ InvH ex_init.
Proof.
  split; [|split].
  - split; [reflexivity|]. intros d a. unfold ex_env, mk_env; cbn [e_assets find_asset a_denom].
    destruct d as [|d]; cbn; [|discriminate]. intros H; inversion H; subst; cbn; lia.
  - apply inv_init; try reflexivity. intros d. cbv zeta.
    assert (Hd : d = 0%nat \/ d = 1%nat \/ exists k, d = S (S k)) by (destruct d as [|[|k]]; eauto).
    destruct Hd as [->|[->|[k ->]]].
    + cbn. repeat (split; [lia|]). intros a H. inversion H; subst; cbn. split; [lia|intros _; lia].
    + cbn. repeat (split; [lia|]). intros a H. discriminate.
    + cbn. destruct k; cbn; repeat (split; [lia|]); intros a H; discriminate.
  - intros i w H. discriminate.
Qed.

Example C13_full_cycle_runs :
  let ops := [Create 7 1000 3 2 0 1 [(0%nat, 200)] true;       (* deputy 2 -> user 0, incoming 200 *)
              Claim 1 (7%nat, 2%nat, 1%nat) 2;                   (* wrong secret: refused *)
              Claim 1 (7%nat, 2%nat, 1%nat) 1;                   (* preimage: paid *)
              Create 9 1001 3 0 2 1 [(0%nat, 150)] true;         (* user 0 -> deputy, outgoing 150 *)
              Refund 0 (9%nat, 0%nat, 1%nat);                    (* still open: refused *)
              BeginBlock 13 1006000000000;                       (* expires it *)
              Claim 0 (9%nat, 0%nat, 1%nat) 1;                   (* expired: refused *)
              Refund 0 (9%nat, 0%nat, 1%nat);                    (* refunded *)
              Refund 0 (9%nat, 0%nat, 1%nat);                    (* never twice *)
              BeginBlock 86413 1012000000000] in                 (* both closed swaps deleted *)
  let s := run ex_env ex_init ops in
  map (fun o => class_of (step ex_env ex_init o)) [nth 0 ops (BeginBlock 0 0)] = [ROk] /\
  inv_b ex_env s = true /\
  s_swaps s = [] /\ s_longterm s = [] /\ s_byblock s = [] /\
  s_bal s 0%nat 0%nat = 1200 /\ s_bal s 3%nat 0%nat = 0 /\ sp_cur (s_sup s 0%nat) = 500 /\
  map p_kind (g_log s) = [RefundOut; ClaimIn] /\ s_bsup s 0%nat = 5200.
Proof. vm_compute. repeat split; reflexivity. Qed.

(* the ghost state is written exactly by the operations that pay out: a create takes the next
   instance number and logs nothing; a successful claim or refund logs one entry carrying the
   instance number, denom and amount of the swap it closed; a block begin logs nothing *)
Theorem C13_ghost_log_faithful :
  forall e s o s', Inv e s -> step e s o = Ok s' tt ->
  match o with
  | Create h _ _ sender _ soc _ _ =>
      g_log s' = g_log s /\ g_next s' = S (g_next s) /\
      exists w, lookup (h, sender, soc) (s_swaps s') = Some w /\ sw_serial w = g_next s
  | Claim _ i _ | Refund _ i =>
      g_next s' = g_next s /\
      exists w k to, lookup i (s_swaps s) = Some w /\
        g_log s' = mkPay (sw_serial w) k (sw_denom w) (sw_amt w) to :: g_log s
  | BeginBlock _ _ => g_log s' = g_log s /\ g_next s' = g_next s
  end.
Proof.
  intros e s o s' I H.
  destruct o as [h ts span sender recip soc coins cross|from i secret|from i|h t]; cbn [step] in H.
  - apply create_shape in H.
    destruct H as (d & x & a & dir & sp & bal' & _ & _ & _ & _ & _ & _ & _ & _ & ->).
    cbn [g_log g_next s_swaps]. split; [reflexivity|]. split; [reflexivity|].
    eexists. rewrite lookup_set_same. split; reflexivity.
  - apply claim_shape in H. destruct H as (w & Hl & _ & _ & H). cbv zeta in H.
    destruct H as [(_ & ? & ? & ? & _ & _ & _ & _ & _ & ->)|(_ & ? & ? & _ & _ & _ & ->)];
      (split; [reflexivity|]); exists w; eexists; eexists; (split; [exact Hl|reflexivity]).
  - apply refund_shape in H. destruct H as (w & Hl & _ & H). cbv zeta in H.
    destruct H as [(_ & ? & _ & ->)|(_ & ? & _ & _ & _ & ->)];
      (split; [reflexivity|]); exists w; eexists; eexists; (split; [exact Hl|reflexivity]).
  - inversion H; subst. destruct (begin_block_funds e s h t I) as (_ & _ & L & N & _). auto.
Qed.
Print Assumptions C13_ghost_log_faithful.

(* Why [op_ok] is needed: at keeper level (no signature check) an outgoing swap "sent" by the
   module account itself raises the outgoing supply without moving coins; the custody equation
   then fails.  The module account has no key, so no message can have it as sender. *)
Example C13_custody_needs_sender_guard :
  let e := mk_env 4 2 3 [false; false; false; true] [false; false; false; true]
             [mkAsset 0 1000 false 0 0 true 2 0 1 500 2 5] [] [300; 0] [5000; 0] in
  let s0 := mk_state 10 1000000000000 1000000000000 [mkSup 0 0 300 0 0] [[1000;0];[1000;0];[1000;0];[0;0]] [5000; 0] in
  let s := run e s0 [Create 9 1000 3 0 2 1 [(0%nat, 150)] true;      (* honest outgoing swap: module holds 150 *)
                     Create 8 1000 3 3 2 1 [(0%nat, 100)] true] in   (* "sender" 3 = the module account *)
  inv_b e s0 = true /\ s_bal s 3%nat 0%nat = 150 /\ live_out_sum s 0%nat = 250.
Proof. vm_compute. repeat split; reflexivity. Qed.

(* the boolean invariant that the correspondence run evaluates on every model state is implied
   by the invariant: on reachable states it cannot be false *)
Theorem C13_checked_invariant_is_implied :
  forall e s, Inv e s -> inv_b e s = true.
Proof. exact inv_b_complete. Qed.
Print Assumptions C13_checked_invariant_is_implied.

(* the time-limited allowance "within a period": at a block begin every asset's record is ticked
   once with the time since the previous block: the elapsed time accumulates while it stays below
   the period of a time-limited asset, otherwise elapsed time and time-limited current supply are
   reset to 0 ([tick_supply]); a claim of an incoming swap adds its amount to the time-limited
   current supply of a time-limited asset and is refused above the allowance; nothing else
   changes the time-limited current supply *)
Theorem C13_period_accounting :
  forall e s h t d, Inv e s -> NoDup (map a_denom (e_assets e)) -> e_assets e <> [] ->
  let s' := begin_block e s h t in
  s_prev s' = t /\
  s_sup s' d = match find_asset d (e_assets e) with
               | Some a => tick_supply a (s_sup s d) (t - s_prev s)
               | None => s_sup s d
               end.
Proof. exact begin_block_supply. Qed.
Print Assumptions C13_period_accounting.

Theorem C13_claim_updates_counters :
  forall e s from i secret s', claim e s from i secret = Ok s' tt ->
  exists w, lookup i (s_swaps s) = Some w /\
    let d := sw_denom w in let x := sw_amt w in let sp := s_sup s d in
    (forall d', d' <> d -> s_sup s' d' = s_sup s d') /\
    match sw_dir w with
    | Incoming => exists a, find_asset d (e_assets e) = Some a /\
        s_sup s' d = mkSup (sp_inc sp - x) (sp_out sp) (sp_cur sp + x)
                           (if a_tlimited a then sp_tl sp + x else sp_tl sp) (sp_elapsed sp) /\
        sp_cur sp + x <= a_limit a /\ (a_tlimited a = true -> sp_tl sp + x <= a_tlimit a)
    | Outgoing =>
        s_sup s' d = mkSup (sp_inc sp) (sp_out sp - x) (sp_cur sp - x) (sp_tl sp) (sp_elapsed sp)
    end.
Proof. exact claim_supply. Qed.
Print Assumptions C13_claim_updates_counters.

(* the hypotheses of the theorems above are checked on every recorded history of the
   correspondence run ([check_history], [first_mismatch]) through these boolean forms *)
Theorem C13_checked_hypotheses_sound :
  forall e s o, (env_wf_b e = true -> env_wf e) /\ (op_ok_b e s o = true -> op_ok e o /\ op_mono s o).
Proof. intros e s o. split; [apply env_wf_b_sound|apply op_ok_b_sound]. Qed.
Print Assumptions C13_checked_hypotheses_sound.

(** * the message level (types/msg.go ValidateBasic, keeper/msg_server.go) *)

(* [msg_step e s o]: operation [o] delivered as a message -- ValidateBasic
   (timestamp and height span positive, a positive amount), then the keeper call
   the msg server makes, with crossChain = true. *)

(* A message that succeeds is that keeper call: every theorem above about a
   successful [step] is a theorem about successful messages. *)
Theorem C13_msg_success_is_keeper_success :
  forall e s o s' u, msg_step e s o = Ok s' u ->
  msg_validate_basic o = true /\ step e s (as_msg o) = Ok s' u.
Proof. exact msg_step_ok. Qed.
Print Assumptions C13_msg_success_is_keeper_success.

(* A message refused by ValidateBasic fails and changes nothing. *)
Theorem C13_msg_refused_changes_nothing :
  forall e s o, msg_validate_basic o = false -> msg_step e s o = Err /\ msg_step' e s o = s.
Proof. exact msg_step_refused. Qed.
Print Assumptions C13_msg_refused_changes_nothing.

(* The invariant holds after every history that mixes keeper calls and messages. *)
Theorem C13_invariant_all_mixed_histories :
  forall e l s, env_wf e -> Forall (fun mo => op_ok e (snd mo)) l -> Inv e s -> Inv e (mixed_run e s l).
Proof. intros e l s. exact (mixed_run_inv e l s). Qed.
Print Assumptions C13_invariant_all_mixed_histories.

(* What the glue adds to the keeper: a swap created by a message has a positive
   height span and timestamp (the keeper alone accepts an incoming swap of span 0). *)
Theorem C13_msg_create_span_positive :
  forall e s h ts span sender recip soc coins cross s' u,
  msg_step e s (Create h ts span sender recip soc coins cross) = Ok s' u -> 0 < span /\ 0 < ts.
Proof. exact msg_create_span_positive. Qed.
Print Assumptions C13_msg_create_span_positive.

