(* C13 — BEP3 atomic swaps: funds move exactly once and supply limits always hold.
   Property theorems only; proofs are in Proofs/Bep3.v.

   Reading guide.  [Inv e s] is the module invariant (tables, ghost payout log,
   counters, custody, limits); [env_wf e]: valid asset parameters (minimum swap
   amount >= 1) and the bep3 module account is in keeper.Maccs; [op_ok e o]: the
   sender of a create message is not the bep3 module account (it has no key).
   [live_out_sum s d] / [live_in_sum s d]: sums of the amounts of the outgoing /
   incoming swaps of denom d whose status is not Completed.  [lsum k d log]: sum
   of the amounts of the payout-log entries of kind k and denom d. *)
From Kava Require Import Base.Prelude Model.Bep3 Proofs.Bep3.

(* The invariant holds after every history of creates, claims, refunds and block
   advancements, of any length, in any order. *)
Theorem C13_invariant_all_histories :
  forall e ops s, env_wf e -> Forall (op_ok e) ops -> Inv e s -> Inv e (run e s ops).
Proof. intros e ops s. exact (run_inv e ops s). Qed.
Print Assumptions C13_invariant_all_histories.

Theorem C13_invariant_step :
  forall e s o s', env_wf e -> op_ok e o -> Inv e s -> step e s o = Ok s' tt -> Inv e s'.
Proof. exact step_inv. Qed.
Print Assumptions C13_invariant_step.

(* custody: the module account holds exactly the amounts of outgoing swaps not yet closed *)
Theorem C13_custody :
  forall e s d, Inv e s -> s_bal s (e_mod e) d = live_out_sum s d.
Proof. exact inv_custody. Qed.
Print Assumptions C13_custody.

(* counters: incoming / outgoing supply = sums over live swaps; current supply = value at the
   start + claimed incoming - claimed outgoing; the bank supply of the pegged coin moves with it *)
Theorem C13_counters :
  forall e s d, Inv e s ->
  sp_inc (s_sup s d) = live_in_sum s d /\
  sp_out (s_sup s d) = live_out_sum s d /\
  sp_cur (s_sup s d) = e_cur0 e d + lsum ClaimIn d (g_log s) - lsum ClaimOut d (g_log s) /\
  s_bsup s d - sp_cur (s_sup s d) = e_bsup0 e d - e_cur0 e d.
Proof. exact inv_counters. Qed.
Print Assumptions C13_counters.

(* limits: in every reachable state (in particular after every successful create or claim)
   current + incoming <= limit and, for a time-limited asset, the time-limited current supply
   + incoming <= the allowance of the period *)
Theorem C13_limits :
  forall e s d a, Inv e s -> find_asset d (e_assets e) = Some a ->
  sp_cur (s_sup s d) + sp_inc (s_sup s d) <= a_limit a /\
  (a_tlimited a = true -> sp_tl (s_sup s d) + sp_inc (s_sup s d) <= a_tlimit a) /\
  0 <= sp_out (s_sup s d) <= sp_cur (s_sup s d) /\ 0 <= sp_inc (s_sup s d) /\ 0 <= sp_tl (s_sup s d).
Proof. exact inv_limits. Qed.
Print Assumptions C13_limits.

(* indexes: by-block index = open swaps keyed by expiry height; long-term index = completed
   swaps keyed by closed block + 86400; no duplicates *)
Theorem C13_indexes :
  forall e s, Inv e s ->
  (forall h i, In (h, i) (s_byblock s) <->
     exists w, lookup i (s_swaps s) = Some w /\ sw_status w = Open /\ sw_expire w = h) /\
  (forall h i, In (h, i) (s_longterm s) <->
     exists w, lookup i (s_swaps s) = Some w /\ sw_status w = Completed /\ sw_closed w + LONGTERM = h) /\
  NoDup (s_byblock s) /\ NoDup (s_longterm s) /\ NoDup (map fst (s_swaps s)).
Proof. exact inv_indexes. Qed.
Print Assumptions C13_indexes.

(* funds move once: the payout log has at most one entry per swap instance; a stored swap is
   Completed exactly when its instance has been paid out; instances are distinct *)
Theorem C13_funds_move_once :
  forall e s, Inv e s ->
  NoDup (map p_serial (g_log s)) /\
  (forall i w, lookup i (s_swaps s) = Some w ->
     (sw_status w = Completed <-> In (sw_serial w) (map p_serial (g_log s)))) /\
  (forall i j w1 w2, lookup i (s_swaps s) = Some w1 -> lookup j (s_swaps s) = Some w2 ->
     sw_serial w1 = sw_serial w2 -> i = j) /\
  (forall i w, lookup i (s_swaps s) = Some w -> (sw_serial w < g_next s)%nat) /\
  (forall q, In q (g_log s) -> (p_serial q < g_next s)%nat).
Proof. exact inv_paid_once. Qed.
Print Assumptions C13_funds_move_once.

(* a claim succeeds only on an open swap and only with a preimage of its hash; it completes the swap *)
Theorem C13_claim_needs_preimage_and_open :
  forall e s from i secret s', claim e s from i secret = Ok s' tt ->
  exists w, lookup i (s_swaps s) = Some w /\ sw_status w = Open /\ e_hash e secret (sw_ts w) = sw_hash w /\
    lookup i (s_swaps s') = Some (with_status w Completed (s_height s)).
Proof. exact claim_gate. Qed.
Print Assumptions C13_claim_needs_preimage_and_open.

(* a refund succeeds only on an expired swap; it completes the swap *)
Theorem C13_refund_needs_expired :
  forall e s from i s', refund e s from i = Ok s' tt ->
  exists w, lookup i (s_swaps s) = Some w /\ sw_status w = Expired /\
    lookup i (s_swaps s') = Some (with_status w Completed (s_height s)).
Proof. exact refund_gate. Qed.
Print Assumptions C13_refund_needs_expired.

(* only the asset's deputy creates incoming swaps; anybody else creates outgoing swaps to the deputy *)
Theorem C13_incoming_only_deputy :
  forall e s h ts span sender recip soc coins cross s',
  create e s h ts span sender recip soc coins cross = Ok s' tt ->
  exists d x a w, coins = [(d, x)] /\ find_asset d (e_assets e) = Some a /\
    lookup (h, sender, soc) (s_swaps s) = None /\
    lookup (h, sender, soc) (s_swaps s') = Some w /\
    sw_status w = Open /\ sw_amt w = x /\ sw_denom w = d /\ sw_sender w = sender /\ sw_recip w = recip /\
    sw_hash w = h /\ sw_ts w = ts /\ sw_expire w = (s_height s + span) mod U64 /\ sw_serial w = g_next s /\
    (sw_dir w = Incoming <-> sender = a_deputy a) /\
    (sw_dir w = Outgoing -> recip = a_deputy a) /\
    g_log s' = g_log s.
Proof. exact create_roles. Qed.
Print Assumptions C13_incoming_only_deputy.

Theorem C13_stored_swap_roles :
  forall e s i w, Inv e s -> lookup i (s_swaps s) = Some w ->
  i = sw_id w /\ 0 < sw_amt w /\
  exists a, find_asset (sw_denom w) (e_assets e) = Some a /\
    (sw_dir w = Incoming -> sw_sender w = a_deputy a) /\
    (sw_dir w = Outgoing -> sw_sender w <> a_deputy a /\ sw_recip w = a_deputy a).
Proof. exact inv_roles. Qed.
Print Assumptions C13_stored_swap_roles.

(* exact movement of funds, per operation *)
Theorem C13_create_moves_funds :
  forall e s h ts span sender recip soc coins cross s',
  sender <> e_mod e ->
  create e s h ts span sender recip soc coins cross = Ok s' tt ->
  exists d x a, coins = [(d, x)] /\ find_asset d (e_assets e) = Some a /\ s_bsup s' = s_bsup s /\
    forall b d', s_bal s' b d' = s_bal s b d'
       - (if Nat.eqb sender (a_deputy a) then 0 else if Nat.eqb b sender && Nat.eqb d' d then x else 0)
       + (if Nat.eqb sender (a_deputy a) then 0 else if Nat.eqb b (e_mod e) && Nat.eqb d' d then x else 0).
Proof. exact create_funds. Qed.
Print Assumptions C13_create_moves_funds.

Theorem C13_claim_moves_funds :
  forall e s from i secret s',
  Inv e s -> claim e s from i secret = Ok s' tt ->
  exists w, lookup i (s_swaps s) = Some w /\
    let d := sw_denom w in let x := sw_amt w in
    match sw_dir w with
    | Incoming =>
        (forall b d', s_bal s' b d' = s_bal s b d' + (if Nat.eqb b (sw_recip w) && Nat.eqb d' d then x else 0)) /\
        (forall d', s_bsup s' d' = s_bsup s d' + (if Nat.eqb d' d then x else 0))
    | Outgoing =>
        (forall b d', s_bal s' b d' = s_bal s b d' - (if Nat.eqb b (e_mod e) && Nat.eqb d' d then x else 0)) /\
        (forall d', s_bsup s' d' = s_bsup s d' - (if Nat.eqb d' d then x else 0))
    end /\
    g_log s' = mkPay (sw_serial w) (match sw_dir w with Incoming => ClaimIn | Outgoing => ClaimOut end) d x
                     (match sw_dir w with Incoming => sw_recip w | Outgoing => e_mod e end) :: g_log s.
Proof. exact claim_funds. Qed.
Print Assumptions C13_claim_moves_funds.

Theorem C13_refund_moves_funds :
  forall e s from i s',
  Inv e s -> refund e s from i = Ok s' tt ->
  exists w, lookup i (s_swaps s) = Some w /\
    let d := sw_denom w in let x := sw_amt w in
    s_bsup s' = s_bsup s /\
    match sw_dir w with
    | Incoming => s_bal s' = s_bal s
    | Outgoing =>
        forall b d', s_bal s' b d' = s_bal s b d' - (if Nat.eqb b (e_mod e) && Nat.eqb d' d then x else 0)
                                      + (if Nat.eqb b (sw_sender w) && Nat.eqb d' d then x else 0)
    end /\
    g_log s' = mkPay (sw_serial w) (match sw_dir w with Incoming => RefundIn | Outgoing => RefundOut end) d x
                     (match sw_dir w with Incoming => e_mod e | Outgoing => sw_sender w end) :: g_log s.
Proof. exact refund_funds. Qed.
Print Assumptions C13_refund_moves_funds.

Theorem C13_begin_block_moves_nothing :
  forall e s h t, Inv e s ->
  let s' := begin_block e s h t in
  s_bal s' = s_bal s /\ s_bsup s' = s_bsup s /\ g_log s' = g_log s /\ g_next s' = g_next s /\
  forall d, tick_rel (s_sup s d) (s_sup s' d).
Proof. exact begin_block_funds. Qed.
Print Assumptions C13_begin_block_moves_nothing.

(* no operation panics; a failed operation leaves no change (transaction discarded) *)
Theorem C13_no_panic : forall e s o, step e s o <> Panic.
Proof. exact step_no_panic. Qed.
Print Assumptions C13_no_panic.

Theorem C13_failed_changes_nothing :
  forall e s o, (forall s' u, step e s o <> Ok s' u) -> step' e s o = s.
Proof. exact step_err_same. Qed.
Print Assumptions C13_failed_changes_nothing.
