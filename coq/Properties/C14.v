(* C14 — genesis export/import round trip (partial: see DESIGN.md 7.14).
   Proved per module model (the list grows with the models); the whole-app round
   trip (all Kava modules + auth, bank, staking, gov) is observed by the driver. *)
From Kava Require Import Base.Prelude Model.Precisebank Proofs.Precisebank
  Model.PrecisebankGenesis Proofs.PrecisebankGenesis Model.GenesisOrder.

(* precisebank: for every state satisfying the module invariant, the exported genesis
   passes validation, InitGenesis does not panic, and the imported state has the same
   fractional balances, remainder and (with the bank's own import) balances and supply,
   and again satisfies the invariant. *)
Theorem C14_precisebank_roundtrip :
  forall e s, Inv e s -> (forall a, (nacc e <= a)%nat -> frac s a = 0) ->
  validate_genesis (export_genesis e s) = true /\
  exists s', init_genesis e s (export_genesis e s) = Ok s' tt /\
    (forall a, frac s' a = frac s a) /\ rem s' = rem s /\ bal s' = bal s /\ sup s' = sup s /\ Inv e s'.
Proof. exact export_import_roundtrip. Qed.
Print Assumptions C14_precisebank_roundtrip.

(* every reachable state can be exported and re-imported: the premise of the round
   trip is the invariant that C03 proves for all histories *)
Theorem C14_precisebank_roundtrip_reachable :
  forall e ops s0, env_wf e -> Inv e s0 ->
  validate_genesis (export_genesis e (run e s0 ops)) = true.
Proof.
  intros e ops s0 Hwf H0.
  assert (H : Inv e (run e s0 ops)) by (apply run_inv; assumption).
  unfold validate_genesis.
  (* validation only needs the invariant, not the support hypothesis *)
  pose proof H as (Hfr & Hrem & Hres & Hsa & Hfres).
  assert (Hsum : zsum (map snd (g_balances (export_genesis e (run e s0 ops)))) = sumN (nacc e) (frac (run e s0 ops))).
  { unfold export_genesis. cbn [g_balances]. fold (entries (run e s0 ops) 0 (nacc e)). rewrite entries_sum. cbn. lia. }
  rewrite Hsum. unfold export_genesis. cbn [g_balances g_remainder]. fold (entries (run e s0 ops) 0 (nacc e)).
  repeat (apply andb_true_iff; split).
  - apply forallb_forall. intros [a v] Hin. apply entries_keys_ge in Hin. destruct Hin as (_ & -> & Hnz).
    cbn [snd]. specialize (Hfr a). apply andb_true_iff. split; [apply Z.ltb_lt|apply Z.ltb_lt]; lia.
  - apply nodup_entries. intros x [].
  - apply Z.leb_le. lia.
  - apply Z.ltb_lt. lia.
  - apply Z.eqb_eq. rewrite <- Hres. apply Z.mod_mul. unfold CF. lia.
Qed.
Print Assumptions C14_precisebank_roundtrip_reachable.

Example C14_roundtrip_nonvacuous :
  let e := mk_env 3 2 [[0;0;0;0];[0;0;0;0];[0;0;0;0]] [false;false;true] [false;false;true] [false;false;true] [false;false;true] in
  let s := mk_state [[0;0;7;0];[0;0;3;0];[0;0;2;0]] [0;0;12;0] [999999999999; 999999999990; 0] 11 in
  inv_b e s = true /\ export_genesis e s = mkGen [(0%nat, 999999999999); (1%nat, 999999999990)] 11
  /\ class_of (init_genesis e s (export_genesis e s)) = ROk.
Proof. cbv zeta. repeat split; vm_compute; reflexivity. Qed.

(* The order in which InitGenesis runs (table re-read from app/app.go on every run): the genesis
   invariant assertion of x/crisis comes last, after every module whose state a registered
   invariant reads, and the orderings the modules' InitGenesis functions rely on hold. *)
Theorem C14_crisis_runs_last : crisis_last = true.
Proof. vm_compute. reflexivity. Qed.
Print Assumptions C14_crisis_runs_last.

Theorem C14_genesis_dependencies_respected : genesis_dependencies_respected = true.
Proof. vm_compute. reflexivity. Qed.
Print Assumptions C14_genesis_dependencies_respected.
