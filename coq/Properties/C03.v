(* C03 — precisebank: 18-decimal balances are exact integers fully backed by ukava.
   Property theorems only; proofs are in Proofs/Precisebank.v. *)
From Kava Require Import Base.Prelude Model.Precisebank Proofs.Precisebank Proofs.PrecisebankFails.

(* Every reachable state satisfies the module invariant: fractional balances and
   remainder in [0,10^12), reserve*10^12 = sum of fractional balances + remainder,
   no akava in the base bank — for every history of operations. *)
Theorem C03_invariant_all_histories :
  forall e ops s, env_wf e -> Inv e s -> Inv e (run e s ops).
Proof. intros e ops s. exact (run_inv e ops s). Qed.
Print Assumptions C03_invariant_all_histories.

(* A transfer moves exactly its extended value; a transfer to oneself changes
   nothing; other denoms behave as in the base bank; the remainder is unchanged. *)
Theorem C03_send_exact :
  forall e s f t c s', env_wf e -> Inv e s -> (f < nacc e)%nat -> (t < nacc e)%nat ->
  send_coins e s f t c = Ok s' tt ->
  f <> reserve e /\ t <> reserve e /\
  Inv e s' /\ rem s' = rem s /\
  (forall a, a <> reserve e ->
     xbal s' a = xbal s a - (if Nat.eqb a f then ext_value c else 0)
                         + (if Nat.eqb a t then ext_value c else 0)) /\
  (forall a d, d <> dU -> d <> dA ->
     bal s' a d = bal s a d - (if Nat.eqb a f then total_of d c else 0)
                            + (if Nat.eqb a t then total_of d c else 0)) /\
  (forall a, bal s' a dA = bal s a dA) /\
  sup s' = sup s.
Proof. exact send_coins_spec. Qed.
Print Assumptions C03_send_exact.

Theorem C03_mint_exact :
  forall e s m c s', env_wf e -> Inv e s -> (m < nacc e)%nat ->
  mint_coins e s m c = Ok s' tt ->
  m <> reserve e /\ Inv e s' /\
  xbal s' m = xbal s m + ext_value c /\
  (forall a, a <> m -> a <> reserve e -> xbal s' a = xbal s a) /\
  (forall a d, d <> dU -> d <> dA ->
     bal s' a d = bal s a d + (if Nat.eqb a m then total_of d c else 0)) /\
  sup s' dU * CF - rem s' = sup s dU * CF - rem s + ext_value c.
Proof. exact mint_coins_spec. Qed.
Print Assumptions C03_mint_exact.

Theorem C03_burn_exact :
  forall e s m c s', env_wf e -> Inv e s -> (m < nacc e)%nat ->
  burn_coins e s m c = Ok s' tt ->
  m <> reserve e /\ Inv e s' /\
  xbal s' m = xbal s m - ext_value c /\
  (forall a, a <> m -> a <> reserve e -> xbal s' a = xbal s a) /\
  (forall a d, d <> dU -> d <> dA ->
     bal s' a d = bal s a d - (if Nat.eqb a m then total_of d c else 0)) /\
  sup s' dU * CF - rem s' = sup s dU * CF - rem s - ext_value c.
Proof. exact burn_coins_spec. Qed.
Print Assumptions C03_burn_exact.

(* The reserve can always pay a carry: the panic in sendExtendedCoins is unreachable. *)
Theorem C03_reserve_never_short :
  forall e s f t x, env_wf e -> Inv e s -> (f < nacc e)%nat -> (t < nacc e)%nat ->
  f <> reserve e -> t <> reserve e -> send_ext e s f t x <> Panic.
Proof. exact send_ext_no_panic. Qed.
Print Assumptions C03_reserve_never_short.

(* "Fails exactly when bank rules require it": a plain akava transfer between two
   distinct ordinary parties succeeds if and only if the amount is covered by the
   sender's spendable extended balance (integer balance minus locked coins, times
   10^12, plus the fractional balance). *)
Theorem C03_send_succeeds_iff_spendable :
  forall e s f t x, env_wf e -> Inv e s -> (f < nacc e)%nat -> (t < nacc e)%nat ->
  f <> reserve e -> t <> reserve e -> f <> t -> 0 < x ->
  0 <= lock e f dU <= bal s f dU ->
  (exists s', send_ext e s f t x = Ok s' tt) <-> x <= spendable_ext e s f.
Proof. exact send_ext_succeeds_iff. Qed.
Print Assumptions C03_send_succeeds_iff_spendable.

(* A failed operation leaves no change (transaction discarded). *)
Theorem C03_failed_changes_nothing :
  forall e s o, (forall s' u, step e s o <> Ok s' u) -> step' e s o = s.
Proof.
  intros e s o H. unfold step'. destruct (step e s o) as [s' u| |] eqn:E; auto.
  exfalso. exact (H s' u eq_refl).
Qed.
Print Assumptions C03_failed_changes_nothing.

(* The reserve account as a party of a transfer is refused. *)
Theorem C03_reserve_party_refused :
  forall e s f t c, (f = reserve e \/ t = reserve e) -> send_coins e s f t c = Err.
Proof. exact send_reserve_refused. Qed.
Print Assumptions C03_reserve_party_refused.

(* Non-vacuity: a state with borrow/carry potential satisfies the hypotheses. *)
Example C03_inv_nonvacuous :
  let e := mk_env 3 2 [[0;0;0;0];[0;0;0;0];[0;0;0;0]] [false;false;true] [false;false;true] [false;false;true] [false;false;true] in
  let s := mk_state [[0;0;7;0];[0;0;3;0];[0;0;2;0]] [0;0;12;0] [999999999999; 999999999990; 0] 11 in
  inv_b e s = true /\
  exists s', step e s (Send 0 1 [(dA, 15)]) = Ok s' tt /\ inv_b e s' = true /\ xbal s' 1%nat = xbal s 1%nat + 15.
Proof. cbv zeta. split; [vm_compute; reflexivity|]. eexists. repeat split; vm_compute; reflexivity. Qed.
