(* C16 — privileged actions succeed only for their designated principal; for
   every other signer the message fails and changes no state.
   Property theorems only; proofs are in Proofs/Auth.v. *)
From Coq Require Import String.
From Kava Require Import Base.Prelude Model.Auth Proofs.Auth.
Open Scope Z_scope.

(* For every modelled privileged operation: a signer who is not the designated
   principal of the message in the current state ([authorised] spells out who
   that is, per handler) is refused, whatever the other checks of the handler
   say.  [Err] carries no state. *)
Theorem C16_wrong_signer_rejected :
  forall e s o, authorised e s o = false -> step e s o = Err.
Proof. exact unauthorised_rejected. Qed.
Print Assumptions C16_wrong_signer_rejected.

Theorem C16_accepted_only_from_principal :
  forall e s o s' out, step e s o = Ok s' out -> authorised e s o = true.
Proof. exact accepted_authorised. Qed.
Print Assumptions C16_accepted_only_from_principal.

(* The same message from another signer who is not a principal fails, for every
   value [r] of the handler's remaining checks. *)
Theorem C16_same_message_other_signer :
  forall e s o b r, authorised e s (with_signer o b r) = false -> step e s (with_signer o b r) = Err.
Proof. exact same_message_other_signer. Qed.
Print Assumptions C16_same_message_other_signer.

(* A refused message changes no state. *)
Theorem C16_failed_changes_nothing :
  forall e s o, (forall s' u, step e s o <> Ok s' u) -> step' e s o = s.
Proof. exact failed_changes_nothing. Qed.
Print Assumptions C16_failed_changes_nothing.

(* price posts only from an oracle of that market *)
Theorem C16_post_price_requires_oracle :
  forall e s b m p x, (forall os, oracles_of s m = Some os -> ~ In b os) -> step e s (PostPrice b m p x) = Err.
Proof. exact post_price_requires_oracle. Qed.
Print Assumptions C16_post_price_requires_oracle.

(* issuance issue / redeem / block / unblock / pause only from the asset owner *)
Theorem C16_issuance_requires_owner :
  forall e s b d, (forall x, find_asset s d = Some x -> b <> as_owner x) ->
  (forall amt rcv, step e s (Issue b d amt rcv) = Err) /\
  (forall amt, step e s (Redeem b d amt) = Err) /\
  (forall c, step e s (Block b d c) = Err) /\
  (forall c, step e s (Unblock b d c) = Err) /\
  (forall st, step e s (SetPause b d st) = Err).
Proof. exact issuance_requires_owner. Qed.
Print Assumptions C16_issuance_requires_owner.

(* incoming bep3 swaps only from the deputy: a message that neither comes from
   the deputy nor goes to the deputy is refused; an accepted swap is recorded
   as incoming exactly when its sender is the deputy; the deputy's message sent
   by anybody else is refused *)
Theorem C16_incoming_swap_requires_deputy :
  forall e s b rcp d amt rest,
  (forall x, find_b3 s d = Some x -> b <> b3_deputy x /\ rcp <> b3_deputy x) ->
  step e s (CreateSwap b rcp [(d, amt)] rest) = Err.
Proof. exact incoming_swap_requires_deputy. Qed.
Print Assumptions C16_incoming_swap_requires_deputy.

Theorem C16_swap_direction :
  forall e s a rcp d amt rest s' out,
  step e s (CreateSwap a rcp [(d, amt)] rest) = Ok s' out ->
  exists x, find_b3 s d = Some x /\
    ((a = b3_deputy x /\ rcp <> b3_deputy x /\ swaps s' = mkSwap a rcp d amt true :: swaps s) \/
     (a <> b3_deputy x /\ rcp = b3_deputy x /\ swaps s' = mkSwap a rcp d amt false :: swaps s)).
Proof. exact create_swap_direction. Qed.
Print Assumptions C16_swap_direction.

Theorem C16_deputy_message_from_other_signer :
  forall e s a rcp d amt rest s' out x,
  step e s (CreateSwap a rcp [(d, amt)] rest) = Ok s' out ->
  find_b3 s d = Some x -> a = b3_deputy x ->
  forall b r, b <> a -> step e s (CreateSwap b rcp [(d, amt)] r) = Err.
Proof. exact deputy_message_from_other_signer. Qed.
Print Assumptions C16_deputy_message_from_other_signer.

(* the deputy comparison, limits and supply accounting read one coin: a swap
   creation is accepted only with exactly one coin, so no coin of an asset whose
   deputy is somebody else can ride along (a claim mints the whole amount) *)
Theorem C16_create_swap_single_coin :
  forall e s a rcp amount rest s' out,
  step e s (CreateSwap a rcp amount rest) = Ok s' out -> exists d amt, amount = [(d, amt)].
Proof. exact create_swap_single_coin. Qed.
Print Assumptions C16_create_swap_single_coin.

Theorem C16_create_swap_multi_coin_refused :
  forall e s a rcp amount rest,
  length amount <> 1%nat -> step e s (CreateSwap a rcp amount rest) = Err.
Proof. exact create_swap_multi_coin_refused. Qed.
Print Assumptions C16_create_swap_multi_coin_refused.

(* over every history: every swap recorded as incoming was sent by the deputy *)
Theorem C16_incoming_swaps_from_deputy_all_histories :
  forall e ops s w, Inv e s -> In w (swaps (run e s ops)) -> sw_incoming w = true ->
  exists x, find_b3 (run e s ops) (sw_denom w) = Some x /\ sw_sender w = b3_deputy x.
Proof. exact incoming_swaps_from_deputy_all_histories. Qed.
Print Assumptions C16_incoming_swaps_from_deputy_all_histories.

(* committee proposals only from members (member and token committees alike) *)
Theorem C16_submit_requires_member :
  forall e s b c dur rest,
  (forall x, find_com s c = Some x -> ~ In b (cm_members x)) -> step e s (Submit b c dur rest) = Err.
Proof. exact submit_requires_member. Qed.
Print Assumptions C16_submit_requires_member.

(* member-committee votes only from members *)
Theorem C16_member_vote_requires_member :
  forall e s b pid vt c dl x,
  proposals s pid = Some (c, dl) -> find_com s c = Some x -> cm_member_type x = true ->
  ~ In b (cm_members x) -> step e s (Vote b pid vt) = Err.
Proof. exact member_vote_requires_member. Qed.
Print Assumptions C16_member_vote_requires_member.

(* over every history: every recorded vote on a member-committee proposal is a member's yes vote *)
Theorem C16_member_votes_from_members_all_histories :
  forall e ops s pid a vt, Inv e s -> votes (run e s ops) pid a = Some vt ->
  exists c dl x, proposals (run e s ops) pid = Some (c, dl) /\ find_com (run e s ops) c = Some x /\
    (cm_member_type x = true -> In a (cm_members x) /\ vt = 1%nat).
Proof. exact member_votes_from_members_all_histories. Qed.
Print Assumptions C16_member_votes_from_members_all_histories.

(* community parameter updates only from the governance authority *)
Theorem C16_update_params_requires_authority :
  forall e s b p, b <> gov e -> step e s (UpdateParams b p) = Err.
Proof. exact update_params_requires_authority. Qed.
Print Assumptions C16_update_params_requires_authority.

(* CDP draw and repay only on the signer's own CDP: the record is found through
   the signer, and no record of another owner (nor its deposits) changes *)
Theorem C16_cdp_draw_repay_only_own :
  forall e s a ct amt rest s' out j c',
  (step e s (CdpDraw a ct amt rest) = Ok s' out \/ step e s (CdpRepay a ct amt rest) = Ok s' out) ->
  cdps s j = Some c' -> cd_owner c' <> a ->
  cdps s' j = Some c' /\ forall b, cdp_deps s' j b = cdp_deps s j b.
Proof. exact cdp_other_owner_untouched. Qed.
Print Assumptions C16_cdp_draw_repay_only_own.

Theorem C16_cdp_draw_own_record :
  forall e s a ct amt rest s' out,
  step e s (CdpDraw a ct amt rest) = Ok s' out ->
  exists i c, cdps s i = Some c /\ cd_owner c = a /\ cd_type c = ct /\
    cdps s' i = Some (mkCdp a ct (cd_coll c) (cd_princ c + amt)) /\
    (forall j, j <> i -> cdps s' j = cdps s j) /\
    cdp_deps s' = cdp_deps s.
Proof. exact cdp_draw_own. Qed.
Print Assumptions C16_cdp_draw_own_record.

(* withdrawals only of the signer's own recorded deposit or shares:
   positions of everybody else are unchanged and what is paid is bounded by
   the signer's recorded position *)
Theorem C16_cdp_withdraw_own_deposit :
  forall e s a owner ct amt rest s' out,
  step e s (CdpWithdraw a owner ct amt rest) = Ok s' out ->
  exists i c, cdps s i = Some c /\ cd_owner c = owner /\ cd_type c = ct /\
    0 < amt <= cdp_deps s i a /\ out = [(ct, amt)] /\
    cdp_deps s' i a = cdp_deps s i a - amt /\
    (forall j b, (j <> i \/ b <> a) -> cdp_deps s' j b = cdp_deps s j b) /\
    (forall j, j <> i -> cdps s' j = cdps s j).
Proof. exact cdp_withdraw_own. Qed.
Print Assumptions C16_cdp_withdraw_own_deposit.

Theorem C16_hard_withdraw_own_deposit :
  forall e s a req l s' out,
  step e s (HardWithdraw a req l) = Ok s' out ->
  (forall w, w <> a -> forall d, hard_dep s' w d = hard_dep s w d) /\
  (forall d x, In (d, x) out -> 0 < x <= hard_dep s a d) /\
  (forall d, hard_dep s' a d = hard_dep s a d - total d out /\ 0 <= total d out <= Z.max 0 (hard_dep s a d)).
Proof. exact hard_withdraw_own. Qed.
Print Assumptions C16_hard_withdraw_own_deposit.

Theorem C16_savings_withdraw_own_deposit :
  forall e s a req s' out,
  step e s (SavWithdraw a req) = Ok s' out ->
  (forall w, w <> a -> forall d, sav_dep s' w d = sav_dep s w d) /\
  (forall d x, In (d, x) out -> 0 < x <= sav_dep s a d) /\
  (forall d, sav_dep s' a d = sav_dep s a d - total d out /\ 0 <= total d out <= Z.max 0 (sav_dep s a d)).
Proof. exact sav_withdraw_own. Qed.
Print Assumptions C16_savings_withdraw_own_deposit.

Theorem C16_swap_withdraw_own_shares :
  forall e s a pool sh ma mb dl s' out,
  step e s (SwapWithdraw a pool sh ma mb dl) = Ok s' out ->
  0 < sh <= swap_shares s a pool /\
  swap_shares s' a pool = swap_shares s a pool - sh /\
  (forall w p, (w <> a \/ p <> pool) -> swap_shares s' w p = swap_shares s w p) /\
  (forall q, q <> pool -> swap_pools s' q = swap_pools s q) /\
  (let '(ra, rb, tot) := swap_pools s pool in
   sh <= tot /\
   out = [(0%nat, Z.quot (ra * sh) tot); (1%nat, Z.quot (rb * sh) tot)] /\
   swap_pools s' pool = (ra - Z.quot (ra * sh) tot, rb - Z.quot (rb * sh) tot, tot - sh) /\
   (0 <= ra -> tot * Z.quot (ra * sh) tot <= ra * sh) /\
   (0 <= rb -> tot * Z.quot (rb * sh) tot <= rb * sh)).
Proof. exact swap_withdraw_own. Qed.
Print Assumptions C16_swap_withdraw_own_shares.

Theorem C16_earn_withdraw_own_shares :
  forall e s a d ws wa av dust rest s' out,
  step e s (EarnWithdraw a d ws wa av dust rest) = Ok s' out ->
  ws <= earn_shares s a d /\ wa <= av /\ out = [(d, wa)] /\
  (forall w d', (w <> a \/ d' <> d) -> earn_shares s' w d' = earn_shares s w d') /\
  (0 <= ws -> 0 <= earn_shares s' a d <= earn_shares s a d) /\
  (earn_shares s' a d = 0 \/ earn_shares s' a d = earn_shares s a d - ws).
Proof. exact earn_withdraw_own. Qed.
Print Assumptions C16_earn_withdraw_own_shares.

(* besides the signer's shares an earn withdrawal moves only the vault's own
   strategy deposit (held by the earn module account) *)
Theorem C16_earn_withdraw_strategy_frame :
  forall e s a d ws wa av dust rest s' out,
  step e s (EarnWithdraw a d ws wa av dust rest) = Ok s' out ->
  forall w, w <> earn_macc e -> forall x, hard_dep s' w x = hard_dep s w x /\ sav_dep s' w x = sav_dep s w x.
Proof. exact earn_withdraw_strategy_frame. Qed.
Print Assumptions C16_earn_withdraw_strategy_frame.

(* the invariant used by the all-histories statements is kept by every operation *)
Theorem C16_invariant_all_histories :
  forall e ops s, Inv e s -> Inv e (run e s ops).
Proof. exact run_inv. Qed.
Print Assumptions C16_invariant_all_histories.

(* the table classifies all 49 msgServer handlers; every privileged row is
   modelled by an operation and every operation models a privileged row *)
Theorem C16_table_covered : table_covered = true /\ length handlers = 49%nat.
Proof. split; [exact table_is_covered | exact table_size]. Qed.
Print Assumptions C16_table_covered.

(** Non-vacuity: a state in which each principal's message is accepted and the
    same message from another signer is refused. *)
Definition ex_env : env := mk_env 8 6 1000 [false;false;false;false;false;false;true;true] 6 2 1 7 [0%nat; 1%nat].
Definition ex_state : state :=
  mk_state [(0%nat, [0%nat; 1%nat])] []
           [mkAsset 0 2 false true [] false 0] [0] [(2%nat, 0%nat, 50)]
           [mkB3 0 3] []
           [mkCom 1 [4%nat; 5%nat] true] [(1%nat, (1%nat, 2000))] 2 []
           (0, 1, 1)
           [(1%nat, mkCdp 4 0 1000 100)] 2 [(1%nat, 4%nat, 600); (1%nat, 5%nat, 400)]
           [(5%nat, 0%nat, 70); (7%nat, 0%nat, 500)] [(5%nat, 1%nat, 30)] [(100, 400, 20)] [(5%nat, 0%nat, 5)] [(5%nat, 0%nat, 9000)]
           [true;true;true;true;true;true;true;true].

Example C16_nonvacuous_inv : inv_b ex_env ex_state = true.
Proof. vm_compute. reflexivity. Qed.

(* the hypothesis [Inv] of the all-histories theorems holds of this state *)
Example C16_nonvacuous_Inv : Inv ex_env ex_state.
Proof.
  constructor.
  - intros w Hw. destruct Hw.
  - intros pid a vt H. cbn in H. discriminate.
  - intros pid p H. destruct pid as [|[|pid]]; cbn in H; try discriminate. cbn. lia.
  - intros pid a H. reflexivity.
Qed.

Example C16_nonvacuous_principal_accepted :
  map (fun o => class_of (step ex_env ex_state o))
    [PostPrice 1 0 5 1001; Issue 2 0 7 5; Redeem 2 0 50; Block 2 0 5; SetPause 2 0 true;
     CreateSwap 3 5 [(0%nat, 10)] true; Submit 4 1 100 true; Vote 5 1 1; UpdateParams 6 (5, 0, 0);
     CdpDraw 4 0 10 true; CdpRepay 4 0 10 true; CdpWithdraw 5 4 0 400 true;
     HardWithdraw 5 [(0%nat, 100)] true; SavWithdraw 5 [(1%nat, 30)];
     SwapWithdraw 5 0 5 1 1 true; EarnWithdraw 5 0 9000 9 9 false true]
  = repeat ROk 16.
Proof. vm_compute. reflexivity. Qed.

Example C16_nonvacuous_other_signer_refused :
  map (fun o => class_of (step ex_env ex_state (with_signer o 0 true)))
    [Issue 2 0 7 5; Redeem 2 0 50; Block 2 0 5; SetPause 2 0 true;
     CreateSwap 3 5 [(0%nat, 10)] true; Submit 4 1 100 true; Vote 5 1 1; UpdateParams 6 (5, 0, 0);
     CdpDraw 4 0 10 true; CdpRepay 4 0 10 true; CdpWithdraw 5 4 0 400 true;
     HardWithdraw 5 [(0%nat, 100)] true; SavWithdraw 5 [(1%nat, 30)];
     SwapWithdraw 5 0 5 1 1 true; EarnWithdraw 5 0 9000 9 9 false true]
  = repeat RErr 15
  /\ class_of (step ex_env ex_state (PostPrice 2 0 5 1001)) = RErr.
Proof. vm_compute. split; reflexivity. Qed.

(* the hard withdrawal of 100 against a record of 70 pays 70 and leaves the other records alone *)
Example C16_nonvacuous_withdraw_capped :
  exists s', step ex_env ex_state (HardWithdraw 5 [(0%nat, 100)] true) = Ok s' [(0%nat, 70)]
             /\ hard_dep s' 5%nat 0%nat = 0.
Proof. eexists. split; vm_compute; reflexivity. Qed.

(** * Principals that change during the history

    The oracle lists, asset owners, deputies and committee member lists are
    state; governance changes them between messages ([admin], [hop], [hrun] of
    Model/Auth.v).  Authorisation is decided by the lists of the state the
    message arrives in: a principal removed by a change is refused by the next
    message (and stays refused while only messages follow), an added one is
    accepted at once. *)

(* the first theorem again, over the states reached by any history of messages
   and changes of principals *)
Theorem C16_wrong_signer_rejected_all_histories :
  forall e hs s o, authorised e (hrun e s hs) o = false -> step e (hrun e s hs) o = Err.
Proof. exact wrong_signer_rejected_all_histories. Qed.
Print Assumptions C16_wrong_signer_rejected_all_histories.

(* messages never change who the principals are: only the changes below do *)
Theorem C16_messages_keep_principals :
  forall e s o s' out, step e s o = Ok s' out -> same_principals s s'.
Proof. exact messages_keep_principals. Qed.
Print Assumptions C16_messages_keep_principals.

(* pricefeed: an oracle removed from the market's list is refused by the next
   message, whatever it has posted before; an added one is accepted; the other
   markets keep their lists *)
Theorem C16_removed_oracle_refused :
  forall e s m l s' out b p x,
  admin_step e s (SetOracles m l) = Ok s' out -> ~ In b l -> step e s' (PostPrice b m p x) = Err.
Proof. exact removed_oracle_refused. Qed.
Print Assumptions C16_removed_oracle_refused.

Theorem C16_added_oracle_accepted :
  forall e s m l s' out b p x,
  admin_step e s (SetOracles m l) = Ok s' out -> oracles_of s m <> None -> In b l -> now e < x ->
  exists s'', step e s' (PostPrice b m p x) = Ok s'' [].
Proof. exact added_oracle_accepted. Qed.
Print Assumptions C16_added_oracle_accepted.

Theorem C16_other_markets_keep_oracles :
  forall e s m l s' out m',
  admin_step e s (SetOracles m l) = Ok s' out -> m' <> m -> oracles_of s' m' = oracles_of s m'.
Proof. exact other_markets_keep_oracles. Qed.
Print Assumptions C16_other_markets_keep_oracles.

Theorem C16_removed_oracle_refused_all_histories :
  forall e s hs m l ops b p x,
  nodup_b l = true -> ~ In b l ->
  step e (hrun e s (hs ++ Adm (SetOracles m l) :: map Msg ops)) (PostPrice b m p x) = Err.
Proof. exact removed_oracle_refused_all_histories. Qed.
Print Assumptions C16_removed_oracle_refused_all_histories.

(* committee: a removed member can neither submit nor vote; the change closes the
   committee's open proposals with their votes; an added member submits at once;
   a deleted committee accepts nobody *)
Theorem C16_removed_member_refused :
  forall e s c l s' out b,
  admin_step e s (SetMembers c l) = Ok s' out -> ~ In b l ->
  (forall dur rest, step e s' (Submit b c dur rest) = Err) /\
  (forall pid vt dl, proposals s' pid = Some (c, dl) ->
     (exists x, find_com s' c = Some x /\ cm_member_type x = true) -> step e s' (Vote b pid vt) = Err).
Proof. exact removed_member_refused. Qed.
Print Assumptions C16_removed_member_refused.

Theorem C16_member_change_closes_proposals :
  forall e s c l s' out pid dl,
  (admin_step e s (SetMembers c l) = Ok s' out \/ admin_step e s (DelCommittee c) = Ok s' out) ->
  proposals s pid = Some (c, dl) ->
  proposals s' pid = None /\ (forall a, votes s' pid a = None) /\ forall b vt, step e s' (Vote b pid vt) = Err.
Proof. exact member_change_closes_proposals. Qed.
Print Assumptions C16_member_change_closes_proposals.

Theorem C16_added_member_accepted :
  forall e s c l s' out b dur,
  admin_step e s (SetMembers c l) = Ok s' out -> In b l ->
  exists s'', step e s' (Submit b c dur true) = Ok s'' [].
Proof. exact added_member_accepted. Qed.
Print Assumptions C16_added_member_accepted.

Theorem C16_deleted_committee_refuses_all :
  forall e s c s' out b dur rest,
  admin_step e s (DelCommittee c) = Ok s' out -> step e s' (Submit b c dur rest) = Err.
Proof. exact deleted_committee_refuses_all. Qed.
Print Assumptions C16_deleted_committee_refuses_all.

Theorem C16_removed_member_refused_all_histories :
  forall e s hs c l ops b dur rest,
  l <> [] -> nodup_b l = true -> ~ In b l ->
  step e (hrun e s (hs ++ Adm (SetMembers c l) :: map Msg ops)) (Submit b c dur rest) = Err.
Proof. exact removed_member_refused_all_histories. Qed.
Print Assumptions C16_removed_member_refused_all_histories.

(* over every history with changes of the member lists: every recorded vote on a
   member-committee proposal is a yes vote of a member of the CURRENT list *)
Theorem C16_member_votes_from_current_members_all_histories :
  forall e hs s pid a vt, VInv e s -> votes (hrun e s hs) pid a = Some vt ->
  exists c dl x, proposals (hrun e s hs) pid = Some (c, dl) /\ find_com (hrun e s hs) c = Some x /\
    (cm_member_type x = true -> In a (cm_members x) /\ vt = 1%nat).
Proof. exact member_votes_from_current_members_all_histories. Qed.
Print Assumptions C16_member_votes_from_current_members_all_histories.

(* issuance: after a hand-over everybody but the new owner is refused, the new owner is the principal *)
Theorem C16_former_owner_refused :
  forall e s d a s' out b,
  admin_step e s (SetOwner d a) = Ok s' out -> find_asset s d <> None -> b <> a ->
  (forall amt rcv, step e s' (Issue b d amt rcv) = Err) /\
  (forall amt, step e s' (Redeem b d amt) = Err) /\
  (forall c, step e s' (Block b d c) = Err) /\
  (forall c, step e s' (Unblock b d c) = Err) /\
  (forall st, step e s' (SetPause b d st) = Err).
Proof. exact former_owner_refused. Qed.
Print Assumptions C16_former_owner_refused.

Theorem C16_new_owner_is_principal :
  forall e s d a s' out,
  admin_step e s (SetOwner d a) = Ok s' out -> find_asset s d <> None ->
  forall st, authorised e s' (SetPause a d st) = true /\ exists s'', step e s' (SetPause a d st) = Ok s'' [].
Proof. exact new_owner_is_principal. Qed.
Print Assumptions C16_new_owner_is_principal.

Theorem C16_former_owner_refused_all_histories :
  forall e s hs d a ops b,
  (forall x, find_asset (hrun e s hs) d = Some x -> mem a (as_blocked x) = false) -> b <> a ->
  let s3 := hrun e s (hs ++ Adm (SetOwner d a) :: map Msg ops) in
  (forall amt rcv, step e s3 (Issue b d amt rcv) = Err) /\
  (forall amt, step e s3 (Redeem b d amt) = Err) /\
  (forall c, step e s3 (Block b d c) = Err) /\
  (forall c, step e s3 (Unblock b d c) = Err) /\
  (forall st, step e s3 (SetPause b d st) = Err).
Proof. exact former_owner_refused_all_messages_all_histories. Qed.
Print Assumptions C16_former_owner_refused_all_histories.

(* bep3: after a change of the deputy, a message that neither comes from nor goes
   to the new deputy is refused; swaps already recorded keep their label *)
Theorem C16_former_deputy_refused :
  forall e s d a s' out b rcp amt rest,
  admin_step e s (SetDeputy d a) = Ok s' out -> b <> a -> rcp <> a ->
  step e s' (CreateSwap b rcp [(d, amt)] rest) = Err.
Proof. exact former_deputy_refused. Qed.
Print Assumptions C16_former_deputy_refused.

Theorem C16_former_deputy_refused_all_histories :
  forall e s hs d a ops b rcp amt rest,
  b <> a -> rcp <> a ->
  step e (hrun e s (hs ++ Adm (SetDeputy d a) :: map Msg ops)) (CreateSwap b rcp [(d, amt)] rest) = Err.
Proof. exact former_deputy_refused_all_histories. Qed.
Print Assumptions C16_former_deputy_refused_all_histories.

(* over every history with changes of the deputy: a swap recorded as incoming was
   sent by the account that was the asset's deputy when the swap was created *)
Theorem C16_incoming_swaps_from_deputy_of_their_time :
  forall e hs s w, In w (swaps (hrun e s hs)) ->
  In w (swaps s) \/
  exists pre h post, hs = pre ++ h :: post /\
    (sw_incoming w = true ->
     exists x, find_b3 (hrun e s pre) (sw_denom w) = Some x /\ sw_sender w = b3_deputy x).
Proof. exact incoming_swaps_from_deputy_of_their_time. Qed.
Print Assumptions C16_incoming_swaps_from_deputy_of_their_time.

(** Non-vacuity of the statements about changing principals. *)

Example C16_nonvacuous_VInv : VInv ex_env ex_state.
Proof. exact (Inv_VInv _ _ C16_nonvacuous_Inv). Qed.

(* oracle 1 posts, is removed from market 0 (oracle 2 joins), and is refused
   although its raw price is still stored; oracle 0 (kept) and oracle 2 (new) post *)
Example C16_nonvacuous_oracle_rotation :
  let s := hrun ex_env ex_state [Msg (PostPrice 1 0 5 1001); Adm (SetOracles 0 [0%nat; 2%nat])] in
  prices s 0%nat 1%nat = Some (5, 1001) /\
  map (fun b => class_of (step ex_env s (PostPrice b 0 7 1002))) [0%nat; 1%nat; 2%nat; 3%nat] = [ROk; RErr; ROk; RErr].
Proof. vm_compute. split; reflexivity. Qed.

(* member 4 submits and votes, the list becomes [5; 0]: the open proposals of the
   committee are closed, 4 is refused, 0 (new) and 5 (kept) submit *)
Example C16_nonvacuous_member_rotation :
  let s := hrun ex_env ex_state [Msg (Submit 4 1 100 true); Msg (Vote 4 2 1); Adm (SetMembers 1 [5%nat; 0%nat])] in
  proposals s 1%nat = None /\ proposals s 2%nat = None /\ votes s 2%nat 4%nat = None /\
  map (fun b => class_of (step ex_env s (Submit b 1 100 true))) [0%nat; 4%nat; 5%nat] = [ROk; RErr; ROk] /\
  vinv_b ex_env s = true.
Proof. vm_compute. repeat split; reflexivity. Qed.

(* a duplicated oracle / an empty member list / a blocked owner is refused and changes nothing *)
Example C16_nonvacuous_refused_changes :
  class_of (admin_step ex_env ex_state (SetOracles 0 [1%nat; 1%nat])) = RErr /\
  class_of (admin_step ex_env ex_state (SetMembers 1 [])) = RErr /\
  (exists s1 o, step ex_env ex_state (Block 2 0 5) = Ok s1 o /\ class_of (admin_step ex_env s1 (SetOwner 0 5)) = RErr).
Proof. vm_compute. repeat split; try reflexivity. eexists. eexists. split; reflexivity. Qed.

(* owner and deputy hand-over; a deleted committee; the swap of the former deputy keeps its label *)
Example C16_nonvacuous_owner_deputy :
  let s := hrun ex_env ex_state [Msg (CreateSwap 3 5 [(0%nat, 10)] true); Adm (SetOwner 0 1); Adm (SetDeputy 0 4); Adm (DelCommittee 1)] in
  map (fun b => class_of (step ex_env s (SetPause b 0 true))) [1%nat; 2%nat] = [ROk; RErr] /\
  map (fun b => class_of (step ex_env s (CreateSwap b 5 [(0%nat, 10)] true))) [3%nat; 4%nat] = [RErr; ROk] /\
  swaps s = [mkSwap 3 5 0 10 true] /\
  class_of (step ex_env s (Submit 4 1 100 true)) = RErr.
Proof. vm_compute. repeat split; reflexivity. Qed.

(** ** issuance: the owner is per denom, and denoms are compared exactly
    x/issuance params.go GetAsset returns the asset whose Denom is EQUAL to the denom of the message
    ([find_asset]: [Nat.eqb] on the denom).  Coin denoms are case sensitive and the parameter
    validation only refuses exact duplicates, so "usdtoken" (owner A, listed first) and "USDTOKEN"
    (owner B) are two assets: A has no right on USDTOKEN, B is its principal, and handing over one
    of them leaves the other as it is.  (The harness world lists such a pair in every history.) *)
Theorem C16_issuance_owner_is_per_denom :
  forall e s d d' x y,
  find_asset s d = Some x -> find_asset s d' = Some y -> d <> d' ->
  as_denom x = d /\ as_denom y = d' /\
  (as_owner x <> as_owner y ->
   (forall amt rcv, step e s (Issue (as_owner x) d' amt rcv) = Err) /\
   (forall amt, step e s (Redeem (as_owner x) d' amt) = Err) /\
   (forall c, step e s (Block (as_owner x) d' c) = Err) /\
   (forall c, step e s (Unblock (as_owner x) d' c) = Err) /\
   (forall st, step e s (SetPause (as_owner x) d' st) = Err)) /\
  (forall amt rcv st c,
     authorised e s (Issue (as_owner y) d' amt rcv) = true /\ authorised e s (Redeem (as_owner y) d' amt) = true /\
     authorised e s (Block (as_owner y) d' c) = true /\ authorised e s (Unblock (as_owner y) d' c) = true /\
     authorised e s (SetPause (as_owner y) d' st) = true) /\
  (forall a s' out, admin_step e s (SetOwner d a) = Ok s' out -> find_asset s' d' = Some y).
Proof. exact issuance_owner_is_per_denom. Qed.
Print Assumptions C16_issuance_owner_is_per_denom.

(* non-vacuity: denom 0 ("usdtoken") owned by user 2 and listed first, denom 1 ("USDTOKEN") owned
   by user 3: user 3 issues denom 1, user 2 is refused, and the other way round for denom 0 *)
Definition ex_twins : state :=
  set_assets ex_state [mkAsset 0 2 false true [] false 0; mkAsset 1 3 false true [] false 0].
Example C16_nonvacuous_owner_per_denom :
  map (fun o => class_of (step ex_env ex_twins o))
    [Issue 3 1 7 5; Issue 2 1 7 5; Issue 2 0 7 5; Issue 3 0 7 5; SetPause 3 1 true; SetPause 2 1 true]
  = [ROk; RErr; ROk; RErr; ROk; RErr]
  /\ (exists x y, find_asset ex_twins 0 = Some x /\ find_asset ex_twins 1 = Some y /\ as_owner x <> as_owner y).
Proof. vm_compute. split; [reflexivity|]. eexists. eexists. repeat split; try reflexivity. discriminate. Qed.
