(* C01 — deterministic replication (partial: see DESIGN.md 7.1).
   What is proved: every unordered iteration / unstable sort found in Kava's own
   state-machine code by tools/sites belongs to a class whose result is the same
   for every order the Go runtime may choose.  What is observed, not proved: N
   multi-module histories replicate (two replicas) and restart (re-opened
   database) bit-identically. *)
From Coq Require Import List Permutation Sorting.Sorted ZArith Bool.
From Kava Require Import Model.IterationSites Proofs.Iteration.
Import ListNotations.

Theorem C01_commutative_fold_order_free :
  forall (A B : Type) (f : A -> B -> B),
  (forall x y b, f x (f y b) = f y (f x b)) ->
  forall l l' b, Permutation l l' -> fold_right f b l = fold_right f b l'.
Proof. intros A B f H. exact (fold_perm_invariant f H). Qed.
Print Assumptions C01_commutative_fold_order_free.

Theorem C01_tally_table_order_free :
  forall l l' t k, Permutation l l' -> fold_right bump t l k = fold_right bump t l' k.
Proof. exact bump_table_perm_invariant. Qed.
Print Assumptions C01_tally_table_order_free.

Theorem C01_sorted_arrangement_unique :
  forall (A : Type) (le : A -> A -> Prop),
  (forall x y, le x y -> le y x -> x = y) ->
  forall l l', StronglySorted le l -> StronglySorted le l' -> Permutation l l' -> l = l'.
Proof. intros A le H l. exact (sorted_perm_unique le H l). Qed.
Print Assumptions C01_sorted_arrangement_unique.

Theorem C01_sorted_keys_unique :
  forall l l' : list Z, StronglySorted Z.lt l -> StronglySorted Z.lt l' -> Permutation l l' -> l = l'.
Proof. exact sorted_keys_unique. Qed.
Print Assumptions C01_sorted_keys_unique.

Theorem C01_sorted_prices_unique :
  forall l l' : list Z, StronglySorted Z.le l -> StronglySorted Z.le l' -> Permutation l l' -> l = l'.
Proof. exact sorted_prices_unique. Qed.
Print Assumptions C01_sorted_prices_unique.

Theorem C01_all_sites_covered : all_sites_covered = true.
Proof. exact sites_all_covered. Qed.
Print Assumptions C01_all_sites_covered.

(* non-vacuity: a concrete permutation of tally contributions gives the same table *)
Example C01_tally_example :
  fold_right bump (fun _ => 0%Z) [(1%nat, 5%Z); (2%nat, 7%Z); (1%nat, 3%Z)] 1%nat
  = fold_right bump (fun _ => 0%Z) [(1%nat, 3%Z); (1%nat, 5%Z); (2%nat, 7%Z)] 1%nat.
Proof. vm_compute. reflexivity. Qed.
