(* C05 — CDP custody, debt accounting and index coherence (placeholder, theorems follow). *)
From Kava Require Import Base.Prelude Base.Dec Model.Cdp.

Theorem C05_failed_changes_nothing :
  forall e s o, (forall s' u, step e s o <> Ok s' u) -> step' e s o = s.
Proof.
  intros e s o H. unfold step'. destruct (step e s o) as [s' u| |] eqn:E; auto.
  exfalso. exact (H s' u eq_refl).
Qed.
Print Assumptions C05_failed_changes_nothing.
