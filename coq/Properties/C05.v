(* C05 — CDP: seized only when under-collateralised; users cannot go below the ratio.
   Property theorems only; proofs are in Proofs/Cdp.v and Proofs/CdpRatio.v.

   [ratio_at e cp p coll prin fees] is CalculateCollateralizationRatio at the fetched price p
   (value of the collateral in base units times p, divided by principal+fees in base units,
   with LegacyDec rounding); [c2d_ratio] is the price-free collateral:debt ratio that keys the
   ratio index; [liq_cut p liq] is 1/(p/liq) as LiquidateCdps computes it. *)
From Kava Require Import Base.Prelude Base.Dec Model.Cdp Proofs.CdpRatio Proofs.Cdp.

(** witness environment and genesis state used by the refutations and examples below *)
Definition w_env : env :=
  mkEnv 4 5 4 [mkCP 0 1500000000000000000 100000000000000 1000000001547125958 10000000 50000000000000000 0 1 10000000000000000 10 8;
               mkCP 0 1500000000000000000 100000000000000 1000000001547125958 10000000 50000000000000000 0 1 10000000000000000 10 8;
               mkCP 4 1500000000000000000 100000000000000 1000000001547125958 10000000 50000000000000000 2 3 10000000000000000 10 6]
        3 1 2 6 1 400000000000000 500000000000 10000000000 100000000000 10000000000 1.
Definition w_s0 : state :=
  mk_state [[100000000000000; 0; 1000000000; 2000000000000; 100000000000000]; [100000000000000; 0; 1000000000; 2000000000000; 100000000000000];
            [100000000000000; 0; 1000000000; 2000000000000; 100000000000000]; [100000000000000; 0; 1000000000; 2000000000000; 100000000000000];
            [0; 0; 0; 0; 0]; [0; 0; 0; 0; 0]; [0; 0; 0; 0; 0]]
           [400000000000000; 0; 100004001000000; 8000000000000; 400000000000000]
           [17250000000000000000; 17250000000000000000; 500000000000000000; 500000000000000000] [true; true; true; true]
           [1000000000000000000; 1000000000000000000; 1000000000000000000]
           [1704067200000000000; 1704067200000000000; 1704067200000000000] 1 1704067200000000000 1.
Definition w_s1 : state := run w_env w_s0 [Create 0 2 4 30000000 3 10000000].

(** ** Users cannot go below the ratio *)

(* A successful draw leaves the stored cdp at or above the liquidation ratio at the spot price. *)
Theorem C05_draw_gate :
  forall e s o t pd x s' u, draw e s o t pd x = Ok s' u ->
  exists cp c0 c' r,
    get_cp e t = Some cp /\ find_cdp e s o t = Some c0 /\
    c_id c' = c_id c0 /\ c_type c' = c_type c0 /\ c_owner c' = c_owner c0 /\ c_coll c' = c_coll c0 /\
    c_prin c' = c_prin c0 + x /\ 0 < x /\
    mstat s (cp_spot cp) = true /\ mstat s (cp_liqm cp) = true /\
    cdps s' (c_type c') (c_id c') = Some c' /\ price s' = price s /\
    ratio_at e cp (price s' (cp_spot cp)) (c_coll c') (c_prin c') (c_fees c') = Ok tt r /\ cp_liq cp <= r.
Proof. exact draw_gate. Qed.
Print Assumptions C05_draw_gate.

(* A successful withdrawal leaves the stored cdp at or above the liquidation ratio at the spot price. *)
Theorem C05_withdraw_gate :
  forall e s o u t cd x s' v, withdraw e s o u t cd x = Ok s' v ->
  exists cp c0 c' r,
    get_cp e t = Some cp /\ find_cdp e s o t = Some c0 /\
    mstat s (cp_spot cp) = true /\ mstat s (cp_liqm cp) = true /\
    c_id c' = c_id c0 /\ c_type c' = c_type c0 /\ c_owner c' = c_owner c0 /\
    c_coll c' = c_coll c0 - x /\ c_prin c' = c_prin c0 /\ 0 < x /\
    cdps s' (c_type c') (c_id c') = Some c' /\ price s' = price s /\
    ratio_at e cp (price s' (cp_spot cp)) (c_coll c') (c_prin c') (c_fees c') = Ok tt r /\ cp_liq cp <= r.
Proof. exact withdraw_gate. Qed.
Print Assumptions C05_withdraw_gate.

(* A created cdp is at or above the liquidation ratio at the spot price. *)
Theorem C05_create_gate :
  forall e s o t cd coll pd prin s' v, create e s o t cd coll pd prin = Ok s' v ->
  exists cp r,
    get_cp e t = Some cp /\ mstat s (cp_spot cp) = true /\ mstat s (cp_liqm cp) = true /\
    find_cdp e s o t = None /\ dp_floor e <= prin /\
    cdps s' t (nextid s) =
      Some (mkCdp (nextid s) o t coll prin 0 (now s) (match ifac s t with None => PREC | Some f => f end)) /\
    price s' = price s /\ nextid s' = S (nextid s) /\
    ratio_at e cp (price s' (cp_spot cp)) coll prin 0 = Ok tt r /\ cp_liq cp <= r.
Proof. exact create_gate. Qed.
Print Assumptions C05_create_gate.

(** ** Price-feed gate *)

(* Creation, draw, deposit and withdrawal are refused unless both market-status flags of the collateral are up
   (draw since fix 8fb7c1495, which the model follows). *)
Theorem C05_pricefeed_gate :
  forall e s t cp, get_cp e t = Some cp -> mstat s (cp_spot cp) = false \/ mstat s (cp_liqm cp) = false ->
  (forall o cd coll pd prin, create e s o t cd coll pd prin = Err) /\
  (forall o u cd x, deposit e s o u t cd x = Err) /\
  (forall o u cd x, withdraw e s o u t cd x = Err) /\
  (forall o pd x, draw e s o t pd x = Err).
Proof.
  intros e s t cp Hcp Hdown.
  assert (Hv : forall cd, validate_collateral e s t cd = None).
  { intros cd. unfold validate_collateral. rewrite Hcp. destruct (Nat.eqb _ _); [|reflexivity].
    destruct Hdown as [->| ->]; [reflexivity|]. destruct (mstat s (cp_spot cp)); reflexivity. }
  assert (Hm : mstat s (cp_spot cp) && mstat s (cp_liqm cp) = false).
  { destruct Hdown as [->| ->]; [reflexivity|apply andb_false_r]. }
  repeat split; intros.
  - unfold create. destruct ((0 <? coll) && (0 <? prin)); [|reflexivity]. cbn [negb]. rewrite Hv. reflexivity.
  - unfold deposit. destruct (0 <? x); [|reflexivity]. cbn [negb]. rewrite Hv. reflexivity.
  - unfold withdraw. destruct (0 <? x); [|reflexivity]. cbn [negb]. rewrite Hv. reflexivity.
  - unfold draw. destruct (0 <? x); [|reflexivity]. cbn [negb]. rewrite Hcp.
    destruct (find_cdp e s o t); [|reflexivity]. rewrite Hm. reflexivity.
Qed.
Print Assumptions C05_pricefeed_gate.

(* UpdatePricefeedStatus sets the flag from the availability of the price. *)
Theorem C05_status_follows_price :
  forall s m, mstat (fst (update_status s m)) m = negb (price s m =? 0) /\ snd (update_status s m) = negb (price s m =? 0).
Proof. intros s m. unfold update_status. cbn. unfold upd. rewrite Nat.eqb_refl. split; reflexivity. Qed.
Print Assumptions C05_status_follows_price.

(** ** Keeper liquidation only below the ratio *)
Theorem C05_keeper_liq_only_below :
  forall e s k o t s' v, keeper_liquidate e s k o t = Ok s' v ->
  exists cp c0 s1 c r,
    get_cp e t = Some cp /\ find_cdp e s o t = Some c0 /\ sync_interest e s cp c0 = Ok s1 c /\
    c_coll c = c_coll c0 /\ c_prin c = c_prin c0 /\
    ratio_at e cp (price s (cp_liqm cp)) (c_coll c) (c_prin c) (c_fees c) = Ok tt r /\ r < cp_liq cp.
Proof. exact keeper_gate. Qed.
Print Assumptions C05_keeper_liq_only_below.

(** ** Block-level liquidation (after fix 2e356dd20, which the model follows) *)

(* A cdp changed (seized) by LiquidateCdps was read from the scan of the ratio index below the cut AND
   confirmed: its value ratio at the liquidation price is below the liquidation ratio. *)
Theorem C05_block_liq_only_below :
  forall e s t cp s' u, liquidate_cdps e s t cp = Ok s' u ->
  forall t' id, cdps s' t' id <> cdps s t' id ->
  exists x c, In x (idx_below (rkey (liq_cut (price s (cp_liqm cp)) (cp_liq cp))) (scan_count cp) (ridx s t)) /\
    fst x < rkey (liq_cut (price s (cp_liqm cp)) (cp_liq cp)) /\
    get_cdp e s t (snd x) = Some c /\ t' = c_type c /\ id = c_id c /\
    price s (cp_liqm cp) <> 0 /\ confirm_below e cp (price s (cp_liqm cp)) c = true.
Proof. exact liquidate_cdps_only_scanned. Qed.
Print Assumptions C05_block_liq_only_below.

(* [confirm_below] is CalculateCollateralizationRatio < liquidation ratio: for a cdp with positive debt the
   ratio computed for user actions and keeper liquidation at the same price is below the liquidation ratio
   (so the block liquidator seizes only what a keeper message could seize). *)
Theorem C05_confirm_is_value_ratio :
  forall e cp p c r, confirm_below e cp p c = true ->
  0 < to_base (c_prin c) (dp_cf e) + to_base (c_fees c) (dp_cf e) ->
  ratio_at e cp p (c_coll c) (c_prin c) (c_fees c) = Ok tt r -> r < cp_liq cp.
Proof. exact confirm_below_ratio. Qed.
Print Assumptions C05_confirm_is_value_ratio.

(* How far the index scan reaches: an index ratio below the cut 1/(price/liqRatio) means
   C*q < D*(1 + q*10^-36), q = price/liqRatio as rounded by the code, q*liqRatio > price - liqRatio*(1/2*10^-18 + 10^-36);
   the cut can therefore lie above the true boundary by a relative 10^-18*liqRatio/(2*price) — the candidates in
   that sliver are the ones the confirmation step filters out. *)
Theorem C05_index_cut_slack :
  forall coll cfc debt cfd p liq,
  rkey (c2d_ratio coll cfc debt cfd) < rkey (liq_cut p liq) ->
  0 <= to_base coll cfc -> 0 < to_base debt cfd < MAXS -> 0 <= p -> 0 < liq ->
  to_base coll cfc * cut_div p liq * PREC * PREC < to_base debt cfd * (PREC * PREC * PREC + cut_div p liq) /\
  2 * p * PREC * PREC < 2 * cut_div p liq * liq * PREC + liq * PREC + 2 * liq.
Proof. exact below_cut_partial. Qed.
Print Assumptions C05_index_cut_slack.

(* Regression of the former finding: price 0.5, liquidation ratio 1.5, collateral 30 000 000, debt 10 000 000:
   the cdp sits exactly at 150 %, its index entry is below the cut, a keeper liquidation is refused and the next
   begin blocker does NOT seize it. *)
Theorem C05_at_ratio_not_seized :
  inv_b w_env 8000000000000 w_s1 = true /\
  (match cdps w_s1 2 1, get_cp w_env 2 with
   | Some c, Some cp =>
       ratio_at w_env cp (price w_s1 (cp_liqm cp)) (c_coll c) (c_prin c) (c_fees c) = Ok tt (cp_liq cp) /\
       rkey (cdp_ratio w_env cp c) < rkey (liq_cut (price w_s1 (cp_liqm cp)) (cp_liq cp))
   | _, _ => False end) /\
  step w_env w_s1 (Liquidate 1 0 2) = Err /\
  (match step w_env w_s1 (Block 1000000000 []) with
   | Ok s2 _ => cdps s2 2 1 = cdps w_s1 2 1 /\ inv_b w_env 8000000000000 s2 = true
   | _ => False end).
Proof. vm_compute. repeat split; reflexivity. Qed.
Print Assumptions C05_at_ratio_not_seized.

(* Completeness: every cdp read from the scan (the lowest index ratios below the cut, up to the count) whose
   value ratio is confirmed below the liquidation ratio is seized. *)
Theorem C05_block_liq_complete :
  forall e s t cp s' u, liquidate_cdps e s t cp = Ok s' u -> price s (cp_liqm cp) <> 0 ->
  forall x, In x (idx_below (rkey (liq_cut (price s (cp_liqm cp)) (cp_liq cp))) (scan_count cp) (ridx s t)) ->
  exists c, get_cdp e s t (snd x) = Some c /\
    (confirm_below e cp (price s (cp_liqm cp)) c = true -> cdps s' (c_type c) (c_id c) = None).
Proof. exact liquidate_cdps_complete. Qed.
Print Assumptions C05_block_liq_complete.

(* ... and the begin blocker runs that pass for a type whose two feeds are up when the interval comes round. *)
Theorem C05_block_liq_at_interval :
  forall e s t cp s' u, begin_type e false s (t, cp) = Ok s' u ->
  price s (cp_spot cp) <> 0 -> price s (cp_liqm cp) <> 0 ->
  exists s4, liquidate_cdps e s4 t cp = Ok s' u /\ price s4 = price s.
Proof. exact begin_type_liquidates. Qed.
Print Assumptions C05_block_liq_at_interval.

(** ** A seizure removes the whole position; exactly its collateral and its debt enter auctions *)
Theorem C05_seizure_whole :
  forall e s cp c s' u, seize e s cp c = Ok s' u ->
  (forall w a, deps s (c_id c) w = Some a -> 0 <= a) -> 0 < cp_asize cp ->
  0 <= cdp_debt c -> 0 <= bal s (CDPM e) (d_debt e) ->
  cdps s' = upd2 (cdps s) (c_type c) (c_id c) None /\
  (forall w, (w < nusers e)%nat -> deps s' (c_id c) w = None) /\
  (forall i w, i <> c_id c -> deps s' i w = deps s i w) /\
  oidx s' = upd (oidx s) (c_owner c) (filter (fun x => negb (Nat.eqb x (c_id c))) (oidx s (c_owner c))) /\
  ridx s' = upd (ridx s) (c_type c) (ent_del (rkey (cdp_ratio e cp c), c_id c) (ridx s (c_type c))) /\
  price s' = price s /\ nextid s' = nextid s /\
  exists l, aucs s' = aucs s ++ l /\ Forall (auc_in cp) l /\
    lots l = zsum (map snd (dep_list e s (c_id c))) /\
    (dep_list e s (c_id c) <> [] -> adebts l = Z.min (cdp_debt c) (bal s (CDPM e) (d_debt e))).
Proof. exact seize_spec. Qed.
Print Assumptions C05_seizure_whole.

(* A failed operation leaves no change (transaction discarded). *)
Theorem C05_failed_changes_nothing :
  forall e s o, (forall s' u, step e s o <> Ok s' u) -> step' e s o = s.
Proof.
  intros e s o H. unfold step'. destruct (step e s o) as [s' u| |] eqn:E; auto.
  exfalso. exact (H s' u eq_refl).
Qed.
Print Assumptions C05_failed_changes_nothing.

(** ** Non-vacuity *)
(* a keeper liquidation that succeeds and a seizure with two deposits (price drop to 0.3) *)
Example C05_nonvacuous :
  let s2 := run w_env w_s0 [Create 0 2 4 40000000 3 10000003; Deposit 0 1 2 4 40000000] in
  inv_b w_env 8000000000000 s2 = true /\
  (match step w_env s2 (Block 1000000000 [(2%nat, 150000000000000000); (3%nat, 150000000000000000)]) with
   | Ok s3 _ => cdps s3 2 1 = None /\ adebts (aucs s3) = 10000003 /\ lots (aucs s3) = 80000000 /\ inv_b w_env 8000000000000 s3 = true
   | _ => False end) /\
  (match step w_env (step' w_env s2 (Block 1000000000 [(2%nat, 300000000000000000); (3%nat, 1000000000000000000)])) (Draw 0 2 3 5) with
   | Ok _ _ => True | _ => False end) /\
  (* liquidation-market feed down: draw is refused like deposit *)
  (let s4 := step' w_env s2 (Block 1000000000 [(3%nat, 0)]) in
   mstat s4 2 = true /\ mstat s4 3 = false /\ step w_env s4 (Draw 0 2 3 5) = Err /\ step w_env s4 (Deposit 0 0 2 4 5) = Err).
Proof. vm_compute. repeat split; reflexivity. Qed.
