(* C08 — hard money market: LTV gate, liquidation only of unsafe positions, monotone interest.
   Property theorems only; proofs are in Proofs/Hard.v.  The model follows the code after the
   fix commits (ValidateBorrow also applies the liquidation valuation to the resulting position;
   CalculateSupplyInterestFactor returns one for a non-positive supply; CalculateUtilizationRatio
   does not divide by zero; loadSyncedDeposit rounds like SyncSupplyInterest).  The two minimised
   histories on which the earlier code violated the property are kept as regression examples.
   The second half of the file (from "the state invariant") states the invariant [HInv] for all
   histories (Proofs/HardInv.v) and restates the conditional theorems for reachable states without
   their hypotheses; Proofs/HardSync.v relates the handlers' interest sync to the queries. *)
From Kava Require Import Base.Prelude Base.Dec Model.Hard Proofs.Hard Proofs.HardInv Proofs.HardInvB Proofs.HardSync.
Local Open Scope Z_scope.

(** * LTV gate *)

(* After any successful withdrawal the account's borrowed value is within the loan-to-value
   limit of its remaining deposits at current prices, as judged by the liquidation routine
   (IsWithinValidLtvRange) on the stored records. *)
Theorem C08_withdraw_gate :
  forall e s u c s', withdraw e s u c = Ok s' tt ->
  within_ltv e s' (amt_of (dep s' u)) (amt_of (bor s' u)) = Some true.
Proof. exact withdraw_gate. Qed.
Print Assumptions C08_withdraw_gate.

(* After any successful borrow the same holds: ValidateBorrow now also requires
   IsWithinValidLtvRange(deposit, existing + new borrow). *)
Theorem C08_borrow_gate :
  forall e s u c s', borrow e s u c = Ok s' tt ->
  within_ltv e s' (amt_of (dep s' u)) (amt_of (bor s' u)) = Some true.
Proof. exact borrow_gate. Qed.
Print Assumptions C08_borrow_gate.

(* (it still implies the older, weaker check: new and previous borrow valued separately) *)
Theorem C08_borrow_gate_split_valuation :
  forall e s u c s', borrow e s u c = Ok s' tt ->
  exists old,
    ceq (nd e) (amt_of (bor s' u)) (cadd old c) /\
    all_priced e s' (amt_of (dep s' u)) = true /\ all_priced e s' old = true /\ all_priced e s' c = true /\
    value_of e s' old + value_of e s' c <= borrowable_of e s' (amt_of (dep s' u)).
Proof. exact borrow_gate_partial. Qed.
Print Assumptions C08_borrow_gate_split_valuation.
(* concrete witnesses: minimised histories found by the driver's monitors on the real keepers *)
Definition wa_env : env := mk_env 5 4 10000000000000000000.
Definition wa_init : state := mk_state [[100000000000000000; 100000000000000000; 1000000000000000; 1000000000000000000000000000; 1000000000000000]; [100000000000000000; 100000000000000000; 1000000000000000; 1000000000000000000000000000; 1000000000000000]; [100000000000000000; 100000000000000000; 1000000000000000; 1000000000000000000000000000; 1000000000000000]; [4000000000; 4000000000; 40000000; 40000000000000000000; 40000000]; [0;0;0;0;0]; [0;0;0;0;0]] [1083581890000704538815; 1712000000391949144; 333333333333333333; 1746000000000245087390; 0] [Some 1704067200; Some 1704067200; Some 1704067200; Some 1704067200; None]
  [Some (mkMarket 100000000 800000000000000000 false 0 25000000000000000 10000000000000000 50000000000000000 2000000000000000000 800000000000000000 500000000000000000); Some (mkMarket 100000000 600000000000000000 false 0 25000000000000000 0 50000000000000000 100000000000000000 800000000000000000 5000000000000000000); Some (mkMarket 1000000 600000000000000000 false 0 500000000000000000 50000000000000000 800000000000000000 2000000000000000000 800000000000000000 10000000000000000000); Some (mkMarket 1000000000000000000 750000000000000000 false 0 50000000000000000 0 500000000000000000 1000000000000000000 800000000000000000 5000000000000000000); None].
Definition wa_prefix : list op := [Deposit 0%nat [(2%nat, 3864000000)];
  Deposit 1%nat [(0%nat, 149319586)];
  Deposit 2%nat [(0%nat, 9228651)];
  Borrow 2%nat [(2%nat, 63000000)];
  Borrow 1%nat [(2%nat, 3279000000)];
  BeginBlock 1752710400 [1000000000000000000; 1000000000000000000; 8646183524487635464; 1000000000000000000];
  Liquidate 0%nat 1%nat].
Definition wa_block : op := BeginBlock 1752796800 [1000000000000000000; 1000000000000000000; 1004630961015383585; 1000000000000000000].

Definition wb_env : env := mk_env 5 4 0.
Definition wb_init : state := mk_state [[100000000000000000; 100000000000000000; 1000000000000000; 1000000000000000000000000000; 1000000000000000]; [100000000000000000; 100000000000000000; 1000000000000000; 1000000000000000000000000000; 1000000000000000]; [100000000000000000; 100000000000000000; 1000000000000000; 1000000000000000000000000000; 1000000000000000]; [4000000000; 4000000000; 40000000; 40000000000000000000; 40000000]; [0;0;0;0;0]; [0;0;0;0;0]] [618130000000000000000; 608000000629804639; 2500000000000000000; 450000000000000000; 0] [Some 1704067200; Some 1704067200; Some 1704067200; Some 1704067200; None]
  [Some (mkMarket 100000000 800000000000000000 false 0 100000000000000000 50000000000000000 0 1000000000000000000 800000000000000000 5000000000000000000); Some (mkMarket 100000000 750000000000000000 false 0 100000000000000000 50000000000000000 50000000000000000 1000000000000000000 800000000000000000 5000000000000000000); Some (mkMarket 1000000 750000000000000000 false 0 100000000000000000 10000000000000000 0 1000000000000000000 800000000000000000 500000000000000000); Some (mkMarket 1000000000000000000 500000000000000000 false 0 25000000000000000 50000000000000000 0 2000000000000000000 800000000000000000 5000000000000000000); None].
Definition wb_prefix : list op := [Deposit 0%nat [(3%nat, 222222222222222222222222)];
  Deposit 1%nat [(0%nat, 10029678)];
  Borrow 1%nat [(3%nat, 55107954330133333330)]].
Definition wb_last : op := Borrow 1%nat [(3%nat, 55107954330133333338)].


(* regression: the two-step borrow of an 18-decimal asset at the boundary, which the earlier
   ValidateBorrow accepted and which was then liquidatable, is refused *)
Example C08_split_valuation_borrow_refused :
  step wb_env (run wb_env wb_init wb_prefix) wb_last = Err.
Proof. vm_compute. reflexivity. Qed.

(** * liquidation only of unsafe positions *)

(* A successful liquidation: the borrower's position, after the interest sync the handler
   performs, is outside the valid LTV range. *)
Theorem C08_liq_only_unsafe :
  forall e s k b s', liquidate e s k b = Ok s' tt ->
  exists s2 dp bw, sync_position e s b = Ok s2 tt /\ dep s2 b = Some dp /\ bor s2 b = Some bw /\
                   within_ltv e s2 (amt dp) (amt bw) = Some false.
Proof. exact liq_only_unsafe. Qed.
Print Assumptions C08_liq_only_unsafe.

(* A position within the limit cannot be liquidated by anyone. *)
Theorem C08_safe_position_not_liquidatable :
  forall e s b s2 dp bw,
  sync_position e s b = Ok s2 tt -> dep s2 b = Some dp -> bor s2 b = Some bw ->
  within_ltv e s2 (amt dp) (amt bw) = Some true ->
  forall k s', liquidate e s k b <> Ok s' tt.
Proof. exact safe_not_liquidatable. Qed.
Print Assumptions C08_safe_position_not_liquidatable.

(** * scope of a liquidation *)
Theorem C08_liq_scope :
  forall e s k b s', liquidate e s k b = Ok s' tt -> k <> hacc e ->
  exists s2 dp, sync_position e s b = Ok s2 tt /\ dep s2 b = Some dp /\
    dep s' b = None /\ bor s' b = None /\
    (forall v, v <> b -> dep s' v = dep s v /\ bor s' v = bor s v) /\
    (forall d, (d < nd e)%nat -> bal s (hacc e) d - bal s' (hacc e) d <= amt dp d) /\
    (k <> aacc e -> k <> b -> forall d, (d < nd e)%nat ->
       bal s' k d = bal s k d + Z.max 0 (dec_trunc_int (dec_mul_int (keeper_pct s2 d) (amt dp d)))) /\
    (forall x d, x <> hacc e -> x <> aacc e -> x <> b -> x <> k -> bal s' x d = bal s x d).
Proof. exact liq_scope. Qed.
Print Assumptions C08_liq_scope.

(** * parameter changes (governance) *)

(* The money markets are part of the state twice: the params (changed by [SetParams]) and the
   money-market store every handler reads.  A successful begin block leaves the store equal to
   the params on all denoms: changed markets are copied, new ones added, removed ones dropped. *)
Theorem C08_begin_block_syncs_markets :
  forall e s t fs s', begin_block e s t fs = Ok s' tt ->
  params s' = params s /\ forall d, (d < nd e)%nat -> mkts s' d = params s d.
Proof. exact begin_block_syncs_markets. Qed.
Print Assumptions C08_begin_block_syncs_markets.

(* Hence, once the begin blocker has run, a liquidation pays the keeper exactly the share
   configured in the params at that time (rounded down), whatever the store held before. *)
Theorem C08_keeper_reward_from_params :
  forall e s0 t fs s k b s',
  begin_block e s0 t fs = Ok s tt -> liquidate e s k b = Ok s' tt ->
  k <> hacc e -> k <> aacc e -> k <> b ->
  exists s2 dp, sync_position e s b = Ok s2 tt /\ dep s2 b = Some dp /\
    forall d, (d < nd e)%nat ->
      bal s' k d = bal s k d + Z.max 0 (dec_trunc_int (dec_mul_int (pct_of (params s d)) (amt dp d))).
Proof. exact keeper_reward_from_params. Qed.
Print Assumptions C08_keeper_reward_from_params.

(* Withdraw, borrow and repay change nobody else's records either. *)
Theorem C08_others_untouched :
  forall e s s',
  (forall u c, withdraw e s u c = Ok s' tt -> forall v, v <> u -> dep s' v = dep s v /\ bor s' v = bor s v) /\
  (forall u c, borrow e s u c = Ok s' tt -> forall v, v <> u -> dep s' v = dep s v /\ bor s' v = bor s v) /\
  (forall a o c, repay e s a o c = Ok s' tt -> forall v, v <> o -> dep s' v = dep s v /\ bor s' v = bor s v).
Proof.
  intros e s s'. split; [|split].
  - intros u c H v Hv. apply withdraw_spec in H. destruct H as (s2 & r & _ & _ & H). cbn zeta in H.
    destruct H as (_ & _ & _ & _ & H1 & H2 & _). split; [apply H1|apply H2]; assumption.
  - intros u c H v Hv. apply borrow_spec in H. destruct H as (s2 & dp & _ & _ & _ & _ & _ & _ & _ & _ & _ & H & _). apply H, Hv.
  - intros a o c H v Hv. apply repay_spec in H. destruct H as (s2 & r & _ & _ & H). cbn zeta in H.
    destruct H as (_ & _ & _ & _ & H1 & H2). rewrite H1. split; [reflexivity|apply H2, Hv].
Qed.
Print Assumptions C08_others_untouched.

(** * interest *)

(* With no action by the user (a begin block), the owed amount GetSyncedBorrow reports does not
   decrease, and the query does not start to panic — for every oracle factor >= 1. *)
Theorem C08_interest_monotone_borrow :
  forall e s t fs s' u r c,
  begin_block e s t fs = Ok s' tt -> (forall d, (d < nd e)%nat -> PREC <= nthZ fs d) ->
  fac_nonneg (bfac s) -> bor s u = Some r -> (forall d, 0 <= amt r d) -> idx_sound (bfac s) r ->
  synced_borrow e s u = Some (Ok c tt) ->
  exists c', synced_borrow e s' u = Some (Ok c' tt) /\ forall d, c d <= c' d.
Proof. exact interest_monotone_borrow. Qed.
Print Assumptions C08_interest_monotone_borrow.

(* The same for deposits, without any guard on reserves: the supply factor of an accrual is
   never below one. *)
Theorem C08_interest_monotone_supply :
  forall e s t fs s' u r c,
  begin_block e s t fs = Ok s' tt ->
  fac_nonneg (sfac s) ->
  dep s u = Some r -> (forall d, 0 <= amt r d) -> idx_sound (sfac s) r ->
  synced_deposit e s u = Some (Ok c tt) ->
  exists c', synced_deposit e s' u = Some (Ok c' tt) /\ forall d, c d <= c' d.
Proof. exact interest_monotone_supply. Qed.
Print Assumptions C08_interest_monotone_supply.

(* regression: after the liquidation that strands bad debt (reserves > cash + borrows) the
   untouched deposit no longer shrinks at the next block *)
Example C08_bad_debt_deposit_does_not_shrink :
  match step wa_env (run wa_env wa_init wa_prefix) wa_block with
  | Ok s' _ =>
      match synced_deposit wa_env (run wa_env wa_init wa_prefix) 0%nat, synced_deposit wa_env s' 0%nat with
      | Some (Ok c _), Some (Ok c' _) => c 2%nat <= c' 2%nat /\ tbor s' 2%nat + bal s' (hacc wa_env) 2%nat < tres s' 2%nat
      | _, _ => False
      end
  | _ => False
  end.
Proof. vm_compute. split; [discriminate|reflexivity]. Qed.

(** * the begin blocker does not panic *)

(* The utilization and borrow-rate computation of AccrueInterest is total: after the fix of
   CalculateUtilizationRatio no division by zero is left in it. *)
Theorem C08_begin_block_no_division_by_zero :
  forall m cash borrows reserves,
  (exists u, util_ratio cash borrows reserves = Ok u tt) /\
  (exists apy, borrow_rate m cash borrows reserves = Ok apy tt).
Proof. intros. split; [apply util_ratio_total|apply borrow_rate_total]. Qed.
Print Assumptions C08_begin_block_no_division_by_zero.

(* hard.BeginBlocker never panics: for valid reserve factors (in the store and in the params), oracle factors >= 1 and
   non-negative borrowed totals, whatever cash, borrows and reserves are. *)
Theorem C08_begin_block_no_panic :
  forall e s t fs, mk_wf (mkts s) -> mk_wf (params s) ->
  (forall d, (d < nd e)%nat -> PREC <= nthZ fs d) -> (forall x, 0 <= tbor s x) ->
  exists s', begin_block e s t fs = Ok s' tt.
Proof. exact begin_block_no_panic. Qed.
Print Assumptions C08_begin_block_no_panic.

(* regression: the state in which the earlier code halted the chain (reserve coins lent out while
   cash = reserves, so cash + borrows = reserves with borrows > 0) is still reachable, and the next
   accruing begin block now succeeds *)
Definition wc_env : env := mk_env 5 4 0.
Definition wc_init : state := mk_state [[100000000000000000; 100000000000000000; 1000000000000000; 1000000000000000000000000000; 1000000000000000]; [100000000000000000; 100000000000000000; 1000000000000000; 1000000000000000000000000000; 1000000000000000]; [100000000000000000; 100000000000000000; 1000000000000000; 1000000000000000000000000000; 1000000000000000]; [4000000000; 4000000000; 40000000; 40000000000000000000; 40000000]; [0;0;0;0;0]; [0;0;0;0;0]] [312773780000934372881; 1000000000000000002; 1195100000950962640; 2000000000000000000000; 0] [Some 1704067200; Some 1704067200; Some 1704067200; Some 1704067200; None]
  [Some (mkMarket 100000000 600000000000000000 false 0 100000000000000000 50000000000000000 0 1000000000000000000 800000000000000000 500000000000000000); Some (mkMarket 100000000 600000000000000000 false 0 50000000000000000 50000000000000000 50000000000000000 100000000000000000 800000000000000000 5000000000000000000); Some (mkMarket 1000000 800000000000000000 false 0 50000000000000000 50000000000000000 500000000000000000 1000000000000000000 800000000000000000 500000000000000000); Some (mkMarket 1000000000000000000 800000000000000000 false 0 100000000000000000 0 50000000000000000 2000000000000000000 800000000000000000 500000000000000000); None].
Definition wc_prefix : list op := [Deposit 2%nat [(0%nat, 136643261)];
  Withdraw 2%nat [(0%nat, 79438528)];
  Borrow 2%nat [(0%nat, 26921443)];
  BeginBlock 1706659200 [1032207609358723914; 1000000000000000000; 1000000000000000000; 1000000000000000000];
  Repay 0%nat 2%nat [(0%nat, 27784452000)];
  Withdraw 2%nat [(0%nat, 58301145)];
  Deposit 1%nat [(3%nat, 25000000000000001)];
  Borrow 1%nat [(0%nat, 1)]].
Example C08_reserve_borrow_block_succeeds :
  let s := run wc_env wc_init wc_prefix in
  bal s (hacc wc_env) 0%nat + tbor s 0%nat = tres s 0%nat /\ 0 < tbor s 0%nat /\
  match step wc_env s (BeginBlock 1738195200 [1000000000000000000; 1000000000000000000; 1000000000000000000; 1000000000000000000]) with
  | Ok _ _ => True | _ => False end.
Proof. vm_compute. repeat split. Qed.

(** * caps on withdrawals and repayments *)
Theorem C08_withdraw_capped :
  forall e s u c s', withdraw e s u c = Ok s' tt -> u <> hacc e ->
  exists s2 r, sync_position e s u = Ok s2 tt /\ dep s2 u = Some r /\
    let moved := capped e c (amt r) in
    (forall d, bal s' u d = bal s u d + moved d /\ bal s' (hacc e) d = bal s (hacc e) d - moved d) /\
    (forall d, 0 <= amt r d -> 0 <= c d -> 0 <= moved d <= amt r d) /\
    ceq (nd e) (amt_of (dep s' u)) (csub (amt r) moved).
Proof. exact withdraw_capped. Qed.
Print Assumptions C08_withdraw_capped.

Theorem C08_repay_capped :
  forall e s a o c s', repay e s a o c = Ok s' tt -> a <> hacc e ->
  exists s2 r, sync_borrow e s o = Ok s2 tt /\ bor s2 o = Some r /\
    let pay := capped e c (amt r) in
    (forall d, bal s' a d = bal s a d - pay d /\ bal s' (hacc e) d = bal s (hacc e) d + pay d) /\
    (forall d, 0 <= amt r d -> 0 <= c d -> 0 <= pay d <= amt r d) /\
    ceq (nd e) (amt_of (bor s' o)) (csub (amt r) pay).
Proof. exact repay_capped. Qed.
Print Assumptions C08_repay_capped.

(* the coins of an accepted message are non-negative (hypothesis of the two cap theorems) *)
Theorem C08_msg_coins_nonneg :
  forall l, clist_valid l = true -> forall d, 0 <= of_list l d.
Proof. exact of_list_nonneg. Qed.
Print Assumptions C08_msg_coins_nonneg.

(* A failed operation leaves no change (transaction discarded). *)
Theorem C08_failed_changes_nothing :
  forall e s o, (forall s' u, step e s o <> Ok s' u) -> step' e s o = s.
Proof.
  intros e s o H. unfold step'. destruct (step e s o) as [s' u| |] eqn:E; auto.
  exfalso. exact (H s' u eq_refl).
Qed.
Print Assumptions C08_failed_changes_nothing.

(** * non-vacuity: the hypotheses are met by reachable states *)
(* a reachable state in which a liquidation succeeds, and one in which a withdrawal succeeds *)
Example C08_liquidation_reachable :
  match step wa_env (run wa_env wa_init (firstn 6 wa_prefix)) (Liquidate 0%nat 1%nat) with Ok _ _ => True | _ => False end.
Proof. vm_compute. exact I. Qed.
Example C08_withdraw_reachable :
  match step wa_env (run wa_env wa_init (firstn 3 wa_prefix)) (Withdraw 2%nat [(0%nat, 1000)]) with Ok _ _ => True | _ => False end.
Proof. vm_compute. exact I. Qed.
(* the model invariant evaluated on the witness states *)
Example C08_inv_on_witness :
  inv_b wa_env (run wa_env wa_init wa_prefix) = true /\ inv_b wb_env (run wb_env wb_init wb_prefix) = true.
Proof. split; vm_compute; reflexivity. Qed.

(** * the state invariant, for all histories *)

(* [HInv e s]: every global interest factor is >= 1; every stored deposit and borrow has
   non-negative amounts, an index entry for each of its coins, and every index entry lies between
   one and the global factor of its denom (which exists); total supplied, borrowed and reserves are
   non-negative.  It holds at every genesis of the model, is kept by every operation (deposit,
   withdraw, borrow, repay by owner or third party, liquidation with its auctions, price change,
   donation to the module account, governance parameter change, begin blocker with market
   add/copy/drop) for ANY arguments and ANY oracle factors (an oracle factor below one never gets as
   far as updating an index: AccrueInterest panics on the negative interest first), hence in every
   state of every history. *)
Theorem C08_invariant_genesis :
  forall e bals prices prevs mms, HInv e (mk_state bals prices prevs mms).
Proof. exact genesis_inv. Qed.
Print Assumptions C08_invariant_genesis.

Theorem C08_invariant_step :
  forall e s o, HInv e s -> HInv e (step' e s o).
Proof. intros e s o I. apply step'_inv, I. Qed.
Print Assumptions C08_invariant_step.

Theorem C08_invariant_all_histories :
  forall e bals prices prevs mms ops, HInv e (run e (mk_state bals prices prevs mms) ops).
Proof. exact invariant_all_histories. Qed.
Print Assumptions C08_invariant_all_histories.

(* With non-negative genesis balances and prices, the boolean invariant [inv_b] that the
   correspondence run evaluates on every model state (records non-empty with non-negative amounts
   and an index entry per coin, borrow indexes >= 1, totals, prices and all bank balances
   non-negative) is true in every state of every history: balances stay non-negative through every
   bank send of every handler, including the auction lots, keeper reward and returned remainder of
   a liquidation.  (The run evaluates it on re-tabulated states; their equality with the plain
   [run] on the environment's index ranges is observed, not proved.) *)
Theorem C08_inv_b_all_histories :
  forall e bals prices prevs mms ops,
  (forall a d, 0 <= nthZ (nth a bals []) d) -> (forall d, 0 <= nthZ prices d) ->
  inv_b e (run e (mk_state bals prices prevs mms) ops) = true.
Proof. exact inv_b_all_histories. Qed.
Print Assumptions C08_inv_b_all_histories.

(* the invariant gives the hypotheses of the conditional theorems above *)
Theorem C08_invariant_gives_hypotheses :
  forall e s, HInv e s ->
  fac_nonneg (sfac s) /\ fac_nonneg (bfac s) /\ (forall x, 0 <= tbor s x) /\
  (forall u r, dep s u = Some r -> (forall d, 0 <= amt r d) /\ idx_sound (sfac s) r) /\
  (forall u r, bor s u = Some r -> (forall d, 0 <= amt r d) /\ idx_sound (bfac s) r).
Proof.
  intros e s I. split; [apply fac_ge1_nonneg, (hi_sfac _ _ I)|]. split; [apply fac_ge1_nonneg, (hi_bfac _ _ I)|].
  split; [apply (hi_tbor _ _ I)|]. split; intros u r E.
  - pose proof (hi_dep _ _ I u r E) as R. split; [apply R|eapply rec_sound_idx_sound; eauto].
  - pose proof (hi_bor _ _ I u r E) as R. split; [apply R|eapply rec_sound_idx_sound; eauto].
Qed.
Print Assumptions C08_invariant_gives_hypotheses.

(** * interest, over whole histories *)

(* [targets o u]: operation [o] is addressed to the position of user [u] (deposit, withdraw, borrow
   by u; repayment of u's debt by anyone; liquidation of u).  Along ANY history without such an
   operation -- other users' deposits, withdrawals, borrows, repayments and liquidations, u acting as
   keeper or repaying somebody else, price changes, donations, parameter changes that remove and
   re-add money markets, begin blocks with any time gaps and any oracle factors -- what
   GetSyncedDeposit and GetSyncedBorrow report for u never decreases in any denom and never starts
   to panic.  (A removed market keeps its interest factors and its accrual time in the store; a
   re-added market continues from them.) *)
Theorem C08_interest_monotone_supply_all_histories :
  forall e s u ops c,
  HInv e s -> Forall (fun o => ~ targets o u) ops ->
  synced_deposit e s u = Some (Ok c tt) ->
  exists c', synced_deposit e (run e s ops) u = Some (Ok c' tt) /\ forall d, c d <= c' d.
Proof. exact synced_deposit_monotone_history. Qed.
Print Assumptions C08_interest_monotone_supply_all_histories.

Theorem C08_interest_monotone_borrow_all_histories :
  forall e s u ops c,
  HInv e s -> Forall (fun o => ~ targets o u) ops ->
  synced_borrow e s u = Some (Ok c tt) ->
  exists c', synced_borrow e (run e s ops) u = Some (Ok c' tt) /\ forall d, c d <= c' d.
Proof. exact synced_borrow_monotone_history. Qed.
Print Assumptions C08_interest_monotone_borrow_all_histories.

(* one begin block on a state satisfying the invariant: [C08_interest_monotone_borrow] and
   [C08_interest_monotone_supply] without their side hypotheses (and for any oracle factors) *)
Theorem C08_interest_monotone_block_reachable :
  forall e s t fs s' u, HInv e s -> begin_block e s t fs = Ok s' tt ->
  (forall c, synced_deposit e s u = Some (Ok c tt) ->
     exists c', synced_deposit e s' u = Some (Ok c' tt) /\ forall d, c d <= c' d) /\
  (forall c, synced_borrow e s u = Some (Ok c tt) ->
     exists c', synced_borrow e s' u = Some (Ok c' tt) /\ forall d, c d <= c' d).
Proof. exact interest_monotone_block. Qed.
Print Assumptions C08_interest_monotone_block_reachable.

(* from genesis: after any history [ops0] whatsoever, along any continuation without an operation
   addressed to u *)
Theorem C08_no_action_never_decreases :
  forall e bals prices prevs mms ops0 ops u,
  Forall (fun o => ~ targets o u) ops ->
  let s := run e (mk_state bals prices prevs mms) ops0 in
  let s' := run e s ops in
  (forall c, synced_deposit e s u = Some (Ok c tt) ->
     exists c', synced_deposit e s' u = Some (Ok c' tt) /\ forall d, c d <= c' d) /\
  (forall c, synced_borrow e s u = Some (Ok c tt) ->
     exists c', synced_borrow e s' u = Some (Ok c' tt) /\ forall d, c d <= c' d).
Proof.
  intros e bals prices prevs mms ops0 ops u Hf s s'.
  pose proof (invariant_all_histories e bals prices prevs mms ops0) as I. fold s in I.
  split; intros c Hc.
  - apply (synced_deposit_monotone_history e s u ops c I Hf Hc).
  - apply (synced_borrow_monotone_history e s u ops c I Hf Hc).
Qed.
Print Assumptions C08_no_action_never_decreases.

(* the queries themselves: on a state satisfying the invariant GetSyncedDeposit never panics, and
   GetSyncedBorrow does not when the borrow factors are at most 10^18; both report at least the
   stored amounts *)
Theorem C08_synced_queries_do_not_panic :
  forall e s u, HInv e s ->
  (forall r, dep s u = Some r -> exists c, synced_deposit e s u = Some (Ok c tt) /\ forall d, amt r d <= c d) /\
  ((forall d F, bfac s d = Some F -> F <= PREC * PREC) ->
   forall r, bor s u = Some r -> exists c, synced_borrow e s u = Some (Ok c tt) /\ forall d, amt r d <= c d).
Proof. exact synced_queries_ok. Qed.
Print Assumptions C08_synced_queries_do_not_panic.

(* non-vacuity, and the market removal / re-add case concretely: after the accrual of [wa_prefix]
   (supply index of denom 2 about 4.3) governance removes market 2, a block drops it from the
   store, governance re-adds it, two more blocks pass: the index is kept, never reset, and user 0's
   claimable deposit does not shrink *)
Definition wd_ops : list op :=
  [SetParams (map (fun d => if Nat.eqb d 2 then None else params wa_init d) (seq 0 5));
   BeginBlock 1752796800 [1000000000000000000; 1000000000000000000; 1004630961015383585; 1000000000000000000];
   SetParams (map (params wa_init) (seq 0 5));
   BeginBlock 1752883200 [1000000000000000000; 1000000000000000000; 1000000000000000000; 1000000000000000000];
   BeginBlock 1752969600 [1000000000000000000; 1000000000000000000; 1004630961015383585; 1000000000000000000]].
Example C08_market_readd_keeps_index :
  let s := run wa_env wa_init (firstn 6 wa_prefix) in
  let s1 := run wa_env s (firstn 2 wd_ops) in
  let s2 := run wa_env s wd_ops in
  Forall (fun o => ~ targets o 0%nat) wd_ops /\
  mkts s 2%nat <> None /\ mkts s1 2%nat = None /\ mkts s2 2%nat <> None /\
  match sfac s 2%nat, sfac s1 2%nat, sfac s2 2%nat with
  | Some f, Some f1, Some f2 => PREC < f /\ f <= f1 /\ f1 < f2
  | _, _, _ => False
  end /\
  match synced_deposit wa_env s 0%nat, synced_deposit wa_env s2 0%nat with
  | Some (Ok c _), Some (Ok c' _) => 0 < c 2%nat /\ c 2%nat < c' 2%nat
  | _, _ => False
  end.
Proof.
  cbv zeta. split; [repeat constructor; intros []|].
  vm_compute. repeat split; discriminate.
Qed.

(** * caps, scope and begin blocker on reachable states (no side hypotheses) *)

(* a successful MsgWithdraw pays min(requested, synced deposit) per denom, never more than the
   deposit as synced by the handler, and the record keeps the rest *)
Theorem C08_withdraw_capped_reachable :
  forall e s u c s', HInv e s -> step e s (Withdraw u c) = Ok s' tt ->
  exists s2 r, sync_position e s u = Ok s2 tt /\ dep s2 u = Some r /\
    let moved := capped e (of_list c) (amt r) in
    (forall d, bal s' u d = bal s u d + moved d /\ bal s' (hacc e) d = bal s (hacc e) d - moved d) /\
    (forall d, 0 <= moved d <= amt r d) /\ (forall d, moved d <= of_list c d) /\
    ceq (nd e) (amt_of (dep s' u)) (csub (amt r) moved).
Proof. exact withdraw_capped_inv. Qed.
Print Assumptions C08_withdraw_capped_reachable.

Theorem C08_repay_capped_reachable :
  forall e s a o c s', HInv e s -> step e s (Repay a o c) = Ok s' tt ->
  exists s2 r, sync_borrow e s o = Ok s2 tt /\ bor s2 o = Some r /\
    let pay := capped e (of_list c) (amt r) in
    (forall d, bal s' a d = bal s a d - pay d /\ bal s' (hacc e) d = bal s (hacc e) d + pay d) /\
    (forall d, 0 <= pay d <= amt r d) /\ (forall d, pay d <= of_list c d) /\
    ceq (nd e) (amt_of (bor s' o)) (csub (amt r) pay).
Proof. exact repay_capped_inv. Qed.
Print Assumptions C08_repay_capped_reachable.

(* the debt synced inside MsgRepay is exactly what GetSyncedBorrow reported before the message:
   a repayment never exceeds the synced debt as the query shows it *)
Theorem C08_repay_capped_by_query :
  forall e s a o c s', HInv e s -> step e s (Repay a o c) = Ok s' tt ->
  exists q, synced_borrow e s o = Some (Ok q tt) /\
    forall d, bal s' a d = bal s a d - capped e (of_list c) q d /\
              bal s' (hacc e) d = bal s (hacc e) d + capped e (of_list c) q d /\
              0 <= capped e (of_list c) q d <= q d.
Proof. exact repay_capped_by_query. Qed.
Print Assumptions C08_repay_capped_by_query.

(* and the deposit synced inside MsgWithdraw is exactly what GetSyncedDeposit reported before the
   message (loadSyncedDeposit rounds Mul-then-Quo like SyncSupplyInterest since fix 6c61e7a5b):
   a withdrawal never exceeds the synced deposit as the query shows it *)
Theorem C08_withdraw_capped_by_query :
  forall e s u c s', HInv e s -> step e s (Withdraw u c) = Ok s' tt ->
  exists q, synced_deposit e s u = Some (Ok q tt) /\
    forall d, bal s' u d = bal s u d + capped e (of_list c) q d /\
              bal s' (hacc e) d = bal s (hacc e) d - capped e (of_list c) q d /\
              0 <= capped e (of_list c) q d <= q d.
Proof. exact withdraw_capped_by_query. Qed.
Print Assumptions C08_withdraw_capped_by_query.

(* regression: the history on which the earlier loadSyncedDeposit (amount/index*factor) reported
   1 ukava while MsgWithdraw paid 2 -- user 2 deposits 1 ukava at supply index 1.148673, a later
   accrual doubles the index exactly -- now reports 2, and 2 is paid *)
Definition wr_env : env := mk_env 5 4 0.
Definition wr_init : state := mk_state [[100000000000000000; 100000000000000000; 1000000000000000; 1000000000000000000000000000; 1000000000000000]; [100000000000000000; 100000000000000000; 1000000000000000; 1000000000000000000000000000; 1000000000000000]; [100000000000000000; 100000000000000000; 1000000000000000; 1000000000000000000000000000; 1000000000000000]; [4000000000; 4000000000; 40000000; 40000000000000000000; 40000000]; [0; 0; 0; 0; 0]; [0; 0; 0; 0; 0]] [300000000000000000000; 1000000000000000000; 1000000000000000000; 2000000000000000000000; 0] [Some 1704067200; Some 1704067200; Some 1704067200; Some 1704067200; None]
  [Some (mkMarket 100000000 800000000000000000 false 0 25000000000000000 50000000000000000 800000000000000000 2000000000000000000 800000000000000000 10000000000000000000); Some (mkMarket 100000000 600000000000000000 false 0 25000000000000000 50000000000000000 800000000000000000 2000000000000000000 800000000000000000 10000000000000000000); Some (mkMarket 1000000 600000000000000000 false 0 0 50000000000000000 800000000000000000 2000000000000000000 800000000000000000 10000000000000000000); Some (mkMarket 1000000000000000000 750000000000000000 false 0 50000000000000000 50000000000000000 800000000000000000 2000000000000000000 800000000000000000 10000000000000000000); None].
Definition wr_ops : list op := [Deposit 0%nat [(2%nat, 1000000)];
  Deposit 1%nat [(0%nat, 100000000000)];
  Borrow 1%nat [(2%nat, 1000000)];
  BeginBlock 1706659200 [1000000000000000000; 1000000000000000000; 1148673884606207604; 1000000000000000000];
  Deposit 2%nat [(2%nat, 1)];
  BeginBlock 1719621213 [1000000000000000000; 1000000000000000000; 2000000937117696188; 1000000000000000000];
  Deposit 0%nat [(2%nat, 1000)]].
Definition wr_check : bool :=
  let s := run wr_env wr_init wr_ops in
  match step wr_env s (Withdraw 2%nat [(2%nat, 10)]), synced_deposit wr_env s 2%nat, sfac s 2%nat with
  | Ok s1 _, Some (Ok q1 _), Some f =>
      (f =? 2297346000000000000) && (q1 2%nat =? 2) && (bal s1 2%nat 2%nat - bal s 2%nat 2%nat =? 2)
  | _, _, _ => false
  end.
Example C08_synced_deposit_rounds_like_sync : wr_check = true.
Proof. vm_compute. reflexivity. Qed.

(* a liquidation leaves every other user's position exactly as it was: the deposit and borrow
   records with their index lists, and (the global factors being untouched) the synced amounts *)
Theorem C08_liq_others_untouched :
  forall e s k b s', liquidate e s k b = Ok s' tt -> forall v, v <> b ->
  dep s' v = dep s v /\ bor s' v = bor s v /\
  synced_deposit e s' v = synced_deposit e s v /\ synced_borrow e s' v = synced_borrow e s v.
Proof. exact liquidate_others_untouched. Qed.
Print Assumptions C08_liq_others_untouched.

(* MsgLiquidate on a state satisfying the invariant, in one statement: only the borrower's records
   are removed; every other user keeps records, index lists and synced amounts; at most the
   (non-negative) synced deposit leaves the module per denom, auction lots, keeper reward and
   returned remainder together; the keeper gets exactly the truncated share; nobody else's balance
   moves *)
Theorem C08_liq_scope_reachable :
  forall e s k b s', HInv e s -> step e s (Liquidate k b) = Ok s' tt ->
  exists s2 dp, sync_position e s b = Ok s2 tt /\ dep s2 b = Some dp /\ (forall d, 0 <= amt dp d) /\
    dep s' b = None /\ bor s' b = None /\
    (forall v, v <> b -> dep s' v = dep s v /\ bor s' v = bor s v /\
                         synced_deposit e s' v = synced_deposit e s v /\ synced_borrow e s' v = synced_borrow e s v) /\
    (forall d, (d < nd e)%nat -> bal s (hacc e) d - bal s' (hacc e) d <= amt dp d) /\
    (k <> b -> forall d, (d < nd e)%nat ->
       bal s' k d = bal s k d + Z.max 0 (dec_trunc_int (dec_mul_int (keeper_pct s2 d) (amt dp d)))) /\
    (forall x d, x <> hacc e -> x <> aacc e -> x <> b -> x <> k -> bal s' x d = bal s x d).
Proof. exact liq_scope_inv. Qed.
Print Assumptions C08_liq_scope_reachable.

(* hard.BeginBlocker never panics on a reachable state: from any state satisfying the invariant
   with valid reserve factors, after any history whose parameter changes carry valid reserve
   factors, for oracle factors >= 1 *)
Theorem C08_begin_block_no_panic_reachable :
  forall e s ops t fs,
  HInv e s -> mkts_ok s -> Forall op_params_ok ops ->
  (forall d, (d < nd e)%nat -> PREC <= nthZ fs d) ->
  exists s', begin_block e (run e s ops) t fs = Ok s' tt.
Proof. exact begin_block_no_panic_reachable. Qed.
Print Assumptions C08_begin_block_no_panic_reachable.

Theorem C08_genesis_markets_ok :
  forall bals prices prevs mms,
  (forall d m, nthO mms d = Some m -> 0 <= m_reserve m <= PREC) -> mkts_ok (mk_state bals prices prevs mms).
Proof. exact genesis_mkts_ok. Qed.
Print Assumptions C08_genesis_markets_ok.

(* bookkeeping: the totals (supplied, borrowed, reserves) are part of the model and non-negative
   by the invariant, but they are NOT the sums of the positions -- per-user interest is truncated
   per user, the totals per market (the code clamps its decrements for this reason).  No clause of
   the property rests on such an equality: the caps use the user's own synced record, the
   "lack of cash" clause the module's bank balance.  Witness: after the accrual of [wa_prefix] the
   synced deposits of denom 2 add up to one unit less than the supplied total. *)
Example C08_totals_are_not_sums_of_positions :
  let s := run wa_env wa_init (firstn 6 wa_prefix) in
  match synced_deposit wa_env s 0%nat, dep s 1%nat, dep s 2%nat, dep s 3%nat with
  | Some (Ok c _), Some r1, Some r2, None => c 2%nat + amt r1 2%nat + amt r2 2%nat + 1 = tsup s 2%nat
  | _, _, _, _ => False
  end.
Proof. vm_compute. reflexivity. Qed.

(** * The correspondence checker evaluates the plain machine

    [check_history] / [mismatches] (Model/Hard.v), which the harness evaluates on every recorded
    history, re-tabulate the model state after every step ([normalize]) for evaluation speed.
    Proofs/RetabHard.v proves that this changes nothing: on the in-range indexes (accounts <
    nacc, users < nu, denoms < nd; a record = its amounts on the denoms < nd and its index list)
    the re-tabulated state has the components of the plain one, every operation reads in-range
    indexes only, and so the checker returns exactly what the same checker WITHOUT [normalize]
    returns ([check_history_plain]: step / step' only).  What normalize drops is the value of the
    components at out-of-range indexes. *)
From Kava Require Proofs.RetabCommon Proofs.RetabHard.

Theorem C08_normalize_agrees_in_range : forall e s, RetabHard.steq e (normalize e s) s.
Proof. exact RetabHard.normalize_steq. Qed.
Print Assumptions C08_normalize_agrees_in_range.

(* every operation maps states that agree in range to states that agree in range, with the
   same result class (Ok / Err / Panic) *)
Theorem C08_step_respects_in_range_agreement :
  forall e s s' o, RetabHard.steq e s s' ->
  RetabCommon.orel (RetabHard.steq e) (step e s o) (step e s' o).
Proof. exact RetabHard.step_steq. Qed.
Print Assumptions C08_step_respects_in_range_agreement.

Theorem C08_observables_respect_in_range_agreement :
  forall e s s', RetabHard.steq e s s' -> project e s = project e s' /\ inv_b e s = inv_b e s'.
Proof. intros e s s' Q. split; [apply RetabHard.project_steq|apply RetabHard.inv_b_steq]; exact Q. Qed.
Print Assumptions C08_observables_respect_in_range_agreement.

Theorem C08_checker_is_plain_run :
  forall h, check_history h = RetabHard.check_history_plain h.
Proof. exact RetabHard.check_history_retab_eq_plain. Qed.
Print Assumptions C08_checker_is_plain_run.

Theorem C08_mismatches_is_plain_run :
  forall hs, mismatches hs = RetabHard.mismatches_plain hs.
Proof. exact RetabHard.mismatches_retab_eq_plain. Qed.
Print Assumptions C08_mismatches_is_plain_run.

(* the states the plain checker accepts are the states of [run] on the history's operations:
   after every accepted prefix the invariant holds and the view equals the recorded one *)
Theorem C08_plain_checker_visits_run :
  forall e h s sh i, RetabHard.first_mismatch_plain e s sh h i = None ->
  forall k, (k <= length h)%nat ->
    let st := run e s (map fst (firstn k h)) in
    inv_b e st = true /\ view_eqb (project e st) (fold_left apply_obs (map snd (firstn k h)) sh) = true
    \/ k = 0%nat.
Proof. exact RetabHard.first_mismatch_plain_states. Qed.
Print Assumptions C08_plain_checker_visits_run.

(* non-vacuity: a recorded observation that contradicts the plain run is reported, by both *)
Example C08_plain_checker_nonvacuous :
  let e := mk_env 1 1 0 in
  let s0 := mk_state [[100]; [0]; [0]] [PREC] [None] [None] in
  let ok := mkObs ROk [] [] [] [] [] [] [] [] [] [] [] [] in
  let h_ok := mkHist e s0 [(SetPrice 0 (2 * PREC), ok); (Deposit 0 [(0%nat, 5)], mkObs RErr [] [] [] [] [] [] [] [] [] [] [] [])] in
  let h_bad := mkHist e s0 [(SetPrice 0 (2 * PREC), ok); (Deposit 0 [(0%nat, 5)], ok)] in
  RetabHard.check_history_plain h_ok = None /\ check_history h_ok = None /\
  RetabHard.check_history_plain h_bad = Some 1%nat /\ check_history h_bad = Some 1%nat.
Proof. cbv zeta. repeat split; vm_compute; reflexivity. Qed.

(** * Arithmetic probes (Model/HardArith.v): the four interest computations on crafted records *)
From Kava Require Import Model.HardArith.

(* a probe that agrees with the model shows the handler-side sync and the query agreeing:
   on the borrow side always, on the supply side whenever the interest is not negative
   (it never is for a factor at or above the user's index: C08_invariant_all_histories) *)
Theorem C08_probe_borrow_sync_equals_view :
  forall p, probe_ok p = true -> p_sync_b p = p_view_b p.
Proof.
  intros p H. unfold probe_ok in H.
  apply andb_prop in H. destruct H as [H _]. apply andb_prop in H. destruct H as [H _].
  apply andb_prop in H. destruct H as [H1 H2].
  apply Z.eqb_eq in H1. apply Z.eqb_eq in H2. unfold model_sync_b, model_view_b in *. congruence.
Qed.
Print Assumptions C08_probe_borrow_sync_equals_view.

Theorem C08_probe_supply_sync_equals_view :
  forall p, probe_ok p = true -> 0 <= sup_interest (p_a p) (p_f p) (p_uf p) -> p_sync_s p = p_view_s p.
Proof.
  intros p H I. unfold probe_ok in H.
  apply andb_prop in H. destruct H as [H H4]. apply andb_prop in H. destruct H as [_ H3].
  apply Z.eqb_eq in H3. apply Z.eqb_eq in H4. unfold model_sync_s, model_view_s in *.
  destruct (Z.ltb_spec 0 (sup_interest (p_a p) (p_f p) (p_uf p))); lia.
Qed.
Print Assumptions C08_probe_supply_sync_equals_view.

(* the corner the probes aim at: amount*factor/index is an integer, amount/index is not *)
Example C08_probe_rounding_corner :
  bor_interest 10000000 (6 * PREC) (3 * PREC) = 9999999 /\ sup_interest 10000000 (6 * PREC) (3 * PREC) = 10000000.
Proof. vm_compute. split; reflexivity. Qed.
