(* C08 — hard money market. Property theorems only; proofs are in Proofs/Hard.v. *)
From Kava Require Import Base.Prelude Base.Dec Model.Hard Proofs.Hard.

Theorem C08_failed_changes_nothing :
  forall e s o, (forall s' u, step e s o <> Ok s' u) -> step' e s o = s.
Proof.
  intros e s o H. unfold step'. destruct (step e s o) as [s' u| |] eqn:E; auto.
  exfalso. exact (H s' u eq_refl).
Qed.
Print Assumptions C08_failed_changes_nothing.
