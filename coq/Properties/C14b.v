(* C14b — component of C14 (genesis export/import round trip): per-module round-trip
   theorems over the module models of pricefeed, hard, swap, savings and incentive.
   Property theorems only; the proofs are in Proofs/Genesis*.v. *)
From Kava Require Import Base.Prelude Base.Dec.
From Kava Require Import Model.Pricefeed Proofs.Pricefeed Model.GenesisPricefeed Proofs.GenesisPricefeed.
Local Open Scope Z_scope.

(** * x/pricefeed *)

(* From every state satisfying the module invariant: the exported genesis passes
   GenesisState.Validate; InitGenesis of it (same block time, empty store) does not panic;
   params, block time and the cdp status flags are the same; the raw-price store holds exactly
   the exported state's unexpired posts of markets in the params ([kept]); the current price
   of every active market with an unexpired post is the median of those posts and no other
   market has a current-price entry ([cur_after]); the invariant holds again. *)
Theorem C14_pricefeed_roundtrip :
  forall e s, GInv s ->
  validate_genesis (export_genesis e s) = true /\
  exists s', init_genesis e (now s) (status s) (export_genesis e s) = Ok s' [] /\
    now s' = now s /\ markets s' = markets s /\ status s' = status s /\
    (forall m o, raw s' m o = kept e s m o) /\
    (forall m, cur s' m = cur_after e s m) /\
    GInv s'.
Proof. exact roundtrip. Qed.
Print Assumptions C14_pricefeed_roundtrip.

(* what is dropped is inert: every market in the params has the same unexpired posts *)
Theorem C14_pricefeed_live_posts_preserved :
  forall e s s' out m, GInv s -> reimport e s = Ok s' out ->
  In m (map m_id (markets s)) -> live e s' m = live e s m.
Proof. exact reimport_live. Qed.
Print Assumptions C14_pricefeed_live_posts_preserved.

(* the next end blocker stores the same current price for every active market on the
   imported and on the original chain *)
Theorem C14_pricefeed_next_end_block_same_price :
  forall e s s' out t1 o1 t2 o2 m, GInv s -> reimport e s = Ok s' out ->
  set_all e s = Ok t1 o1 -> set_all e s' = Ok t2 o2 ->
  mem m (active_ids (markets s)) = true -> cur t2 m = cur t1 m.
Proof. exact reimport_next_end_block. Qed.
Print Assumptions C14_pricefeed_next_end_block_same_price.

(* exported from a state as an end blocker leaves it (the state a real export sees):
   GetCurrentPrice of every active market answers the same before and after *)
Theorem C14_pricefeed_price_preserved_after_end_block :
  forall e s0 s o1 s' out m, GInv s0 -> set_all e s0 = Ok s o1 -> reimport e s = Ok s' out ->
  mem m (active_ids (markets s)) = true -> get_current_price s' m = get_current_price s m.
Proof.
  intros e s0 s o1 s' out m I E R M.
  assert (G : GInv s) by (apply (gstep_inv e s0 (GOp EndBlock) s o1 I); exact E).
  exact (reimport_settled_price e s s' out m G (end_block_settled e s0 s o1 E) R M).
Qed.
Print Assumptions C14_pricefeed_price_preserved_after_end_block.

(* all reachable states (ordinary operations and earlier re-imports interleaved) *)
Theorem C14_pricefeed_roundtrip_all_histories :
  forall e s0 ops, GInv s0 ->
  validate_genesis (export_genesis e (grun e s0 ops)) = true /\
  exists s', gstep e (grun e s0 ops) GReimport = Ok s' [1] /\ GInv s'.
Proof. exact reimport_all_histories. Qed.
Print Assumptions C14_pricefeed_roundtrip_all_histories.

(* REFUTED for the stronger reading "every market answers as before": the frozen current
   price of an inactive market is not part of the genesis state *)
Theorem C14_pricefeed_inactive_market_price_refuted :
  exists e s, GInv s /\ get_current_price s 0 = Some 5 /\
  exists s', reimport e s = Ok s' [1] /\ get_current_price s' 0 = None.
Proof. exists w_env, w_inactive. exact inactive_price_lost. Qed.
Print Assumptions C14_pricefeed_inactive_market_price_refuted.

(* REFUTED for "the imported chain behaves like the original" across a parameter change:
   unexpired posts of a market that is not in the params at export time are not exported *)
Theorem C14_pricefeed_removed_market_posts_refuted :
  exists e s ops, GInv s /\ get_current_price (run e s ops) 0 = Some 7 /\
  exists s', reimport e s = Ok s' [1] /\ get_current_price (run e s' ops) 0 = None.
Proof. exists w_env, w_removed, w_restore. exact removed_market_posts_lost. Qed.
Print Assumptions C14_pricefeed_removed_market_posts_refuted.

(* non-vacuity: a state with an expired post, a post expiring exactly at the block time,
   an unexpired post and an inactive market; the import keeps exactly the unexpired post *)
Example C14_pricefeed_nonvacuous :
  let e := mkEnv 2 3 [] in
  let s := mk_state (50 * NS) [mkMarket 0 true [0%nat; 1%nat; 2%nat]; mkMarket 1 false [0%nat]]
             [(0%nat, 0%nat, 3, 49 * NS); (0%nat, 1%nat, 4, 50 * NS); (0%nat, 2%nat, 9, 50 * NS + 1); (1%nat, 0%nat, 6, 90 * NS)]
             [(0%nat, 9); (1%nat, 6)] [true; true] in
  validate_genesis (export_genesis e s) = true /\
  length (g_posts (export_genesis e s)) = 4%nat /\
  match reimport e s with
  | Ok s' out => out = [1] /\ raw s' 0%nat 0%nat = None /\ raw s' 0%nat 1%nat = None /\ raw s' 0%nat 2%nat = Some (9, 50 * NS + 1)
                 /\ raw s' 1%nat 0%nat = Some (6, 90 * NS) /\ cur s' 0%nat = Some 9 /\ cur s' 1%nat = None
  | _ => False
  end.
Proof. cbv zeta. repeat split; vm_compute; reflexivity. Qed.

(** * x/hard *)
(* (the names of Model/Hard.v and Model/GenesisHard.v shadow the pricefeed ones from here on) *)
From Kava Require Import Model.Hard Proofs.Hard Proofs.HardInv Proofs.HardSync Model.GenesisHard Proofs.GenesisHard.

(* [Ready e s]: the module invariant HInv of C08 (kept by every operation), interest factors
   at most 10^18, every money market of the params has a previous accrual time and valid
   parameters.  Then ExportGenesis does not panic, the exported genesis state passes
   GenesisState.Validate, InitGenesis does not panic, and the imported state is, component by
   component ([Imported]): bank and prices untouched; params and money-market store = the
   params; interest factors (1.0 where none was stored) and accrual times of the params'
   markets; totals unchanged; every deposit and borrow replaced by its SYNCED form (amount plus
   the interest GetSyncedDeposit / GetSyncedBorrow report, one index entry per coin holding the
   current global factor). *)
Theorem C14_hard_roundtrip :
  forall e s, Ready e s ->
  export_genesis e s = Ok (the_genesis e s) tt /\
  validate_genesis (the_genesis e s) = true /\
  exists s', init_genesis e s (the_genesis e s) = Ok s' tt /\ reimport e s = Ok s' tt /\ Imported e s s'.
Proof. exact roundtrip. Qed.
Print Assumptions C14_hard_roundtrip.

(* the interest the export settles changes no user-visible value: when every coin of every
   position belongs to a money market of the params, GetSyncedDeposit and GetSyncedBorrow of
   every user answer exactly the same amounts on the imported state *)
Theorem C14_hard_synced_deposit_preserved :
  forall e s s' u c, Ready e s -> positions_in_params e s -> Imported e s s' -> (u < nu e)%nat ->
  synced_deposit e s u = Some (Ok c tt) ->
  exists c', synced_deposit e s' u = Some (Ok c' tt) /\ forall d, (d < nd e)%nat -> c' d = c d.
Proof. exact synced_deposit_preserved. Qed.
Print Assumptions C14_hard_synced_deposit_preserved.

Theorem C14_hard_synced_borrow_preserved :
  forall e s s' u c, Ready e s -> positions_in_params e s -> Imported e s s' -> (u < nu e)%nat ->
  synced_borrow e s u = Some (Ok c tt) ->
  exists c', synced_borrow e s' u = Some (Ok c' tt) /\ forall d, (d < nd e)%nat -> c' d = c d.
Proof. exact synced_borrow_preserved. Qed.
Print Assumptions C14_hard_synced_borrow_preserved.

(* the arithmetic fact behind it: a position whose index equals the global factor accrues nothing *)
Theorem C14_hard_settled_position_accrues_nothing :
  forall a f, 0 <= a -> PREC <= f -> f <= PREC * PREC -> bor_interest a f f = 0.
Proof. exact bor_interest_self. Qed.
Print Assumptions C14_hard_settled_position_accrues_nothing.

Theorem C14_hard_settled_deposit_accrues_nothing :
  forall a f, 0 <= a -> 0 < f -> sup_interest a f f = 0.
Proof. exact sup_interest_self. Qed.
Print Assumptions C14_hard_settled_deposit_accrues_nothing.

(* non-vacuity: a deposit of 1000 with index 1.0 under a global supply factor 1.25 (index list in
   stored order), a money market with accrual time: the export lists the deposit as 1250 with
   index 1.25; the import stores that; GetSyncedDeposit answers 1250 before and after *)
Definition nv_env : env := mk_env 1 1 0.
Definition nv_market : market := mkMarket 1 (PREC / 2) false 0 0 0 0 0 0 0.
Definition nv_state : state :=
  mkState (fun _ _ => 5000) (fun _ => PREC)
          (fun u => if Nat.eqb u 0 then Some (mkU (fun d => if Nat.eqb d 0 then 1000 else 0) [(0%nat, PREC)]) else None)
          (fun _ => None) (fun d => if Nat.eqb d 0 then Some (PREC + PREC / 4) else None) (fun d => if Nat.eqb d 0 then Some PREC else None)
          (fun d => if Nat.eqb d 0 then Some 77 else None)
          (fun d => if Nat.eqb d 0 then 1250 else 0) czero czero
          (fun d => if Nat.eqb d 0 then Some nv_market else None) (fun d => if Nat.eqb d 0 then Some nv_market else None).
Example C14_hard_nonvacuous :
  export_genesis nv_env nv_state =
    Ok (mkGen 0 [(0%nat, nv_market)] [mkGat 0 77 (PREC + PREC / 4) PREC] [mkGRec 0 [(0%nat, 1250)] [(0%nat, PREC + PREC / 4)]] [] [(0%nat, 1250)] [] []) tt /\
  match reimport nv_env nv_state with
  | Ok s' _ => option_map (fun r => (amt r 0%nat, idx r)) (dep s' 0%nat) = Some (1250, [(0%nat, PREC + PREC / 4)])
               /\ sres_of 1 (synced_deposit nv_env s' 0) = SSome [1250] /\ sres_of 1 (synced_deposit nv_env nv_state 0) = SSome [1250]
  | _ => False
  end.
Proof. split; vm_compute; [reflexivity|]. repeat split; reflexivity. Qed.

(* the invariant holds again *)
Theorem C14_hard_imported_invariant :
  forall e s s', Ready e s -> positions_in_params e s -> Imported e s s' -> HInv e s'.
Proof. exact imported_inv. Qed.
Print Assumptions C14_hard_imported_invariant.

(* all reachable states: HInv is C08's theorem for every history from every genesis; at any
   point of any history where the remaining side conditions hold the round trip goes through *)
Theorem C14_hard_roundtrip_all_histories :
  forall e bals prices prevs mms ops,
  let s := run e (mk_state bals prices prevs mms) ops in
  bounded (sfac s) -> bounded (bfac s) ->
  (forall d m, (d < nd e)%nat -> params s d = Some m -> prev s d <> None /\ market_valid m = true) ->
  0 <= min_borrow e ->
  validate_genesis (the_genesis e s) = true /\ exists s', reimport e s = Ok s' tt /\ Imported e s s'.
Proof.
  intros e bals prices prevs mms ops s Bs Bb Pm Mb.
  assert (R : Ready e s).
  { constructor; try assumption; [apply invariant_all_histories| |]; intros d m Hd P; apply (Pm d m Hd P). }
  destruct (roundtrip e s R) as [_ [V [s' [_ [E Im]]]]]. split; [exact V|]. exists s'. split; assumption.
Qed.
Print Assumptions C14_hard_roundtrip_all_histories.

(* REFUTED for "any reachable state": a money market added by governance has no accrual time
   until the next begin blocker; ExportGenesis panics in between (the code says so itself) *)
Theorem C14_hard_export_new_market_refuted :
  exists e s0 ops, reimport e (run e s0 ops) = Panic.
Proof. exists wh_env, wh_new, [SetParams [Some wh_market]]. exact export_panics_for_new_market. Qed.
Print Assumptions C14_hard_export_new_market_refuted.

(* REFUTED without [positions_in_params]: the interest factor of a money market that is not in
   the params is not exported; after two round trips the position's index is 0, the third export
   panics and so does the owner's next withdrawal *)
Theorem C14_hard_removed_market_refuted :
  exists e s s1 s2, reimport e s = Ok s1 tt /\ sfac s 0%nat = Some (2 * PREC) /\ sfac s1 0%nat = None /\
    reimport e s1 = Ok s2 tt /\ reimport e s2 = Panic /\ step e s2 (Withdraw 0 [(0%nat, 1)]) = Panic.
Proof.
  destruct removed_market_factor_lost as [s1 [s2 H]]. exists wh_env, wh_removed, s1, s2. exact H.
Qed.
Print Assumptions C14_hard_removed_market_refuted.

(** * x/swap *)
From Kava Require Import Model.Swap Proofs.Swap Model.GenesisSwap Proofs.GenesisSwap.

(* From every state satisfying the module invariant of C07 (module balance = sum of reserves,
   pool total shares = sum of the depositors' shares, pools well formed, shares non-negative),
   with valid parameters: the exported genesis passes GenesisState.Validate (incl. the
   shares-total cross-check), InitGenesis does not panic, and balances, every pool record and
   every share record of the identifier universe are exactly the same. *)
Theorem C14_swap_roundtrip :
  forall e s, Inv e s -> PValid e ->
  validate_genesis (export_genesis e s) = true /\
  exists s', reimport e s = Ok s' [] /\
    k_bal s' = k_bal s /\
    (forall x y, k_pool s' x y = pools_of e s x y) /\
    (forall a x y, k_sh s' a x y = shares_of e s a x y).
Proof. exact roundtrip. Qed.
Print Assumptions C14_swap_roundtrip.

Theorem C14_swap_roundtrip_observably_equal :
  forall e s s' out, Inv e s -> PValid e -> reimport e s = Ok s' out -> project e s' = project e s.
Proof. exact roundtrip_observably_equal. Qed.
Print Assumptions C14_swap_roundtrip_observably_equal.

Theorem C14_swap_imported_invariant :
  forall e s s' out, Inv e s -> PValid e -> reimport e s = Ok s' out -> Inv e s'.
Proof. exact reimport_inv. Qed.
Print Assumptions C14_swap_imported_invariant.

(* all reachable states, re-imports interleaved with ordinary operations *)
Theorem C14_swap_roundtrip_all_histories :
  forall e s0 ops, PValid e -> Inv e s0 ->
  validate_genesis (export_genesis e (grun e s0 ops)) = true /\
  exists s', gstep e (grun e s0 ops) GReimport = Ok s' [] /\ project e s' = project e (grun e s0 ops) /\ Inv e s'.
Proof. exact reimport_all_histories. Qed.
Print Assumptions C14_swap_roundtrip_all_histories.

(* the validation's cross-check is the invariant: the shares total of an exported pool is
   the sum of the exported share records of that pool *)
Theorem C14_swap_export_totals :
  forall e s x y, (x < nden e)%nat -> (y < nden e)%nat ->
  total_of (export_pools e s) x y = pool_shares (k_pool s x y) /\
  owned_of (export_shares e s) x y = sumN (S (nusers e)) (fun a => k_sh s a x y).
Proof. intros e s x y Hx Hy. split; [apply total_of_export|apply owned_export]; assumption. Qed.
Print Assumptions C14_swap_export_totals.

(* non-vacuity: two depositors, a dust share; a dropped share record fails validation *)
Example C14_swap_nonvacuous :
  let e := mkEnv 2 2 [(0%nat, 1%nat)] 3000000000000000 in
  let s := mkK (fun a d => if Nat.eqb a 2 then (if Nat.eqb d 0 then 1000 else 4000) else 50)
               (fun x y => if Nat.eqb x 0 && Nat.eqb y 1 then Some (mkPool 1000 4000 2000) else None)
               (fun a x y => if Nat.eqb x 0 && Nat.eqb y 1 then (if Nat.eqb a 0 then 1999 else if Nat.eqb a 1 then 1 else 0) else 0) in
  inv_b e s = true /\
  export_genesis e s = mkGen [(0%nat, 1%nat)] 3000000000000000 [mkGP 0 1 0 1 1000 4000 2000] [mkGS 0 0 1 1999; mkGS 1 0 1 1] /\
  validate_genesis (export_genesis e s) = true /\
  validate_genesis (mkGen [(0%nat, 1%nat)] 3000000000000000 [mkGP 0 1 0 1 1000 4000 2000] [mkGS 0 0 1 1999]) = false /\
  class_of (reimport e s) = ROk.
Proof. cbv zeta. repeat split; vm_compute; reflexivity. Qed.

(** * x/savings *)
From Kava Require Import Model.Savings Proofs.Savings Model.Earn Proofs.Earn Model.GenesisSavings Proofs.GenesisSavings.

(* From every savings state without negative deposits (part of the invariant of C11): the
   exported genesis passes GenesisState.Validate, InitGenesis does not panic, the bank is
   untouched and the deposit table of the identifier universe is exactly the same. *)
Theorem C14_savings_roundtrip :
  forall e s, (forall a d, 0 <= sdep s a d) -> ascending (denoms e) = true ->
  validate_genesis (export_genesis e s) = true /\
  exists s', sreimport e s = Ok s' tt /\ bal s' = bal s /\ forall a d, sdep s' a d = sdep_of e s a d.
Proof. exact roundtrip. Qed.
Print Assumptions C14_savings_roundtrip.

(* with all deposits inside the universe the whole state is identical and the invariant
   (module balance = sum of the deposits) holds again *)
Theorem C14_savings_roundtrip_identical :
  forall e s s', SInv e s -> closed e s -> ascending (denoms e) = true -> sreimport e s = Ok s' tt ->
  bal s' = bal s /\ (forall a d, sdep s' a d = sdep s a d) /\ SInv e s' /\ closed e s'.
Proof. exact roundtrip_closed. Qed.
Print Assumptions C14_savings_roundtrip_identical.

(* all reachable states of the earn + savings histories of C11 (the earn module account
   is itself a depositor of the savings-strategy vaults); earn's own state is untouched *)
Theorem C14_savings_roundtrip_all_histories :
  forall e s0 ops, env_wf e -> Inv e s0 -> ascending (denoms (se e)) = true ->
  let s := run e s0 ops in
  validate_genesis (export_genesis (se e) (sv s)) = true /\
  exists s', gstep e s GReimport = Ok s' 0 /\ bal (sv s') = bal (sv s) /\
             (forall a d, sdep (sv s') a d = sdep_of (se e) (sv s) a d) /\
             hval s' = hval s /\ vrec s' = vrec s /\ shr s' = shr s.
Proof. exact reimport_all_histories. Qed.
Print Assumptions C14_savings_roundtrip_all_histories.

Example C14_savings_nonvacuous :
  let e := {| nacc := 3; sav_acc := 2; sav_supported := fun d => Nat.ltb d 2; denoms := [0%nat; 1%nat; 2%nat] |} in
  let s := mkS (fun a d => if Nat.eqb a 2 then (if Nat.eqb d 0 then 12 else if Nat.eqb d 1 then 5 else 0) else 100)
               (fun a d => if Nat.eqb a 0 then (if Nat.eqb d 0 then 12 else if Nat.eqb d 1 then 2 else 0)
                           else if Nat.eqb a 1 then (if Nat.eqb d 1 then 3 else 0) else 0) in
  export_genesis e s = mkGen [0%nat; 1%nat] [(0%nat, [(0%nat, 12); (1%nat, 2)]); (1%nat, [(1%nat, 3)])] /\
  validate_genesis (export_genesis e s) = true /\
  validate_genesis (mkGen [0%nat; 1%nat] [(0%nat, [(1%nat, 2); (0%nat, 12)])]) = false /\
  match sreimport e s with Ok s' _ => sdep s' 0%nat 1%nat = 2 /\ sdep s' 1%nat 0%nat = 0 | _ => False end.
Proof. cbv zeta. repeat split; vm_compute; reflexivity. Qed.

(** * x/incentive (one reward source) *)
From Kava Require Import Model.Accumulator Model.Incentive Model.GenesisIncentive Proofs.GenesisIncentive.

(* From every state without negative reward factors or stored rewards (part of the invariant
   of C09) whose accrual times are set: the exported genesis passes GenesisState.Validate,
   InitGenesis does not panic, and accrual times, global reward indexes, the existence of every
   claim, its stored reward and its reward indexes are exactly the same on the identifier
   universe; source shares, totals, bank and module account are untouched. *)
Theorem C14_incentive_roundtrip :
  forall e st, Nonneg st -> times_set st ->
  validate_genesis (export_genesis e st) = true /\
  exists st', reimport e st = Ok st' tt /\
    now st' = now st /\ tot st' = tot st /\ sh st' = sh st /\ macc st' = macc st /\ bal st' = bal st /\
    (forall p, g_time st' p = if Nat.ltb p (npools e) then g_time st p else None) /\
    (forall p d, g_idx st' p d = if Nat.ltb p (npools e) && Nat.ltb d (ndenoms e) then g_idx st p d else 0) /\
    (forall u, has_claim st' u = Nat.ltb u (nusers e) && has_claim st u) /\
    (forall u p d, u_idx st' u p d =
       if Nat.ltb u (nusers e) && has_claim st u && (Nat.ltb p (npools e) && Nat.ltb d (ndenoms e)) then u_idx st u p d else 0) /\
    (forall u d, rew st' u d = if Nat.ltb u (nusers e) && has_claim st u && Nat.ltb d (ndenoms e) then rew st u d else 0).
Proof. exact roundtrip. Qed.
Print Assumptions C14_incentive_roundtrip.

(* claims are exported as stored: an unsynchronised claim stays exactly as unsynchronised *)
Theorem C14_incentive_unsynced_claims_preserved :
  forall e st st' u p d, Nonneg st -> times_set st -> reimport e st = Ok st' tt ->
  (u < nusers e)%nat -> (p < npools e)%nat -> (d < ndenoms e)%nat -> has_claim st u = true ->
  g_idx st' p d - u_idx st' u p d = g_idx st p d - u_idx st u p d /\ rew st' u d = rew st u d.
Proof. exact roundtrip_keeps_unsynced. Qed.
Print Assumptions C14_incentive_unsynced_claims_preserved.

(* an accumulation time that is not set passes Validate and makes InitGenesis panic *)
Example C14_incentive_zero_time_panics :
  let e := mk_env 1 1 1 [None] 0 true in
  let g := mkGen [(0%nat, ZERO_T)] [] [] in
  validate_genesis g = true /\ class_of (init_genesis e (init 5 (fun _ => 0) (fun _ => None) (fun _ => 0)) g) = RPanic.
Proof. cbv zeta. split; vm_compute; reflexivity. Qed.

(** * InitGenesis as the gate of a chain start *)
From Kava Require Proofs.GenesisGateB.

(* x/hard, x/swap, x/savings, x/incentive: what GenesisState.Validate refuses is never imported -
   an InitGenesis that does not panic was given a genesis state that passes validation (for EVERY
   genesis state, not only exports: cross-record checks such as "the depositors' shares of a pool
   add up to the pool's total shares" gate the import) *)
Theorem C14_hard_import_implies_valid :
  forall e s0 g s' o, GenesisHard.init_genesis e s0 g = Ok s' o -> GenesisHard.validate_genesis g = true.
Proof. exact GenesisGateB.hard_import_implies_valid. Qed.
Print Assumptions C14_hard_import_implies_valid.

Theorem C14_swap_import_implies_valid :
  forall e s0 g s' o, GenesisSwap.init_genesis e s0 g = Ok s' o -> GenesisSwap.validate_genesis g = true.
Proof. exact GenesisGateB.swap_import_implies_valid. Qed.
Print Assumptions C14_swap_import_implies_valid.

Theorem C14_savings_import_implies_valid :
  forall e s0 g s' o, GenesisSavings.init_genesis e s0 g = Ok s' o -> GenesisSavings.validate_genesis g = true.
Proof. exact GenesisGateB.savings_import_implies_valid. Qed.
Print Assumptions C14_savings_import_implies_valid.

Theorem C14_incentive_import_implies_valid :
  forall e s0 g s' o, GenesisIncentive.init_genesis e s0 g = Ok s' o -> GenesisIncentive.validate_genesis g = true.
Proof. exact GenesisGateB.incentive_import_implies_valid. Qed.
Print Assumptions C14_incentive_import_implies_valid.

(* OBSERVATION (not a statement of the property: a refused genesis state is not an export of a
   reachable state): x/pricefeed's InitGenesis does not call GenesisState.Validate.  A post with a
   negative price is refused by Validate, imported by InitGenesis and becomes the current price. *)
Theorem C14_pricefeed_import_does_not_validate :
  GenesisPricefeed.validate_genesis GenesisGateB.pf_bad = false /\
  exists s', GenesisPricefeed.init_genesis GenesisGateB.pf_env 1000000000 (fun _ => true) GenesisGateB.pf_bad = Ok s' [] /\
             Pricefeed.raw s' 0%nat 0%nat = Some (-1, 5000000000) /\
             Pricefeed.get_current_price s' 0 = Some (-1).
Proof. exact GenesisGateB.pricefeed_import_does_not_validate. Qed.
Print Assumptions C14_pricefeed_import_does_not_validate.

(* non-vacuity of the swap gate: one pool with total shares 10 and one depositor owning 10 is
   imported; owning 9, owning 10 in two records of the same depositor, a share record without its
   pool and a duplicated pool record are refused *)
Example C14_swap_gate_nonvacuous :
  let e := Swap.mkEnv 2 3 [(0%nat, 2%nat)] 0 in
  let s0 := Swap.mkK (fun _ _ => 0) (fun _ _ => None) (fun _ _ _ => 0) in
  let p := GenesisSwap.mkGP 0 2 0 2 100 200 10 in
  let cls g := class_of (GenesisSwap.init_genesis e s0 g) in
  cls (GenesisSwap.mkGen [(0%nat, 2%nat)] 0 [p] [GenesisSwap.mkGS 1 0 2 10]) = ROk /\
  cls (GenesisSwap.mkGen [(0%nat, 2%nat)] 0 [p] [GenesisSwap.mkGS 1 0 2 9]) = RPanic /\
  cls (GenesisSwap.mkGen [(0%nat, 2%nat)] 0 [p] [GenesisSwap.mkGS 1 0 2 9; GenesisSwap.mkGS 1 0 2 1]) = RPanic /\
  cls (GenesisSwap.mkGen [(0%nat, 2%nat)] 0 [] [GenesisSwap.mkGS 1 0 2 10]) = RPanic /\
  cls (GenesisSwap.mkGen [(0%nat, 2%nat)] 0 [p; p] [GenesisSwap.mkGS 1 0 2 10]) = RPanic.
Proof. vm_compute. repeat split; reflexivity. Qed.

(** * x/hard on REACHABLE states: the hypotheses of the round trip moved from the state to the history *)
From Kava Require Import Model.Hard Proofs.Hard Proofs.HardInv Proofs.HardSync Model.GenesisHard Proofs.GenesisHard Proofs.GenesisHardReach.

(* [Ready0] is [Ready] without the bound on the SUPPLY interest factors, which the round trip does
   not need (and which no hypothesis on the oracle values gives: a block's supply factor divides
   by cash + borrows - reserves) *)
Theorem C14_hard_roundtrip_without_supply_bound :
  forall e s, Ready0 e s ->
  export_genesis e s = Ok (the_genesis e s) tt /\
  validate_genesis (the_genesis e s) = true /\
  exists s', init_genesis e s (the_genesis e s) = Ok s' tt /\ reimport e s = Ok s' tt /\ Imported e s s'.
Proof. exact roundtrip0. Qed.
Print Assumptions C14_hard_roundtrip_without_supply_bound.

Theorem C14_hard_imported_invariant_without_supply_bound :
  forall e s s', Ready0 e s -> positions_in_params e s -> Imported e s s' -> HInv e s'.
Proof. exact imported_inv0. Qed.
Print Assumptions C14_hard_imported_invariant_without_supply_bound.

(* the part of [Ready] that IS an invariant of reachable states: accrual times are never unset,
   and every begin blocker that does not panic leaves every money market of the params with one *)
Theorem C14_hard_begin_blocker_sets_accrual_times :
  forall e s t fs s', begin_block e s t fs = Ok s' tt ->
  (forall d, prev s d <> None -> prev s' d <> None) /\
  (forall d m, (d < nd e)%nat -> params s' d = Some m -> prev s' d <> None).
Proof. exact begin_block_prev. Qed.
Print Assumptions C14_hard_begin_blocker_sets_accrual_times.

(* one begin blocker multiplies a borrow factor by at most the interval's factor plus 10^-18 *)
Theorem C14_hard_begin_blocker_factor_growth :
  forall e s t fs s', begin_block e s t fs = Ok s' tt -> HInv e s ->
  forall d, ((nd e <= d)%nat -> bfac s' d = bfac s d) /\
            dflt (bfac s' d) * PREC <= dflt (bfac s d) * (Z.max PREC (nthZ fs d) + 1).
Proof. exact begin_block_bf. Qed.
Print Assumptions C14_hard_begin_blocker_factor_growth.

(* THE ROUND TRIP ON REACHABLE STATES, hypotheses on the HISTORY only: from every genesis of the
   machine (valid genesis markets), along every history  ops1 ++ BeginBlock t fs :: ops2  whose
   SetParams carry valid markets ([op_ok]), whose per-denom product of interval borrow factors
   (each + 10^-18) is at most 10^18 ([within_budget]), whose distinguished begin blocker has
   oracle factors >= 1.0 and is followed by no SetParams: that begin blocker does not panic,
   ExportGenesis at the end does not panic, the export validates, InitGenesis does not panic
   and the imported state is [Imported] (component by component the exported one, positions
   synced). *)
Theorem C14_hard_roundtrip_reachable :
  forall e bals prices prevs mms ops1 t fs ops2,
  let ops := ops1 ++ BeginBlock t fs :: ops2 in
  let s := run e (mk_state bals prices prevs mms) ops in
  0 <= min_borrow e ->
  (forall d m, nthO mms d = Some m -> market_valid m = true) ->
  Forall op_ok ops ->
  within_budget e ops ->
  (forall d, (d < nd e)%nat -> PREC <= nthZ fs d) ->
  Forall no_setparams ops2 ->
  Ready0 e s /\
  export_genesis e s = Ok (the_genesis e s) tt /\
  validate_genesis (the_genesis e s) = true /\
  exists s', reimport e s = Ok s' tt /\ Imported e s s'.
Proof. exact roundtrip_reachable. Qed.
Print Assumptions C14_hard_roundtrip_reachable.

(* the same from any state that already satisfies the invariants (e.g. an imported one), along
   any history without parameter changes *)
Theorem C14_hard_ready_preserved :
  forall e s ops, HInv e s -> MV s -> PV e s -> 0 <= min_borrow e ->
  (forall d, (nd e <= d)%nat -> dflt (bfac s d) = PREC) ->
  (forall d, (d < nd e)%nat -> dflt (bfac s d) * bnum d ops <= PREC * PREC * bden ops) ->
  Forall no_setparams ops ->
  Ready0 e (run e s ops).
Proof. exact ready_reachable_from. Qed.
Print Assumptions C14_hard_ready_preserved.

(* a SetParams that lists only markets which already have an accrual time keeps "every params
   market has an accrual time"; only a NEW market breaks it (C14_hard_export_new_market_refuted) *)
Theorem C14_hard_setparams_known_markets :
  forall e s ps, (forall d m, (d < nd e)%nat -> nth d ps None = Some m -> prev s d <> None) ->
  PV e (step' e s (SetParams ps)).
Proof. exact setparams_PV. Qed.
Print Assumptions C14_hard_setparams_known_markets.

(* REFUTED without the budget: a state satisfying the boolean invariant, with a valid money market
   that has an accrual time, whose borrow factor is 3*10^18: a one-unit borrow taken at that
   factor makes loadSyncedBorrow compute 1/(3*10^18) = 0 (18 decimals), "interest" -1, and
   ExportGenesis panics.  (Reaching it needs an interval factor of that size from the oracle.) *)
Theorem C14_hard_unbounded_factor_refuted :
  exists e s, inv_b e s = true /\ (forall d m, params s d = Some m -> market_valid m = true /\ prev s d <> None) /\
              reimport e s = Panic.
Proof.
  exists wb_env, wb_state. destruct unbounded_factor_export_panics as (A & B & C & _ & E).
  split; [exact A|]. split; [|exact E]. intros d m P. destruct d; cbn in P; [|discriminate].
  injection P as <-. split; [exact B|]. rewrite C. discriminate.
Qed.
Print Assumptions C14_hard_unbounded_factor_refuted.

(* non-vacuity: deposit, borrow, a begin blocker with interval factor 1.1, a repayment: the
   hypotheses on the history hold, the borrow factor is 1.1 and the re-import goes through *)
Example C14_hard_reachable_nonvacuous :
  let e := mk_env 1 1 0 in
  let m := mkMarket 1 (PREC / 2) false 0 0 0 0 0 0 0 in
  let ops := [Deposit 0 [(0%nat, 1000)]; Borrow 0 [(0%nat, 100)]] ++ BeginBlock 100 [PREC + PREC / 10] :: [Repay 0 0 [(0%nat, 10)]] in
  let s := run e (mk_state [[1000]; [0]; [0]] [PREC] [Some 5] [Some m]) ops in
  market_valid m = true /\ Forall op_ok ops /\ within_budget e ops /\
  bfac s 0%nat = Some (PREC + PREC / 10) /\ option_map (fun r => amt r 0%nat) (bor s 0%nat) = Some 100 /\
  class_of (reimport e s) = ROk.
Proof.
  cbv zeta. split; [reflexivity|]. split; [repeat constructor|]. split.
  - intros d Hd. destruct d; [|cbn in Hd; lia]. vm_compute. discriminate.
  - repeat split; vm_compute; reflexivity.
Qed.

(** * x/incentive: the invariant of C09 AFTER an import, equality of the whole projection *)
From Kava Require Import Model.Accumulator Model.Incentive Proofs.Incentive Model.GenesisIncentive Proofs.GenesisIncentive Proofs.GenesisIncentiveInv.

(* [Tight e st]: no claim of a user outside the universe; a user without a claim has no stored
   reward and no user indexes; no global index and no stored reward in a reward denom outside
   the universe; block time and accrual times are not the zero time.  Every operation of the
   machine keeps it (given C09's invariant, reward periods that reward denoms of the universe only
   and times that are not the zero time) *)
Theorem C14_incentive_tight_preserved :
  forall e st o st', env_adm e -> Inv e st -> Tight e st -> op_adm o -> step e st o = Ok st' tt -> Tight e st'.
Proof. exact step_tight. Qed.
Print Assumptions C14_incentive_tight_preserved.

Theorem C14_incentive_tight_preserved_with_params :
  forall xs o xs', GInv xs -> xop_adm (ndenoms (x_env xs)) o -> xstep xs o = Ok xs' tt -> GInv xs'.
Proof. exact xstep_ginv. Qed.
Print Assumptions C14_incentive_tight_preserved_with_params.

(* the invariant of C09 holds again after the import (and so does the strengthening) *)
Theorem C14_incentive_imported_invariant :
  forall e st st', Inv e st -> Tight e st -> reimport e st = Ok st' tt -> Inv e st' /\ Tight e st'.
Proof. exact imported_invariant. Qed.
Print Assumptions C14_incentive_imported_invariant.

(* the whole projection compared with the implementation is equal, and so is what
   GetSynchronizedClaim reports for every user and reward denom *)
Theorem C14_incentive_roundtrip_observably_equal :
  forall e st st', Inv e st -> Tight e st -> reimport e st = Ok st' tt ->
  project e st' = project e st /\ forall u d, pending e st' u d = pending e st u d.
Proof. exact roundtrip_observably_equal. Qed.
Print Assumptions C14_incentive_roundtrip_observably_equal.

(* all histories of the abstract machine (operations, SetParams, re-imports interleaved) from
   every genesis, hypotheses on the environment and the history only *)
Theorem C14_incentive_roundtrip_all_histories :
  forall e t0 m0 gt0 tot0 ops,
  env_wf e -> env_adm e -> t0 <> ZERO_T ->
  (forall p x, gt0 p = Some x -> x <= t0 /\ x <> ZERO_T) -> (forall p, 0 <= tot0 p) ->
  Forall (gop_adm (ndenoms e)) ops ->
  let xs := gxrun (mkX e (init t0 m0 gt0 tot0)) ops in
  Inv (x_env xs) (x_st xs) /\
  validate_genesis (export_genesis (x_env xs) (x_st xs)) = true /\
  exists st', reimport (x_env xs) (x_st xs) = Ok st' tt /\
    Inv (x_env xs) st' /\ OverInv (x_env xs) st' /\
    project (x_env xs) st' = project (x_env xs) (x_st xs).
Proof. exact reimport_all_histories. Qed.
Print Assumptions C14_incentive_roundtrip_all_histories.

(* the same for the very machine the correspondence check runs (Model/GenesisIncentive.v gapply:
   lists of operations with re-tabulation after each, re-imports, probes) *)
Theorem C14_incentive_roundtrip_all_checked_histories :
  forall e t0 m0 gt0 tot0 ks,
  env_wf e -> env_adm e -> t0 <> ZERO_T ->
  (forall p x, gt0 p = Some x -> x <= t0 /\ x <> ZERO_T) -> (forall p, 0 <= tot0 p) ->
  Forall (gstepk_adm (ndenoms e)) ks ->
  let xs := gk_run (mkX e (init t0 m0 gt0 tot0)) ks in
  Inv (x_env xs) (x_st xs) /\
  exists xs', gapply xs GReimport = Ok xs' tt /\ x_env xs' = x_env xs /\
    Inv (x_env xs) (x_st xs') /\ OverInv (x_env xs) (x_st xs') /\
    project (x_env xs) (x_st xs') = project (x_env xs) (x_st xs).
Proof. exact reimport_all_checked_histories. Qed.
Print Assumptions C14_incentive_roundtrip_all_checked_histories.

(* REFUTED without [env_adm] (a statement about the finite universe of the MODEL, not a defect of
   x/incentive): a reward period that rewards a denom outside the model's reward-denom universe
   makes the global index of that denom grow; the export lists the universe only; after the
   import the exactness identity of C09's invariant fails for that denom *)
Theorem C14_incentive_outside_universe_refuted :
  exists e st st', env_wf e /\ Inv e st /\ reimport e st = Ok st' tt /\ ~ Inv e st' /\ ~ env_adm e.
Proof. exists wi_env, wi_st, wi_st'. exact outside_universe_breaks_imported_invariant. Qed.
Print Assumptions C14_incentive_outside_universe_refuted.

(* non-vacuity: a claim with an unsynchronised index and a stored reward, a second user without
   claim, a re-import and a parameter change mid-history; the hypotheses on the history hold, the
   import succeeds and the projection is identical *)
Example C14_incentive_invariant_nonvacuous :
  let e := mk_env 2 1 1 [Some (mk_period 0 (1000 * NS) [5])] (2000 * NS) false in
  let ops := [GX (O (Change 0 0 PREC PREC)); GX (O (Block (20 * NS))); GX (O (Change 0 0 (2 * PREC) (2 * PREC)));
              GX (O (Block (30 * NS))); GRe; GX (SetParams [Some (0, 500 * NS, [7])] (900 * NS)); GX (O (Block (40 * NS)))] in
  let xs := gxrun (mkX e (init (10 * NS) (fun _ => 1000) (fun _ => Some (10 * NS)) (fun _ => 0))) ops in
  Forall (gop_adm 1) ops /\ rew (x_st xs) 0%nat 0%nat = 50 /\ pending (x_env xs) (x_st xs) 0%nat 0%nat = 170 /\
  has_claim (x_st xs) 1%nat = false /\
  match reimport (x_env xs) (x_st xs) with
  | Ok st' _ => project (x_env xs) st' = project (x_env xs) (x_st xs) /\ pending (x_env xs) st' 0%nat 0%nat = 170
  | _ => False
  end.
Proof.
  cbv zeta. split.
  - repeat apply Forall_cons; try apply Forall_nil; cbn [gop_adm xop_adm op_adm]; try exact Logic.I; try (unfold ZERO_T, NS; lia).
    intros r [E|[]]. inversion E; subst. cbn [raw_adm length]. unfold ZERO_T, NS. split; lia.
  - vm_compute. repeat split; reflexivity.
Qed.
