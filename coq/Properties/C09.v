(* C09 — x/incentive: reward = rate x share of total over time; never
   over-distributed; exact claims.  Property theorems only; proofs are in
   Proofs/Incentive.v.  Units: index and share values are 18-decimal
   mantissas, so index * shares is in units of 10^-36 (PREC * PREC). *)
From Kava Require Import Base.Prelude Base.Dec Model.Accumulator Model.Incentive Proofs.Incentive.
Local Open Scope Z_scope.

(** ** The invariant holds along every history *)

Theorem C09_invariant_all_histories :
  forall e ops st, env_wf e -> Inv e st -> Inv e (run e st ops).
Proof. intros e ops st. exact (run_inv e ops st). Qed.
Print Assumptions C09_invariant_all_histories.

Theorem C09_initial_state_invariant :
  forall e t0 m0 gt0 tot0, (forall p x, gt0 p = Some x -> x <= t0) -> (forall p, 0 <= tot0 p) ->
  Inv e (init t0 m0 gt0 tot0).
Proof. exact init_inv. Qed.
Print Assumptions C09_initial_state_invariant.

(** ** Reward = time integral of rate x share / total, however blocks and
       position changes are interleaved *)

(* Exactness of the hook protocol: for every history (any interleaving of
   blocks, position changes of any user in any pool, claims), for every user
   and reward denom: what has been synchronised so far (unrounded) plus what
   is still unsynchronised equals the sum over all accumulations of
   (index increment) * (shares the user held at that accumulation). *)
Theorem C09_integral_exact :
  forall e t0 m0 gt0 tot0 ops u d, env_wf e -> (forall p x, gt0 p = Some x -> x <= t0) -> (forall p, 0 <= tot0 p) ->
  let st := run e (init t0 m0 gt0 tot0) ops in
  due st u d + phi e st u d = integral st u d.
Proof.
  intros e t0 m0 gt0 tot0 ops u d W G GT st.
  apply (I_exact e st). apply run_inv; [exact W|apply init_inv; assumption].
Qed.
Print Assumptions C09_integral_exact.

(* ... and the reward GetSynchronizedClaim reports, plus what was already
   claimed, is that integral up to half a base unit (and half an 18th decimal
   of a product) per CalculateSingleReward rounding applied so far, plus one
   rounding per pool for the synchronised view itself. *)
Theorem C09_reward_is_integral :
  forall e t0 m0 gt0 tot0 ops u d, env_wf e -> (forall p x, gt0 p = Some x -> x <= t0) -> (forall p, 0 <= tot0 p) ->
  let st := run e (init t0 m0 gt0 tot0) ops in
  2 * Z.abs ((pending e st u d + claimed st u d) * (PREC * PREC) - integral st u d)
  <= (nsync st u d + Z.of_nat (npools e)) * (PREC * PREC + PREC).
Proof.
  intros e t0 m0 gt0 tot0 ops u d W G GT st.
  apply pending_is_integral. apply run_inv; [exact W|apply init_inv; assumption].
Qed.
Print Assumptions C09_reward_is_integral.

(* what the history variable [integral] is: it moves only in a block, by
   (increment of the global index of the pool) * (the user's shares in the pool),
   summed over the pools; [emitted] moves only in a block, by the pools' rate *
   whole seconds *)
Theorem C09_integral_meaning :
  forall e st o st' u d, step e st o = Ok st' tt ->
  integral st' u d = integral st u d
    + sumN (npools e) (fun p => (g_idx st' p d - g_idx st p d) * sh st u p)
  /\ emitted st' d = emitted st d
    + match o with Block t => sumN (npools e) (fun p => pool_emit e st t p d) | _ => 0 end.
Proof. exact integral_step. Qed.
Print Assumptions C09_integral_meaning.

(* the index increment of one accumulation is rate * whole seconds / total
   shares, within half a unit of the 18th decimal upward and one and a half
   downward (Quo truncates, then rounds half-even) *)
Theorem C09_index_increment_is_rate_secs_over_total :
  forall rate secs T, 0 <= rate -> 0 <= secs -> 0 < T ->
  let q := index_increment rate secs T in
  2 * (q * T) <= 2 * (rate * secs) * PREC * PREC + T /\
  2 * (rate * secs) * PREC * PREC - 3 * T <= 2 * (q * T).
Proof. exact index_increment_bounds. Qed.
Print Assumptions C09_index_increment_is_rate_secs_over_total.

(* the emission a pool counts in a block: rate * RoundToEven(seconds of the
   overlap of [previous accrual time, block time] with [start, end]) when the
   pool has shares, else nothing *)
Theorem C09_emission_per_block :
  forall e st t p pd d, env_wf e -> Inv e st -> now st <= t -> periods e p = Some pd ->
  pool_emit e st t p d =
  let dur := Z.max 0 (Z.min t (p_end pd) - Z.max (match g_time st p with Some x => x | None => t end) (p_start pd)) in
  if (tot st p <=? 0) || (secs_of_ns dur <=? 0) then 0 else p_rate pd d * secs_of_ns dur.
Proof. exact pool_emit_spec. Qed.
Print Assumptions C09_emission_per_block.

Theorem C09_whole_seconds_round_half_even :
  forall d, 0 <= d -> 0 <= secs_of_ns d /\ 2 * d - NS <= 2 * (secs_of_ns d * NS) <= 2 * d + NS.
Proof. exact secs_of_ns_bounds. Qed.
Print Assumptions C09_whole_seconds_round_half_even.

(** ** A position change never alters accrued rewards *)

(* what GetSynchronizedClaim reports for user u in denom d is unchanged by every
   operation other than a block or u's own claim: another user's position
   change or claim, u's own position change (in any pool), a change of a
   total, a trade. *)
Theorem C09_pending_only_moves_on_accumulate :
  forall e st o st' u d, Inv e st -> step e st o = Ok st' tt ->
  match o with Block _ => False | Claim v _ _ => v <> u | _ => True end ->
  pending e st' u d = pending e st u d.
Proof. exact pending_preserved. Qed.
Print Assumptions C09_pending_only_moves_on_accumulate.

(* and a block moves it through the pools' index increments and u's own
   shares only: nobody else's position enters *)
Theorem C09_block_moves_pending_by_own_shares :
  forall e st t st' u d, block e st t = Ok st' tt ->
  pending e st' u d =
  rew st u d + sumN (npools e) (fun p =>
    sync_reward (g_idx st p d + pool_inc e st t p d - u_idx st u p d) (sh st u p)).
Proof. exact pending_block. Qed.
Print Assumptions C09_block_moves_pending_by_own_shares.

(** ** Never over-distributed *)

(* For every history in which the sum of the users' shares is at most the
   pool total whenever a block accumulates: the total credited to all users
   (synchronised claims + everything already claimed) is at most the emission
   (rate * whole seconds, as the module counts it) plus half of the pool total
   times 10^-18 per accumulation, plus (1/2 + 10^-18/2) per rounding. *)
Theorem C09_no_over_distribution :
  forall e t0 m0 gt0 tot0 ops d,
  env_wf e -> (forall p x, gt0 p = Some x -> x <= t0) -> (forall p, 0 <= tot0 p) ->
  sides_ok e (init t0 m0 gt0 tot0) ops ->
  let st := run e (init t0 m0 gt0 tot0) ops in
  2 * sumN (nusers e) (fun u => pending e st u d + claimed st u d) * (PREC * PREC)
  <= 2 * emitted st d * (PREC * PREC) + accslack st d
     + sumN (nusers e) (fun u => nsync st u d + Z.of_nat (npools e)) * (PREC * PREC + PREC).
Proof. exact no_over_distribution. Qed.
Print Assumptions C09_no_over_distribution.

(* swap (total = sum of the share records, maintained by the source): the
   side-condition holds by construction *)
Theorem C09_exact_totals_discharge_side_condition :
  forall e ops st, ExactTot e st -> exact_ops e st ops -> sides_ok e st ops.
Proof. intros e ops st. exact (exact_sides e ops st). Qed.
Print Assumptions C09_exact_totals_discharge_side_condition.

(* the bound needs the side-condition: with user shares above the total the
   credited amount exceeds any slack *)
Theorem C09_no_over_distribution_needs_side_condition_refuted :
  exists e t0 m0 gt0 tot0 ops d,
  env_wf e /\ (forall p x, gt0 p = Some x -> x <= t0) /\ (forall p, 0 <= tot0 p) /\
  let st := run e (init t0 m0 gt0 tot0) ops in
  2 * sumN (nusers e) (fun u => pending e st u d + claimed st u d) * (PREC * PREC)
  > 2 * emitted st d * (PREC * PREC) + accslack st d
     + sumN (nusers e) (fun u => nsync st u d + Z.of_nat (npools e)) * (PREC * PREC + PREC).
Proof.
  exists (mk_env 1 1 1 [Some (mk_period 0 1000000000000 [1000])] 1000000000000 false), 0,
         (fun _ => 0), (fun _ => Some 0), (fun _ => 0),
         [Change 0 0 (100 * PREC) (1 * PREC); Block 100000000000], 0%nat.
  split; [|split; [|split]].
  - constructor; intros p pd; destruct p as [|[|p]]; cbn; intros; try discriminate.
    + match goal with H : Some _ = Some _ |- _ => inversion H; subst; cbn; lia end.
    + match goal with H : Some _ = Some _ |- _ => inversion H; subst end.
      unfold mk_period, p_rate, nthZ. destruct d as [|[|d]]; cbn; lia.
  - intros p x H; inversion H; lia.
  - intros p; lia.
  - vm_compute. reflexivity.
Qed.
Print Assumptions C09_no_over_distribution_needs_side_condition_refuted.

(** ** Window *)

(* getTimeElapsedWithinLimits is the length of the overlap *)
Theorem C09_elapsed_is_overlap :
  forall a b lmin lmax, a <= b -> lmin <= lmax ->
  elapsed_within a b lmin lmax = Some (Z.max 0 (Z.min b lmax - Z.max a lmin)).
Proof. exact elapsed_within_spec. Qed.
Print Assumptions C09_elapsed_is_overlap.

(* no accrual without a period, before the start, after the end (previous
   accrual time at or past it), at the first accumulation, without shares *)
Theorem C09_window_no_accrual :
  forall e st t st' p d, env_wf e -> Inv e st -> block e st t = Ok st' tt ->
  (periods e p = None \/
   (exists pd, periods e p = Some pd /\
      (t <= p_start pd \/ (exists x, g_time st p = Some x /\ p_end pd <= x) \/ g_time st p = None
       \/ tot st p <= 0 \/ p_rate pd d = 0))) ->
  g_idx st' p d = g_idx st p d.
Proof. exact block_no_accrual. Qed.
Print Assumptions C09_window_no_accrual.

(* the accrual time advances to min(end, block time) *)
Theorem C09_window_accrual_time :
  forall e st t st' p pd, block e st t = Ok st' tt -> periods e p = Some pd ->
  g_time st' p = Some (Z.min (p_end pd) t) /\ now st' = t.
Proof. exact block_accrual_time. Qed.
Print Assumptions C09_window_accrual_time.

(* never twice, never lost: two consecutive blocks count together exactly the
   reward time that a single block spanning both would count *)
Theorem C09_window_additive :
  forall e st t1 st1 t2 p x d1 d2 dd,
  env_wf e -> Inv e st -> block e st t1 = Ok st1 tt -> t1 <= t2 ->
  g_time st p = Some x ->
  pool_dur e st t1 p = Some d1 -> pool_dur e st1 t2 p = Some d2 -> pool_dur e st t2 p = Some dd ->
  d1 + d2 = dd.
Proof. exact blocks_additive. Qed.
Print Assumptions C09_window_additive.

(** ** Claims *)

Theorem C09_claim_exact :
  forall e st u d m st', claim e st u d (Some m) = Ok st' tt ->
  let pay := pay_of (pending e st u d) m in
  0 < pay /\ pay <= macc st d /\ now st <= claim_end e /\
  bal st' u d = bal st u d + pay /\
  macc st' d = macc st d - pay /\
  rew st' u d = 0 /\ pending e st' u d = 0 /\
  (forall d', d' <> d -> pending e st' u d' = pending e st u d' /\ bal st' u d' = bal st u d' /\ macc st' d' = macc st d') /\
  (forall v d', v <> u -> pending e st' v d' = pending e st v d' /\ bal st' v d' = bal st v d' /\ rew st' v d' = rew st v d') /\
  sh st' = sh st /\ g_idx st' = g_idx st /\ tot st' = tot st.
Proof. exact claim_exact. Qed.
Print Assumptions C09_claim_exact.

Theorem C09_second_claim_refused :
  forall e st u d m st' m2, claim e st u d (Some m) = Ok st' tt -> claim e st' u d m2 = Err.
Proof. exact second_claim_refused. Qed.
Print Assumptions C09_second_claim_refused.

Theorem C09_claim_after_deadline_refused :
  forall e st u d m, claim_end e < now st -> claim e st u d m = Err.
Proof. exact claim_after_deadline_refused. Qed.
Print Assumptions C09_claim_after_deadline_refused.

(** ** No panic; failed operations change nothing *)

(* "corrupted global reward indexes" and the accumulator's time panics are
   unreachable (multiplier factors are non-negative by params validation) *)
Theorem C09_no_panic :
  forall e st o, env_wf e -> Inv e st ->
  match o with Claim _ _ (Some m) => 0 <= m | _ => True end -> step e st o <> Panic.
Proof. exact step_no_panic. Qed.
Print Assumptions C09_no_panic.

Theorem C09_failed_changes_nothing :
  forall e st o, (forall s' u, step e st o <> Ok s' u) -> step' e st o = st.
Proof.
  intros e st o H. unfold step'. destruct (step e st o) as [s' u| |] eqn:E; auto.
  exfalso. exact (H s' u eq_refl).
Qed.
Print Assumptions C09_failed_changes_nothing.

(** ** Non-vacuity: two users in one pool, rate 1000/s, 100 s of rewards with
       shares 1:3, a position change, another 50 s, then a claim with factor 0.5. *)
Example C09_nonvacuous :
  let e := mk_env 2 1 1 [Some (mk_period 0 1000000000000 [1000])] 1000000000000 true in
  let s0 := init 0 (fun _ => 1000000) (fun _ => Some 0) (fun _ => 0) in
  let ops := [Change 0 0 (1 * PREC) (1 * PREC); Change 1 0 (3 * PREC) (4 * PREC);
              Block 100000000000;
              Change 1 0 (1 * PREC) (2 * PREC);
              Block 150000000000;
              Claim 0 0 (Some (PREC / 2))] in
  let st := run e s0 ops in
  inv_b e s0 = true /\ inv_b e st = true /\
  exact_ops e s0 ops /\ ExactTot e s0 /\
  pending e st 1%nat 0%nat = 75000 + 25000 /\
  bal st 0%nat 0%nat = 25000 /\ claimed st 0%nat 0%nat = 50000 /\ pending e st 0%nat 0%nat = 0 /\
  macc st 0%nat = 1000000 - 25000 /\ emitted st 0%nat = 150000.
Proof.
  cbv zeta. repeat split; try (vm_compute; reflexivity).
Qed.
