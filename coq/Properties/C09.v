(* C09 — x/incentive: reward = rate x share of total over time; never
   over-distributed; exact claims.  Property theorems only; proofs are in
   Proofs/Incentive.v.  Units: index and share values are 18-decimal
   mantissas, so index * shares is in units of 10^-36 (PREC * PREC). *)
From Coq Require Import Permutation.
From Kava Require Import Base.Prelude Base.Dec Model.Accumulator Model.Incentive Proofs.Incentive.
Local Open Scope Z_scope.

(** ** The invariant holds along every history *)

Theorem C09_invariant_all_histories :
  forall e ops st, env_wf e -> Inv e st -> Inv e (run e st ops).
Proof. intros e ops st. exact (run_inv e ops st). Qed.
Print Assumptions C09_invariant_all_histories.

Theorem C09_initial_state_invariant :
  forall e t0 m0 gt0 tot0, (forall p x, gt0 p = Some x -> x <= t0) -> (forall p, 0 <= tot0 p) ->
  Inv e (init t0 m0 gt0 tot0).
Proof. exact init_inv. Qed.
Print Assumptions C09_initial_state_invariant.

(** ** Reward = time integral of rate x share / total, however blocks and
       position changes are interleaved *)

(* Exactness of the hook protocol: for every history (any interleaving of
   blocks, position changes of any user in any pool, claims), for every user
   and reward denom: what has been synchronised so far (unrounded) plus what
   is still unsynchronised equals the sum over all accumulations of
   (index increment) * (shares the user held at that accumulation), plus the
   drift of the user's revalues (zero when the source never moves a user's
   shares without calling the hook: C09_no_revalue_no_drift). *)
Theorem C09_integral_exact :
  forall e t0 m0 gt0 tot0 ops u d, env_wf e -> (forall p x, gt0 p = Some x -> x <= t0) -> (forall p, 0 <= tot0 p) ->
  let st := run e (init t0 m0 gt0 tot0) ops in
  due st u d + phi e st u d = integral st u d + drift st u d.
Proof.
  intros e t0 m0 gt0 tot0 ops u d W G GT st.
  apply (I_exact e st). apply run_inv; [exact W|apply init_inv; assumption].
Qed.
Print Assumptions C09_integral_exact.

(* ... and the reward GetSynchronizedClaim reports, plus what was already
   claimed, is that integral up to half a base unit (and half an 18th decimal
   of a product) per CalculateSingleReward rounding applied so far, plus one
   rounding per pool for the synchronised view itself. *)
Theorem C09_reward_is_integral :
  forall e t0 m0 gt0 tot0 ops u d, env_wf e -> (forall p x, gt0 p = Some x -> x <= t0) -> (forall p, 0 <= tot0 p) ->
  let st := run e (init t0 m0 gt0 tot0) ops in
  2 * Z.abs ((pending e st u d + claimed st u d) * (PREC * PREC) - (integral st u d + drift st u d))
  <= (nsync st u d + Z.of_nat (npools e)) * (PREC * PREC + PREC).
Proof.
  intros e t0 m0 gt0 tot0 ops u d W G GT st.
  apply pending_is_integral. apply run_inv; [exact W|apply init_inv; assumption].
Qed.
Print Assumptions C09_reward_is_integral.

(* what the history variable [integral] is: it moves only when time is accumulated
   (a block, a bkava accumulation), by (increment of the global index of the pool) *
   (the user's shares in the pool), summed over the pools; [emitted] moves only in
   a block, by the pools' rate * whole seconds *)
Theorem C09_integral_meaning :
  forall e st o st' u d, step e st o = Ok st' tt ->
  integral st' u d = integral st u d
    + sumN (npools e) (fun p => (g_idx st' p d - g_idx st p d) * sh st u p)
  /\ emitted st' d = emitted st d
    + match o with Block t => sumN (npools e) (fun p => pool_emit e st t p d) | _ => 0 end.
Proof. exact integral_step. Qed.
Print Assumptions C09_integral_meaning.

(* the index increment of one accumulation is rate * whole seconds / total
   shares, within half a unit of the 18th decimal upward and one and a half
   downward (Quo truncates, then rounds half-even) *)
Theorem C09_index_increment_is_rate_secs_over_total :
  forall rate secs T, 0 <= rate -> 0 <= secs -> 0 < T ->
  let q := index_increment rate secs T in
  2 * (q * T) <= 2 * (rate * secs) * PREC * PREC + T /\
  2 * (rate * secs) * PREC * PREC - 3 * T <= 2 * (q * T).
Proof. exact index_increment_bounds. Qed.
Print Assumptions C09_index_increment_is_rate_secs_over_total.

(* the emission a pool counts in a block: rate * RoundToEven(seconds of the
   overlap of [previous accrual time, block time] with [start, end]) when the
   pool has shares, else nothing *)
Theorem C09_emission_per_block :
  forall e st t p pd d, env_wf e -> Inv e st -> now st <= t -> periods e p = Some pd ->
  pool_emit e st t p d =
  let dur := Z.max 0 (Z.min t (p_end pd) - Z.max (match g_time st p with Some x => x | None => t end) (p_start pd)) in
  if (tot st p <=? 0) || (secs_of_ns dur <=? 0) then 0 else p_rate pd d * secs_of_ns dur.
Proof. exact pool_emit_spec. Qed.
Print Assumptions C09_emission_per_block.

Theorem C09_whole_seconds_round_half_even :
  forall d, 0 <= d -> 0 <= secs_of_ns d /\ 2 * d - NS <= 2 * (secs_of_ns d * NS) <= 2 * d + NS.
Proof. exact secs_of_ns_bounds. Qed.
Print Assumptions C09_whole_seconds_round_half_even.

(** ** A position change never alters accrued rewards *)

(* what GetSynchronizedClaim reports for user u in denom d is unchanged by every
   operation other than an accumulation, u's own claim or u's own revalue:
   another user's position change, claim or revalue, u's own position change
   (in any pool), a change of a total, a trade. *)
Theorem C09_pending_only_moves_on_accumulate :
  forall e st o st' u d, Inv e st -> step e st o = Ok st' tt ->
  match o with Block _ | BkAcc _ _ _ _ _ => False | Claim v _ _ | Revalue v _ _ => v <> u | _ => True end ->
  pending e st' u d = pending e st u d.
Proof. exact pending_preserved. Qed.
Print Assumptions C09_pending_only_moves_on_accumulate.

(* and a block moves it through the pools' index increments and u's own
   shares only: nobody else's position enters *)
Theorem C09_block_moves_pending_by_own_shares :
  forall e st t st' u d, block e st t = Ok st' tt ->
  pending e st' u d =
  rew st u d + sumN (npools e) (fun p =>
    sync_reward (g_idx st p d + pool_inc e st t p d - u_idx st u p d) (sh st u p)).
Proof. exact pending_block. Qed.
Print Assumptions C09_block_moves_pending_by_own_shares.

(** ** Never over-distributed *)

(* For every history in which the sum of the users' shares is at most the
   pool total whenever a block accumulates: the total credited to all users
   (synchronised claims + everything already claimed) is at most the emission
   (rate * whole seconds, as the module counts it) plus half of the pool total
   times 10^-18 per accumulation, plus (1/2 + 10^-18/2) per rounding. *)
Theorem C09_no_over_distribution :
  forall e t0 m0 gt0 tot0 ops d,
  env_wf e -> (forall p x, gt0 p = Some x -> x <= t0) -> (forall p, 0 <= tot0 p) ->
  sides_ok e (init t0 m0 gt0 tot0) ops ->
  let st := run e (init t0 m0 gt0 tot0) ops in
  2 * sumN (nusers e) (fun u => pending e st u d + claimed st u d) * (PREC * PREC)
  <= 2 * emitted st d * (PREC * PREC) + 2 * emitted_x st d * PREC + accslack st d
     + 2 * sumN (nusers e) (fun u => drift st u d)
     + sumN (nusers e) (fun u => nsync st u d + Z.of_nat (npools e)) * (PREC * PREC + PREC).
Proof. exact no_over_distribution. Qed.
Print Assumptions C09_no_over_distribution.

(* ... and without any side-condition, for EVERY history: the bound carries the
   explicit term [overshare] = sum over the accumulations of (index increment) *
   max(0, sum of the users' shares - total the accumulation divided by).  This is
   the exact price of a source whose recorded shares add up to more than its
   recorded total (normalised amounts under interest rounding). *)
Theorem C09_no_over_distribution_all :
  forall e t0 m0 gt0 tot0 ops d,
  env_wf e -> (forall p x, gt0 p = Some x -> x <= t0) -> (forall p, 0 <= tot0 p) ->
  let st := run e (init t0 m0 gt0 tot0) ops in
  2 * sumN (nusers e) (fun u => pending e st u d + claimed st u d) * (PREC * PREC)
  <= 2 * emitted st d * (PREC * PREC) + 2 * emitted_x st d * PREC + accslack st d
     + 2 * overshare st d + 2 * sumN (nusers e) (fun u => drift st u d)
     + sumN (nusers e) (fun u => nsync st u d + Z.of_nat (npools e)) * (PREC * PREC + PREC).
Proof. exact no_over_distribution_all. Qed.
Print Assumptions C09_no_over_distribution_all.

(* [emitted_x] (Dec mantissa) is the emission of the bkava accumulations only *)
Theorem C09_no_bkava_no_emitted_x :
  forall e ops st d, forallb (fun o => negb (is_bkacc o)) ops = true ->
  emitted_x (run e st ops) d = emitted_x st d.
Proof. intros e ops st d. exact (run_no_bkacc e ops st d). Qed.
Print Assumptions C09_no_bkava_no_emitted_x.

(* what [overshare] is: it moves only when time is accumulated, by (index increment) *
   max(0, sum of the users' shares - pool total) *)
Theorem C09_overshare_meaning :
  forall e st o st' d, Inv e st -> step e st o = Ok st' tt ->
  overshare st' d = overshare st d
    + match o with
      | Block t => sumN (npools e) (fun p => (g_idx st' p d - g_idx st p d) * excess e st p)
      | BkAcc p _ _ _ _ => (g_idx st' p d - g_idx st p d) * excess e st p
      | _ => 0
      end.
Proof. exact overshare_step. Qed.
Print Assumptions C09_overshare_meaning.

(* it stays zero along every history whose accumulations see sum of shares <= total:
   the sources with exact totals (swap, earn, cdp while the interest factor stays 1:
   next theorem) and those whose total covers the shares (delegator, hard while the
   interest factors stay 1; checked by the monitors on every step) satisfy the bound
   exactly as the property words it *)
Theorem C09_overshare_zero_when_shares_within_total :
  forall e t0 m0 gt0 tot0 ops d,
  env_wf e -> (forall p x, gt0 p = Some x -> x <= t0) -> (forall p, 0 <= tot0 p) ->
  sides_ok e (init t0 m0 gt0 tot0) ops ->
  overshare (run e (init t0 m0 gt0 tot0) ops) d = 0.
Proof.
  intros e t0 m0 gt0 tot0 ops d W G GT S.
  rewrite (run_overshare e ops (init t0 m0 gt0 tot0) d W (init_inv e t0 m0 gt0 tot0 G GT) S). reflexivity.
Qed.
Print Assumptions C09_overshare_zero_when_shares_within_total.

(* swap (total = sum of the share records, maintained by the source): the
   side-condition holds by construction *)
Theorem C09_exact_totals_discharge_side_condition :
  forall e ops st, ExactTot e st -> exact_ops e st ops -> sides_ok e st ops.
Proof. intros e ops st. exact (exact_sides e ops st). Qed.
Print Assumptions C09_exact_totals_discharge_side_condition.

(* the bound needs the side-condition: with user shares above the total the
   credited amount exceeds any slack *)
Theorem C09_no_over_distribution_needs_side_condition_refuted :
  exists e t0 m0 gt0 tot0 ops d,
  env_wf e /\ (forall p x, gt0 p = Some x -> x <= t0) /\ (forall p, 0 <= tot0 p) /\
  let st := run e (init t0 m0 gt0 tot0) ops in
  2 * sumN (nusers e) (fun u => pending e st u d + claimed st u d) * (PREC * PREC)
  > 2 * emitted st d * (PREC * PREC) + 2 * emitted_x st d * PREC + accslack st d
     + 2 * sumN (nusers e) (fun u => drift st u d)
     + sumN (nusers e) (fun u => nsync st u d + Z.of_nat (npools e)) * (PREC * PREC + PREC).
Proof.
  exists (mk_env 1 1 1 [Some (mk_period 0 1000000000000 [1000])] 1000000000000 false), 0,
         (fun _ => 0), (fun _ => Some 0), (fun _ => 0),
         [Change 0 0 (100 * PREC) (1 * PREC); Block 100000000000], 0%nat.
  split; [|split; [|split]].
  - constructor; intros p pd; destruct p as [|[|p]]; cbn; intros; try discriminate.
    + match goal with H : Some _ = Some _ |- _ => inversion H; subst; cbn; lia end.
    + match goal with H : Some _ = Some _ |- _ => inversion H; subst end.
      unfold mk_period, p_rate, nthZ. destruct d as [|[|d]]; cbn; lia.
  - intros p x H; inversion H; lia.
  - intros p; lia.
  - vm_compute. reflexivity.
Qed.
Print Assumptions C09_no_over_distribution_needs_side_condition_refuted.

(* KNOWN FINDING (known_findings.json, total-credited-exceeds-emission-share-total-drift):
   the bound exactly as the property words it (emission + roundings, nothing else) is
   false of the interest-bearing sources.  Closed witness, observed on the real hard
   keeper (replay corpus/C09/witness_hard_overshare.json): one borrower of 1000 units,
   borrow reward period 2265972/s from genesis + 2 s; one block 396076 s later hard
   accrues interest on the TOTAL as an integer, so the normalised total
   (total borrowed / borrow interest factor) is 999.895110119760281379 while the
   borrower's recorded normalised borrow is still 1000: the accumulation credits
   897586741694 of an emission of 897492593928.  There is no revalue and no bkava
   accumulation in the history. *)
Theorem C09_no_over_distribution_literal_refuted :
  exists e t0 m0 gt0 tot0 ops d,
  env_wf e /\ (forall p x, gt0 p = Some x -> x <= t0) /\ (forall p, 0 <= tot0 p) /\
  forallb (fun o => negb (is_revalue o)) ops = true /\ forallb (fun o => negb (is_bkacc o)) ops = true /\
  let st := run e (init t0 m0 gt0 tot0) ops in
  pending e st 0%nat 0%nat = 897586741694 /\ emitted st 0%nat = 897492593928 /\
  2 * sumN (nusers e) (fun u => pending e st u d + claimed st u d) * (PREC * PREC)
  > 2 * emitted st d * (PREC * PREC) + accslack st d
     + sumN (nusers e) (fun u => nsync st u d + Z.of_nat (npools e)) * (PREC * PREC + PREC).
Proof.
  exists (mk_env 1 1 1 [Some (mk_period 1704067202000000000 1710028802000000000 [2265972])] 1704067382000000000 false),
         1704067200000000000, (fun _ => 0), (fun _ => Some 1704067200000000000), (fun _ => 0),
         [Change 0 0 (1000 * PREC) (1000 * PREC); SetTotal 0 999895110119760281379; Block 1704463276000000000], 0%nat.
  split; [|split; [|split; [|split; [|split]]]].
  - constructor; intros p pd; destruct p as [|[|p]]; cbn; intros; try discriminate.
    + match goal with H : Some _ = Some _ |- _ => inversion H; subst; cbn; lia end.
    + match goal with H : Some _ = Some _ |- _ => inversion H; subst end.
      unfold mk_period, p_rate, nthZ. destruct d as [|[|d]]; cbn; lia.
  - intros p x H; inversion H; lia.
  - intros p; lia.
  - reflexivity.
  - reflexivity.
  - vm_compute. repeat split; reflexivity.
Qed.
Print Assumptions C09_no_over_distribution_literal_refuted.

(* a position change of a user who holds shares synchronises the claim with the shares
   RECORDED since the user's previous synchronisation -- in every source of this tree the
   hook runs before the source touches the position, interest synchronisation included
   (x/cdp: BeforeCDPModified precedes SynchronizeInterest; x/hard: Before*Modified precede
   Sync*Interest) -- then records the new shares and total; the accrual between two
   synchronisations of a user therefore uses the share recorded at the earlier one *)
Theorem C09_change_synchronises_with_recorded_shares :
  forall e st u p s' T' st', change e st u p s' T' = Ok st' tt -> sh st u p <> 0 ->
  has_claim st u = true ->
  (forall d, rew st' u d = rew st u d + sync_reward (g_idx st p d - u_idx st u p d) (sh st u p)
             /\ u_idx st' u p d = g_idx st p d) /\
  sh st' u p = s' /\ tot st' p = T' /\ g_idx st' = g_idx st /\
  (forall v d, v <> u -> rew st' v d = rew st v d) /\
  (forall v q, (v <> u \/ q <> p) -> sh st' v q = sh st v q /\ forall d, u_idx st' v q d = u_idx st v q d).
Proof. exact change_spec. Qed.
Print Assumptions C09_change_synchronises_with_recorded_shares.

(** ** Revalue: shares that move without a hook call

   staking: a third party's delegation to (or undelegation from) a slashed
   validator moves the exchange rate of everybody's delegation shares, so the
   tokens of the other delegators move by rounding without any hook being
   called for them.  (A source that synchronised interest BEFORE calling the
   hook would be in the same situation; x/cdp and x/hard of this tree call the
   hook first.)  The module then pays (index difference since the user's
   previous synchronisation) * (NEW shares): the accrual between the two
   synchronisations uses the share seen at the LATER one. *)

(* [drift] is exactly that: it moves only in a revalue of that user, by
   (global - user index) * (new - old shares) *)
Theorem C09_drift_meaning :
  forall e st o st' u d, step e st o = Ok st' tt ->
  drift st' u d = drift st u d
    + match o with
      | Revalue v p s' => if Nat.eqb u v then (g_idx st p d - u_idx st u p d) * (s' - sh st u p) else 0
      | _ => 0
      end.
Proof. exact drift_step. Qed.
Print Assumptions C09_drift_meaning.

Theorem C09_no_revalue_no_drift :
  forall e ops st u d, forallb (fun o => negb (is_revalue o)) ops = true ->
  drift (run e st ops) u d = drift st u d.
Proof. intros e ops st u d. exact (run_no_revalue e ops st u d). Qed.
Print Assumptions C09_no_revalue_no_drift.

(* a revalue moves the user's own synchronised reward by (index difference) *
   (change of shares) within one rounding, and nobody else's (previous theorem) *)
Theorem C09_revalue_moves_own_pending :
  forall e st u p s' st' d, revalue e st u p s' = Ok st' tt ->
  Z.abs ((pending e st' u d - pending e st u d) * (PREC * PREC)
         - (g_idx st p d - u_idx st u p d) * (s' - sh st u p)) <= PREC * PREC + PREC.
Proof. exact pending_revalue_bound. Qed.
Print Assumptions C09_revalue_moves_own_pending.

(** ** The bkava earn vaults: proportional split of the bkava reward period *)

(* each vault's rate is rate * v / V within half a unit of the 18th decimal upward
   and one and a half downward *)
Theorem C09_bkava_split_pro_rata :
  forall rate v V, 0 <= rate -> 0 <= v -> 0 < V ->
  let q := bk_rate rate v V in
  2 * (q * V) <= 2 * (rate * v) * PREC + V /\ 2 * (rate * v) * PREC - 3 * V <= 2 * (q * V).
Proof. exact bk_rate_pro_rata. Qed.
Print Assumptions C09_bkava_split_pro_rata.

(* the parts never sum to more than the whole rate of the period (plus half a
   unit of the 18th decimal per vault), for any set of vaults whose derivative
   values add up to at most the total derivative value *)
Theorem C09_bkava_split_sum :
  forall rate V vs, 0 <= rate -> 0 < V -> Forall (fun v => 0 <= v) vs -> zsum vs <= V ->
  2 * zsum (map (fun v => bk_rate rate v V) vs) <= 2 * rate * PREC + Z.of_nat (length vs).
Proof. exact bk_split_sum. Qed.
Print Assumptions C09_bkava_split_sum.

(* and do not depend on the order in which the vault denoms are visited *)
Theorem C09_bkava_split_order :
  forall rate V vs vs', Permutation vs vs' ->
  Permutation (map (fun v => bk_rate rate v V) vs) (map (fun v => bk_rate rate v V) vs').
Proof. exact bk_split_order. Qed.
Print Assumptions C09_bkava_split_order.

(* one bkava accumulation: the accrual time advances to min(end, now); the index
   moves by (staking rewards + proportional rate * whole seconds of the window
   overlap) / total shares; the staking rewards arrive in the module account;
   nothing else moves *)
Theorem C09_bkava_accumulation :
  forall e st p pd v V stk st', Inv e st -> bk_acc e st p pd v V stk = Ok st' tt ->
  let dur := Z.max 0 (Z.min (now st) (p_end pd)
                      - Z.max (match g_time st p with Some x => x | None => now st end) (p_start pd)) in
  g_time st' p = Some (Z.min (p_end pd) (now st)) /\
  (forall d, (d < ndenoms e)%nat ->
     g_idx st' p d = g_idx st p d
       + bk_increment (bk_rewards (bk_rate (p_rate pd d) v V) dur (stk d)) (tot st p) /\
     macc st' d = macc st d + stk d) /\
  (forall q d, q <> p -> g_idx st' q d = g_idx st q d /\ g_time st' q = g_time st q) /\
  sh st' = sh st /\ tot st' = tot st /\ rew st' = rew st /\ u_idx st' = u_idx st /\ now st' = now st.
Proof. exact bk_acc_spec. Qed.
Print Assumptions C09_bkava_accumulation.

(* ... and neither does the resulting state: accumulating two different bkava vaults
   in either order gives the same indexes, accrual times and module account (the
   keeper sorts the vault denoms -- C01's site table -- only to make the order of its
   store writes deterministic) *)
Theorem C09_bkava_accumulations_commute :
  forall e st p q pd v1 v2 V stk1 stk2 st1 st2 st1' st2',
  Inv e st -> p <> q ->
  bk_acc e st p pd v1 V stk1 = Ok st1 tt -> bk_acc e st1 q pd v2 V stk2 = Ok st2 tt ->
  bk_acc e st q pd v2 V stk2 = Ok st1' tt -> bk_acc e st1' p pd v1 V stk1 = Ok st2' tt ->
  (forall r d, (d < ndenoms e)%nat -> g_idx st2 r d = g_idx st2' r d) /\
  (forall r, g_time st2 r = g_time st2' r) /\
  (forall d, (d < ndenoms e)%nat -> macc st2 d = macc st2' d) /\
  sh st2 = sh st2' /\ tot st2 = tot st2' /\ rew st2 = rew st2' /\ u_idx st2 = u_idx st2' /\ now st2 = now st2'.
Proof. exact bk_acc_commute. Qed.
Print Assumptions C09_bkava_accumulations_commute.

(* increment * total shares <= the rewards of the accumulation + total/2 (units 10^36) *)
Theorem C09_bkava_increment_bound :
  forall rw T, 0 <= rw -> 0 <= T ->
  2 * (bk_increment rw T * T) <= 2 * bk_emitted rw T * PREC + (if 0 <? bk_emitted rw T then T else 0).
Proof. exact bk_bound. Qed.
Print Assumptions C09_bkava_increment_bound.

(** ** Parameter changes in the middle of a history *)

(* replacing the reward periods (rate, start, end changed; a period removed or
   added) and the claim end changes no claim, no index, no accrual time and
   nobody's synchronised reward *)
Theorem C09_param_change_keeps_accrued_rewards :
  forall xs pds cend xs', xstep xs (SetParams pds cend) = Ok xs' tt ->
  x_st xs' = x_st xs /\
  (forall u d, pending (x_env xs') (x_st xs') u d = pending (x_env xs) (x_st xs) u d) /\
  nusers (x_env xs') = nusers (x_env xs) /\ npools (x_env xs') = npools (x_env xs) /\
  ndenoms (x_env xs') = ndenoms (x_env xs).
Proof. exact set_params_keeps_rewards. Qed.
Print Assumptions C09_param_change_keeps_accrued_rewards.

(* the invariant (hence every per-step theorem above), the exactness identity and
   the emission bound hold along every history with parameter changes *)
Theorem C09_invariant_all_histories_with_param_changes :
  forall ops xs, XInv xs -> XInv (xrun xs ops).
Proof. exact xrun_inv. Qed.
Print Assumptions C09_invariant_all_histories_with_param_changes.

Theorem C09_integral_exact_with_param_changes :
  forall e t0 m0 gt0 tot0 ops u d, env_wf e -> (forall p x, gt0 p = Some x -> x <= t0) -> (forall p, 0 <= tot0 p) ->
  let xs := xrun (mkX e (init t0 m0 gt0 tot0)) ops in
  let st := x_st xs in
  due st u d + phi (x_env xs) st u d = integral st u d + drift st u d /\
  2 * Z.abs ((pending (x_env xs) st u d + claimed st u d) * (PREC * PREC) - (integral st u d + drift st u d))
  <= (nsync st u d + Z.of_nat (npools (x_env xs))) * (PREC * PREC + PREC).
Proof.
  intros e t0 m0 gt0 tot0 ops u d W G GT xs st.
  destruct (xrun_inv ops _ (xinit_inv e t0 m0 gt0 tot0 W G GT)) as [_ I _]. fold xs in I. fold st in I.
  split; [apply (I_exact _ _ I)|apply pending_is_integral; exact I].
Qed.
Print Assumptions C09_integral_exact_with_param_changes.

Theorem C09_no_over_distribution_with_param_changes :
  forall e t0 m0 gt0 tot0 ops d, env_wf e -> (forall p x, gt0 p = Some x -> x <= t0) -> (forall p, 0 <= tot0 p) ->
  let xs := xrun (mkX e (init t0 m0 gt0 tot0)) ops in
  let e' := x_env xs in let st := x_st xs in
  2 * sumN (nusers e') (fun u => pending e' st u d + claimed st u d) * (PREC * PREC)
  <= 2 * emitted st d * (PREC * PREC) + 2 * emitted_x st d * PREC + accslack st d
     + 2 * overshare st d + 2 * sumN (nusers e') (fun u => drift st u d)
     + sumN (nusers e') (fun u => nsync st u d + Z.of_nat (npools e')) * (PREC * PREC + PREC).
Proof.
  intros e t0 m0 gt0 tot0 ops d W G GT xs e' st.
  destruct (xrun_inv ops _ (xinit_inv e t0 m0 gt0 tot0 W G GT)) as [_ I V].
  apply credited_le_emission; assumption.
Qed.
Print Assumptions C09_no_over_distribution_with_param_changes.

(** ** Window *)

(* getTimeElapsedWithinLimits is the length of the overlap *)
Theorem C09_elapsed_is_overlap :
  forall a b lmin lmax, a <= b -> lmin <= lmax ->
  elapsed_within a b lmin lmax = Some (Z.max 0 (Z.min b lmax - Z.max a lmin)).
Proof. exact elapsed_within_spec. Qed.
Print Assumptions C09_elapsed_is_overlap.

(* no accrual without a period, before the start, after the end (previous
   accrual time at or past it), at the first accumulation, without shares *)
Theorem C09_window_no_accrual :
  forall e st t st' p d, env_wf e -> Inv e st -> block e st t = Ok st' tt ->
  (periods e p = None \/
   (exists pd, periods e p = Some pd /\
      (t <= p_start pd \/ (exists x, g_time st p = Some x /\ p_end pd <= x) \/ g_time st p = None
       \/ tot st p <= 0 \/ p_rate pd d = 0))) ->
  g_idx st' p d = g_idx st p d.
Proof. exact block_no_accrual. Qed.
Print Assumptions C09_window_no_accrual.

(* the accrual time advances to min(end, block time) *)
Theorem C09_window_accrual_time :
  forall e st t st' p pd, block e st t = Ok st' tt -> periods e p = Some pd ->
  g_time st' p = Some (Z.min (p_end pd) t) /\ now st' = t.
Proof. exact block_accrual_time. Qed.
Print Assumptions C09_window_accrual_time.

(* never twice, never lost: two consecutive blocks count together exactly the
   reward time that a single block spanning both would count *)
Theorem C09_window_additive :
  forall e st t1 st1 t2 p x d1 d2 dd,
  env_wf e -> Inv e st -> block e st t1 = Ok st1 tt -> t1 <= t2 ->
  g_time st p = Some x ->
  pool_dur e st t1 p = Some d1 -> pool_dur e st1 t2 p = Some d2 -> pool_dur e st t2 p = Some dd ->
  d1 + d2 = dd.
Proof. exact blocks_additive. Qed.
Print Assumptions C09_window_additive.

(** ** Claims *)

Theorem C09_claim_exact :
  forall e st u d m st', claim e st u d (Some m) = Ok st' tt ->
  let pay := pay_of (pending e st u d) m in
  0 < pay /\ pay <= macc st d /\ now st <= claim_end e /\
  bal st' u d = bal st u d + pay /\
  macc st' d = macc st d - pay /\
  rew st' u d = 0 /\ pending e st' u d = 0 /\
  (forall d', d' <> d -> pending e st' u d' = pending e st u d' /\ bal st' u d' = bal st u d' /\ macc st' d' = macc st d') /\
  (forall v d', v <> u -> pending e st' v d' = pending e st v d' /\ bal st' v d' = bal st v d' /\ rew st' v d' = rew st v d') /\
  sh st' = sh st /\ g_idx st' = g_idx st /\ tot st' = tot st.
Proof. exact claim_exact. Qed.
Print Assumptions C09_claim_exact.

Theorem C09_second_claim_refused :
  forall e st u d m st' m2, claim e st u d (Some m) = Ok st' tt -> claim e st' u d m2 = Err.
Proof. exact second_claim_refused. Qed.
Print Assumptions C09_second_claim_refused.

Theorem C09_claim_after_deadline_refused :
  forall e st u d m, claim_end e < now st -> claim e st u d m = Err.
Proof. exact claim_after_deadline_refused. Qed.
Print Assumptions C09_claim_after_deadline_refused.

(** ** No panic; failed operations change nothing *)

(* "corrupted global reward indexes" and the accumulator's time panics are
   unreachable (multiplier factors are non-negative by params validation) *)
Theorem C09_no_panic :
  forall e st o, env_wf e -> Inv e st ->
  match o with Claim _ _ (Some m) => 0 <= m | _ => True end -> step e st o <> Panic.
Proof. exact step_no_panic. Qed.
Print Assumptions C09_no_panic.

Theorem C09_failed_changes_nothing :
  forall e st o, (forall s' u, step e st o <> Ok s' u) -> step' e st o = st.
Proof.
  intros e st o H. unfold step'. destruct (step e st o) as [s' u| |] eqn:E; auto.
  exfalso. exact (H s' u eq_refl).
Qed.
Print Assumptions C09_failed_changes_nothing.

(** ** Non-vacuity: two users in one pool, rate 1000/s, 100 s of rewards with
       shares 1:3, a position change, another 50 s, then a claim with factor 0.5. *)
Example C09_nonvacuous :
  let e := mk_env 2 1 1 [Some (mk_period 0 1000000000000 [1000])] 1000000000000 true in
  let s0 := init 0 (fun _ => 1000000) (fun _ => Some 0) (fun _ => 0) in
  let ops := [Change 0 0 (1 * PREC) (1 * PREC); Change 1 0 (3 * PREC) (4 * PREC);
              Block 100000000000;
              Change 1 0 (1 * PREC) (2 * PREC);
              Block 150000000000;
              Claim 0 0 (Some (PREC / 2))] in
  let st := run e s0 ops in
  inv_b e s0 = true /\ inv_b e st = true /\
  exact_ops e s0 ops /\ ExactTot e s0 /\
  pending e st 1%nat 0%nat = 75000 + 25000 /\
  bal st 0%nat 0%nat = 25000 /\ claimed st 0%nat 0%nat = 50000 /\ pending e st 0%nat 0%nat = 0 /\
  macc st 0%nat = 1000000 - 25000 /\ emitted st 0%nat = 150000.
Proof.
  cbv zeta. repeat split; try (vm_compute; reflexivity).
Qed.

(** Non-vacuity of the revalue accounting: 10 shares of a total of 10 for 100 s at
    1000/s, then the shares become 11 without a hook call (the total stays 10):
    the unsynchronised 100000 becomes 110000 (drift 10000 per share), and the next
    100 s credit 110000 of an emission of 100000 (overshare 10000). *)
Example C09_revalue_nonvacuous :
  let e := mk_env 1 1 1 [Some (mk_period 0 1000000000000 [1000])] 1000000000000 false in
  let s0 := init 0 (fun _ => 1000000) (fun _ => Some 0) (fun _ => 0) in
  let st1 := run e s0 [Change 0 0 (10 * PREC) (10 * PREC); Block 100000000000] in
  let st2 := run e st1 [Revalue 0 0 (11 * PREC)] in
  let st3 := run e st2 [Block 200000000000] in
  inv_b e st3 = true /\
  pending e st1 0%nat 0%nat = 100000 /\ pending e st2 0%nat 0%nat = 110000 /\
  drift st2 0%nat 0%nat = 10000 * PREC * PREC /\
  pending e st3 0%nat 0%nat = 220000 /\ emitted st3 0%nat = 200000 /\
  overshare st3 0%nat = 10000 * PREC * PREC.
Proof. cbv zeta. repeat split; vm_compute; reflexivity. Qed.

(** Non-vacuity of the bkava accumulation: two vaults (5 and 3 shares), period from
    50 s at 1000/s in denom 0; first accumulation at 100 s (no accrual time yet:
    only the 7 staking rewards of vault 0 in denom 1 are distributed), second at
    200 s with derivative values 30 and 60 of 100: 100 s * 300/s and 100 s * 600/s. *)
Example C09_bkava_nonvacuous :
  let e := mk_env 2 2 2 [None; None] 1000000000000 true in
  let pd := mk_period 50000000000 1000000000000 [1000; 0] in
  let ops := [Change 0 0 (5 * PREC) (5 * PREC); Change 1 1 (3 * PREC) (3 * PREC);
              Block 100000000000; BkAcc 0 pd 30 100 [0; 7]; BkAcc 1 pd 70 100 [0; 0];
              Block 200000000000; BkAcc 0 pd 30 100 [0; 0]; BkAcc 1 pd 60 100 [0; 5];
              Claim 0 0 (Some PREC)] in
  let st := run e (init 0 (fun _ => 1000000) (fun _ => None) (fun _ => 0)) ops in
  inv_b e st = true /\
  pending e st 0%nat 1%nat = 7 /\ pending e st 1%nat 0%nat = 60000 /\ pending e st 1%nat 1%nat = 5 /\
  bal st 0%nat 0%nat = 30000 /\ emitted_x st 0%nat = 90000 * PREC /\ emitted_x st 1%nat = 12 * PREC /\
  macc st 0%nat = 1000000 - 30000 /\ macc st 1%nat = 1000000 + 12.
Proof. cbv zeta. repeat split; vm_compute; reflexivity. Qed.

(** Non-vacuity of parameter changes: 100 s at 1000/s, the period is removed (the
    next 100 s accrue nothing and the accrual time goes stale), then re-added with
    start 150 s and rate 2000/s: the block at 300 s counts [150 s, 300 s]; an
    invalid period (end before start) is refused and changes nothing. *)
Example C09_param_change_nonvacuous :
  let e := mk_env 1 1 1 [Some (mk_period 0 1000000000000 [1000])] 1000000000000 false in
  let s0 := init 0 (fun _ => 1000000) (fun _ => Some 0) (fun _ => 0) in
  let xs1 := xrun (mkX e s0) [O (Change 0 0 (10 * PREC) (10 * PREC)); O (Block 100000000000); SetParams [None] 5] in
  let xs2 := xrun xs1 [O (Block 200000000000)] in
  let xs3 := xrun xs2 [SetParams [Some (150000000000, 1000000000000, [2000])] 1000000000000; O (Block 300000000000)] in
  let xs4 := xrun xs3 [SetParams [Some (5, 4, [1])] 0] in
  pending (x_env xs1) (x_st xs1) 0%nat 0%nat = 100000 /\ claim_end (x_env xs1) = 5 /\
  pending (x_env xs2) (x_st xs2) 0%nat 0%nat = 100000 /\
  pending (x_env xs3) (x_st xs3) 0%nat 0%nat = 100000 + 300000 /\
  inv_b (x_env xs3) (x_st xs3) = true /\
  xstep xs3 (SetParams [Some (5, 4, [1])] 0) = Err /\ claim_end (x_env xs4) = 1000000000000.
Proof. cbv zeta. repeat split; vm_compute; reflexivity. Qed.

(** * The correspondence checker evaluates the plain machine

    [check_history] / [mismatches] (Model/Incentive.v), which the harness evaluates on every
    recorded history, re-tabulate the model state after every operation ([retab]) for
    evaluation speed.  Proofs/RetabIncentive.v proves that this changes nothing: on the
    in-range indexes (users < nusers, pools < npools, reward denoms < ndenoms) the re-tabulated
    state has the components of the plain one, every operation reads in-range indexes only, and
    so the checker returns exactly what the same checker WITHOUT any re-tabulation returns
    ([check_history_plain]: xstep only; a successful multi-operation step is [xrun]).  What
    retab drops is the value of the components at out-of-range indexes. *)
From Kava Require Proofs.RetabCommon Proofs.RetabIncentive.

Theorem C09_retab_agrees_in_range : forall e s, RetabIncentive.steq e (retab e s) s.
Proof. exact RetabIncentive.retab_steq. Qed.
Print Assumptions C09_retab_agrees_in_range.

(* every operation maps states that agree in range to states that agree in range, with the
   same result class (Ok / Err / Panic) *)
Theorem C09_step_respects_in_range_agreement :
  forall e s s' o, RetabIncentive.steq e s s' ->
  RetabCommon.orel (RetabIncentive.steq e) (step e s o) (step e s' o).
Proof. exact RetabIncentive.step_steq. Qed.
Print Assumptions C09_step_respects_in_range_agreement.

Theorem C09_observables_respect_in_range_agreement :
  forall e s s', RetabIncentive.steq e s s' -> project e s = project e s' /\ inv_b e s = inv_b e s'.
Proof. intros e s s' Q. split; [apply RetabIncentive.project_steq|apply RetabIncentive.inv_b_steq]; exact Q. Qed.
Print Assumptions C09_observables_respect_in_range_agreement.

Theorem C09_checker_is_plain_run :
  forall h, check_history h = RetabIncentive.check_history_plain h.
Proof. exact RetabIncentive.check_history_retab_eq_plain. Qed.
Print Assumptions C09_checker_is_plain_run.

Theorem C09_mismatches_is_plain_run :
  forall hs, mismatches hs = RetabIncentive.mismatches_plain hs.
Proof. exact RetabIncentive.mismatches_retab_eq_plain. Qed.
Print Assumptions C09_mismatches_is_plain_run.

(* a successful multi-operation step of the plain checker is the plain run of its operations *)
Theorem C09_plain_multi_step_is_xrun :
  forall os xs xs1 u, RetabIncentive.xstep_list_plain xs os = Ok xs1 u -> xs1 = xrun xs os.
Proof. exact RetabIncentive.xstep_list_plain_xrun. Qed.
Print Assumptions C09_plain_multi_step_is_xrun.

(* non-vacuity: the plain checker is not trivially "no mismatch" -- a history whose recorded
   observation contradicts the plain run is reported at its step, and both checkers say so *)
Example C09_plain_checker_nonvacuous :
  let e := mk_env 1 1 1 [Some (mk_period 0 1000000000000 [1000])] 1000000000000 false in
  let h_ok := mkHist e 0 [1000000] [0] [0] [0; 0; 0; 0; 0; 0; 0; 0; 0; 0; 1000000]
                [([O (Block 100000000000)], mkObs ROk [(0%nat, 100000000000); (1%nat, 100000000000)])] in
  let h_bad := mkHist e 0 [1000000] [0] [0] [0; 0; 0; 0; 0; 0; 0; 0; 0; 0; 1000000]
                [([O (Block 100000000000)], mkObs ROk [(0%nat, 100000000000); (1%nat, 99)])] in
  RetabIncentive.check_history_plain h_ok = None /\ check_history h_ok = None /\
  RetabIncentive.check_history_plain h_bad = Some 0%nat /\ check_history h_bad = Some 0%nat.
Proof. cbv zeta. repeat split; vm_compute; reflexivity. Qed.
