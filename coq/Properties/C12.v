(* C12 — liquid staking: derivatives are backed, redeemable and vote like their stake.
   Property theorems only; proofs are in Proofs/Liquid.v.  Where the full statement is
   false of the faithful model there is a [_refuted] witness (closed, vm_compute) and
   the strongest true statement as [_partial]. *)
From Kava Require Import Base.Prelude Base.Dec Model.Staking Model.Tally Model.Liquid Proofs.Liquid.
Local Open Scope Z_scope.

(** A small world used by the witnesses: accounts 0,1 users, 2,3 operators of validators
    0,1, account 4 the liquid module account; validator 0 has 2 000 000 007 tokens at
    exchange rate one (user 0: 1 000 000 007, its operator: 1 000 000 000). *)
Definition w_env : env :=
  mk_env 5%nat 2%nat 4%nat [2%nat; 3%nat] 334000000000000000 500000000000000000 334000000000000000 true true.
Definition w_init : state :=
  mk_state
    [mkVal true 2000000007 (2000000007 * PREC) Bonded false 1; mkVal true 1000000 (1000000 * PREC) Bonded false 1]
    [(0%nat, 0%nat, Some (1000000007 * PREC)); (2%nat, 0%nat, Some (1000000000 * PREC)); (3%nat, 1%nat, Some (1000000 * PREC))]
    [5000; 0; 0; 0; 0].
Definition w_slash7 : op := Slash 0%nat 2000 70000000000000000.     (* 7 % of 2000 * 10^6 *)

Definition backed (e : env) (s : state) (i : nat) : Prop := dsup s i * PREC <= dshares s (liq e) i.

(** ** backing: supply of bkava-v never exceeds the module account's delegation shares *)

(* Refuted on a slashed validator: after a 7 % slash, MintDerivative(4 ukava) mints 4 units while
   the module's delegation grows by 3.2258... shares. *)
Theorem C12_backing_refuted :
  exists ops, inv_b w_env w_init = true /\ backed w_env w_init 0%nat /\
              ~ backed w_env (run w_env w_init ops) 0%nat.
Proof.
  exists [w_slash7; Mint 0%nat 0%nat 4]. split; [vm_compute; reflexivity|]. split.
  - vm_compute. discriminate.
  - vm_compute. intros H. apply H. reflexivity.
Qed.
Print Assumptions C12_backing_refuted.

(* ... and without bound: a mint that leaves almost no tokens behind re-delegates at a rate
   unrelated to the one it unbonded at; here 1 000 000 006 units are minted against
   500 000 002.55 module shares. *)
Theorem C12_backing_refuted_large :
  let s := run w_env w_init [w_slash7; Undelegate 2%nat 0%nat 930000000; EndBlock false; Mint 0%nat 0%nat 930000006] in
  dsup s 0%nat = 1000000006 /\ dshares s (liq w_env) 0%nat = 500000002556451613077578337.
Proof. vm_compute. split; reflexivity. Qed.
Print Assumptions C12_backing_refuted_large.

(** ** conversions move the stake and nothing else *)

(* TransferDelegation (the core of mint and burn): the validator's tokens, status and jailing are
   unchanged, no unbonding entry and no balance change (no unbonding period), only the two
   parties' delegations change, the sender's by exactly the shares asked. *)
Theorem C12_transfer_moves_stake :
  forall e s i from to sh s' recv, from <> to ->
  transfer_delegation e s i from to sh = Ok s' recv ->
  transfer_post e s s' i from to sh recv.
Proof. exact transfer_spec. Qed.
Print Assumptions C12_transfer_moves_stake.

Theorem C12_mint_moves_stake :
  forall e s a i amt s' minted, a <> liq e ->
  mint e s a i amt = Ok s' minted ->
  exists sh recv s1,
    validate_unbond_amount s a i amt = Some sh /\ minted = dec_trunc_int sh /\
    transfer_post e s s1 i a (liq e) sh recv /\
    vals s' = vals s1 /\ del s' = del s1 /\ bal s' = bal s /\ ubd s' = ubd s /\ redel s' = redel s /\
    sav s' = sav s /\ ern s' = ern s /\
    dbal s' a i = dbal s a i + minted /\ dsup s' i = dsup s i + minted /\
    (forall x j, (x <> a \/ j <> i) -> dbal s' x j = dbal s x j) /\
    (forall j, j <> i -> dsup s' j = dsup s j).
Proof. exact mint_spec. Qed.
Print Assumptions C12_mint_moves_stake.

Theorem C12_burn_moves_stake :
  forall e s a i amt s' recv, a <> liq e ->
  burn e s a i amt = Ok s' recv ->
  0 < amt <= dbal s a i /\
  transfer_post e (set_dsup (set_dbal s a i (dbal s a i - amt)) i (dsup s i - amt)) s' i (liq e) a (dec_of_int amt) recv.
Proof. exact burn_spec. Qed.
Print Assumptions C12_burn_moves_stake.

(** ** never an empty delegation *)

(* Refuted: on the slashed validator one derivative unit is worth 0.93 ukava, truncated to 0;
   BurnDerivative(1) by a holder without a delegation re-delegates 0 tokens and stores a
   delegation with zero shares. *)
Theorem C12_no_empty_delegation_refuted :
  let s := run w_env w_init [w_slash7; Mint 0%nat 0%nat 1000; SendD 0%nat 1%nat 0%nat 5] in
  del s 1%nat 0%nat = None /\
  exists s' r, step w_env s (Burn 1%nat 0%nat 1) = Ok s' r /\ del s' 1%nat 0%nat = Some 0.
Proof. vm_compute. split; [reflexivity|]. eexists. eexists. split; reflexivity. Qed.
Print Assumptions C12_no_empty_delegation_refuted.

(** ** guards *)

(* an incoming redelegation of the sender blocks the transfer, hence every mint *)
Theorem C12_guard_redelegation_transfer :
  forall e s i from to sh, redel s from i = true -> transfer_delegation e s i from to sh = Err.
Proof. exact transfer_refused_redelegation. Qed.
Print Assumptions C12_guard_redelegation_transfer.

Theorem C12_guard_redelegation_mint :
  forall e s a i amt, redel s a i = true -> mint e s a i amt = Err.
Proof. exact mint_refused_redelegation. Qed.
Print Assumptions C12_guard_redelegation_mint.

(* Read literally ("conversions are refused while the delegator has an incoming redelegation")
   the clause also covers burns; the code checks the sender of the shares only, which for a
   burn is the module account: a holder with an incoming redelegation can burn. *)
Theorem C12_guard_redelegation_burn_refuted :
  let s := run w_env w_init [Mint 0%nat 0%nat 1000; SendD 0%nat 3%nat 0%nat 10; Redelegate 3%nat 1%nat 0%nat 500] in
  redel s 3%nat 0%nat = true /\ class_of (step w_env s (Burn 3%nat 0%nat 10)) = ROk /\
  class_of (step w_env s (Mint 3%nat 0%nat 10)) = RErr.
Proof. vm_compute. repeat split; reflexivity. Qed.
Print Assumptions C12_guard_redelegation_burn_refuted.

(* a transfer (hence a mint) by the operator that would leave the self delegation worth less
   than MinSelfDelegation is refused *)
Theorem C12_guard_min_self_delegation :
  forall e s i to sh d,
  del s (oper e i) i = Some d -> v_shares (vals s i) <> 0 ->
  dec_trunc_int (tokens_from_shares (vals s i) (d - sh)) < v_minself (vals s i) ->
  transfer_delegation e s i (oper e i) to sh = Err.
Proof. exact transfer_refused_min_self. Qed.
Print Assumptions C12_guard_min_self_delegation.

Theorem C12_guard_min_self_delegation_mint :
  forall e s i amt sh d,
  validate_unbond_amount s (oper e i) i amt = Some sh ->
  del s (oper e i) i = Some d -> v_shares (vals s i) <> 0 ->
  dec_trunc_int (tokens_from_shares (vals s i) (d - sh)) < v_minself (vals s i) ->
  mint e s (oper e i) i amt = Err.
Proof. exact mint_refused_min_self. Qed.
Print Assumptions C12_guard_min_self_delegation_mint.

(* a failed operation leaves no change *)
Theorem C12_failed_changes_nothing :
  forall e s o, (forall s' u, step e s o <> Ok s' u) -> step' e s o = s.
Proof.
  intros e s o H. unfold step'. destruct (step e s o) as [s' u| |] eqn:E; auto.
  exfalso. exact (H s' u eq_refl).
Qed.
Print Assumptions C12_failed_changes_nothing.

(** ** the tally *)

(* Refuted: once validator 0 is jailed its delegators carry no power but the holder of its
   derivatives still votes with 900 000 000 — more than the whole bonded stake (1 000 000),
   and the proposal passes. *)
Theorem C12_tally_bounded_refuted :
  let s := run w_env w_init [Mint 0%nat 0%nat 900000000; Jail 0%nat; EndBlock false] in
  total_bonded w_env s = 1000000 /\
  exists t, tally w_env s [(0%nat, [(0%nat, PREC)])] = Some t /\ counted t = 900000000 /\ r_passes t = true.
Proof. vm_compute. split; [reflexivity|]. eexists. repeat split; reflexivity. Qed.
Print Assumptions C12_tally_bounded_refuted.
