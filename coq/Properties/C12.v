(* C12 — liquid staking: derivatives are backed, redeemable and vote like their stake.
   Property theorems only; proofs are in Proofs/Liquid.v, Proofs/LiquidValue.v (value owned, any
   exchange rate) and Proofs/Tally.v (the whole fold of the tally handler).  The model follows /repo after the
   three fix commits (MintDerivative mints at most the shares the module received;
   TransferDelegation re-delegates nothing when no whole token was unbonded; the tally skips
   derivatives of validators outside the bonded set).  Where a clause is still false of the
   faithful model there is a [_refuted] witness (closed, vm_compute) next to the strongest true
   statement. *)
From Kava Require Import Base.Prelude Base.Dec Model.Staking Model.Tally Model.Liquid Model.TallyTie Model.LiquidMsg Proofs.Liquid Proofs.LiquidValue Proofs.Tally Proofs.LiquidMsg.
Local Open Scope Z_scope.

(** A small world used by the witnesses: accounts 0,1 users, 2,3 operators of validators
    0,1, account 4 the liquid module account; validator 0 has 2 000 000 007 tokens at
    exchange rate one (user 0: 1 000 000 007, its operator: 1 000 000 000). *)
Definition w_env : env :=
  mk_env 5%nat 2%nat 4%nat [2%nat; 3%nat] 334000000000000000 500000000000000000 334000000000000000 true true.
Definition w_init : state :=
  mk_state
    [mkVal true 2000000007 (2000000007 * PREC) Bonded false 1; mkVal true 1000000 (1000000 * PREC) Bonded false 1]
    [(0%nat, 0%nat, Some (1000000007 * PREC)); (2%nat, 0%nat, Some (1000000000 * PREC)); (3%nat, 1%nat, Some (1000000 * PREC))]
    [5000; 0; 0; 0; 0].
Definition w_slash7 : op := Slash 0%nat 2000 70000000000000000.     (* 7 % of 2000 * 10^6 *)

(** ** the model invariant holds after every history (and implies the boolean form evaluated
    on every model state of the correspondence run) *)
Theorem C12_invariant_all_histories :
  forall e ops s, env_wf e -> Inv e s -> Inv e (run e s ops) /\ inv_b e (run e s ops) = true.
Proof. intros e ops s Hwf HI. pose proof (run_inv e ops s Hwf HI) as H. split; [exact H|]. now apply inv_b_of_Inv. Qed.
Print Assumptions C12_invariant_all_histories.

(** ** backing: for every validator the supply of its derivative never exceeds the delegation
    shares held by the module account — for every history (slashed, jailed, unbonding and
    unbonded validators, all amounts, all interleavings of the modelled operations) *)
Theorem C12_backing :
  forall e ops s, backed_all e s -> backed_all e (run e s ops).
Proof. exact run_backed. Qed.
Print Assumptions C12_backing.

(* non-vacuity: the slashed-validator history that broke backing before the fix *)
Example C12_backing_nonvacuous :
  backed_all w_env w_init /\
  let s := run w_env w_init [w_slash7; Mint 0%nat 0%nat 4; Mint 0%nat 0%nat 9] in
  dsup s 0%nat = 12 /\ 12 * PREC <= dshares s (liq w_env) 0%nat.
Proof.
  split.
  - intros i. vm_compute. discriminate.
  - vm_compute. split; [reflexivity|discriminate].
Qed.

(* On validators that are never slashed backing holds with equality and every conversion is
   exact: rate one, whole-share delegations, supply * 10^18 = module shares. *)
Theorem C12_backing_exact_unslashed :
  forall e i ops s, env_wf e -> Inv e s -> R1 e s i -> Forall (no_slash_of i) ops -> R1 e (run e s ops) i.
Proof. exact run_R1. Qed.
Print Assumptions C12_backing_exact_unslashed.

(** ** conversions move the stake and nothing else *)

(* TransferDelegation (the core of mint and burn): the validator's tokens, status and jailing are
   unchanged, no unbonding entry and no balance change (no unbonding period), only the two
   parties' delegations change, the sender's by exactly the shares asked. *)
Theorem C12_transfer_moves_stake :
  forall e s i from to sh s' recv, from <> to ->
  transfer_delegation e s i from to sh = Ok s' recv ->
  transfer_post e s s' i from to sh recv.
Proof. exact transfer_spec. Qed.
Print Assumptions C12_transfer_moves_stake.

Theorem C12_mint_moves_stake :
  forall e s a i amt s' minted, a <> liq e ->
  mint e s a i amt = Ok s' minted ->
  exists sh recv s1,
    validate_unbond_amount s a i amt = Some sh /\
    minted = Z.min (dec_trunc_int sh) (dec_trunc_int recv) /\ 0 < minted /\
    transfer_post e s s1 i a (liq e) sh recv /\
    vals s' = vals s1 /\ del s' = del s1 /\ bal s' = bal s /\ ubd s' = ubd s /\ redel s' = redel s /\
    sav s' = sav s /\ ern s' = ern s /\
    dbal s' a i = dbal s a i + minted /\ dsup s' i = dsup s i + minted /\
    (forall x j, (x <> a \/ j <> i) -> dbal s' x j = dbal s x j) /\
    (forall j, j <> i -> dsup s' j = dsup s j).
Proof. exact mint_spec. Qed.
Print Assumptions C12_mint_moves_stake.

Theorem C12_burn_moves_stake :
  forall e s a i amt s' recv, a <> liq e ->
  burn e s a i amt = Ok s' recv ->
  0 < amt <= dbal s a i /\
  transfer_post e (set_dsup (set_dbal s a i (dbal s a i - amt)) i (dsup s i - amt)) s' i (liq e) a (dec_of_int amt) recv.
Proof. exact burn_spec. Qed.
Print Assumptions C12_burn_moves_stake.

(* What a mint can cost: the units minted never exceed the shares the module gained, and unless
   the mint unbonds every share of the validator the shares given up that did not arrive obey
   (sh - gained) * T' < S + T' (S the validator's shares before, 0 < T' <= tokens the tokens left
   in the validator between unbond and re-delegation): below S/T' + 1e-18 shares. *)
Theorem C12_mint_shortfall_bound :
  forall e s a i amt s' minted,
  env_wf e -> Inv e s -> (a < nacc e)%nat -> a <> liq e ->
  mint e s a i amt = Ok s' minted ->
  let gained := dshares s' (liq e) i - dshares s (liq e) i in
  exists sh, validate_unbond_amount s a i amt = Some sh /\ 0 < minted /\ minted * PREC <= sh /\ minted * PREC <= gained /\
    (v_shares (vals s i) - sh <> 0 ->
     exists T', 0 < T' <= v_tokens (vals s i) /\ (sh - gained) * T' < v_shares (vals s i) + T').
Proof. exact mint_shortfall. Qed.
Print Assumptions C12_mint_shortfall_bound.

(* the staked value owned by the user (delegation shares + derivative units, valued by the
   validator record): unchanged exactly on a validator at exchange rate one *)
Theorem C12_value_preserved_rate_one :
  forall e s a i amt s' minted,
  env_wf e -> Inv e s -> rate1 s i -> (a < nacc e)%nat -> a <> liq e ->
  mint e s a i amt = Ok s' minted ->
  owned s' a i = owned s a i /\ vals s' i = vals s i /\ staked_value s' a i = staked_value s a i /\
  minted * PREC = dshares s a i - dshares s' a i /\
  dshares s' (liq e) i = dshares s (liq e) i + minted * PREC.
Proof.
  intros e s a i amt s' minted Hwf HI Hr Ha Hne Hm.
  destruct (mint_rate1_value e s a i amt s' minted Hwf HI Hr Ha Hne Hm) as (Ho & Hv & H1 & H2).
  repeat split; auto. unfold staked_value. now rewrite Ho, Hv.
Qed.
Print Assumptions C12_value_preserved_rate_one.

(** *** the staked value owned by the user, for ANY exchange rate (slashed validators).
    value = TokensFromShares(delegation shares + derivative units held * 10^18), truncated: the
    valuation of the Go monitor.  Hypotheses of every statement: the model invariant and backing
    (both hold after every history, theorems above), the user is not the module account. *)

(* a mint never raises the value by more than one base unit (any exchange rate) *)
Theorem C12_mint_value_gain_at_most_one :
  forall e s a i amt s' minted,
  env_wf e -> Inv e s -> backed_all e s -> (a < nacc e)%nat -> a <> liq e ->
  mint e s a i amt = Ok s' minted ->
  staked_value s' a i <= staked_value s a i + 1.
Proof. exact mint_value_upper. Qed.
Print Assumptions C12_mint_value_gain_at_most_one.

(* "... by more than two base units" is FALSE for a mint: on the state reached by
   delegate-less history [slash 7 %; the operator undelegates all but 1.018 shares of dust] user 0
   owns 965002 base units; minting 965002 leaves 964999: Unbond truncates one token, the two
   tokens left belong to 1.036 shares (price x 1.93), 499999.97 shares arrive, 499999 units are
   minted.  Reproduced on the real keepers (corpus/C12, scenario stream 7): known finding
   staked-value-changed:mint:unbond-truncation-reprices-remaining-shares. *)
Definition w3_init : state :=
  mk_state
    [mkVal true 2000003 (2000003 * PREC) Bonded false 1; mkVal true 1000000 (1000000 * PREC) Bonded false 1]
    [(0%nat, 0%nat, Some (1000001 * PREC)); (2%nat, 0%nat, Some (1000002 * PREC)); (3%nat, 1%nat, Some (1000000 * PREC))]
    [5000; 0; 0; 0; 0].

Theorem C12_value_two_units_refuted :
  let s := run w_env w3_init [Slash 0%nat 1 70000000000000000; Undelegate 2%nat 0%nat 965001] in
  let s' := step' w_env s (Mint 0%nat 0%nat 965002) in
  inv_b w_env s = true /\
  dsup s 0%nat * PREC <= dshares s (liq w_env) 0%nat /\ dsup s 1%nat * PREC <= dshares s (liq w_env) 1%nat /\
  PREC * v_tokens (vals s 0%nat) <= v_shares (vals s 0%nat) /\
  staked_value s 0%nat 0%nat = 965002 /\
  class_of (step w_env s (Mint 0%nat 0%nat 965002)) = ROk /\ dbal s' 0%nat 0%nat = 499999 /\
  staked_value s' 0%nat 0%nat = 964999 /\
  v_tokens (vals s' 0%nat) = 965003 /\ v_shares (vals s' 0%nat) = 500001009067343419010778.
Proof.
  vm_compute. split; [reflexivity|]. split; [discriminate|]. split; [discriminate|].
  split; [discriminate|]. repeat split; reflexivity.
Qed.
Print Assumptions C12_value_two_units_refuted.

(* Partial 1 — the true bound: while a share is worth at most one token (every validator created
   by CreateValidator starts there and slashing only lowers it) and the validator holds at most
   10^18 base units, a mint lowers the value owned by at most THREE base units (attained above). *)
Theorem C12_value_three_units_partial :
  forall e s a i amt s' minted,
  env_wf e -> Inv e s -> backed_all e s -> (a < nacc e)%nat -> a <> liq e ->
  mint e s a i amt = Ok s' minted ->
  PREC * v_tokens (vals s i) <= v_shares (vals s i) -> v_tokens (vals s i) <= PREC ->
  staked_value s a i - 3 <= staked_value s' a i <= staked_value s a i + 1.
Proof.
  intros e s a i amt s' minted Hwf HI HB Ha Hne Hm Hp HT. split.
  - eapply mint_value_lower3; eauto.
  - eapply mint_value_upper; eauto.
Qed.
Print Assumptions C12_value_three_units_partial.

(* Partial 2 — two units, as the property says, whenever a share is still worth at most one
   token AFTER the mint ... *)
Theorem C12_value_two_units_partial :
  forall e s a i amt s' minted,
  env_wf e -> Inv e s -> backed_all e s -> (a < nacc e)%nat -> a <> liq e ->
  mint e s a i amt = Ok s' minted ->
  PREC * v_tokens (vals s i) <= v_shares (vals s i) -> v_tokens (vals s i) <= PREC ->
  PREC * v_tokens (vals s' i) <= v_shares (vals s' i) ->
  staked_value s a i - 2 <= staked_value s' a i <= staked_value s a i + 1.
Proof.
  intros e s a i amt s' minted Hwf HI HB Ha Hne Hm Hp HT Hp'. split.
  - eapply mint_value_lower2; eauto.
  - eapply mint_value_upper; eauto.
Qed.
Print Assumptions C12_value_two_units_partial.

(* ... in particular under this guard on the state BEFORE the mint: with p = T P / S the share
   price and k = T - amt the tokens the mint leaves in the validator, p (1 + 1/k) <= 1 (a
   validator slashed by a fraction f: at least 1/f - 1 tokens stay; 7 % slash: 14 tokens) *)
Theorem C12_value_two_units_guard :
  forall e s a i amt s' minted,
  env_wf e -> Inv e s -> backed_all e s -> (a < nacc e)%nat -> a <> liq e ->
  mint e s a i amt = Ok s' minted ->
  v_tokens (vals s i) <= PREC -> amt < v_tokens (vals s i) ->
  PREC * v_tokens (vals s i) * (v_tokens (vals s i) - amt + 1) <= v_shares (vals s i) * (v_tokens (vals s i) - amt) ->
  staked_value s a i - 2 <= staked_value s' a i.
Proof. exact mint_value_lower2_guard. Qed.
Print Assumptions C12_value_two_units_guard.

(* The general formula (also once a share is worth MORE than one token, which only the refuted
   case above can produce): if the mint does not convert every share of the validator and a share
   is worth at most c tokens after it, the loss is at most c + 1 = one token truncated by Unbond
   + one share floored by the mint.  The classifier of the known finding uses exactly this. *)
Theorem C12_value_loss_by_share_price :
  forall e s a i amt s' minted c,
  env_wf e -> Inv e s -> backed_all e s -> (a < nacc e)%nat -> a <> liq e ->
  mint e s a i amt = Ok s' minted ->
  1 <= c -> v_tokens (vals s i) <= PREC ->
  dshares s a i - dshares s' a i <> v_shares (vals s i) ->
  PREC * v_tokens (vals s' i) <= c * v_shares (vals s' i) ->
  staked_value s a i - (c + 1) <= staked_value s' a i.
Proof. exact mint_value_lower_price. Qed.
Print Assumptions C12_value_loss_by_share_price.

(* a burn changes the value owned by at most two base units down and one up, for any exchange
   rate in the range of the no-empty-delegation theorem (a share worth at most 5 * 10^17 tokens) *)
Theorem C12_burn_value_two_units :
  forall e s a i amt s' recv,
  env_wf e -> Inv e s -> backed_all e s -> (a < nacc e)%nat -> a <> liq e ->
  burn e s a i amt = Ok s' recv ->
  2 * v_tokens (vals s i) <= v_shares (vals s i) ->
  staked_value s a i - 2 <= staked_value s' a i <= staked_value s a i + 1.
Proof. exact burn_value_bounds. Qed.
Print Assumptions C12_burn_value_two_units.

(* non-vacuity on a slashed validator: a mint and a burn within the bounds, value really moving *)
Example C12_value_bounds_nonvacuous :
  let s := run w_env w_init [w_slash7] in
  let s1 := run w_env s [Mint 0%nat 0%nat 1000; SendD 0%nat 1%nat 0%nat 100] in
  staked_value s 0%nat 0%nat = 930000006 /\
  class_of (step w_env s (Mint 0%nat 0%nat 5)) = ROk /\
  staked_value (step' w_env s (Mint 0%nat 0%nat 5)) 0%nat 0%nat = 930000005 /\
  staked_value s1 1%nat 0%nat = 93 /\
  class_of (step w_env s1 (Burn 1%nat 0%nat 7)) = ROk /\
  staked_value (step' w_env s1 (Burn 1%nat 0%nat 7)) 1%nat 0%nat = 92.
Proof. vm_compute. repeat split; reflexivity. Qed.

(** ** never an empty delegation: for a validator whose shares are worth less than 5*10^17 tokens
    each (every validator created by CreateValidator starts at one token per share and slashing
    only lowers it) a transfer never leaves a zero-share delegation behind: the sender's record
    is removed when it reaches zero, the receiver's record is either untouched or grows by a
    positive amount, and nobody else's record changes *)
Theorem C12_no_empty_delegation :
  forall e s i from to sh s' recv,
  from <> to -> (from < nacc e)%nat -> Inv e s ->
  2 * v_tokens (vals s i) <= v_shares (vals s i) ->
  transfer_delegation e s i from to sh = Ok s' recv ->
  del s' from i <> Some 0 /\ (del s' to i = Some 0 -> del s to i = Some 0) /\
  forall x j, (x <> from /\ x <> to) \/ j <> i -> del s' x j = del s x j.
Proof. exact transfer_no_empty_delegation. Qed.
Print Assumptions C12_no_empty_delegation.

(* the case that created an empty delegation before the fix: one unit worth 0.93 ukava is
   burned, the burn succeeds, returns zero shares and stores no delegation *)
Example C12_no_empty_delegation_unit_burn :
  let s := run w_env w_init [w_slash7; Mint 0%nat 0%nat 1000; SendD 0%nat 1%nat 0%nat 5] in
  del s 1%nat 0%nat = None /\
  exists s', step w_env s (Burn 1%nat 0%nat 1) = Ok s' (OShares 0) /\ del s' 1%nat 0%nat = None /\
             dbal s' 1%nat 0%nat = dbal s 1%nat 0%nat - 1.
Proof. vm_compute. split; [reflexivity|]. eexists. repeat split; reflexivity. Qed.

(** ** every holder can redeem.  Backing gives the shares; one refusal remains: when the module
    account is the last delegator of an unbonded validator, burning all remaining units removes
    the validator inside Unbond and the re-delegation fails; all but one unit can be redeemed. *)
Theorem C12_redeem_refuted :
  let s := run w_env w_init [Mint 0%nat 0%nat 1000000007; Undelegate 2%nat 0%nat 1000000000; EndBlock false; EndBlock true] in
  dbal s 0%nat 0%nat = 1000000007 /\ dshares s (liq w_env) 0%nat = 1000000007 * PREC /\
  class_of (step w_env s (Burn 0%nat 0%nat 1000000007)) = RErr /\
  class_of (step w_env s (Burn 0%nat 0%nat 1000000006)) = ROk.
Proof. vm_compute. repeat split; reflexivity. Qed.
Print Assumptions C12_redeem_refuted.

(* Partial: on a validator at exchange rate one (never slashed) every holder can redeem any
   amount the module's delegation covers, unless the burn would unbond the last shares of an
   unbonded validator (the refusal above): in particular whenever another delegator remains or
   the validator is bonded or unbonding.  The holder receives exactly one share per unit. *)
Theorem C12_redeem_partial :
  forall e s a i amt,
  Inv e s -> rate1 s i -> (liq e < nacc e)%nat ->
  0 < amt <= dbal s a i ->
  dec_of_int amt <= dshares s (liq e) i ->
  redel s (liq e) i = false -> liq e <> oper e i -> v_exists (vals s i) = true ->
  (v_status (vals s i) <> Unbonded \/ v_shares (vals s i) <> dec_of_int amt) ->
  exists s' recv, burn e s a i amt = Ok s' recv /\ recv = dec_of_int amt.
Proof. exact burn_succeeds_rate1. Qed.
Print Assumptions C12_redeem_partial.

(** ** guards *)

(* an incoming redelegation of the party whose delegation is unbonded blocks the transfer,
   hence every mint by that delegator *)
Theorem C12_guard_redelegation_transfer :
  forall e s i from to sh, redel s from i = true -> transfer_delegation e s i from to sh = Err.
Proof. exact transfer_refused_redelegation. Qed.
Print Assumptions C12_guard_redelegation_transfer.

Theorem C12_guard_redelegation_mint :
  forall e s a i amt, redel s a i = true -> mint e s a i amt = Err.
Proof. exact mint_refused_redelegation. Qed.
Print Assumptions C12_guard_redelegation_mint.

(* a transfer (hence a mint) by the operator that would leave the self delegation worth less
   than MinSelfDelegation is refused *)
Theorem C12_guard_min_self_delegation :
  forall e s i to sh d,
  del s (oper e i) i = Some d -> v_shares (vals s i) <> 0 ->
  dec_trunc_int (tokens_from_shares (vals s i) (d - sh)) < v_minself (vals s i) ->
  transfer_delegation e s i (oper e i) to sh = Err.
Proof. exact transfer_refused_min_self. Qed.
Print Assumptions C12_guard_min_self_delegation.

Theorem C12_guard_min_self_delegation_mint :
  forall e s i amt sh d,
  validate_unbond_amount s (oper e i) i amt = Some sh ->
  del s (oper e i) i = Some d -> v_shares (vals s i) <> 0 ->
  dec_trunc_int (tokens_from_shares (vals s i) (d - sh)) < v_minself (vals s i) ->
  mint e s (oper e i) i amt = Err.
Proof. exact mint_refused_min_self. Qed.
Print Assumptions C12_guard_min_self_delegation_mint.

(* the guards are not vacuous: the same user mints before and is refused after a redelegation *)
Example C12_guards_nonvacuous :
  let s := run w_env w_init [Mint 0%nat 0%nat 1000; SendD 0%nat 3%nat 0%nat 10; Redelegate 3%nat 1%nat 0%nat 500] in
  redel s 3%nat 0%nat = true /\ class_of (step w_env s (Mint 3%nat 0%nat 10)) = RErr /\
  class_of (step w_env w_init (Mint 0%nat 0%nat 10)) = ROk /\
  class_of (step w_env w_init (Mint 2%nat 0%nat 1000000000)) = RErr.
Proof. vm_compute. repeat split; reflexivity. Qed.

(* a failed operation leaves no change *)
Theorem C12_failed_changes_nothing :
  forall e s o, (forall s' u, step e s o <> Ok s' u) -> step' e s o = s.
Proof.
  intros e s o H. unfold step'. destruct (step e s o) as [s' u| |] eqn:E; auto.
  exfalso. exact (H s' u eq_refl).
Qed.
Print Assumptions C12_failed_changes_nothing.

(** ** the tally *)

(* The power counted on account of one bonded validator — its voting delegators' shares [ds], its
   voting derivative holders' units [hs] and, if it voted, its own remaining shares — never exceeds
   its tokens, up to half a unit of 10^-18 per rounded term, provided the voters' shares and
   units together do not exceed the validator's shares (which backing + the staking invariant
   DelegatorShares = sum of delegations guarantee). *)
Theorem C12_tally_bounded_per_validator :
  forall v ds hs voted,
  (forall d, In d ds -> 0 <= d) -> (forall h, In h hs -> 0 <= h) ->
  0 <= v_tokens v -> 0 < v_shares v ->
  zsum ds + zsum (map dec_of_int hs) <= v_shares v ->
  2 * counted_for v ds hs voted <= 2 * dec_of_int (v_tokens v) + Z.of_nat (length ds) + 1.
Proof. exact counted_for_bound. Qed.
Print Assumptions C12_tally_bounded_per_validator.

(* The WHOLE handler (app/tally_handler.go as modelled by Model/Tally.v [tally]: votes, each
   voter's delegations to bonded validators and derivative holdings in wallet + savings + earn
   valued through the validator record, deductions, then the validators' remaining power, then
   the four truncated results): for every state satisfying the invariant and backing, every set
   of well-formed votes (one per voter, voters are user accounts, weights >= 0 summing to at most
   one, at most four options), the counted power never exceeds the total bonded stake.  Slack:
   every LegacyDec rounding adds at most half a unit of 10^-18; the truncation of the results to
   whole tokens absorbs them as long as nval * (10 * votes + 5) < 2 * 10^18. *)
Theorem C12_tally_bounded :
  forall e s votes o,
  env_wf e -> Inv e s -> backed_all e s -> votes_wf e votes ->
  Z.of_nat (nval e) * (10 * Z.of_nat (length votes) + 5) < 2 * PREC ->
  tally e s votes = Some o ->
  counted o <= total_bonded e s.
Proof. exact tally_counted_le_bonded. Qed.
Print Assumptions C12_tally_bounded.

(* the same before truncation: totalVotingPower (18 decimals) against the bonded tokens *)
Theorem C12_tally_total_voting_power :
  forall e s votes,
  env_wf e -> Inv e s -> backed_all e s -> votes_wf e votes ->
  2 * t_total (tally_acc e s votes)
    <= 2 * PREC * total_bonded e s + Z.of_nat (nval e) * (2 * Z.of_nat (length votes) + 1).
Proof. intros e s votes Hwf HI HB Hv. exact (proj1 (tally_total_power_le e s votes Hwf HI HB Hv)). Qed.
Print Assumptions C12_tally_total_voting_power.

(* for every history: invariant and backing are preserved (theorems above), so every tally taken
   after any history of the modelled operations is bounded *)
Theorem C12_tally_bounded_all_histories :
  forall e ops s votes o,
  env_wf e -> Inv e s -> backed_all e s -> votes_wf e votes ->
  Z.of_nat (nval e) * (10 * Z.of_nat (length votes) + 5) < 2 * PREC ->
  tally e (run e s ops) votes = Some o ->
  counted o <= total_bonded e (run e s ops).
Proof.
  intros e ops s votes o Hwf HI HB Hv Hs Ht.
  apply (tally_counted_le_bonded e (run e s ops) votes o); auto; [now apply run_inv|now apply run_backed].
Qed.
Print Assumptions C12_tally_bounded_all_histories.

(* The tie of the fold (Model/TallyTie.v): at every tally of every history the harness records what
   the handler reads through the keepers (bonded validators, TotalBondedTokens, each voter's
   delegations and derivative coins) and the totalVotingPower the SDK's LegacyDec gives on them;
   the model run requires [tally_in_ok].  Whenever that check passes, the implementation-side
   numbers satisfy the bound themselves: *)
Theorem C12_tally_tie_bounded :
  forall e s votes ti,
  env_wf e -> Inv e s -> backed_all e s -> votes_wf e votes ->
  tally_in_ok e s votes ti = true ->
  2 * ti_total ti <= 2 * PREC * ti_bonded ti + Z.of_nat (nval e) * (2 * Z.of_nat (length votes) + 1).
Proof.
  intros e s votes ti Hwf HI HB Hv Hok. unfold tally_in_ok in Hok.
  apply andb_prop in Hok. destruct Hok as (Hok & Ht). apply andb_prop in Hok. destruct Hok as (Hok & _).
  apply andb_prop in Hok. destruct Hok as (_ & Hb).
  apply Z.eqb_eq in Ht. apply Z.eqb_eq in Hb. rewrite <- Ht, <- Hb.
  exact (proj1 (tally_total_power_le e s votes Hwf HI HB Hv)).
Qed.
Print Assumptions C12_tally_tie_bounded.

(* the hypotheses are not vacuous: the votes of the examples below are well formed, the world
   satisfies invariant and backing *)
Example C12_tally_bounded_nonvacuous :
  env_wf w_env /\ inv_b w_env w_init = true /\
  votes_wf w_env [(0%nat, [(0%nat, PREC)]); (2%nat, [(2%nat, 300000000000000000); (3%nat, 700000000000000000)])].
Proof.
  split; [unfold env_wf; cbn; lia|]. split; [vm_compute; reflexivity|].
  split.
  - cbn [map fst]. constructor; [cbn; intros [H|[]]; discriminate|]. constructor; [cbn; tauto|constructor].
  - intros vt Hin. cbn [In] in Hin. unfold vote_wf, opts_wf.
    destruct Hin as [<-|[<-|[]]]; cbn [fst snd length].
    + split; [cbn; lia|]. split; [cbn; discriminate|]. split; [lia|]. split; [|vm_compute; discriminate].
      intros o [<-|[]]. cbn. unfold PREC. lia.
    + split; [cbn; lia|]. split; [cbn; discriminate|]. split; [lia|]. split; [|vm_compute; discriminate].
      intros o [<-|[<-|[]]]; cbn; lia.
Qed.

(* only while bonded: after validator 0 is jailed (the history that let 900 000 000 votes pass a
   proposal against 1 000 000 bonded before the fix) its derivative holder counts nothing *)
Example C12_tally_only_while_bonded :
  let s := run w_env w_init [Mint 0%nat 0%nat 900000000; Jail 0%nat; EndBlock false] in
  total_bonded w_env s = 1000000 /\
  exists t, tally w_env s [(0%nat, [(0%nat, PREC)])] = Some t /\ counted t = 0 /\ r_passes t = false.
Proof. vm_compute. split; [reflexivity|]. eexists. repeat split; reflexivity. Qed.

(* while bonded the holder's units, the remaining delegators and the validator add up to the
   validator's tokens exactly *)
Example C12_tally_counts_bonded :
  let s := run w_env w_init [Mint 0%nat 0%nat 900000000] in
  exists t, tally w_env s [(0%nat, [(0%nat, PREC)]); (2%nat, [(2%nat, PREC)])] = Some t /\
            r_yes t = 1000000007 /\ r_no t = 1000000000 /\ counted t = 2000000007 /\ total_bonded w_env s = 2001000007.
Proof. vm_compute. eexists. repeat split; reflexivity. Qed.

(* Counted once, wherever held: the tally depends on a voter's derivatives only through
   wallet + savings + earn, so moving them between the three changes no result. *)
Theorem C12_derivative_counted_once :
  forall e s s' votes,
  (forall i, vals s' i = vals s i) -> (forall a i, del s' a i = del s a i) ->
  (forall a i, held s' a i = held s a i) ->
  tally e s' votes = tally e s votes.
Proof. exact tally_ext. Qed.
Print Assumptions C12_derivative_counted_once.

Theorem C12_custody_keeps_tally :
  forall e s p a i amt s' votes,
  (stash s p a i amt = Ok s' tt \/ unstash s p a i amt = Ok s' tt) -> tally e s' votes = tally e s votes.
Proof. intros e s p a i amt s' votes [H|H]; [eapply stash_tally|eapply unstash_tally]; eauto. Qed.
Print Assumptions C12_custody_keeps_tally.

(* A derivative position of h units carries the power a delegation of h shares would carry,
   up to the truncation to whole tokens: 0 <= delegation power - derivative power <= 1 token. *)
Theorem C12_derivative_power_matches_delegation :
  forall v h, 0 <= h -> 0 <= v_tokens v -> 0 < v_shares v ->
  0 <= delegation_power v (dec_of_int h) - dec_of_int (derivative_value v h) <= PREC.
Proof. exact derivative_power_close. Qed.
Print Assumptions C12_derivative_power_matches_delegation.

(** ** the message level: the coin's denom is a field of the message, chosen by the sender
    independently of the validator address (Model/LiquidMsg.v; types/msg.go ValidateBasic accepts
    any valid positive coin) *)

(* A burn message whose coin is not the derivative of the validator it names — in particular the
   derivative of ANOTHER existing validator with minted derivatives — is refused and changes
   nothing (derivative.go BurnDerivative compares amount.Denom with
   GetLiquidStakingTokenDenom(valAddr)). *)
Theorem C12_burn_other_denom_refused :
  forall e s a v dn amt, dn <> DDeriv v ->
  mstep e s (MBurnMsg a v dn amt) = Err /\ mstep' e s (MBurnMsg a v dn amt) = s.
Proof.
  intros e s a v dn amt H. pose proof (burn_msg_other_denom_refused e s a v dn amt H) as E.
  split; [exact E|]. unfold mstep'. now rewrite E.
Qed.
Print Assumptions C12_burn_other_denom_refused.

(* a successful burn message burned the derivative of the validator whose module delegation pays
   the shares, and is the keeper-level burn of Model/Liquid.v: every theorem above speaks about it *)
Theorem C12_burn_msg_is_burn_of_named_validator :
  forall e s a v dn amt s' out,
  mstep e s (MBurnMsg a v dn amt) = Ok s' out -> dn = DDeriv v /\ step e s (Burn a v amt) = Ok s' out.
Proof. exact burn_msg_ok_denom. Qed.
Print Assumptions C12_burn_msg_is_burn_of_named_validator.

(* a mint message paying with anything but the bond denom is refused *)
Theorem C12_mint_derivative_denom_refused :
  forall e s a v d amt, mstep e s (MMintMsg a v (DDeriv d) amt) = Err.
Proof. exact mint_msg_derivative_denom_refused. Qed.
Print Assumptions C12_mint_derivative_denom_refused.

(* invariant and backing for every history of messages, whatever denoms they name *)
Theorem C12_backing_all_message_histories :
  forall e ms s, env_wf e -> Inv e s -> backed_all e s ->
  Inv e (mrun e s ms) /\ backed_all e (mrun e s ms).
Proof. intros e ms s Hwf HI HB. split; [now apply mrun_inv|now apply mrun_backed]. Qed.
Print Assumptions C12_backing_all_message_histories.

(* The comparison is what backing needs: had BurnDerivative accepted the derivative of any existing
   validator ([burn_loose]), the holder of validator d's derivative naming validator v would leave
   v's derivative with fewer module shares than supply (closed witness, two validators at rate one,
   both with minted derivatives), while the model of the code refuses that very message. *)
Theorem C12_burn_denom_check_needed :
  exists e s a d v amt s' x,
    backed_all e s /\ d <> v /\ 0 < dsup s d /\ 0 < dsup s v /\
    burn_loose e s a d v amt = Ok s' x /\
    dshares s' (liq e) v < dsup s' v * PREC /\
    mstep' e s (MBurnMsg a v (DDeriv d) amt) = s.
Proof. exact loose_burn_breaks_backing. Qed.
Print Assumptions C12_burn_denom_check_needed.

(* non-vacuity: the same holder redeems against the validator whose derivative it holds *)
Example C12_burn_msg_nonvacuous :
  let s := mrun lm_env lm_minted [MBurnMsg 0%nat 1%nat (DDeriv 0%nat) 400000; MBurnMsg 0%nat 0%nat (DDeriv 0%nat) 400000] in
  dsup s 0%nat = 600000 /\ dsup s 1%nat = 1000000 /\
  dshares s (liq lm_env) 1%nat = 1000000 * PREC /\ dshares s 0%nat 0%nat = 1400000 * PREC.
Proof. vm_compute. repeat split; reflexivity. Qed.

(** ** the savings SupportedDenoms parameter inside a history (Model/SavListing.v)
    Governance can remove "bkava" from the x/savings SupportedDenoms at any time.  Deposits made
    before stay in the store and stay withdrawable; new deposits (savings, and earn through its
    savings strategy) are refused.  app/tally_handler.go addBkavaFromSavings reads the voter's
    deposit with GetDeposit and does not consult the parameter: a derivative deposited while the
    denom was listed keeps its vote after the de-listing. *)
From Kava Require Import Model.SavListing Proofs.SavListing.

(* whatever the parameter says, a tally is the tally of the state: votes, delegations and the
   derivative units in wallet + savings + earn *)
Theorem C12_tally_reads_savings_whatever_the_listing :
  forall e s l votes,
  sstep e s l (SMsg (MPlain (Tally votes))) =
  match tally e s votes with Some t => Ok (s, l) (OTally t) | None => Panic end.
Proof. exact sstep_tally_any_listing. Qed.
Print Assumptions C12_tally_reads_savings_whatever_the_listing.

(* a parameter change moves no holding, and the same votes give the same result right after it *)
Theorem C12_delisting_keeps_tally :
  forall e s l b votes sl,
  sstep e s l (SSetListed b) = Ok sl ONone ->
  class_of (sstep e (fst sl) (snd sl) (SMsg (MPlain (Tally votes)))) = class_of (sstep e s l (SMsg (MPlain (Tally votes)))) /\
  forall s1 l1 s2 l2 x1 x2,
    sstep e (fst sl) (snd sl) (SMsg (MPlain (Tally votes))) = Ok (s1, l1) x1 ->
    sstep e s l (SMsg (MPlain (Tally votes))) = Ok (s2, l2) x2 -> x1 = x2 /\ s1 = s2.
Proof. exact tally_same_after_set_listed. Qed.
Print Assumptions C12_delisting_keeps_tally.

(* while de-listed: deposits refused, withdrawals as before *)
Theorem C12_delisted_deposit_refused :
  forall e s p a i amt, sstep e s false (SMsg (MPlain (Stash p a i amt))) = Err.
Proof. exact sstep_stash_delisted. Qed.
Print Assumptions C12_delisted_deposit_refused.

Theorem C12_withdrawal_whatever_the_listing :
  forall e s l p a i amt,
  sstep e s l (SMsg (MPlain (Unstash p a i amt))) =
  match step e s (Unstash p a i amt) with Ok s' x => Ok (s', l) x | Err => Err | Panic => Panic end.
Proof. exact sstep_unstash_any_listing. Qed.
Print Assumptions C12_withdrawal_whatever_the_listing.

(* invariant and backing for every history with parameter changes *)
Theorem C12_backing_all_histories_with_listing :
  forall e os sl, env_wf e -> Inv e (fst sl) -> backed_all e (fst sl) ->
  Inv e (fst (srun e sl os)) /\ backed_all e (fst (srun e sl os)).
Proof. intros e os sl Hwf HI HB. split; [now apply srun_inv|now apply srun_backed]. Qed.
Print Assumptions C12_backing_all_histories_with_listing.

(* non-vacuity: user 0 converts 900 000 000 shares, deposits the derivative in savings, the denom
   is de-listed; user 0 (yes) and the validator's operator (no) vote: the holder keeps its
   1 000 000 007 (the result of C12_tally_counts_bonded), the validator does not inherit the
   derivative's power; a new deposit is refused, the old one is withdrawable *)
Example C12_delisting_nonvacuous :
  let sl := srun w_env (w_init, true)
              [SMsg (MPlain (Mint 0%nat 0%nat 900000000)); SMsg (MPlain (Stash PSav 0%nat 0%nat 899999999));
               SSetListed false] in
  snd sl = false /\ sav (fst sl) 0%nat 0%nat = 899999999 /\ dbal (fst sl) 0%nat 0%nat = 1 /\
  (exists t, sstep w_env (fst sl) (snd sl) (SMsg (MPlain (Tally [(0%nat, [(0%nat, PREC)]); (2%nat, [(2%nat, PREC)])])))
             = Ok sl (OTally t) /\ r_yes t = 1000000007 /\ r_no t = 1000000000) /\
  sstep w_env (fst sl) (snd sl) (SMsg (MPlain (Stash PSav 0%nat 0%nat 1))) = Err /\
  class_of (sstep w_env (fst sl) (snd sl) (SMsg (MPlain (Unstash PSav 0%nat 0%nat 899999999)))) = ROk.
Proof. vm_compute. repeat split; try reflexivity. eexists. repeat split; reflexivity. Qed.
