(* C11 — earn and savings: exact share accounting; nobody withdraws others' funds.
   Property theorems only; proofs are in Proofs/Savings.v and Proofs/Earn.v. *)
From Kava Require Import Base.Prelude Base.Dec Model.Savings Model.Earn Proofs.Savings Proofs.Earn.
Local Open Scope Z_scope.

(* Every history of operations (savings and earn deposits/withdrawals by any
   accounts, interest accruing in hard, third-party hard borrowing, bank sends
   to the earn module account) preserves the invariant: balances, deposits,
   positions and shares non-negative, savings module balance = sum of deposits,
   vault records positive, total shares = sum of account shares. *)
Theorem C11_invariant_all_histories :
  forall e ops s, env_wf e -> Inv e s -> Inv e (run e s ops).
Proof. intros e ops s. exact (run_inv e ops s). Qed.
Print Assumptions C11_invariant_all_histories.

(* savings_solvent: the savings module balance equals the sum of all recorded deposits *)
Theorem C11_savings_solvent :
  forall e ops s d, env_wf e -> Inv e s ->
  bal (sv (run e s ops)) (sav_acc (se e)) d = sumN (nacc (se e)) (fun a => sdep (sv (run e s ops)) a d).
Proof. intros e ops s d Hwf HI. destruct (run_inv e ops s Hwf HI) as ((_ & _ & H) & _). apply H. Qed.
Print Assumptions C11_savings_solvent.

(* savings_withdraw_exact: a withdrawal pays min(request, deposit) in every denom,
   deducts exactly that from the deposit record and from the module account, and
   touches nothing else *)
Theorem C11_savings_withdraw_exact :
  forall e s u c s' out, Inv e s -> step e s (SWithdraw u c) = Ok s' out ->
  let pay d := Z.min (total_of d c) (sdep (sv s) u d) in
  coins_valid c = true /\
  (forall d, bal (sv s') u d = bal (sv s) u d + pay d) /\
  (forall d, sdep (sv s') u d = sdep (sv s) u d - pay d) /\
  (forall d, bal (sv s') (sav_acc (se e)) d = bal (sv s) (sav_acc (se e)) d - pay d) /\
  (forall d, 0 <= pay d <= sdep (sv s) u d) /\
  (forall x d, x <> u -> x <> sav_acc (se e) -> bal (sv s') x d = bal (sv s) x d) /\
  (forall x d, x <> u -> sdep (sv s') x d = sdep (sv s) x d) /\
  hval s' = hval s /\ vrec s' = vrec s /\ shr s' = shr s.
Proof. exact step_swithdraw_exact. Qed.
Print Assumptions C11_savings_withdraw_exact.

Theorem C11_savings_deposit_exact :
  forall e s u c s' out, step e s (SDeposit u c) = Ok s' out ->
  (forall d, bal (sv s') u d = bal (sv s) u d - total_of d c) /\
  (forall d, sdep (sv s') u d = sdep (sv s) u d + total_of d c) /\
  (forall d, bal (sv s') (sav_acc (se e)) d = bal (sv s) (sav_acc (se e)) d + total_of d c) /\
  (forall x d, x <> u -> x <> sav_acc (se e) -> bal (sv s') x d = bal (sv s) x d) /\
  (forall x d, x <> u -> sdep (sv s') x d = sdep (sv s) x d) /\
  hval s' = hval s /\ vrec s' = vrec s /\ shr s' = shr s.
Proof. exact step_sdeposit_exact. Qed.
Print Assumptions C11_savings_deposit_exact.

(* earn_shares_sum: each vault's total shares equal the sum of the account shares *)
Theorem C11_earn_shares_sum :
  forall e ops s d, env_wf e -> Inv e s ->
  tot (run e s ops) d = sumN (nacc (se e)) (fun u => shr (run e s ops) u d).
Proof. intros e ops s d Hwf HI. destruct (run_inv e ops s Hwf HI) as (_ & _ & _ & _ & H). apply H. Qed.
Print Assumptions C11_earn_shares_sum.

(* earn_solvent: the redeemable values of all accounts together never exceed
   the value held by the vault's strategy (sum of floors <= floor of the sum);
   value_of is ConvertToAssets of the account's shares *)
Theorem C11_earn_solvent :
  forall e ops s d V, env_wf e -> Inv e s ->
  total_value e (run e s ops) d = Some V ->
  sumN (nacc (se e)) (fun u => value_of e (run e s ops) u d) <= V.
Proof. intros e ops s d V Hwf HI. apply solvent. apply run_inv; assumption. Qed.
Print Assumptions C11_earn_solvent.

(* ... where value_of is floor(V * shares / total shares) *)
Theorem C11_value_of_is_floor :
  forall e s u d T V, Inv e s -> vrec s d = Some T -> total_value e s d = Some V ->
  convert_to_assets e s d (shr s u d) = Val (V * shr s u d / T) /\ value_of e s u d = V * shr s u d / T.
Proof. exact value_of_eq. Qed.
Print Assumptions C11_value_of_is_floor.

(* ... and a savings-strategy position is covered by coins of the savings module account *)
Theorem C11_savings_position_backed :
  forall e ops s d, env_wf e -> Inv e s ->
  sdep (sv (run e s ops)) (earn_acc e) d <= bal (sv (run e s ops)) (sav_acc (se e)) d.
Proof. intros e ops s d Hwf HI. apply savings_position_backed; [assumption|apply run_inv; assumption]. Qed.
Print Assumptions C11_savings_position_backed.

(* earn_withdraw_capped: a withdrawal pays no more than requested and no more than
   the account's redeemable value (which is what GetVaultAccountValue reports);
   the withdrawer receives exactly the amount, the strategy position falls by it *)
Theorem C11_earn_withdraw_capped :
  forall e s u d x st s' w, env_wf e -> Inv e s -> is_user e u = true ->
  earn_withdraw e s u d x st = Ok s' w ->
  0 <= w /\ w <= x /\ w <= value_of e s u d /\
  account_value e s u d = Val (value_of e s u d) /\
  bal (sv s') u d = bal (sv s) u d + w /\
  (forall V, total_value e s d = Some V -> w <= V /\ total_value e s' d = Some (V - w)).
Proof. exact withdraw_capped. Qed.
Print Assumptions C11_earn_withdraw_capped.

Theorem C11_earn_deposit_exact :
  forall e s u d x st s' out, env_wf e -> is_user e u = true ->
  earn_deposit e s u d x st = Ok s' out ->
  0 < x /\ bal (sv s') u d = bal (sv s) u d - x /\
  (forall V, total_value e s d = Some V -> total_value e s' d = Some (V + x)) /\
  shr s u d < shr s' u d.
Proof. exact deposit_exact. Qed.
Print Assumptions C11_earn_deposit_exact.

(* earn_roundtrip_no_profit, strongest true form: when the vault has shares, or
   has no shares and holds no value, a deposit of x raises the depositor's
   redeemable value by at most x, so depositing and then withdrawing anything
   returns at most x plus what the account could already redeem *)
Theorem C11_earn_roundtrip_no_profit_partial :
  forall e s u d x st s1 o1 y st' s2 w, env_wf e -> Inv e s -> is_user e u = true ->
  earn_deposit e s u d x st = Ok s1 o1 ->
  (vrec s d <> None \/ total_value e s d = Some 0) ->
  value_of e s1 u d <= value_of e s u d + x /\
  (earn_withdraw e s1 u d y st' = Ok s2 w -> w <= value_of e s u d + x).
Proof.
  intros e s u d x st s1 o1 y st' s2 w Hwf HI Hu H1 Hg. split.
  - exact (deposit_value_bound e s u d x st s1 o1 Hwf HI Hu H1 Hg).
  - intros H2. exact (roundtrip_partial e s u d x st s1 o1 y st' s2 w Hwf HI Hu H1 Hg H2).
Qed.
Print Assumptions C11_earn_roundtrip_no_profit_partial.

(* A concrete environment: accounts 0..2 users, 3 earn, 4 savings, 5 hard;
   denoms 0..3; vault 2 on the savings strategy, vault 3 on hard. *)
Definition e0 : env :=
  mk_env 6 4 3 5 [0;1;2;3]%nat [true;true;true;false] [0;2;2;1]%nat
         [[true;true;true;true;true;true];[true;true;false;false;false;false];[true;true;true;true;true;true];[true;true;true;true;true;true]]
         [true;false;false;true].
Definition s0 : state :=
  mkE (mkS (fun a _ => if Nat.ltb a 3 then 1000 else 0) (fun _ _ => 0)) (fun _ => 0) (fun _ => None) (fun _ _ => 0).

Lemma e0_wf : env_wf e0.
Proof. unfold env_wf. cbn. repeat split; try lia; discriminate. Qed.

Lemma s0_inv : Inv e0 s0.
Proof.
  unfold Inv, SInv, s0, tot. cbn [sv bal sdep hval vrec shr]. repeat split; intros; try lia; try discriminate.
  - destruct (Nat.ltb a 3); lia.
Qed.

(* earn_roundtrip_no_profit is false in general.  W1: user 0 deposits 100 into
   the fresh vault 2 and withdraws 91; ShareIsDust values the remaining 9 shares
   with the already reduced total value 9 and the not yet reduced total of 100
   shares (9*9/100 = 0), so all shares are deleted, the vault record disappears
   and 9 coins stay in the strategy without an owner.  W2: user 1 then deposits
   1 (shares are issued 1:1 because there is no vault record) and withdraws 10. *)
Theorem C11_earn_roundtrip_no_profit_refuted :
  exists e s ops u d x st y, env_wf e /\ Inv e s /\ is_user e u = true /\
    let sa := run e s ops in
    value_of e sa u d = 0 /\
    exists s1 o1 s2 w, earn_deposit e sa u d x st = Ok s1 o1 /\ earn_withdraw e s1 u d y st = Ok s2 w /\ x < w.
Proof.
  exists e0, s0, [EDeposit 0 2 100 2; EWithdraw 0 2 91 2], 1%nat, 2%nat, 1, 2%nat, 10.
  split; [exact e0_wf|]. split; [exact s0_inv|]. split; [reflexivity|].
  cbv zeta. split; [vm_compute; reflexivity|].
  eexists. eexists. eexists. exists 10.
  split; [vm_compute; reflexivity|]. split; [vm_compute; reflexivity|reflexivity].
Qed.
Print Assumptions C11_earn_roundtrip_no_profit_refuted.

(* a share price above one (150 coins for 100 shares): withdrawing 1 pays 0 and
   burns 2/3 of a share (truncation in favour of the vault); withdrawing 149 pays
   148 and the remaining 2/3 share, valued 2 * (2/3) / 100 = 0, is swept: the
   vault is left with 2 coins and no shares *)
Example C11_truncation_and_sweep_at_price_above_one :
  let s1 := run e0 s0 [EDeposit 0 3 100 1; HardFlow 3 1000; Accrue 3 150] in
  out_of (step e0 s1 (EWithdraw 0 3 1 1)) = 0 /\
  shr (run e0 s1 [EWithdraw 0 3 1 1]) 0%nat 3%nat = 100 * PREC - 666666666666666666 /\
  value_of e0 (run e0 s1 [EWithdraw 0 3 1 1]) 0 3 = 150 /\
  out_of (step e0 s1 (EWithdraw 0 3 149 1)) = 148 /\
  vrec (run e0 s1 [EWithdraw 0 3 149 1]) 3%nat = None /\
  total_value e0 (run e0 s1 [EWithdraw 0 3 149 1]) 3 = Some 2.
Proof. cbv zeta. repeat split; vm_compute; reflexivity. Qed.

(* What a withdrawal takes from the account beyond what it pays.  Strongest true
   form: when the remaining shares are kept (not swept as dust), the account's
   redeemable value falls by at most the payout plus one coin of rounding. *)
Theorem C11_earn_withdraw_forfeits_only_dust_partial :
  forall e s u d x st s' w, env_wf e -> Inv e s -> is_user e u = true ->
  earn_withdraw e s u d x st = Ok s' w -> shr s' u d <> 0 ->
  value_of e s u d - w - 1 <= value_of e s' u d.
Proof. exact withdraw_no_sweep_loss. Qed.
Print Assumptions C11_earn_withdraw_forfeits_only_dust_partial.

(* Refuted without the guard (W1): the dust sweep deletes shares worth 9 coins:
   value 100, paid 91, value afterwards 0, 9 coins left in a vault without shares. *)
Theorem C11_earn_withdraw_forfeits_only_dust_refuted :
  exists e s ops u d x st, env_wf e /\ Inv e s /\ is_user e u = true /\
    let sa := run e s ops in
    exists s' w, earn_withdraw e sa u d x st = Ok s' w /\
      value_of e sa u d = 100 /\ w = 91 /\ value_of e s' u d = 0 /\ shr s' u d = 0 /\
      total_value e s' d = Some 9 /\ vrec s' d = None.
Proof.
  exists e0, s0, [EDeposit 0 2 100 2], 0%nat, 2%nat, 91, 2%nat.
  split; [exact e0_wf|]. split; [exact s0_inv|]. split; [reflexivity|].
  cbv zeta. eexists. eexists.
  split; [vm_compute; reflexivity|]. repeat split; vm_compute; reflexivity.
Qed.
Print Assumptions C11_earn_withdraw_forfeits_only_dust_refuted.

(* ... and a bound on what the sweep can take: when a withdrawal removes all of
   the account's shares, what it forfeits beyond one coin of rounding is below
   the square root of the vault's value (9 for a vault of 100 above) *)
Theorem C11_dust_sweep_forfeit_bound :
  forall e s u d x st s' w V, env_wf e -> Inv e s -> is_user e u = true ->
  earn_withdraw e s u d x st = Ok s' w -> shr s' u d = 0 -> total_value e s d = Some V ->
  let l := value_of e s u d - w - 1 in 0 <= l -> l * l < V.
Proof. exact sweep_forfeit_bound. Qed.
Print Assumptions C11_dust_sweep_forfeit_bound.

(* others_untouched: an operation leaves the shares of every account other than
   the acting one unchanged, and the savings deposit of every other account
   except the earn module account (whose deposit is the strategy position) *)
Theorem C11_others_untouched :
  forall e s o s' out, step e s o = Ok s' out ->
  forall w, actor o <> Some w ->
  (forall d, shr s' w d = shr s w d) /\
  (w <> earn_acc e -> forall d, sdep (sv s') w d = sdep (sv s) w d).
Proof. exact others_untouched. Qed.
Print Assumptions C11_others_untouched.

(* ... and nobody's redeemable value is lowered by an operation of somebody else
   (deposit, withdrawal incl. the dust sweep, accrual, savings operations, bank
   sends): truncation always favours the accounts that stay *)
Theorem C11_others_value_not_reduced :
  forall e s o s' out, env_wf e -> Inv e s -> step e s o = Ok s' out ->
  forall w d, actor o <> Some w -> (w < nacc (se e))%nat -> value_of e s w d <= value_of e s' w d.
Proof. exact others_value_monotone. Qed.
Print Assumptions C11_others_value_not_reduced.

(* A failed operation leaves no change (transaction discarded). *)
Theorem C11_failed_changes_nothing :
  forall e s o, (forall s' u, step e s o <> Ok s' u) -> step' e s o = s.
Proof.
  intros e s o H. unfold step'. destruct (step e s o) as [s' u| |] eqn:E; auto.
  exfalso. exact (H s' u eq_refl).
Qed.
Print Assumptions C11_failed_changes_nothing.

(* Non-vacuity: the hypotheses hold of the concrete start state, and a history
   with accrual, a second depositor and a partial withdrawal runs through *)
Example C11_inv_nonvacuous :
  env_wf e0 /\ Inv e0 s0 /\
  let s := run e0 s0 [EDeposit 0 3 100 1; Accrue 3 150; EDeposit 1 3 30 1; EWithdraw 0 3 75 1; SDeposit 2 [(0%nat, 5)]; SWithdraw 2 [(0%nat, 9)]] in
  inv_b e0 s = true /\ value_of e0 s 0 3 = 75 /\ value_of e0 s 1 3 = 30 /\ total_value e0 s 3 = Some 105 /\
  bal (sv s) 2%nat 0%nat = 1000.
Proof. split; [exact e0_wf|]. split; [exact s0_inv|]. cbv zeta. repeat split; vm_compute; reflexivity. Qed.
