(* C07 — swap AMM: custody, share value never drops, no rounding profit,
   symmetry, slippage.  Property theorems only; proofs are in Proofs/Swap.v. *)
From Kava Require Import Base.Prelude Base.Dec Model.Swap Proofs.Swap.
Local Open Scope Z_scope.

(* An exact-input swap never decreases the product of the reserves, even when the
   fee is left out of the new reserves, and keeps exactly ceil(in * fee) as fee. *)
Theorem C07_swap_in_product :
  forall p a fee p' b fv, wf p ->
  swap_exact_a_for_b p a fee = POk (p', (b, fv)) ->
  1 <= a /\ 0 <= fee < PREC /\
  ra p' = ra p + a /\ rb p' = rb p - b /\ sh p' = sh p /\
  0 <= b < rb p /\ 0 <= fv <= a /\
  (ra p + a - fv) * (rb p - b) >= ra p * rb p /\
  a * fee <= fv * PREC < a * fee + PREC.
Proof. exact swap_exact_a_for_b_spec. Qed.
Print Assumptions C07_swap_in_product.
