(* C07 — swap AMM: reserves are in custody, share value never drops, no rounding
   profit, symmetry, slippage.  Property theorems only; proofs are in Proofs/Swap.v.
   All statements are over unbounded Z; a pool is well-formed ([wf]) when both
   reserves and the total shares are >= 1; the fee mantissa is in [0, 10^18). *)
From Kava Require Import Base.Prelude Base.Dec Model.Swap Model.SwapGov Proofs.Swap Proofs.SwapGov.
Local Open Scope Z_scope.

(** * Swaps: the product of the reserves never decreases, the fee stays in the pool *)

(* Exact-input swap A->B.  Even with the fee [fv] left out of the new reserves the
   product does not decrease; the fee is exactly ceil(a * fee); the output is below
   the reserve; shares are untouched. *)
Theorem C07_swap_in_product :
  forall p a fee p' b fv, wf p ->
  swap_exact_a_for_b p a fee = POk (p', (b, fv)) ->
  1 <= a /\ 0 <= fee < PREC /\
  ra p' = ra p + a /\ rb p' = rb p - b /\ sh p' = sh p /\
  0 <= b < rb p /\ 0 <= fv <= a /\
  (ra p + a - fv) * (rb p - b) >= ra p * rb p /\
  a * fee <= fv * PREC < a * fee + PREC.
Proof. exact swap_exact_a_for_b_spec. Qed.
Print Assumptions C07_swap_in_product.

Theorem C07_swap_in_product_BA :
  forall p b fee p' a fv, wf p ->
  swap_exact_b_for_a p b fee = POk (p', (a, fv)) ->
  1 <= b /\ 0 <= fee < PREC /\
  ra p' = ra p - a /\ rb p' = rb p + b /\ sh p' = sh p /\
  0 <= a < ra p /\ 0 <= fv <= b /\
  (ra p - a) * (rb p + b - fv) >= ra p * rb p /\
  b * fee <= fv * PREC < b * fee + PREC.
Proof. exact swap_exact_b_for_a_spec. Qed.
Print Assumptions C07_swap_in_product_BA.

(* Exact-output swap.  [a - fv] is the input net of fee; the product does not
   decrease with the fee left out, and the fee kept is at least ceil(a * fee)
   (Dec.Quo followed by Ceil never undershoots w / (1 - fee)). *)
Theorem C07_swap_out_product :
  forall p b fee p' a fv, wf p ->
  swap_a_for_exact_b p b fee = POk (p', (a, fv)) ->
  1 <= b < rb p /\ 0 <= fee < PREC /\
  ra p' = ra p + a /\ rb p' = rb p - b /\ sh p' = sh p /\
  1 <= a - fv /\ 0 <= fv /\
  (ra p + a - fv) * (rb p - b) >= ra p * rb p /\
  a * fee <= fv * PREC.
Proof. exact swap_a_for_exact_b_spec. Qed.
Print Assumptions C07_swap_out_product.

Theorem C07_swap_out_product_BA :
  forall p a fee p' b fv, wf p ->
  swap_b_for_exact_a p a fee = POk (p', (b, fv)) ->
  1 <= a < ra p /\ 0 <= fee < PREC /\
  ra p' = ra p - a /\ rb p' = rb p + b /\ sh p' = sh p /\
  1 <= b - fv /\ 0 <= fv /\
  (ra p - a) * (rb p + b - fv) >= ra p * rb p /\
  b * fee <= fv * PREC.
Proof. exact swap_b_for_exact_a_spec. Qed.
Print Assumptions C07_swap_out_product_BA.

(* The rounding lemma behind the exact-output fee. *)
Theorem C07_quo_ceil_never_undershoots :
  forall w D, 1 <= w -> 0 < D <= PREC ->
  dec_trunc_int (dec_ceil (dec_quo (dec_of_int w) D)) * D >= w * PREC.
Proof. exact quo_ceil_ge. Qed.
Print Assumptions C07_quo_ceil_never_undershoots.

(* The internal product assertion (assertInvariantAndUpdateReserves) and the
   negative-reserve assertion can never fire on a well-formed pool: the only
   panics are invalid arguments and 256/315-bit overflow. *)
Theorem C07_internal_assertions_unreachable :
  forall p x fee da db s, wf p ->
  swap_exact_a_for_b p x fee <> PPanic InvariantBroken /\
  swap_exact_b_for_a p x fee <> PPanic InvariantBroken /\
  swap_a_for_exact_b p x fee <> PPanic InvariantBroken /\
  swap_b_for_exact_a p x fee <> PPanic InvariantBroken /\
  add_liquidity p da db <> PPanic InvariantBroken /\
  remove_liquidity p s <> PPanic InvariantBroken.
Proof.
  intros p x fee da db s W.
  repeat split;
    [ apply swap_exact_a_for_b_not_broken | apply swap_exact_b_for_a_not_broken
    | apply swap_a_for_exact_b_not_broken | apply swap_b_for_exact_a_not_broken
    | apply add_liquidity_not_broken | apply remove_liquidity_not_broken ]; exact W.
Qed.
Print Assumptions C07_internal_assertions_unreachable.

(** * Liquidity: reserves per share never decrease *)

(* big.Int.Sqrt is modelled as the floor square root *)
Theorem C07_initial_shares_floor_sqrt :
  forall a b, 0 <= a * b ->
  let s := initial_shares a b in 0 <= s /\ s * s <= a * b < (s + 1) * (s + 1).
Proof. exact initial_shares_spec. Qed.
Print Assumptions C07_initial_shares_floor_sqrt.

Theorem C07_add_liquidity_exact :
  forall p da db p' a b s, wf p ->
  add_liquidity p da db = POk (p', (a, b, s)) ->
  1 <= da /\ 1 <= db /\ 0 <= a <= da /\ 0 <= b <= db /\ 0 <= s /\
  ra p' = ra p + a /\ rb p' = rb p + b /\ sh p' = sh p + s /\
  s * ra p <= a * sh p /\ s * rb p <= b * sh p /\
  (a = da \/ b = db).
Proof. exact add_liquidity_spec. Qed.
Print Assumptions C07_add_liquidity_exact.

Theorem C07_add_share_value :
  forall p da db p' a b s, wf p ->
  add_liquidity p da db = POk (p', (a, b, s)) ->
  ra p' * sh p >= ra p * sh p' /\ rb p' * sh p >= rb p * sh p'.
Proof. exact add_share_value. Qed.
Print Assumptions C07_add_share_value.

Theorem C07_remove_share_value :
  forall p s p' wa wb, wf p ->
  remove_liquidity p s = POk (p', (wa, wb)) ->
  ra p' * sh p >= ra p * sh p' /\ rb p' * sh p >= rb p * sh p'.
Proof. exact remove_share_value. Qed.
Print Assumptions C07_remove_share_value.

Theorem C07_remove_liquidity_exact :
  forall p s p' wa wb, wf p ->
  remove_liquidity p s = POk (p', (wa, wb)) ->
  1 <= s <= sh p /\ 0 <= wa <= ra p /\ 0 <= wb <= rb p /\
  ra p' = ra p - wa /\ rb p' = rb p - wb /\ sh p' = sh p - s /\
  wa * sh p <= ra p * s /\ wb * sh p <= rb p * s /\
  (s < sh p -> 1 <= ra p' /\ 1 <= rb p') /\
  (s = sh p -> ra p' = 0 /\ rb p' = 0).
Proof. exact remove_liquidity_spec. Qed.
Print Assumptions C07_remove_liquidity_exact.

(* Depositing and immediately withdrawing the minted shares never returns more of
   either token than was put in (also for the pool re-initialised from empty). *)
Theorem C07_deposit_withdraw_no_profit :
  forall p da db p' a b s p'' wa wb,
  wf p \/ is_empty p = true ->
  add_liquidity p da db = POk (p', (a, b, s)) ->
  remove_liquidity p' s = POk (p'', (wa, wb)) ->
  wa <= a /\ wb <= b.
Proof. exact deposit_withdraw_no_profit. Qed.
Print Assumptions C07_deposit_withdraw_no_profit.

(* The same at keeper level, on bank balances: Deposit followed by Withdraw of the
   minted shares (any minimums) leaves the caller with at most what he had, per denom. *)
Theorem C07_keeper_deposit_withdraw_no_profit :
  forall e s who d1 a1 d2 a2 sl s1 actx acty shs m1 m2 s2 outs2,
  Inv e s -> (who < nusers e)%nat -> (d1 < nden e)%nat -> (d2 < nden e)%nat ->
  deposit e s who d1 a1 d2 a2 sl = Ok s1 [actx; acty; shs] ->
  withdraw e s1 who shs d1 m1 d2 m2 = Ok s2 outs2 ->
  forall d, k_bal s2 who d <= k_bal s who d.
Proof. exact keeper_round_trip. Qed.
Print Assumptions C07_keeper_deposit_withdraw_no_profit.

(** * No sequence of swaps gives a trader more of one token without less of the other *)

(* [sruns p l] applies any list of the four swap kinds (any amounts, any fees; failed
   swaps change nothing) to an otherwise untouched pool.  What leaves the pool is
   what the trader receives. *)
Theorem C07_swaps_product_monotone :
  forall l p, wf p ->
  let p' := sruns p l in
  wf p' /\ sh p' = sh p /\ ra p' * rb p' >= ra p * rb p.
Proof. exact sruns_mono. Qed.
Print Assumptions C07_swaps_product_monotone.

Theorem C07_swaps_no_free_lunch :
  forall p l, wf p ->
  let p' := sruns p l in
  (ra p' < ra p -> rb p' > rb p) /\
  (rb p' < rb p -> ra p' > ra p) /\
  (ra p' = ra p -> rb p' >= rb p) /\
  (rb p' = rb p -> ra p' >= ra p).
Proof. exact swaps_no_free_lunch. Qed.
Print Assumptions C07_swaps_no_free_lunch.

(** * Results do not depend on the order in which the two tokens are named *)

Theorem C07_symmetry_base_pool :
  forall p x f da db s,
  swap_exact_a_for_b (flip p) x f = flip2 (swap_exact_b_for_a p x f) /\
  swap_exact_b_for_a (flip p) x f = flip2 (swap_exact_a_for_b p x f) /\
  swap_a_for_exact_b (flip p) x f = flip2 (swap_b_for_exact_a p x f) /\
  swap_b_for_exact_a (flip p) x f = flip2 (swap_a_for_exact_b p x f) /\
  add_liquidity (flip p) db da = flip_add (add_liquidity p da db) /\
  remove_liquidity (flip p) s = flip_rm (remove_liquidity p s).
Proof.
  intros. repeat split;
    [ apply swap_exact_in_flip | apply swap_exact_in_flip' | apply swap_exact_out_flip
    | apply swap_exact_out_flip' | apply add_liquidity_flip | apply remove_liquidity_flip ].
Qed.
Print Assumptions C07_symmetry_base_pool.

(* DenominatedPool: had the two denoms sorted the other way, every swap would give
   the same amounts for the same denoms. *)
Theorem C07_symmetry_denominated_pool :
  forall d denom amt fee, dp_a d <> dp_b d ->
  dp_swap_exact_in (dp_flip d) denom amt fee = dp_map (dp_swap_exact_in d denom amt fee) /\
  dp_swap_exact_out (dp_flip d) denom amt fee = dp_map (dp_swap_exact_out d denom amt fee).
Proof. intros; split; [apply dp_swap_exact_in_flip|apply dp_swap_exact_out_flip]; assumption. Qed.
Print Assumptions C07_symmetry_denominated_pool.

(* Keeper: the order of the two coins of Deposit and Withdraw is irrelevant. *)
Theorem C07_symmetry_keeper :
  forall e s who d1 a1 d2 a2 sl shares,
  deposit e s who d1 a1 d2 a2 sl = deposit e s who d2 a2 d1 a1 sl /\
  withdraw e s who shares d1 a1 d2 a2 = withdraw e s who shares d2 a2 d1 a1.
Proof. intros; split; [apply deposit_arg_order|apply withdraw_arg_order]. Qed.
Print Assumptions C07_symmetry_keeper.

(** * The caller's slippage limit is enforced (as the code computes it) *)

Theorem C07_slippage_enforced_deposit :
  forall e s who d1 a1 d2 a2 sl s' outs,
  Inv e s -> (who < nusers e)%nat -> (d1 < nden e)%nat -> (d2 < nden e)%nat ->
  deposit e s who d1 a1 d2 a2 sl = Ok s' outs ->
  let x := lo d1 d2 in let y := hi d1 d2 in
  let ax := sel d1 d2 a1 a2 in let ay := sel d1 d2 a2 a1 in
  exists p' actx acty shs,
    outs = [actx; acty; shs] /\ d1 <> d2 /\ 1 <= ax /\ 1 <= ay /\
    1 <= actx <= ax /\ 1 <= acty <= ay /\ 1 <= shs /\ wf p' /\
    match k_pool s x y with
    | Some p => add_liquidity p ax ay = POk (p', (actx, acty, shs))
    | None => allowed_b (allowed e) x y = true /\ p' = mkPool ax ay (initial_shares ax ay) /\
              actx = ax /\ acty = ay /\ shs = initial_shares ax ay
    end /\
    dec_sub (Z.max (dec_quo (dec_of_int ax) (dec_of_int actx)) (dec_quo (dec_of_int ay) (dec_of_int acty))) dec_one <= sl /\
    actx <= k_bal s who x /\ acty <= k_bal s who y /\
    applies e s s' who x y (Some p') actx acty shs.
Proof. exact deposit_inv. Qed.
Print Assumptions C07_slippage_enforced_deposit.

Theorem C07_slippage_enforced_withdraw :
  forall e s who shares d1 m1 d2 m2 s' outs,
  Inv e s -> (who < nusers e)%nat -> (d1 < nden e)%nat -> (d2 < nden e)%nat ->
  withdraw e s who shares d1 m1 d2 m2 = Ok s' outs ->
  let x := lo d1 d2 in let y := hi d1 d2 in
  let mx := sel d1 d2 m1 m2 in let my := sel d1 d2 m2 m1 in
  exists p p' wx wy,
    outs = [wx; wy] /\ d1 <> d2 /\ k_pool s x y = Some p /\ wf p /\
    remove_liquidity p shares = POk (p', (wx, wy)) /\
    1 <= shares <= k_sh s who x y /\ 1 <= wx /\ 1 <= wy /\ mx <= wx /\ my <= wy /\
    applies e s s' who x y (if sh p' =? 0 then None else Some p') (- wx) (- wy) (- shares).
Proof. exact withdraw_inv. Qed.
Print Assumptions C07_slippage_enforced_withdraw.

Theorem C07_slippage_enforced_swap_exact_in :
  forall e s who din ain dout bdes sl s' outs,
  Inv e s -> (who < nusers e)%nat -> (din < nden e)%nat -> (dout < nden e)%nat ->
  swap_exact_for_tokens e s who din ain dout bdes sl = Ok s' outs ->
  let x := lo din dout in let y := hi din dout in
  exists p p' out fv,
    outs = [ain; out; fv] /\ din <> dout /\ k_pool s x y = Some p /\ wf p /\ wf p' /\
    (if Nat.eqb din x then swap_exact_a_for_b p ain (swap_fee e) else swap_exact_b_for_a p ain (swap_fee e))
      = POk (p', (out, fv)) /\
    1 <= out /\
    dec_sub dec_one (dec_quo (dec_of_int out) (dec_of_int bdes)) <= sl /\
    applies e s s' who x y (Some p') (if Nat.eqb din x then ain else - out) (if Nat.eqb din x then - out else ain) 0.
Proof. exact swap_in_inv. Qed.
Print Assumptions C07_slippage_enforced_swap_exact_in.

Theorem C07_slippage_enforced_swap_exact_out :
  forall e s who din amax dout bex sl s' outs,
  Inv e s -> (who < nusers e)%nat -> (din < nden e)%nat -> (dout < nden e)%nat ->
  swap_for_exact_tokens e s who din amax dout bex sl = Ok s' outs ->
  let x := lo din dout in let y := hi din dout in
  exists p p' inn fv,
    outs = [inn; bex; fv] /\ din <> dout /\ k_pool s x y = Some p /\ wf p /\ wf p' /\
    (if Nat.eqb din x then swap_a_for_exact_b p bex (swap_fee e) else swap_b_for_exact_a p bex (swap_fee e))
      = POk (p', (inn, fv)) /\
    1 <= inn - fv /\
    dec_sub dec_one (dec_quo (dec_of_int amax) (dec_of_int (inn - fv))) <= sl /\
    applies e s s' who x y (Some p') (if Nat.eqb din x then inn else - bex) (if Nat.eqb din x then - bex else inn) 0.
Proof. exact swap_out_inv. Qed.
Print Assumptions C07_slippage_enforced_swap_exact_out.

(* What the code's comparisons mean for the amounts (half an ulp of the 18-digit
   quotient is the only slack): a successful swap delivers got/wanted >= 1 - limit,
   a successful deposit takes desired/deposited <= 1 + limit for both tokens. *)
Theorem C07_slippage_meaning_swap :
  forall got wanted sl, 0 <= got -> 0 < wanted ->
  dec_sub dec_one (dec_quo (dec_of_int got) (dec_of_int wanted)) <= sl ->
  2 * got * PREC >= (2 * (PREC - sl) - 1) * wanted.
Proof. exact slippage_meaning. Qed.
Print Assumptions C07_slippage_meaning_swap.

Theorem C07_slippage_meaning_deposit :
  forall ax actx ay acty sl, 0 <= ax -> 0 < actx -> 0 <= ay -> 0 < acty ->
  dec_sub (Z.max (dec_quo (dec_of_int ax) (dec_of_int actx)) (dec_quo (dec_of_int ay) (dec_of_int acty))) dec_one <= sl ->
  2 * ax * PREC * PREC < (2 * (PREC + sl) * PREC + PREC + 2) * actx /\
  2 * ay * PREC * PREC < (2 * (PREC + sl) * PREC + PREC + 2) * acty.
Proof.
  intros ax actx ay acty sl H1 H2 H3 H4 H.
  destruct (max_slippage_each _ _ _ H) as (Hx & Hy).
  split; apply deposit_slippage_meaning; assumption.
Qed.
Print Assumptions C07_slippage_meaning_deposit.

(** * Custody: module balance = sum of reserves, pool shares = sum of depositor shares *)

(* [Inv]: for every denom the module account holds exactly the sum of all pools'
   reserves in it; every pool's total shares equal the sum of its depositors'
   shares; every stored pool has reserves and shares >= 1 and sorted denoms; share
   records are non-negative.  It holds after every history of operations. *)
Theorem C07_invariant_all_histories :
  forall e ops s, Inv e s -> Inv e (run e s ops).
Proof. intros e ops s. exact (run_inv e ops s). Qed.
Print Assumptions C07_invariant_all_histories.

Theorem C07_invariant_at_genesis :
  forall e bal, (forall d, (d < nden e)%nat -> bal (macc e) d = 0) ->
  Inv e (mkK bal (fun _ _ => None) (fun _ _ _ => 0)).
Proof. exact inv_init. Qed.
Print Assumptions C07_invariant_at_genesis.

(* Coins move only between the caller and the module account and are conserved. *)
Theorem C07_coins_moved_exactly :
  forall e s o s' outs, Inv e s -> step e s o = Ok s' outs ->
  (forall a d, a <> op_who o -> a <> macc e -> k_bal s' a d = k_bal s a d) /\
  (forall d, k_bal s' (op_who o) d + k_bal s' (macc e) d = k_bal s (op_who o) d + k_bal s (macc e) d).
Proof. exact step_coins. Qed.
Print Assumptions C07_coins_moved_exactly.

(* A plain bank transfer addressed to the swap module account is refused (the module
   account is a blocked address), so custody cannot be diluted from outside the keeper. *)
Theorem C07_direct_send_to_module_refused :
  forall e s who d amt, step e s (BankSend who d amt) = Err /\ step' e s (BankSend who d amt) = s.
Proof.
  intros. unfold step', step. destruct (negb (op_in_range e (BankSend who d amt))); split; reflexivity.
Qed.
Print Assumptions C07_direct_send_to_module_refused.

(* A failed operation leaves no change (transaction discarded). *)
Theorem C07_failed_changes_nothing :
  forall e s o, (forall s' u, step e s o <> Ok s' u) -> step' e s o = s.
Proof.
  intros e s o H. unfold step'. destruct (step e s o) as [s' u| |] eqn:E; auto.
  exfalso. exact (H s' u eq_refl).
Qed.
Print Assumptions C07_failed_changes_nothing.

(** * The message level: deadline gate (msg_server.go checkDeadline) and ValidateBasic *)

(* Reading guide.  [mkMsg o d] is the swap message carrying keeper operation [o]
   with deadline [d] (Unix seconds); [msg_step e t s m] is the msg server's
   handler at block time [t] (Unix seconds): the deadline gate, then the keeper
   call; [tx_step] puts ValidateBasic in front, as baseapp does. *)

(* A swap message whose deadline is not after the block time fails -- the code
   compares blockTime.Unix() >= Deadline, so a deadline EQUAL to the block time
   has already passed -- and a failed message changes nothing. *)
Theorem C07_deadline_exceeded_fails :
  forall e t s m, is_swap_msg (m_op m) = true -> m_deadline m <= t ->
  msg_step e t s m = Err /\ tx_step' e s (t, m) = s.
Proof.
  intros e t s m W D. split; [apply msg_step_deadline_exceeded; assumption|].
  apply tx_step'_rejected. right. split; assumption.
Qed.
Print Assumptions C07_deadline_exceeded_fails.

(* Otherwise the message behaves exactly as the keeper step. *)
Theorem C07_before_deadline_is_keeper_step :
  forall e t s m, t < m_deadline m -> msg_step e t s m = step e s (m_op m).
Proof. exact msg_step_before_deadline. Qed.
Print Assumptions C07_before_deadline_is_keeper_step.

(* The two cases are exhaustive: the gate decides by the block time alone. *)
Theorem C07_deadline_gate_cases :
  forall e t s m,
  (is_swap_msg (m_op m) = true /\ m_deadline m <= t /\ msg_step e t s m = Err) \/
  ((is_swap_msg (m_op m) = false \/ t < m_deadline m) /\ msg_step e t s m = step e s (m_op m)).
Proof. exact msg_step_cases. Qed.
Print Assumptions C07_deadline_gate_cases.

(* A transaction that succeeds passed ValidateBasic, was before its deadline,
   and did what the keeper call does: every theorem above about a successful
   [step] is a theorem about successful messages. *)
Theorem C07_tx_success_is_keeper_success :
  forall e t s m s' outs, tx_step e t s m = Ok s' outs ->
  validate_basic m = true /\ (is_swap_msg (m_op m) = true -> t < m_deadline m) /\ step e s (m_op m) = Ok s' outs.
Proof. exact tx_step_ok. Qed.
Print Assumptions C07_tx_success_is_keeper_success.

(* A message refused by ValidateBasic changes nothing. *)
Theorem C07_tx_invalid_changes_nothing :
  forall e t s m, validate_basic m = false -> tx_step e t s m = Err /\ tx_step' e s (t, m) = s.
Proof.
  intros e t s m V. split; [unfold tx_step; rewrite V; reflexivity|apply tx_step'_rejected; left; exact V].
Qed.
Print Assumptions C07_tx_invalid_changes_nothing.

(* The keeper invariant holds after every history of transactions at any block times. *)
Theorem C07_invariant_all_tx_histories :
  forall e l s, Inv e s -> Inv e (tx_run e s l).
Proof. intros e l s. exact (tx_run_inv e l s). Qed.
Print Assumptions C07_invariant_all_tx_histories.

(** * Non-vacuity *)

(* a concrete history: two pools sharing a denom, three accounts; every operation
   succeeds, the boolean invariant holds before and after *)
Example C07_nonvacuous :
  let e := mkEnv 3 3 [(0%nat, 2%nat); (1%nat, 2%nat)] 3000000000000000 in
  let s := mk_state [[1000000; 1000000; 1000000]; [1000000; 1000000; 1000000]; [500; 500; 500]; [0; 0; 0]] in
  let ops := [Deposit 0 2 400000 0 100000 0;
              Deposit 1 1 70000 2 50000 1000000000000000000;
              Deposit 2 0 100 2 401 10000000000000000;
              SwapIn 1 0 1000 2 3900 10000000000000000;
              SwapOut 2 2 50 0 10 500000000000000000;
              Withdraw 2 100 2 1 0 1] in
  inv_b e s = true /\ inv_b e (run e s ops) = true /\
  forallb (fun o => match step e (run e s (firstn (fst o) ops)) (snd o) with Ok _ _ => true | _ => false end)
          (combine (seq 0 6) ops) = true.
Proof. cbv zeta. repeat split; vm_compute; reflexivity. Qed.

(* a well-formed pool on which all four swaps and both liquidity operations succeed *)
Example C07_pool_nonvacuous :
  let p := mkPool 1000 4000 2000 in
  wf p /\
  (exists r, swap_exact_a_for_b p 100 3000000000000000 = POk r) /\
  (exists r, swap_b_for_exact_a p 100 3000000000000000 = POk r) /\
  (exists r, add_liquidity p 10 35 = POk r) /\
  (exists r, remove_liquidity p 7 = POk r).
Proof. cbv zeta. split; [unfold wf; cbn; lia|]. repeat split; eexists; vm_compute; reflexivity. Qed.

(* the deadline gate at block time 1000: deadlines 999 and 1000 fail and change
   nothing, 1001 goes through and is the keeper step *)
Example C07_deadline_nonvacuous :
  let e := mkEnv 3 3 [(0%nat, 2%nat); (1%nat, 2%nat)] 3000000000000000 in
  let s := mk_state [[1000000; 1000000; 1000000]; [1000000; 1000000; 1000000]; [500; 500; 500]; [0; 0; 0]] in
  let o := Deposit 0 2 400000 0 100000 0 in
  class_of (tx_step e 1000 s (mkMsg o 999)) = RErr /\
  class_of (tx_step e 1000 s (mkMsg o 1000)) = RErr /\
  class_of (tx_step e 1000 s (mkMsg o 1001)) = ROk /\
  proj_eqb (project e (tx_step' e s (1000, mkMsg o 1001))) (project e (step' e s o)) = true /\
  proj_eqb (project e (tx_step' e s (1000, mkMsg o 1000))) (project e s) = true /\
  class_of (tx_step e 1000 s (mkMsg (Deposit 0 2 0 0 100000 0) 1001)) = RErr /\
  class_of (step e s (Deposit 0 2 0 0 100000 0)) = RPanic.
Proof. cbv zeta. repeat split; vm_compute; reflexivity. Qed.

(** * The swap fee is a parameter that governance changes in the middle of a history

    Reading guide (Model/SwapGov.v).  [vstate] = the current fee (params subspace "swap", key SwapFee)
    next to the keeper state; [VSetFee f] is a parameter-change proposal for that key (x/params
    proposal handler -> Subspace.Update -> validateSwapFee), [VKeeper o] / [VTx t m] run the step of
    Model/Swap.v under the environment whose fee is the CURRENT one ([cur_env]).  A history is a
    sequence of segments of constant fee. *)

(* Between two fee changes a history is a history of Model/Swap.v under the current fee: every
   theorem above about [run] / [tx_run] speaks about each segment, and histories compose. *)
Theorem C07_fee_segments :
  forall e s,
  (forall ops, vrun e s (map VKeeper ops) = mkV (v_fee s) (run (cur_env e s) (v_k s) ops)) /\
  (forall l, vrun e s (map (fun tm => VTx (fst tm) (snd tm)) l) = mkV (v_fee s) (tx_run (cur_env e s) (v_k s) l)) /\
  (forall a b, vrun e s (a ++ b) = vrun e (vrun e s a) b).
Proof.
  intros e s. split; [|split].
  - intros ops. apply vrun_keeper_segment.
  - intros l. apply vrun_tx_segment.
  - intros a b. apply vrun_app.
Qed.
Print Assumptions C07_fee_segments.

(* A fee change is accepted exactly for mantissas in [0, 10^18), touches nothing but the fee, and
   the very next operation runs under the new fee; a refused one changes nothing. *)
Theorem C07_fee_change :
  forall e s f,
  (fee_ok f = true -> vstep e s (VSetFee f) = Ok (mkV f (v_k s)) [] /\
                      forall g, vstep e (vstep' e s (VSetFee f)) g = vstep (with_fee e f) (mkV f (v_k s)) g) /\
  (fee_ok f = false -> vstep e s (VSetFee f) = Err /\ vstep' e s (VSetFee f) = s).
Proof.
  intros e s f. split.
  - intros H. split; [now apply setfee_valid|]. intros g. now apply step_after_setfee.
  - apply setfee_invalid.
Qed.
Print Assumptions C07_fee_change.

(* A swap keeps the fee at the rate configured WHEN IT EXECUTES (whatever the fee was at genesis or
   at the first swap): exact-input keeps exactly ceil(input * current fee), exact-output at least
   that, and the product of the reserves does not decrease even with the fee left out. *)
Theorem C07_swap_in_keeps_current_fee :
  forall e s who din ain dout bdes sl s' outs,
  Inv e (v_k s) ->
  vstep e s (VKeeper (SwapIn who din ain dout bdes sl)) = Ok s' outs ->
  let x := lo din dout in let y := hi din dout in
  exists p p' out fv,
    outs = [ain; out; fv] /\ v_fee s' = v_fee s /\ k_pool (v_k s) x y = Some p /\ wf p /\ wf p' /\
    (if Nat.eqb din x then swap_exact_a_for_b p ain (v_fee s) else swap_exact_b_for_a p ain (v_fee s))
      = POk (p', (out, fv)) /\
    ain * v_fee s <= fv * PREC < ain * v_fee s + PREC /\
    (if Nat.eqb din x then (ra p + ain - fv) * (rb p - out) else (ra p - out) * (rb p + ain - fv)) >= ra p * rb p.
Proof. exact v_swap_in_keeps_current_fee. Qed.
Print Assumptions C07_swap_in_keeps_current_fee.

Theorem C07_swap_out_keeps_current_fee :
  forall e s who din amax dout bex sl s' outs,
  Inv e (v_k s) ->
  vstep e s (VKeeper (SwapOut who din amax dout bex sl)) = Ok s' outs ->
  let x := lo din dout in let y := hi din dout in
  exists p p' inn fv,
    outs = [inn; bex; fv] /\ v_fee s' = v_fee s /\ k_pool (v_k s) x y = Some p /\ wf p /\ wf p' /\
    (if Nat.eqb din x then swap_a_for_exact_b p bex (v_fee s) else swap_b_for_exact_a p bex (v_fee s))
      = POk (p', (inn, fv)) /\
    inn * v_fee s <= fv * PREC /\
    (if Nat.eqb din x then (ra p + inn - fv) * (rb p - bex) else (ra p - bex) * (rb p + inn - fv)) >= ra p * rb p.
Proof. exact v_swap_out_keeps_current_fee. Qed.
Print Assumptions C07_swap_out_keeps_current_fee.

(* The keeper invariant holds and the fee stays in [0, 10^18) after every history of keeper calls,
   transactions and fee changes; a refused operation changes nothing. *)
Theorem C07_invariant_all_histories_with_fee_changes :
  forall e gs s, Inv e (v_k s) -> fee_ok (v_fee s) = true ->
  Inv e (v_k (vrun e s gs)) /\ fee_ok (v_fee (vrun e s gs)) = true.
Proof. intros e gs s I F. split; [now apply vrun_inv|now apply vrun_fee_ok]. Qed.
Print Assumptions C07_invariant_all_histories_with_fee_changes.

Theorem C07_failed_changes_nothing_with_fee :
  forall e s g, (forall s' u, vstep e s g <> Ok s' u) -> vstep' e s g = s.
Proof. exact vstep_failed_changes_nothing. Qed.
Print Assumptions C07_failed_changes_nothing_with_fee.

(* Why the fee must be read when the swap executes: a keeper that memoised it at its first swap
   ([mstep_memo], not the model of /repo) shows the new fee in its parameters but pays the trader
   more than the model of the code after governance raised the fee from 0.3 % to 5 %. *)
Theorem C07_memoised_fee_underprices :
  v_fee (vrun sg_env sg_init sg_hist) = 50000000000000000 /\
  v_fee (m_v (mrun_memo sg_env (mkM None sg_init) sg_hist)) = 50000000000000000 /\
  sg_received (v_k (vrun sg_env sg_init sg_hist)) < sg_received (v_k (m_v (mrun_memo sg_env (mkM None sg_init) sg_hist))).
Proof. exact memoised_fee_underprices. Qed.
Print Assumptions C07_memoised_fee_underprices.

(* non-vacuity: the history above succeeds step by step under the model of the code, the second swap
   keeping 5 % of its input *)
Example C07_fee_change_nonvacuous :
  Inv sg_env (v_k sg_init) /\
  match vstep sg_env (vrun sg_env sg_init (firstn 3 sg_hist)) (VKeeper (SwapIn 0%nat 0%nat 100000000 2%nat 1 PREC)) with
  | Ok _ [a; _; fv] => a = 100000000 /\ fv = 5000000
  | _ => False
  end.
Proof.
  split; [apply inv_init; intros d Hd; destruct d as [|[|[|d]]]; try reflexivity; cbn in Hd; lia|].
  vm_compute. split; reflexivity.
Qed.
