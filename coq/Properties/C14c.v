(* C14 (genesis components), tie theorems: the correspondence checkers of the hard and incentive
   genesis components evaluate RE-TABULATED model states (for vm_compute speed); they are proved
   equal to the same checkers built from the plain steps only — so "no mismatch" reported by a
   run is a statement about the functions the theorems of Properties/C14b.v speak of.
   (The corresponding theorems for the C08 and C09 checkers are in Properties/C08.v, C09.v.) *)
From Kava Require Proofs.RetabGenesisIncentive Proofs.RetabGenesisHard.

Theorem C14_incentive_genesis_checker_is_plain_run :
  forall hs, Model.GenesisIncentive.gmismatches hs = RetabGenesisIncentive.gmismatches_plain hs.
Proof. exact RetabGenesisIncentive.gmismatches_retab_eq_plain. Qed.
Print Assumptions C14_incentive_genesis_checker_is_plain_run.

Theorem C14_hard_genesis_checker_is_plain_run :
  forall hs, Model.GenesisHard.gmismatches hs = RetabGenesisHard.gmismatches_plain hs.
Proof. exact RetabGenesisHard.gmismatches_retab_eq_plain. Qed.
Print Assumptions C14_hard_genesis_checker_is_plain_run.
