(* C19 — emissions follow their schedule however time is cut into blocks.
   Property theorems only; proofs are in Proofs/Emissions.v. *)
From Kava Require Import Base.Prelude Base.Dec Model.Emissions.
Local Open Scope Z_scope.

(* placeholder non-vacuity example while the proofs are being written *)
Example C19_model_runs :
  calc_staking_rewards 3 0 0 333333333333333333500000000 (dec_of_int 5) = (1, 500000000 / NS - 0).
Proof. vm_compute. reflexivity. Qed.
