(* C19 — emissions follow their schedule however time is cut into blocks.
   Property theorems only; proofs are in Proofs/Emissions.v.

   Reading guide.  A history is a list of operations (blocks at given block
   times, community-pool deposits/spends, reward-rate updates, ...); [run_outs]
   runs it on the model, skipping operations that fail, and returns the final
   state with the per-operation outputs.  Sums over the outputs:
   [paid_sum] coins paid to the fee collector; [sched_sum] = sum over the paying
   blocks of (nanoseconds since the last accumulation) * (rate in force), i.e.
   rate * elapsed time scaled by 10^18 * 10^9; [rem_sum] what QuoInt64 dropped;
   [loss_sum] what the cap to the pool balance dropped.  [mono now ops]: block
   times are positive and never decrease.  [InvT now s]: the store invariant
   (error in [0,1), rates and balances non-negative) and stored times <= now. *)
From Kava Require Import Base.Prelude Base.Dec Model.Emissions Proofs.Emissions.
Local Open Scope Z_scope.

(** ** Staking rewards *)

(* The invariant holds after every history, and the accounting is exact:
   10^9 * (10^18 * paid + carried error) + QuoInt64 dust + pool-cap loss
     = 10^9 * carried-in error + sum(rate_i * gap_i),
   and the pool balance moves by exactly deposits - payouts. *)
Theorem C19_staking_accounting_all_histories :
  forall ops now s sf outs,
  InvT now s -> mono now ops -> run_outs s ops = (sf, outs) ->
  Inv sf /\ Forall pay_good (pays outs) /\
  NS * (PREC * paid_sum outs + sr_err sf) + rem_sum outs + loss_sum outs = NS * sr_err s + sched_sum outs /\
  pool sf = pool s + adj_sum outs - paid_sum outs.
Proof. exact run_facts. Qed.
Print Assumptions C19_staking_accounting_all_histories.

(* However the interval is cut into blocks, the total paid (plus the error still
   carried) never exceeds rate * elapsed (plus the error carried in). *)
Theorem C19_staking_rewards_upper :
  forall ops now s sf outs,
  InvT now s -> mono now ops -> run_outs s ops = (sf, outs) ->
  NS * PREC * paid_sum outs + NS * sr_err sf <= NS * sr_err s + sched_sum outs.
Proof. exact staking_upper. Qed.
Print Assumptions C19_staking_rewards_upper.

Theorem C19_staking_rewards_upper_no_carry_in :
  forall ops now s sf outs,
  InvT now s -> mono now ops -> run_outs s ops = (sf, outs) -> sr_err s = 0 ->
  NS * PREC * paid_sum outs <= sched_sum outs.
Proof. exact staking_upper0. Qed.
Print Assumptions C19_staking_rewards_upper_no_carry_in.

(* Never above the pool balance: in every block, and in total. *)
Theorem C19_staking_rewards_within_pool :
  forall ops now s sf outs,
  InvT now s -> mono now ops -> run_outs s ops = (sf, outs) ->
  Forall (fun r => 0 <= p_paid r <= p_pool r) (pays outs) /\
  0 <= pool sf /\ pool sf = pool s + adj_sum outs - paid_sum outs.
Proof. exact staking_pool. Qed.
Print Assumptions C19_staking_rewards_within_pool.

(* With the trigger cleared and no rate update, the scheduled amount is
   rate * (time of the last accumulation at the end - at the start). *)
Theorem C19_schedule_is_rate_times_elapsed :
  forall ops now s sf outs,
  InvT now s -> mono now ops -> Forall no_rate_change ops -> c_upg s = 0 -> sr_last s <> 0 ->
  run_outs s ops = (sf, outs) ->
  sched_sum outs = (sr_last sf - sr_last s) * c_rate s /\ sr_last s <= sr_last sf.
Proof. exact sched_const. Qed.
Print Assumptions C19_schedule_is_rate_times_elapsed.

(* Lower bound when the pool never binds: the shortfall is exactly the error
   still carried plus the QuoInt64 dust, hence < 1 unit + n * 10^-18 for n
   paying blocks (scaled: <= 10^9 * (10^18 - 1) + n * (10^9 - 1)). *)
Theorem C19_staking_rewards_lower :
  forall ops now s sf outs,
  InvT now s -> mono now ops -> run_outs s ops = (sf, outs) -> never_capped outs ->
  NS * sr_err s + sched_sum outs - NS * PREC * paid_sum outs = NS * sr_err sf + rem_sum outs /\
  NS * sr_err s + sched_sum outs - NS * PREC * paid_sum outs <= NS * (PREC - 1) + (NS - 1) * npays outs.
Proof. exact staking_lower. Qed.
Print Assumptions C19_staking_rewards_lower.

(* "Falls short by less than one unit" is false as stated: the QuoInt64
   truncation is outside the carried error.  Witness: rate
   333333333.3333333335 per second, three blocks one nanosecond apart, ample
   pool, no error carried in: rate * elapsed = 1.0000000000000000005 units,
   paid 0. *)
Definition w_state : state :=
  mk_state [1000000000000000000; 0; 333333333333333333500000000; 0; 0; 1000; 0; 0; 5000; 0; 0; 0; 0; 0] [] [] [] [].
Definition w_ops : list op :=
  [Block 1000000000000000001 0 0; Block 1000000000000000002 0 0; Block 1000000000000000003 0 0].

Theorem C19_staking_rewards_lower_strict_refuted :
  exists now s ops sf outs,
  InvT now s /\ mono now ops /\ run_outs s ops = (sf, outs) /\ never_capped outs /\ sr_err s = 0 /\
  paid_sum outs = 0 /\ sched_sum outs = NS * PREC + 500000000 /\
  NS * PREC <= NS * sr_err s + sched_sum outs - NS * PREC * paid_sum outs.
Proof.
  exists 1000000000000000000, w_state, w_ops, (fst (run_outs w_state w_ops)), (snd (run_outs w_state w_ops)).
  split; [|split; [|split; [|split; [|split; [|split; [|split]]]]]].
  - split; [apply inv_b_iff; vm_compute; reflexivity|split; apply Z.leb_le; vm_compute; reflexivity].
  - cbn [w_ops mono]. repeat split; first [apply Z.leb_le; vm_compute; reflexivity | apply Z.ltb_lt; vm_compute; reflexivity].
  - destruct (run_outs w_state w_ops); reflexivity.
  - assert (Hb : forallb (fun r => negb (p_capped r)) (pays (snd (run_outs w_state w_ops))) = true) by (vm_compute; reflexivity).
    unfold never_capped. apply Forall_forall. intros r Hr. rewrite forallb_forall in Hb. specialize (Hb r Hr).
    apply negb_true_iff in Hb. exact Hb.
  - vm_compute; reflexivity.
  - vm_compute; reflexivity.
  - vm_compute; reflexivity.
  - apply Z.leb_le; vm_compute; reflexivity.
Qed.
Print Assumptions C19_staking_rewards_lower_strict_refuted.

(* The strict bound holds when no dust is dropped (block gaps of whole seconds,
   or a rate that is a multiple of 10^-9). *)
Theorem C19_staking_rewards_lower_strict_partial :
  forall ops now s sf outs,
  InvT now s -> mono now ops -> run_outs s ops = (sf, outs) -> never_capped outs ->
  Forall (fun r => (p_gap r * p_rate r) mod NS = 0) (pays outs) ->
  NS * sr_err s + sched_sum outs - NS * PREC * paid_sum outs < NS * PREC.
Proof. exact staking_lower_strict. Qed.
Print Assumptions C19_staking_rewards_lower_strict_partial.

(* Partition independence: two ways of cutting the same scheduled amount into
   blocks pay totals that differ by less than one unit plus 10^-18 per block. *)
Theorem C19_partition_independence :
  forall ops1 ops2 now s sf1 outs1 sf2 outs2,
  InvT now s -> mono now ops1 -> mono now ops2 ->
  run_outs s ops1 = (sf1, outs1) -> run_outs s ops2 = (sf2, outs2) ->
  never_capped outs1 -> never_capped outs2 -> sched_sum outs1 = sched_sum outs2 ->
  NS * PREC * Z.abs (paid_sum outs1 - paid_sum outs2) <=
    NS * (PREC - 1) + (NS - 1) * Z.max (npays outs1) (npays outs2).
Proof. exact partition_independence. Qed.
Print Assumptions C19_partition_independence.

(** ** The one-shot disable-inflation switch *)

Lemma switch_due_iff t s : switch_due t s = true <-> c_upg s <> 0 /\ c_upg s <= t.
Proof.
  unfold switch_due. rewrite andb_true_iff, !negb_true_iff, Z.eqb_neq, Z.ltb_ge. tauto.
Qed.

(* The first block at or after the upgrade time zeroes x/mint inflation and the
   community tax, deactivates kavadist, clears the trigger, installs the new
   reward rate, and creates no ukava (x/mint and kavadist run after it). *)
Theorem C19_disable_fires :
  forall t m c s s' x, c_upg s <> 0 -> c_upg s <= t -> block t m c s = Ok s' x ->
  c_rate s' = c_upg_rate s /\ c_upg s' = 0 /\ c_upg_rate s' = c_upg_rate s /\
  m_min s' = 0 /\ m_max s' = 0 /\ d_tax s' = 0 /\ kd_active s' = false /\
  supply s' = supply s /\ kdbal s' = kdbal s /\
  (exists b, x = OBlock b /\ b_fired b = true /\ b_cons b = c /\ b_mint b = 0 /\ b_ws b = [] /\ b_wsi b = [] /\ b_dist b = no_dist).
Proof. intros t m c s s' x H1 H2. apply block_fire. apply switch_due_iff. auto. Qed.
Print Assumptions C19_disable_fires.

(* Before the upgrade time (or with no upgrade time set) a block leaves those parameters alone. *)
Theorem C19_disable_not_before :
  forall t m c s s' x, (c_upg s = 0 \/ t < c_upg s) -> block t m c s = Ok s' x ->
  c_rate s' = c_rate s /\ c_upg s' = c_upg s /\ c_upg_rate s' = c_upg_rate s /\
  m_min s' = m_min s /\ m_max s' = m_max s /\ d_tax s' = d_tax s /\ kd_active s' = kd_active s /\
  (exists b, x = OBlock b /\ b_fired b = false /\ b_cons b = 0).
Proof.
  intros t m c s s' x H. apply block_nofire.
  destruct (switch_due t s) eqn:D; [|reflexivity]. apply switch_due_iff in D. lia.
Qed.
Print Assumptions C19_disable_not_before.

(* Once off, every later history of blocks, pool movements, rate updates and
   kavadist de-activations keeps inflation off: the trigger stays cleared,
   x/mint stays at zero, kavadist stays inactive, the switch never fires
   again, and not one ukava is created. *)
Theorem C19_disable_stays_off :
  forall ops s sf outs,
  Forall chain_op ops -> off s -> run_outs s ops = (sf, outs) ->
  off sf /\ supply sf = supply s /\ kdbal sf = kdbal s /\ fired_count outs = 0%nat.
Proof. exact stays_off. Qed.
Print Assumptions C19_disable_stays_off.

(* Exactly once: in any history whatsoever the switch fires at most once. *)
Theorem C19_disable_at_most_once :
  forall ops s sf outs, run_outs s ops = (sf, outs) -> (fired_count outs <= 1)%nat.
Proof. exact fires_at_most_once. Qed.
Print Assumptions C19_disable_at_most_once.

(** ** Kavadist *)

(* Every stretch of time (in Unix seconds, the code's granularity) for which a
   period is minted lies inside the period and inside the block interval
   (prev, now]; each period is minted at most once per call; the coins minted
   are exactly the compounding over those stretches. *)
Theorem C19_kavadist_window :
  forall now ps i prev sup sup' ws,
  prev <= now -> mint_periods now ps i prev sup = Some (sup', ws) ->
  Forall (fun w =>
    (unix (p_start (w_per w)) <= w_from w /\ w_to w <= unix (p_end (w_per w)) /\
     unix prev <= w_from w /\ w_from w <= w_to w /\ w_to w <= unix now) /\
    In (w_per w) ps) ws /\
  NoDup (map w_idx ws) /\ sup' = replay_ws sup ws.
Proof.
  intros now ps i prev sup sup' ws H1 H2.
  destruct (mint_periods_windows now ps i prev sup sup' ws H1 H2) as (F & N & E & _).
  repeat split; try assumption.
  eapply Forall_impl; [|exact F]. intros w ((A & B & C & D & E' & F' & G & H) & I & _). repeat split; assumption.
Qed.
Print Assumptions C19_kavadist_window.

(* The same inside a full begin block, for both period lists, with the supply accounted for. *)
Theorem C19_kavadist_block_windows :
  forall now t m c s s' x,
  InvT now s -> head_ok now (Block t m c) -> block t m c s = Ok s' x ->
  exists b, x = OBlock b /\
    Forall (win_ok t (kd_prev s)) (b_ws b) /\ Forall (win_ok t (kd_prev s)) (b_wsi b) /\
    NoDup (map w_idx (b_ws b)) /\ NoDup (map w_idx (b_wsi b)) /\
    kd_prev s <= kd_prev s' <= t /\ (b_ws b ++ b_wsi b <> [] -> kd_prev s' = t) /\
    supply s' = replay_ws (replay_ws (supply s + b_mint b) (b_ws b)) (b_wsi b).
Proof. exact block_kd. Qed.
Print Assumptions C19_kavadist_block_windows.

(* Never twice for the same time: over any history, the windows minted in
   different blocks do not overlap. *)
Theorem C19_kavadist_never_twice :
  forall ops now s sf outs,
  InvT now s -> mono now ops -> run_outs s ops = (sf, outs) ->
  Forall (Forall (fun w => unix (kd_prev s) <= w_from w)) (all_windows outs) /\
  ForallOrdPairs later (all_windows outs).
Proof. exact windows_ordered. Qed.
Print Assumptions C19_kavadist_never_twice.

(* A valid, non-deflationary schedule never makes the minting loop panic —
   including periods that mint zero coins (two blocks in the same Unix second,
   inflation 1.0). *)
Theorem C19_kavadist_no_panic :
  forall now ps i prev sup,
  prev <= now -> 0 <= sup -> periods_ok ps -> mint_periods now ps i prev sup <> None.
Proof. exact mint_periods_no_panic. Qed.
Print Assumptions C19_kavadist_no_panic.

(** ** Distribution of the infrastructure coins (partner and core rewards) *)

(* Reading guide.  [distribute te coins s] is distributeInfrastructureCoins
   called with timeElapsed = te and coinsToDistribute = coins on state s (None =
   it returned an error or panicked; the begin blocker turns both into a chain
   halt).  Its record [d]: [d_partner], [d_core] the payments made, in order;
   [d_rem] what is left over.  The code does not send the remainder anywhere: it
   stays in the x/kavadist module account, where the coins were minted.
   [amounts] sums a payment list; [minted ws] sums the coins of a window list. *)

(* Conservation, for every call: the coins handed over are split without
   remainder into partner payments, core payments and the left-over; nothing is
   negative; the community pool, the kavadist account and the users' balances
   move by exactly the payments addressed to them and nothing else moves; the
   partner payments are rate_i x te in list order, the core payments the rounded
   weight_j of what is left at that point. *)
Theorem C19_infra_distribution_conserves :
  forall te coins s s' d, distribute te coins s = Some (s', d) ->
  d_te d = te /\ d_coins d = coins /\ dist_good s s' d.
Proof. exact distribute_facts. Qed.
Print Assumptions C19_infra_distribution_conserves.

(* The parts paid never exceed what was handed over. *)
Theorem C19_infra_paid_within_minted :
  forall s s' d, dist_good s s' d -> 0 <= d_coins d ->
  0 <= amounts (d_partner d) /\ 0 <= amounts (d_core d) /\ dist_paid d <= d_coins d.
Proof. exact dist_good_bound. Qed.
Print Assumptions C19_infra_paid_within_minted.

(* A core reward is the banker's rounding of weight x what is left: within half a coin of the exact share. *)
Theorem C19_infra_core_share :
  forall left w, 2 * (left * w) - PREC <= 2 * (core_amount left w * PREC) <= 2 * (left * w) + PREC.
Proof. exact core_amount_exact. Qed.
Print Assumptions C19_infra_core_share.

(* In every block of every history: the coins distributed are exactly those
   minted for the infrastructure periods in that block; partner + core +
   left-over = minted; the total paid out never exceeds the minted amount; the
   payments follow the configured lists.  And every coin is somewhere: the
   accounts of the model (community pool, fee collector + x/distribution,
   kavadist, the reward recipients) hold the supply, up to what was deposited
   into or spent from the pool from outside. *)
Theorem C19_infra_all_histories :
  forall ops s sf outs, run_outs s ops = (sf, outs) ->
  Forall (dist_block_ok (kd_partners s) (kd_cores s)) (blocks outs) /\
  ledger sf - supply sf = ledger s - supply s + deposits outs /\
  kd_partners sf = kd_partners s /\ kd_cores sf = kd_cores s.
Proof. exact run_dist. Qed.
Print Assumptions C19_infra_all_histories.

(* One block creates exactly as many coins as its accounts gain. *)
Theorem C19_block_every_coin_goes_somewhere :
  forall t m c s s' x, block t m c s = Ok s' x -> ledger s' - ledger s = supply s' - supply s.
Proof. exact block_ledger. Qed.
Print Assumptions C19_block_every_coin_goes_somewhere.

(* The elapsed time the partner rewards are multiplied by is the value
   mintInfrastructurePeriods hands over; for a chronological period list it is
   never negative and never more than the whole seconds since the previous block.
   (validateInfraParams does not enforce chronological order for this list;
   with overlapping ongoing periods every one of them adds now - prev.) *)
Theorem C19_infra_elapsed_within_block_interval :
  forall now t m c s s' x,
  InvT now s -> head_ok now (Block t m c) -> periods_valid 0 (kd_infra s) ->
  block t m c s = Ok s' x ->
  exists b, x = OBlock b /\ 0 <= d_te (b_dist b) <= unix t - unix (kd_prev s).
Proof. exact block_te_bound. Qed.
Print Assumptions C19_infra_elapsed_within_block_interval.

(* Partner payments follow the seconds inside the periods only (after fix commit
   f4ddd6441).  The elapsed time the rates are multiplied by is the total
   length of the windows minted for the infrastructure periods in this block;
   each of those windows lies inside its period and inside the block interval
   (prev, now], and each period contributes at most one window.  So the
   distribution never asks for time outside a period, nor for time that was not
   minted for. *)
Theorem C19_infra_partner_time_is_time_minted_for :
  forall now ps i prev sup sup' ws te,
  mint_periods now ps i prev sup = Some (sup', ws) ->
  infra_elapsed now ps prev te = te + win_secs ws.
Proof. exact infra_elapsed_windows. Qed.
Print Assumptions C19_infra_partner_time_is_time_minted_for.

Theorem C19_infra_block_elapsed :
  forall t m c s s' x, block t m c s = Ok s' x ->
  exists b, x = OBlock b /\ dist_block_ok (kd_partners s) (kd_cores s) b /\
    d_te (b_dist b) = win_secs (b_wsi b) /\
    (d_te (b_dist b) = 0 \/ d_te (b_dist b) = infra_elapsed t (kd_infra s) (kd_prev s) 0).
Proof. exact block_dist. Qed.
Print Assumptions C19_infra_block_elapsed.

Theorem C19_infra_partner_time_inside_periods :
  forall now t m c s s' x,
  InvT now s -> head_ok now (Block t m c) -> block t m c s = Ok s' x ->
  exists b, x = OBlock b /\
    d_te (b_dist b) = win_secs (b_wsi b) /\
    Forall (fun w =>
      unix (p_start (w_per w)) <= w_from w /\ w_to w <= unix (p_end (w_per w)) /\
      unix (kd_prev s) <= w_from w /\ w_from w <= w_to w /\ w_to w <= unix t) (b_wsi b) /\
    NoDup (map w_idx (b_wsi b)).
Proof.
  intros now t m c s s' x HT HO HB.
  destruct (block_kd now t m c s s' x HT HO HB) as (b & E & _ & W & _ & N & _).
  destruct (block_dist t m c s s' x HB) as (b' & E' & _ & TE & _).
  rewrite E in E'. inversion E'; subst b'. exists b. split; [exact E|]. split; [exact TE|]. split; [|exact N].
  eapply Forall_impl; [|exact W]. intros w (A & B & C & D & E1 & F & G & H). repeat split; lia.
Qed.
Print Assumptions C19_infra_partner_time_inside_periods.

(* With one infrastructure period, whenever anything is minted the elapsed time
   is exactly the time of the block interval inside the period. *)
Theorem C19_infra_single_period_exact :
  forall now p i prev sup sup' ws,
  prev <= now -> p_start p <= p_end p ->
  mint_periods now [p] i prev sup = Some (sup', ws) ->
  ws = [] \/ exists w, ws = [w] /\ infra_elapsed now [p] prev 0 = w_len w /\ w_len w = inside_one now prev p.
Proof. exact infra_single. Qed.
Print Assumptions C19_infra_single_period_exact.

(* Regression: the witnesses that refuted this on the pre-fix code
   ([infra_elapsed_old]: the LAST assignment, case 4 assigning now - prev
   without minting).
   Witness 1: periods [t0, t0+10s] and [t0+100d, t0+200d], previous block at
   t0+5s, this block at t0+10d: 5 seconds are inside a period and minted for;
   the old code handed over 863990 s = now - End of the first period.
   Witness 2: contiguous periods [t0, t0+10s], [t0+10s, t0+100d], previous block
   at t0+5s, this block at t0+12s: 7 seconds minted for, the old code handed over 2.
   The fixed function gives 5 and 7. *)
Definition wt0 : Z := 1704067200 * NS.
Definition wD : Z := 86400 * NS.
Definition w_infl : Z := 1000000003022265980.
Definition w1_ps : list period := [mkPeriod wt0 (wt0 + 10 * NS) w_infl; mkPeriod (wt0 + 100 * wD) (wt0 + 200 * wD) w_infl].
Definition w2_ps : list period := [mkPeriod wt0 (wt0 + 10 * NS) w_infl; mkPeriod (wt0 + 10 * NS) (wt0 + 100 * wD) w_infl].

Theorem C19_infra_partner_time_regression :
  (exists sup' ws,
     periods_valid 0 w1_ps /\ periods_ok w1_ps /\
     mint_periods (wt0 + 10 * wD) w1_ps 0 (wt0 + 5 * NS) 1100000000000000 = Some (sup', ws) /\
     inside_secs (wt0 + 10 * wD) (wt0 + 5 * NS) w1_ps = 5 /\ win_secs ws = 5 /\ 0 < minted ws /\
     infra_elapsed_old (wt0 + 10 * wD) w1_ps (wt0 + 5 * NS) 0 = 863990 /\
     infra_elapsed (wt0 + 10 * wD) w1_ps (wt0 + 5 * NS) 0 = 5) /\
  (exists sup' ws,
     periods_valid 0 w2_ps /\ periods_ok w2_ps /\
     mint_periods (wt0 + 12 * NS) w2_ps 0 (wt0 + 5 * NS) 1100000000000000 = Some (sup', ws) /\
     inside_secs (wt0 + 12 * NS) (wt0 + 5 * NS) w2_ps = 7 /\ win_secs ws = 7 /\
     infra_elapsed_old (wt0 + 12 * NS) w2_ps (wt0 + 5 * NS) 0 = 2 /\
     infra_elapsed (wt0 + 12 * NS) w2_ps (wt0 + 5 * NS) 0 = 7).
Proof.
  split.
  - eexists. eexists.
    split; [cbn [w1_ps periods_valid p_start p_end]; repeat split; apply Z.leb_le; vm_compute; reflexivity|].
    split; [cbn [w1_ps periods_ok p_start p_end p_infl]; repeat split; apply Z.leb_le; vm_compute; reflexivity|].
    split; [vm_compute; reflexivity|].
    repeat split; vm_compute; reflexivity.
  - eexists. eexists.
    split; [cbn [w2_ps periods_valid p_start p_end]; repeat split; apply Z.leb_le; vm_compute; reflexivity|].
    split; [cbn [w2_ps periods_ok p_start p_end p_infl]; repeat split; apply Z.leb_le; vm_compute; reflexivity|].
    split; [vm_compute; reflexivity|].
    repeat split; vm_compute; reflexivity.
Qed.
Print Assumptions C19_infra_partner_time_regression.

(* what the pre-fix function computed whenever no period still lay in the future: the last window only *)
Theorem C19_infra_old_elapsed_was_last_window :
  forall now ps i prev sup sup' ws te,
  mint_periods now ps i prev sup = Some (sup', ws) ->
  Forall (fun p => p_start p < now) ps ->
  infra_elapsed_old now ps prev te = last (map w_len ws) te.
Proof. exact infra_elapsed_old_last_window. Qed.
Print Assumptions C19_infra_old_elapsed_was_last_window.

(* No panic: a valid non-deflationary schedule, payable reward addresses, rates
   >= 0, weights in [0,1], and partner rewards for the elapsed time covered by
   the coins minted for the infrastructure periods in that block. *)
Theorem C19_infra_no_panic :
  forall t s,
  0 <= kd_prev s <= t -> 0 <= supply s -> 0 <= kdbal s ->
  periods_ok (kd_periods s) -> periods_ok (kd_infra s) -> recipients_ok s ->
  (forall s1 ws wsi, kavadist_bb t s = Ok s1 (ws, wsi) ->
     infra_elapsed t (kd_infra s) (kd_prev s) 0 * zsum (map pr_rate (kd_partners s)) <= minted wsi) ->
  exists s' w, kavadist_full t s = Ok s' w.
Proof. exact kavadist_full_no_panic. Qed.
Print Assumptions C19_infra_no_panic.

(* The shortfall: when the partner rewards for the elapsed time exceed the coins
   minted (and something was minted), the code does not pay what it can, it
   fails -- MintPeriodInflation returns "negative coins" (or x/bank's
   insufficient funds) and kavadist's BeginBlocker panics: the chain halts.  It
   never pays out more than it minted. *)
Theorem C19_infra_shortfall_panics :
  forall t s s1 ws wsi,
  kd_active s = true -> kd_prev s <> 0 -> kavadist_bb t s = Ok s1 (ws, wsi) ->
  infra_elapsed t (kd_infra s) (kd_prev s) 0 <> 0 -> minted wsi <> 0 ->
  minted wsi < infra_elapsed t (kd_infra s) (kd_prev s) 0 * zsum (map pr_rate (kd_partners s)) ->
  kavadist_full t s = Panic.
Proof. exact kavadist_full_shortfall_panics. Qed.
Print Assumptions C19_infra_shortfall_panics.

(* Regression: witness 1 with ONE partner at 0.05 KAVA per second halted the chain
   on the pre-fix code (5 seconds minted for = 16.6 KAVA; 0.05 x 863990 =
   43199.5 KAVA owed for time after the period).  On the fixed code the block
   succeeds: the partner is paid 0.05 x 5 s = 0.25 KAVA out of the 16.6 minted. *)
Definition w1_state : state :=
  mk_state [wt0 + 5 * NS; 0; 0; 0; 0; 1000000; 0; 0; 1100000000000000; 0; 0; 0; 1; wt0 + 5 * NS; 0]
           [] w1_ps [mkPartner (RUser 0) 50000] [].
Theorem C19_infra_valid_schedule_no_longer_halts :
  inv_b w1_state = true /\ periods_valid 0 (kd_infra w1_state) /\ periods_ok (kd_infra w1_state) /\
  recipients_ok w1_state /\
  match block (wt0 + 10 * wD) 0 0 w1_state with
  | Ok s' (OBlock b) =>
      d_te (b_dist b) = 5 /\ d_coins (b_dist b) = 16622462 /\ map pay_amt (d_partner (b_dist b)) = [250000] /\
      users s' = [250000] /\ d_rem (b_dist b) = 16372462
  | _ => False
  end /\
  (* the pre-fix elapsed time would not have been covered *)
  16622462 < infra_elapsed_old (wt0 + 10 * wD) w1_ps (wt0 + 5 * NS) 0 * 50000.
Proof.
  split; [vm_compute; reflexivity|].
  split; [cbn [w1_state mk_state kd_infra w1_ps periods_valid p_start p_end]; repeat split; apply Z.leb_le; vm_compute; reflexivity|].
  split; [cbn [w1_state mk_state kd_infra w1_ps periods_ok p_start p_end p_infl]; repeat split; apply Z.leb_le; vm_compute; reflexivity|].
  split; [unfold recipients_ok; split; [repeat constructor; discriminate|constructor]|].
  split; [vm_compute; repeat split; reflexivity|].
  apply Z.ltb_lt. vm_compute. reflexivity.
Qed.
Print Assumptions C19_infra_valid_schedule_no_longer_halts.

(** ** Non-vacuity *)

(* a one-hour period lying between two blocks ten days apart is minted for one hour *)
Example C19_one_hour_period_in_ten_day_gap :
  let t0 := 1704067200 * NS in let D := 86400 * NS in
  let p := mkPeriod (t0 + 5 * D) (t0 + 5 * D + 3600 * NS) 1000000003022265980 in
  exists sup' w, mint_periods (t0 + 10 * D) [p] 0 t0 1100000000000000 = Some (sup', [w]) /\
    w_to w - w_from w = 3600 /\ w_amt w = 11968238370 /\ w_from w = unix (p_start p).
Proof. cbv zeta. eexists. eexists. vm_compute. repeat split. Qed.

(* zero seconds and inflation 1.0 mint nothing and do not panic *)
Example C19_zero_amount_no_panic :
  let t0 := 1704067200 * NS in
  mint_periods (t0 + 5) [mkPeriod (t0 - NS) (t0 + 10 * NS) 1000000003022265980; mkPeriod (t0 + 20 * NS) (t0 + 30 * NS) PREC] 0 (t0 + 1) 1100000000000000
    = Some (1100000000000000, [mkWin 0 (mkPeriod (t0 - NS) (t0 + 10 * NS) 1000000003022265980) (t0 + 1) 1704067200 1704067200 0]).
Proof. vm_compute. reflexivity. Qed.

(* the hypotheses of the history theorems are satisfiable by a state that pays, carries and switches *)
Example C19_hypotheses_satisfiable :
  let s := mk_state [1704067200000000000; 0; 744191500000000000000000; 1704067300000000000; 5000000000000000000;
                     1000000000000; 2000; 0; 1100000000000000; 70000000000000000; 200000000000000000; 20000000000000000; 1; 1704067200000000000]
                    [mkPeriod 1703980800000000000 1729987200000000000 1000000003022265980] [] [] [] in
  let ops := [Block 1704067206500000000 17 0; PoolAdj 5; Block 1704067300000000000 23 1000; Block 1704067306000000000 9 0] in
  inv_b s = true /\
  (let '(sf, outs) := run_outs s ops in
   (map p_paid (pays outs), fired_count outs, supply sf - supply s, c_rate sf, m_max sf, kd_active sf, sr_err sf))
  = ([4837244; 468; 30], 1%nat, 19946972, 5000000000000000000, 0, false, 250000000000000000).
Proof. cbv zeta. split; vm_compute; reflexivity. Qed.

(* a block that distributes: one ongoing infrastructure period, two partners (a
   user and the community pool), two core recipients (a user at 50% and the
   kavadist account itself at 100% of the rest); 6 seconds, 19946955 ukava minted;
   the 50% share of 19946055 is 9973027.5, which RoundInt takes to the even 9973028 *)
Example C19_distribution_example :
  let s := mk_state [wt0; 0; 0; 0; 0; 1000000; 0; 500; 1100000000000000; 0; 0; 0; 1; wt0; 7; 0]
                    [] [mkPeriod (wt0 - wD) (wt0 + 300 * wD) w_infl]
                    [mkPartner (RUser 0) 100; mkPartner RCommunity 50]
                    [mkCore (RUser 1) 500000000000000000; mkCore RKavadist PREC] in
  match block (wt0 + 6 * NS) 0 0 s with
  | Ok s' (OBlock b) =>
      (d_te (b_dist b), d_coins (b_dist b), map pay_amt (d_partner (b_dist b)), map pay_amt (d_core (b_dist b)),
       d_rem (b_dist b), users s', pool s', kdbal s', supply s' - supply s)
      = (6, 19946955, [600; 300], [9973028; 9973027], 0, [607; 9973028], 1000300, 500 + 9973027, 19946955)
  | _ => False
  end.
Proof. cbv zeta. vm_compute. reflexivity. Qed.
