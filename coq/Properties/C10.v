(* C10 — evmutil: converted assets are always fully backed on the other side.
   Property theorems only; proofs are in Proofs/Evmutil.v and Proofs/EvmutilNR.v (pairs whose token
   returns false instead of reverting). *)
From Kava Require Import Base.Prelude Model.Erc20 Model.Evmutil Model.EvmutilNR Proofs.Evmutil Proofs.EvmutilNR.

(** * Backing, for all histories *)

(* Every history of the four conversion messages (or direct keeper calls),
   ERC20 transfers, mints, approvals and transferFroms, bank sends and validated
   parameter changes, none of them signed by the module account or the zero
   address, preserves the module invariant. *)
Theorem C10_invariant_all_histories :
  forall e ops s, env_wf e -> Inv e s -> Forall (op_wf e) ops -> Inv e (run e s ops).
Proof. intros e ops s. exact (run_inv e ops s). Qed.
Print Assumptions C10_invariant_all_histories.

(* The same for histories of transactions: several messages executed atomically
   (all of them or none, as baseapp does). *)
Theorem C10_invariant_all_transaction_histories :
  forall e txs s, env_wf e -> Inv e s -> Forall (Forall (op_wf e)) txs -> Inv e (run_txs e s txs).
Proof. intros e txs s. exact (run_txs_inv e txs s). Qed.
Print Assumptions C10_invariant_all_transaction_histories.

(* For every cosmos coin with a module-deployed ERC20 the ERC20 total supply
   equals the module account's balance of that coin — after every history. *)
Theorem C10_cosmos_native_backed :
  forall e ops s d c, env_wf e -> Inv e s -> Forall (op_wf e) ops ->
  reg (run e s ops) d = Some c ->
  etot (erc (run e s ops) c) = bal (run e s ops) (macc e) d.
Proof. exact cosmos_native_backed. Qed.
Print Assumptions C10_cosmos_native_backed.

(* For every enabled pair the coin supply, times 10^10 for the bep3 assets,
   never exceeds the ERC20 tokens held by the module's EVM address. *)
Theorem C10_evm_native_backed :
  forall e ops s c d, env_wf e -> Inv e s -> nonneg s -> Forall (op_wf e) ops ->
  In (c, d) (pairs (run e s ops)) ->
  sup (run e s ops) d * (if is_bep3 e d then 10 ^ 10 else 1)
    <= ebal (erc (run e s ops) c) (macc e).
Proof. exact evm_native_backed. Qed.
Print Assumptions C10_evm_native_backed.

(* Nobody ever holds an allowance over the tokens locked for a pair ... *)
Theorem C10_no_allowance_over_locked_tokens :
  forall e ops s c d a, env_wf e -> Inv e s -> Forall (op_wf e) ops ->
  In (c, d) (pairs (run e s ops)) -> kind e c = Oz ->
  eallow (erc (run e s ops) c) (macc e) a = 0.
Proof. exact no_allowance_over_locked_tokens. Qed.
Print Assumptions C10_no_allowance_over_locked_tokens.

(* ... so a transferFrom out of the module's EVM address moves nothing. *)
Theorem C10_transfer_from_module_moves_nothing :
  forall e s c sp t x s', Inv e s -> (c < npair e)%nat -> kind e c = Oz ->
  step e s (ErcTransferFrom c sp (macc e) t x) = Ok s' tt ->
  forall a, ebal (erc s' c) a = ebal (erc s c) a.
Proof. exact transfer_from_module_moves_nothing. Qed.
Print Assumptions C10_transfer_from_module_moves_nothing.

(* Bank balances and ERC20 balances stay non-negative and total supplies below
   2^256 (the range hypothesis of the round trips is reachable-state closed). *)
Theorem C10_balances_in_range_all_histories :
  forall e ops s, nonneg s -> Forall (op_wf e) ops -> nonneg (run e s ops).
Proof. intros e ops s. exact (run_nonneg e ops s). Qed.
Print Assumptions C10_balances_in_range_all_histories.

(** * A conversion debits the initiator and credits the receiver the same value;
      nothing else changes (dlt b x = if b then x else 0) *)

(* ConvertCosmosCoinToERC20: x coins initiator -> module account, x wrapper
   tokens minted to the receiver (wrapper deployed and registered on first use). *)
Theorem C10_conversion_value_cosmos_to_erc20 :
  forall e s i r d x s',
  conv_cosmos_to_erc20 e s i r d x = Ok s' tt -> 0 <= x < U256 ->
  allowed s d = true /\ r <> zacc e /\ (x = 0 \/ x <= bal s i d) /\
  exists c, reg s' d = Some c /\
    ((reg s d = Some c /\ reg s' = reg s /\ next s' = next s) \/
     (reg s d = None /\ c = next s /\ reg s' = upd (reg s) d (Some c) /\ next s' = S (next s))) /\
    etot (wl s d) + x < U256 /\
    (forall a, ebal (erc s' c) a = ebal (wl s d) a + dlt (Nat.eqb a r) x) /\
    etot (erc s' c) = etot (wl s d) + x /\
    (forall c', c' <> c -> erc s' c' = erc s c') /\
    (forall a d', bal s' a d' = bal s a d' - dlt (Nat.eqb a i && Nat.eqb d' d) x
                                          + dlt (Nat.eqb a (macc e) && Nat.eqb d' d) x) /\
    sup s' = sup s /\ same_params s s'.
Proof. exact conv_cosmos_to_erc20_spec. Qed.
Print Assumptions C10_conversion_value_cosmos_to_erc20.

(* after a successful ConvertCosmosCoinToERC20 the denom's registered contract is a
   deployed wrapper in which the receiver's balance rose by exactly the amount *)
Theorem C10_cosmos_to_erc20_contract_exists :
  forall e s i r d x s',
  Inv e s -> 0 <= x < U256 -> conv_cosmos_to_erc20 e s i r d x = Ok s' tt ->
  exists c, reg s' d = Some c /\ (npair e <= c < next s')%nat /\
            ebal (erc s' c) r = ebal (wl s d) r + x /\ etot (erc s' c) = etot (wl s d) + x.
Proof. exact cosmos_to_erc20_contract_exists. Qed.
Print Assumptions C10_cosmos_to_erc20_contract_exists.

(* ConvertCosmosCoinFromERC20: x wrapper tokens of the initiator burned, x coins
   module account -> receiver. *)
Theorem C10_conversion_value_cosmos_from_erc20 :
  forall e s i r d x s',
  conv_cosmos_from_erc20 e s i r d x = Ok s' tt -> 0 <= x < U256 ->
  exists c, reg s d = Some c /\ i <> zacc e /\ blocked e r = false /\ x <= ebal (erc s c) i /\
    (x = 0 \/ x <= bal s (macc e) d) /\
    (forall a, ebal (erc s' c) a = ebal (erc s c) a - dlt (Nat.eqb a i) x) /\
    etot (erc s' c) = etot (erc s c) - x /\
    (forall c', c' <> c -> erc s' c' = erc s c') /\
    (forall a d', bal s' a d' = bal s a d' - dlt (Nat.eqb a (macc e) && Nat.eqb d' d) x
                                          + dlt (Nat.eqb a r && Nat.eqb d' d) x) /\
    sup s' = sup s /\ reg s' = reg s /\ next s' = next s /\ same_params s s'.
Proof. exact conv_cosmos_from_erc20_spec. Qed.
Print Assumptions C10_conversion_value_cosmos_from_erc20.

(* ConvertERC20ToCoin through the enabled pair (c, d): lock = mint * k tokens initiator ->
   module EVM address, mint coins minted to the receiver (k = 10^10, mint = floor(x/10^10)
   for bep3; else k = 1, mint = x); the contract has code, OpenZeppelin behaviour and the
   allowances in it are untouched. *)
Theorem C10_conversion_value_erc20_to_coin :
  forall e s i r c x s',
  conv_erc20_to_coin e s i r c x = Ok s' tt ->
  exists d, pair_of_ctr s c = Some d /\
  let mint := if is_bep3 e d then x / K10 else x in
  let lock := mint * kf e d in
  (c < next s)%nat /\ kind e c = Oz /\ i <> zacc e /\ macc e <> zacc e /\ blocked e r = false /\
  (is_bep3 e d = true -> mint <> 0) /\
  0 <= lock < U256 /\ lock <= ebal (erc s c) i /\
  (forall a, ebal (erc s' c) a = ebal (erc s c) a - dlt (Nat.eqb a i) lock + dlt (Nat.eqb a (macc e)) lock) /\
  etot (erc s' c) = etot (erc s c) /\ eallow (erc s' c) = eallow (erc s c) /\
  (forall c', c' <> c -> erc s' c' = erc s c') /\
  (forall a d', bal s' a d' = bal s a d' + dlt (Nat.eqb a r && Nat.eqb d' d) mint) /\
  (forall d', sup s' d' = sup s d' + dlt (Nat.eqb d' d) mint) /\
  reg s' = reg s /\ next s' = next s /\ same_params s s'.
Proof. exact conv_erc20_to_coin_spec. Qed.
Print Assumptions C10_conversion_value_erc20_to_coin.

(* ConvertCoinToERC20: x coins of the initiator burned, x * k tokens module EVM
   address -> receiver. *)
Theorem C10_conversion_value_coin_to_erc20 :
  forall e s i r d x s',
  conv_coin_to_erc20 e s i r d x = Ok s' tt -> i <> macc e ->
  exists c, pair_of_denom s d = Some c /\
  let unlock := x * kf e d in
  (c < next s)%nat /\ kind e c = Oz /\ r <> zacc e /\ macc e <> zacc e /\
  (x = 0 \/ x <= bal s i d) /\
  0 <= unlock < U256 /\ unlock <= ebal (erc s c) (macc e) /\
  (forall a, ebal (erc s' c) a = ebal (erc s c) a - dlt (Nat.eqb a (macc e)) unlock + dlt (Nat.eqb a r) unlock) /\
  etot (erc s' c) = etot (erc s c) /\ eallow (erc s' c) = eallow (erc s c) /\
  (forall c', c' <> c -> erc s' c' = erc s c') /\
  (forall a d', bal s' a d' = bal s a d' - dlt (Nat.eqb a i && Nat.eqb d' d) x) /\
  (forall d', sup s' d' = sup s d' - dlt (Nat.eqb d' d) x) /\
  reg s' = reg s /\ next s' = next s /\ same_params s s'.
Proof. exact conv_coin_to_erc20_spec. Qed.
Print Assumptions C10_conversion_value_coin_to_erc20.

(** * A round trip restores the original balances (all four directions) *)

Theorem C10_round_trip_cosmos :
  forall e s i r d x s1,
  env_wf e -> nonneg s -> 0 <= x < U256 -> blocked e i = false ->
  conv_cosmos_to_erc20 e s i r d x = Ok s1 tt ->
  exists s2, conv_cosmos_from_erc20 e s1 r i d x = Ok s2 tt /\
    (forall a d', bal s2 a d' = bal s a d') /\ sup s2 = sup s /\
    (forall a, ebal (wl s2 d) a = ebal (wl s d) a) /\ etot (wl s2 d) = etot (wl s d) /\
    (forall c', reg s2 d <> Some c' -> erc s2 c' = erc s c').
Proof. exact round_trip_cosmos. Qed.
Print Assumptions C10_round_trip_cosmos.

Theorem C10_round_trip_cosmos_back :
  forall e s i r d x s1,
  env_wf e -> nonneg s -> 0 <= x < U256 -> allowed s d = true ->
  conv_cosmos_from_erc20 e s i r d x = Ok s1 tt ->
  exists s2, conv_cosmos_to_erc20 e s1 r i d x = Ok s2 tt /\
    (forall a d', bal s2 a d' = bal s a d') /\ sup s2 = sup s /\
    (forall c a, ebal (erc s2 c) a = ebal (erc s c) a) /\
    (forall c, etot (erc s2 c) = etot (erc s c)) /\
    reg s2 = reg s /\ next s2 = next s.
Proof. exact round_trip_cosmos_back. Qed.
Print Assumptions C10_round_trip_cosmos_back.

Theorem C10_round_trip_evm :
  forall e s i r c x s1,
  env_wf e -> nonneg s -> pairs_nodup (pairs s) -> 0 <= x -> i <> macc e ->
  conv_erc20_to_coin e s i r c x = Ok s1 tt ->
  exists d, pair_of_ctr s c = Some d /\
  let mint := if is_bep3 e d then x / K10 else x in
  exists s2, conv_coin_to_erc20 e s1 r i d mint = Ok s2 tt /\
    (forall a d', bal s2 a d' = bal s a d') /\ (forall d', sup s2 d' = sup s d') /\
    (forall c' a, ebal (erc s2 c') a = ebal (erc s c') a) /\
    (forall c', etot (erc s2 c') = etot (erc s c')) /\
    reg s2 = reg s /\ next s2 = next s.
Proof. exact round_trip_evm. Qed.
Print Assumptions C10_round_trip_evm.

Theorem C10_round_trip_evm_back :
  forall e s i r d x s1,
  env_wf e -> nonneg s -> pairs_nodup (pairs s) -> 0 <= x -> (is_bep3 e d = true -> 0 < x) ->
  i <> macc e -> r <> macc e -> blocked e i = false ->
  conv_coin_to_erc20 e s i r d x = Ok s1 tt ->
  exists c s2, pair_of_denom s d = Some c /\
    conv_erc20_to_coin e s1 r i c (x * kf e d) = Ok s2 tt /\
    (forall a d', bal s2 a d' = bal s a d') /\ (forall d', sup s2 d' = sup s d') /\
    (forall c' a, ebal (erc s2 c') a = ebal (erc s c') a) /\
    (forall c', etot (erc s2 c') = etot (erc s c')) /\
    reg s2 = reg s /\ next s2 = next s.
Proof. exact round_trip_evm_back. Qed.
Print Assumptions C10_round_trip_evm_back.

(** * ERC20 dust smaller than one sdk unit is never taken from the user *)

Theorem C10_dust_kept :
  forall e s i r c d x s',
  pair_of_ctr s c = Some d -> is_bep3 e d = true -> i <> macc e ->
  conv_erc20_to_coin e s i r c x = Ok s' tt ->
  let locked := x / K10 * K10 in
  ebal (erc s c) i - ebal (erc s' c) i = locked /\
  ebal (erc s' c) (macc e) - ebal (erc s c) (macc e) = locked /\
  0 <= x - locked < K10 /\
  bal s' r d = bal s r d + x / K10.
Proof. exact dust_kept. Qed.
Print Assumptions C10_dust_kept.

Theorem C10_dust_only_refused :
  forall e s i r c x,
  (forall d, pair_of_ctr s c = Some d -> is_bep3 e d = true) -> 0 <= x < K10 ->
  conv_erc20_to_coin e s i r c x = Err.
Proof. exact dust_only_refused. Qed.
Print Assumptions C10_dust_only_refused.

(** * A failed or disabled conversion changes nothing on either side *)

Theorem C10_failed_changes_nothing :
  forall e s o, (forall s' u, step e s o <> Ok s' u) -> step' e s o = s.
Proof. exact step'_failed. Qed.
Print Assumptions C10_failed_changes_nothing.

(* a transaction in which a later message fails undoes its earlier messages as well
   (for instance the wrapper deployed by a first ConvertCosmosCoinToERC20) *)
Theorem C10_failed_transaction_changes_nothing :
  forall e tx1 o tx2 s s1,
  tx_step e s tx1 = Ok s1 tt -> (forall s' u, step e s1 o <> Ok s' u) ->
  tx_step' e s (tx1 ++ o :: tx2) = s.
Proof. exact tx_step_failing_msg. Qed.
Print Assumptions C10_failed_transaction_changes_nothing.

Theorem C10_disabled_pair_refused_erc20_to_coin :
  forall e s i r c x, (forall d, ~ In (c, d) (pairs s)) -> conv_erc20_to_coin e s i r c x = Err.
Proof. exact disabled_pair_refused_erc20_to_coin. Qed.
Print Assumptions C10_disabled_pair_refused_erc20_to_coin.

Theorem C10_disabled_pair_refused_coin_to_erc20 :
  forall e s i r d x, (forall c, ~ In (c, d) (pairs s)) -> conv_coin_to_erc20 e s i r d x = Err.
Proof. exact disabled_pair_refused_coin_to_erc20. Qed.
Print Assumptions C10_disabled_pair_refused_coin_to_erc20.

Theorem C10_not_allowed_denom_refused :
  forall e s i r d x, allowed s d = false -> conv_cosmos_to_erc20 e s i r d x = Err.
Proof. exact not_allowed_refused. Qed.
Print Assumptions C10_not_allowed_denom_refused.

Theorem C10_unregistered_denom_refused :
  forall e s i r d x, reg s d = None -> conv_cosmos_from_erc20 e s i r d x = Err.
Proof. exact unregistered_refused. Qed.
Print Assumptions C10_unregistered_denom_refused.

(* the zero address as receiver: the ERC20 mint / transfer reverts; in particular a FIRST
   conversion of a cosmos denom to the zero address is refused as a whole — no wrapper
   stays deployed or registered, no coin stays locked *)
Theorem C10_zero_receiver_refused_cosmos_to_erc20 :
  forall e s i d x, conv_cosmos_to_erc20 e s i (zacc e) d x = Err.
Proof. exact zero_receiver_refused_cosmos_to_erc20. Qed.
Print Assumptions C10_zero_receiver_refused_cosmos_to_erc20.

Theorem C10_zero_receiver_refused_coin_to_erc20 :
  forall e s i d x s', conv_coin_to_erc20 e s i (zacc e) d x <> Ok s' tt.
Proof. exact zero_receiver_refused_coin_to_erc20. Qed.
Print Assumptions C10_zero_receiver_refused_coin_to_erc20.

(* amounts above the initiator's balance *)
Theorem C10_overdraw_refused_coin_to_erc20 :
  forall e s i r d x s',
  i <> macc e -> bal s i d < x -> 0 < x -> conv_coin_to_erc20 e s i r d x <> Ok s' tt.
Proof. exact overdraw_refused_coin_to_erc20. Qed.
Print Assumptions C10_overdraw_refused_coin_to_erc20.

Theorem C10_overdraw_refused_erc20_to_coin :
  forall e s i r c d x s',
  pair_of_ctr s c = Some d ->
  let lock := (if is_bep3 e d then x / K10 else x) * kf e d in
  ebal (erc s c) i < lock -> conv_erc20_to_coin e s i r c x <> Ok s' tt.
Proof. exact overdraw_refused_erc20_to_coin. Qed.
Print Assumptions C10_overdraw_refused_erc20_to_coin.

Theorem C10_overdraw_refused_cosmos_to_erc20 :
  forall e s i r d x s',
  0 < x < U256 -> bal s i d < x -> conv_cosmos_to_erc20 e s i r d x <> Ok s' tt.
Proof. exact overdraw_refused_cosmos_to_erc20. Qed.
Print Assumptions C10_overdraw_refused_cosmos_to_erc20.

Theorem C10_overdraw_refused_cosmos_from_erc20 :
  forall e s i r d x c,
  reg s d = Some c -> ebal (erc s c) i < x -> conv_cosmos_from_erc20 e s i r d x = Err.
Proof. exact overdraw_refused_cosmos_from_erc20. Qed.
Print Assumptions C10_overdraw_refused_cosmos_from_erc20.

(* coins are never paid out to a blocked address (module accounts) *)
Theorem C10_blocked_recipient_refused :
  forall e s i r x, blocked e r = true ->
  (forall c s', conv_erc20_to_coin e s i r c x <> Ok s' tt) /\
  (forall d s', conv_cosmos_from_erc20 e s i r d x <> Ok s' tt).
Proof. exact blocked_recipient_refused. Qed.
Print Assumptions C10_blocked_recipient_refused.

(* the balance-delta check: unlocking to the module's own EVM address (coins
   burned, nobody credited) is refused *)
Theorem C10_unlock_to_module_refused :
  forall e s i d x s',
  i <> macc e -> 0 < x -> conv_coin_to_erc20 e s i (macc e) d x <> Ok s' tt.
Proof. exact unlock_to_module_refused. Qed.
Print Assumptions C10_unlock_to_module_refused.

(** * The Approval-event guard: a pair whose token changes allowances inside
      transfer() (and says so) cannot be converted through, in either direction *)

Theorem C10_approval_pair_refused_erc20_to_coin :
  forall e s i r c x, kind e c = Refund -> conv_erc20_to_coin e s i r c x = Err.
Proof. exact approval_pair_refused_erc20_to_coin. Qed.
Print Assumptions C10_approval_pair_refused_erc20_to_coin.

Theorem C10_approval_pair_refused_coin_to_erc20 :
  forall e s i r d x c,
  pair_of_denom s d = Some c -> kind e c = Refund -> conv_coin_to_erc20 e s i r d x = Err.
Proof. exact approval_pair_refused_coin_to_erc20. Qed.
Print Assumptions C10_approval_pair_refused_coin_to_erc20.

Theorem C10_approval_pair_changes_nothing :
  forall e s dr i r c d x, kind e c = Refund ->
  step' e s (ConvERC20ToCoin dr i r c x) = s /\
  (pair_of_denom s d = Some c -> step' e s (ConvCoinToERC20 dr i r d x) = s).
Proof. exact approval_pair_changes_nothing. Qed.
Print Assumptions C10_approval_pair_changes_nothing.

(** * Parameter changes: exactly the duplicate-free lists of well-formed pairs are
      accepted, hence the keeper's lookups by denom and by address are functions *)

Theorem C10_valid_pairs_characterised :
  forall ps l, valid_pairs ps = Some l <-> decode_pairs ps = Some l /\ pairs_nodup l.
Proof. exact valid_pairs_spec. Qed.
Print Assumptions C10_valid_pairs_characterised.

Theorem C10_set_params_accepts_only_valid_lists :
  forall e s ps ts s', step e s (SetParams ps ts) = Ok s' tt ->
  valid_pairs ps = Some (pairs s') /\ pairs_nodup (pairs s') /\
  (exists al, valid_toks ts = Some al /\ allowed s' = memb al) /\
  bal s' = bal s /\ sup s' = sup s /\ erc s' = erc s /\ reg s' = reg s /\ next s' = next s.
Proof. exact set_params_spec. Qed.
Print Assumptions C10_set_params_accepts_only_valid_lists.

Theorem C10_set_params_refuses_invalid_lists :
  forall e s ps ts, valid_pairs ps = None \/ valid_toks ts = None -> step e s (SetParams ps ts) = Err.
Proof. exact set_params_refused. Qed.
Print Assumptions C10_set_params_refuses_invalid_lists.

Theorem C10_malformed_pair_refused :
  forall ps p, In p ps -> (p_addr p = AZero \/ p_addr p = ABadLen \/ p_denom p = None) ->
  valid_pairs ps = None.
Proof. exact malformed_pair_refused. Qed.
Print Assumptions C10_malformed_pair_refused.

Theorem C10_duplicate_pair_refused :
  forall ps1 p ps2 p' ps3, (p_addr p = p_addr p' \/ p_denom p = p_denom p') ->
  valid_pairs (ps1 ++ p :: ps2 ++ p' :: ps3) = None.
Proof. exact duplicate_pair_refused. Qed.
Print Assumptions C10_duplicate_pair_refused.

(* after every history (no assumption on who signs or what governance proposes) the enabled
   pairs are duplicate-free and the lookups return THE pair of a denom / of an address *)
Theorem C10_enabled_pairs_duplicate_free_all_histories :
  forall e ops s, pairs_nodup (pairs s) -> pairs_nodup (pairs (run e s ops)).
Proof. intros e ops s. exact (run_pairs_nodup e ops s). Qed.
Print Assumptions C10_enabled_pairs_duplicate_free_all_histories.

Theorem C10_pair_lookup_is_a_function :
  forall e ops s c d, pairs_nodup (pairs s) -> In (c, d) (pairs (run e s ops)) ->
  pair_of_denom (run e s ops) d = Some c /\ pair_of_ctr (run e s ops) c = Some d.
Proof. exact run_lookup_functional. Qed.
Print Assumptions C10_pair_lookup_is_a_function.

Theorem C10_no_panic : forall e s o, step e s o <> Panic.
Proof. exact step_no_panic. Qed.
Print Assumptions C10_no_panic.

(** * Non-vacuity *)

(* accounts 0,1 users, 2 the module (blocked), 3 the zero address; pair contract 0 <-> denom 0
   (bep3), pair contract 1 <-> denom 1, pair contract 2 <-> denom 3 with the Approval-emitting
   bytecode; denom 2 is an allowed cosmos coin *)
Definition ex_env : env :=
  mk_envx 4 4 2 3 [false; false; true; false] [0; 1; 3]%nat [false; false; true] [true; false; false; false].
Definition ex_state : state :=
  mk_state [[0; 0; 500; 0]; [0; 0; 40; 0]; [0; 0; 0; 0]; [0; 0; 0; 0]] [0; 0; 540; 0]
           [(30000000007, [30000000007; 0; 0; 0]); (90, [50; 40; 0; 0]); (0, [77; 0; 0; 0])]
           [] [(0, 0); (1, 1); (2, 3)]%nat [2%nat].

Example C10_hypotheses_satisfiable :
  env_wf ex_env /\ Inv ex_env ex_state /\ nonneg ex_state /\ pairs_nodup (pairs ex_state).
Proof.
  split; [|split; [|split]].
  - split; [reflexivity|]. split; [|cbn; lia]. intros c c' Hc Hc' H. cbn in Hc, Hc'.
    destruct c as [|[|[|c]]], c' as [|[|[|c']]]; try lia; cbn in H; try reflexivity; discriminate.
  - unfold Inv. split; [cbn; lia|]. split; [intros d c H; discriminate|].
    split; [intros d d' c H; discriminate|]. split.
    { intros d. cbn. destruct d as [|[|[|[|[|d]]]]]; reflexivity. }
    split.
    { intros c Hc Hk. cbn in Hc. destruct c as [|[|[|c]]]; [vm_compute; discriminate|vm_compute; discriminate|discriminate Hk|lia]. }
    split.
    { intros c Hc Hk a. cbn in Hc. destruct c as [|[|[|c]]]; [| |discriminate Hk|lia];
        destruct a as [|[|[|[|[|a]]]]]; reflexivity. }
    split.
    { intros c Hc Hk. cbn in Hc. destruct c as [|[|[|c]]]; [discriminate Hk|discriminate Hk|reflexivity|lia]. }
    repeat constructor; cbn; lia.
  - split; [|split].
    + intros a d. destruct a as [|[|[|[|[|a]]]]], d as [|[|[|[|[|d]]]]]; vm_compute; discriminate.
    + intros c a. destruct c as [|[|[|[|c]]]], a as [|[|[|[|[|a]]]]]; vm_compute; discriminate.
    + intros c. destruct c as [|[|[|[|c]]]]; vm_compute; reflexivity.
  - apply pairs_nodupb_spec. reflexivity.
Qed.

(* a history on that state: a bep3 conversion with dust, a cosmos-coin conversion that deploys
   the wrapper, the way back of the first, a refused dust-only conversion, an approval and a
   transferFrom, a validated parameter change that disables pair 1; then refused: a conversion
   of the disabled pair, a conversion through the Approval-emitting pair, a cosmos-coin
   conversion to the zero address, parameter lists with a duplicate denom / a zero address *)
Example C10_history_nonvacuous :
  let P := fun c d => mkPraw (ACtr c) (Some d) in
  let T := fun d => mkTraw (Some d) true (Some d) true in
  let ops := [ConvERC20ToCoin false 0 1 0 25000000003;
              ConvCosmosToERC20 false 0 1 2 120;
              ConvCoinToERC20 false 1 0 0 1;
              ConvERC20ToCoin false 0 1 0 9999999999;
              ErcApprove 1 0 1 30;
              ErcTransferFrom 1 1 0 1 20;
              SetParams [P 0 0; P 2 3]%nat [T 2%nat];
              ConvERC20ToCoin false 1 0 1 10]%nat in
  let s := run ex_env ex_state ops in
  Forall (op_wf ex_env) ops /\
  map (fun o => class_of (step ex_env ex_state o)) [nth 0 ops (SetParams [] [])] = [ROk] /\
  (ebal (erc s 0) 0, ebal (erc s 0) 2, bal s 1 0, sup s 0)%nat = (20000000007, 10000000000, 1, 1) /\
  reg s 2%nat = Some 3%nat /\ (etot (erc s 3), bal s 2 2, ebal (erc s 3) 1)%nat = (120, 120, 120) /\
  (ebal (erc s 1) 0, ebal (erc s 1) 1, eallow (erc s 1) 0 1)%nat = (30, 60, 10) /\
  pairs s = [(0, 0); (2, 3)]%nat /\
  step ex_env s (ConvERC20ToCoin false 0 1 0 9999999999) = Err /\
  step ex_env s (ConvERC20ToCoin false 1 0 1 10) = Err /\
  step ex_env s (ConvERC20ToCoin false 0 1 2 5) = Err /\
  step ex_env s (ConvCosmosToERC20 false 0 3 2 5) = Err /\
  step ex_env s (SetParams [P 0 1; P 1 1]%nat [T 2%nat]) = Err /\
  step ex_env s (SetParams [P 0 0; mkPraw AZero (Some 1%nat)]%nat [T 2%nat]) = Err /\
  tx_step' ex_env ex_state [ConvCosmosToERC20 false 0 1 2 120; ConvERC20ToCoin false 0 1 0 5]%nat = ex_state /\
  inv_b ex_env s = true.
Proof.
  cbv zeta. split.
  - repeat constructor; unfold op_wf; cbn; try discriminate.
    intros l H. vm_compute in H. inversion H; subst. repeat constructor; cbn; lia.
  - repeat split; vm_compute; reflexivity.
Qed.

(** * Pairs whose token does not revert: an old-style ERC20 whose transfer() returns false and moves
      nothing when the sender's balance is too small (Model/EvmutilNR.v: [nr c] marks the table
      contracts with that bytecode; [xstep] runs their semantics, every other operation is [step]) *)

(* THE BALANCE-DELTA CHECK: a conversion whose lock moved nothing is refused and changes nothing.
   Whatever the initiator holds below the amount to lock — nothing at all, one unit less — the
   transfer returns false, the balance read back is not start - amount, ConvertERC20ToCoin fails. *)
Theorem C10_lock_that_moved_nothing_is_refused :
  forall e nr s dr i r c d x, nr c = true ->
  pair_of_ctr s c = Some d -> amount_ok dr x = true ->
  0 <= ebal (erc s c) i < lock_of e d x ->
  xstep e nr s (ConvERC20ToCoin dr i r c x) = Err /\ xstep' e nr s (ConvERC20ToCoin dr i r c x) = s.
Proof.
  intros e nr s dr i r c d x Hc Hp Ha Hlt.
  assert (E : xstep e nr s (ConvERC20ToCoin dr i r c x) = Err).
  { cbn [xstep]. rewrite Hc, Ha. apply (lock_moved_nothing_refused e s i r c d x Hp); [|exact Hlt].
    apply amount_ok_range in Ha. exact Ha. }
  split; [exact E|]. unfold xstep'. now rewrite E.
Qed.
Print Assumptions C10_lock_that_moved_nothing_is_refused.

(* conversely a successful conversion debited the initiator exactly the amount locked *)
Theorem C10_lock_debits_exactly :
  forall e s i r c x s', conv_erc20_to_coin_nr e s i r c x = Ok s' tt ->
  exists d, pair_of_ctr s c = Some d /\ ebal (erc s' c) i = ebal (erc s c) i - lock_of e d x.
Proof. exact lock_ok_debits_exactly. Qed.
Print Assumptions C10_lock_debits_exactly.

(* every operation on such a pair is refused, or is the operation of Model/Evmutil.v, or is a
   transfer() that returned false (the ledger is written back unchanged) *)
Theorem C10_old_style_token_cases :
  forall e nr s o, nr_wf e nr -> nonneg s ->
  xstep e nr s o = Err \/ xstep e nr s o = step e s o \/
  exists c, nr c = true /\ (c < next s)%nat /\ xstep e nr s o = Ok (set_erc s c (erc s c)) tt.
Proof. exact xstep_cases. Qed.
Print Assumptions C10_old_style_token_cases.

(* hence the module invariant, the value ranges and the backing of every pair — the old-style ones
   included — hold after every history of transactions *)
Theorem C10_invariant_all_histories_old_style_tokens :
  forall e nr txs s, env_wf e -> nr_wf e nr -> Inv e s -> nonneg s -> Forall (Forall (op_wf e)) txs ->
  Inv e (xrun_txs e nr s txs) /\ nonneg (xrun_txs e nr s txs).
Proof. intros e nr txs s. exact (xrun_txs_inv e nr txs s). Qed.
Print Assumptions C10_invariant_all_histories_old_style_tokens.

Theorem C10_old_style_pair_backed :
  forall e nr txs s c, env_wf e -> nr_wf e nr -> Inv e s -> nonneg s -> Forall (Forall (op_wf e)) txs ->
  nr c = true ->
  sup (xrun_txs e nr s txs) (pair_denom e c) * kf e (pair_denom e c) <= ebal (erc (xrun_txs e nr s txs) c) (macc e).
Proof. intros e nr txs s c H1 H2 H3 H4 H5 H6. exact (nr_pair_backed e nr txs s c H1 H2 H3 H4 H5 H6). Qed.
Print Assumptions C10_old_style_pair_backed.

Theorem C10_failed_changes_nothing_old_style :
  forall e nr s o, (forall s' u, xstep e nr s o <> Ok s' u) -> xstep' e nr s o = s.
Proof. exact xstep_failed_changes_nothing. Qed.
Print Assumptions C10_failed_changes_nothing_old_style.

(* What the EXACT comparison protects against: with the expected end balance clamped at zero
   ("balances are uint256") an initiator holding no tokens converts 500 units — coins are minted,
   nothing is locked (supply 1100 over 600 locked tokens) — while the model of the code refuses. *)
Theorem C10_clamped_check_mints_unbacked :
  Inv nrw_env nrw_init /\ nonneg nrw_init /\
  conv_erc20_to_coin_nr nrw_env nrw_init 1%nat 1%nat 0%nat 500 = Err /\
  match conv_erc20_to_coin_nr_clamped nrw_env nrw_init 1%nat 1%nat 0%nat 500 with
  | Ok s' _ => sup s' 1%nat = 1100 /\ ebal (erc s' 0%nat) 2%nat = 600 /\ bal s' 1%nat 1%nat = 500
  | _ => False
  end.
Proof. exact clamped_check_mints_unbacked. Qed.
Print Assumptions C10_clamped_check_mints_unbacked.

(* non-vacuity: in the same world the holder of 400 tokens converts exactly 400 (accepted), 401 is
   refused, and a plain transfer of more than the balance "succeeds" moving nothing *)
Example C10_old_style_nonvacuous :
  nr_wf nrw_env nrw_nr /\
  class_of (xstep nrw_env nrw_nr nrw_init (ConvERC20ToCoin false 0 1 0 401)%nat) = RErr /\
  match xstep nrw_env nrw_nr nrw_init (ConvERC20ToCoin false 0 1 0 400)%nat with
  | Ok s' _ => sup s' 1%nat = 1000 /\ ebal (erc s' 0%nat) 2%nat = 1000 /\ ebal (erc s' 0%nat) 0%nat = 0
  | _ => False
  end /\
  match xstep nrw_env nrw_nr nrw_init (ErcTransfer 0 0 1 401)%nat with
  | Ok s' _ => ebal (erc s' 0%nat) 0%nat = 400 /\ ebal (erc s' 0%nat) 1%nat = 0
  | _ => False
  end.
Proof.
  split.
  - intros c Hc. unfold nrw_nr in Hc. apply Nat.eqb_eq in Hc. subst. split; [cbn; lia|reflexivity].
  - repeat split; vm_compute; reflexivity.
Qed.

(** * Amounts at and above the machine-word boundaries, addresses that are not 20 bytes long

      Every theorem above is over unbounded [Z] and over [ABadLen] = any byte string whose length is
      not 20 (19, 21 or the 32 bytes of a left-padded ABI word).  Non-vacuity at the inputs the
      harness drives on purpose: an ERC20 amount of 20*10^18 + 7 (>= 2^64) and of exactly 2^64 of a
      bep3 pair lock floor(x/10^10)*10^10 — the dust (7; 2^64 mod 10^10 = 3709551616) stays with the
      user and the coin supply times 10^10 equals what is locked; a list that names the contract of an
      enabled pair a second time under a byte string of another length is refused. *)
Definition ex_state_big : state :=
  mk_state [[0; 0; 500; 0]; [0; 0; 40; 0]; [0; 0; 0; 0]; [0; 0; 0; 0]] [0; 0; 540; 0]
           [(2 ^ 64 + 20000000000000000007, [20000000000000000007; 2 ^ 64; 0; 0]); (90, [50; 40; 0; 0]); (0, [77; 0; 0; 0])]
           [] [(0, 0); (1, 1); (2, 3)]%nat [2%nat].

Example C10_word_boundary_nonvacuous :
  let P := fun c d => mkPraw (ACtr c) (Some d) in
  let T := fun d => mkTraw (Some d) true (Some d) true in
  let o1 := (ConvERC20ToCoin false 0 1 0 20000000000000000007)%nat in
  let o2 := (ConvERC20ToCoin false 1 0 0 (2 ^ 64))%nat in
  let s1 := step' ex_env ex_state_big o1 in
  let s2 := step' ex_env s1 o2 in
  class_of (step ex_env ex_state_big o1) = ROk /\ class_of (step ex_env s1 o2) = ROk /\
  (ebal (erc s1 0) 0, ebal (erc s1 0) 2, bal s1 1 0, sup s1 0)%nat = (7, 20000000000000000000, 2000000000, 2000000000) /\
  (ebal (erc s2 0) 1, ebal (erc s2 0) 2, bal s2 0 0, sup s2 0)%nat = (3709551616, 38446744070000000000, 1844674407, 3844674407) /\
  sup s2 0%nat * 10 ^ 10 = ebal (erc s2 0%nat) 2%nat /\
  inv_b ex_env s2 = true /\
  step ex_env s2 (SetParams [P 0 0; P 1 1; mkPraw ABadLen (Some 2)]%nat [T 2%nat]) = Err /\
  class_of (step ex_env s2 (SetParams [P 0 0; P 1 1]%nat [T 2%nat])) = ROk.
Proof. cbv zeta. repeat split; vm_compute; reflexivity. Qed.
