(* C10 — evmutil: converted assets are always fully backed on the other side.
   Property theorems only; proofs are in Proofs/Evmutil.v. *)
From Kava Require Import Base.Prelude Model.Erc20 Model.Evmutil Proofs.Evmutil.

(* Every history of the four conversion messages (or direct keeper calls),
   ERC20 transfers and mints, bank sends and parameter changes, none of them
   signed by the module account, preserves the module invariant. *)
Theorem C10_invariant_all_histories :
  forall e ops s, env_wf e -> Inv e s -> Forall (op_wf e) ops -> Inv e (run e s ops).
Proof. intros e ops s. exact (run_inv e ops s). Qed.
Print Assumptions C10_invariant_all_histories.

(* For every cosmos coin with a module-deployed ERC20 the ERC20 total supply
   equals the module account's balance of that coin — after every history. *)
Theorem C10_cosmos_native_backed :
  forall e ops s d c, env_wf e -> Inv e s -> Forall (op_wf e) ops ->
  reg (run e s ops) d = Some c ->
  etot (erc (run e s ops) c) = bal (run e s ops) (macc e) d.
Proof. exact cosmos_native_backed. Qed.
Print Assumptions C10_cosmos_native_backed.

(* For every enabled pair the coin supply, times 10^10 for the bep3 assets,
   never exceeds the ERC20 tokens held by the module's EVM address. *)
Theorem C10_evm_native_backed :
  forall e ops s c, env_wf e -> Inv e s -> Forall (op_wf e) ops ->
  pair_enabled e (run e s ops) c = true ->
  sup (run e s ops) (pair_denom e c) * (if is_bep3 e (pair_denom e c) then 10 ^ 10 else 1)
    <= ebal (erc (run e s ops) c) (macc e).
Proof. exact evm_native_backed. Qed.
Print Assumptions C10_evm_native_backed.
