(* C10 — evmutil: converted assets are always fully backed on the other side.
   Property theorems only; proofs are in Proofs/Evmutil.v. *)
From Kava Require Import Base.Prelude Model.Erc20 Model.Evmutil Proofs.Evmutil.

(** * Backing, for all histories *)

(* Every history of the four conversion messages (or direct keeper calls),
   ERC20 transfers and mints, bank sends and parameter changes, none of them
   signed by the module account, preserves the module invariant. *)
Theorem C10_invariant_all_histories :
  forall e ops s, env_wf e -> Inv e s -> Forall (op_wf e) ops -> Inv e (run e s ops).
Proof. intros e ops s. exact (run_inv e ops s). Qed.
Print Assumptions C10_invariant_all_histories.

(* For every cosmos coin with a module-deployed ERC20 the ERC20 total supply
   equals the module account's balance of that coin — after every history. *)
Theorem C10_cosmos_native_backed :
  forall e ops s d c, env_wf e -> Inv e s -> Forall (op_wf e) ops ->
  reg (run e s ops) d = Some c ->
  etot (erc (run e s ops) c) = bal (run e s ops) (macc e) d.
Proof. exact cosmos_native_backed. Qed.
Print Assumptions C10_cosmos_native_backed.

(* For every enabled pair the coin supply, times 10^10 for the bep3 assets,
   never exceeds the ERC20 tokens held by the module's EVM address. *)
Theorem C10_evm_native_backed :
  forall e ops s c, env_wf e -> Inv e s -> Forall (op_wf e) ops ->
  pair_enabled e (run e s ops) c = true ->
  sup (run e s ops) (pair_denom e c) * (if is_bep3 e (pair_denom e c) then 10 ^ 10 else 1)
    <= ebal (erc (run e s ops) c) (macc e).
Proof. exact evm_native_backed. Qed.
Print Assumptions C10_evm_native_backed.

(* Bank balances and ERC20 balances stay non-negative and total supplies below
   2^256 (the range hypothesis of the round trips is reachable-state closed). *)
Theorem C10_balances_in_range_all_histories :
  forall e ops s, nonneg s -> Forall (op_wf e) ops -> nonneg (run e s ops).
Proof. intros e ops s. exact (run_nonneg e ops s). Qed.
Print Assumptions C10_balances_in_range_all_histories.

(** * A conversion debits the initiator and credits the receiver the same value;
      nothing else changes (dlt b x = if b then x else 0) *)

(* ConvertCosmosCoinToERC20: x coins initiator -> module account, x wrapper
   tokens minted to the receiver (wrapper deployed and registered on first use). *)
Theorem C10_conversion_value_cosmos_to_erc20 :
  forall e s i r d x s',
  conv_cosmos_to_erc20 e s i r d x = Ok s' tt -> 0 <= x < U256 ->
  allowed s d = true /\ (x = 0 \/ x <= bal s i d) /\
  exists c, reg s' d = Some c /\
    ((reg s d = Some c /\ reg s' = reg s /\ next s' = next s) \/
     (reg s d = None /\ c = next s /\ reg s' = upd (reg s) d (Some c) /\ next s' = S (next s))) /\
    etot (wl s d) + x < U256 /\
    (forall a, ebal (erc s' c) a = ebal (wl s d) a + dlt (Nat.eqb a r) x) /\
    etot (erc s' c) = etot (wl s d) + x /\
    (forall c', c' <> c -> erc s' c' = erc s c') /\
    (forall a d', bal s' a d' = bal s a d' - dlt (Nat.eqb a i && Nat.eqb d' d) x
                                          + dlt (Nat.eqb a (macc e) && Nat.eqb d' d) x) /\
    sup s' = sup s /\ same_params s s'.
Proof. exact conv_cosmos_to_erc20_spec. Qed.
Print Assumptions C10_conversion_value_cosmos_to_erc20.

(* ConvertCosmosCoinFromERC20: x wrapper tokens of the initiator burned, x coins
   module account -> receiver. *)
Theorem C10_conversion_value_cosmos_from_erc20 :
  forall e s i r d x s',
  conv_cosmos_from_erc20 e s i r d x = Ok s' tt -> 0 <= x < U256 ->
  exists c, reg s d = Some c /\ blocked e r = false /\ x <= ebal (erc s c) i /\
    (x = 0 \/ x <= bal s (macc e) d) /\
    (forall a, ebal (erc s' c) a = ebal (erc s c) a - dlt (Nat.eqb a i) x) /\
    etot (erc s' c) = etot (erc s c) - x /\
    (forall c', c' <> c -> erc s' c' = erc s c') /\
    (forall a d', bal s' a d' = bal s a d' - dlt (Nat.eqb a (macc e) && Nat.eqb d' d) x
                                          + dlt (Nat.eqb a r && Nat.eqb d' d) x) /\
    sup s' = sup s /\ reg s' = reg s /\ next s' = next s /\ same_params s s'.
Proof. exact conv_cosmos_from_erc20_spec. Qed.
Print Assumptions C10_conversion_value_cosmos_from_erc20.

(* ConvertERC20ToCoin: lock = mint * k tokens initiator -> module EVM address,
   mint coins minted to the receiver (k = 10^10, mint = floor(x/10^10) for bep3; else k = 1, mint = x). *)
Theorem C10_conversion_value_erc20_to_coin :
  forall e s i r c x s',
  conv_erc20_to_coin e s i r c x = Ok s' tt ->
  let d := pair_denom e c in
  let mint := if is_bep3 e d then x / K10 else x in
  let lock := mint * kf e d in
  (c < npair e)%nat /\ enabled s c = true /\ blocked e r = false /\
  (is_bep3 e d = true -> mint <> 0) /\
  0 <= lock < U256 /\ lock <= ebal (erc s c) i /\
  (forall a, ebal (erc s' c) a = ebal (erc s c) a - dlt (Nat.eqb a i) lock + dlt (Nat.eqb a (macc e)) lock) /\
  etot (erc s' c) = etot (erc s c) /\
  (forall c', c' <> c -> erc s' c' = erc s c') /\
  (forall a d', bal s' a d' = bal s a d' + dlt (Nat.eqb a r && Nat.eqb d' d) mint) /\
  (forall d', sup s' d' = sup s d' + dlt (Nat.eqb d' d) mint) /\
  reg s' = reg s /\ next s' = next s /\ same_params s s'.
Proof. exact conv_erc20_to_coin_spec. Qed.
Print Assumptions C10_conversion_value_erc20_to_coin.

(* ConvertCoinToERC20: x coins of the initiator burned, x * k tokens module EVM
   address -> receiver. *)
Theorem C10_conversion_value_coin_to_erc20 :
  forall e s i r d x s',
  conv_coin_to_erc20 e s i r d x = Ok s' tt -> i <> macc e ->
  exists c, pair_of_denom e s d = Some c /\
  let unlock := x * kf e d in
  (x = 0 \/ x <= bal s i d) /\
  0 <= unlock < U256 /\ unlock <= ebal (erc s c) (macc e) /\
  (forall a, ebal (erc s' c) a = ebal (erc s c) a - dlt (Nat.eqb a (macc e)) unlock + dlt (Nat.eqb a r) unlock) /\
  etot (erc s' c) = etot (erc s c) /\
  (forall c', c' <> c -> erc s' c' = erc s c') /\
  (forall a d', bal s' a d' = bal s a d' - dlt (Nat.eqb a i && Nat.eqb d' d) x) /\
  (forall d', sup s' d' = sup s d' - dlt (Nat.eqb d' d) x) /\
  reg s' = reg s /\ next s' = next s /\ same_params s s'.
Proof. exact conv_coin_to_erc20_spec. Qed.
Print Assumptions C10_conversion_value_coin_to_erc20.

(** * A round trip restores the original balances (all four directions) *)

Theorem C10_round_trip_cosmos :
  forall e s i r d x s1,
  env_wf e -> nonneg s -> 0 <= x < U256 -> blocked e i = false ->
  conv_cosmos_to_erc20 e s i r d x = Ok s1 tt ->
  exists s2, conv_cosmos_from_erc20 e s1 r i d x = Ok s2 tt /\
    (forall a d', bal s2 a d' = bal s a d') /\ sup s2 = sup s /\
    (forall a, ebal (wl s2 d) a = ebal (wl s d) a) /\ etot (wl s2 d) = etot (wl s d) /\
    (forall c', reg s2 d <> Some c' -> erc s2 c' = erc s c').
Proof. exact round_trip_cosmos. Qed.
Print Assumptions C10_round_trip_cosmos.

Theorem C10_round_trip_cosmos_back :
  forall e s i r d x s1,
  env_wf e -> nonneg s -> 0 <= x < U256 -> allowed s d = true ->
  conv_cosmos_from_erc20 e s i r d x = Ok s1 tt ->
  exists s2, conv_cosmos_to_erc20 e s1 r i d x = Ok s2 tt /\
    (forall a d', bal s2 a d' = bal s a d') /\ sup s2 = sup s /\
    (forall c a, ebal (erc s2 c) a = ebal (erc s c) a) /\
    (forall c, etot (erc s2 c) = etot (erc s c)) /\
    reg s2 = reg s /\ next s2 = next s.
Proof. exact round_trip_cosmos_back. Qed.
Print Assumptions C10_round_trip_cosmos_back.

Theorem C10_round_trip_evm :
  forall e s i r c x s1,
  env_wf e -> nonneg s -> 0 <= x -> i <> macc e ->
  conv_erc20_to_coin e s i r c x = Ok s1 tt ->
  let d := pair_denom e c in
  let mint := if is_bep3 e d then x / K10 else x in
  exists s2, conv_coin_to_erc20 e s1 r i d mint = Ok s2 tt /\
    (forall a d', bal s2 a d' = bal s a d') /\ (forall d', sup s2 d' = sup s d') /\
    (forall c' a, ebal (erc s2 c') a = ebal (erc s c') a) /\
    (forall c', etot (erc s2 c') = etot (erc s c')) /\
    reg s2 = reg s /\ next s2 = next s.
Proof. exact round_trip_evm. Qed.
Print Assumptions C10_round_trip_evm.

Theorem C10_round_trip_evm_back :
  forall e s i r d x s1,
  env_wf e -> nonneg s -> 0 <= x -> (is_bep3 e d = true -> 0 < x) ->
  i <> macc e -> r <> macc e -> blocked e i = false ->
  conv_coin_to_erc20 e s i r d x = Ok s1 tt ->
  exists c s2, pair_of_denom e s d = Some c /\
    conv_erc20_to_coin e s1 r i c (x * kf e d) = Ok s2 tt /\
    (forall a d', bal s2 a d' = bal s a d') /\ (forall d', sup s2 d' = sup s d') /\
    (forall c' a, ebal (erc s2 c') a = ebal (erc s c') a) /\
    (forall c', etot (erc s2 c') = etot (erc s c')) /\
    reg s2 = reg s /\ next s2 = next s.
Proof. exact round_trip_evm_back. Qed.
Print Assumptions C10_round_trip_evm_back.

(** * ERC20 dust smaller than one sdk unit is never taken from the user *)

Theorem C10_dust_kept :
  forall e s i r c x s',
  is_bep3 e (pair_denom e c) = true -> i <> macc e ->
  conv_erc20_to_coin e s i r c x = Ok s' tt ->
  let locked := x / K10 * K10 in
  ebal (erc s c) i - ebal (erc s' c) i = locked /\
  ebal (erc s' c) (macc e) - ebal (erc s c) (macc e) = locked /\
  0 <= x - locked < K10 /\
  bal s' r (pair_denom e c) = bal s r (pair_denom e c) + x / K10.
Proof. exact dust_kept. Qed.
Print Assumptions C10_dust_kept.

Theorem C10_dust_only_refused :
  forall e s i r c x,
  is_bep3 e (pair_denom e c) = true -> 0 <= x < K10 ->
  conv_erc20_to_coin e s i r c x = Err.
Proof. exact dust_only_refused. Qed.
Print Assumptions C10_dust_only_refused.

(** * A failed or disabled conversion changes nothing on either side *)

Theorem C10_failed_changes_nothing :
  forall e s o, (forall s' u, step e s o <> Ok s' u) -> step' e s o = s.
Proof. exact step'_failed. Qed.
Print Assumptions C10_failed_changes_nothing.

Theorem C10_disabled_pair_refused_erc20_to_coin :
  forall e s i r c x, pair_enabled e s c = false -> conv_erc20_to_coin e s i r c x = Err.
Proof. exact disabled_pair_refused_erc20_to_coin. Qed.
Print Assumptions C10_disabled_pair_refused_erc20_to_coin.

Theorem C10_disabled_pair_refused_coin_to_erc20 :
  forall e s i r d x,
  (forall c, (c < npair e)%nat -> pair_denom e c = d -> enabled s c = false) ->
  conv_coin_to_erc20 e s i r d x = Err.
Proof. exact disabled_pair_refused_coin_to_erc20. Qed.
Print Assumptions C10_disabled_pair_refused_coin_to_erc20.

Theorem C10_not_allowed_denom_refused :
  forall e s i r d x, allowed s d = false -> conv_cosmos_to_erc20 e s i r d x = Err.
Proof. exact not_allowed_refused. Qed.
Print Assumptions C10_not_allowed_denom_refused.

Theorem C10_unregistered_denom_refused :
  forall e s i r d x, reg s d = None -> conv_cosmos_from_erc20 e s i r d x = Err.
Proof. exact unregistered_refused. Qed.
Print Assumptions C10_unregistered_denom_refused.

(* amounts above the initiator's balance *)
Theorem C10_overdraw_refused_coin_to_erc20 :
  forall e s i r d x s',
  i <> macc e -> bal s i d < x -> 0 < x -> conv_coin_to_erc20 e s i r d x <> Ok s' tt.
Proof. exact overdraw_refused_coin_to_erc20. Qed.
Print Assumptions C10_overdraw_refused_coin_to_erc20.

Theorem C10_overdraw_refused_erc20_to_coin :
  forall e s i r c x s',
  let d := pair_denom e c in
  let lock := (if is_bep3 e d then x / K10 else x) * kf e d in
  ebal (erc s c) i < lock -> conv_erc20_to_coin e s i r c x <> Ok s' tt.
Proof. exact overdraw_refused_erc20_to_coin. Qed.
Print Assumptions C10_overdraw_refused_erc20_to_coin.

Theorem C10_overdraw_refused_cosmos_to_erc20 :
  forall e s i r d x s',
  0 < x < U256 -> bal s i d < x -> conv_cosmos_to_erc20 e s i r d x <> Ok s' tt.
Proof. exact overdraw_refused_cosmos_to_erc20. Qed.
Print Assumptions C10_overdraw_refused_cosmos_to_erc20.

Theorem C10_overdraw_refused_cosmos_from_erc20 :
  forall e s i r d x c,
  reg s d = Some c -> ebal (erc s c) i < x -> conv_cosmos_from_erc20 e s i r d x = Err.
Proof. exact overdraw_refused_cosmos_from_erc20. Qed.
Print Assumptions C10_overdraw_refused_cosmos_from_erc20.

(* coins are never paid out to a blocked address (module accounts) *)
Theorem C10_blocked_recipient_refused :
  forall e s i r x, blocked e r = true ->
  (forall c s', conv_erc20_to_coin e s i r c x <> Ok s' tt) /\
  (forall d s', conv_cosmos_from_erc20 e s i r d x <> Ok s' tt).
Proof. exact blocked_recipient_refused. Qed.
Print Assumptions C10_blocked_recipient_refused.

(* the balance-delta check: unlocking to the module's own EVM address (coins
   burned, nobody credited) is refused *)
Theorem C10_unlock_to_module_refused :
  forall e s i d x s',
  i <> macc e -> 0 < x -> conv_coin_to_erc20 e s i (macc e) d x <> Ok s' tt.
Proof. exact unlock_to_module_refused. Qed.
Print Assumptions C10_unlock_to_module_refused.

Theorem C10_no_panic : forall e s o, step e s o <> Panic.
Proof. exact step_no_panic. Qed.
Print Assumptions C10_no_panic.

(** * Non-vacuity *)

(* accounts 0,1 users, 2 the module (blocked); pair contract 0 <-> denom 0 (bep3),
   pair contract 1 <-> denom 1; denom 2 is an allowed cosmos coin *)
Definition ex_env : env := mk_env 3 3 2 [false; false; true] [0; 1]%nat [true; false; false].
Definition ex_state : state :=
  mk_state [[0; 0; 500]; [0; 0; 40]; [0; 0; 0]] [0; 0; 540]
           [(30000000007, [30000000007; 0; 0]); (90, [50; 40; 0])] [] [true; true] [false; false; true].

Example C10_hypotheses_satisfiable : env_wf ex_env /\ Inv ex_env ex_state /\ nonneg ex_state.
Proof.
  split; [|split].
  - split; [reflexivity|]. intros c c' Hc Hc' H. cbn in Hc, Hc'.
    destruct c as [|[|c]], c' as [|[|c']]; try lia; cbn in H; try reflexivity; discriminate.
  - unfold Inv. split; [cbn; lia|]. split; [intros d c H; discriminate|].
    split; [intros d d' c H; discriminate|]. split.
    + intros d. cbn. destruct d as [|[|[|[|d]]]]; reflexivity.
    + intros c Hc. cbn in Hc. destruct c as [|[|c]]; [vm_compute; discriminate|vm_compute; discriminate|lia].
  - split; [|split].
    + intros a d. destruct a as [|[|[|[|a]]]], d as [|[|[|[|d]]]]; vm_compute; discriminate.
    + intros c a. destruct c as [|[|[|c]]], a as [|[|[|[|a]]]]; vm_compute; discriminate.
    + intros c. destruct c as [|[|[|c]]]; vm_compute; reflexivity.
Qed.

(* a history on that state: a bep3 conversion with dust, the way back, a
   cosmos-coin conversion that deploys the wrapper, a refused dust-only
   conversion and a refused conversion of a disabled pair *)
Example C10_history_nonvacuous :
  let ops := [ConvERC20ToCoin false 0 1 0 25000000003;
              ConvCosmosToERC20 false 0 1 2 120;
              ConvCoinToERC20 false 1 0 0 1;
              ConvERC20ToCoin false 0 1 0 9999999999;
              SetParams [true; false] [false; false; true];
              ConvERC20ToCoin false 1 0 1 10]%nat in
  let s := run ex_env ex_state ops in
  Forall (op_wf ex_env) ops /\
  map (fun o => class_of (step ex_env ex_state o)) [nth 0 ops (SetParams [] [])] = [ROk] /\
  (ebal (erc s 0) 0, ebal (erc s 0) 2, bal s 1 0, sup s 0)%nat = (20000000007, 10000000000, 1, 1) /\
  reg s 2%nat = Some 2%nat /\ (etot (erc s 2), bal s 2 2, ebal (erc s 2) 1)%nat = (120, 120, 120) /\
  step ex_env s (ConvERC20ToCoin false 0 1 0 9999999999) = Err /\
  step ex_env s (ConvERC20ToCoin false 1 0 1 10) = Err /\
  inv_b ex_env s = true.
Proof.
  cbv zeta. split.
  - repeat constructor; unfold op_wf; cbn; discriminate.
  - repeat split; vm_compute; reflexivity.
Qed.
