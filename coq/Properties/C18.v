(* C18 — price feed: the current price of an active market is the median of the live
   (unexpired) oracle posts, one per oracle; no price, no action in cdp and hard.
   Property theorems only; proofs are in Proofs/Pricefeed.v. *)
From Coq Require Import Permutation Sorted.
From Kava Require Import Base.Prelude Base.Dec Model.Pricefeed Proofs.Pricefeed.
(* the Dec differential of every run evaluates its case files against Model/DecCheck;
   requiring it here makes it part of this property's build closure (clean thorough-tier rebuild) *)
From Kava Require Model.DecCheck.
Local Open Scope Z_scope.

(** ** The median is a function of the multiset of prices *)

(* independent of the order in which the store iterator delivers the posts *)
Theorem C18_median_spec :
  forall l l', Permutation l l' -> calculate_median_price l = calculate_median_price l'.
Proof. exact calculate_median_perm. Qed.
Print Assumptions C18_median_spec.

(* independent of the sorting algorithm (sort.Slice is not stable): whichever sorted
   arrangement of the prices it produces, the result is the middle of that arrangement *)
Theorem C18_median_any_sort :
  forall l s, Permutation s l -> StronglySorted Z.le s -> median l = middle s.
Proof. exact median_any_sort. Qed.
Print Assumptions C18_median_any_sort.

Theorem C18_median_odd_is_middle_element :
  forall l, Nat.odd (length l) = true ->
  exists s, Permutation s l /\ StronglySorted Z.le s /\ median l = nth (length l / 2) s 0.
Proof. exact median_odd_is_element. Qed.
Print Assumptions C18_median_odd_is_middle_element.

Theorem C18_median_even_is_mean_of_middle_two :
  forall l, Nat.even (length l) = true ->
  exists s, Permutation s l /\ StronglySorted Z.le s /\
    median l = mean_price (nth (length l / 2 - 1) s 0) (nth (length l / 2) s 0).
Proof. exact median_even_is_mean. Qed.
Print Assumptions C18_median_even_is_mean_of_middle_two.

(* sum.Quo(2) on mantissas: exact when the sum is even, otherwise the even neighbour of the half *)
Theorem C18_mean_exact :
  forall a b, 0 <= a -> 0 <= b ->
  2 * mean_price a b = a + b \/
  (Z.odd (a + b) = true /\ Z.even (mean_price a b) = true /\
   (2 * mean_price a b = a + b + 1 \/ 2 * mean_price a b = a + b - 1)).
Proof. exact mean_exact. Qed.
Print Assumptions C18_mean_exact.

Theorem C18_median_between_posted_prices :
  forall l, l <> [] -> (forall x, In x l -> 0 <= x) ->
  exists lo hi, In lo l /\ In hi l /\ lo <= median l <= hi.
Proof. exact median_between. Qed.
Print Assumptions C18_median_between_posted_prices.

(* the defining property of a median, by rank: at least half of the prices are <= it and
   at least half are >= it *)
Theorem C18_median_rank_odd :
  forall l, Nat.odd (length l) = true ->
  In (median l) l /\
  (length l < 2 * count_le (median l) l)%nat /\ (length l < 2 * count_ge (median l) l)%nat.
Proof. exact median_rank_odd. Qed.
Print Assumptions C18_median_rank_odd.

(* even count: the mean of the two values lo <= hi that split the prices in halves
   (no price lies strictly between them) *)
Theorem C18_median_rank_even :
  forall l, Nat.even (length l) = true -> l <> [] ->
  exists lo hi, In lo l /\ In hi l /\ lo <= hi /\ median l = mean_price lo hi /\
    (length l <= 2 * count_le lo l)%nat /\ (length l <= 2 * count_ge hi l)%nat /\
    (forall y, In y l -> y <= lo \/ hi <= y).
Proof. exact median_rank_even. Qed.
Print Assumptions C18_median_rank_even.

(** ** After each block *)

(* the prices that enter: exactly the stored entries of the market whose expiry is
   strictly after the block time, one per oracle *)
Theorem C18_live_only_unexpired :
  forall e s m p, In p (live e s m) <->
    exists o ex, (o < noracles e)%nat /\ raw s m o = Some (p, ex) /\ now s < ex.
Proof. exact in_live. Qed.
Print Assumptions C18_live_only_unexpired.

(* current price of an active market after the end blocker = median of the unexpired
   prices; unavailable when there is none (or when that median is zero) *)
Theorem C18_current_is_median :
  forall e s s' out m,
  step e s EndBlock = Ok s' out -> mem m (active_ids (markets s)) = true ->
  get_current_price s' m =
    match live e s m with
    | [] => None
    | l => if median l =? 0 then None else Some (median l)
    end.
Proof. exact end_block_median. Qed.
Print Assumptions C18_current_is_median.

Theorem C18_none_unexpired_unavailable :
  forall e s s' out m,
  step e s EndBlock = Ok s' out -> mem m (active_ids (markets s)) = true ->
  (forall o p ex, (o < noracles e)%nat -> raw s m o = Some (p, ex) -> ex <= now s) ->
  get_current_price s' m = None.
Proof.
  intros e s s' out m E Hm Hexp. rewrite (end_block_median e s s' out m E Hm).
  destruct (live e s m) as [|p l] eqn:L; [reflexivity|].
  assert (Hin : In p (live e s m)) by (rewrite L; left; reflexivity).
  apply in_live in Hin. destruct Hin as [o [ex [Ho [R Hex]]]]. specialize (Hexp o p ex Ho R). lia.
Qed.
Print Assumptions C18_none_unexpired_unavailable.

(* with positive posts the price is available and is that median *)
Theorem C18_available_when_live :
  forall e s s' out m,
  step e s EndBlock = Ok s' out -> mem m (active_ids (markets s)) = true ->
  live e s m <> [] -> (forall p, In p (live e s m) -> 0 < p) ->
  get_current_price s' m = Some (median (live e s m)) /\ 0 < median (live e s m).
Proof. exact end_block_available. Qed.
Print Assumptions C18_available_when_live.

Theorem C18_end_block_never_panics : forall e s, step e s EndBlock <> Panic.
Proof. exact step_no_panic_end. Qed.
Print Assumptions C18_end_block_never_panics.

(* expired entries never influence the result: two stores that differ only in expired
   entries give the same current prices *)
Theorem C18_expired_ignored :
  forall e s1 s2 s1' s2' o1 o2,
  now s1 = now s2 -> markets s1 = markets s2 -> (forall m, cur s1 m = cur s2 m) ->
  (forall m o, live_of (now s1) (raw s1 m o) = live_of (now s1) (raw s2 m o)) ->
  step e s1 EndBlock = Ok s1' o1 -> step e s2 EndBlock = Ok s2' o2 ->
  forall m, cur s1' m = cur s2' m.
Proof. exact expired_ignored. Qed.
Print Assumptions C18_expired_ignored.

Theorem C18_expired_entry_irrelevant :
  forall e s m o v s1 s2 o1 o2,
  expired_or_absent (now s) (raw s m o) -> expired_or_absent (now s) v ->
  step e s EndBlock = Ok s1 o1 ->
  step e (with_raw s (upd2 (raw s) m o v)) EndBlock = Ok s2 o2 ->
  forall x, cur s1 x = cur s2 x.
Proof. exact expired_entry_irrelevant. Qed.
Print Assumptions C18_expired_entry_irrelevant.

(* the price computed at the end of a block stays until the next end blocker *)
Theorem C18_price_fixed_until_next_end_block :
  forall e ops s, forallb keeps_cur ops = true ->
  forall m, get_current_price (run e s ops) m = get_current_price s m.
Proof. intros e ops s H m. unfold get_current_price. rewrite (run_cur e ops s H). reflexivity. Qed.
Print Assumptions C18_price_fixed_until_next_end_block.

(** ** Posting *)

Theorem C18_post_expired_refused :
  forall e s o m p ex, ex <= now s -> step e s (Post o m p ex) = Err.
Proof.
  intros e s o m p ex H. cbn [step]. destruct (_ && _); [|reflexivity]. apply post_expired_refused; exact H.
Qed.
Print Assumptions C18_post_expired_refused.

(* an accepted post comes from an oracle of that market, is not negative, expires
   strictly after the block time, and overwrites exactly one entry *)
Theorem C18_post_accepted :
  forall e s o m p ex s' out, step e s (Post o m p ex) = Ok s' out ->
  0 <= p /\ now s < ex /\
  (exists k, find_market m (markets s) = Some k /\ mem o (m_oracles k) = true) /\
  raw s' m o = Some (p, ex) /\
  (forall m' o', (m', o') <> (m, o) -> raw s' m' o' = raw s m' o') /\
  cur s' = cur s.
Proof.
  intros e s o m p ex s' out E. cbn [step] in E. destruct (_ && _); [|discriminate].
  destruct (post_ok_inv _ _ _ _ _ _ _ E) as [A [B [C _]]].
  destruct (post_overwrites _ _ _ _ _ _ _ E) as [D [F [G _]]]. repeat split; auto.
Qed.
Print Assumptions C18_post_accepted.

(* one entry per (market, oracle): it holds that oracle's latest accepted post, whatever
   came before and whatever other operations follow; so at most one price per oracle is live *)
Theorem C18_one_per_oracle_latest :
  forall e s ops o m p ex ops' s1 out,
  step e (run e s ops) (Post o m p ex) = Ok s1 out ->
  forallb (fun x => negb (is_post_for m o x)) ops' = true ->
  raw (run e s (ops ++ Post o m p ex :: ops')) m o = Some (p, ex).
Proof. exact raw_is_latest_post. Qed.
Print Assumptions C18_one_per_oracle_latest.

Theorem C18_at_most_one_price_per_oracle :
  forall e s m, (length (live e s m) <= noracles e)%nat.
Proof. exact live_length. Qed.
Print Assumptions C18_at_most_one_price_per_oracle.

(** ** SetCurrentPrices and SetCurrentPricesForAllMarkets *)

Theorem C18_two_implementations_agree :
  forall e s s' out m,
  step e s EndBlock = Ok s' out -> mem m (active_ids (markets s)) = true ->
  cur (fst (set_one e s m)) m = cur s' m /\
  (snd (set_one e s m) = ROk <-> live e s m <> []) /\
  snd (set_one e s m) <> RPanic /\
  (forall x, x <> m -> cur (fst (set_one e s m)) x = cur s x).
Proof. exact two_implementations_agree. Qed.
Print Assumptions C18_two_implementations_agree.

(** ** Markets that are not active: the end blocker does not touch their price.
    The statement "no market ever shows a price computed from expired posts" is
    therefore false for a market that was deactivated (or removed from the params):
    its last price stays readable, GetCurrentPrice keeps returning it.  The
    property is about active markets; this pair records the boundary. *)
Theorem C18_inactive_market_price_frozen :
  forall e s s' out m,
  step e s EndBlock = Ok s' out -> mem m (active_ids (markets s)) = false -> cur s' m = cur s m.
Proof. exact end_block_inactive. Qed.
Print Assumptions C18_inactive_market_price_frozen.

Definition ex_env : env := mkEnv 2 3 [(0%nat, 1%nat)].

Theorem C18_no_stale_price_any_market_refuted :
  exists e s s' out m p,
    step e s EndBlock = Ok s' out /\
    (forall o q ex, raw s m o = Some (q, ex) -> ex <= now s) /\     (* every post of m has expired *)
    get_current_price s' m = Some p.                                (* and yet a price is served *)
Proof.
  exists ex_env.
  exists (mk_state 100 [mkMarket 0 false [0%nat]] [(0%nat, 0%nat, 7, 50)] [(0%nat, 7)] [true; false]).
  eexists. exists []. exists 0%nat, 7. split; [vm_compute; reflexivity|]. split; [|vm_compute; reflexivity].
  intros o q ex. cbn. unfold upd2. destruct (Nat.eqb 0 0 && Nat.eqb o 0); [|discriminate].
  intros E; injection E as <- <-. lia.
Qed.
Print Assumptions C18_no_stale_price_any_market_refuted.

(** ** Consumers fail safe *)

(* x/cdp keeps a per-market status flag, refreshed by its begin blocker; at every
   point of every block (any transactions in between) the flags agree with the
   availability of the current price *)
Theorem C18_cdp_status_follows_availability :
  forall e s t txs, forallb is_tx txs = true ->
  synced e (run e (step' e s (BeginBlock t)) txs).
Proof. exact synced_in_block. Qed.
Print Assumptions C18_cdp_status_follows_availability.

(* general form: within a block, an entry point that consults the status or the price
   of a market whose price is unavailable returns an error, whatever the rest of it
   would have done *)
Theorem C18_consumers_fail_safe :
  forall e s t txs c rest sts prs m,
  forallb is_tx txs = true ->
  needs e c = Some (sts, prs) -> In m sts \/ In m prs ->
  get_current_price (run e (step' e s (BeginBlock t)) txs) m = None ->
  step e (run e (step' e s (BeginBlock t)) txs) (Consume c rest) = Err.
Proof.
  intros e s t txs c rest sts prs m H N Hin G. cbn [step].
  eapply consume_fail_safe; [apply synced_in_block; exact H|exact N|exact Hin|].
  apply avail_false_iff; exact G.
Qed.
Print Assumptions C18_consumers_fail_safe.

(* cdp creation, deposit and withdrawal: ValidateCollateral; either price of the
   collateral type missing *)
Theorem C18_cdp_create_deposit_withdraw_refused :
  forall e s t txs ct sp lq rest rz,
  forallb is_tx txs = true -> nth_error (collaterals e) ct = Some (sp, lq) ->
  let s1 := run e (step' e s (BeginBlock t)) txs in
  get_current_price s1 sp = None \/ get_current_price s1 lq = None ->
  step e s1 (Consume (CdpCreate ct) rest) = Err /\
  step e s1 (Consume (CdpDeposit ct) rest) = Err /\
  step e s1 (Consume (CdpWithdraw ct rz) rest) = Err.
Proof.
  intros e s t txs ct sp lq rest rz H Hct s1 Hmiss.
  assert (Sy : synced e s1) by (apply synced_in_block; exact H).
  assert (Hm : avail s1 sp = false \/ avail s1 lq = false).
  { destruct Hmiss as [G|G]; [left|right]; apply avail_false_iff; exact G. }
  repeat split; cbn [step];
    (eapply cdp_validate_collateral_fail_safe; [exact Sy|exact Hct|cbn [needs]; rewrite Hct; reflexivity|exact Hm]).
Qed.
Print Assumptions C18_cdp_create_deposit_withdraw_refused.

(* draw: the spot price is read directly (any state).  coll_zero = false: a stored CDP
   always has positive collateral (MsgCreateCDP.ValidateBasic; withdrawing everything
   fails the ratio check) *)
Theorem C18_cdp_draw_refused :
  forall e s ct sp lq rest, nth_error (collaterals e) ct = Some (sp, lq) ->
  get_current_price s sp = None -> step e s (Consume (CdpDraw ct false) rest) = Err.
Proof.
  intros e s ct sp lq rest Hct G. cbn [step].
  eapply (consume_needs_price e s _ rest [] [sp] sp); [cbn [needs]; rewrite Hct; reflexivity|left; reflexivity|].
  apply avail_false_iff; exact G.
Qed.
Print Assumptions C18_cdp_draw_refused.

Theorem C18_cdp_liquidate_refused :
  forall e s ct sp lq rest, nth_error (collaterals e) ct = Some (sp, lq) ->
  get_current_price s lq = None -> step e s (Consume (CdpLiquidate ct false) rest) = Err.
Proof.
  intros e s ct sp lq rest Hct G. cbn [step].
  eapply (consume_needs_price e s _ rest [] [lq] lq); [cbn [needs]; rewrite Hct; reflexivity|left; reflexivity|].
  apply avail_false_iff; exact G.
Qed.
Print Assumptions C18_cdp_liquidate_refused.

(* begin-block liquidation: the loop body reaches AccumulateInterest / LiquidateCdps for
   a collateral type only with both prices available *)
Theorem C18_cdp_begin_block_liquidation_needs_prices :
  forall e s t s' out ct sp lq,
  step e s (BeginBlock t) = Ok s' out -> nth_error (collaterals e) ct = Some (sp, lq) ->
  nth_error out ct = Some 1 ->
  (exists p, get_current_price s sp = Some p /\ p <> 0) /\ (exists q, get_current_price s lq = Some q /\ q <> 0).
Proof.
  intros e s t s' out ct sp lq E Hct Hfl. cbn [step] in E.
  destruct (begin_block e s t) as [s1 fl] eqn:B. injection E as <- <-.
  pose proof (begin_block_proceeds _ _ _ _ _ _ _ _ B Hct) as F.
  rewrite nth_error_map, F in Hfl. cbn [option_map] in Hfl.
  assert (Hb : avail s sp && avail s lq = true).
  { destruct (avail s sp && avail s lq); [reflexivity|cbn in Hfl; discriminate]. }
  apply andb_true_iff in Hb. destruct Hb as [A1 A2]. unfold avail in A1, A2.
  assert (G : forall m, (match get_current_price s m with Some _ => true | None => false end) = true ->
              exists p, get_current_price s m = Some p /\ p <> 0).
  { intros m Hm. destruct (get_current_price s m) as [p|] eqn:P; [|discriminate]. exists p; split; [reflexivity|].
    unfold get_current_price in P. destruct (cur s m) as [q|]; [|discriminate].
    destruct (Z.eqb_spec q 0); [discriminate|congruence]. }
  split; apply G; assumption.
Qed.
Print Assumptions C18_cdp_begin_block_liquidation_needs_prices.

(* hard borrow, withdraw, liquidate: every price looked up by ValidateBorrow /
   LoadLiquidationData (any state) *)
Theorem C18_hard_ops_refused :
  forall e s needed m rest, In m needed -> get_current_price s m = None ->
  step e s (Consume (HardBorrow needed) rest) = Err /\
  step e s (Consume (HardWithdraw needed) rest) = Err /\
  step e s (Consume (HardLiquidate needed) rest) = Err.
Proof.
  intros e s needed m rest Hin G. apply avail_false_iff in G.
  repeat split; cbn [step]; eapply consume_needs_price; eauto; reflexivity.
Qed.
Print Assumptions C18_hard_ops_refused.

(* conversely: whatever proceeds, proceeds with non-zero prices obtained from
   GetCurrentPrice and with every consulted status up *)
Theorem C18_consumer_proceeds_only_with_prices :
  forall e s c rest s' out, step e s (Consume c rest) = Ok s' out ->
  s' = s /\ rest = ROk /\
  exists sts prs, needs e c = Some (sts, prs) /\
    (forall m, In m sts -> status s m = true) /\
    (forall m, In m prs -> exists p, get_current_price s m = Some p /\ p <> 0).
Proof. intros e s c rest s' out. cbn [step]. apply consume_ok_all_available. Qed.
Print Assumptions C18_consumer_proceeds_only_with_prices.

(** ** Invariant over all histories: no negative price is ever stored *)
Theorem C18_no_negative_price_all_histories :
  forall e ops s, Inv s -> Inv (run e s ops).
Proof. exact run_inv. Qed.
Print Assumptions C18_no_negative_price_all_histories.

(** ** Non-vacuity *)

(* three oracles, one expired, a tie, an even count with an odd sum *)
Example C18_example_end_block :
  let s := mk_state 100 [mkMarket 0 true [0; 1; 2]%nat; mkMarket 1 true [0; 1]%nat]
             [(0%nat, 0%nat, 5, 101); (0%nat, 1%nat, 2, 100); (0%nat, 2%nat, 5, 200); (1%nat, 0%nat, 2, 150); (1%nat, 1%nat, 3, 150)]
             [] [false; false] in
  exists s', step ex_env s EndBlock = Ok s' [] /\
    get_current_price s' 0%nat = Some 5 /\       (* 2 has expired (expiry = block time): median of {5,5} *)
    get_current_price s' 1%nat = Some 2 /\       (* (2+3)/2 = 2.5e-18 -> even neighbour 2 *)
    Inv s /\ mem 0%nat (active_ids (markets s)) = true.
Proof.
  cbv zeta. eexists. split; [vm_compute; reflexivity|]. split; [vm_compute; reflexivity|].
  split; [vm_compute; reflexivity|]. split; [|reflexivity].
  split.
  - intros m o p ex. cbn. unfold upd2.
    repeat (destruct (_ && _); [intros E; injection E as <- _; lia|]). discriminate.
  - intros m p. cbn. discriminate.
Qed.

(* a block in which the spot price of the collateral is missing: the hypotheses of the
   fail-safe theorems are satisfiable, and with the price present the guard lets the
   operation through *)
Example C18_example_fail_safe :
  let s := mk_state 100 [mkMarket 0 true [0%nat]; mkMarket 1 true [0%nat]] [] [(0%nat, 0); (1%nat, 9)] [true; true] in
  let s1 := step' ex_env s (BeginBlock 101) in
  get_current_price s1 0%nat = None /\ status s1 0%nat = false /\
  step ex_env s1 (Consume (CdpDeposit 0) ROk) = Err /\
  (let s2 := step' ex_env (mk_state 100 [] [] [(0%nat, 4); (1%nat, 9)] [false; false]) (BeginBlock 101) in
   step ex_env s2 (Consume (CdpDeposit 0) ROk) = Ok s2 []).
Proof. cbv zeta. repeat split; vm_compute; reflexivity. Qed.
