(* C17 — committees enact only what their permissions allow, once, and only when
   passed.  Property theorems only; proofs are in Proofs/Json.v and Proofs/Committee.v. *)
From Kava Require Import Base.Prelude Base.Dec Model.Json Model.Committee Proofs.Json Proofs.Committee.
Local Open Scope string_scope.
Local Open Scope list_scope.
Local Open Scope Z_scope.

(** * 1. "an enacted parameter change alters only the fields listed as changeable" *)

(* Single-record parameters, full statement: for every schema, stored record,
   rule with sub-parameter restrictions and proposed document (ordered, possibly
   with duplicate keys), if allowsParamChange says yes and Subspace.Update stores
   st', then st' encodes a record that agrees with the current one on every field
   outside the allow-list. *)
Theorem C17_permission_sound_single :
  forall sch vf r ac inc st',
    schema_ok sch = true -> wt_rec sch r = true -> has_rules ac ->
    allows_change ac (RVal (enc_struct sch r)) (Some inc) = Some true ->
    apply_single sch vf (enc_struct sch r) inc = AOk st' ->
    exists r', st' = enc_struct sch r' /\ vf r' = true /\
      forall f, In f sch -> str_in (f_name f) (ac_single ac) = false ->
        bget (f_name f) r' (zero_k (f_kind f)) = bget (f_name f) r (zero_k (f_kind f)).
Proof. exact single_sound_full. Qed.
Print Assumptions C17_permission_sound_single.

(* Multi-record parameters, full statement: the stored array has as many
   records as the current one, and there is an injective assignment js of stored
   positions to the current records (taken in order) such that the stored record
   at js[n] carries the n-th current record's requirement key value and agrees
   with it on every field outside that requirement's allow-list. *)
Theorem C17_permission_sound_multi :
  forall sch vf rs ac inc st',
    schema_ok sch = true -> Forall (fun r => wt_rec sch r = true) rs -> rs <> [] -> has_rules ac ->
    allows_change ac (RVal (enc_slice sch rs)) (Some inc) = Some true ->
    apply_multi sch vf (enc_slice sch rs) inc = AOk st' ->
    exists rs' js, st' = enc_slice sch rs' /\ vf rs' = true /\ List.length rs' = List.length rs /\
      NoDup js /\ Forall2 (image_of sch (ac_multi ac) rs') rs js.
Proof. exact multi_sound_full. Qed.
Print Assumptions C17_permission_sound_multi.

(* ... hence no record is replaced or slipped in: every stored record is the
   image of exactly one current record (whose protected fields it preserves). *)
Theorem C17_every_stored_record_is_an_image :
  forall sch reqs rs rs' js,
    List.length rs' = List.length rs -> NoDup js -> Forall2 (image_of sch reqs rs') rs js ->
    forall j, (j < List.length rs')%nat ->
      exists n r, nth_error js n = Some j /\ nth_error rs n = Some r /\ image_of sch reqs rs' r j /\
        forall m, nth_error js m = Some j -> m = n.
Proof. exact multi_sound_onto. Qed.
Print Assumptions C17_every_stored_record_is_an_image.

(* cdp collateral types bnb-a and bnb-b (same denom); a rule keyed by denom that
   lets the committee change "type" only; the second record's debt limit is
   multiplied by 1000: both current records used to be compared with the first
   incoming record; now the second is paired with its own image and refused. *)
Definition w_coll (typ : string) (limit : Z) : jmap :=
  [("denom", JStr (SText "bnb")); ("type", JStr (SText typ));
   ("liquidation_ratio", JStr (SDec 1500000000000000000));
   ("debt_limit", JObj [("denom", JStr (SText "usdx")); ("amount", JStr (SInt limit))]);
   ("stability_fee", JStr (SDec 1000000000000000000)); ("auction_size", JStr (SInt 7000000000));
   ("liquidation_penalty", JStr (SDec 50000000000000000)); ("spot_market_id", JStr (SText "bnb:usd"));
   ("liquidation_market_id", JStr (SText "bnb:usd:30"));
   ("keeper_reward_percentage", JStr (SDec 10000000000000000));
   ("check_collateralization_index_count", JStr (SInt 10)); ("conversion_factor", JStr (SInt 8))].
Definition w_coll_ac : allowed_change := mkAC (PKnown 1) [] [mkReq "denom" (SText "bnb") ["type"]].
Definition w_coll_cur : list jmap := [w_coll "bnb-a" 500000000000; w_coll "bnb-b" 500000000000].

Example C17_shared_key_second_record_refused :
  allows_change w_coll_ac (RVal (enc_slice collateral_schema w_coll_cur))
    (Some (JArr [enc_struct collateral_schema (w_coll "bnb-a" 500000000000);
                 enc_struct collateral_schema (w_coll "bnb-b" 500000000000000)])) = Some false
  /\ (* while swapping the two types, which the rule allows, is accepted *)
  allows_change w_coll_ac (RVal (enc_slice collateral_schema w_coll_cur))
    (Some (JArr [enc_struct collateral_schema (w_coll "bnb-b" 500000000000);
                 enc_struct collateral_schema (w_coll "bnb-a" 500000000000)])) = Some true.
Proof. split; vm_compute; reflexivity. Qed.

(** * 2. life cycle *)

(* Submitting, voting and querying never apply a proposal's effects. *)
Theorem C17_submit_vote_no_effect :
  forall sls s o s' x, is_msg o -> step sls s o = Ok s' x ->
    params s' = params s /\ coms s' = coms s /\ bals s' = bals s /\ supply s' = supply s /\ now s' = now s /\
    height s' = height s /\ plan s' = plan s.
Proof. exact msg_no_effect. Qed.
Print Assumptions C17_submit_vote_no_effect.

(* Every close of a begin block - in particular every enactment - is justified
   by the committee, votes, balances and time the block started with: Passed or
   Invalid only if the tally passes and (deadline reached, or first-past-the-post);
   Failed only if the committee is gone or the deadline is reached and the tally fails. *)
Theorem C17_enacted_only_when_passed :
  forall sls s t s' evs, NoDup (map p_id (props s)) ->
    step sls s (OBegin t) = Ok s' (OutClosed evs) ->
    forall pid oc, In (pid, oc) evs ->
      exists p, In p (props s) /\ p_id p = pid /\
        ev_ok (mkState (params s) (coms s) (props s) (votes s) (next_id s) (bals s) (supply s) t (height s + 1) (plan s) (enacted s)) p oc.
Proof. exact begin_block_events. Qed.
Print Assumptions C17_enacted_only_when_passed.

(* The begin-block step for one proposal, exactly: closed Failed when the
   committee is gone; otherwise closed iff past the deadline or
   (first-past-the-post and passing), enacted through attemptEnactProposal iff the
   tally passes; otherwise left untouched. *)
Theorem C17_process_one_exact :
  forall sls s p s1 oc, process_one sls s p = Ok s1 oc ->
  match find_com s (p_com p) with
  | None => oc = Some Failed /\ s1 = close s (p_id p)
  | Some c =>
      let passes := tally s c (p_id p) in
      let fptp := match c_tally c with FPTP => true | AtDeadline => false end in
      if (p_deadline p <=? now s) || (fptp && passes) then
        if passes then exists s0 x, attempt_enact sls s p = Ok s0 x /\ oc = Some x /\ s1 = close s0 (p_id p)
        else oc = Some Failed /\ s1 = close s (p_id p)
      else oc = None /\ s1 = s
  end.
Proof. exact process_one_spec. Qed.
Print Assumptions C17_process_one_exact.

(* Enactment re-checks the permission and dry-runs the handler; only Passed changes parameters. *)
Theorem C17_enact_exact :
  forall sls s p s0 oc, attempt_enact sls s p = Ok s0 oc ->
  (oc = Passed /\
   exists c ps, find_com s (p_com p) = Some c /\ has_perms (c_perms c) (params s) (p_content p) = Some true /\
                validate_pub sls (height s) (params s) (p_content p) = true /\
                run_handler sls (height s) (params s) (p_content p) = Ok ps tt /\
                s0 = enact_state s (p_content p) ps)
  \/ (oc = Invalid /\ s0 = s).
Proof. exact attempt_enact_spec. Qed.
Print Assumptions C17_enact_exact.

(* Closed afterwards: the proposal and all of its votes leave the store; nothing else does. *)
Theorem C17_closed_afterwards :
  forall sls s p s1 x, process_one sls s p = Ok s1 (Some x) ->
    find_prop s1 (p_id p) = None /\ votes_of s1 (p_id p) = [] /\
    (forall q, q <> p_id p -> find_prop s1 q = find_prop s q /\ votes_of s1 q = votes_of s q).
Proof.
  intros sls s p s1 x H.
  destruct (process_one_frame _ _ _ _ _ H) as (_ & _ & _ & _ & _ & _ & _ & _ & Hc).
  pose proof Hc as [Hp Hv].
  split; [|split].
  - unfold find_prop. rewrite Hp. clear. induction (props s) as [|a r IH]; cbn; [reflexivity|].
    destruct (Nat.eqb_spec (p_id a) (p_id p)) as [E|E]; cbn; [exact IH|].
    destruct (Nat.eqb_spec (p_id a) (p_id p)); [contradiction|exact IH].
  - unfold votes_of. rewrite Hv. clear. induction (votes s) as [|a r IH]; cbn; [reflexivity|].
    destruct (Nat.eqb_spec (v_pid a) (p_id p)) as [E|E]; cbn; [exact IH|].
    destruct (Nat.eqb_spec (v_pid a) (p_id p)); [contradiction|exact IH].
  - intros q Hq. split; [|eapply votes_of_closes; eauto].
    unfold find_prop. rewrite Hp. clear - Hq. induction (props s) as [|a r IH]; cbn; [reflexivity|].
    destruct (Nat.eqb_spec (p_id a) (p_id p)) as [E|E]; cbn.
    + destruct (Nat.eqb_spec (p_id a) q); [congruence|exact IH].
    + destruct (Nat.eqb_spec (p_id a) q); [reflexivity|exact IH].
Qed.
Print Assumptions C17_closed_afterwards.

(* A proposal whose handler would fail is not stored: submission succeeds only
   if the committee has the permission and the handler succeeds on the current state. *)
Theorem C17_bad_handler_rejected_at_submission :
  forall sls s proposer cid c s' x, step sls s (OSubmit proposer cid c) = Ok s' x ->
    exists ps, run_handler sls (height s) (params s) c = Ok ps tt /\
    exists cm, find_com s cid = Some cm /\ mem_nat proposer (c_members cm) = true /\
               has_perms (c_perms cm) (params s) c = Some true.
Proof. exact submit_handler_ok. Qed.
Print Assumptions C17_bad_handler_rejected_at_submission.

(* ... and if the state moved under a stored proposal (a parameter changed, its
   upgrade plan went stale) so that its handler would fail now, the dry run of
   enactProposal finds out: the outcome is Invalid and nothing changes ... *)
Theorem C17_failing_handler_closed_invalid :
  forall sls s p c, find_com s (p_com p) = Some c ->
    has_perms (c_perms c) (params s) (p_content p) <> None ->
    (forall ps, run_handler sls (height s) (params s) (p_content p) <> Ok ps tt) ->
    attempt_enact sls s p = Ok s Invalid.
Proof. exact failing_handler_invalid. Qed.
Print Assumptions C17_failing_handler_closed_invalid.

(* ... so the begin blocker never panics (the proof goes through the dry run:
   the real handler run is reached only after validate_pub succeeded on the same state). *)
Theorem C17_begin_block_never_panics :
  forall sls s t, good s -> step sls s (OBegin t) <> Panic.
Proof. exact begin_block_no_panic. Qed.
Print Assumptions C17_begin_block_never_panics.

(* Committees cannot create or change committees: the content has no route. *)
Theorem C17_committee_change_unroutable :
  forall sls s proposer cid s' x, step sls s (OSubmit proposer cid CCommitteeChange) <> Ok s' x.
Proof. intros sls s proposer cid s' x. apply committee_change_refused. Qed.
Print Assumptions C17_committee_change_unroutable.

(** * 3. the permission matrix: which permission type allows which proposal type *)

(* The Allows methods, row by row (one type assertion each): God allows everything;
   Text only text proposals; SoftwareUpgrade only software-upgrade proposals (not
   their cancellation); each x/community permission exactly its own proposal type;
   ParamsChange only parameter-change proposals, subject to the field-level check
   of section 1.  [ctype_of] is the Go type of the proposal. *)
Theorem C17_permission_matrix :
  forall ps c,
    perm_allows PermGod ps c = Some true /\
    perm_allows PermText ps c = Some (ctype_eqb (ctype_of c) TText) /\
    perm_allows PermUpgrade ps c = Some (ctype_eqb (ctype_of c) TUpgrade) /\
    perm_allows PermCdpRepay ps c = Some (ctype_eqb (ctype_of c) TCdpRepay) /\
    perm_allows PermCdpWithdraw ps c = Some (ctype_eqb (ctype_of c) TCdpWithdraw) /\
    perm_allows PermLendWithdraw ps c = Some (ctype_eqb (ctype_of c) TLendWithdraw) /\
    forall acs, perm_allows (PermParams acs) ps c =
      if ctype_eqb (ctype_of c) TParam then params_allows acs ps c else Some false.
Proof. exact permission_matrix. Qed.
Print Assumptions C17_permission_matrix.

(* the same as a table over the two finite type lists: 7 permission types x 10 proposal types *)
Definition all_ptypes := [PTGod; PTText; PTParams; PTUpgrade; PTCdpRepay; PTCdpWithdraw; PTLendWithdraw].
Definition all_ctypes := [TText; TParam; TUpgrade; TCommitteeChange; TLendDeposit; TLendWithdraw; TCdpRepay; TCdpWithdraw;
                          TCancelUpgrade; TPoolSpend].
Example C17_permission_type_table :
  map (fun p => map (type_allows p) all_ctypes) all_ptypes =
  (*                    text   param  upgr   cchg   ldep   lwdr   crep   cwdr   cancel spend *)
  [ (* God          *) [true;  true;  true;  true;  true;  true;  true;  true;  true;  true ];
    (* Text         *) [true;  false; false; false; false; false; false; false; false; false];
    (* ParamsChange *) [false; true;  false; false; false; false; false; false; false; false];
    (* SoftwareUpgr *) [false; false; true;  false; false; false; false; false; false; false];
    (* CDPRepayDebt *) [false; false; false; false; false; false; true;  false; false; false];
    (* CDPWithdraw  *) [false; false; false; false; false; false; false; true;  false; false];
    (* LendWithdraw *) [false; false; false; false; false; true;  false; false; false; false] ].
Proof. vm_compute. reflexivity. Qed.

(* a permission whose type cannot allow the proposal's type refuses it in every state
   (no panic either); conversely Allows = true needs a true cell of the table; and for
   the six permission types without parameters the table is the whole answer *)
Theorem C17_wrong_type_refused :
  forall pm ps c, type_allows (ptype_of pm) (ctype_of c) = false -> perm_allows pm ps c = Some false.
Proof. exact type_refuses. Qed.
Print Assumptions C17_wrong_type_refused.

Theorem C17_allowed_needs_type :
  forall pm ps c, perm_allows pm ps c = Some true -> type_allows (ptype_of pm) (ctype_of c) = true.
Proof. exact allows_type. Qed.
Print Assumptions C17_allowed_needs_type.

Theorem C17_table_exact_without_params :
  forall pm ps c, ptype_of pm <> PTParams ->
    perm_allows pm ps c = Some (type_allows (ptype_of pm) (ctype_of c)).
Proof. exact allows_exact. Qed.
Print Assumptions C17_table_exact_without_params.

(* each community permission allows its own proposal type and nothing else *)
Theorem C17_community_permissions_exact :
  forall ps c,
    (perm_allows PermCdpRepay ps c = Some true <-> exists t x ok, body c = CCdpRepay t x ok) /\
    (perm_allows PermCdpWithdraw ps c = Some true <-> exists t x ok, body c = CCdpWithdraw t x ok) /\
    (perm_allows PermLendWithdraw ps c = Some true <-> exists a ok, body c = CLendWithdraw a ok).
Proof. exact community_permissions_exact. Qed.
Print Assumptions C17_community_permissions_exact.

(* lend-deposit, committee-change, cancel-upgrade and pool-spend proposals: God only ... *)
Theorem C17_only_god_allows_the_rest :
  forall pm ps c,
    ctype_of c = TLendDeposit \/ ctype_of c = TCommitteeChange \/ ctype_of c = TCancelUpgrade \/ ctype_of c = TPoolSpend ->
    perm_allows pm ps c = Some true -> pm = PermGod.
Proof. exact only_god_allows_the_rest. Qed.
Print Assumptions C17_only_god_allows_the_rest.

(* ... and the first two cannot be submitted to any committee at all: they are not
   registered against PubProposal, so no MsgSubmitProposal carrying one decodes *)
Theorem C17_lend_deposit_and_committee_change_never_submitted :
  forall sls s proposer cid c,
    ctype_of c = TLendDeposit \/ ctype_of c = TCommitteeChange ->
    step sls s (OSubmit proposer cid c) = Err.
Proof. exact undecodable_never_submitted. Qed.
Print Assumptions C17_lend_deposit_and_committee_change_never_submitted.

(** * 4. no permission: no submission, no enactment *)

Theorem C17_no_permission_no_submit :
  forall sls s proposer cid c cm,
    find_com s cid = Some cm ->
    (forall pm, In pm (c_perms cm) -> perm_allows pm (params s) c = Some false) ->
    step sls s (OSubmit proposer cid c) = Err.
Proof. exact no_permission_no_submit. Qed.
Print Assumptions C17_no_permission_no_submit.

(* the re-check at enactment: Invalid, the state untouched *)
Theorem C17_no_permission_no_enact :
  forall sls s p cm,
    find_com s (p_com p) = Some cm ->
    (forall pm, In pm (c_perms cm) -> perm_allows pm (params s) (p_content p) = Some false) ->
    attempt_enact sls s p = Ok s Invalid.
Proof. exact no_permission_no_enact. Qed.
Print Assumptions C17_no_permission_no_enact.

(* in terms of declared types alone *)
Theorem C17_wrong_type_no_submit_no_enact :
  forall sls s cm c,
    (forall pm, In pm (c_perms cm) -> type_allows (ptype_of pm) (ctype_of c) = false) ->
    (forall proposer cid, find_com s cid = Some cm -> step sls s (OSubmit proposer cid c) = Err) /\
    (forall p, p_content p = c -> find_com s (p_com p) = Some cm -> attempt_enact sls s p = Ok s Invalid).
Proof. exact wrong_type_no_submit_no_enact. Qed.
Print Assumptions C17_wrong_type_no_submit_no_enact.

(* what every stored proposal went through: decodable, ValidateBasic, a route, and a
   permission of its committee allowing it; the only change is the new proposal record *)
Theorem C17_stored_proposal_exact :
  forall sls s proposer cid c s' x,
    step sls s (OSubmit proposer cid c) = Ok s' x ->
    decodable c = true /\ validate_basic c = true /\ has_route c = true /\
    exists cm pm, find_com s cid = Some cm /\ In pm (c_perms cm) /\
      perm_allows pm (params s) c = Some true /\ type_allows (ptype_of pm) (ctype_of c) = true /\
      s' = mkState (params s) (coms s) (props s ++ [mkProp (next_id s) cid (now s + c_duration cm) c])
                   (votes s) (S (next_id s)) (bals s) (supply s) (now s) (height s) (plan s) (enacted s).
Proof. exact submit_spec. Qed.
Print Assumptions C17_stored_proposal_exact.

(* every proposal a begin block enacts is of a type one of its committee's permissions
   allows (the committee as it stands when the block starts), passes ValidateBasic and has a route *)
Theorem C17_enacted_only_with_permission :
  forall sls s t s' evs,
    step sls s (OBegin t) = Ok s' (OutClosed evs) ->
    forall pid, In (pid, Passed) evs ->
    exists p cm pm, In p (props s) /\ p_id p = pid /\ find_com s (p_com p) = Some cm /\ In pm (c_perms cm) /\
      type_allows (ptype_of pm) (ctype_of (p_content p)) = true /\
      validate_basic (p_content p) = true /\ has_route (p_content p) = true.
Proof. exact begin_block_passed_allowed. Qed.
Print Assumptions C17_enacted_only_with_permission.

(* which handler ran: the counters of community keeper calls move only at a Passed
   enactment, by exactly one, in the slot of the proposal's own type *)
Theorem C17_enactment_runs_its_own_handler :
  forall sls s p s0 oc, attempt_enact sls s p = Ok s0 oc ->
    enacted s0 = match oc with Passed => bump (p_content p) (enacted s) | _ => enacted s end
    /\ (oc <> Passed -> plan s0 = plan s).
Proof. exact attempt_enact_enacted. Qed.
Print Assumptions C17_enactment_runs_its_own_handler.

Theorem C17_messages_run_no_handler :
  forall sls s o s' x, is_msg o -> step sls s o = Ok s' x -> enacted s' = enacted s.
Proof. exact msg_no_enact. Qed.
Print Assumptions C17_messages_run_no_handler.

Theorem C17_nothing_passed_no_effect :
  forall sls s t s' evs,
    step sls s (OBegin t) = Ok s' (OutClosed evs) -> (forall pid, ~ In (pid, Passed) evs) ->
    params s' = params s /\ plan s' = plan s /\ enacted s' = enacted s.
Proof. exact begin_block_nothing_passed_no_effect. Qed.
Print Assumptions C17_nothing_passed_no_effect.

(* for all histories: whatever the proposal store holds was decodable, passed ValidateBasic
   and has a route; in particular no lend deposit, committee change, pool spend or content
   with a refused title is ever stored *)
Theorem C17_store_holds_only_routable_valid_proposals :
  forall sls ops s, store_ok s -> store_ok (run sls s ops).
Proof. exact store_ok_run. Qed.
Print Assumptions C17_store_holds_only_routable_valid_proposals.

Theorem C17_never_stored :
  forall sls ops s p, store_ok s -> In p (props (run sls s ops)) ->
    ctype_of (p_content p) <> TLendDeposit /\ ctype_of (p_content p) <> TCommitteeChange /\
    ctype_of (p_content p) <> TPoolSpend /\ (forall c, p_content p <> CBadMeta c).
Proof. exact never_stored. Qed.
Print Assumptions C17_never_stored.

(** * 5. votes; deleted committees *)

(* An accepted vote, exactly: a stored proposal of an existing committee, strictly before
   its deadline, a type in yes/no/abstain; member committees accept members only and yes
   only; token committees anybody and all three types (quorum counts all three by
   balance at tally time, the threshold yes against yes+no: definition [tally]). *)
Theorem C17_vote_accepted_exact :
  forall sls s pid voter vt s' x,
    step sls s (OVote pid voter vt) = Ok s' x ->
    exists p cm, find_prop s pid = Some p /\ now s < p_deadline p /\ find_com s (p_com p) = Some cm /\
      1 <= vt <= 3 /\
      (c_kind cm = CMember -> mem_nat voter (c_members cm) = true /\ vt = 1) /\
      s' = set_pv s (props s) (vote_put (mkVote pid voter vt (now s)) (votes s)).
Proof. exact vote_accepted_spec. Qed.
Print Assumptions C17_vote_accepted_exact.

Theorem C17_vote_at_or_after_deadline_refused :
  forall sls s pid voter vt p,
    find_prop s pid = Some p -> p_deadline p <= now s -> step sls s (OVote pid voter vt) = Err.
Proof. exact vote_at_deadline_refused. Qed.
Print Assumptions C17_vote_at_or_after_deadline_refused.

Theorem C17_vote_without_proposal_or_committee_refused :
  forall sls s pid voter vt,
    find_prop s pid = None \/ (exists p, find_prop s pid = Some p /\ find_com s (p_com p) = None) ->
    step sls s (OVote pid voter vt) = Err.
Proof. exact vote_without_proposal_or_committee_refused. Qed.
Print Assumptions C17_vote_without_proposal_or_committee_refused.

(* a repeated vote replaces the voter's earlier vote on that proposal: afterwards the
   store holds exactly the new vote for (proposal, voter) and every other vote as before *)
Theorem C17_vote_replaces_earlier_vote :
  forall sls s pid voter vt s' x,
    votes_sorted (votes s) -> step sls s (OVote pid voter vt) = Ok s' x ->
    votes_sorted (votes s') /\
    (forall w, In w (votes s') <->
       (w = mkVote pid voter vt (now s) \/ (In w (votes s) /\ ~ (v_pid w = pid /\ v_voter w = voter)))) /\
    (forall w, In w (votes s') -> v_pid w = pid -> v_voter w = voter -> w = mkVote pid voter vt (now s)).
Proof. exact vote_replaces_earlier_vote. Qed.
Print Assumptions C17_vote_replaces_earlier_vote.

(* in every state reachable from one with a strictly ordered vote store (e.g. an empty
   one), no two stored votes share proposal and voter: each voter is counted once *)
Theorem C17_one_vote_per_voter_always :
  forall sls ops s, votes_sorted (votes s) ->
    forall v w, In v (votes (run sls s ops)) -> In w (votes (run sls s ops)) ->
      v_pid v = v_pid w /\ v_voter v = v_voter w -> v = w.
Proof.
  intros sls ops s Hs v w Hv Hw Hk.
  exact (votes_sorted_unique _ (votes_sorted_run sls ops s Hs) v w Hv Hw Hk).
Qed.
Print Assumptions C17_one_vote_per_voter_always.

(* deleting a committee closes all of its proposals at once (outcome Failed); none is left to be enacted *)
Theorem C17_delete_committee_closes_its_proposals :
  forall sls s id s' x,
    step sls s (ODeleteCommittee id) = Ok s' x ->
    find_com s' id = None /\ (forall q, In q (props s') -> p_com q <> id /\ In q (props s)) /\
    x = OutClosed (map (fun p => (p_id p, Failed)) (filter (fun p => Nat.eqb (p_com p) id) (props s))).
Proof. exact delete_committee_closes_its_proposals. Qed.
Print Assumptions C17_delete_committee_closes_its_proposals.

(** * Non-vacuity *)

Definition w_debt : jmap :=
  [("denom", JStr (SText "usdx")); ("reference_asset", JStr (SText ""));
   ("conversion_factor", JStr (SInt 6)); ("debt_floor", JStr (SInt 10000000))].
Definition w_debt_ac : allowed_change := mkAC (PKnown 2) ["debt_floor"] [].

(* the guarded theorem's hypotheses are satisfiable: an allowed change of debt_floor *)
Example C17_single_nonvacuous :
  let r := [("denom", JStr (SText "usdx")); ("reference_asset", JStr (SText "usd"));
            ("conversion_factor", JStr (SInt 6)); ("debt_floor", JStr (SInt 10000000))] in
  let inc := JObj [("debt_floor", JStr (SInt 1)); ("denom", JStr (SText "usdx"));
                   ("conversion_factor", JStr (SInt 6)); ("reference_asset", JStr (SText "usd"))] in
  schema_ok debt_schema = true /\ wt_rec debt_schema r = true /\
  allows_change w_debt_ac (RVal (enc_struct debt_schema r)) (Some inc) = Some true /\
  exists st', apply_single debt_schema (valid_single 2) (enc_struct debt_schema r) inc = AOk st'.
Proof. cbv zeta. repeat split; try (vm_compute; reflexivity). eexists. vm_compute. reflexivity. Qed.

(* a first-past-the-post member committee: submit, two of three vote, the next block enacts *)
Example C17_lifecycle_nonvacuous :
  let c := mkCom 1 CMember [0; 1; 2]%nat [PermParams [w_debt_ac]] 500000000000000000 100 FPTP in
  let s := mkState [JNull; JNull; enc_struct debt_schema w_debt] [c] [] [] 1 [0; 0; 0] 0 0 2 0 [0; 0; 0; 0] in
  let doc := JObj [("denom", JStr (SText "usdx")); ("conversion_factor", JStr (SInt 6)); ("debt_floor", JStr (SInt 5))] in
  let ops := [OSubmit 0 1 (CParam [(PKnown 2, Some doc)]); OVote 1 0 1; OBegin 10; OVote 1 1 1] in
  let s1 := run std_slots s ops in
  good s /\ inv_b s = true /\ List.length (props s1) = 1%nat /\
  step std_slots s1 (OBegin 20) =
    Ok (mkState [JNull; JNull; JObj [("denom", JStr (SText "usdx")); ("conversion_factor", JStr (SInt 6)); ("debt_floor", JStr (SInt 5))]]
                [c] [] [] 2 [0; 0; 0] 0 20 4 0 [0; 0; 0; 0]) (OutClosed [(1%nat, Passed)]).
Proof.
  cbv zeta. split; [|repeat split; vm_compute; reflexivity].
  split.
  - intros c [<-|[]]. vm_compute. reflexivity.
  - repeat constructor.
Qed.

(* the document that used to slip through (drop the allowed debt_floor, add the
   absent omitempty reference_asset: the lengths agree) is refused by the fixed check *)
Example C17_added_attribute_refused :
  allows_change w_debt_ac (RVal (enc_struct debt_schema w_debt))
    (Some (JObj [("denom", JStr (SText "usdx")); ("conversion_factor", JStr (SInt 6));
                 ("reference_asset", JStr (SText "usd"))])) = Some false.
Proof. vm_compute. reflexivity. Qed.

(* a software-upgrade proposal for height 4, submitted at height 2 to a deadline
   committee: valid at submission, stale when the deadline comes (height 5); the
   begin blocker closes it as Invalid, schedules nothing and does not panic *)
Example C17_stale_upgrade_closed_invalid :
  let c := mkCom 1 CMember [0; 1]%nat [PermOther] 500000000000000000 50 AtDeadline in
  let s := mkState [] [c] [] [] 1 [0; 0] 0 0 2 0 [0; 0; 0; 0] in
  let s1 := run [] s [OSubmit 0 1 (CUpgrade 4); OVote 1 0 1; OBegin 10; OVote 1 1 1; OBegin 20] in
  List.length (props s1) = 1%nat /\ height s1 = 4 /\
  step [] s1 (OBegin 50) = Ok (mkState [] [c] [] [] 2 [0; 0] 0 50 5 0 [0; 0; 0; 0]) (OutClosed [(1%nat, Invalid)]) /\
  (* had the votes and the deadline come in time, it would have been scheduled *)
  step [] (run [] s [OSubmit 0 1 (CUpgrade 40); OVote 1 0 1]) (OBegin 50)
    = Ok (mkState [] [c] [] [] 2 [0; 0] 0 50 3 40 [0; 0; 0; 0]) (OutClosed [(1%nat, Passed)]).
Proof. cbv zeta. repeat split; vm_compute; reflexivity. Qed.

(* a committee holding only CommunityCDPRepayDebtPermission: its repay proposal is stored,
   voted and enacted (third counter); a withdraw-collateral proposal is refused at
   submission; so is the repay proposal with a blank collateral type (ValidateBasic) *)
Example C17_community_lifecycle_nonvacuous :
  let c := mkCom 1 CMember [0; 1]%nat [PermCdpRepay] 500000000000000000 100 FPTP in
  let s := mkState [] [c] [] [] 1 [0; 0] 0 0 2 0 [0; 0; 0; 0] in
  let repay := CCdpRepay "xrp-a" ("usdx", 1000000) true in
  step [] (run [] s [OSubmit 0 1 repay; OVote 1 0 1]) (OBegin 10)
    = Ok (mkState [] [c] [] [] 2 [0; 0] 0 10 3 0 [0; 0; 1; 0]) (OutClosed [(1%nat, Passed)])
  /\ step [] s (OSubmit 0 1 (CCdpWithdraw "xrp-a" ("xrp", 1000000) true)) = Err
  /\ step [] s (OSubmit 0 1 (CCdpRepay " " ("usdx", 1000000) true)) = Err
  /\ step [] s (OSubmit 0 1 (CBadMeta repay)) = Err
  (* the keeper call fails when the proposal is decided (the oracle says so): closed Invalid, no counter moves *)
  /\ step [] (run [] s [OSubmit 0 1 repay; OVote 1 0 1; OOracle [(1%nat, false)]]) (OBegin 10)
    = Ok (mkState [] [c] [] [] 2 [0; 0] 0 10 3 0 [0; 0; 0; 0]) (OutClosed [(1%nat, Invalid)]).
Proof. cbv zeta. repeat split; vm_compute; reflexivity. Qed.

(* a God committee: its lend-deposit proposal cannot even be submitted; it can cancel a scheduled upgrade *)
Example C17_god_committee_nonvacuous :
  let c := mkCom 1 CMember [0]%nat [PermGod] 500000000000000000 100 FPTP in
  let s := mkState [] [c] [] [] 1 [0] 0 0 2 40 [0; 0; 0; 0] in
  step [] s (OSubmit 0 1 (CLendDeposit [("ukava", 5)] true)) = Err
  /\ step [] (run [] s [OSubmit 0 1 CCancelUpgrade; OVote 1 0 1]) (OBegin 10)
    = Ok (mkState [] [c] [] [] 2 [0] 0 10 3 0 [0; 0; 0; 0]) (OutClosed [(1%nat, Passed)]).
Proof. cbv zeta. repeat split; vm_compute; reflexivity. Qed.

(* a token committee (quorum 0.5, threshold 0.5, supply 1000): 400 yes and 200 abstain
   reach the quorum and pass; 400 yes and 200 no pass (0.667); 200 yes and 400 no fail;
   a second vote of the same voter replaces the first *)
Example C17_token_tally_nonvacuous :
  let c := mkCom 1 (CToken 500000000000000000) [0]%nat [PermText] 500000000000000000 100 AtDeadline in
  let s := mkState [] [c] [] [] 1 [400; 200; 400] 1000 0 2 0 [0; 0; 0; 0] in
  let go votes := match step [] (run [] s (OSubmit 0 1 CText :: votes)) (OBegin 100) with Ok _ o => Some o | _ => None end in
  go [OVote 1 0 1; OVote 1 1 3] = Some (OutClosed [(1%nat, Passed)])
  /\ go [OVote 1 0 1] = Some (OutClosed [(1%nat, Failed)])
  /\ go [OVote 1 0 1; OVote 1 1 2] = Some (OutClosed [(1%nat, Passed)])
  /\ go [OVote 1 0 2; OVote 1 1 1] = Some (OutClosed [(1%nat, Failed)])
  /\ go [OVote 1 0 2; OVote 1 1 1; OVote 1 0 1] = Some (OutClosed [(1%nat, Passed)])
  /\ List.length (votes (run [] s [OSubmit 0 1 CText; OVote 1 0 2; OVote 1 1 1; OVote 1 0 1])) = 2%nat.
Proof. cbv zeta. repeat split; vm_compute; reflexivity. Qed.

(** * 7. instants, exact tallies, panicking handlers (third round of seeded changes) *)

(* GetTokenCommitteeProposalResult in integers, for all states, committees and votes:
   turnout * 10^18 >= quorum mantissa * supply and yes * 10^18 >= threshold mantissa * (yes + no).
   Dec.Mul by a whole number is exact, so the implementation's comparison is this
   cross-multiplication: nothing is divided, nothing is rounded. *)
Theorem C17_token_tally_exact :
  forall s c pid q, c_kind c = CToken q ->
  let vs := votes_of s pid in
  let yes := weight s (fun v => v_type v =? 1) vs in
  let no := weight s (fun v => v_type v =? 2) vs in
  let total := weight s (fun _ => true) vs in
  tally s c pid = (q * supply s <=? total * PREC) && (c_threshold c * (yes + no) <=? yes * PREC).
Proof. exact token_tally_exact. Qed.
Print Assumptions C17_token_tally_exact.

Theorem C17_member_tally_exact :
  forall s c pid, c_kind c = CMember ->
  tally s c pid = (c_threshold c * Z.of_nat (List.length (c_members c)) <=? Z.of_nat (List.length (votes_of s pid)) * PREC).
Proof. exact member_tally_exact. Qed.
Print Assumptions C17_member_tally_exact.

(* a turnout below quorum * supply by any amount, however small, fails the tally *)
Theorem C17_token_quorum_missed_fails :
  forall s c pid q, c_kind c = CToken q ->
  weight s (fun _ => true) (votes_of s pid) * PREC < q * supply s -> tally s c pid = false.
Proof. exact token_quorum_missed_fails. Qed.
Print Assumptions C17_token_quorum_missed_fails.

(* quorum 2/3 as LegacyDec stores it (rounded up): voters holding exactly 2 000 000 of
   3 000 000 miss it (2 000 000 < 0.666666666666666667 * 3 000 000), one more token meets
   it; the rounded turnout ratio Quo(2 000 000, 3 000 000) = 0.666666666666666667 would
   have met it - which is why the ratio must not be what is compared *)
Example C17_quorum_two_thirds_exact :
  let c := mkCom 1 (CToken 666666666666666667) [0]%nat [PermText] 500000000000000000 100000000000 AtDeadline in
  let s := mkState [] [c] [] [] 1 [2000000; 1000000] 3000000 0 2 0 [0; 0; 0; 0] in
  let go pre := match step [] (run [] s (pre ++ [OSubmit 0 1 CText; OVote 1 0 1])) (OBegin 100000000000) with Ok _ o => Some o | _ => None end in
  go [] = Some (OutClosed [(1%nat, Failed)])
  /\ go [OTransfer 1 0 1] = Some (OutClosed [(1%nat, Passed)])
  /\ (666666666666666667 <=? dec_quo (dec_of_int 2000000) (dec_of_int 3000000)) = true.
Proof. cbv zeta. repeat split; vm_compute; reflexivity. Qed.

(* times are instants in nanoseconds.  A block at 1.5 s, a 100 s committee: the deadline is
   101.5 s.  Blocks at 101.1 s and at 101.499999999 s - in the deadline's unix second,
   before the deadline - leave the proposal open and their votes are accepted and counted;
   the block at 101.5 s closes it. *)
Example C17_deadline_is_an_instant :
  let c := mkCom 1 CMember [0; 1]%nat [PermText] 1000000000000000000 100000000000 AtDeadline in
  let s := mkState [] [c] [] [] 1 [] 0 0 2 0 [0; 0; 0; 0] in
  let s1 := run [] s [OBegin 1500000000; OSubmit 0 1 CText; OVote 1 0 1] in
  let out st o := match step [] st o with Ok _ x => Some x | _ => None end in
  map p_deadline (props s1) = [101500000000]
  /\ out s1 (OBegin 101100000000) = Some (OutClosed [])
  /\ out (run [] s1 [OBegin 101100000000]) (OVote 1 1 1) = Some OutNone
  /\ out (run [] s1 [OBegin 101499999999]) (OVote 1 1 1) = Some OutNone
  /\ out (run [] s1 [OBegin 101499999999; OVote 1 1 1]) (OBegin 101500000000) = Some (OutClosed [(1%nat, Passed)])
  /\ out s1 (OBegin 101500000000) = Some (OutClosed [(1%nat, Failed)]).
Proof. cbv zeta. repeat split; vm_compute; reflexivity. Qed.

(* a parameter change whose handler panics (PNoKey: Subspace.Update panics) is refused at
   submission even for a committee that may change everything; had it been stored (here:
   put into the store by hand), the begin blocker closes it Invalid and does not panic *)
Example C17_panicking_handler_no_halt :
  let c := mkCom 1 CMember [0]%nat [PermGod] 1000000000000000000 100000000000 FPTP in
  let bad := CParam [(PNoKey, Some JNull)] in
  let s := mkState [] [c] [] [] 1 [] 0 0 2 0 [0; 0; 0; 0] in
  let stored := mkState [] [c] [mkProp 1 1 100000000000 bad] [mkVote 1 0 1 0] 2 [] 0 0 2 0 [0; 0; 0; 0] in
  step [] s (OSubmit 0 1 bad) = Err
  /\ step [] stored (OBegin 1000000000)
     = Ok (mkState [] [c] [] [] 2 [] 0 1000000000 3 0 [0; 0; 0; 0]) (OutClosed [(1%nat, Invalid)]).
Proof. cbv zeta. repeat split; vm_compute; reflexivity. Qed.

