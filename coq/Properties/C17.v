(* C17 — committees enact only what their permissions allow, once, and only when
   passed.  Property theorems only; proofs are in Proofs/Json.v and Proofs/Committee.v. *)
From Kava Require Import Base.Prelude Base.Dec Model.Json Model.Committee Proofs.Json Proofs.Committee.
Local Open Scope string_scope.
Local Open Scope list_scope.
Local Open Scope Z_scope.

(** * 1. "an enacted parameter change alters only the fields listed as changeable" *)

(* Full statement, single-record parameters: for every schema, stored record,
   rule and proposed document, if allowsParamChange says yes and Subspace.Update
   stores st', then st' encodes a record that agrees with the current one on
   every field outside the allow-list.  [guarded = true] adds the hypothesis that
   every protected field is present in the current amino-JSON document. *)
Definition single_sound (guarded : bool) : Prop :=
  forall sch vf r ac inc st',
    schema_ok sch = true -> wt_rec sch r = true -> has_rules ac ->
    (guarded = true -> forall f, In f sch -> str_in (f_name f) (ac_single ac) = false ->
       has_key (f_name f) (enc_rec sch r) = true) ->
    allows_change ac (RVal (enc_struct sch r)) (Some inc) = Some true ->
    apply_single sch vf (enc_struct sch r) inc = AOk st' ->
    exists r', st' = enc_struct sch r' /\ vf r' = true /\
      forall f, In f sch -> str_in (f_name f) (ac_single ac) = false ->
        bget (f_name f) r' (zero_k (f_kind f)) = bget (f_name f) r (zero_k (f_kind f)).

Theorem C17_permission_sound_single_partial : single_sound true.
Proof.
  intros sch vf r ac inc st' Hok Hwt Hr Hg Ha Hp.
  eapply single_sound_partial; eauto.
Qed.
Print Assumptions C17_permission_sound_single_partial.

(* the cdp debt parameter with an empty reference_asset; the rule allows only debt_floor *)
Definition w_debt : jmap :=
  [("denom", JStr (SText "usdx")); ("reference_asset", JStr (SText ""));
   ("conversion_factor", JStr (SInt 6)); ("debt_floor", JStr (SInt 10000000))].
Definition w_debt_ac : allowed_change := mkAC (PKnown 2) ["debt_floor"] [].
Definition w_debt_inc : json :=
  JObj [("denom", JStr (SText "usdx")); ("conversion_factor", JStr (SInt 6));
        ("reference_asset", JStr (SText "usd"))].

Theorem C17_permission_sound_single_refuted : ~ single_sound false.
Proof.
  intros H.
  destruct (H debt_schema (valid_single 2) w_debt w_debt_ac w_debt_inc
              (JObj [("denom", JStr (SText "usdx")); ("reference_asset", JStr (SText "usd"));
                     ("conversion_factor", JStr (SInt 6)); ("debt_floor", JStr (SInt 0))]))
    as (r' & Hst & _ & Hf); try (vm_compute; reflexivity); try discriminate.
  pose (f := mkField "reference_asset" (KS KStr) true).
  assert (Hin : In f debt_schema) by (cbn; auto).
  specialize (Hf f Hin eq_refl). unfold f in Hf. cbn [f_name f_kind f_omit zero_k zero_s] in Hf.
  assert (Hnd : NoDup (map f_name debt_schema)) by (apply names_nodup_NoDup; reflexivity).
  pose proof (oget_enc_rec debt_schema r' f Hnd Hin) as He.
  assert (Hl : enc_rec debt_schema r' =
                [("denom", JStr (SText "usdx")); ("reference_asset", JStr (SText "usd"));
                 ("conversion_factor", JStr (SInt 6)); ("debt_floor", JStr (SInt 0))])
    by (unfold enc_struct in Hst; congruence).
  rewrite Hl in He. unfold f in He. cbn [f_name f_kind f_omit zero_k zero_s] in He. rewrite Hf in He.
  vm_compute in He. discriminate.
Qed.
Print Assumptions C17_permission_sound_single_refuted.

(* Multi-record parameters: the stored array has the same number of records, and
   every current record has a counterpart with the same requirement key value
   whose fields outside that requirement's allow-list are intact. *)
Definition multi_sound (guarded : bool) : Prop :=
  forall sch vf rs ac inc st',
    schema_ok sch = true -> Forall (fun r => wt_rec sch r = true) rs -> rs <> [] -> has_rules ac ->
    (guarded = true -> forall r q f, In r rs -> req_of sch (ac_multi ac) r = Some q -> In f sch ->
       str_in (f_name f) (sr_attrs q) = false -> has_key (f_name f) (enc_rec sch r) = true) ->
    allows_change ac (RVal (enc_slice sch rs)) (Some inc) = Some true ->
    apply_multi sch vf (enc_slice sch rs) inc = AOk st' ->
    exists rs', st' = enc_slice sch rs' /\ vf rs' = true /\ List.length rs' = List.length rs /\
      forall r, In r rs ->
        exists q r', req_of sch (ac_multi ac) r = Some q /\ In r' rs' /\
          val_is (dedupe (enc_rec sch r)) (sr_key q) (sr_val q) = true /\
          forall f, In f sch -> str_in (f_name f) (sr_attrs q) = false ->
            bget (f_name f) r' (zero_k (f_kind f)) = bget (f_name f) r (zero_k (f_kind f)).

Theorem C17_permission_sound_multi_partial : multi_sound true.
Proof.
  intros sch vf rs ac inc st' Hok Hwt Hne Hr Hg Ha Hp.
  eapply multi_sound_partial; eauto.
Qed.
Print Assumptions C17_permission_sound_multi_partial.

(* bep3 asset "inc", paused (active = false is omitted from the stored JSON);
   the rule allows only coin_id for that asset *)
Definition w_limit : json :=
  JObj [("limit", JStr (SInt 350000000000000)); ("time_limited", JBool false);
        ("time_period", JStr (SInt 3600000000000)); ("time_based_limit", JStr (SInt 0))].
Definition w_asset : jmap :=
  [("denom", JStr (SText "inc")); ("coin_id", JStr (SInt 9999)); ("supply_limit", w_limit);
   ("active", JBool false); ("deputy_address", JStr (SAddr 6)); ("fixed_fee", JStr (SInt 1000));
   ("min_swap_amount", JStr (SInt 1)); ("max_swap_amount", JStr (SInt 1000000000000));
   ("min_block_lock", JStr (SInt 220)); ("max_block_lock", JStr (SInt 270))].
Definition w_asset_ac : allowed_change := mkAC (PKnown 0) [] [mkReq "denom" (SText "inc") ["coin_id"]].
Definition w_limit_enc : json :=
  JObj [("limit", JStr (SInt 350000000000000)); ("time_period", JStr (SInt 3600000000000));
        ("time_based_limit", JStr (SInt 0))].
(* the stored record without "coin_id", plus "active": true *)
Definition w_asset_inc : json :=
  JArr [JObj [("denom", JStr (SText "inc")); ("supply_limit", w_limit_enc); ("active", JBool true);
              ("deputy_address", JStr (SAddr 6)); ("fixed_fee", JStr (SInt 1000));
              ("min_swap_amount", JStr (SInt 1)); ("max_swap_amount", JStr (SInt 1000000000000));
              ("min_block_lock", JStr (SInt 220)); ("max_block_lock", JStr (SInt 270))]].
Definition w_asset_after : json :=
  JArr [JObj [("denom", JStr (SText "inc")); ("supply_limit", w_limit_enc); ("active", JBool true);
              ("deputy_address", JStr (SAddr 6)); ("fixed_fee", JStr (SInt 1000));
              ("min_swap_amount", JStr (SInt 1)); ("max_swap_amount", JStr (SInt 1000000000000));
              ("min_block_lock", JStr (SInt 220)); ("max_block_lock", JStr (SInt 270))]].

Theorem C17_permission_sound_multi_refuted : ~ multi_sound false.
Proof.
  intros H.
  destruct (H asset_schema (valid_multi 0) [w_asset] w_asset_ac w_asset_inc w_asset_after)
    as (rs' & Hst & _ & Hlen & Hf); try (vm_compute; reflexivity); try discriminate.
  { repeat constructor. }
  destruct (Hf w_asset (or_introl eq_refl)) as (q & r' & Hq & Hin' & _ & Hprot).
  vm_compute in Hq. injection Hq as <-.
  destruct rs' as [|x [|y t]]; cbn in Hlen; try discriminate.
  destruct Hin' as [->|[]].
  pose (f := mkField "active" (KS KBool) true).
  assert (Hin : In f asset_schema) by (cbn; auto 10).
  specialize (Hprot f Hin eq_refl). unfold f in Hprot. cbn [f_name f_kind f_omit zero_k zero_s] in Hprot.
  assert (Hnd : NoDup (map f_name asset_schema)) by (apply names_nodup_NoDup; reflexivity).
  pose proof (oget_enc_rec asset_schema r' f Hnd Hin) as He.
  assert (Hl : JArr [JObj (enc_rec asset_schema r')] = w_asset_after) by (rewrite Hst; reflexivity).
  unfold w_asset_after in Hl.
  assert (Hl2 : forall a b, JArr [JObj a] = JArr [JObj b] -> a = b) by (intros a b E; congruence).
  apply Hl2 in Hl. rewrite Hl in He. unfold f in He. cbn [f_name f_kind f_omit zero_k zero_s] in He. rewrite Hprot in He.
  vm_compute in He. discriminate.
Qed.
Print Assumptions C17_permission_sound_multi_refuted.

(* the guard of the partial theorems is satisfiable, and it holds whenever no
   protected field is tagged omitempty *)
Theorem C17_guard_when_no_omitempty :
  forall sch r allow, schema_ok sch = true ->
    (forall f, In f sch -> str_in (f_name f) allow = false -> f_omit f = false) ->
    forall f, In f sch -> str_in (f_name f) allow = false -> has_key (f_name f) (enc_rec sch r) = true.
Proof.
  intros sch r allow Hok Hno f Hin Hp. destruct (schema_ok_parts _ Hok) as [Hnd _].
  pose proof (oget_enc_rec sch r f Hnd Hin) as He. cbn in He. rewrite (Hno f Hin Hp) in He. cbn in He.
  eapply oget_some_has; eauto.
Qed.
Print Assumptions C17_guard_when_no_omitempty.

(** * 2. life cycle *)

(* Submitting, voting and querying never apply a proposal's effects. *)
Theorem C17_submit_vote_no_effect :
  forall sls s o s' x, is_msg o -> step sls s o = Ok s' x ->
    params s' = params s /\ coms s' = coms s /\ bals s' = bals s /\ supply s' = supply s /\ now s' = now s.
Proof. exact msg_no_effect. Qed.
Print Assumptions C17_submit_vote_no_effect.

(* Every close of a begin block - in particular every enactment - is justified
   by the committee, votes, balances and time the block started with: Passed or
   Invalid only if the tally passes and (deadline reached, or first-past-the-post);
   Failed only if the committee is gone or the deadline is reached and the tally fails. *)
Theorem C17_enacted_only_when_passed :
  forall sls s t s' evs, NoDup (map p_id (props s)) ->
    step sls s (OBegin t) = Ok s' (OutClosed evs) ->
    forall pid oc, In (pid, oc) evs ->
      exists p, In p (props s) /\ p_id p = pid /\
        ev_ok (mkState (params s) (coms s) (props s) (votes s) (next_id s) (bals s) (supply s) t) p oc.
Proof. exact begin_block_events. Qed.
Print Assumptions C17_enacted_only_when_passed.

(* The begin-block step for one proposal, exactly: closed Failed when the
   committee is gone; otherwise closed iff past the deadline or
   (first-past-the-post and passing), enacted through attemptEnactProposal iff the
   tally passes; otherwise left untouched. *)
Theorem C17_process_one_exact :
  forall sls s p s1 oc, process_one sls s p = Ok s1 oc ->
  match find_com s (p_com p) with
  | None => oc = Some Failed /\ s1 = close s (p_id p)
  | Some c =>
      let passes := tally s c (p_id p) in
      let fptp := match c_tally c with FPTP => true | AtDeadline => false end in
      if (p_deadline p <=? now s) || (fptp && passes) then
        if passes then exists s0 x, attempt_enact sls s p = Ok s0 x /\ oc = Some x /\ s1 = close s0 (p_id p)
        else oc = Some Failed /\ s1 = close s (p_id p)
      else oc = None /\ s1 = s
  end.
Proof. exact process_one_spec. Qed.
Print Assumptions C17_process_one_exact.

(* Enactment re-checks the permission and dry-runs the handler; only Passed changes parameters. *)
Theorem C17_enact_exact :
  forall sls s p s0 oc, attempt_enact sls s p = Ok s0 oc ->
  (oc = Passed /\
   exists c ps, find_com s (p_com p) = Some c /\ has_perms (c_perms c) (params s) (p_content p) = Some true /\
                validate_pub sls (params s) (p_content p) = true /\
                run_handler sls (params s) (p_content p) = Ok ps tt /\ s0 = set_params s ps)
  \/ (oc = Invalid /\ s0 = s).
Proof. exact attempt_enact_spec. Qed.
Print Assumptions C17_enact_exact.

(* Closed afterwards: the proposal and all of its votes leave the store; nothing else does. *)
Theorem C17_closed_afterwards :
  forall sls s p s1 x, process_one sls s p = Ok s1 (Some x) ->
    find_prop s1 (p_id p) = None /\ votes_of s1 (p_id p) = [] /\
    (forall q, q <> p_id p -> find_prop s1 q = find_prop s q /\ votes_of s1 q = votes_of s q).
Proof.
  intros sls s p s1 x H.
  destruct (process_one_frame _ _ _ _ _ H) as (_ & _ & _ & _ & _ & _ & _ & _ & Hc).
  pose proof Hc as [Hp Hv].
  split; [|split].
  - unfold find_prop. rewrite Hp. clear. induction (props s) as [|a r IH]; cbn; [reflexivity|].
    destruct (Nat.eqb_spec (p_id a) (p_id p)) as [E|E]; cbn; [exact IH|].
    destruct (Nat.eqb_spec (p_id a) (p_id p)); [contradiction|exact IH].
  - unfold votes_of. rewrite Hv. clear. induction (votes s) as [|a r IH]; cbn; [reflexivity|].
    destruct (Nat.eqb_spec (v_pid a) (p_id p)) as [E|E]; cbn; [exact IH|].
    destruct (Nat.eqb_spec (v_pid a) (p_id p)); [contradiction|exact IH].
  - intros q Hq. split; [|eapply votes_of_closes; eauto].
    unfold find_prop. rewrite Hp. clear - Hq. induction (props s) as [|a r IH]; cbn; [reflexivity|].
    destruct (Nat.eqb_spec (p_id a) (p_id p)) as [E|E]; cbn.
    + destruct (Nat.eqb_spec (p_id a) q); [congruence|exact IH].
    + destruct (Nat.eqb_spec (p_id a) q); [reflexivity|exact IH].
Qed.
Print Assumptions C17_closed_afterwards.

(* A proposal whose handler would fail is not stored: submission succeeds only
   if the committee has the permission and the handler succeeds on the current state. *)
Theorem C17_bad_handler_rejected_at_submission :
  forall sls s proposer cid c s' x, step sls s (OSubmit proposer cid c) = Ok s' x ->
    exists ps, run_handler sls (params s) c = Ok ps tt /\
    exists cm, find_com s cid = Some cm /\ mem_nat proposer (c_members cm) = true /\
               has_perms (c_perms cm) (params s) c = Some true.
Proof. exact submit_handler_ok. Qed.
Print Assumptions C17_bad_handler_rejected_at_submission.

(* ... and if the state moved under a stored proposal so that its handler now
   fails, the begin blocker closes it as Invalid; it never panics. *)
Theorem C17_begin_block_never_panics :
  forall sls s t, good s -> step sls s (OBegin t) <> Panic.
Proof. exact begin_block_no_panic. Qed.
Print Assumptions C17_begin_block_never_panics.

(* Committees cannot create or change committees: the content has no route. *)
Theorem C17_committee_change_unroutable :
  forall sls s proposer cid s' x, step sls s (OSubmit proposer cid CCommitteeChange) <> Ok s' x.
Proof. intros sls s proposer cid s' x. apply committee_change_refused. Qed.
Print Assumptions C17_committee_change_unroutable.

(** * Non-vacuity *)

(* the guarded theorem's hypotheses are satisfiable: an allowed change of debt_floor *)
Example C17_single_nonvacuous :
  let r := [("denom", JStr (SText "usdx")); ("reference_asset", JStr (SText "usd"));
            ("conversion_factor", JStr (SInt 6)); ("debt_floor", JStr (SInt 10000000))] in
  let inc := JObj [("debt_floor", JStr (SInt 1)); ("denom", JStr (SText "usdx"));
                   ("conversion_factor", JStr (SInt 6)); ("reference_asset", JStr (SText "usd"))] in
  schema_ok debt_schema = true /\ wt_rec debt_schema r = true /\
  forallb (fun f => str_in (f_name f) ["debt_floor"] || has_key (f_name f) (enc_rec debt_schema r)) debt_schema = true /\
  allows_change w_debt_ac (RVal (enc_struct debt_schema r)) (Some inc) = Some true /\
  exists st', apply_single debt_schema (valid_single 2) (enc_struct debt_schema r) inc = AOk st'.
Proof. cbv zeta. repeat split; try (vm_compute; reflexivity). eexists. vm_compute. reflexivity. Qed.

(* a first-past-the-post member committee: submit, two of three vote, the next block enacts *)
Example C17_lifecycle_nonvacuous :
  let c := mkCom 1 CMember [0; 1; 2]%nat [PermParams [w_debt_ac]] 500000000000000000 100 FPTP in
  let s := mkState [JNull; JNull; enc_struct debt_schema w_debt] [c] [] [] 1 [0; 0; 0] 0 0 in
  let doc := JObj [("denom", JStr (SText "usdx")); ("conversion_factor", JStr (SInt 6)); ("debt_floor", JStr (SInt 5))] in
  let ops := [OSubmit 0 1 (CParam [(PKnown 2, Some doc)]); OVote 1 0 1; OBegin 10; OVote 1 1 1] in
  let s1 := run std_slots s ops in
  good s /\ inv_b s = true /\ List.length (props s1) = 1%nat /\
  step std_slots s1 (OBegin 20) =
    Ok (mkState [JNull; JNull; JObj [("denom", JStr (SText "usdx")); ("conversion_factor", JStr (SInt 6)); ("debt_floor", JStr (SInt 5))]]
                [c] [] [] 2 [0; 0; 0] 0 20) (OutClosed [(1%nat, Passed)]).
Proof.
  cbv zeta. split; [|repeat split; vm_compute; reflexivity].
  split.
  - intros c [<-|[]]. vm_compute. reflexivity.
  - repeat constructor.
Qed.
