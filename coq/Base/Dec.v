(* cosmossdk.io/math v1.3.0 LegacyDec: a Z mantissa scaled by 10^18, with the
   library's exact rounding.  Definitions first (all computable), then the
   bound lemmas the property proofs use.  Tied to the Go library by the DEC
   differential driver (harness/drivers/dec). *)
From Kava Require Import Base.Prelude.
Local Open Scope Z_scope.

Definition PREC : Z := 1000000000000000000.       (* 10^18 *)
Definition HALF : Z := 500000000000000000.        (* 5 * 10^17 *)

(* chopPrecisionAndRound on a non-negative argument: banker's rounding *)
Definition chop_round_pos (d : Z) : Z :=
  let q := d / PREC in
  let r := d mod PREC in
  if r =? 0 then q
  else if r <? HALF then q
  else if HALF <? r then q + 1
  else if Z.even q then q else q + 1.

Definition chop_round (d : Z) : Z :=
  if d <? 0 then - chop_round_pos (- d) else chop_round_pos d.

(* chopPrecisionAndRoundUp *)
Definition chop_round_up (d : Z) : Z :=
  if d <? 0 then - ((- d) / PREC)
  else let q := d / PREC in if d mod PREC =? 0 then q else q + 1.

(* chopPrecisionAndTruncate: big.Int.Quo truncates toward zero *)
Definition chop_trunc (d : Z) : Z := Z.quot d PREC.

Definition dec_of_int (i : Z) : Z := i * PREC.                 (* NewDecFromInt *)
Definition dec_mul (a b : Z) : Z := chop_round (a * b).        (* Mul *)
Definition dec_mul_trunc (a b : Z) : Z := chop_trunc (a * b).  (* MulTruncate *)
Definition dec_mul_roundup (a b : Z) : Z := chop_round_up (a * b). (* MulRoundUp *)
Definition dec_mul_int (a i : Z) : Z := a * i.                 (* MulInt / MulInt64 *)
Definition dec_quo (a b : Z) : Z := chop_round (Z.quot (a * PREC * PREC) b).       (* Quo *)
Definition dec_quo_trunc (a b : Z) : Z := chop_trunc (Z.quot (a * PREC * PREC) b). (* QuoTruncate *)
Definition dec_quo_roundup (a b : Z) : Z := chop_round_up (Z.quot (a * PREC * PREC) b). (* QuoRoundUp *)
Definition dec_quo_int (a i : Z) : Z := Z.quot a i.            (* QuoInt / QuoInt64 *)
Definition dec_round_int (a : Z) : Z := chop_round a.          (* RoundInt *)
Definition dec_trunc_int (a : Z) : Z := Z.quot a PREC.         (* TruncateInt *)
Definition dec_trunc_dec (a : Z) : Z := Z.quot a PREC * PREC.  (* TruncateDec *)
Definition dec_ceil (a : Z) : Z :=                             (* Ceil (as a Dec mantissa) *)
  let q := Z.quot a PREC in
  let r := Z.rem a PREC in
  if r <=? 0 then q * PREC else (q + 1) * PREC.
Definition dec_add (a b : Z) : Z := a + b.
Definition dec_sub (a b : Z) : Z := a - b.
Definition dec_one : Z := PREC.

(* LegacyNewDecWithPrec(i, p) for 0 <= p <= 18 *)
Definition dec_with_prec (i : Z) (p : Z) : Z := i * 10 ^ (18 - p).

(* sdk.RelativePow(x, n, b) on sdkmath.Uint (used by kavadist and cdp interest):
   square-and-multiply with half-up rounding at each step *)
Fixpoint rel_pow_fuel (fuel : nat) (x n b z : Z) : Z :=
  match fuel with
  | O => z
  | S k =>
      let n' := n / 2 in
      if n' =? 0 then z
      else
        let x' := (x * x + b / 2) / b in
        let z' := if n' mod 2 =? 0 then z else (z * x' + b / 2) / b in
        rel_pow_fuel k x' n' b z'
  end.
Definition rel_pow (x n b : Z) : Z :=
  if x =? 0 then (if n =? 0 then 1 else 0)   (* sdkmath.RelativePow returns OneUint() for 0^0, not b *)
  else
    let z := if n mod 2 =? 0 then b else x in
    rel_pow_fuel 300 x n b z.

(** * Lemmas *)
Lemma PREC_pos : 0 < PREC. Proof. reflexivity. Qed.
Lemma PREC_HALF : PREC = 2 * HALF. Proof. reflexivity. Qed.

Lemma chop_round_pos_bounds d : 0 <= d ->
  2 * d - PREC <= 2 * (chop_round_pos d * PREC) <= 2 * d + PREC.
Proof.
  intros Hd. unfold chop_round_pos.
  pose proof (Z.div_mod d PREC ltac:(unfold PREC; lia)) as E.
  pose proof (Z.mod_pos_bound d PREC PREC_pos) as B.
  set (q := d / PREC) in *. set (r := d mod PREC) in *.
  rewrite PREC_HALF in *.
  destruct (Z.eqb_spec r 0); [lia|].
  destruct (Z.ltb_spec r HALF); [lia|].
  destruct (Z.ltb_spec HALF r); [lia|].
  destruct (Z.even q); lia.
Qed.

Lemma chop_round_pos_nonneg d : 0 <= d -> 0 <= chop_round_pos d.
Proof.
  intros Hd. unfold chop_round_pos.
  assert (0 <= d / PREC) by (apply Z.div_pos; [lia|apply PREC_pos]).
  destruct (_ =? 0); [lia|]. destruct (_ <? HALF); [lia|]. destruct (HALF <? _); [lia|].
  destruct (Z.even _); lia.
Qed.

Lemma chop_round_bounds d :
  2 * d - PREC <= 2 * (chop_round d * PREC) <= 2 * d + PREC.
Proof.
  unfold chop_round. destruct (Z.ltb_spec d 0).
  - pose proof (chop_round_pos_bounds (- d) ltac:(lia)). lia.
  - apply chop_round_pos_bounds. lia.
Qed.

Lemma chop_round_nonneg d : 0 <= d -> 0 <= chop_round d.
Proof.
  intros H. unfold chop_round. destruct (Z.ltb_spec d 0); [lia|]. apply chop_round_pos_nonneg; lia.
Qed.

Lemma chop_round_pos_mono a b : 0 <= a <= b -> chop_round_pos a <= chop_round_pos b.
Proof.
  intros [Ha Hab].
  destruct (Z.eq_dec (a / PREC) (b / PREC)) as [Eq|Ne].
  - (* same quotient: compare remainders *)
    unfold chop_round_pos. rewrite Eq.
    assert (a mod PREC <= b mod PREC).
    { pose proof (Z.div_mod a PREC ltac:(unfold PREC; lia)).
      pose proof (Z.div_mod b PREC ltac:(unfold PREC; lia)). rewrite Eq in *. lia. }
    pose proof (Z.mod_pos_bound a PREC PREC_pos). pose proof (Z.mod_pos_bound b PREC PREC_pos).
    destruct (Z.eqb_spec (a mod PREC) 0); destruct (Z.eqb_spec (b mod PREC) 0);
    destruct (Z.ltb_spec (a mod PREC) HALF); destruct (Z.ltb_spec (b mod PREC) HALF);
    destruct (Z.ltb_spec HALF (a mod PREC)); destruct (Z.ltb_spec HALF (b mod PREC));
    destruct (Z.even (b / PREC)); lia.
  - assert (a / PREC <= b / PREC) by (apply Z.div_le_mono; [apply PREC_pos|lia]).
    assert (a / PREC + 1 <= b / PREC) by lia.
    assert (chop_round_pos a <= a / PREC + 1).
    { unfold chop_round_pos. destruct (_ =? 0); [lia|]. destruct (_ <? HALF); [lia|].
      destruct (HALF <? _); [lia|]. destruct (Z.even _); lia. }
    assert (b / PREC <= chop_round_pos b).
    { unfold chop_round_pos. destruct (_ =? 0); [lia|]. destruct (_ <? HALF); [lia|].
      destruct (HALF <? _); [lia|]. destruct (Z.even _); lia. }
    lia.
Qed.

Lemma chop_round_mono_nonneg a b : 0 <= a <= b -> chop_round a <= chop_round b.
Proof.
  intros [Ha Hab]. unfold chop_round.
  destruct (Z.ltb_spec a 0); [lia|]. destruct (Z.ltb_spec b 0); [lia|].
  apply chop_round_pos_mono. lia.
Qed.

Lemma chop_round_exact k : 0 <= k -> chop_round (k * PREC) = k.
Proof.
  intros Hk. unfold chop_round. destruct (Z.ltb_spec (k * PREC) 0); [unfold PREC in *; lia|].
  unfold chop_round_pos. rewrite Z.mod_mul by (unfold PREC; lia). cbn [Z.eqb].
  apply Z.div_mul. unfold PREC; lia.
Qed.

Lemma chop_trunc_bounds d : 0 <= d -> d - PREC < chop_trunc d * PREC <= d.
Proof.
  intros Hd. unfold chop_trunc. rewrite Z.quot_div_nonneg by (unfold PREC; lia).
  pose proof (Z.div_mod d PREC ltac:(unfold PREC; lia)).
  pose proof (Z.mod_pos_bound d PREC PREC_pos). lia.
Qed.

Lemma chop_round_up_bounds d : 0 <= d -> d <= chop_round_up d * PREC < d + PREC.
Proof.
  intros Hd. unfold chop_round_up. destruct (Z.ltb_spec d 0); [lia|].
  pose proof (Z.div_mod d PREC ltac:(unfold PREC; lia)).
  pose proof (Z.mod_pos_bound d PREC PREC_pos).
  destruct (Z.eqb_spec (d mod PREC) 0); lia.
Qed.

Lemma dec_mul_nonneg a b : 0 <= a -> 0 <= b -> 0 <= dec_mul a b.
Proof. intros. apply chop_round_nonneg. nia. Qed.

Lemma dec_mul_bounds a b :
  2 * (a * b) - PREC <= 2 * (dec_mul a b * PREC) <= 2 * (a * b) + PREC.
Proof. apply chop_round_bounds. Qed.

(* Quo: truncation toward zero then banker's rounding *)
Lemma dec_quo_bounds a b : 0 <= a -> 0 < b ->
  let t := (a * PREC * PREC) / b in
  2 * t - PREC <= 2 * (dec_quo a b * PREC) <= 2 * t + PREC.
Proof.
  intros Ha Hb t. unfold dec_quo. rewrite Z.quot_div_nonneg by (unfold PREC; nia).
  apply chop_round_bounds.
Qed.

Lemma dec_quo_nonneg a b : 0 <= a -> 0 < b -> 0 <= dec_quo a b.
Proof.
  intros Ha Hb. unfold dec_quo. apply chop_round_nonneg.
  rewrite Z.quot_div_nonneg by (unfold PREC; nia). apply Z.div_pos; [unfold PREC; nia|lia].
Qed.

Lemma dec_trunc_int_bounds a : 0 <= a -> a - PREC < dec_trunc_int a * PREC <= a.
Proof. apply chop_trunc_bounds. Qed.

Lemma dec_ceil_ge a : 0 <= a -> a <= dec_ceil a < a + PREC.
Proof.
  intros Ha. unfold dec_ceil.
  rewrite Z.quot_div_nonneg, Z.rem_mod_nonneg by (unfold PREC; lia).
  pose proof (Z.div_mod a PREC ltac:(unfold PREC; lia)).
  pose proof (Z.mod_pos_bound a PREC PREC_pos).
  destruct (Z.leb_spec (a mod PREC) 0); lia.
Qed.
