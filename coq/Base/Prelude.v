(* Common definitions for all Kava models: outcomes, function update,
   finite sums over an initial segment of nat, Z helpers.
   Stdlib only. *)
From Coq Require Export ZArith List Lia Bool Arith.
Export ListNotations.
Open Scope Z_scope.

(** Outcome of an operation: [Ok] carries the new state and an output,
    [Err] and [Panic] carry no state (a failed operation's transaction is
    discarded by baseapp; the harness reproduces that with a cached context). *)
Inductive outcome (S O : Type) : Type :=
| Ok (s : S) (o : O)
| Err
| Panic.
Arguments Ok {S O} s o.
Arguments Err {S O}.
Arguments Panic {S O}.

Definition upd {A} (f : nat -> A) (a : nat) (v : A) : nat -> A :=
  fun x => if Nat.eqb x a then v else f x.

Definition upd2 {A} (f : nat -> nat -> A) (a d : nat) (v : A) : nat -> nat -> A :=
  fun x y => if Nat.eqb x a && Nat.eqb y d then v else f x y.

Fixpoint sumN (n : nat) (f : nat -> Z) : Z :=
  match n with O => 0 | S k => sumN k f + f k end.

Definition zsum (l : list Z) : Z := fold_right Z.add 0 l.

Definition Zmin3 a b c := Z.min a (Z.min b c).

(* Go's big.Int Quo / Rem truncate toward zero: Z.quot / Z.rem. *)
